import MuduoVerif.Proofs.ConnLife
import MuduoVerif.Proofs.ConnStream
import MuduoVerif.Proofs.ConnFresh
/-!
Flow control of the connection model: write interest is on exactly while there is a backlog,
and the half-close (FIN) is emitted only after everything accepted before it was handed to the
kernel (C01 write_interest_inv, C03 fin_after_data / late_send_discarded).
-/
namespace MuduoVerif.Conn
open MuduoVerif.Gen.Conn

def Task.isSend : Task → Bool | .sendInLoop _ => true | _ => false
def Task.isShut : Task → Bool | .shutdownInLoop => true | .drainShutdownInLoop => true | _ => false

/-- every queued `sendInLoop` precedes every queued half-close -/
def okQ : List Task → Bool
  | [] => true
  | t :: r => if t.isShut then r.all (fun u => !u.isSend) else okQ r

structure FlowInv (c : Conn) : Prop where
  /-- write interest is on exactly while there is a backlog (while the connection is not down) -/
  wi : c.st ≠ .kDisconnected → (c.ch.evWrite = true ↔ c.outBuf ≠ [])
  /-- queue order -/
  q : okQ c.queue = true
  /-- while fully connected no half-close is queued or done -/
  connQ : c.st = .kConnected → c.queue.all (fun t => !t.isShut) = true ∧ c.shutWr = false
  /-- once the write side was shut down while the connection is still up: no backlog, no queued send -/
  fin : c.shutWr = true → c.st = .kDisconnecting → c.outBuf = [] ∧ c.queue.all (fun t => !t.isSend) = true

/-! ### the queue order -/

theorem okQ_of_noSend (l : List Task) (h : l.all (fun u => !u.isSend) = true) : okQ l = true := by
  induction l with
  | nil => rfl
  | cons t r ih =>
    simp only [List.all_cons, Bool.and_eq_true] at h
    simp only [okQ]; split
    · exact h.2
    · exact ih h.2

theorem okQ_tail {t : Task} {r : List Task} (h : okQ (t :: r) = true) : okQ r = true := by
  simp only [okQ] at h; split at h
  · exact okQ_of_noSend _ h
  · exact h

theorem okQ_shut_head {t : Task} {r : List Task} (h : okQ (t :: r) = true) (ht : t.isShut = true) :
    r.all (fun u => !u.isSend) = true := by
  simp only [okQ, ht, if_true] at h; exact h

/-- a functor appended at the end keeps the order, unless it is a send behind a half-close -/
theorem okQ_snoc (l : List Task) (t : Task) (h : okQ l = true)
    (ht : t.isSend = true → l.all (fun u => !u.isShut) = true) : okQ (l ++ [t]) = true := by
  induction l with
  | nil => simp [okQ]
  | cons a r ih =>
    simp only [List.cons_append, okQ] at h ⊢
    split
    · rename_i ha
      rw [if_pos ha] at h
      simp only [List.all_append, h, List.all_cons, List.all_nil, Bool.and_true, Bool.true_and]
      cases hs : t.isSend with
      | false => rfl
      | true =>
        have := ht hs
        simp only [List.all_cons, Bool.and_eq_true, ha] at this
        exact absurd this.1 (by simp)
    · rename_i ha
      rw [if_neg ha] at h
      apply ih h
      intro hs
      have := ht hs
      simp only [List.all_cons, Bool.and_eq_true] at this
      exact this.2

theorem all_snoc (p : Task → Bool) (l : List Task) (t : Task) (h : l.all p = true) (ht : p t = true) :
    (l ++ [t]).all p = true := by
  rw [List.all_append, h, List.all_cons, ht]; rfl

/-! ### frames -/

/-- `c'` differs from `c` only in fields the flow invariant does not read -/
structure SameFlow (c c' : Conn) : Prop where
  st : c'.st = c.st
  evWrite : c'.ch.evWrite = c.ch.evWrite
  outBuf : c'.outBuf = c.outBuf
  shutWr : c'.shutWr = c.shutWr
  batch : c'.batch = c.batch
  pending : c'.pending = c.pending

theorem FlowInv.frame {c c' : Conn} (hi : FlowInv c) (h : SameFlow c c') : FlowInv c' := by
  have hq : c'.queue = c.queue := by unfold Conn.queue; rw [h.batch, h.pending]
  constructor
  · rw [h.st, h.evWrite, h.outBuf]; exact hi.wi
  · rw [hq]; exact hi.q
  · rw [h.st, hq, h.shutWr]; exact hi.connQ
  · rw [h.st, hq, h.shutWr, h.outBuf]; exact hi.fin

theorem popWrite_sameF (c : Conn) : SameFlow c (popWrite c) := by
  unfold popWrite; split <;> exact ⟨rfl, rfl, rfl, rfl, rfl, rfl⟩
theorem popRead_sameF (c : Conn) : SameFlow c (popRead c) := by
  unfold popRead; split <;> exact ⟨rfl, rfl, rfl, rfl, rfl, rfl⟩

theorem emit_flow (c : Conn) (e : Ev) (hi : FlowInv c) : FlowInv (emit c e) :=
  hi.frame ⟨rfl, rfl, rfl, rfl, rfl, rfl⟩

/-- a connection that is down satisfies everything but the queue order trivially -/
theorem FlowInv.ofDown {c : Conn} (hd : c.st = .kDisconnected) (hq : okQ c.queue = true) : FlowInv c := by
  constructor
  · intro h; exact absurd hd h
  · exact hq
  · intro h; rw [hd] at h; cases h
  · intro _ h; rw [hd] at h; cases h

/-- queueing a functor that is neither a send nor a half-close -/
theorem enqueue_flow (c : Conn) (t : Task) (h1 : t.isSend = false) (h2 : t.isShut = false) (hi : FlowInv c) :
    FlowInv (enqueue c t) := by
  constructor
  · exact hi.wi
  · rw [queue_enqueue]; exact okQ_snoc _ _ hi.q (by simp [h1])
  · intro h
    obtain ⟨a, b⟩ := hi.connQ h
    refine ⟨?_, b⟩
    rw [queue_enqueue]; simp [List.all_append, a, h2]
  · intro h h'
    obtain ⟨a, b⟩ := hi.fin h h'
    refine ⟨a, ?_⟩
    rw [queue_enqueue]; simp [List.all_append, b, h1]

theorem chanUpdate_evWrite (be : Backend) (ch : Chan) : (chanUpdate be ch).evWrite = ch.evWrite := by
  unfold chanUpdate; split <;> (try split) <;> rfl

/-- changing the channel's interest: allowed when the new write interest matches the backlog -/
theorem setEvents_flow (c : Conn) (r w : Bool) (hw : c.st ≠ .kDisconnected → (w = true ↔ c.outBuf ≠ []))
    (hi : FlowInv c) : FlowInv (setEvents c r w) := by
  constructor
  · intro h
    have : (setEvents c r w).ch.evWrite = w := by simp only [setEvents, chanUpdate_evWrite]
    rw [this]; exact hw h
  · exact hi.q
  · exact hi.connQ
  · exact hi.fin

/-- changing read interest only -/
theorem setRead_flow (c : Conn) (r : Bool) (hi : FlowInv c) : FlowInv (setEvents c r c.ch.evWrite) :=
  setEvents_flow c r _ hi.wi hi

/-! ### the send path -/

/-- the half-close has been done and the connection is still up -/
def Conn.finDone (c : Conn) : Prop := c.shutWr = true ∧ c.st = .kDisconnecting

theorem queueRemainder_flow (c : Conn) (data : Bytes) (n : Nat) (fault : Bool)
    (hnf : ¬ c.finDone) (hi : FlowInv c) : FlowInv (queueRemainder c data n fault) := by
  unfold queueRemainder
  split
  · rename_i hq
    have hne : data.drop n ≠ [] := by
      simp only [queueRest] at hq
      intro h; have := congrArg List.length h; simp at this; omega
    simp only
    have key : ∀ c1 : Conn, FlowInv c1 → ¬ c1.finDone →
        FlowInv (if sendEnablesWriting ({ c1 with outBuf := c1.outBuf ++ data.drop n } : Conn).ch.evWrite
          then enableWriting { c1 with outBuf := c1.outBuf ++ data.drop n }
          else { c1 with outBuf := c1.outBuf ++ data.drop n }) := by
      intro c1 h1 hn1
      split
      · constructor
        · intro _; simp [enableWriting, setEvents, chanUpdate_evWrite, hne]
        · exact h1.q
        · exact h1.connQ
        · intro a b; exact absurd ⟨a, b⟩ hn1
      · rename_i hw
        have hw' : c1.ch.evWrite = true := by simpa [sendEnablesWriting] using hw
        constructor
        · intro _; simp [hw', hne]
        · exact h1.q
        · exact h1.connQ
        · intro a b; exact absurd ⟨a, b⟩ hn1
    split
    · exact key _ (enqueue_flow _ _ rfl rfl hi) hnf
    · exact key _ hi hnf
  · split
    · exact hi.frame ⟨rfl, rfl, rfl, rfl, rfl, rfl⟩
    · exact hi

theorem sendDirect_flow (c : Conn) (data : Bytes) (r : WriteRes)
    (hnf : ¬ c.finDone) (hi : FlowInv c) : FlowInv (sendDirect c data r) := by
  cases r with
  | took n =>
    simp only [sendDirect]
    have b : FlowInv ({ c with wrote := c.wrote ++ data.take n } : Conn) :=
      hi.frame ⟨rfl, rfl, rfl, rfl, rfl, rfl⟩
    split
    · exact queueRemainder_flow _ _ _ _ hnf (enqueue_flow _ _ rfl rfl b)
    · exact queueRemainder_flow _ _ _ _ hnf b
  | err e => exact queueRemainder_flow _ _ _ _ hnf hi

/-- `sendInLoop` never runs after the half-close was done (see `runTask_flow`, `act_flow`) -/
theorem sendInLoop_flow (c : Conn) (data : Bytes) (q : Bool) (hnf : ¬ c.finDone) (hi : FlowInv c) :
    FlowInv (sendInLoop c data q) := by
  unfold sendInLoop
  split
  · exact emit_flow _ _ hi
  · split
    · have hs : SameFlow c (emit (popWrite (accept c data q)) (Ev.sysWrite data.length (peekWrite c))) := by
        have := popWrite_sameF (accept c data q)
        exact ⟨this.st, this.evWrite, this.outBuf, this.shutWr, this.batch, this.pending⟩
      apply sendDirect_flow
      · unfold Conn.finDone; rw [hs.shutWr, hs.st]; exact hnf
      · exact hi.frame hs
    · exact queueRemainder_flow _ _ _ _ hnf (hi.frame ⟨rfl, rfl, rfl, rfl, rfl, rfl⟩)

/-- the half-close itself. It must come out of the functor queue, in front of no `sendInLoop`
(`hns`), and not while the state is still `kConnected` (`hnc`). -/
theorem shutdownInLoop_flow (c : Conn) (hns : c.queue.all (fun t => !t.isSend) = true) (hnc : c.st ≠ .kConnected)
    (hi : FlowInv c) : FlowInv (shutdownInLoop c) := by
  unfold shutdownInLoop; split
  · rename_i hg
    have hw : c.ch.evWrite = false := by simpa [shutdownNow] using hg
    constructor
    · exact hi.wi
    · exact hi.q
    · intro h; exact absurd h hnc
    · intro _ hst
      refine ⟨?_, hns⟩
      have hst' : c.st = .kDisconnecting := hst
      have := hi.wi (by rw [hst']; simp)
      rw [hw] at this
      cases ho : c.outBuf with
      | nil => rfl
      | cons a l => rw [ho] at this; simp at this
  · exact hi

theorem startReadInLoop_flow (c : Conn) (hi : FlowInv c) : FlowInv (startReadInLoop c) := by
  unfold startReadInLoop; split
  · exact (setRead_flow c true hi).frame ⟨rfl, rfl, rfl, rfl, rfl, rfl⟩
  · exact hi

theorem stopReadInLoop_flow (c : Conn) (hi : FlowInv c) : FlowInv (stopReadInLoop c) := by
  unfold stopReadInLoop; split
  · exact (setRead_flow c false hi).frame ⟨rfl, rfl, rfl, rfl, rfl, rfl⟩
  · exact hi

theorem handOff_flow (c : Conn) (f : Bool) (d : Dispatch) (t : Task) (g : Conn → Conn)
    (h1 : t.isSend = false) (h2 : t.isShut = false) (hi : FlowInv c) (hg : FlowInv c → FlowInv (g c)) :
    FlowInv (handOff c f d t g) := by
  unfold handOff; split
  · exact enqueue_flow _ _ h1 h2 hi
  · exact hg hi

/-- `setState(kDisconnecting)` followed by queueing a functor that is not a send -/
theorem disconnecting_flow (c : Conn) (t : Task) (h1 : t.isSend = false) (hu : c.isUp) (hi : FlowInv c) :
    FlowInv (enqueue { c with st := .kDisconnecting } t) := by
  constructor
  · intro _; exact hi.wi (isUp_ne hu)
  · rw [queue_enqueue]; exact okQ_snoc _ _ hi.q (by simp [h1])
  · intro h; cases h
  · intro h _
    have h' : c.shutWr = true := h
    have hst : c.st = .kDisconnecting := by
      rcases hu with hc | hc
      · have := (hi.connQ hc).2; rw [h'] at this; cases this
      · exact hc
    obtain ⟨a, b⟩ := hi.fin h' hst
    refine ⟨a, ?_⟩
    rw [queue_enqueue]
    have b' : ({ c with st := StateE.kDisconnecting } : Conn).queue.all (fun t => !t.isSend) = true := b
    simp [List.all_append, b', h1]

theorem disconnecting_flow' (c : Conn) (hu : c.isUp) (hi : FlowInv c) :
    FlowInv ({ c with st := .kDisconnecting } : Conn) := by
  constructor
  · intro _; exact hi.wi (isUp_ne hu)
  · exact hi.q
  · intro h; cases h
  · intro h _
    have h' : c.shutWr = true := h
    have hst : c.st = .kDisconnecting := by
      rcases hu with hc | hc
      · have := (hi.connQ hc).2; rw [h'] at this; cases this
      · exact hc
    exact hi.fin h' hst

/-- `shutdown()` hands `shutdownInLoop` to the loop through `queueInLoop` — on every thread.
(`shutdownDispatch` is extracted from the source; with `runInLoop` the half-close would run
at once on the loop thread, in front of the `sendInLoop` functors already queued, and the
invariant `fin` would be false: that was a real defect.  This lemma is where the proof depends
on `shutdownDispatch = .queue`.) -/
theorem shutdown_queued (c : Conn) (f : Bool) :
    handOff c f shutdownDispatch Task.shutdownInLoop shutdownInLoop = enqueue c .shutdownInLoop := by
  unfold handOff; rw [if_pos]; simp [shutdownDispatch]

/-- the same for the deferred half-close of `handleWrite` (`drainShutdownDispatch = .queue`) -/
theorem drainShutdown_queued (c : Conn) :
    handOff c false drainShutdownDispatch Task.drainShutdownInLoop shutdownInLoop = enqueue c .drainShutdownInLoop := by
  unfold handOff; rw [if_pos]; simp [drainShutdownDispatch]

theorem act_flow (c : Conn) (f : Bool) (a : Act) (hi : FlowInv c) : FlowInv (act c f a) := by
  cases a with
  | send d =>
    simp only [act]; split
    · rename_i hg
      have hc : c.st = .kConnected := hg
      obtain ⟨hq, hs⟩ := hi.connQ hc
      split
      · -- queued behind everything; no half-close is queued while `kConnected`
        constructor
        · exact hi.wi
        · rw [queue_enqueue]; exact okQ_snoc _ _ hi.q (fun _ => hq)
        · intro _; refine ⟨?_, hs⟩
          rw [queue_enqueue]
          have hq' : ({ c with offeredF := c.offeredF ++ [d] } : Conn).queue.all (fun t => !t.isShut) = true := hq
          exact all_snoc _ _ _ hq' rfl
        · intro _ h; have h' : c.st = .kDisconnecting := h; rw [hc] at h'; cases h'
      · apply sendInLoop_flow
        · intro h; have h1 : c.shutWr = true := h.1; rw [hs] at h1; cases h1
        · exact hi.frame ⟨rfl, rfl, rfl, rfl, rfl, rfl⟩
    · exact hi
  | shutdown =>
    simp only [act]; split
    · rename_i hg
      have hu : c.isUp := Or.inl hg
      rw [shutdown_queued]
      exact disconnecting_flow c _ rfl hu hi
    · exact hi
  | forceClose =>
    simp only [act]; split
    · rename_i hg
      have hu : c.isUp := hg
      unfold handOff; split
      · exact disconnecting_flow c _ rfl hu hi
      · exact disconnecting_flow' c hu hi
    · exact hi
  | forceCloseDelay us =>
    simp only [act]; split
    · rename_i hg
      have hu : c.isUp := hg
      split
      · exact disconnecting_flow c _ rfl hu hi
      · exact (disconnecting_flow' c hu hi).frame ⟨rfl, rfl, rfl, rfl, rfl, rfl⟩
    · exact hi
  | stopRead => simp only [act]; exact handOff_flow _ _ _ _ _ rfl rfl hi (stopReadInLoop_flow _)
  | startRead => simp only [act]; exact handOff_flow _ _ _ _ _ rfl rfl hi (startReadInLoop_flow _)
  | setWc k => exact hi.frame ⟨rfl, rfl, rfl, rfl, rfl, rfl⟩
  | setHwm k m => exact hi.frame ⟨rfl, rfl, rfl, rfl, rfl, rfl⟩

/-! ### callbacks and handlers -/

theorem callback_flow (c : Conn) (k : Cb) (e : Ev) (hi : FlowInv c) : FlowInv (callback c k e) := by
  unfold callback; split
  · exact act_flow _ _ _ (hi.frame ⟨rfl, rfl, rfl, rfl, rfl, rfl⟩)
  · exact emit_flow _ _ hi

theorem handleClose_flow (c : Conn) (hi : FlowInv c) : FlowInv (handleClose c) := by
  unfold handleClose
  split
  · exact hi.frame ⟨rfl, rfl, rfl, rfl, rfl, rfl⟩
  · have h0 : FlowInv (disableAll { c with st := .kDisconnected }) := FlowInv.ofDown rfl hi.q
    have h1 := emit_flow _ .closeCb (callback_flow _ .down .down h0)
    exact enqueue_flow _ _ rfl rfl (h1.frame ⟨rfl, rfl, rfl, rfl, rfl, rfl⟩)

theorem handleReadRes_flow (c : Conn) (r : ReadRes) (hi : FlowInv c) : FlowInv (handleReadRes c r) := by
  unfold handleReadRes
  split
  · exact handleClose_flow _ hi
  · rename_i n
    simp only
    have hd : FlowInv (deliver c (n + 1)) := hi.frame ⟨rfl, rfl, rfl, rfl, rfl, rfl⟩
    exact (callback_flow (deliver c (n + 1)) .msg _ hd).frame ⟨rfl, rfl, rfl, rfl, rfl, rfl⟩
  · exact hi

theorem handleRead_flow (c : Conn) (hi : FlowInv c) : FlowInv (handleRead c) := by
  unfold handleRead
  exact handleReadRes_flow _ _ (emit_flow _ _ (hi.frame (popRead_sameF _)))

/-- the backlog became empty: write interest off, and the deferred half-close is QUEUED
(behind whatever is pending) -/
theorem afterDrain_flow (c : Conn) (h1 : FlowInv (disableWriting c)) : FlowInv (afterDrain c) := by
  unfold afterDrain
  simp only
  have key : ∀ c2 : Conn, FlowInv c2 →
      FlowInv (if drainShutdown c2.st then handOff c2 false drainShutdownDispatch .drainShutdownInLoop shutdownInLoop else c2) := by
    intro c2 h2
    split
    · rename_i hg
      have hst : c2.st = .kDisconnecting := hg
      rw [drainShutdown_queued]
      constructor
      · exact h2.wi
      · rw [queue_enqueue]; exact okQ_snoc _ _ h2.q (by simp [Task.isSend])
      · intro h; have h' : c2.st = .kConnected := h; rw [hst] at h'; cases h'
      · intro a b
        obtain ⟨x, y⟩ := h2.fin a b
        refine ⟨x, ?_⟩
        rw [queue_enqueue]; exact all_snoc _ _ _ y rfl
    · exact h2
  split
  · exact key _ (enqueue_flow _ _ rfl rfl h1)
  · exact key _ h1

theorem handleWriteRes_flow (c : Conn) (r : WriteRes) (hw : c.ch.evWrite = true) (hi : FlowInv c) :
    FlowInv (handleWriteRes c r) := by
  unfold handleWriteRes
  split
  · rename_i n
    simp only
    split
    · rename_i hd
      have ho : c.outBuf.drop (n + 1) = [] := List.eq_nil_of_length_eq_zero hd
      apply afterDrain_flow
      constructor
      · intro _; simp [disableWriting, setEvents, chanUpdate_evWrite, ho]
      · exact hi.q
      · exact hi.connQ
      · intro a b; exact ⟨ho, (hi.fin a b).2⟩
    · rename_i hd
      have ho : c.outBuf.drop (n + 1) ≠ [] := by
        intro h; apply hd; simp only [drained]; rw [h]; rfl
      constructor
      · intro _; simp [hw, ho]
      · exact hi.q
      · exact hi.connQ
      · intro a b
        obtain ⟨x, y⟩ := hi.fin a b
        refine ⟨?_, y⟩
        have x' : c.outBuf = [] := x
        simp [x']
  · exact hi

theorem handleWrite_flow (c : Conn) (hi : FlowInv c) : FlowInv (handleWrite c) := by
  unfold handleWrite; split
  · rename_i hg
    have hs : SameFlow c (emit (popWrite c) (.sysWrite c.outBuf.length (peekWrite c))) := by
      have := popWrite_sameF c
      exact ⟨this.st, this.evWrite, this.outBuf, this.shutWr, this.batch, this.pending⟩
    exact handleWriteRes_flow _ _ (by rw [hs.evWrite]; exact hg) (hi.frame hs)
  · exact hi

theorem guarded_flow (f : Conn → Conn) (hf : ∀ c, FlowInv c → FlowInv (f c)) (rev : Prop) [Decidable rev]
    (sub : Bool → Bool → Bool → Prop) [∀ a b c, Decidable (sub a b c)]
    (c : Conn) (hi : FlowInv c) : FlowInv (guarded f rev sub c) := by
  unfold guarded; split; exact hf _ hi; exact hi

theorem handleEvent_flow (c : Conn) (r : Nat) (hi : FlowInv c) : FlowInv (handleEvent c r) := by
  unfold handleEvent
  split
  · exact hi
  · exact guarded_flow _ handleWrite_flow _ _ _
      (guarded_flow _ handleRead_flow _ _ _ (guarded_flow _ handleClose_flow _ _ _ hi))

/-! ### destruction, functors, iterations -/

theorem removeChannel_flow (c : Conn) (hi : FlowInv c) : FlowInv (removeChannel c) := by
  unfold removeChannel; split
  · exact hi.frame ⟨rfl, rfl, rfl, rfl, rfl, rfl⟩
  · exact hi.frame ⟨rfl, rfl, rfl, rfl, rfl, rfl⟩

theorem connectDestroyed_flow (c : Conn) (hi : FlowInv c) : FlowInv (connectDestroyed c) := by
  unfold connectDestroyed; split
  · exact removeChannel_flow _ (callback_flow _ _ _ (FlowInv.ofDown rfl hi.q))
  · exact removeChannel_flow _ hi

/-- a functor taken from the head of the batch runs.  A `sendInLoop` at the head shows that the
half-close has not been done (`fin`); a half-close at the head has no `sendInLoop` behind it
(`q`) and the state is no longer `kConnected` (`connQ`). -/
theorem runTask_flow (c : Conn) (t : Task) (rest : List Task) (hb : c.batch = t :: rest) (hi : FlowInv c) :
    FlowInv (runTask { c with batch := rest } t) := by
  have hq : c.queue = t :: (rest ++ c.pending) := by simp [Conn.queue, hb]
  have hq' : ({ c with batch := rest } : Conn).queue = rest ++ c.pending := rfl
  have hpop : FlowInv ({ c with batch := rest } : Conn) := by
    constructor
    · exact hi.wi
    · rw [hq']; have := hi.q; rw [hq] at this; exact okQ_tail this
    · intro h
      obtain ⟨a, b⟩ := hi.connQ h
      rw [hq, List.all_cons, Bool.and_eq_true] at a
      exact ⟨a.2, b⟩
    · intro h h'
      obtain ⟨a, b⟩ := hi.fin h h'
      rw [hq, List.all_cons, Bool.and_eq_true] at b
      exact ⟨a, b.2⟩
  have hshut : t.isShut = true → FlowInv (shutdownInLoop { c with batch := rest }) := by
    intro ht
    apply shutdownInLoop_flow _ _ _ hpop
    · rw [hq']; have := hi.q; rw [hq] at this; exact okQ_shut_head this ht
    · intro h
      have a := (hi.connQ h).1
      rw [hq, List.all_cons, ht] at a
      cases a
  unfold runTask
  split
  · split
    · exact hpop.frame ⟨rfl, rfl, rfl, rfl, rfl, rfl⟩
    · split
      · exact hpop
      · exact hpop.frame ⟨rfl, rfl, rfl, rfl, rfl, rfl⟩
  · cases t with
    | sendInLoop d =>
      apply sendInLoop_flow _ _ _ _ hpop
      intro h
      have b := (hi.fin h.1 h.2).2
      rw [hq, List.all_cons] at b
      cases b
    | shutdownInLoop => exact hshut rfl
    | drainShutdownInLoop => exact hshut rfl
    | forceCloseInLoop => simp only; split; exact handleClose_flow _ hpop; exact hpop
    | connectDestroyed => exact connectDestroyed_flow _ hpop
    | writeComplete => exact callback_flow _ _ _ hpop
    | highWater n => exact callback_flow _ _ _ hpop
    | startReadInLoop => exact startReadInLoop_flow _ hpop
    | stopReadInLoop => exact stopReadInLoop_flow _ hpop
    | addDelayTimer d => exact hpop.frame ⟨rfl, rfl, rfl, rfl, rfl, rfl⟩

theorem runBatch_flow (n : Nat) (c : Conn) (hi : FlowInv c) : FlowInv (runBatch n c) := by
  induction n generalizing c with
  | zero => exact hi
  | succ n ih =>
    unfold runBatch; split
    · exact hi
    · split
      · exact hi
      · rename_i t rest hb
        exact ih _ (runTask_flow c t rest hb hi)

theorem maybeDestroy_flow (c : Conn) (hi : FlowInv c) : FlowInv (maybeDestroy c) := by
  unfold maybeDestroy
  split
  · split
    · exact hi.frame ⟨rfl, rfl, rfl, rfl, rfl, rfl⟩
    · split
      · exact hi.frame ⟨rfl, rfl, rfl, rfl, rfl, rfl⟩
      · exact hi.frame ⟨rfl, rfl, rfl, rfl, rfl, rfl⟩
  · exact hi

theorem fireDelay_flow (c : Conn) (hi : FlowInv c) : FlowInv (fireDelay c) := by
  unfold fireDelay; split
  · exact act_flow _ _ _ hi
  · exact hi

theorem fireN_flow (n : Nat) (c : Conn) (hi : FlowInv c) : FlowInv (fireN c n) := by
  induction n generalizing c with
  | zero => exact hi
  | succ n ih => exact ih _ (fireDelay_flow _ hi)

theorem fireTimers_flow (c : Conn) (hi : FlowInv c) : FlowInv (fireTimers c) := by
  unfold fireTimers; exact fireN_flow _ _ (hi.frame ⟨rfl, rfl, rfl, rfl, rfl, rfl⟩)

theorem dispatch_flow (c : Conn) (s : Src) (hi : FlowInv c) : FlowInv (dispatch c s) := by
  cases s with
  | conn r => simp only [dispatch]; split; exact hi; exact handleEvent_flow _ _ hi
  | timer => simp only [dispatch]; split; exact hi; exact fireTimers_flow _ hi

theorem foldl_dispatch_flow (l : List Src) (c : Conn) (hi : FlowInv c) : FlowInv (l.foldl dispatch c) := by
  induction l generalizing c with
  | nil => exact hi
  | cons s rest ih => exact ih _ (dispatch_flow _ _ hi)

/-- `doPendingFunctors`: the swap keeps the order (`batch ++ pending`), the functors run from the front -/
theorem drainPending_flow (c : Conn) (hi : FlowInv c) : FlowInv (drainPending c) := by
  unfold drainPending
  apply runBatch_flow
  have hq : ({ c with pending := [], batch := c.batch ++ c.pending } : Conn).queue = c.queue := by
    simp [Conn.queue]
  constructor
  · exact hi.wi
  · rw [hq]; exact hi.q
  · rw [hq]; exact hi.connQ
  · rw [hq]; exact hi.fin

theorem iter_flow (c : Conn) (a : List Src) (hi : FlowInv c) : FlowInv (iter c a) := by
  unfold iter
  split
  · exact hi
  · simp only
    have h1 := drainPending_flow _ (foldl_dispatch_flow a c hi)
    split
    · exact h1
    · exact maybeDestroy_flow _ h1

/-- every input except a second hand-over keeps the flow invariant (the life-cycle invariant is
not needed: `FlowInv` is inductive on its own) -/
theorem step_flow (c : Conn) (i : Input) (hne : i.notEstablish) (_hl : LifeInv c) (hi : FlowInv c) :
    FlowInv (step c i) := by
  cases i with
  | establish => exact absurd hne (by simp [Input.notEstablish])
  | act f a =>
    simp only [step]; split
    · exact hi
    · split
      · exact act_flow _ _ _ hi
      · exact act_flow _ _ _ hi
  | iter a => exact iter_flow _ _ hi
  | ownerDestroy =>
    simp only [step]; split
    · exact hi
    · exact maybeDestroy_flow _ ((connectDestroyed_flow c hi).frame ⟨rfl, rfl, rfl, rfl, rfl, rfl⟩)
  | hook k a => exact hi.frame ⟨rfl, rfl, rfl, rfl, rfl, rfl⟩
  | setMark n => exact hi.frame ⟨rfl, rfl, rfl, rfl, rfl, rfl⟩
  | setRetrieve n => exact hi.frame ⟨rfl, rfl, rfl, rfl, rfl, rfl⟩
  | peerWrite d => exact hi.frame ⟨rfl, rfl, rfl, rfl, rfl, rfl⟩
  | envWrite r => exact hi.frame ⟨rfl, rfl, rfl, rfl, rfl, rfl⟩
  | envRead r => exact hi.frame ⟨rfl, rfl, rfl, rfl, rfl, rfl⟩
  | advance us => exact hi.frame ⟨rfl, rfl, rfl, rfl, rfl, rfl⟩

theorem run_flow (ins : List Input) (c : Conn) (hne : ∀ i ∈ ins, i.notEstablish) (hl : LifeInv c) (hi : FlowInv c) :
    FlowInv (run c ins) ∧ LifeInv (run c ins) := by
  induction ins generalizing c with
  | nil => exact ⟨hi, hl⟩
  | cons i rest ih =>
    have h1 := hne i (List.mem_cons_self ..)
    exact ih (step c i) (fun j hj => hne j (List.mem_cons_of_mem _ hj)) (step_life c i h1 hl) (step_flow c i h1 hl hi)

/-! ### establishment -/

/-- the state in which the `up` callback runs -/
theorem established_life (c : Conn) (h : Fresh c) : LifeInv (emit (enableReading { c with st := .kConnected }) .up) := by
  constructor
  · simp only [emit, enableReading, setEvents, h.trace, phaseOf, h.alive]; rfl
  · exact h.dead
  · simp [emit, enableReading, setEvents]
  · intro h'; have : c.owner = false := h'; rw [h.owner] at this; cases this
  · intro h'; cases h'
  · intro _ h'; have : c.owner = false := h'; rw [h.owner] at this; cases this
  · intro h'; have : c.alive = false := h'; rw [h.alive] at this; cases this

theorem establish_life (c : Conn) (h : Fresh c) : LifeInv (step c .establish) := by
  simp only [step, connectEstablished]
  rw [if_neg (by simp [h.dead]), if_neg (by simp [h.st])]
  exact callback_life _ _ _ h.alive (established_life c h)

theorem establish_flow (c : Conn) (h : Fresh c) : FlowInv (step c .establish) := by
  simp only [step, connectEstablished]
  rw [if_neg (by simp [h.dead]), if_neg (by simp [h.st])]
  apply callback_flow
  constructor
  · intro _; simp [enableReading, setEvents, chanUpdate_evWrite, h.ch, h.outBuf]
  · simp [Conn.queue, enableReading, setEvents, h.batch, h.pending, okQ]
  · intro _; simp [Conn.queue, enableReading, setEvents, h.batch, h.pending, h.shutWr]
  · intro h'; have : c.shutWr = true := h'; rw [h.shutWr] at this; cases this

theorem establish_stream (c : Conn) (h : Fresh c) : StreamInv (step c .establish) := by
  apply step_stream
  intro _; rw [h.wrote, h.outBuf, h.accepted]; rfl

/-! ### consequences -/

/-- everything proved about a state reached from a fresh connection -/
theorem reach_all (c0 : Conn) (h0 : Fresh c0) (ins : List Input) (hne : ∀ i ∈ ins, i.notEstablish) :
    FlowInv (run (step c0 .establish) ins) ∧ LifeInv (run (step c0 .establish) ins) ∧
      StreamInv (run (step c0 .establish) ins) :=
  have h := run_flow ins _ hne (establish_life c0 h0) (establish_flow c0 h0)
  ⟨h.1, h.2, run_stream ins _ (establish_stream c0 h0)⟩

/-- C03 fin_after_data: in every state reached from a fresh connection, if the write side has been shut down while the
connection is still up, then nothing is left to write, no accepted `send` is still queued, and (unless a fatal
write error discarded data) every accepted byte has been handed to the kernel -/
theorem fin_after_data (c0 : Conn) (h0 : Fresh c0) (ins : List Input) (hne : ∀ i ∈ ins, i.notEstablish) :
    let c := run (step c0 .establish) ins
    c.shutWr = true → c.st = .kDisconnecting →
      c.outBuf = [] ∧ c.queue.all (fun t => !t.isSend) = true ∧ (c.discarded = false → c.wrote = c.accepted) := by
  intro c hs hd
  obtain ⟨hf, _, hst⟩ := reach_all c0 h0 ins hne
  obtain ⟨a, b⟩ := hf.fin hs hd
  refine ⟨a, b, ?_⟩
  intro hdis
  have := hst hdis
  have a' : c.outBuf = [] := a
  rw [a', List.append_nil] at this
  exact this

/-- write interest invariant (C01 write_interest_inv) -/
theorem write_interest (c0 : Conn) (h0 : Fresh c0) (ins : List Input) (hne : ∀ i ∈ ins, i.notEstablish) :
    let c := run (step c0 .establish) ins
    c.st ≠ .kDisconnected → (c.ch.evWrite = true ↔ c.outBuf ≠ []) := by
  intro c
  exact (reach_all c0 h0 ins hne).1.wi

/-- C03 late_send_discarded: a `send()` on any thread when the connection is not `kConnected` (after shutdown(),
forceClose(), or DOWN) changes nothing -/
theorem late_send_discarded (c : Conn) (f : Bool) (d : Bytes) (h : c.st ≠ .kConnected) : act c f (.send d) = c := by
  simp only [act]; rw [if_neg]; exact h

/-- the moment the FIN is emitted: `shutdownInLoop` on a connection that is up emits it only with an empty backlog -/
theorem fin_emitted_clean (c : Conn) (hi : FlowInv c) (hu : c.st ≠ .kDisconnected)
    (h : (shutdownInLoop c).shutWr = true) (h0 : c.shutWr = false) : c.outBuf = [] := by
  unfold shutdownInLoop at h
  split at h
  · rename_i hg
    have hw : c.ch.evWrite = false := by simpa [shutdownNow] using hg
    have := hi.wi hu
    rw [hw] at this
    cases ho : c.outBuf with
    | nil => rfl
    | cons a l => rw [ho] at this; simp at this
  · rw [h0] at h; cases h

/-! ### the hypotheses are satisfiable, and the queued hand-off matters -/

/-- a send from another thread is queued, `shutdown()` is called on the loop thread, the first
iteration writes one byte of three (short write), the second one drains the backlog and runs
the deferred half-close -/
def finRun : List Input :=
  [.act true (.send [1, 2, 3]), .act false .shutdown, .envWrite (.took 1), .iter [],
   .envWrite (.took 2), .iter [.conn 4]]

/-- the premises of `fin_after_data` are reached by a run in which data and half-close compete:
after the first iteration two bytes are still buffered and no FIN was sent; after the second
the FIN is out, the state is still `kDisconnecting` and all three bytes were written before it -/
example :
    Fresh ({} : Conn) ∧ (∀ i ∈ finRun, i.notEstablish) ∧
    (run (step {} .establish) (finRun.take 4)).outBuf = [2, 3] ∧
    (run (step {} .establish) (finRun.take 4)).shutWr = false ∧
    (run (step {} .establish) finRun).shutWr = true ∧
    (run (step {} .establish) finRun).st = .kDisconnecting ∧
    (run (step {} .establish) finRun).wrote = [1, 2, 3] ∧
    (run (step {} .establish) finRun).trace =
      [.up, .sysWrite 3 (.took 1), .sysWrite 2 (.took 2), .wc 1, .sysShutdownWr] := by
  refine ⟨fresh_default .epoll true true true _ _ [] [] [], ?_, by decide, by decide, by decide, by decide,
    by decide, by decide⟩
  intro i hi
  simp only [finRun, List.mem_cons, List.not_mem_nil, or_false] at hi
  rcases hi with h | h | h | h | h | h <;> subst h <;> trivial

/-- had `shutdown()` run `shutdownInLoop` at once on the loop thread (`runInLoop`), the FIN would
overtake a `sendInLoop` that another thread queued before: `FlowInv` holds before and fails after -/
example :
    let c : Conn := { st := .kConnected, pending := [.sendInLoop [1]] }
    FlowInv c ∧ ¬ FlowInv (shutdownInLoop { c with st := .kDisconnecting }) := by
  intro c
  constructor
  · constructor
    · intro _; decide
    · decide
    · intro _; decide
    · intro h; cases h
  · intro h
    have := (h.fin (by decide) (by decide)).2
    revert this; decide

end MuduoVerif.Conn
