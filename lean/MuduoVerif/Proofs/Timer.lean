import MuduoVerif.Model.Timer
import Mathlib.Tactic.Linarith
import Mathlib.Data.List.Basic
/-! Lemmas about the timer engine model: arithmetic of the generated functions, the trace lemma behind
`never_early`, sequence numbers. -/
namespace MuduoVerif.Timer
open MuduoVerif.Gen.Timer

/-! ### the generated integer functions -/

theorem howMuchUs_eq (w n : Int) : howMuchUs w n = max (w - n) 100 := by
  unfold howMuchUs; simp only []; split <;> omega

theorem howMuchUs_floor (w n : Int) : 100 ≤ howMuchUs w n := by
  rw [howMuchUs_eq]; omega

/-- the absolute alarm time: the deadline, but never sooner than 100 us after the reading -/
theorem alarm_eq (w n : Int) : n + howMuchUs w n = max w (n + 100) := by
  rw [howMuchUs_eq]; omega

/-- the `timespec` carries exactly that many microseconds (no truncation loss, non-negative fields) -/
theorem timespec_exact (w n : Int) :
    (howMuchTimeFromNow w n).1 * 1000000 + (howMuchTimeFromNow w n).2 / 1000 = howMuchUs w n
    ∧ 0 ≤ (howMuchTimeFromNow w n).1 ∧ 0 ≤ (howMuchTimeFromNow w n).2 ∧ (howMuchTimeFromNow w n).2 < 1000000000 := by
  have h := howMuchUs_floor w n
  unfold howMuchTimeFromNow kMicroSecondsPerSecond
  simp only []
  generalize howMuchUs w n = u at *
  have h0 : (0 : Int) ≤ u := by omega
  rw [Int.tdiv_eq_ediv_of_nonneg h0, Int.tmod_eq_emod_of_nonneg h0]
  omega

/-- `addTime` of the unchanged code: `seconds` stands for `us / 10^6` (exact rational), the product with
`kMicroSecondsPerSecond` is truncated to an `int64_t` and added in 64 bits: the result is `timestamp + us`, no 32-bit
intermediate value anywhere -/
theorem addTime_eq (t us : Int) : addTime t us = t + us := by
  unfold addTime kMicroSecondsPerSecond
  simp only [Int.mul_tdiv_cancel us (by decide : (1000000 : Int) ≠ 0)]

theorem wrapI64_of_range {x : Int} (h1 : -9223372036854775808 ≤ x) (h2 : x < 9223372036854775808) : wrapI64 x = x := by
  unfold wrapI64
  exact Int.bmod_eq_of_le_mul_two (by omega) (by omega)

/-- the machine's arithmetic (every 64-bit operation and the double → int64_t conversion wrapped) gives the same
result whenever the delay and the sum are representable in an `int64_t` -/
theorem addTimeW_eq (t us : Int) (hd1 : -9223372036854775808 ≤ us) (hd2 : us < 9223372036854775808)
    (h1 : -9223372036854775808 ≤ t + us) (h2 : t + us < 9223372036854775808) : addTimeW t us = t + us := by
  unfold addTimeW kMicroSecondsPerSecond
  simp only [Int.mul_tdiv_cancel us (by decide : (1000000 : Int) ≠ 0)]
  rw [wrapI64_of_range hd1 hd2, wrapI64_of_range h1 h2]

/-- `howMuchTimeFromNow` in the machine's arithmetic: no wrap when the difference of the two readings is representable -/
theorem howMuchW_eq (w n : Int) (h1 : -9223372036854775808 ≤ w - n) (h2 : w - n < 9223372036854775808) :
    howMuchUsW w n = howMuchUs w n ∧ howMuchTimeFromNowW w n = howMuchTimeFromNow w n := by
  have hu : howMuchUsW w n = howMuchUs w n := by
    unfold howMuchUsW howMuchUs
    rw [wrapI64_of_range h1 h2]
  refine ⟨hu, ?_⟩
  have hf := howMuchUs_floor w n
  have hlt : howMuchUs w n < 9223372036854775808 := by rw [howMuchUs_eq]; omega
  unfold howMuchTimeFromNowW howMuchTimeFromNow kMicroSecondsPerSecond
  simp only [hu]
  generalize howMuchUs w n = u at *
  have h0 : (0 : Int) ≤ u := by omega
  rw [Int.tdiv_eq_ediv_of_nonneg h0, Int.tmod_eq_emod_of_nonneg h0]
  rw [wrapI64_of_range (x := u / 1000000) (by omega) (by omega), wrapI64_of_range (x := u % 1000000) (by omega) (by omega),
    wrapI64_of_range (x := u % 1000000 * 1000) (by omega) (by omega)]

theorem restart_repeating (now d : Int) : restart true now d = now + d := by
  simp [restart, addTime_eq]

theorem entryExpired_le {e : Time × Addr} {now : Time} (h : entryExpired e.1 e.2 now) : e.1 ≤ now := by
  unfold entryExpired at h
  rcases h with h | ⟨h, _⟩
  · exact Int.le_of_lt h
  · exact Int.le_of_eq h

/-- an entry whose deadline has been reached is taken, provided its address is a real one (below the sentinel) -/
theorem entryExpired_of_le {e : Time × Addr} {now : Time} (h : e.1 ≤ now) (ha : e.2 < sentinelAddr) :
    entryExpired e.1 e.2 now := by
  unfold entryExpired
  rcases Int.lt_or_eq_of_le h with h | h
  · exact Or.inl h
  · exact Or.inr ⟨h, ha⟩

end MuduoVerif.Timer
