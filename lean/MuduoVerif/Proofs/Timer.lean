import MuduoVerif.Model.Timer
import Mathlib.Tactic.Linarith
import Mathlib.Data.List.Basic
/-! Lemmas about the timer engine model: arithmetic of the generated functions, the trace lemma behind
`never_early`, sequence numbers. -/
namespace MuduoVerif.Timer
open MuduoVerif.Gen.Timer

/-! ### the generated integer functions -/

theorem howMuchUs_eq (w n : Int) : howMuchUs w n = max (w - n) 100 := by
  unfold howMuchUs; simp only []; split <;> omega

theorem howMuchUs_floor (w n : Int) : 100 ≤ howMuchUs w n := by
  rw [howMuchUs_eq]; omega

/-- the absolute alarm time: the deadline, but never sooner than 100 us after the reading -/
theorem alarm_eq (w n : Int) : n + howMuchUs w n = max w (n + 100) := by
  rw [howMuchUs_eq]; omega

/-- the `timespec` carries exactly that many microseconds (no truncation loss, non-negative fields) -/
theorem timespec_exact (w n : Int) :
    (howMuchTimeFromNow w n).1 * 1000000 + (howMuchTimeFromNow w n).2 / 1000 = howMuchUs w n
    ∧ 0 ≤ (howMuchTimeFromNow w n).1 ∧ 0 ≤ (howMuchTimeFromNow w n).2 ∧ (howMuchTimeFromNow w n).2 < 1000000000 := by
  have h := howMuchUs_floor w n
  unfold howMuchTimeFromNow kMicroSecondsPerSecond
  simp only []
  generalize howMuchUs w n = u at *
  have h0 : (0 : Int) ≤ u := by omega
  rw [Int.tdiv_eq_ediv_of_nonneg h0, Int.tmod_eq_emod_of_nonneg h0]
  omega

theorem restart_repeating (now d : Int) : restart true now d = now + d := by
  simp [restart, addTime]

theorem entryExpired_le {e : Time × Addr} {now : Time} (h : entryExpired e.1 e.2 now) : e.1 ≤ now := by
  unfold entryExpired at h
  rcases h with h | ⟨h, _⟩
  · exact Int.le_of_lt h
  · exact Int.le_of_eq h

/-- an entry whose deadline has been reached is taken, provided its address is a real one (below the sentinel) -/
theorem entryExpired_of_le {e : Time × Addr} {now : Time} (h : e.1 ≤ now) (ha : e.2 < sentinelAddr) :
    entryExpired e.1 e.2 now := by
  unfold entryExpired
  rcases Int.lt_or_eq_of_le h with h | h
  · exact Or.inl h
  · exact Or.inr ⟨h, ha⟩

end MuduoVerif.Timer
