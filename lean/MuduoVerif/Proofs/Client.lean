import MuduoVerif.Proofs.ClientLive
/-!
# Lemmas for C12 (Connector + TcpClient)

The development is split over `Proofs/Client*.lean`:
* `ClientSpec`   – the specification automaton `scan` over traces (independent of the model);
* `ClientInv`    – the invariant `Mid c r ph` (connector / connections / queue / ghost / trace);
* `ClientTr`     – how each event moves the automaton and keeps it related to the state;
* `ClientConnector`, `ClientClose`, `ClientHook` (the user's connection callback: operations performed inside
  the UP / DOWN report), `ClientTasks`, `ClientIter`, `ClientOps` – preservation of `Mid`
  by every function of the model, by one loop iteration, by every user operation inside the scope
  guard `okIn`; `reach_bnd`: the invariant holds after every guarded history;
* `ClientTrace`  – what a legal trace means in counts and per-cycle counters;
* `ClientGrow`, `ClientLive` – monotonicity inside one iteration and the "leads to" facts.
This file derives the facts the property theorems of `Props/C12.lean` state.
-/
namespace MuduoVerif.Client
open MuduoVerif.Gen.Client

/-- the state after a history from the initial state -/
abbrev reach (asserts : Bool) (ins : List In) : C := run (init asserts) ins

/-- events that start something on behalf of the user: an attempt, the UP callback, a retry timer -/
def Ev.starts : Ev → Bool
  | .attempt _ _ | .up _ | .retryScheduled _ _ _ => true
  | _ => false

section
variable {c : C} (hb : Bnd c)
include hb

theorem bnd_scan : ∃ s, scan c.trace = some s ∧ Rel s c.nsock c.sockSt c.conns c.ups c.nretry c.stopReq c.clientAlive := hb.t1

theorem bnd_no_bad : c.dead = false ∧ ∀ w, Ev.abort w ∉ c.trace ∧ Ev.uaf w ∉ c.trace := by
  obtain ⟨s, hs, _⟩ := bnd_scan hb
  have h := cnt_scan hs
  exact ⟨hb.notDead, fun w => ⟨h.noAbort w, h.noUaf w⟩⟩

/-- per socket: created once; handed over xor closed, once, unless it is the socket of the
attempt in progress; the connection's own close comes after DOWN, after UP, after the hand-over -/
theorem bnd_socket (k : Nat) :
    c.trace.count (.sockCreated k) = (if k < c.nsock then 1 else 0) ∧
    (k < c.nsock → c.trace.count (.handedOver k) + c.trace.count (.sockClosed k) =
        (if c.sockSt[k]? = some .opened then 0 else 1)) ∧
    (c.sockSt[k]? = some .opened → c.cstate = .kConnecting ∧ c.chan = some k ∧ c.chanOn = true) ∧
    c.trace.count (.connClosed k) ≤ c.trace.count (.down k) ∧
    c.trace.count (.down k) ≤ c.trace.count (.up k) ∧
    c.trace.count (.up k) ≤ c.trace.count (.handedOver k) ∧
    c.trace.count (.handedOver k) ≤ 1 := by
  obtain ⟨s, hs, hr⟩ := bnd_scan hb
  have h := cnt_scan hs
  have hph := hr.ph k
  have hlen := hr.len
  refine ⟨?_, ?_, ?_, ?_, ?_, ?_, ?_⟩
  · rw [h.created k, hlen]; unfold b2n; simp
  · intro hk
    rw [h.handed k, h.closed k]
    have hk' : k < c.sockSt.length := by rw [hb.s1]; exact hk
    unfold Spec.has; rw [hph]; unfold phaseAt
    cases hv : c.sockSt[k]? with
    | none => rw [List.getElem?_eq_none_iff] at hv; omega
    | some v =>
      cases v with
      | opened => simp [b2n, Phase.wasHanded]
      | closed => simp [b2n, Phase.wasHanded]
      | handedOver =>
        simp only
        cases findIn c.conns k with
        | none => simp [b2n, Phase.wasHanded]
        | some x =>
          by_cases hd : x.destroyed = true
          · simp [b2n, Phase.wasHanded, hd]
          · by_cases hst : x.st = .disconnected <;> simp [b2n, Phase.wasHanded, hd, hst]
  · intro ho
    have := hb.a4 k ho
    exact ⟨hb.a1 this.2, this.1, this.2⟩
  all_goals
    first
      | (rw [h.connClosed k, h.down k])
      | (rw [h.down k, h.up k])
      | (rw [h.up k, h.handed k])
      | (rw [h.handed k])
    unfold Spec.has b2n
    cases s.phases[k]? with
    | none => simp
    | some q => cases q <;> simp [Phase.wasHanded, Phase.wasUp, Phase.wasDown]

/-- the i-th retry of a cycle is scheduled `specDelay i` ms after the failure -/
theorem bnd_backoff {pre post : List Ev} {i ms t : Nat} (h : c.trace = pre ++ .retryScheduled i ms t :: post) :
    i = (cyc pre).2 ∧ ms = specDelay i := by
  obtain ⟨s, hs, _⟩ := bnd_scan hb
  rw [h] at hs
  obtain ⟨s1, s2, h1, h2⟩ := scan_split hs
  have hsum := sum_scan h1
  simp only [specStep] at h2
  split at h2
  · rename_i hc; exact ⟨by rw [hc.1, hsum.nretry], hc.2.1⟩
  · cases h2

/-- UP at most once per cycle, only on a socket that was handed over, once per socket -/
theorem bnd_one_up {pre post : List Ev} {k : Nat} (h : c.trace = pre ++ .up k :: post) :
    (cyc pre).1 = 0 ∧ Ev.handedOver k ∈ pre ∧ Ev.up k ∉ pre ∧ Ev.sockClosed k ∉ pre := by
  obtain ⟨s, hs, _⟩ := bnd_scan hb
  rw [h] at hs
  obtain ⟨s1, s2, h1, h2⟩ := scan_split hs
  have hsum := sum_scan h1
  have hcnt := cnt_scan h1
  simp only [specStep, Spec.move] at h2
  split at h2
  · rename_i hc
    split at h2
    · rename_i hp
      have hp : s1.phases[k]? = some .handed := hp
      refine ⟨by rw [← hsum.ups]; exact hc.2.2, ?_, ?_, ?_⟩
      · apply List.count_pos_iff.mp; rw [hcnt.handed k]; simp [Spec.has, hp, b2n, Phase.wasHanded]
      · intro hm; have := List.count_pos_iff.mpr hm; rw [hcnt.up k] at this; simp [Spec.has, hp, b2n, Phase.wasUp] at this
      · intro hm; have := List.count_pos_iff.mpr hm; rw [hcnt.closed k] at this; simp [Spec.has, hp, b2n] at this
    · cases h2
  · cases h2

/-- once `stop()` was called (and until the next `connect()`), and once the client is destroyed,
nothing is started: no attempt, no UP, no retry timer -/
theorem bnd_silence {pre post : List Ev} {e : Ev} (h : c.trace = pre ++ e :: post)
    (hq : stoppedAfter pre = true ∨ goneAfter pre = true) : e.starts = false := by
  obtain ⟨s, hs, _⟩ := bnd_scan hb
  rw [h] at hs
  obtain ⟨s1, s2, h1, h2⟩ := scan_split hs
  have hsum := sum_scan h1
  have hq' : ¬ (s1.stopped = false ∧ s1.gone = false) := by
    rw [hsum.stopped, hsum.gone]; rcases hq with h | h <;> simp [h]
  cases e with
  | attempt k t =>
    simp only [specStep] at h2
    split at h2
    · rename_i hc; exact absurd ⟨hc.2.2.1, hc.2.2.2⟩ hq'
    · cases h2
  | up k =>
    simp only [specStep] at h2
    split at h2
    · rename_i hc; exact absurd ⟨hc.1, hc.2.1⟩ hq'
    · cases h2
  | retryScheduled i ms t =>
    simp only [specStep] at h2
    split at h2
    · rename_i hc; exact absurd ⟨hc.2.2.1, hc.2.2.2⟩ hq'
    · cases h2
  | _ => rfl

/-- `connection()` read inside the callback that reports connection `k` (UP or DOWN) is that connection, and `k`
has been reported UP before -/
theorem bnd_query {pre post : List Ev} {k : Nat} {seen : Option Nat} (h : c.trace = pre ++ .query k seen :: post) :
    seen = some k ∧ Ev.up k ∈ pre := by
  obtain ⟨s, hs, _⟩ := bnd_scan hb
  rw [h] at hs
  obtain ⟨s1, s2, h1, h2⟩ := scan_split hs
  have hcnt := cnt_scan h1
  simp only [specStep] at h2
  split at h2
  · rename_i hc
    refine ⟨hc.1, ?_⟩
    apply List.count_pos_iff.mp
    rw [hcnt.up k]
    rcases hc.2 with hp | hp <;> simp [Spec.has, hp, b2n, Phase.wasUp]
  · cases h2

end

/-! ### model-level consequences -/

theorem connect_trace (c : C) :
    ∃ tail, (connect c).trace = c.trace ++ [.sockCreated c.nsock, .attempt c.nsock c.now] ++ tail := by
  unfold connect
  simp only
  obtain ⟨e, b, he⟩ := popConnect_snd ({ c with nsock := c.nsock + 1, sockSt := c.sockSt ++ [SockSt.opened], trace := c.trace ++ [Ev.sockCreated c.nsock, Ev.attempt c.nsock c.now] } : C)
  rw [he]
  split
  · obtain ⟨d, hd⟩ := (connecting_grow ({ c with nsock := c.nsock + 1, sockSt := c.sockSt ++ [SockSt.opened], trace := c.trace ++ [Ev.sockCreated c.nsock, Ev.attempt c.nsock c.now], envConnect := e, starved := b } : C) c.nsock).tr
    exact ⟨d, hd.symm⟩
  · obtain ⟨d, hd⟩ := (retry_grow ({ c with nsock := c.nsock + 1, sockSt := c.sockSt ++ [SockSt.opened], trace := c.trace ++ [Ev.sockCreated c.nsock, Ev.attempt c.nsock c.now], envConnect := e, starved := b } : C) c.nsock).tr
    exact ⟨d, hd.symm⟩
  · obtain ⟨d, hd⟩ := (closeSock_grow ({ c with nsock := c.nsock + 1, sockSt := c.sockSt ++ [SockSt.opened], trace := c.trace ++ [Ev.sockCreated c.nsock, Ev.attempt c.nsock c.now], envConnect := e, starved := b } : C) c.nsock).tr
    exact ⟨d, hd.symm⟩

theorem restart_trace (c : C) :
    ∃ tail, (restart c).trace = c.trace ++ [.ghost .cycle, .sockCreated c.nsock, .attempt c.nsock c.now] ++ tail := by
  unfold restart startInLoop
  rw [if_neg (by simp [startAssert]), if_pos (by simp [startConnects])]
  obtain ⟨tail, ht⟩ := connect_trace
    ({ c with cstate := .kDisconnected, delay := kInitRetryDelayMs, cConnect := true, nretry := 0, ups := 0,
              trace := c.trace ++ [.ghost .cycle] } : C)
  dsimp only at ht
  exact ⟨tail, by rw [ht]; simp⟩

theorem hookOp_connection (c : C) (j : Nat) (op : HookOp) : (hookOp c j op).connection = c.connection := by
  cases op with
  | disconnect =>
    show (userDisconnect c).connection = _
    unfold userDisconnect connShutdown
    simp only
    repeat' split
    all_goals first | rfl | assumption | (rename_i h; exact h.symm)
  | stop =>
    show (userStop c .loop).connection = _
    unfold userStop connectorStop
    simp only [stopDispatch]
    rfl
  | connect =>
    show (userConnect c .loop).connection = _
    unfold userConnect
    simp only [startDispatch]
    exact startCycle_connection _
  | query => rfl

theorem runHookDown_connection (c : C) (j : Nat) : (runHookDown c j).connection = c.connection := by
  unfold runHookDown
  repeat' split
  all_goals first | rfl | exact hookOp_connection _ _ _

/-- `handleClose` of the client's connection: DOWN, the user's callback (`downCb c k`: the state when it returns),
then `TcpClient::removeConnection`, which looks at `retry_ && connect_` as they are then -/
theorem handleClose_client_eq (c : C) (r : List Task) (ph : Bool) (hi : Mid c r ph) (k : Nat) (x : ConnRec)
    (hx : findIn c.conns k = some x) (hst : x.st ≠ .disconnected) (hcb : x.closeCb = .client) (hch : c.chan = none) :
    handleClose c k =
      if reconnects (downCb c k).retry (downCb c k).tConnect then restart (afterDown (downCb c k) k)
      else afterDown (downCb c k) k := by
  obtain ⟨hxm, hxs⟩ := findIn_some hx
  obtain ⟨hal, hcn⟩ := hi.c6 x hxm hst hcb
  rw [hxs] at hcn
  have hm := handleClose_mid c r ph hi k x hx hst (fun _ => hch)
  have hg := runHookDown_grow (downState c k) k
  have hc2 := runHookDown_connection (downState c k) k
  rw [handleClose_eq] at hm ⊢
  simp only [findConn_eq, hx, Option.map_some, Option.getD_some, hcb] at hm ⊢
  unfold downCb
  generalize runHookDown (downState c k) k = c2 at hm hg hc2 ⊢
  have hnd : c2.dead = false := by
    cases h : c2.dead
    · rfl
    · rw [if_pos h] at hm; exact absurd hm.notDead (by rw [h]; simp)
  rw [if_neg (by rw [hnd]; exact Bool.false_ne_true)]
  unfold removeConn
  rw [if_neg (by rw [hg.alive]; simp [downState, hal]), if_neg (by rw [hc2]; simp [downState, hcn])]
  rfl

/-- **what `TcpClient::removeConnection` does when the established connection goes down**: with `downCb c k` the
state in which the user's DOWN callback returned -/
theorem handleClose_client_trace (c : C) (r : List Task) (ph : Bool) (hi : Mid c r ph) (k : Nat) (x : ConnRec)
    (hx : findIn c.conns k = some x) (hst : x.st ≠ .disconnected) (hcb : x.closeCb = .client) (hch : c.chan = none) :
    ((downCb c k).retry = true ∧ (downCb c k).tConnect = true →
      ∃ tail, (handleClose c k).trace = (downCb c k).trace ++
        [.ghost .cycle, .sockCreated (downCb c k).nsock, .attempt (downCb c k).nsock (downCb c k).now] ++ tail) ∧
    (¬ ((downCb c k).retry = true ∧ (downCb c k).tConnect = true) →
      (handleClose c k).trace = (downCb c k).trace ∧ (handleClose c k).nsock = (downCb c k).nsock) := by
  rw [handleClose_client_eq c r ph hi k x hx hst hcb hch]
  generalize downCb c k = c2
  constructor
  · intro hre
    rw [if_pos (by simpa [reconnects] using hre)]
    obtain ⟨tail, ht⟩ := restart_trace (afterDown c2 k)
    exact ⟨tail, by rw [ht]; simp [afterDown]⟩
  · intro hre
    rw [if_neg (by simpa [reconnects] using hre)]
    exact ⟨rfl, rfl⟩

/-- the DOWN callback without a registered operation does nothing -/
theorem runHookDown_none (c : C) (k : Nat) (h : c.hooksDown = []) : runHookDown c k = c := by
  unfold runHookDown
  rw [h]
  split <;> rfl

/-- `Connector::retry` arms the timer `specDelay nretry` ms ahead and records it -/
theorem retry_arms (c : C) (k : Nat) (hcc : c.cConnect = true) (hd : c.delay = specDelay c.nretry) :
    (retry c k).timers = c.timers ++ [(c.now + specDelay c.nretry * 1000, .retry)] ∧
    (retry c k).trace = c.trace ++ [.sockClosed k, .retryScheduled c.nretry (specDelay c.nretry) c.now] ∧
    (retry c k).delay = specDelay (c.nretry + 1) ∧ (retry c k).nretry = c.nretry + 1 := by
  unfold retry closeSock
  simp only [retryClosesSocket, retryUsesOldDelay, retrySchedules, hcc, if_true, retryDelayUs]
  refine ⟨?_, ?_, ?_, ?_⟩
  · simp [hd]
  · simp [hd]
  · show nextDelay c.delay = _; rw [hd, nextDelay_spec]
  · trivial

/-- a retry timer that is not due does not fire -/
theorem fireTimers_not_due (c : C) (r : List Task) (ph : Bool) (hi : Mid c r ph) (h : ∀ t ∈ c.timers, c.now < t.1) :
    (fireTimers c).trace = c.trace ∧ (fireTimers c).nsock = c.nsock := by
  have hdue : c.timers.filter (fun t => decide (t.1 ≤ c.now)) = [] := by
    rw [List.filter_eq_nil_iff]; intro t ht; have := h t ht; simp; omega
  have hm1 : Mid ({ c with timers := c.timers.filter (fun t => decide (¬ t.1 ≤ c.now)) } : C) r ph := by
    have hsub : ∀ t ∈ c.timers.filter (fun t => decide (¬ t.1 ≤ c.now)), t ∈ c.timers := fun t ht => (List.mem_filter.mp ht).1
    have hsplit := nRetry_split c.timers c.now
    obtain ⟨notDead, a1, a2, a3, a4, a5, a6, a7, a8, a9, a10, a11, a13, a14, a15, a16, s1, c1, c2, c3, c4, c5, c6, c7, c8, c9, c10, g1, g3, h1, t1⟩ := hi
    constructor
    all_goals mid_auto3
  rw [fireTimers_eq]
  simp only [hdue, List.foldl_nil]
  rw [if_neg (by rw [hm1.notDead]; exact Bool.false_ne_true), reapConnector_id hm1]
  exact ⟨rfl, rfl⟩

theorem no_pending_holds {c : C} (hi : Mid c [] true) {k : Nat} (hcn : c.connection = some k) :
    c.pending.filter (·.holds k) = [] := by
  obtain ⟨x, hx, hst, hcb⟩ := hi.c7 k hcn
  rw [List.filter_eq_nil_iff]
  intro t ht hh
  cases t with
  | connectDestroyed j =>
    have hj : j = k := by simpa [Task.holds] using hh
    subst hj
    obtain ⟨y, hy, hys⟩ := hi.c9 j (by simpa using ht)
    rw [hx] at hy; cases hy; exact hst hys
  | forceCloseInLoop j =>
    have hj : j = k := by simpa [Task.holds] using hh
    subst hj
    obtain ⟨y, hy, hyc⟩ := hi.c8 j (by simpa using ht)
    rw [hx] at hy; cases hy; rw [hcb] at hyc; cases hyc
  | setCloseCb j => have := hi.a13 _ (by simpa using ht); cases this
  | shutdownInLoop j => rw [holds_shutdown] at hh; cases hh
  | startCycle => cases hh
  | stopInLoop => cases hh
  | resetChannel => cases hh
  | addTimer a b => cases hh

/-- a destroyed connection has gone DOWN and its descriptor was closed by `~TcpConnection` -/
theorem destroyed_in_trace {c : C} (hb : Bnd c) {k : Nat} {z : ConnRec} (hz : findIn c.conns k = some z)
    (hd : z.destroyed = true) : Ev.up k ∈ c.trace ∧ Ev.down k ∈ c.trace ∧ Ev.connClosed k ∈ c.trace := by
  obtain ⟨s, hs, hr⟩ := bnd_scan hb
  have h := cnt_scan hs
  obtain ⟨hzm, hzs⟩ := findIn_some hz
  have hk : c.sockSt[k]? = some .handedOver := by rw [← hzs]; exact hb.c1 z hzm
  have hp : s.phases[k]? = some .connClosed := by
    rw [hr.ph k]; unfold phaseAt; rw [hk]; simp only; rw [hz]; simp [hd]
  refine ⟨?_, ?_, ?_⟩ <;> apply List.count_pos_iff.mp
  · rw [h.up k]; simp [Spec.has, hp, b2n, Phase.wasUp]
  · rw [h.down k]; simp [Spec.has, hp, b2n, Phase.wasDown]
  · rw [h.connClosed k]; simp [Spec.has, hp, b2n]

/-! ### histories: what follows `disconnect()` and `~TcpClient` -/

theorem step_live (c : C) (i : In) (h : c.dead = false) :
    step c i = (match i with
      | .dropRef | .destroy _ | .holdRef => if (stepLive c i).dead then stepLive c i else reap (stepLive c i)
      | _ => stepLive c i) := by
  unfold step; rw [if_neg (by rw [h]; exact Bool.false_ne_true)]; cases i <;> rfl

theorem step_iter (c : C) (a : List Src) (h : c.dead = false) : step c (.iter a) = iter c a := by
  rw [step_live c _ h]; rfl

theorem userDisconnect_eq (c : C) (k : Nat) (x : ConnRec) (hcn : c.connection = some k) (hx : findIn c.conns k = some x)
    (hst : x.st = .connected) :
    userDisconnect c = { c with tConnect := false, conns := c.conns.map (updRec k toDisconnecting),
                                pending := c.pending ++ [.shutdownInLoop k] } := by
  cases c
  simp only at hcn hx
  subst hcn
  unfold userDisconnect connShutdown
  simp only [connSt, findConn_eq, hx, Option.map_some, Option.getD_some, hst, if_true, updConn_eq, enqueue]
  rfl

/-- `disconnect()` on the established connection: the half-close is queued, and the next loop
iteration makes it, whatever else that iteration has to do -/
theorem disconnect_leads (c : C) (hb : Bnd c) (hal : c.clientAlive = true) (w : Who) (k : Nat) (x : ConnRec)
    (hcn : c.connection = some k) (hx : findIn c.conns k = some x) (hst : x.st = .connected) :
    (step c (.disconnect w)).tConnect = false ∧ (step c (.disconnect w)).trace = c.trace ∧
    (step c (.disconnect w)).pending = c.pending ++ [.shutdownInLoop k] ∧
    ∀ a, ∃ d, (step (step c (.disconnect w)) (.iter a)).trace = c.trace ++ d ∧ Ev.shutdownWr k ∈ d := by
  have hb1 := step_bnd c (.disconnect w) hb hal
  have hs : step c (.disconnect w) = userDisconnect c := by
    rw [step_live c _ hb.notDead]; simp [stepLive, hal]
  have he := userDisconnect_eq c k x hcn hx hst
  rw [hs] at hb1 ⊢
  rw [he] at hb1 ⊢
  refine ⟨rfl, rfl, rfl, ?_⟩
  intro a
  rw [step_iter _ a hb1.notDead]
  have hd : x.destroyed = false := by
    cases h : x.destroyed
    · rfl
    · have := (hb.c4 x (findIn_some hx).1 h).1; rw [hst] at this; cases this
  exact iter_shutdown _ hb1 k (by simp) ⟨toDisconnecting x, by
    show findIn (c.conns.map (updRec k toDisconnecting)) k = _
    rw [findIn_upd k k toDisconnecting (fun _ => rfl), hx]; simp [updRec, (findIn_some hx).2], hd⟩ a

theorem reapConnector_alive (c : C) : (reapConnector c).clientAlive = c.clientAlive := by
  unfold reapConnector die; repeat' split
  all_goals rfl

theorem userDestroy_alive (c : C) (w : Who) : (userDestroy c w).clientAlive = false := by
  unfold userDestroy; rw [reapConnector_alive]

theorem reap_alive (c : C) : (reap c).clientAlive = c.clientAlive := by
  rw [reap_eq]; unfold die; repeat' split
  all_goals rfl

theorem step_destroy (c : C) (hb : Bnd c) (hal : c.clientAlive = true) :
    step c (.destroy .loop) = reap (userDestroy c .loop) ∧ Mid (userDestroy c .loop) [] true := by
  have hm := userDestroy_mid c hb hal
  refine ⟨?_, hm⟩
  rw [step_live c _ hb.notDead]
  have : stepLive c (.destroy .loop) = userDestroy c .loop := by simp [stepLive, hal]
  simp only [this]
  rw [if_neg (by rw [hm.notDead]; exact Bool.false_ne_true)]

/-- after `~TcpClient` (on the loop thread) the client is gone, and one loop iteration later no
socket of an attempt is open any more -/
theorem destroy_quiet (c : C) (hb : Bnd c) (hal : c.clientAlive = true) :
    (step c (.destroy .loop)).clientAlive = false ∧
    ∀ (a : List Src) (k : Nat), (step (step c (.destroy .loop)) (.iter a)).sockSt[k]? ≠ some SockSt.opened := by
  have hb1 := step_bnd c (.destroy .loop) hb ⟨hal, rfl⟩
  have hal1 : (step c (.destroy .loop)).clientAlive = false := by
    rw [(step_destroy c hb hal).1, reap_alive, userDestroy_alive]
  refine ⟨hal1, fun a k => ?_⟩
  rw [step_iter _ a hb1.notDead]
  exact iter_gone_quiet _ hb1 hal1 a k

theorem reap_keeps (U : C) (hm : Mid U [] true) (k : Nat) (y : ConnRec) (hy : findIn U.conns k = some y) :
    findIn (reap U).conns k = some (reapRec U y) ∧ (reap U).pending = U.pending := by
  rw [reap_eq2 hm]
  refine ⟨?_, rfl⟩
  show findIn (U.conns.map (reapRec U)) k = _
  rw [findIn_mapg k _ (fun r => (reapRec_fields _ r).1), hy]; rfl

/-- `~TcpClient` with an established connection nobody else holds: within two loop iterations
the connection has gone DOWN and `~TcpConnection` has closed its descriptor -/
theorem destroy_leads (c : C) (hb : Bnd c) (hal : c.clientAlive = true) (k : Nat) (x : ConnRec)
    (hcn : c.connection = some k) (hx : findIn c.conns k = some x) (hur : x.userRef = false) (a b : List Src) :
    Ev.down k ∈ (step (step (step c (.destroy .loop)) (.iter a)) (.iter b)).trace ∧
    Ev.connClosed k ∈ (step (step (step c (.destroy .loop)) (.iter a)) (.iter b)).trace := by
  obtain ⟨x', hx', hst, hcb⟩ := hb.c7 k hcn
  rw [hx] at hx'; cases hx'
  have hb1 := step_bnd c (.destroy .loop) hb ⟨hal, rfl⟩
  obtain ⟨hs, hmU⟩ := step_destroy c hb hal
  have hu : (useCount c k == 1) = true := by
    simp [useCount, findConn_eq, hx, hur, no_pending_holds hb hcn]
  have hU := userDestroy_unique_eq c k x hcn hx hst hu
  have hmU' := destroyUnique_mid c hb hal k hcn
  rw [reapConnector_id hmU'] at hU
  rw [hU] at hs
  have hal1 : (step c (.destroy .loop)).clientAlive = false := (destroy_quiet c hb hal).1
  have hk := reap_keeps _ hmU' k (detachClose x) (by
    show findIn (c.conns.map (updRec k detachClose)) k = _
    rw [findIn_upd k k detachClose (fun _ => rfl), hx]; simp [updRec, (findIn_some hx).2])
  rw [← hs] at hk
  have hfind : ∃ y, findIn (step c (.destroy .loop)).conns k = some y ∧ y.userRef = false :=
    ⟨_, hk.1, by rw [(reapRec_fields _ _).2.2.1]; exact hur⟩
  have hin : Task.forceCloseInLoop k ∈ (step c (.destroy .loop)).pending := by
    rw [hk.2]; simp
  obtain ⟨y, hy, hyu⟩ := hfind
  rw [step_iter _ a hb1.notDead]
  obtain ⟨hal2, y2, hy2, hst2, hur2⟩ := iter_force _ hb1 hal1 k y hy hyu hin a
  have hb2 := iter_bnd _ a hb1
  rw [step_iter _ b hb2.notDead]
  obtain ⟨z, hz, hzd⟩ := iter_reaps _ hb2 hal2 k y2 hy2 hst2 hur2 b
  have hb3 := iter_bnd _ b hb2
  exact (destroyed_in_trace hb3 hz hzd).2

/-- after a loop iteration every connection object that still exists is referred to by somebody:
the user, the live client, or a queued functor (nothing leaks) -/
theorem iter_no_conn_leak (c : C) (hb : Bnd c) (a : List Src) :
    ∀ y ∈ (iter c a).conns, y.destroyed = false → connHeld (iter c a) y = true := by
  obtain ⟨c1, c2, hp⟩ := iter_parts c a hb
  rw [hp.e, reap_eq2 hp.m3]
  intro y hy hd
  obtain ⟨x, hx, rfl⟩ := List.mem_map.mp (show y ∈ c2.conns.map (reapRec { c2 with batch := [] }) from hy)
  have hf := reapRec_fields { c2 with batch := [] } x
  by_cases hdy : dyingP { c2 with batch := [] } x = true
  · simp [reapRec, hdy, kill] at hd
  · have hid : reapRec { c2 with batch := [] } x = x := by simp [reapRec, hdy]
    rw [hid] at hd ⊢
    simp only [dyingP, hd, Bool.not_false, Bool.true_and, Bool.not_eq_true', Bool.not_eq_false] at hdy
    exact hdy

/-! ### only the dispatch of the connector's channel runs the UP callback -/

theorem retry_hooksUp (c : C) (k : Nat) : (retry c k).hooksUp = c.hooksUp := (retry_keeps c k).2.2.2.1
theorem restart_hooksUp (c : C) : (restart c).hooksUp = c.hooksUp := by
  unfold restart; exact (startInLoop_keeps _).2.2.2.1

theorem stopInLoop_hooksUp (c : C) : (stopInLoop c).hooksUp = c.hooksUp := by
  refine Eq.trans ?_ (cancelIf_hooksUp (decide (stopCancelsRetryTimer c.cConnect)) c)
  show (stopInLoopCore _).hooksUp = _
  generalize cancelIf (decide (stopCancelsRetryTimer c.cConnect)) c = c
  unfold stopInLoopCore die
  repeat' split
  all_goals first | rfl | exact retry_hooksUp _ _

theorem runHookDown_hooksUp (c : C) (k : Nat) : (runHookDown c k).hooksUp = c.hooksUp := by
  unfold runHookDown
  split
  · rename_i hal
    split
    · rfl
    · rename_i op rest _
      exact (hookOp_grow ({ c with hooksDown := rest } : C) k op hal).2
  · rfl

theorem handleClose_hooksUp (c : C) (k : Nat) : (handleClose c k).hooksUp = c.hooksUp := by
  have h2 := runHookDown_hooksUp (downState c k) k
  rw [handleClose_eq]
  simp only
  generalize runHookDown (downState c k) k = c2 at h2
  have h2 : c2.hooksUp = c.hooksUp := h2
  split
  · exact h2
  · split
    · exact h2
    · unfold removeConn die
      simp only
      repeat' split
      all_goals first | exact h2 | (rw [restart_hooksUp]; exact h2)

theorem runTask_hooksUp (c : C) (t : Task) : (runTask c t).hooksUp = c.hooksUp := by
  cases t with
  | startCycle => unfold runTask die; simp only; split; exact (startCycle_keeps c).2.2.2.1; rfl
  | stopInLoop => unfold runTask die; simp only; split; exact stopInLoop_hooksUp c; rfl
  | resetChannel =>
    unfold runTask resetChannel die
    simp only
    repeat' split
    all_goals rfl
  | connectDestroyed k =>
    unfold runTask connectDestroyed
    simp only
    repeat' split
    all_goals first | rfl | exact runHookDown_hooksUp _ _
  | shutdownInLoop k =>
    unfold runTask emit die
    simp only
    repeat' split
    all_goals rfl
  | forceCloseInLoop k => unfold runTask; simp only; split; exact handleClose_hooksUp c k; rfl
  | setCloseCb k => rfl
  | addTimer d kd => rfl

theorem task_fold_hooksUp (rest : List Task) (c : C) :
    (rest.foldl (fun (c : C) t => if c.dead then c else runTask c t) c).hooksUp = c.hooksUp := by
  induction rest generalizing c with
  | nil => rfl
  | cons t rest ih =>
    rw [List.foldl_cons, ih]
    split
    · rfl
    · exact runTask_hooksUp c t

theorem reap_hooksUp (c : C) : (reap c).hooksUp = c.hooksUp := by
  rw [reap_eq]; unfold die; repeat' split
  all_goals rfl

/-- **`disconnect()` from inside the UP callback**: if `disconnect()` is the next operation registered for the UP
callback and the callback runs in this iteration, then the iteration reports a connection UP and performs
`shutdown(SHUT_WR)` on that very connection - whatever else the iteration has to do -/
theorem iter_callback_disconnect (c : C) (hb : Bnd c) (rest : List HookOp) (hh : c.hooksUp = .disconnect :: rest)
    (active : List Src) (hf : (iter c active).hooksUp ≠ c.hooksUp) :
    ∃ k d0 d1, (iter c active).trace = c.trace ++ d0 ++ d1 ∧ Ev.up k ∈ d0 ∧ Ev.shutdownWr k ∈ d1 := by
  obtain ⟨c1, c2, hp⟩ := iter_parts c active hb
  have h2 : c2.hooksUp = c1.hooksUp := by rw [hp.e2, task_fold_hooksUp]
  have hne : c1.hooksUp ≠ c.hooksUp := by
    intro e; apply hf; rw [hp.e, reap_hooksUp]; exact h2.trans e
  obtain ⟨k, u1, u2, u3, x, u4, u5⟩ := hp.g1.hup rest hh hne
  obtain ⟨d0, hd0⟩ := hp.g1.tr
  obtain ⟨d1, hd1, hm1⟩ := task_fold_shutdown k c1.pending _ hp.ms u3 ⟨x, u4, u5⟩
  rw [← hp.e2] at hd1
  have hr : ∃ d2, (reap { c2 with batch := [] }).trace = c2.trace ++ d2 := by
    rw [reap_eq2 hp.m3]; exact ⟨_, rfl⟩
  obtain ⟨d2, hd2⟩ := hr
  have e0 : c1.trace = c.trace ++ d0 := hd0.symm
  refine ⟨k, d0, d1 ++ d2, ?_, ?_, List.mem_append_left _ hm1⟩
  · rw [hp.e, hd2, hd1]
    show (c1.trace ++ d1) ++ d2 = _
    rw [e0]; simp [List.append_assoc]
  · rw [e0] at u1
    rcases List.mem_append.mp u1 with h | h
    · exact absurd h u2
    · exact h

/-- an UP reported in an iteration runs the user's callback: it consumes the next registered operation -/
theorem iter_up_runs_callback (c : C) (hb : Bnd c) (active : List Src) (k : Nat)
    (hk : Ev.up k ∈ (iter c active).trace) (hnk : Ev.up k ∉ c.trace) :
    c.hooksUp = [] ∨ (iter c active).hooksUp ≠ c.hooksUp := by
  obtain ⟨c1, c2, hp⟩ := iter_parts c active hb
  have h2 : c2.hooksUp = c1.hooksUp := by rw [hp.e2, task_fold_hooksUp]
  have hfin : (iter c active).hooksUp = c1.hooksUp := by rw [hp.e, reap_hooksUp]; exact h2
  rw [hfin]
  by_cases hk1 : Ev.up k ∈ c1.trace
  · exact hp.g1.upq k hk1 hnk
  · -- reported after the dispatch phase: impossible unless no operation was left
    have hg2 := task_fold_grow c1.pending _ hp.ms
    rw [← hp.e2] at hg2
    have hk2 : Ev.up k ∈ c2.trace := by
      rw [hp.e, reap_eq2 hp.m3] at hk
      rcases List.mem_append.mp hk with h | h
      · exact h
      · simp at h
    rcases hg2.upq k hk2 hk1 with h | h
    · by_cases he : c.hooksUp = []
      · exact .inl he
      · right
        intro e
        have : c1.hooksUp = [] := h
        rw [this] at e; exact he e.symm
    · exact absurd h2 h

/-! ### the ghost marks are the user's calls -/

theorem stop_marks (c : C) (w : Who) (hd : c.dead = false) (hal : c.clientAlive = true) :
    (step c (.stop w)).trace = c.trace ++ [.ghost .stop] := by
  rw [step_live c _ hd]
  simp only [stepLive, hal, if_true]
  unfold userStop connectorStop
  simp only [stopDispatch]
  cases w <;> rfl

theorem destroy_marks (c : C) (hb : Bnd c) (hal : c.clientAlive = true) :
    c.trace ++ [.ghost .destroy] <+: (step c (.destroy .loop)).trace := by
  obtain ⟨hs, hm⟩ := step_destroy c hb hal
  rw [hs, reap_eq2 hm]
  refine List.IsPrefix.trans ?_ (List.prefix_append _ _)
  cases hcn : c.connection with
  | none =>
    have h := destroyIdle_mid c hb hal hcn (c.now + dtorParkUs)
    rw [userDestroy_idle_eq c hcn, reapConnector_id h]; exact List.prefix_refl _
  | some k =>
    obtain ⟨x, hx, hst, hcb⟩ := hb.c7 k hcn
    by_cases hu : (useCount c k == 1) = true
    · have h := destroyUnique_mid c hb hal k hcn
      rw [userDestroy_unique_eq c k x hcn hx hst hu, reapConnector_id h]; exact List.prefix_refl _
    · have hg := reapConnector_grow
        ({ c with destroyedAt := some c.now, trace := c.trace ++ [.ghost .destroy],
                  conns := c.conns.map (updRec k detach), clientAlive := false, connection := none } : C)
      rw [userDestroy_shared_eq c k hcn hu]
      exact hg.tr

theorem connect_marks (c : C) (w : Who) (hd : c.dead = false) (hal : c.clientAlive = true) :
    c.trace ++ [.ghost .connect] <+: (step c (.connect w)).trace := by
  rw [step_live c _ hd]
  simp only [stepLive, hal, if_true]
  unfold userConnect
  simp only [startDispatch]
  cases w
  · simp only
    generalize hc1 : ({ c with tConnect := true, cConnect := true, stopReq := false,
                               trace := c.trace ++ [Ev.ghost Ghost.connect] } : C) = c1
    have h := (startCycle_grow c1).tr
    rw [← hc1] at h ⊢
    exact h
  · simp only; exact List.prefix_refl _

/-- a fold whose steps all do nothing -/
theorem foldl_fix {α β : Type} (f : α → β → α) (l : List β) (c : α) (h : ∀ c, ∀ t ∈ l, f c t = c) : l.foldl f c = c := by
  induction l generalizing c with
  | nil => rfl
  | cons t l ih =>
    rw [List.foldl_cons, h c t List.mem_cons_self]
    exact ih c (fun c t' ht' => h c t' (List.mem_cons_of_mem _ ht'))

end MuduoVerif.Client
