import MuduoVerif.Model.RpcLock
import MuduoVerif.Proofs.RpcLife
/-! The machine with the mutex and chained calls (`Model/RpcLock.lean`): refinement of `Model/Rpc.lean`, the lock
invariant (`held` is never set, nothing deadlocks - from the extracted lock scopes), one chained call step by step. -/
namespace MuduoVerif.Rpc
open MuduoVerif.Gen.Rpc

/-! ### what the generated lock scopes say -/
theorem lockHeldIntoCompletion_eq : lockHeldIntoCompletion = false := by decide
theorem insertUnderLock_eq : callInsertUnderLock = true := rfl

/-! ### every step is a step of `Model/Rpc.lean`, or none -/
theorem lstep_refines (s : LChan) (a : LAct) : (lstep s a).ch = s.ch ∨ ∃ b, (lstep s a).ch = step s.ch b := by
  unfold lstep
  split
  · exact Or.inl rfl
  split
  · exact Or.inl rfl
  split
  next m =>
    unfold lrecv; split
    · exact Or.inl rfl
    · exact Or.inr ⟨.recv m, rfl⟩
  · unfold lfinish; split
    · exact Or.inl rfl
    · exact Or.inr ⟨.finish, rfl⟩
  next k =>
    unfold lcallInsert; split
    · exact Or.inl rfl
    · split
      · exact Or.inl rfl
      · exact Or.inr ⟨.callInsert k, rfl⟩
  next k =>
    unfold lcallSend; split
    · exact Or.inl rfl
    · exact Or.inr ⟨.callSend k, rfl⟩
  next b _ _ _ _ => exact Or.inr ⟨b, rfl⟩
  · unfold chainBegin; split
    · exact Or.inr ⟨.callBegin, rfl⟩
    · exact Or.inl rfl
  · unfold chainInsert; split
    next k' _ =>
      split
      · split
        · exact Or.inl rfl
        · exact Or.inr ⟨.callInsert k', rfl⟩
      · exact Or.inl rfl
    · exact Or.inl rfl
  · unfold chainSend; split
    next k' _ => exact Or.inr ⟨.callSend k', rfl⟩
    · exact Or.inl rfl

theorem lfoldl_refines (asserts hs : Bool) (acts : List LAct) : ∀ (s : LChan), (∃ base, s.ch = run asserts hs base) →
    ∃ base, (acts.foldl lstep s).ch = run asserts hs base := by
  induction acts with
  | nil => intro s h; exact h
  | cons a rest ih =>
    intro s ⟨base, hb⟩
    apply ih
    rcases lstep_refines s a with h | ⟨b, h⟩
    · exact ⟨base, by rw [h, hb]⟩
    · exact ⟨base ++ [b], by rw [h, hb, run_snoc]⟩

/-- **refinement**: the channel of the machine with the mutex and with chained calls is the channel after some history of
    `Model/Rpc.lean` -/
theorem lrun_refines (asserts hs : Bool) (acts : List LAct) : ∃ base, (lrun asserts hs acts).ch = run asserts hs base :=
  lfoldl_refines asserts hs acts _ ⟨[], rfl⟩

/-! ### the lock -/
structure LockInv (s : LChan) : Prop where
  unlocked : s.held = false
  live : s.deadlocked = false

theorem LockInv.step {s : LChan} (h : LockInv s) (a : LAct) : LockInv (lstep s a) := by
  obtain ⟨hu, hd⟩ := h
  unfold lstep
  split
  · exact ⟨hu, hd⟩
  split
  · exact ⟨hu, hd⟩
  split
  · unfold lrecv; split
    · exact ⟨hu, hd⟩
    · exact ⟨by simp [lockHeldIntoCompletion_eq], hd⟩
  · unfold lfinish; split
    · exact ⟨hu, hd⟩
    · exact ⟨rfl, hd⟩
  · unfold lcallInsert; split
    · exact ⟨hu, hd⟩
    · split <;> exact ⟨hu, hd⟩
  · unfold lcallSend; split <;> exact ⟨hu, hd⟩
  · exact ⟨hu, hd⟩
  · unfold chainBegin; split <;> exact ⟨hu, hd⟩
  · unfold chainInsert; split
    · split
      · split
        next hc => simp [hu] at hc
        · exact ⟨hu, hd⟩
      · exact ⟨hu, hd⟩
    · exact ⟨hu, hd⟩
  · unfold chainSend; split <;> exact ⟨hu, hd⟩

theorem LockInv.foldl (acts : List LAct) : ∀ {s : LChan}, LockInv s → LockInv (acts.foldl lstep s) := by
  induction acts with
  | nil => intro s h; exact h
  | cons a rest ih => intro s h; exact ih (h.step a)

theorem LockInv.run (asserts hs : Bool) (acts : List LAct) : LockInv (lrun asserts hs acts) :=
  LockInv.foldl acts ⟨rfl, rfl⟩

/-! ### one chained call, step by step -/
theorem chainBegin_eq {s : LChan} {k : Nat} {m : Msg} (hd : s.deadlocked = false) (hh : s.ch.halted = false)
    (hp : s.ch.pending = some (k, m)) (hc : s.chain = none) :
    lstep s .chainBegin =
      { s with ch := callBegin s.ch, chain := some s.ch.nextCall, chained := (s.ch.nextCall, k) :: s.chained } := by
  simp [lstep, hd, hh, chainBegin, hp, hc, step]

theorem chainInsert_eq {s : LChan} {k' : Nat} (hd : s.deadlocked = false) (hh : s.ch.halted = false)
    (hu : s.held = false) (hc : s.chain = some k') (hst : s.ch.stage k' = .fetched) :
    lstep s .chainInsert =
      { s with ch := { s.ch with outstanding := insertKey (s.ch.idOf k') k' s.ch.outstanding
                                 stage := setAt s.ch.stage k' .inserted } } := by
  simp [lstep, hd, hh, chainInsert, hc, atInsert, insertBeforeSend_eq, hst, hu, step, callInsert]

theorem chainSend_eq {s : LChan} {k' : Nat} (hd : s.deadlocked = false) (hh : s.ch.halted = false)
    (hc : s.chain = some k') (hst : s.ch.stage k' = .inserted) :
    lstep s .chainSend =
      { s with ch := { s.ch with stage := setAt s.ch.stage k' .returned, log := .sent (s.ch.idOf k') k' :: s.ch.log }
               chain := none } := by
  simp [lstep, hd, hh, chainSend, hc, insertBeforeSend_eq, hst, step, callSend, setAt_same]

/-- the re-entrant `CallMethod` with `mutex_` held by the caller: the model's deadlock outcome (any state, any lock scope) -/
theorem chainInsert_deadlocks {s : LChan} {k' : Nat} (hd : s.deadlocked = false) (hh : s.ch.halted = false)
    (hu : s.held = true) (hc : s.chain = some k') (hst : atInsert s.ch k' = true) :
    lstep s .chainInsert = { s with deadlocked := true } := by
  simp [lstep, hd, hh, chainInsert, hc, hst, hu, insertUnderLock_eq]

theorem lstep_deadlocked (s : LChan) (a : LAct) (h : s.deadlocked = true) : lstep s a = s := by
  simp [lstep, h]

/-- one chained call, issued by the closure of call `k` while the lock is free: the explicit successor state -/
theorem chainOnce_eq {s : LChan} {k : Nat} {m : Msg} (hd : s.deadlocked = false) (hh : s.ch.halted = false)
    (hu : s.held = false) (hp : s.ch.pending = some (k, m)) (hc : s.chain = none) :
    chainOnce.foldl lstep s =
      { s with
        ch := { s.ch with
                counter := s.ch.counter + 1
                nextCall := s.ch.nextCall + 1
                idOf := setAt s.ch.idOf s.ch.nextCall (s.ch.counter + 1)
                stage := setAt (setAt (setAt s.ch.stage s.ch.nextCall .fetched) s.ch.nextCall .inserted) s.ch.nextCall .returned
                outstanding := insertKey (s.ch.counter + 1) s.ch.nextCall s.ch.outstanding
                log := .sent (s.ch.counter + 1) s.ch.nextCall :: s.ch.log }
        chain := none
        chained := (s.ch.nextCall, k) :: s.chained } := by
  simp only [chainOnce, List.foldl]
  rw [chainBegin_eq hd hh hp hc]
  rw [chainInsert_eq (s := { s with ch := callBegin s.ch, chain := some s.ch.nextCall, chained := (s.ch.nextCall, k) :: s.chained })
        (k' := s.ch.nextCall) hd (by simp [callBegin, hh]) hu rfl (by simp [callBegin, setAt_same])]
  rw [chainSend_eq (s := { s with ch := { callBegin s.ch with
                                           outstanding := insertKey ((callBegin s.ch).idOf s.ch.nextCall) s.ch.nextCall (callBegin s.ch).outstanding
                                           stage := setAt (callBegin s.ch).stage s.ch.nextCall .inserted }
                                  chain := some s.ch.nextCall, chained := (s.ch.nextCall, k) :: s.chained })
        (k' := s.ch.nextCall) hd (by simp [callBegin, hh]) rfl (by simp [setAt_same])]
  simp [callBegin, idFetch_eq, setAt_same]

/-- a message handled by an idle loop thread whose closure does not call back: the two steps are those of `Model/Rpc.lean` -/
theorem lstep_recv_finish (s : LChan) (m : Msg) (hd : s.deadlocked = false) (hp : s.ch.pending = none) (hc : s.chain = none) :
    (lstep (lstep s (.base (.recv m))) (.base .finish)).ch = step (step s.ch (.recv m)) .finish ∧
    (lstep (lstep s (.base (.recv m))) (.base .finish)).chain = none ∧
    (lstep (lstep s (.base (.recv m))) (.base .finish)).chained = s.chained := by
  by_cases hh : s.ch.halted = true
  · have e1 : ∀ a, lstep s a = s := fun a => by simp [lstep, hd, hh]
    rw [e1, e1, step_halted _ _ hh, step_halted _ _ hh]
    exact ⟨rfl, hc, rfl⟩
  · have hh : s.ch.halted = false := by simpa using hh
    have h1 : lstep s (.base (.recv m)) =
        { s with ch := step s.ch (.recv m), held := (step s.ch (.recv m)).pending.isSome && lockHeldIntoCompletion } := by
      simp [lstep, hd, hh, lrecv, hp]
    rw [h1]
    generalize step s.ch (.recv m) = c1
    by_cases hh2 : c1.halted = true
    · rw [step_halted c1 _ hh2]
      simp [lstep, hd, hh2, hc]
    · have hh2 : c1.halted = false := by simpa using hh2
      simp [lstep, hd, hh2, lfinish, hc]

/-- once deadlocked, nothing moves -/
theorem lfoldl_deadlocked (acts : List LAct) (s : LChan) (h : s.deadlocked = true) : acts.foldl lstep s = s := by
  induction acts with
  | nil => rfl
  | cons a rest ih => simp only [List.foldl]; rw [lstep_deadlocked s a h]; exact ih

end MuduoVerif.Rpc
