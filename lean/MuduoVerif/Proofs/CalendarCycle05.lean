import MuduoVerif.Proofs.CalendarE
/-! One sixteenth of the 400-year cycle, checked by kernel evaluation (see CalendarCycle.lean). -/
namespace MuduoVerif.CalendarE

theorem cycleDays_4 : checkDays 36528 9132 = true := by decide +kernel

theorem cycleYears_4 : checkYears 100 25 = true := by decide +kernel

end MuduoVerif.CalendarE
