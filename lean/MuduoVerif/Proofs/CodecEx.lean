import MuduoVerif.Proofs.Codec
/-! Lemmas about the example codec (`examples/protobuf/codec/codec.cc`): what `Ex.step` makes of a frame produced by
`Ex.encode` (round trip). -/
namespace MuduoVerif.Codec.Ex
open MuduoVerif.Stream MuduoVerif.Gen.ExCodec
open MuduoVerif.Buffer (intBytes intBytes_length)

/-- what the checksum covers: name length, name with its NUL, payload -/
def summed (tn p : Bytes) : Bytes := intBytes 4 ((tn.length + 1 : Nat) : Int) ++ (tn ++ [0]) ++ p

/-- everything behind the length field -/
def bodyOf (tn p : Bytes) : Bytes := summed tn p ++ intBytes 4 (checksum32 adlerInit (summed tn p))

theorem encode_eq (tn p : Bytes) : encode tn p = intBytes 4 ((bodyOf tn p).length : Int) ++ bodyOf tn p := rfl

theorem summed_length (tn p : Bytes) : (summed tn p).length = 4 + (tn.length + 1) + p.length := by
  simp only [summed, List.length_append, intBytes_length, List.length_cons, List.length_nil]

theorem bodyOf_length (tn p : Bytes) : (bodyOf tn p).length = 4 + (tn.length + 1) + p.length + 4 := by
  simp only [bodyOf, List.length_append, intBytes_length, summed_length]

theorem encode_length (tn p : Bytes) : (encode tn p).length = 4 + (4 + (tn.length + 1) + p.length + 4) := by
  rw [encode_eq, List.length_append, intBytes_length, bodyOf_length]

theorem adlerInit_lt : adlerInit < 2 ^ 32 := by unfold adlerInit; omega

theorem validate_body (tn p : Bytes) : validateChecksum (bodyOf tn p) = true := by
  unfold validateChecksum
  have hL := bodyOf_length tn p
  have hS := summed_length tn p
  have h1 : slice (bodyOf tn p) checksumFrom (checksumLen ((bodyOf tn p).length : Int)) = summed tn p := by
    have : checksumLen ((bodyOf tn p).length : Int) = ((summed tn p).length : Int) := by
      unfold checksumLen kHeaderLen; omega
    rw [this]
    unfold checksumFrom bodyOf
    exact slice_zero_append _ _
  have h2 : asInt32 (bodyOf tn p) (checksumAt ((bodyOf tn p).length : Int)) = checksum32 adlerInit (summed tn p) := by
    have : checksumAt ((bodyOf tn p).length : Int) = ((summed tn p).length : Int) := by
      unfold checksumAt kHeaderLen; omega
    rw [this]
    have hb : bodyOf tn p = summed tn p ++ (intBytes 4 (Buffer.toSigned 32 (adler32 adlerInit (summed tn p))) ++ []) := by
      simp [bodyOf, checksum32]
    rw [hb]
    exact asInt32_intBytes_signed _ (adler32_lt _ adlerInit_lt _) _ _
  rw [h1, h2]
  simp

theorem nameLenOf_body (tn p : Bytes) (h : tn.length + 1 < 2 ^ 31) : nameLenOf (bodyOf tn p) = ((tn.length + 1 : Nat) : Int) := by
  unfold nameLenOf nameLenAt bodyOf summed
  rw [List.append_assoc, List.append_assoc]
  exact asInt32_intBytes_nat _ h _

theorem typeNameOf_body (tn p : Bytes) (h : tn.length + 1 < 2 ^ 31) : typeNameOf (bodyOf tn p) = tn := by
  unfold typeNameOf
  rw [nameLenOf_body tn p h]
  have h1 : typeNameFrom = ((intBytes 4 ((tn.length + 1 : Nat) : Int)).length : Int) := by
    rw [intBytes_length]; unfold typeNameFrom kHeaderLen; omega
  have h2 : typeNameTo ((tn.length + 1 : Nat) : Int) - typeNameFrom = (tn.length : Int) := by
    unfold typeNameTo typeNameFrom kHeaderLen; omega
  rw [h2, h1]
  have : bodyOf tn p = intBytes 4 ((tn.length + 1 : Nat) : Int) ++ (tn ++ ([0] ++ p ++ intBytes 4 (checksum32 adlerInit (summed tn p)))) := by
    simp [bodyOf, summed]
  rw [this]
  exact slice_skip_append _ _ _

theorem payloadOf_body (tn p : Bytes) (h : tn.length + 1 < 2 ^ 31) : payloadOf (bodyOf tn p) = p := by
  unfold payloadOf
  rw [nameLenOf_body tn p h]
  have hL := bodyOf_length tn p
  have h1 : payloadAt ((tn.length + 1 : Nat) : Int) = ((intBytes 4 ((tn.length + 1 : Nat) : Int) ++ (tn ++ [0])).length : Int) := by
    simp only [List.length_append, intBytes_length, List.length_cons, List.length_nil]
    unfold payloadAt kHeaderLen; omega
  have h2 : payloadLen ((bodyOf tn p).length : Int) ((tn.length + 1 : Nat) : Int) = (p.length : Int) := by
    unfold payloadLen kHeaderLen; omega
  rw [h2, h1]
  have : bodyOf tn p = (intBytes 4 ((tn.length + 1 : Nat) : Int) ++ (tn ++ [0])) ++ (p ++ intBytes 4 (checksum32 adlerInit (summed tn p))) := by
    simp [bodyOf, summed]
  rw [this]
  exact slice_skip_append _ _ _

theorem parse_body (c : Cfg) (tn p : Bytes) (h1 : 1 ≤ tn.length) (h : tn.length + 1 < 2 ^ 31)
    (hk : c.typeKnown tn = true) (hp : c.parsePayload tn p = true) : parse c (bodyOf tn p) = .kNoError := by
  unfold parse
  have hn : decide (nameLenOk (nameLenOf (bodyOf tn p)) ((bodyOf tn p).length : Int)) = true := by
    rw [nameLenOf_body tn p h, bodyOf_length]
    simp only [decide_eq_true_eq]
    unfold nameLenOk kHeaderLen; omega
  rw [validate_body, hn, typeNameOf_body tn p h, payloadOf_body tn p h, hk, hp]
  rfl

/-- the example decoder's view of `encode typeName payload ++ rest` when the frame is within the decoder's limit -/
theorem step_encode (c : Cfg) (tn p rest : Bytes) (h1 : 1 ≤ tn.length)
    (hmax : 4 + (tn.length + 1) + p.length + 4 ≤ kMaxMessageLen)
    (hk : c.typeKnown tn = true) (hp : c.parsePayload tn p = true) :
    step c () (encode tn p ++ rest) = .adv () [.msg tn p] (encode tn p).length := by
  have hL := bodyOf_length tn p
  have hmax' : 4 + (tn.length + 1) + p.length + 4 ≤ 67108864 := by unfold kMaxMessageLen at hmax; exact hmax
  have h31 : tn.length + 1 < 2 ^ 31 := by omega
  have hlen : asInt32 (encode tn p ++ rest) 0 = ((bodyOf tn p).length : Int) := by
    rw [encode_eq, List.append_assoc]
    exact asInt32_intBytes_nat _ (by omega) _
  have hbl : (encode tn p ++ rest).length = 4 + (4 + (tn.length + 1) + p.length + 4) + rest.length := by
    rw [List.length_append, encode_length]
  have g1 : headerAvailable (encode tn p ++ rest).length := by
    unfold headerAvailable kMinMessageLen kHeaderLen; omega
  have g2 : ¬ lenOutOfRange ((bodyOf tn p).length : Int) := by
    unfold lenOutOfRange kMaxMessageLen kMinMessageLen; omega
  have g3 : frameAvailable (encode tn p ++ rest).length ((bodyOf tn p).length : Int) := by
    unfold frameAvailable kHeaderLen; omega
  have hkk : (consumedBytes ((bodyOf tn p).length : Int)).toNat = (encode tn p).length := by
    rw [encode_length]; unfold consumedBytes kHeaderLen; omega
  have hs : slice (encode tn p ++ rest) frameOffset (frameLen ((bodyOf tn p).length : Int)) = bodyOf tn p := by
    rw [encode_eq, List.append_assoc]
    have : frameOffset = ((intBytes 4 ((bodyOf tn p).length : Int)).length : Int) := by
      rw [intBytes_length]; unfold frameOffset kHeaderLen; omega
    rw [this]
    unfold frameLen
    exact slice_skip_append _ _ _
  unfold step
  simp only [hlen, g1, g2, g3, if_true, if_false, hkk, hs, parse_body c tn p h1 h31 hk hp,
    typeNameOf_body tn p h31, payloadOf_body tn p h31]

theorem step_nil (c : Cfg) : step c () [] = .need := by
  unfold step
  have : ¬ headerAvailable ([] : Bytes).length := by unfold headerAvailable kMinMessageLen kHeaderLen; simp
  simp only [this, if_false]

/-- one delivery of exactly the encoded frame to a fresh example decoder: the message, nothing left, no error -/
theorem feed_encode (c : Cfg) (tn p : Bytes) (h1 : 1 ≤ tn.length)
    (hmax : 4 + (tn.length + 1) + p.length + 4 ≤ kMaxMessageLen)
    (hk : c.typeKnown tn = true) (hp : c.parsePayload tn p = true) :
    feed c init (encode tn p) = ({ s := (), buf := [], dead := false }, [.msg tn p]) := by
  have hs := step_encode c tn p [] h1 hmax hk hp
  rw [List.append_nil] at hs
  have hl : (encode tn p).length + 1 = ((encode tn p).length - 1) + 1 + 1 := by rw [encode_length]; omega
  simp only [feed, Stream.feed, init, List.nil_append, drain, Bool.false_eq_true, if_false]
  rw [hl]
  simp only [Stream.loop, hs, List.drop_length, step_nil, Res.pre, List.append_nil]

end MuduoVerif.Codec.Ex
