import MuduoVerif.Proofs.OwnerReach
/-! What the per-connection automaton (`life`) implies about a trace it accepts: event counts and the position of
each event. -/
namespace MuduoVerif.Owner

/-- number of events of kind `k` of connection `c` -/
def cntK (c : Nat) (k : Kind) (tr : List Ev) : Nat := (tr.filter (fun e => e.conn == c && e.kind == k)).length

theorem cntK_snoc (c : Nat) (k : Kind) (tr : List Ev) (e : Ev) :
    cntK c k (tr ++ [e]) = cntK c k tr + (if e.conn = c ∧ e.kind = k then 1 else 0) := by
  unfold cntK; rw [List.filter_append]
  by_cases h : e.conn = c ∧ e.kind = k
  · simp [List.filter, h.1, h.2]
  · rw [if_neg h]
    have : (e.conn == c && e.kind == k) = false := by
      cases h1 : (e.conn == c && e.kind == k) with
      | false => rfl
      | true => simp at h1; exact absurd h1 h
    simp [List.filter, this]

def b2n (b : Bool) : Nat := if b then 1 else 0

/-- what the automaton has counted when it accepts a trace -/
theorem life_counts (c : Nat) (tr : List Ev) : ∀ a, life c tr = some a →
    cntK c .new tr = b2n a.born ∧ cntK c .up tr = (if a.cb = .init then 0 else 1) ∧
    cntK c .down tr = (if a.cb = .down then 1 else 0) ∧ cntK c .erase tr = b2n a.erased ∧
    cntK c .destroyed tr = b2n a.destroyed ∧ cntK c .dtor tr = b2n a.dead ∧
    cntK c .abort tr = 0 ∧ cntK c .eraseMiss tr = 0 ∧ cntK c .uaf tr = 0 ∧
    (a.cb = .init → cntK c .msg tr = 0) := by
  induction tr using List.reverseRecOn with
  | nil =>
    intro a h
    have : a = {} := by simpa [life] using h.symm
    subst this; simp [cntK, b2n]
  | append_singleton tr e ih =>
    intro a h
    rw [life_snoc] at h
    unfold lifeStep at h
    by_cases hc : e.conn = c
    · rw [if_pos hc] at h
      cases hq : life c tr with
      | none => rw [hq] at h; cases h
      | some q =>
        rw [hq] at h; simp only [Option.bind_some] at h
        obtain ⟨h1, h2, h3, h4, h5, h6, h7, h8, h9, h10⟩ := ih q hq
        simp only [cntK_snoc, h1, h2, h3, h4, h5, h6, h7, h8, h9, hc, true_and]
        cases hk : e.kind <;> rw [hk] at h <;> simp only [autoStep] at h <;> (try split at h) <;>
          simp only [Option.some.injEq, reduceCtorEq] at h <;> (try subst h) <;>
          simp_all [b2n]
    · rw [if_neg hc] at h
      have := ih a h
      simp only [cntK_snoc, hc, false_and, if_false, Nat.add_zero]
      exact this


/-- shape of the automaton's states: an event that needs an earlier one has seen it -/
theorem life_wf (c : Nat) (tr : List Ev) : ∀ a, life c tr = some a →
    (a.destroyed = true → a.cb = .down) ∧ (a.dead = true → a.destroyed = true) ∧ (a.erased = true → a.cb = .down) ∧
    (a.cb ≠ .init → a.born = true) := by
  induction tr using List.reverseRecOn with
  | nil =>
    intro a h
    have : a = {} := by simpa [life] using h.symm
    subst this; simp
  | append_singleton tr e ih =>
    intro a h
    rw [life_snoc] at h
    unfold lifeStep at h
    by_cases hc : e.conn = c
    · rw [if_pos hc] at h
      cases hq : life c tr with
      | none => rw [hq] at h; cases h
      | some q =>
        rw [hq] at h; simp only [Option.bind_some] at h
        obtain ⟨h1, h2, h3, h4⟩ := ih q hq
        cases hk : e.kind <;> rw [hk] at h <;> simp only [autoStep] at h <;> (try split at h) <;>
          simp only [Option.some.injEq, reduceCtorEq] at h <;> (try subst h) <;>
          simp_all
    · rw [if_neg hc] at h
      exact ih a h

theorem life_prefix (c : Nat) (a b : List Ev) (x : Auto) (h : life c (a ++ b) = some x) : ∃ y, life c a = some y := by
  induction b using List.reverseRecOn generalizing x with
  | nil => exact ⟨x, by simpa using h⟩
  | append_singleton b e ih =>
    rw [← List.append_assoc, life_snoc] at h
    unfold lifeStep at h
    cases hq : life c (a ++ b) with
    | none => rw [hq] at h; split at h <;> cases h
    | some q => exact ih q hq

/-- an event the automaton accepts was read in a state from which it is allowed -/
theorem life_letter (c : Nat) (pre post : List Ev) (e : Ev) (x : Auto) (h : life c (pre ++ e :: post) = some x) (hc : e.conn = c) :
    ∃ q q', life c pre = some q ∧ autoStep q e.kind = some q' := by
  have : pre ++ e :: post = (pre ++ [e]) ++ post := by simp
  rw [this] at h
  obtain ⟨q', hq'⟩ := life_prefix c _ _ _ h
  rw [life_snoc] at hq'
  unfold lifeStep at hq'
  rw [if_pos hc] at hq'
  cases hq : life c pre with
  | none => rw [hq] at hq'; cases hq'
  | some q => rw [hq] at hq'; exact ⟨q, q', rfl, by simpa using hq'⟩

end MuduoVerif.Owner
