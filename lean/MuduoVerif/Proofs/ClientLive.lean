import MuduoVerif.Proofs.ClientGrow
import MuduoVerif.Proofs.ClientTrace
/-!
"Leads to" facts: what the next loop iteration(s) do with a queued half-close, with the
connection of a destroyed client, with the attempt of a destroyed client.
-/
namespace MuduoVerif.Client
open MuduoVerif.Gen.Client

theorem reap_none {c : C} (hi : Mid c [] true) :
    (c.conns.filter (dyingP c)).find? (fun r => r.st ≠ .disconnected) = none := by
  rw [List.find?_eq_none]
  intro x hx
  obtain ⟨hxm, hxd⟩ := List.mem_filter.mp hx
  simp only [dyingP, Bool.and_eq_true, Bool.not_eq_true'] at hxd
  have hnh : ¬ held c.clientAlive c.connection c.pending x := by
    rw [← connHeld_iff]; simp [hxd.2]
  have hst : x.st = .disconnected := by
    cases h : x.st
    · exact absurd (by simpa using hi.c5 x hxm (by rw [h]; simp)) hnh
    · exact absurd (by simpa using hi.c5 x hxm (by rw [h]; simp)) hnh
    · rfl
  simp [hst]

theorem reap_eq2 {c : C} (hi : Mid c [] true) :
    reap c = { c with conns := c.conns.map (reapRec c),
                      trace := c.trace ++ (c.conns.filter (dyingP c)).map (fun r => Ev.connClosed r.sock) } := by
  rw [reap_eq, reap_none hi]; rfl

/-- one iteration, taken apart -/
structure IterParts (c : C) (active : List Src) (c1 c2 : C) : Prop where
  m1 : Mid c1 [] false
  g1 : Grow { c with horizon := c.nsock } c1
  m2 : Mid c2 [] true
  e2 : c2 = c1.pending.foldl (fun (c : C) t => if c.dead then c else runTask c t) { c1 with pending := [], batch := c1.pending }
  ms : Mid { c1 with pending := [], batch := c1.pending } c1.pending true
  m3 : Mid { c2 with batch := [] } [] true
  e : iter c active = reap { c2 with batch := [] }

theorem mid_horizon {c : C} (hi : Mid c [] true) : Mid { c with horizon := c.nsock } [] false := by
  obtain ⟨notDead, a1, a2, a3, a4, a5, a6, a7, a8, a9, a10, a11, a13, a14, a15, a16, s1, c1, c2, c3, c4, c5, c6, c7, c8, c9, c10, g1, g3, h1, t1⟩ := hi
  constructor
  all_goals mid_auto3

theorem mid_to_batch {c : C} (hi : Mid c [] false) : Mid { c with pending := [], batch := c.pending } c.pending true := by
  obtain ⟨notDead, a1, a2, a3, a4, a5, a6, a7, a8, a9, a10, a11, a13, a14, a15, a16, s1, c1, c2, c3, c4, c5, c6, c7, c8, c9, c10, g1, g3, h1, t1⟩ := hi
  constructor
  all_goals mid_auto3

theorem mid_clear_batch {c : C} (hi : Mid c [] true) : Mid { c with batch := [] } [] true := by
  obtain ⟨notDead, a1, a2, a3, a4, a5, a6, a7, a8, a9, a10, a11, a13, a14, a15, a16, s1, c1, c2, c3, c4, c5, c6, c7, c8, c9, c10, g1, g3, h1, t1⟩ := hi
  constructor
  all_goals mid_auto3

theorem iter_parts (c : C) (active : List Src) (hi : Bnd c) : ∃ c1 c2, IterParts c active c1 c2 := by
  unfold Bnd at hi
  have h0 := mid_horizon hi
  have h1 := dispatch_fold_mid active _ h0
  have hg1 := dispatch_fold_grow active _ h0
  have h2 := mid_to_batch h1
  have h3 := task_fold_mid _ _ h2
  have h4 := mid_clear_batch h3
  refine ⟨_, _, h1, hg1, h3, rfl, h2, h4, ?_⟩
  unfold iter
  simp only
  rw [if_neg (by rw [h1.notDead]; exact Bool.false_ne_true), if_neg (by rw [h3.notDead]; exact Bool.false_ne_true),
    reapConnector_id h4, if_neg (by rw [h4.notDead]; exact Bool.false_ne_true)]

/-! ### a queued half-close is made in the next iteration -/

theorem shutdownTask_emits (c : C) (k : Nat) (x : ConnRec) (hx : findIn c.conns k = some x) (hd : x.destroyed = false) :
    runTask c (.shutdownInLoop k) = emit c (.shutdownWr k) := by
  unfold runTask
  simp only
  have : ((c.conns.find? (fun r => r.sock == k)).map (·.destroyed)).getD true = false := by
    change ((findIn c.conns k).map (·.destroyed)).getD true = false
    rw [hx]; simpa using hd
  rw [this]; simp

theorem task_fold_shutdown (k : Nat) (rest : List Task) : ∀ (c : C), Mid c rest true → Task.shutdownInLoop k ∈ rest →
    (∃ x, findIn c.conns k = some x ∧ x.destroyed = false) →
    ∃ d, (rest.foldl (fun (c : C) t => if c.dead then c else runTask c t) c).trace = c.trace ++ d ∧ Ev.shutdownWr k ∈ d := by
  induction rest with
  | nil => intro c _ h; cases h
  | cons t rest ih =>
    intro c hi hin hx
    rw [List.foldl_cons, if_neg (by simp [hi.notDead])]
    have hm := runTask_mid c rest t hi
    by_cases ht : t = .shutdownInLoop k
    · subst ht
      obtain ⟨x, hx, hd⟩ := hx
      rw [shutdownTask_emits c k x hx hd] at hm ⊢
      obtain ⟨d, hd⟩ := (task_fold_grow rest _ hm).tr
      refine ⟨Ev.shutdownWr k :: d, ?_, by simp⟩
      rw [← hd]; simp [emit]
    · have hin' : Task.shutdownInLoop k ∈ rest := by
        rcases List.mem_cons.mp hin with h | h
        · exact absurd h.symm ht
        · exact h
      have hg := runTask_grow c rest t hi
      obtain ⟨x, hx, hd⟩ := hx
      obtain ⟨x', hx', hd', _⟩ := hg.conn k x hx
      obtain ⟨d1, hd1, hm1⟩ := ih _ hm hin' ⟨x', hx', by rw [hd', hd]⟩
      obtain ⟨d0, hd0⟩ := hg.tr
      refine ⟨d0 ++ d1, ?_, List.mem_append_right _ hm1⟩
      rw [hd1, ← hd0, List.append_assoc]

theorem iter_shutdown (c : C) (hb : Bnd c) (k : Nat) (hin : Task.shutdownInLoop k ∈ c.pending)
    (hx : ∃ x, findIn c.conns k = some x ∧ x.destroyed = false) (active : List Src) :
    ∃ d, (iter c active).trace = c.trace ++ d ∧ Ev.shutdownWr k ∈ d := by
  obtain ⟨c1, c2, hp⟩ := iter_parts c active hb
  obtain ⟨x, hx, hd⟩ := hx
  obtain ⟨x1, hx1, hd1, _⟩ := hp.g1.conn k x hx
  obtain ⟨d0, hd0⟩ := hp.g1.tr
  have hin1 : Task.shutdownInLoop k ∈ c1.pending := hp.g1.pend.subset hin
  obtain ⟨d1, hd1', hm1⟩ := task_fold_shutdown k c1.pending _ hp.ms hin1 ⟨x1, hx1, by rw [hd1, hd]⟩
  rw [← hp.e2] at hd1'
  have hr : ∃ d2, (reap { c2 with batch := [] }).trace = c2.trace ++ d2 := by
    rw [reap_eq2 hp.m3]; exact ⟨_, rfl⟩
  obtain ⟨d2, hd2⟩ := hr
  have e0 : c1.trace = c.trace ++ d0 := hd0.symm
  refine ⟨d0 ++ d1 ++ d2, ?_, List.mem_append_left _ (List.mem_append_right _ hm1)⟩
  rw [hp.e, hd2, hd1']
  show (c1.trace ++ d1) ++ d2 = _
  rw [e0]; simp [List.append_assoc]

/-! ### after the client is gone -/

theorem reapRec_fields (c : C) (y : ConnRec) :
    (reapRec c y).sock = y.sock ∧ (reapRec c y).st = y.st ∧ (reapRec c y).userRef = y.userRef ∧
    (y.destroyed = true → (reapRec c y).destroyed = true) := by
  unfold reapRec kill; split <;> simp

/-- a destroyed client's attempt does not survive the next iteration: no socket stays open -/
theorem iter_gone_quiet (c : C) (hb : Bnd c) (hal : c.clientAlive = false) (active : List Src) (k : Nat) :
    (iter c active).sockSt[k]? ≠ some SockSt.opened := by
  obtain ⟨c1, c2, hp⟩ := iter_parts c active hb
  have hg2 := task_fold_grow c1.pending _ hp.ms
  rw [← hp.e2] at hg2
  have hal1 : c1.clientAlive = false := by rw [hp.g1.alive]; exact hal
  have hal2 : c2.clientAlive = false := by
    rw [hg2.alive]; exact hal1
  have hns : Task.stopInLoop ∉ c2.pending := fun h => by
    have := hg2.nostop hal1 h; cases this
  rw [hp.e, reap_eq2 hp.m3]
  intro ho
  have ho : c2.sockSt[k]? = some SockSt.opened := ho
  have hon := (hp.m3.a4 k ho).2
  rcases hp.m3.a14 hon with h | h
  · rw [show ({ c2 with batch := [] } : C).clientAlive = c2.clientAlive from rfl, hal2] at h; cases h
  · exact hns (by simpa using h)

theorem task_fold_force (k : Nat) (rest : List Task) : ∀ (c : C), Mid c rest true → Task.forceCloseInLoop k ∈ rest →
    ∃ y, findIn (rest.foldl (fun (c : C) t => if c.dead then c else runTask c t) c).conns k = some y ∧ y.st = .disconnected := by
  induction rest with
  | nil => intro c _ h; cases h
  | cons t rest ih =>
    intro c hi hin
    rw [List.foldl_cons, if_neg (by simp [hi.notDead])]
    have hm := runTask_mid c rest t hi
    by_cases ht : t = .forceCloseInLoop k
    · subst ht
      obtain ⟨x, hx, hcb⟩ := hi.c8 k (by simp)
      have hdown : ∃ y, findIn (runTask c (.forceCloseInLoop k)).conns k = some y ∧ y.st = .disconnected := by
        have hcs : connSt c k = x.st := by simp [connSt, findConn_eq, hx]
        unfold runTask; simp only; rw [hcs]
        split
        · rw [handleClose_find c k x hx]
          exact ⟨_, rfl, by simp [goDown]⟩
        · rename_i hst
          exact ⟨x, hx, by cases h : x.st <;> simp_all⟩
      obtain ⟨y, hy, hys⟩ := hdown
      obtain ⟨y', hy', _, hst', _⟩ := (task_fold_grow rest _ hm).conn k y hy
      exact ⟨y', hy', hst' hys⟩
    · have hin' : Task.forceCloseInLoop k ∈ rest := by
        rcases List.mem_cons.mp hin with h | h
        · exact absurd h.symm ht
        · exact h
      exact ih _ hm hin'

/-- first iteration after `~TcpClient`: the forced close takes the connection down -/
theorem iter_force (c : C) (hb : Bnd c) (hal : c.clientAlive = false) (k : Nat) (x : ConnRec)
    (hx : findIn c.conns k = some x) (hur : x.userRef = false) (hin : Task.forceCloseInLoop k ∈ c.pending)
    (active : List Src) :
    (iter c active).clientAlive = false ∧
    ∃ y, findIn (iter c active).conns k = some y ∧ y.st = .disconnected ∧ y.userRef = false := by
  obtain ⟨c1, c2, hp⟩ := iter_parts c active hb
  have hg2 := task_fold_grow c1.pending _ hp.ms
  rw [← hp.e2] at hg2
  obtain ⟨x1, hx1, _, _, hur1, _⟩ := hp.g1.conn k x hx
  obtain ⟨x2, hx2, _, _, hur2, _⟩ := hg2.conn k x1 hx1
  have hin1 : Task.forceCloseInLoop k ∈ c1.pending := hp.g1.pend.subset hin
  obtain ⟨y, hy, hys⟩ := task_fold_force k c1.pending _ hp.ms hin1
  rw [← hp.e2] at hy
  rw [hx2] at hy; cases hy
  have hal2 : c2.clientAlive = false := by
    rw [hg2.alive]; show c1.clientAlive = false; rw [hp.g1.alive]; exact hal
  rw [hp.e, reap_eq2 hp.m3]
  refine ⟨hal2, reapRec { c2 with batch := [] } x2, ?_, ?_, ?_⟩
  · show findIn (c2.conns.map (reapRec { c2 with batch := [] })) k = _
    rw [findIn_mapg k _ (fun r => (reapRec_fields _ r).1), hx2]; rfl
  · rw [(reapRec_fields _ x2).2.1]; exact hys
  · rw [(reapRec_fields _ x2).2.2.1, hur2, hur1, hur]

/-- a connection that is down, that the user does not hold, of a client that is gone, is destroyed
by the end of the next iteration -/
theorem iter_reaps (c : C) (hb : Bnd c) (hal : c.clientAlive = false) (k : Nat) (y : ConnRec)
    (hy : findIn c.conns k = some y) (hst : y.st = .disconnected) (hur : y.userRef = false) (active : List Src) :
    ∃ z, findIn (iter c active).conns k = some z ∧ z.destroyed = true := by
  obtain ⟨c1, c2, hp⟩ := iter_parts c active hb
  have hg2 := task_fold_grow c1.pending _ hp.ms
  rw [← hp.e2] at hg2
  obtain ⟨y1, hy1, _, hst1, hur1, _⟩ := hp.g1.conn k y hy
  obtain ⟨y2, hy2, _, hst2, hur2, _⟩ := hg2.conn k y1 hy1
  have hal2 : c2.clientAlive = false := by
    rw [hg2.alive]; show c1.clientAlive = false; rw [hp.g1.alive]; exact hal
  have hnohold : ∀ t ∈ c2.pending, t.holds k = false := by
    intro t ht
    cases hh : t.holds k
    · rfl
    · have := hg2.hold k y1 hy1 (hst1 hst) t ht hh; cases this
  rw [hp.e, reap_eq2 hp.m3]
  refine ⟨reapRec { c2 with batch := [] } y2, ?_, ?_⟩
  · show findIn (c2.conns.map (reapRec { c2 with batch := [] })) k = _
    rw [findIn_mapg k _ (fun r => (reapRec_fields _ r).1), hy2]; rfl
  · cases hd : y2.destroyed
    · have hks := (findIn_some hy2).2
      have : dyingP { c2 with batch := [] } y2 = true := by
        simp only [dyingP, connHeld, hd, Bool.not_false, Bool.true_and, Bool.not_eq_true', Bool.or_eq_false_iff]
        refine ⟨⟨by rw [hur2, hur1, hur], by simp [hal2]⟩, ?_⟩
        rw [List.any_eq_false]
        intro t ht; rw [hks, hnohold t ht]; simp
      simp [reapRec, this, kill]
    · exact (reapRec_fields _ y2).2.2.2 hd

end MuduoVerif.Client
