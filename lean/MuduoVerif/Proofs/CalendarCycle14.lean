import MuduoVerif.Proofs.CalendarE
/-! One sixteenth of the 400-year cycle, checked by kernel evaluation (see CalendarCycle.lean). -/
namespace MuduoVerif.CalendarE

theorem cycleDays_13 : checkDays 118716 9132 = true := by decide +kernel

theorem cycleYears_13 : checkYears 325 25 = true := by decide +kernel

end MuduoVerif.CalendarE
