import MuduoVerif.Proofs.ClientTr
/-!
What a legal trace (`scan tr = some s`) says in plain terms: counts of the socket events,
the per-cycle counters, silence after `stop()` / destruction.  Nothing here mentions the model.
-/
namespace MuduoVerif.Client

def Phase.wasHanded : Phase → Bool
  | .handed | .up | .down | .connClosed => true
  | _ => false
def Phase.wasUp : Phase → Bool
  | .up | .down | .connClosed => true
  | _ => false
def Phase.wasDown : Phase → Bool
  | .down | .connClosed => true
  | _ => false

/-- does socket `k` exist and satisfy `p`? -/
def Spec.has (s : Spec) (k : Nat) (p : Phase → Bool) : Bool :=
  match s.phases[k]? with
  | some q => p q
  | none => false

def b2n (b : Bool) : Nat := if b then 1 else 0

/-- the summary counts the events -/
structure Cnt (s : Spec) (tr : List Ev) : Prop where
  created : ∀ k, tr.count (.sockCreated k) = b2n (decide (k < s.phases.length))
  closed : ∀ k, tr.count (.sockClosed k) = b2n (s.has k (· == .closed))
  handed : ∀ k, tr.count (.handedOver k) = b2n (s.has k Phase.wasHanded)
  up : ∀ k, tr.count (.up k) = b2n (s.has k Phase.wasUp)
  down : ∀ k, tr.count (.down k) = b2n (s.has k Phase.wasDown)
  connClosed : ∀ k, tr.count (.connClosed k) = b2n (s.has k (· == .connClosed))
  noAbort : ∀ w, Ev.abort w ∉ tr
  noUaf : ∀ w, Ev.uaf w ∉ tr

macro "cnt_tac" h:ident : tactic =>
  `(tactic| (constructor <;> intro j <;>
      first
        | (simp only [List.mem_append, List.mem_singleton, not_or]; exact ⟨by first | exact ($h).noAbort j | exact ($h).noUaf j, by simp⟩)
        | (rw [List.count_append, List.count_singleton]
           first | rw [($h).created j] | rw [($h).closed j] | rw [($h).handed j] | rw [($h).up j] | rw [($h).down j] | rw [($h).connClosed j]
           grind [Spec.has, b2n, List.getElem?_set, Phase.wasHanded, Phase.wasUp, Phase.wasDown, List.getElem?_append, List.getElem?_eq_some_iff])))

theorem cnt_step {s s' : Spec} {tr : List Ev} {e : Ev} (h : Cnt s tr) (hs : specStep s e = some s') : Cnt s' (tr ++ [e]) := by
  cases e with
  | sockCreated k =>
    simp only [specStep] at hs
    split at hs
    · cases hs; cnt_tac h
    · cases hs
  | attempt k t =>
    simp only [specStep] at hs
    split at hs
    · cases hs; cnt_tac h
    · cases hs
  | sockClosed k =>
    simp only [specStep, Spec.move] at hs
    split at hs
    · cases hs; cnt_tac h
    · cases hs
  | handedOver k =>
    simp only [specStep, Spec.move] at hs
    split at hs
    · cases hs; cnt_tac h
    · cases hs
  | connClosed k =>
    simp only [specStep, Spec.move] at hs
    split at hs
    · cases hs; cnt_tac h
    · cases hs
  | up k =>
    simp only [specStep, Spec.move] at hs
    split at hs
    · split at hs
      · cases hs; cnt_tac h
      · cases hs
    · cases hs
  | down k =>
    simp only [specStep, Spec.move] at hs
    split at hs
    · cases hs; cnt_tac h
    · cases hs
  | shutdownWr k =>
    simp only [specStep] at hs
    split at hs
    · cases hs; cnt_tac h
    · cases hs
  | query k seen =>
    simp only [specStep] at hs
    split at hs
    · cases hs; cnt_tac h
    · cases hs
  | retryScheduled i ms t =>
    simp only [specStep] at hs
    split at hs
    · cases hs; cnt_tac h
    · cases hs
  | abort w => simp [specStep] at hs
  | uaf w => simp [specStep] at hs
  | ghost g =>
    cases g <;> simp only [specStep] at hs
    · cases hs; cnt_tac h
    all_goals
      split at hs
      · cases hs
      · cases hs; cnt_tac h

theorem cnt_scanFrom (d : List Ev) : ∀ (s s' : Spec) (tr : List Ev), Cnt s tr → scanFrom s d = some s' → Cnt s' (tr ++ d) := by
  induction d with
  | nil => intro s s' tr h hs; simp [scanFrom] at hs; subst hs; simpa using h
  | cons e d ih =>
    intro s s' tr h hs
    rw [scanFrom_cons] at hs
    cases he : specStep s e with
    | none => rw [he] at hs; cases hs
    | some s1 =>
      rw [he] at hs
      have := ih s1 s' (tr ++ [e]) (cnt_step h he) hs
      simpa using this

theorem cnt_scan {tr : List Ev} {s : Spec} (h : scan tr = some s) : Cnt s tr := by
  have h0 : Cnt {} [] := by
    constructor <;> intro j <;> simp [Spec.has, b2n]
  simpa using cnt_scanFrom tr {} s [] h0 h

/-! ### counters of the current connect cycle, and what the user last asked for -/

/-- (UP callbacks, retries scheduled) since the last start of a cycle -/
def cycStep (a : Nat × Nat) : Ev → Nat × Nat
  | .ghost .cycle => (0, 0)
  | .up _ => (a.1 + 1, a.2)
  | .retryScheduled _ _ _ => (a.1, a.2 + 1)
  | _ => a
def cyc (tr : List Ev) : Nat × Nat := tr.foldl cycStep (0, 0)

/-- `stop()` was the user's last word (no `connect()` after it) -/
def stoppedStep (b : Bool) : Ev → Bool
  | .ghost .stop => true
  | .ghost .connect => false
  | _ => b
def stoppedAfter (tr : List Ev) : Bool := tr.foldl stoppedStep false

def goneStep (b : Bool) : Ev → Bool
  | .ghost .destroy => true
  | _ => b
def goneAfter (tr : List Ev) : Bool := tr.foldl goneStep false

theorem cyc_snoc (tr : List Ev) (e : Ev) : cyc (tr ++ [e]) = cycStep (cyc tr) e := by simp [cyc, List.foldl_append]
theorem stoppedAfter_snoc (tr : List Ev) (e : Ev) : stoppedAfter (tr ++ [e]) = stoppedStep (stoppedAfter tr) e := by
  simp [stoppedAfter, List.foldl_append]
theorem goneAfter_snoc (tr : List Ev) (e : Ev) : goneAfter (tr ++ [e]) = goneStep (goneAfter tr) e := by
  simp [goneAfter, List.foldl_append]

/-- the summary agrees with the plain folds over the trace -/
structure Sum (s : Spec) (tr : List Ev) : Prop where
  ups : s.ups = (cyc tr).1
  nretry : s.nretry = (cyc tr).2
  stopped : s.stopped = stoppedAfter tr
  gone : s.gone = goneAfter tr

theorem sum_step {s s' : Spec} {tr : List Ev} {e : Ev} (h : Sum s tr) (hs : specStep s e = some s') : Sum s' (tr ++ [e]) := by
  obtain ⟨h1, h2, h3, h4⟩ := h
  cases e with
  | ghost g =>
    cases g <;> simp only [specStep] at hs
    · cases hs; exact ⟨by simp [cyc_snoc, cycStep], by simp [cyc_snoc, cycStep], by simp [stoppedAfter_snoc, stoppedStep, h3], by simp [goneAfter_snoc, goneStep, h4]⟩
    all_goals
      split at hs
      · cases hs
      · cases hs
        exact ⟨by simp [cyc_snoc, cycStep, h1], by simp [cyc_snoc, cycStep, h2], by simp [stoppedAfter_snoc, stoppedStep, h3],
          by simp [goneAfter_snoc, goneStep, h4]⟩
  | up k =>
    simp only [specStep, Spec.move] at hs
    split at hs
    · rename_i hc
      split at hs
      · cases hs
        exact ⟨by simp [cyc_snoc, cycStep, ← h1, hc.2.2], by simp [cyc_snoc, cycStep, h2], by simp [stoppedAfter_snoc, stoppedStep, h3],
          by simp [goneAfter_snoc, goneStep, h4]⟩
      · cases hs
    · cases hs
  | retryScheduled i ms t =>
    simp only [specStep] at hs
    split at hs
    · cases hs
      exact ⟨by simp [cyc_snoc, cycStep, h1], by simp [cyc_snoc, cycStep, h2], by simp [stoppedAfter_snoc, stoppedStep, h3],
        by simp [goneAfter_snoc, goneStep, h4]⟩
    · cases hs
  | abort w => simp [specStep] at hs
  | uaf w => simp [specStep] at hs
  | sockCreated k | attempt k t | sockClosed k | handedOver k | connClosed k | down k | shutdownWr k | query k seen =>
    simp only [specStep, Spec.move] at hs
    split at hs
    · cases hs
      exact ⟨by simp [cyc_snoc, cycStep, h1], by simp [cyc_snoc, cycStep, h2], by simp [stoppedAfter_snoc, stoppedStep, h3],
        by simp [goneAfter_snoc, goneStep, h4]⟩
    · cases hs

theorem sum_scanFrom (d : List Ev) : ∀ (s s' : Spec) (tr : List Ev), Sum s tr → scanFrom s d = some s' → Sum s' (tr ++ d) := by
  induction d with
  | nil => intro s s' tr h hs; simp [scanFrom] at hs; subst hs; simpa using h
  | cons e d ih =>
    intro s s' tr h hs
    rw [scanFrom_cons] at hs
    cases he : specStep s e with
    | none => rw [he] at hs; cases hs
    | some s1 =>
      rw [he] at hs
      have := ih s1 s' (tr ++ [e]) (sum_step h he) hs
      simpa using this

theorem sum_scan {tr : List Ev} {s : Spec} (h : scan tr = some s) : Sum s tr := by
  have h0 : Sum {} [] := ⟨rfl, rfl, rfl, rfl⟩
  simpa using sum_scanFrom tr {} s [] h0 h

/-- a legal trace is legal at every position -/
theorem scan_split {pre post : List Ev} {e : Ev} {s : Spec} (h : scan (pre ++ e :: post) = some s) :
    ∃ s1 s2, scan pre = some s1 ∧ specStep s1 e = some s2 := by
  rw [scan_append] at h
  cases h1 : scan pre with
  | none => rw [h1] at h; cases h
  | some s1 =>
    rw [h1, Option.bind_some, scanFrom_cons] at h
    cases h2 : specStep s1 e with
    | none => rw [h2] at h; cases h
    | some s2 => exact ⟨s1, s2, rfl, h2⟩

end MuduoVerif.Client
