import MuduoVerif.Proofs.LoopQuit
/-!
# `EventLoopThread` (C05): `no_dead_access`, the start-up handshake, and who can be blocked forever

One step of the loop thread / of another thread is first summarised as one of a few *moves* on the shared
`EventLoopThread` state (`LoopMove`, `OtherMove`: one case analysis over the transition system each); the
invariant `EltInv` is then shown to survive every move, and `stuck_analysis` reads off what a state in which
nobody can move must look like.
-/
set_option linter.unnecessarySimpa false
namespace MuduoVerif.Loop
open MuduoVerif.Gen.Loop

/-- the part of the state the `EventLoopThread` invariants talk about -/
structure SameShared (s s' : St) : Prop where
  elt : s'.elt = s.elt
  mtx : s'.mtx = s.mtx
  loopPtr : s'.loopPtr = s.loopPtr
  waiting : s'.waiting = s.waiting
  alive : s'.alive = s.alive
  phase : s'.phase = s.phase
  uaf : s'.uafDtor = s.uafDtor
  finished : s'.finished = s.finished

theorem runTop_same (s : St) : SameShared s (runTop s) ∧ (runTop s).thr = s.thr := by
  unfold runTop; repeat' split
  all_goals exact ⟨⟨rfl, rfl, rfl, rfl, rfl, rfl, rfl, rfl⟩, rfl⟩

/-- what one step of the loop thread does to the shared `EventLoopThread` state -/
inductive LoopMove (s s' : St) : Prop
  | same (h : SameShared s s')
  | born (hp : s.phase = .born) (hp' : s'.phase = .pre) (ha : s'.alive = true)
      (h1 : s'.loopPtr = s.loopPtr) (h2 : s'.waiting = s.waiting) (h3 : s'.finished = s.finished)
  | publish (hp : s.phase = .pre) (he : s.elt = true) (hm : s.mtx = false) (hp' : s'.phase = .ready)
      (hl : s'.loopPtr = true) (hw : s'.waiting = false) (ha : s'.alive = s.alive) (h3 : s'.finished = s.finished)
  | run (hp : hasLoop s.phase = true) (hq : s.elt = true → running s.phase = true) (hp' : running s'.phase = true)
      (h1 : s'.loopPtr = s.loopPtr) (h2 : s'.waiting = s.waiting) (ha : s'.alive = s.alive)
      (h3 : s'.finished = s.finished)
  | die (hp : s.phase = .returned) (he : s.elt = true) (hm : s.mtx = false) (hp' : s'.phase = .dead)
      (hl : s'.loopPtr = false) (ha : s'.alive = false) (hw : s'.waiting = false) (hf : s'.finished = true)
  | again (hp : s.phase = .returned) (he : s.elt = false) (hp' : s'.phase = .pre)
      (h1 : s'.loopPtr = s.loopPtr) (h2 : s'.waiting = s.waiting) (ha : s'.alive = s.alive)
      (h3 : s'.finished = s.finished)

theorem stepLoop_move (s : St) :
    (stepLoop s).thr = s.thr ∧ (stepLoop s).elt = s.elt ∧ (stepLoop s).mtx = s.mtx ∧
    (stepLoop s).uafDtor = s.uafDtor ∧ LoopMove s (stepLoop s) := by
  have hr := runTop_same s
  have hrun : (runTop s).thr = s.thr ∧ (runTop s).elt = s.elt ∧ (runTop s).mtx = s.mtx ∧
      (runTop s).uafDtor = s.uafDtor ∧ LoopMove s (runTop s) :=
    ⟨hr.2, hr.1.elt, hr.1.mtx, hr.1.uaf, .same hr.1⟩
  have := publishNotifies_tie; have := clearLocks_tie; have := finishSets_tie; have := finishNotifies_tie
  loop_cases
  all_goals (first
    | exact hrun
    | (simp only [true_and]
       first
        | (apply LoopMove.same; constructor <;> simp_all; done)
        | (apply LoopMove.born <;> simp_all; done)
        | (apply LoopMove.publish <;> simp_all; done)
        | (apply LoopMove.die <;> simp_all; done)
        | (apply LoopMove.again <;> simp_all; done)
        | (apply LoopMove.run <;> simp_all [running, hasLoop]; done))
    | (refine ⟨rfl, rfl, rfl, rfl, ?_⟩
       first
        | (apply LoopMove.same; constructor <;> simp_all; done)
        | (apply LoopMove.born <;> simp_all; done)
        | (apply LoopMove.publish <;> simp_all; done)
        | (apply LoopMove.die <;> simp_all; done)
        | (apply LoopMove.again <;> simp_all; done)
        | (apply LoopMove.run <;> simp_all [running, hasLoop]; done)))

/-- the shared `EventLoopThread` state as a tuple: elt, mtx, loopPtr, waiting, alive, phase, uafDtor, finished -/
def shared (s : St) : Bool × Bool × Bool × Bool × Bool × Phase × Bool × Bool :=
  (s.elt, s.mtx, s.loopPtr, s.waiting, s.alive, s.phase, s.uafDtor, s.finished)

/-- what one step of another thread does to its own position and to the shared `EventLoopThread` state -/
inductive OtherMove (s s' : St) (k : Nat) : Prop
  | user (h : shared s' = shared s) (hp : inElt (s.thr k).pc = false) (hp' : inElt (s'.thr k).pc = false)
  | stay (h : shared s' = shared s) (ht : s'.thr k = s.thr k)
  | start (hp : (s.thr k).pc = .idle) (hp' : (s'.thr k).pc = .sCheck) (he : s.elt = true) (hph : s.phase = .unborn)
      (h : shared s' = (s.elt, s.mtx, s.loopPtr, s.waiting, s.alive, .born, s.uafDtor, s.finished))
  | checkOk (hp : (s.thr k).pc = .sCheck) (hp' : (s'.thr k).pc = .idle) (hm : s.mtx = false) (hl : s.loopPtr = true)
      (h : shared s' = shared s)
  | checkGone (hp : (s.thr k).pc = .sCheck) (hp' : (s'.thr k).pc = .idle) (hm : s.mtx = false) (hl : s.loopPtr = false)
      (hf : s.finished = true) (h : shared s' = shared s)
  | checkWait (hp : (s.thr k).pc = .sCheck) (hp' : (s'.thr k).pc = .sWaiting) (hm : s.mtx = false)
      (hl : s.loopPtr = false) (hf : s.finished = false) (h : shared s' = (s.elt, s.mtx, s.loopPtr, true, s.alive, s.phase, s.uafDtor, s.finished))
  | wake (hp : (s.thr k).pc = .sWaiting) (hp' : (s'.thr k).pc = .sCheck) (h : shared s' = shared s)
  | dEnter (hp : (s.thr k).pc = .idle) (hp' : (s'.thr k).pc = .dEntry) (he : s.elt = true) (h : shared s' = shared s)
  | dLock (hp : (s.thr k).pc = .dEntry) (hp' : (s'.thr k).pc = .dBeforeQuit) (hm : s.mtx = false)
      (hl : s.loopPtr = true) (h : shared s' = (s.elt, true, s.loopPtr, s.waiting, s.alive, s.phase, s.uafDtor, s.finished))
  | dSkipJoin (hp : (s.thr k).pc = .dEntry) (hp' : (s'.thr k).pc = .dJoin) (hm : s.mtx = false) (hl : s.loopPtr = false)
      (hph : s.phase ≠ .unborn) (h : shared s' = shared s)
  | dSkip (hp : (s.thr k).pc = .dEntry) (hp' : (s'.thr k).pc = .idle) (hph : s.phase = .unborn) (h : shared s' = shared s)
  | dQuit (hp : (s.thr k).pc = .dBeforeQuit) (hp' : (s'.thr k).pc = .dStored)
      (h : shared s' = (s.elt, s.mtx, s.loopPtr, s.waiting, s.alive, s.phase, s.uafDtor || !s.alive, s.finished))
  | dWake (hp : (s.thr k).pc = .dStored) (hp' : (s'.thr k).pc = .dJoin)
      (h : shared s' = (s.elt, false, s.loopPtr, s.waiting, s.alive, s.phase, s.uafDtor || !s.alive, s.finished))
  | joined (hp : (s.thr k).pc = .dJoin) (hp' : (s'.thr k).pc = .idle) (hph : s.phase = .dead) (h : shared s' = shared s)

theorem touch_shared_false (s : St) : shared (touch s false) = shared s := by
  simp [shared, touch_uafDtor_false]

theorem stepOther_move (s : St) (k : Nat) : OtherMove s (stepOther s k) k := by
  have := dtorLocks_tie; have := dtorJoinsIfStarted_tie; have := startWaitsWhile_tie
  have := quitWakes_foreign; have := startChecksFinished_tie
  other_cases
  all_goals (first
    | (apply OtherMove.stay <;> simp_all [shared]; done)
    | (apply OtherMove.user <;> simp_all [shared, inElt, touch_uafDtor_false]; done)
    | (apply OtherMove.start <;> simp_all [shared]; done)
    | (apply OtherMove.checkOk <;> simp_all [shared]; done)
    | (apply OtherMove.checkGone <;> simp_all [shared]; done)
    | (apply OtherMove.checkWait <;> simp_all [shared]; done)
    | (apply OtherMove.wake <;> simp_all [shared]; done)
    | (apply OtherMove.dEnter <;> simp_all [shared]; done)
    | (apply OtherMove.dLock <;> simp_all [shared]; done)
    | (apply OtherMove.dSkipJoin <;> simp_all [shared]; done)
    | (apply OtherMove.dSkip <;> simp_all [shared]; done)
    | (apply OtherMove.dQuit <;> simp_all [shared, touch_uafDtor_true]; done)
    | (apply OtherMove.dWake <;> simp_all [shared, touch_uafDtor_true]; done)
    | (apply OtherMove.joined <;> simp_all [shared]; done))

/-- the `finished_` handshake: a `startLoop()` that is waiting un-notified waits for a loop that is still to come
(`loop_` not yet published, thread not finished), and `finished_` is set exactly when the loop thread is done -/
def FinOk (s : St) : Prop :=
  (s.waiting = true → s.loopPtr = false ∧ s.phase ≠ .dead) ∧ (s.finished = true ↔ s.phase = .dead)

theorem finOk_congr {s s' : St} (hw : s'.waiting = s.waiting) (hl : s'.loopPtr = s.loopPtr) (hp : s'.phase = s.phase)
    (hf : s'.finished = s.finished) (h : FinOk s) : FinOk s' := by
  unfold FinOk at h ⊢; rw [hw, hl, hp, hf]; exact h

structure EltInv (s : St) : Prop where
  holder : ∀ k, k ≠ s.L → inH (s.thr k).pc = true → s.mtx = true ∧ s.loopPtr = true
  unique : ∀ j k, j ≠ s.L → k ≠ s.L → inH (s.thr j).pc = true → inH (s.thr k).pc = true → j = k
  held : s.mtx = true → ∃ k, k ≠ s.L ∧ inH (s.thr k).pc = true
  ptr : s.loopPtr = true → running s.phase = true ∧ s.elt = true
  ptrElt : s.elt = true → running s.phase = true → s.loopPtr = true
  alive : s.alive = hasLoop s.phase
  plain : s.elt = false → hasLoop s.phase = true ∧ ∀ k, k ≠ s.L → inElt (s.thr k).pc = false
  noUaf : s.uafDtor = false
  fin : FinOk s
  created : ∀ k, k ≠ s.L → inElt (s.thr k).pc = true → (s.thr k).pc ≠ .dEntry → s.phase ≠ .unborn

theorem loopMove_inv {s s' : St} (h : EltInv s) (ht : s'.thr = s.thr) (he : s'.elt = s.elt) (hm : s'.mtx = s.mtx)
    (hu : s'.uafDtor = s.uafDtor) (mv : LoopMove s s') : EltInv s' := by
  obtain ⟨h1, h2, h3, h4, h5, h6, h7, h8, h9, h10⟩ := h
  have hL := L_of_elt he
  have nobody : s.mtx = false → ∀ k, k ≠ s.L → inH (s.thr k).pc = false := by
    intro hmf k hk
    cases hh : inH (s.thr k).pc with
    | false => rfl
    | true => have := (h1 k hk hh).1; simp [hmf] at this
  cases mv with
  | same hs =>
    obtain ⟨e1, e2, e3, e4, e5, e6, e7, e8⟩ := hs
    refine ⟨?_, ?_, ?_, ?_, ?_, ?_, ?_, ?_, finOk_congr e4 e3 e6 e8 h9, ?_⟩ <;>
      simp only [ht, hL, e1, e2, e3, e5, e6, e7] <;> assumption
  | born hp hp' ha e1 e2 e3 =>
    refine ⟨?_, ?_, ?_, ?_, ?_, ?_, ?_, ?_, ?_, ?_⟩ <;> simp only [ht, hL, he, hm, hu, hp', ha, e1, e2, e3, FinOk]
    · exact h1
    · exact h2
    · exact h3
    · intro hl; have := h4 hl; simp [hp, running] at this
    · intro _ hr; simp [running] at hr
    · simp [hasLoop]
    · intro hf; have := (h7 hf).1; simp [hp, hasLoop] at this
    · exact h8
    · obtain ⟨a, b⟩ := h9
      exact ⟨fun hw => ⟨(a hw).1, by simp⟩, by rw [b, hp]; simp⟩
    · intro k hk hi hd; simp
  | publish hp hel hmf hp' hl hw ha e3 =>
    refine ⟨?_, ?_, ?_, ?_, ?_, ?_, ?_, ?_, ?_, ?_⟩ <;> simp only [ht, hL, he, hm, hu, hp', ha, hl, hw, e3, FinOk]
    · intro k hk hh; have := nobody hmf k hk; simp [hh] at this
    · exact h2
    · exact h3
    · intro _; exact ⟨by simp [running], hel⟩
    · intro _ _; trivial
    · rw [h6, hp]; simp [hasLoop]
    · intro hf; simp [hel] at hf
    · exact h8
    · exact ⟨fun hf => by simp at hf, by rw [h9.2, hp]; simp⟩
    · intro k hk hi hd; simp
  | run hp hq hp' e1 e2 ha e3 =>
    refine ⟨?_, ?_, ?_, ?_, ?_, ?_, ?_, ?_, ?_, ?_⟩ <;> simp only [ht, hL, he, hm, hu, ha, e1, e2, e3, FinOk]
    · exact h1
    · exact h2
    · exact h3
    · intro hl; exact ⟨hp', (h4 hl).2⟩
    · intro hel _; exact h5 hel (hq hel)
    · rw [h6, hp]; cases hph : s'.phase <;> simp_all [running, hasLoop]
    · intro hf; refine ⟨?_, (h7 hf).2⟩; cases hph : s'.phase <;> simp_all [running, hasLoop]
    · exact h8
    · obtain ⟨a, b⟩ := h9
      have hnd : s.phase ≠ .dead := by intro hd; simp [hd, hasLoop] at hp
      have hnd' : s'.phase ≠ .dead := by intro hd; simp [hd, running] at hp'
      refine ⟨fun hw => ⟨(a hw).1, hnd'⟩, ?_⟩
      constructor
      · intro hf; exact absurd (b.mp hf) hnd
      · intro hd; exact absurd hd hnd'
    · intro k hk hi hd; cases hph : s'.phase <;> simp_all [running]
  | die hp hel hmf hp' hl ha hw hf =>
    refine ⟨?_, ?_, ?_, ?_, ?_, ?_, ?_, ?_, ?_, ?_⟩ <;> simp only [ht, hL, he, hm, hu, hp', ha, hl, hw, hf, FinOk]
    · intro k hk hh; have := nobody hmf k hk; simp [hh] at this
    · exact h2
    · exact h3
    · intro hf; simp at hf
    · intro _ hr; simp [running] at hr
    · simp [hasLoop]
    · intro hf; simp [hel] at hf
    · exact h8
    · simp
    · intro k hk hi hd; simp
  | again hp hel hp' e1 e2 ha e3 =>
    have hnl : s.loopPtr = false := by
      cases hl : s.loopPtr with
      | false => rfl
      | true => have := (h4 hl).2; simp [hel] at this
    refine ⟨?_, ?_, ?_, ?_, ?_, ?_, ?_, ?_, ?_, ?_⟩ <;> simp only [ht, hL, he, hm, hu, hp', ha, e1, e2, e3, FinOk]
    · exact h1
    · exact h2
    · exact h3
    · intro hl; simp [hnl] at hl
    · intro he'; simp [hel] at he'
    · rw [h6, hp]; simp [hasLoop]
    · intro hf; exact ⟨by simp [hasLoop], (h7 hf).2⟩
    · exact h8
    · obtain ⟨a, b⟩ := h9
      refine ⟨fun hw => ⟨(a hw).1, by simp⟩, ?_⟩
      rw [b, hp]; simp
    · intro k hk hi hd; simp

theorem stepLoop_eltInv {s : St} (h : EltInv s) : EltInv (stepLoop s) := by
  obtain ⟨a, b, c, d, e⟩ := stepLoop_move s
  exact loopMove_inv h a b c d e

section other
variable {s s' : St} {k : Nat}

theorem hfields_same (h : EltInv s) (frame : ∀ j, j ≠ k → s'.thr j = s.thr j)
    (hL : s'.L = s.L) (hm : s'.mtx = s.mtx) (hl : s'.loopPtr = s.loopPtr)
    (hH : inH (s'.thr k).pc = inH (s.thr k).pc) :
    (∀ j, j ≠ s'.L → inH (s'.thr j).pc = true → s'.mtx = true ∧ s'.loopPtr = true) ∧
    (∀ i j, i ≠ s'.L → j ≠ s'.L → inH (s'.thr i).pc = true → inH (s'.thr j).pc = true → i = j) ∧
    (s'.mtx = true → ∃ j, j ≠ s'.L ∧ inH (s'.thr j).pc = true) := by
  have key : ∀ j, inH (s'.thr j).pc = inH (s.thr j).pc := by
    intro j; by_cases hj : j = k
    · subst hj; exact hH
    · rw [frame j hj]
  simp only [key, hL, hm, hl]
  exact ⟨h.holder, h.unique, h.held⟩

theorem cfield (h : EltInv s) (frame : ∀ j, j ≠ k → s'.thr j = s.thr j) (hL : s'.L = s.L) (hk : k ≠ s.L)
    (hph : s'.phase = s.phase ∨ s'.phase ≠ .unborn)
    (hc : inElt (s'.thr k).pc = true → (s'.thr k).pc ≠ .dEntry →
      (inElt (s.thr k).pc = true ∧ (s.thr k).pc ≠ .dEntry) ∨ s'.phase ≠ .unborn) :
    ∀ j, j ≠ s'.L → inElt (s'.thr j).pc = true → (s'.thr j).pc ≠ .dEntry → s'.phase ≠ .unborn := by
  intro j hj hi hd
  rw [hL] at hj
  have old : inElt (s.thr j).pc = true → (s.thr j).pc ≠ .dEntry → s'.phase ≠ .unborn := by
    intro a b
    rcases hph with e | e
    · rw [e]; exact h.created j hj a b
    · exact e
  by_cases hjk : j = k
  · subst hjk
    rcases hc hi hd with ⟨a, b⟩ | e
    · exact old a b
    · exact e
  · rw [frame j hjk] at hi hd; exact old hi hd

theorem pfield (h : EltInv s) (frame : ∀ j, j ≠ k → s'.thr j = s.thr j) (he : s'.elt = s.elt)
    (hph : s.elt = false → s'.phase = s.phase) (hp : s.elt = false → inElt (s'.thr k).pc = false) :
    s'.elt = false → hasLoop s'.phase = true ∧ ∀ j, j ≠ s'.L → inElt (s'.thr j).pc = false := by
  intro hf
  rw [he] at hf
  rw [L_of_elt he, hph hf]
  refine ⟨(h.plain hf).1, ?_⟩
  intro j hj
  by_cases hjk : j = k
  · subst hjk; exact hp hf
  · rw [frame j hjk]; exact (h.plain hf).2 j hj

theorem otherMove_inv (h : EltInv s) (hk : k ≠ s.L) (frame : ∀ j, j ≠ k → s'.thr j = s.thr j)
    (mv : OtherMove s s' k) : EltInv s' := by
  have nobody : s.mtx = false → ∀ j, j ≠ s.L → inH (s.thr j).pc = false := by
    intro hmf j hj
    cases hh : inH (s.thr j).pc with
    | false => rfl
    | true => have := (h.holder j hj hh).1; simp [hmf] at this
  have plainK : s.elt = false → inElt (s.thr k).pc = false := fun hf => (h.plain hf).2 k hk
  cases mv with
  | user e hp hp' =>
    simp only [shared, Prod.mk.injEq] at e
    obtain ⟨e1, e2, e3, e4, e5, e6, e7, e8⟩ := e
    have hL := L_of_elt e1
    have hH : inH (s'.thr k).pc = inH (s.thr k).pc := by
      cases h1 : (s'.thr k).pc <;> cases h2 : (s.thr k).pc <;> simp_all [inH, inElt]
    obtain ⟨a, b, c⟩ := hfields_same h frame hL e2 e3 hH
    refine ⟨a, b, c, ?_, ?_, ?_, pfield h frame e1 (fun _ => e6) (fun _ => hp'), ?_, ?_,
      cfield h frame hL hk (Or.inl e6) (fun hi => by simp [hp'] at hi)⟩
    · rw [e3, e6, e1]; exact h.ptr
    · rw [e3, e6, e1]; exact h.ptrElt
    · rw [e5, e6]; exact h.alive
    · rw [e7]; exact h.noUaf
    · exact finOk_congr e4 e3 e6 e8 h.fin
  | stay e ht =>
    simp only [shared, Prod.mk.injEq] at e
    obtain ⟨e1, e2, e3, e4, e5, e6, e7, e8⟩ := e
    have hL := L_of_elt e1
    obtain ⟨a, b, c⟩ := hfields_same h frame hL e2 e3 (by rw [ht])
    refine ⟨a, b, c, ?_, ?_, ?_, pfield h frame e1 (fun _ => e6) (fun hf => by rw [ht]; exact plainK hf), ?_, ?_,
      cfield h frame hL hk (Or.inl e6) (fun hi hd => Or.inl (by rw [ht] at hi hd; exact ⟨hi, hd⟩))⟩
    · rw [e3, e6, e1]; exact h.ptr
    · rw [e3, e6, e1]; exact h.ptrElt
    · rw [e5, e6]; exact h.alive
    · rw [e7]; exact h.noUaf
    · exact finOk_congr e4 e3 e6 e8 h.fin
  | start hp hp' he hph e =>
    simp only [shared, Prod.mk.injEq] at e
    obtain ⟨e1, e2, e3, e4, e5, e6, e7, e8⟩ := e
    have hL := L_of_elt e1
    obtain ⟨a, b, c⟩ := hfields_same h frame hL e2 e3 (by rw [hp, hp']; rfl)
    refine ⟨a, b, c, ?_, ?_, ?_, pfield h frame e1 (fun hf => by simp [he] at hf) (fun hf => by simp [he] at hf), ?_, ?_,
      cfield h frame hL hk (Or.inr (by simp [e6])) (fun _ _ => Or.inr (by simp [e6]))⟩
    · rw [e3, e6, e1]; intro hl; have := (h.ptr hl).1; simp [hph, running] at this
    · rw [e6]; intro _ hr; simp [running] at hr
    · rw [e5, e6, h.alive, hph]; rfl
    · rw [e7]; exact h.noUaf
    · obtain ⟨a, b⟩ := h.fin
      unfold FinOk; rw [e4, e3, e6, e8]
      exact ⟨fun hw => ⟨(a hw).1, by simp⟩, by rw [b, hph]; simp⟩
  | checkOk hp hp' hm hl e =>
    simp only [shared, Prod.mk.injEq] at e
    obtain ⟨e1, e2, e3, e4, e5, e6, e7, e8⟩ := e
    have hL := L_of_elt e1
    obtain ⟨a, b, c⟩ := hfields_same h frame hL e2 e3 (by rw [hp, hp']; rfl)
    refine ⟨a, b, c, ?_, ?_, ?_, pfield h frame e1 (fun _ => e6) (fun _ => by rw [hp']; rfl), ?_, ?_,
      cfield h frame hL hk (Or.inl e6) (fun hi => by simp [hp', inElt] at hi)⟩
    · rw [e3, e6, e1]; exact h.ptr
    · rw [e3, e6, e1]; exact h.ptrElt
    · rw [e5, e6]; exact h.alive
    · rw [e7]; exact h.noUaf
    · exact finOk_congr e4 e3 e6 e8 h.fin
  | checkGone hp hp' hm hl hf e =>
    simp only [shared, Prod.mk.injEq] at e
    obtain ⟨e1, e2, e3, e4, e5, e6, e7, e8⟩ := e
    have hL := L_of_elt e1
    obtain ⟨a, b, c⟩ := hfields_same h frame hL e2 e3 (by rw [hp, hp']; rfl)
    refine ⟨a, b, c, ?_, ?_, ?_, pfield h frame e1 (fun _ => e6) (fun _ => by rw [hp']; rfl), ?_, ?_,
      cfield h frame hL hk (Or.inl e6) (fun hi => by simp [hp', inElt] at hi)⟩
    · rw [e3, e6, e1]; exact h.ptr
    · rw [e3, e6, e1]; exact h.ptrElt
    · rw [e5, e6]; exact h.alive
    · rw [e7]; exact h.noUaf
    · exact finOk_congr e4 e3 e6 e8 h.fin
  | checkWait hp hp' hm hl hf e =>
    simp only [shared, Prod.mk.injEq] at e
    obtain ⟨e1, e2, e3, e4, e5, e6, e7, e8⟩ := e
    have hL := L_of_elt e1
    obtain ⟨a, b, c⟩ := hfields_same h frame hL e2 e3 (by rw [hp, hp']; rfl)
    refine ⟨a, b, c, ?_, ?_, ?_, pfield h frame e1 (fun _ => e6) (fun hf => by have := plainK hf; simp [hp, inElt] at this), ?_, ?_,
      cfield h frame hL hk (Or.inl e6) (fun _ _ => Or.inl (by simp [hp, inElt]))⟩
    · rw [e3, e6, e1]; exact h.ptr
    · rw [e3, e6, e1]; exact h.ptrElt
    · rw [e5, e6]; exact h.alive
    · rw [e7]; exact h.noUaf
    · obtain ⟨a, b⟩ := h.fin
      unfold FinOk; rw [e4, e3, e6, e8]
      refine ⟨fun _ => ⟨hl, ?_⟩, b⟩
      intro hd; have := b.mpr hd; simp [hf] at this
  | wake hp hp' e =>
    simp only [shared, Prod.mk.injEq] at e
    obtain ⟨e1, e2, e3, e4, e5, e6, e7, e8⟩ := e
    have hL := L_of_elt e1
    obtain ⟨a, b, c⟩ := hfields_same h frame hL e2 e3 (by rw [hp, hp']; rfl)
    refine ⟨a, b, c, ?_, ?_, ?_, pfield h frame e1 (fun _ => e6) (fun hf => by have := plainK hf; simp [hp, inElt] at this), ?_, ?_,
      cfield h frame hL hk (Or.inl e6) (fun _ _ => Or.inl (by simp [hp, inElt]))⟩
    · rw [e3, e6, e1]; exact h.ptr
    · rw [e3, e6, e1]; exact h.ptrElt
    · rw [e5, e6]; exact h.alive
    · rw [e7]; exact h.noUaf
    · exact finOk_congr e4 e3 e6 e8 h.fin
  | dEnter hp hp' he e =>
    simp only [shared, Prod.mk.injEq] at e
    obtain ⟨e1, e2, e3, e4, e5, e6, e7, e8⟩ := e
    have hL := L_of_elt e1
    obtain ⟨a, b, c⟩ := hfields_same h frame hL e2 e3 (by rw [hp, hp']; rfl)
    refine ⟨a, b, c, ?_, ?_, ?_, pfield h frame e1 (fun _ => e6) (fun hf => by simp [he] at hf), ?_, ?_,
      cfield h frame hL hk (Or.inl e6) (fun _ hd => absurd hp' hd)⟩
    · rw [e3, e6, e1]; exact h.ptr
    · rw [e3, e6, e1]; exact h.ptrElt
    · rw [e5, e6]; exact h.alive
    · rw [e7]; exact h.noUaf
    · exact finOk_congr e4 e3 e6 e8 h.fin
  | dLock hp hp' hm hl e =>
    simp only [shared, Prod.mk.injEq] at e
    obtain ⟨e1, e2, e3, e4, e5, e6, e7, e8⟩ := e
    have hL := L_of_elt e1
    have nb := nobody hm
    have only : ∀ j, j ≠ s.L → inH (s'.thr j).pc = true → j = k := by
      intro j hj hh
      by_cases hjk : j = k
      · exact hjk
      · rw [frame j hjk, nb j hj] at hh; simp at hh
    refine ⟨?_, ?_, ?_, ?_, ?_, ?_, pfield h frame e1 (fun _ => e6) (fun hf => by have := plainK hf; simp [hp, inElt] at this), ?_, ?_,
      cfield h frame hL hk (Or.inl e6) (fun _ _ => Or.inr ?_)⟩
    · intro j _ _; rw [e2, e3]; exact ⟨rfl, hl⟩
    · intro i j hi hj a b; rw [hL] at hi hj; rw [only i hi a, only j hj b]
    · intro _; exact ⟨k, by rw [hL]; exact hk, by rw [hp']; rfl⟩
    · rw [e3, e6, e1]; exact h.ptr
    · rw [e3, e6, e1]; exact h.ptrElt
    · rw [e5, e6]; exact h.alive
    · rw [e7]; exact h.noUaf
    · exact finOk_congr e4 e3 e6 e8 h.fin
    · rw [e6]; intro hu; have := (h.ptr hl).1; simp [hu, running] at this
  | dSkipJoin hp hp' hm hl hph e =>
    simp only [shared, Prod.mk.injEq] at e
    obtain ⟨e1, e2, e3, e4, e5, e6, e7, e8⟩ := e
    have hL := L_of_elt e1
    obtain ⟨a, b, c⟩ := hfields_same h frame hL e2 e3 (by rw [hp, hp']; rfl)
    refine ⟨a, b, c, ?_, ?_, ?_, pfield h frame e1 (fun _ => e6) (fun hf => by have := plainK hf; simp [hp, inElt] at this), ?_, ?_,
      cfield h frame hL hk (Or.inl e6) (fun _ _ => Or.inr (by rw [e6]; exact hph))⟩
    · rw [e3, e6, e1]; exact h.ptr
    · rw [e3, e6, e1]; exact h.ptrElt
    · rw [e5, e6]; exact h.alive
    · rw [e7]; exact h.noUaf
    · exact finOk_congr e4 e3 e6 e8 h.fin
  | dSkip hp hp' hph e =>
    simp only [shared, Prod.mk.injEq] at e
    obtain ⟨e1, e2, e3, e4, e5, e6, e7, e8⟩ := e
    have hL := L_of_elt e1
    obtain ⟨a, b, c⟩ := hfields_same h frame hL e2 e3 (by rw [hp, hp']; rfl)
    refine ⟨a, b, c, ?_, ?_, ?_, pfield h frame e1 (fun _ => e6) (fun _ => by rw [hp']; rfl), ?_, ?_,
      cfield h frame hL hk (Or.inl e6) (fun hi => by simp [hp', inElt] at hi)⟩
    · rw [e3, e6, e1]; exact h.ptr
    · rw [e3, e6, e1]; exact h.ptrElt
    · rw [e5, e6]; exact h.alive
    · rw [e7]; exact h.noUaf
    · exact finOk_congr e4 e3 e6 e8 h.fin
  | dQuit hp hp' e =>
    simp only [shared, Prod.mk.injEq] at e
    obtain ⟨e1, e2, e3, e4, e5, e6, e7, e8⟩ := e
    have hL := L_of_elt e1
    have hold := h.holder k hk (by rw [hp]; rfl)
    have hal : s.alive = true := by
      rw [h.alive]; have := (h.ptr hold.2).1
      cases hph : s.phase <;> simp_all [running, hasLoop]
    obtain ⟨a, b, c⟩ := hfields_same h frame hL e2 e3 (by rw [hp, hp']; rfl)
    refine ⟨a, b, c, ?_, ?_, ?_, pfield h frame e1 (fun _ => e6) (fun hf => by have := plainK hf; simp [hp, inElt] at this), ?_, ?_,
      cfield h frame hL hk (Or.inl e6) (fun _ _ => Or.inl (by simp [hp, inElt]))⟩
    · rw [e3, e6, e1]; exact h.ptr
    · rw [e3, e6, e1]; exact h.ptrElt
    · rw [e5, e6]; exact h.alive
    · rw [e7, h.noUaf, hal]; rfl
    · exact finOk_congr e4 e3 e6 e8 h.fin
  | dWake hp hp' e =>
    simp only [shared, Prod.mk.injEq] at e
    obtain ⟨e1, e2, e3, e4, e5, e6, e7, e8⟩ := e
    have hL := L_of_elt e1
    have hold := h.holder k hk (by rw [hp]; rfl)
    have hal : s.alive = true := by
      rw [h.alive]; have := (h.ptr hold.2).1
      cases hph : s.phase <;> simp_all [running, hasLoop]
    have none' : ∀ j, j ≠ s.L → inH (s'.thr j).pc = false := by
      intro j hj
      by_cases hjk : j = k
      · subst hjk; rw [hp']; rfl
      · rw [frame j hjk]
        cases hh : inH (s.thr j).pc with
        | false => rfl
        | true => exact absurd (h.unique j k hj hk hh (by rw [hp]; rfl)) hjk
    refine ⟨?_, ?_, ?_, ?_, ?_, ?_, pfield h frame e1 (fun _ => e6) (fun hf => by have := plainK hf; simp [hp, inElt] at this), ?_, ?_,
      cfield h frame hL hk (Or.inl e6) (fun _ _ => Or.inl (by simp [hp, inElt]))⟩
    · intro j hj hh; rw [hL] at hj; rw [none' j hj] at hh; simp at hh
    · intro i j hi _ hh; rw [hL] at hi; rw [none' i hi] at hh; simp at hh
    · rw [e2]; intro hf; simp at hf
    · rw [e3, e6, e1]; exact h.ptr
    · rw [e3, e6, e1]; exact h.ptrElt
    · rw [e5, e6]; exact h.alive
    · rw [e7, h.noUaf, hal]; rfl
    · exact finOk_congr e4 e3 e6 e8 h.fin
  | joined hp hp' hph e =>
    simp only [shared, Prod.mk.injEq] at e
    obtain ⟨e1, e2, e3, e4, e5, e6, e7, e8⟩ := e
    have hL := L_of_elt e1
    obtain ⟨a, b, c⟩ := hfields_same h frame hL e2 e3 (by rw [hp, hp']; rfl)
    refine ⟨a, b, c, ?_, ?_, ?_, pfield h frame e1 (fun _ => e6) (fun _ => by rw [hp']; rfl), ?_, ?_,
      cfield h frame hL hk (Or.inl e6) (fun hi => by simp [hp', inElt] at hi)⟩
    · rw [e3, e6, e1]; exact h.ptr
    · rw [e3, e6, e1]; exact h.ptrElt
    · rw [e5, e6]; exact h.alive
    · rw [e7]; exact h.noUaf
    · exact finOk_congr e4 e3 e6 e8 h.fin
end other

theorem stepOther_eltInv {s : St} (k : Nat) (hk : k ≠ s.L) (h : EltInv s) : EltInv (stepOther s k) :=
  otherMove_inv h hk (fun j hj => stepOther_frame s k j hj) (stepOther_move s k)

theorem step_eltInv {s : St} (k : Nat) (h : EltInv s) : EltInv (step s k) := by
  unfold step; split
  · exact stepLoop_eltInv h
  · rename_i hk; exact stepOther_eltInv k hk h

theorem run_eltInv {s : St} (sched : List Nat) (h : EltInv s) : EltInv (run s sched) := by
  induction sched generalizing s with
  | nil => exact h
  | cons k rest ih => exact ih (step_eltInv k h)

theorem init_eltInv (elt wl : Bool) (tbl) (dtbl) (pre) (again) (progs) : EltInv (init elt wl tbl dtbl pre again progs) := by
  cases elt <;>
  (refine ⟨?_, ?_, ?_, ?_, ?_, ?_, ?_, ?_, ?_, ?_⟩ <;> simp [init, inH, inElt, running, hasLoop, FinOk])

/-! ## all-blocked states -/

/-- nobody can move -/
def Stuck (s : St) : Prop := ∀ k, enabled s k = false

/-- the loop thread sleeps in `poll`: no byte waits in the pipe, the wake-up descriptor is not readable and nobody
has asked the loop to quit -/
def IdleInPoll (s : St) : Prop := s.phase = .polling ∧ s.ioReady = [] ∧ s.ev = 0 ∧ s.qreq = false

/-- the destructor ran while `loop_` was not yet published (i.e. before `startLoop()` had returned) and now waits
in `join()` for a loop that nobody told to quit -/
def EarlyDestroy (s : St) (k : Nat) : Prop := (s.thr k).pc = .dJoin ∧ s.phase = .polling ∧ s.qreq = false

theorem enabled_loop (s : St) : enabled s s.L = loopEnabled s := by simp [enabled]
theorem enabled_other {s : St} {k : Nat} (hk : k ≠ s.L) : enabled s k = otherEnabled s k := by simp [enabled, hk]

theorem stuck_analysis {s : St} (hq : QuitInv s) (he : EltInv s) (hs : Stuck s) :
    (∀ k, k ≠ s.L → finished s k = true ∨ EarlyDestroy s k) ∧
    (finished s s.L = true ∨ IdleInPoll s) := by
  have hLoop : loopEnabled s = false := by rw [← enabled_loop]; exact hs _
  have hOther : ∀ k, k ≠ s.L → otherEnabled s k = false := fun k hk => by rw [← enabled_other hk]; exact hs k
  have noInflight : ∀ k, k ≠ s.L → (s.thr k).pc ≠ .appended ∧ (s.thr k).pc ≠ .quitStored ∧
      (s.thr k).pc ≠ .dBeforeQuit ∧ (s.thr k).pc ≠ .dStored := by
    intro k hk
    have := hOther k hk
    refine ⟨?_, ?_, ?_, ?_⟩ <;> (intro hp; simp [otherEnabled, hp] at this)
  have hm : s.mtx = false := by
    cases hmm : s.mtx with
    | false => rfl
    | true =>
      obtain ⟨k, hk, hh⟩ := he.held hmm
      have := noInflight k hk
      cases hp : (s.thr k).pc <;> simp_all [inH]
  have noIn : ∀ p, (p = Pc.appended ∨ p = .quitStored ∨ p = .dStored) → ¬ inflightF s.thr s.L p := by
    intro p hp ⟨j, hj, hjp⟩
    have := noInflight j hj
    rcases hp with rfl | rfl | rfl <;> simp_all
  -- the loop thread
  have eltOf : hasLoop s.phase = false → s.elt = true := by
    intro hh
    cases hel : s.elt with
    | true => rfl
    | false => have := (he.plain hel).1; simp [hh] at this
  have loopSide : finished s s.L = true ∨ IdleInPoll s := by
    cases hph : s.phase with
    | unborn => left; simp [finished, eltOf (by simp [hph, hasLoop]), hph]
    | dead => left; simp [finished, eltOf (by simp [hph, hasLoop]), hph]
    | born => simp [loopEnabled, hph] at hLoop
    | pre => simp [loopEnabled, hph, hm] at hLoop
    | ready => simp [loopEnabled, hph] at hLoop
    | entered => simp [loopEnabled, hph] at hLoop
    | looptest => simp [loopEnabled, hph] at hLoop
    | dispatch => simp [loopEnabled, hph] at hLoop
    | preSwap => simp [loopEnabled, hph] at hLoop
    | draining => simp [loopEnabled, hph] at hLoop
    | atExit => simp [loopEnabled, hph] at hLoop
    | returned =>
      left
      cases hel : s.elt with
      | true => simp [loopEnabled, hph, hel, hm] at hLoop
      | false =>
        simp [loopEnabled, hph, hel] at hLoop
        simp [finished, hel, St.L, hph, hLoop]
    | polling =>
      right
      simp [loopEnabled, hph, pollReady] at hLoop
      have hev : s.ev = 0 := hLoop.1
      have hio : s.ioReady = [] := hLoop.2
      have hquit : s.quit = false := by
        cases hqq : s.quit with
        | false => rfl
        | true =>
          rcases hq.woken hph hqq with h | h | h
          · omega
          · exact absurd h (noIn _ (Or.inr (Or.inl rfl)))
          · exact absurd h (noIn _ (Or.inr (Or.inr rfl)))
      have hqr : s.qreq = false := by
        cases hqq : s.qreq with
        | false => rfl
        | true =>
          rcases hq.kept hqq with h | h
          · simp [hquit] at h
          · simp [hph, exited] at h
      exact ⟨hph, hio, hev, hqr⟩
  refine ⟨?_, loopSide⟩
  intro k hk
  have hoe := hOther k hk
  have hni := noInflight k hk
  have eltK : inElt (s.thr k).pc = true → s.elt = true := by
    intro hh
    cases hel : s.elt with
    | true => rfl
    | false => have := (he.plain hel).2 k hk; simp [hh] at this
  cases hp : (s.thr k).pc with
  | idle => left; simp [otherEnabled, hp] at hoe; simp [finished, hk, hp, hoe]
  | appended => exact absurd hp hni.1
  | quitStored => exact absurd hp hni.2.1
  | dBeforeQuit => exact absurd hp hni.2.2.1
  | dStored => exact absurd hp hni.2.2.2
  | sCheck => simp [otherEnabled, hp, hm] at hoe
  | dEntry => simp [otherEnabled, hp, hm] at hoe
  | sWaiting =>
    -- waiting un-notified: the loop is still to come (not published, thread not finished), so the loop thread can move
    exfalso
    simp [otherEnabled, hp, hm] at hoe
    obtain ⟨hl, hnd⟩ := he.fin.1 hoe
    have hel := eltK (by simp [hp, inElt])
    have hnr : running s.phase = false := by
      cases hr : running s.phase with
      | false => rfl
      | true => have := he.ptrElt hel hr; simp [hl] at this
    have hcr := he.created k hk (by simp [hp, inElt]) (by simp [hp])
    cases hph : s.phase <;> simp_all [running, loopEnabled]
  | dJoin =>
    right
    simp [otherEnabled, hp] at hoe
    have hcr := he.created k hk (by simp [hp, inElt]) (by simp [hp])
    have hel := eltK (by simp [hp, inElt])
    rcases loopSide with hf | hi
    · exfalso
      simp [finished, hel] at hf
      rcases hf with hf | hf
      · exact hoe hf
      · exact hcr hf
    · exact ⟨hp, hi.1, hi.2.2.2⟩

end MuduoVerif.Loop
