import MuduoVerif.Model.Http
import MuduoVerif.Proofs.Stream
/-!
Lemmas about the request-line part of the HTTP parser model (`Model/Http.lean`):
`std::find` / `std::find_if` as list functions, the split at a separator, the method table,
the version test, and `processRequestLine` in a form that names the pieces of the line.
-/
namespace MuduoVerif.Http
open MuduoVerif.Gen.Http MuduoVerif.Stream

/-! ### `std::find`, `std::find_if` -/

@[simp] theorem find_nil (ch : UInt8) : find ch [] = 0 := rfl

theorem find_cons (ch x : UInt8) (l : Bytes) :
    find ch (x :: l) = if x = ch then 0 else find ch l + 1 := by
  unfold find
  by_cases h : x = ch
  · simp [h]
  · simp [h]

theorem find_le (ch : UInt8) (l : Bytes) : find ch l ≤ l.length := by
  induction l with
  | nil => simp
  | cons x l ih => rw [find_cons]; split <;> simp <;> omega

/-- the bytes in front of the position `std::find` returns do not contain the byte -/
theorem not_mem_take_find (ch : UInt8) (l : Bytes) : ch ∉ l.take (find ch l) := by
  induction l with
  | nil => simp
  | cons x l ih =>
    rw [find_cons]
    by_cases h : x = ch
    · simp [h]
    · simp only [h, if_false, List.take_succ_cons, List.mem_cons, not_or]
      exact ⟨fun e => h e.symm, ih⟩

/-- when `std::find` does not return `last`, the byte sits at the returned position -/
theorem eq_take_find_append (ch : UInt8) (l : Bytes) (h : find ch l < l.length) :
    l = l.take (find ch l) ++ ch :: l.drop (find ch l + 1) := by
  induction l with
  | nil => simp at h
  | cons x l ih =>
    rw [find_cons] at h ⊢
    by_cases hx : x = ch
    · simp [hx]
    · simp only [hx, if_false, List.length_cons, Nat.add_lt_add_iff_right] at h
      simp only [hx, if_false, List.take_succ_cons, List.drop_succ_cons, List.cons_append]
      rw [← ih h]

theorem find_append_of_not_mem (ch : UInt8) (a b : Bytes) (h : ch ∉ a) :
    find ch (a ++ ch :: b) = a.length := by
  induction a with
  | nil => simp [find_cons]
  | cons x a ih =>
    simp only [List.mem_cons, not_or] at h
    rw [List.cons_append, find_cons, if_neg (fun e => h.1 e.symm), ih h.2, List.length_cons]

theorem find_of_not_mem (ch : UInt8) (a : Bytes) (h : ch ∉ a) : find ch a = a.length := by
  induction a with
  | nil => rfl
  | cons x a ih =>
    simp only [List.mem_cons, not_or] at h
    rw [find_cons, if_neg (fun e => h.1 e.symm), ih h.2, List.length_cons]

/-- `splitAt` succeeds exactly on `a ++ ch :: b` with `ch` not in `a`, and returns `(a, b)` -/
theorem splitAt_eq_some_iff (ch : UInt8) (l a b : Bytes) :
    splitAt ch l = some (a, b) ↔ l = a ++ ch :: b ∧ ch ∉ a := by
  unfold splitAt
  constructor
  · intro h
    split at h
    · rename_i hlt
      simp only [Option.some.injEq, Prod.mk.injEq] at h
      obtain ⟨ha, hb⟩ := h
      subst ha; subst hb
      exact ⟨eq_take_find_append ch l hlt, not_mem_take_find ch l⟩
    · cases h
  · rintro ⟨rfl, hn⟩
    have hf := find_append_of_not_mem ch a b hn
    rw [hf]
    simp

theorem splitAt_eq_none_iff (ch : UInt8) (l : Bytes) : splitAt ch l = none ↔ ch ∉ l := by
  unfold splitAt
  constructor
  · intro h hm
    split at h
    · cases h
    · rename_i hlt
      apply hlt
      obtain ⟨a, b, rfl⟩ := List.append_of_mem hm
      -- the first occurrence is at or before `a.length`
      clear h hlt hm
      induction a with
      | nil => simp [find_cons]
      | cons x a ih =>
        rw [List.cons_append, find_cons]
        split
        · simp
        · simp only [List.length_cons]; omega
  · intro h
    rw [find_of_not_mem ch l h]; simp

theorem findIf_cons (p : UInt8 → Bool) (x : UInt8) (l : Bytes) :
    findIf p (x :: l) = if p x then 0 else findIf p l + 1 := by
  unfold findIf
  cases h : p x <;> simp [h]

theorem findIf_le (p : UInt8 → Bool) (l : Bytes) : findIf p l ≤ l.length := by
  induction l with
  | nil => simp [findIf]
  | cons x l ih => rw [findIf_cons]; split <;> simp <;> omega

/-- `std::find_if(first, last, pred) == last` iff no byte of the range satisfies `pred` -/
theorem findIf_eq_length_iff (p : UInt8 → Bool) (l : Bytes) :
    findIf p l = l.length ↔ ∀ b ∈ l, p b = false := by
  induction l with
  | nil => simp [findIf]
  | cons x l ih =>
    rw [findIf_cons]
    cases h : p x
    · simp [h, ih]
    · simp [h]

/-- `question != start`: the target is not empty and does not begin with the query separator -/
theorem find_ne_zero_iff (ch : UInt8) (l : Bytes) : find ch l ≠ 0 ↔ l ≠ [] ∧ l.head? ≠ some ch := by
  cases l with
  | nil => simp
  | cons x l =>
    rw [find_cons]
    by_cases h : x = ch <;> simp [h]

/-- the bytes in front of `std::find`'s result / from it on, as `takeWhile` / `dropWhile` -/
theorem take_find (ch : UInt8) (l : Bytes) : l.take (find ch l) = l.takeWhile (· != ch) := by
  induction l with
  | nil => rfl
  | cons x l ih =>
    rw [find_cons]
    by_cases h : x = ch
    · simp [h]
    · simp [h, ih]

theorem drop_find (ch : UInt8) (l : Bytes) : l.drop (find ch l) = l.dropWhile (· != ch) := by
  induction l with
  | nil => rfl
  | cons x l ih =>
    rw [find_cons]
    by_cases h : x = ch
    · simp [h]
    · simp [h, ih]

/-! ### the method table -/

/-- `setMethod` returns true exactly for the tokens of the table -/
theorem setMethod_accepted_iff (m : Bytes) :
    methodAccepted (setMethod m) ↔ m ∈ methodTable.map (·.1) := by
  unfold setMethod
  cases hf : methodTable.find? (fun e => e.1 == m) with
  | none =>
    simp only
    constructor
    · intro h; exact absurd rfl h
    · intro h
      rw [List.mem_map] at h
      obtain ⟨e, he, hem⟩ := h
      have := List.find?_eq_none.mp hf e he
      simp [hem] at this
  | some e =>
    simp only
    have hmem := List.mem_of_find?_eq_some hf
    have heq := List.find?_some hf
    simp only [beq_iff_eq] at heq
    constructor
    · intro _
      exact List.mem_map.mpr ⟨e, hmem, heq⟩
    · intro _
      -- every entry of the table carries an accepted method
      have hall : ∀ e ∈ methodTable, methodAccepted e.2 := by decide
      exact hall e hmem

/-- the method an accepted token is mapped to (the table has no duplicate tokens) -/
theorem setMethod_of_mem (e : Bytes × Method) (h : e ∈ methodTable) : setMethod e.1 = e.2 := by
  have hall : ∀ e ∈ methodTable, setMethod e.1 = e.2 := by decide
  exact hall e h

/-! ### the version test -/

theorem versionOf_isSome_iff (tok : Bytes) :
    (versionOf tok).isSome ↔ ∃ d, d ∈ versionTable.map (·.1) ∧ tok = versionPrefix ++ [d] := by
  unfold versionOf
  by_cases hl : tok.length = versionLen ∧ tok.take (versionLen - 1) = versionPrefix
  · rw [if_pos hl]
    obtain ⟨hlen, hpre⟩ := hl
    -- tok = prefix ++ [last]
    have hne : tok ≠ [] := by intro h; rw [h] at hlen; exact absurd hlen (by decide)
    have hsplit : tok = versionPrefix ++ [tok.getLast hne] := by
      have h1 : tok = tok.take (versionLen - 1) ++ tok.drop (versionLen - 1) := (List.take_append_drop _ _).symm
      have h2 : (tok.drop (versionLen - 1)).length = 1 := by
        rw [List.length_drop, hlen]; decide
      have h3 : tok.drop (versionLen - 1) = [tok.getLast hne] := by
        match hd : tok.drop (versionLen - 1), h2 with
        | [x], _ =>
          have : tok.getLast hne = x := by
            have h4 : tok = tok.take (versionLen - 1) ++ [x] := by rw [← hd]; exact h1
            have h5 : tok.getLast hne = (tok.take (versionLen - 1) ++ [x]).getLast (by simp) := by
              congr 1
            rw [h5]; simp
          rw [this]
      rw [h3, hpre] at h1
      exact h1
    have hlast : tok.getLast? = some (tok.getLast hne) := List.getLast?_eq_some_getLast hne
    rw [hlast]
    cases hf : versionTable.find? (fun e => some e.1 == some (tok.getLast hne)) with
    | none =>
      simp only [Option.isSome_none, Bool.false_eq_true, false_iff]
      rintro ⟨d, hd, htok⟩
      rw [List.mem_map] at hd
      obtain ⟨e, he, hed⟩ := hd
      have := List.find?_eq_none.mp hf e he
      have hdl : d = tok.getLast hne := by
        have h6 : versionPrefix ++ [tok.getLast hne] = versionPrefix ++ [d] := hsplit.symm.trans htok
        have := List.append_cancel_left h6
        simp at this; exact this.symm
      simp [hed, hdl] at this
    | some e =>
      simp only [Option.isSome_some, true_iff]
      have hmem := List.mem_of_find?_eq_some hf
      have heq := List.find?_some hf
      simp only [beq_iff_eq, Option.some.injEq] at heq
      exact ⟨tok.getLast hne, List.mem_map.mpr ⟨e, hmem, heq⟩, hsplit⟩
  · rw [if_neg hl]
    simp only [Option.isSome_none, Bool.false_eq_true, false_iff]
    rintro ⟨d, _, rfl⟩
    apply hl
    constructor
    · simp [versionPrefix, versionLen]
    · simp [versionPrefix, versionLen]

/-- the version a well-formed version token selects -/
theorem versionOf_append (e : UInt8 × Version) (h : e ∈ versionTable) :
    versionOf (versionPrefix ++ [e.1]) = some e.2 := by
  have hall : ∀ e ∈ versionTable, versionOf (versionPrefix ++ [e.1]) = some e.2 := by decide
  exact hall e h

/-! ### `processRequestLine`, with the pieces of the line named -/

/-- the test on the target, on the list level -/
def targetOk (t : Bytes) : Prop :=
  find querySep t ≠ 0 ∧ findIf (fun b => decide (isControl b)) t = t.length
instance : Decidable (targetOk t) := by unfold targetOk; infer_instance

/-- `processRequestLine` on a line that has both separators -/
theorem processRequestLine_parts (m t ver : Bytes) (hm : methodSep ∉ m) (ht : targetSep ∉ t) :
    processRequestLine (m ++ methodSep :: (t ++ targetSep :: ver)) =
      if methodAccepted (setMethod m) ∧ targetOk t then
        (versionOf ver).map fun v =>
          { method := setMethod m, path := t.take (find querySep t), query := t.drop (find querySep t),
            version := v }
      else none := by
  unfold processRequestLine
  rw [(splitAt_eq_some_iff methodSep _ m _).mpr ⟨rfl, hm⟩]
  simp only
  have hf : find targetSep (t ++ targetSep :: ver) = t.length := find_append_of_not_mem _ t ver ht
  rw [hf]
  have htake : (t ++ targetSep :: ver).take t.length = t := by simp
  have hdrop : (t ++ targetSep :: ver).drop (t.length + 1) = ver := by simp
  rw [htake, hdrop]
  by_cases hma : methodAccepted (setMethod m)
  · rw [if_pos hma]
    have hta : targetAccepted t.length (t ++ targetSep :: ver).length (find querySep t)
        (findIf (fun b => decide (isControl b)) t) ↔ targetOk t := by
      unfold targetAccepted targetOk
      simp only [List.length_append, List.length_cons]
      constructor
      · rintro ⟨⟨_, h2⟩, h3⟩; exact ⟨h2, h3⟩
      · rintro ⟨h2, h3⟩; exact ⟨⟨by omega, h2⟩, h3⟩
    by_cases hto : targetOk t
    · rw [if_pos (hta.mpr hto), if_pos ⟨hma, hto⟩]
      cases versionOf ver <;> rfl
    · rw [if_neg (fun h => hto (hta.mp h)), if_neg (fun h => hto h.2)]
  · rw [if_neg hma, if_neg (fun h => hma h.1)]

/-- a line without the first separator, or without the second, is rejected -/
theorem processRequestLine_no_sep (line : Bytes) (h : methodSep ∉ line) : processRequestLine line = none := by
  unfold processRequestLine
  rw [(splitAt_eq_none_iff methodSep line).mpr h]

theorem processRequestLine_one_sep (m rest : Bytes) (hm : methodSep ∉ m) (hr : targetSep ∉ rest) :
    processRequestLine (m ++ methodSep :: rest) = none := by
  unfold processRequestLine
  rw [(splitAt_eq_some_iff methodSep _ m _).mpr ⟨rfl, hm⟩]
  simp only
  by_cases hma : methodAccepted (setMethod m)
  · rw [if_pos hma]
    have hta : ¬ targetAccepted (find targetSep rest) rest.length
        (find querySep (rest.take (find targetSep rest)))
        (findIf (fun b => decide (isControl b)) (rest.take (find targetSep rest))) := by
      unfold targetAccepted
      rw [find_of_not_mem targetSep rest hr]
      exact fun h => h.1.1 rfl
    rw [if_neg hta]
  · rw [if_neg hma]

/-! ### `Buffer::findCRLF` -/

theorem findCRLF_cons_cons (a b : UInt8) (rest : Bytes) :
    findCRLF (a :: b :: rest) = if a = 13 ∧ b = 10 then some 0 else (findCRLF (b :: rest)).map (· + 1) := rfl

/-- the terminator it reports is inside the buffer and is CR LF -/
theorem findCRLF_some (buf : Bytes) (j : Nat) (h : findCRLF buf = some j) :
    j + 2 ≤ buf.length ∧ buf.drop j = 13 :: 10 :: buf.drop (j + 2) := by
  induction buf generalizing j with
  | nil => simp [findCRLF] at h
  | cons a l ih =>
    cases l with
    | nil => simp [findCRLF] at h
    | cons b rest =>
      rw [findCRLF_cons_cons] at h
      split at h
      · rename_i hc
        cases h
        obtain ⟨rfl, rfl⟩ := hc
        simp
      · cases hf : findCRLF (b :: rest) with
        | none => rw [hf] at h; cases h
        | some i =>
          rw [hf] at h
          simp only [Option.map_some, Option.some.injEq] at h
          subst h
          obtain ⟨h1, h2⟩ := ih i hf
          refine ⟨by simp only [List.length_cons] at h1 ⊢; omega, ?_⟩
          simpa using h2

/-- no CR LF reported: there is none -/
theorem findCRLF_none (buf : Bytes) (h : findCRLF buf = none) (j : Nat) (rest : Bytes) :
    buf.drop j ≠ 13 :: 10 :: rest := by
  induction buf generalizing j with
  | nil => simp
  | cons a l ih =>
    cases l with
    | nil => cases j <;> simp
    | cons b tl =>
      rw [findCRLF_cons_cons] at h
      split at h
      · cases h
      · rename_i hc
        cases hf : findCRLF (b :: tl) with
        | some i => rw [hf] at h; cases h
        | none =>
          cases j with
          | zero =>
            intro he
            simp only [List.drop_zero, List.cons.injEq] at he
            exact hc ⟨he.1, he.2.1⟩
          | succ j => simpa using ih hf j

/-- bytes that arrive later do not move the first CR LF -/
theorem findCRLF_append (buf x : Bytes) (j : Nat) (h : findCRLF buf = some j) :
    findCRLF (buf ++ x) = some j := by
  induction buf generalizing j with
  | nil => simp [findCRLF] at h
  | cons a l ih =>
    cases l with
    | nil => simp [findCRLF] at h
    | cons b rest =>
      rw [findCRLF_cons_cons] at h
      simp only [List.cons_append]
      rw [findCRLF_cons_cons]
      split at h
      · rename_i hc; rw [if_pos hc]; exact h
      · rename_i hc
        rw [if_neg hc]
        cases hf : findCRLF (b :: rest) with
        | none => rw [hf] at h; cases h
        | some i =>
          rw [hf] at h
          have := ih i hf
          simp only [List.cons_append] at this
          rw [this]; exact h

/-! ### the parser loop and the drain driver -/

/-- the parser stands at a line boundary of an unfinished request: `parseRequest` may be called -/
def Parsing (ctx : Ctx) : Prop := ctx.state = .kExpectRequestLine ∨ ctx.state = .kExpectHeaders

theorem Parsing.fresh : Parsing Ctx.fresh := Or.inl rfl

theorem spins_of_parsing {ctx : Ctx} (h : Parsing ctx) : spins ctx.state = false := by
  rcases h with h | h <;> rw [h] <;> decide

/-- an iteration's verdict depends on the buffer only through its first complete line -/
theorem lineStep_append (ctx : Ctx) (buf x : Bytes) (j : Nat) (h : findCRLF buf = some j) :
    lineStep ctx (buf ++ x) = lineStep ctx buf := by
  have hj := (findCRLF_some buf j h).1
  have ht : (buf ++ x).take j = buf.take j := List.take_append_of_le_length (by omega)
  unfold lineStep
  rw [findCRLF_append buf x j h, h]
  simp only [ht]

/-- what one iteration can do in a state where the parser may be called -/
theorem lineStep_cases {ctx : Ctx} (hI : Parsing ctx) (buf : Bytes) :
    (findCRLF buf = none ∧ lineStep ctx buf = .need) ∨
    (∃ j, findCRLF buf = some j ∧
      (lineStep ctx buf = .fail ∨
       (∃ ctx', lineStep ctx buf = .next ctx' (j + crlfLen) ∧ Parsing ctx') ∨
       (∃ ctx', lineStep ctx buf = .done ctx' (j + crlfLen) ∧ ctx'.state = .kGotAll))) := by
  unfold lineStep
  rw [spins_of_parsing hI]
  rcases hI with hs | hs
  · rw [hs]
    simp only [Bool.false_eq_true, if_false]
    cases hf : findCRLF buf with
    | none => left; exact ⟨rfl, rfl⟩
    | some j =>
      right; refine ⟨j, rfl, ?_⟩
      simp only
      cases processRequestLine (buf.take j) with
      | none => left; rfl
      | some l => right; left; exact ⟨_, rfl, Or.inr rfl⟩
  · rw [hs]
    simp only [Bool.false_eq_true, if_false]
    cases hf : findCRLF buf with
    | none => left; exact ⟨rfl, rfl⟩
    | some j =>
      right; refine ⟨j, rfl, ?_⟩
      simp only
      split
      · right; left; exact ⟨_, rfl, Or.inr rfl⟩
      · right; right; exact ⟨_, rfl, rfl⟩

theorem stepOk : Stream.StepOk Parsing step where
  adv_ok := by
    intro s buf s' evs k hI h
    unfold step at h
    rcases lineStep_cases hI buf with ⟨_, hn⟩ | ⟨j, hj, hf | ⟨c, hc, hp⟩ | ⟨c, hc, _⟩⟩
    · rw [hn] at h; cases h
    · rw [hf] at h; cases h
    · rw [hc] at h
      simp only [Out.adv.injEq] at h
      obtain ⟨rfl, _, rfl⟩ := h
      have := (findCRLF_some buf j hj).1
      exact ⟨by simp [crlfLen], by simp only [crlfLen]; omega, hp⟩
    · rw [hc] at h
      simp only [Out.adv.injEq] at h
      obtain ⟨rfl, _, rfl⟩ := h
      have := (findCRLF_some buf j hj).1
      exact ⟨by simp [crlfLen], by simp only [crlfLen]; omega, Parsing.fresh⟩
  adv_mono := by
    intro s buf s' evs k x hI h
    rcases lineStep_cases hI buf with ⟨_, hn⟩ | ⟨j, hj, _⟩
    · unfold step at h; rw [hn] at h; cases h
    · unfold step at h ⊢; rw [lineStep_append s buf x j hj]; exact h
  fail_mono := by
    intro s buf e x hI h
    rcases lineStep_cases hI buf with ⟨_, hn⟩ | ⟨j, hj, _⟩
    · unfold step at h; rw [hn] at h; cases h
    · unfold step at h ⊢; rw [lineStep_append s buf x j hj]; exact h

/-- what `HttpServer::onMessage` does with the result of one `parseRequest`, continued by the
flattened driver -/
def serveCont (r : PRes) : Stream.Res Ctx Event :=
  if r.ok = false then { s := r.ctx, rest := r.rest, dead := true, stuck := false, evs := [.badRequest] }
  else if r.ctx.state = .kGotAll then (Stream.drain step Ctx.fresh r.rest).pre [.request r.ctx.req]
  else { s := r.ctx, rest := r.rest, dead := false, stuck := false, evs := [] }

/-- one call of `parseRequest` (any sufficient iteration allowance) followed by the server's
reaction is the flattened line-by-line driver; the call returns; and when it ends in "got all" it
has consumed something -/
theorem parseLoop_drain : ∀ (m : Nat) (ctx : Ctx) (buf : Bytes), Parsing ctx → buf.length < m →
    Stream.drain step ctx buf = serveCont (parseLoop m ctx buf) ∧
    (parseLoop m ctx buf).stuck = false ∧
    ((parseLoop m ctx buf).ctx.state = .kGotAll → (parseLoop m ctx buf).rest.length < buf.length) ∧
    (parseLoop m ctx buf).rest.length ≤ buf.length := by
  intro m
  induction m with
  | zero => intro ctx buf _ h; omega
  | succ m ih =>
    intro ctx buf hI hlen
    rw [Stream.drain_unfold stepOk ctx buf hI]
    have hng : ctx.state ≠ .kGotAll := by
      rcases hI with h | h <;> rw [h] <;> decide
    rcases lineStep_cases hI buf with ⟨_, hn⟩ | ⟨j, hj, hf | ⟨c, hc, hp⟩ | ⟨c, hc, hg⟩⟩
    · refine ⟨?_, ?_, ?_, ?_⟩ <;> simp [step, parseLoop, hn, serveCont, hng]
    · refine ⟨?_, ?_, ?_, ?_⟩ <;> simp [step, parseLoop, hf, serveCont, hng]
    · have hj2 := (findCRLF_some buf j hj).1
      have hl : (buf.drop (j + crlfLen)).length < m := by
        simp only [List.length_drop, crlfLen]; omega
      obtain ⟨h1, h2, h3, h4⟩ := ih c (buf.drop (j + crlfLen)) hp hl
      simp only [step, parseLoop, hc]
      refine ⟨by rw [h1]; simp, h2, fun h => ?_, ?_⟩
      · have := h3 h; simp only [List.length_drop] at this ⊢; omega
      · simp only [List.length_drop] at h4 ⊢; omega
    · have hj2 := (findCRLF_some buf j hj).1
      refine ⟨?_, ?_, ?_, ?_⟩
      · simp [step, parseLoop, hc, serveCont, hg]
      · simp [parseLoop, hc]
      · intro _; simp only [parseLoop, hc, List.length_drop, crlfLen]; omega
      · simp only [parseLoop, hc, List.length_drop]; omega

/-- the nested driver (`serve`: `parseRequest` inside `HttpServer::onMessage`, repeated) is the
flattened one -/
theorem serveLoop_eq_drain : ∀ (n : Nat) (ctx : Ctx) (buf : Bytes), Parsing ctx → buf.length < n →
    serveLoop n ctx buf = Stream.drain step ctx buf := by
  intro n
  induction n with
  | zero => intro ctx buf _ h; omega
  | succ n ih =>
    intro ctx buf hI hlen
    obtain ⟨h1, h2, h3, _⟩ := parseLoop_drain (buf.length + 1) ctx buf hI (Nat.lt_succ_self _)
    rw [h1]
    unfold serveLoop parseRequest
    rw [h2]
    simp only [Bool.false_eq_true, if_false]
    unfold serveCont
    by_cases hok : (parseLoop (buf.length + 1) ctx buf).ok = false
    · simp only [hok, if_true]
    · simp only [hok]
      by_cases hg : (parseLoop (buf.length + 1) ctx buf).ctx.state = .kGotAll
      · simp only [hg, if_true]
        rw [ih Ctx.fresh _ Parsing.fresh (by have := h3 hg; omega)]
      · simp only [hg, if_false]

theorem serve_eq_drain (ctx : Ctx) (buf : Bytes) (hI : Parsing ctx) :
    serve ctx buf = Stream.drain step ctx buf :=
  serveLoop_eq_drain _ ctx buf hI (Nat.lt_succ_self _)

theorem feed_eq (d : Stream.Dec Ctx) (hI : Parsing d.s) (c : Bytes) : feed d c = Stream.feed step d c := by
  unfold feed Stream.feed
  rw [serve_eq_drain d.s (d.buf ++ c) hI]

theorem feed_parsing (d : Stream.Dec Ctx) (hI : Parsing d.s) (c : Bytes) : Parsing (feed d c).1.s := by
  rw [feed_eq d hI c]
  exact (Stream.feed_settled stepOk d hI c).1

theorem feedAll_eq : ∀ (cs : List Bytes) (d : Stream.Dec Ctx), Parsing d.s →
    feedAll d cs = Stream.feedAll step d cs := by
  intro cs
  induction cs with
  | nil => intro d _; rfl
  | cons c cs ih =>
    intro d hI
    simp only [feedAll, Stream.feedAll]
    rw [ih _ (feed_parsing d hI c), feed_eq d hI c]

theorem init_settled : Stream.Settled Parsing step init :=
  ⟨Parsing.fresh, Or.inr rfl⟩

/-- in a state without a (non-empty) arm the loop of `parseRequest` never leaves -/
theorem parseLoop_spins (ctx : Ctx) (h : spins ctx.state = true) :
    ∀ (n : Nat) (buf : Bytes), parseLoop n ctx buf = { ctx := ctx, rest := buf, ok := true, stuck := true } := by
  intro n
  induction n with
  | zero => intro buf; rfl
  | succ n ih =>
    intro buf
    have : lineStep ctx buf = .spin := by unfold lineStep; rw [h]; rfl
    simp only [parseLoop, this, ih buf]

end MuduoVerif.Http
