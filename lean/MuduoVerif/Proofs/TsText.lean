import MuduoVerif.Proofs.Calendar
import MuduoVerif.Proofs.TsTextTie
/-!
Lemmas about the text forms of `Timestamp` (C20): the formats of `Generated/TsText.lean`, rendered by
`Model/Calendar.lean`, read back to the instant they were printed from.

The generated formats, buffers and the split of the microsecond count are unfolded here, so the proofs are re-checked
against whatever Timestamp.cc says now.
-/
namespace MuduoVerif.Calendar
open MuduoVerif.Gen.Calendar MuduoVerif.Gen.TsText MuduoVerif.CalendarE

/-! ### digits -/

theorem natDigits_isDigit (n : Nat) : ∀ c ∈ natDigits n, c.isDigit = true :=
  fun _ hc => Nat.isDigit_of_mem_toDigits (by decide) (by decide) hc

theorem digitsVal_natDigits (n : Nat) : digitsVal (natDigits n) = n := Nat.ofDigitChars_ten_toDigits

theorem natDigits_length_pos (n : Nat) : 0 < (natDigits n).length := Nat.length_toDigits_pos

theorem natDigits_length_le (n k : Nat) (hk : 0 < k) (h : n < 10 ^ k) : (natDigits n).length ≤ k :=
  (Nat.length_toDigits_le_iff (by decide) hk).mpr h

theorem ofDigitChars_zeros (k : Nat) (cs : List Char) : Nat.ofDigitChars 10 (List.replicate k '0' ++ cs) 0 = Nat.ofDigitChars 10 cs 0 := by
  induction k with
  | zero => simp
  | succ k ih => simp only [List.replicate_succ, List.cons_append, Nat.ofDigitChars_cons]; simpa using ih

theorem digitsVal_zeros (k : Nat) (cs : List Char) : digitsVal (List.replicate k '0' ++ cs) = digitsVal cs :=
  ofDigitChars_zeros k cs

/-- `%0<w>d` of a value that fits: exactly `w` digits whose value is the number -/
theorem fmtInt_zero (w : Nat) (hw : 0 < w) (v : Int) (h0 : 0 ≤ v) (h1 : v < 10 ^ w) :
    (fmtInt w true v).length = w ∧ (∀ c ∈ fmtInt w true v, c.isDigit = true) ∧ (digitsVal (fmtInt w true v) : Int) = v := by
  have hn : v.natAbs < 10 ^ w := by
    have : ((v.natAbs : Nat) : Int) < ((10 ^ w : Nat) : Int) := by rw [Int.natAbs_of_nonneg h0]; exact_mod_cast h1
    exact_mod_cast this
  have hl := natDigits_length_le v.natAbs w hw hn
  have hneg : ¬ v < 0 := by omega
  simp only [fmtInt, hneg, decide_false, Bool.false_eq_true, if_false, if_true, List.nil_append, Nat.add_zero]
  refine ⟨by simp; omega, ?_, ?_⟩
  · intro c hc
    rcases List.mem_append.mp hc with h | h
    · rw [List.eq_of_mem_replicate h]; rfl
    · exact natDigits_isDigit _ c h
  · rw [digitsVal_zeros, digitsVal_natDigits, Int.natAbs_of_nonneg h0]

/-- `%d` / `%4d` of a non-negative value: optional blanks, then the digits of the number -/
theorem fmtInt_blank (w : Nat) (v : Int) (h0 : 0 ≤ v) :
    fmtInt w false v = List.replicate (w - (natDigits v.natAbs).length) ' ' ++ natDigits v.natAbs := by
  have hneg : ¬ v < 0 := by omega
  simp [fmtInt, hneg]

/-! ### scanning -/

theorem takeWhile_digits (ds rest : List Char) (c : Char) (hd : ∀ x ∈ ds, x.isDigit = true) (hc : c.isDigit = false) :
    (ds ++ c :: rest).takeWhile Char.isDigit = ds ∧ (ds ++ c :: rest).dropWhile Char.isDigit = c :: rest := by
  induction ds with
  | nil => simp [List.takeWhile, List.dropWhile, hc]
  | cons d ds ih =>
    have h := hd d (by simp)
    have ih' := ih (fun x hx => hd x (by simp [hx]))
    simp [List.takeWhile, List.dropWhile, h, ih'.1, ih'.2]

theorem dropWhile_blanks (k : Nat) (cs : List Char) (h : cs.head? ≠ some ' ') :
    (List.replicate k ' ' ++ cs).dropWhile (· = ' ') = cs := by
  induction k with
  | zero =>
    cases cs with
    | nil => rfl
    | cons c cs =>
      have : c ≠ ' ' := by intro e; apply h; simp [e]
      simp [List.dropWhile, this]
  | succ k ih => simpa [List.replicate_succ, List.dropWhile] using ih

/-! ### the rendered formats -/

theorem render_toString (a b : Int) :
    renderGo none toStringFormat [a, b] = fmtInt 0 false a ++ '.' :: fmtInt 6 true b := by
  simp [toStringFormat, renderGo]

theorem render_formattedMicro (y mo d h mi s u : Int) :
    renderGo none formattedFormatMicro [y, mo, d, h, mi, s, u] =
      fmtInt 4 false y ++ (fmtInt 2 true mo ++ (fmtInt 2 true d ++ ' ' :: (fmtInt 2 true h ++ ':' :: (fmtInt 2 true mi ++
        ':' :: (fmtInt 2 true s ++ '.' :: fmtInt 6 true u))))) := by
  simp [formattedFormatMicro, renderGo]

theorem render_formatted (y mo d h mi s : Int) :
    renderGo none formattedFormat [y, mo, d, h, mi, s] =
      fmtInt 4 false y ++ (fmtInt 2 true mo ++ (fmtInt 2 true d ++ ' ' :: (fmtInt 2 true h ++ ':' :: (fmtInt 2 true mi ++
        ':' :: fmtInt 2 true s)))) := by
  simp [formattedFormat, renderGo]

/-! ### the fields `BreakTime` delivers -/

theorem breakTime_fields (t : Int) (ht : tMin ≤ t) :
    1 ≤ (BreakTime t).month ∧ (BreakTime t).month ≤ 12 ∧ 1 ≤ (BreakTime t).day ∧ (BreakTime t).day ≤ 31 ∧
    0 ≤ (BreakTime t).hour ∧ (BreakTime t).hour < 24 ∧ 0 ≤ (BreakTime t).minute ∧ (BreakTime t).minute < 60 ∧
    0 ≤ (BreakTime t).second ∧ (BreakTime t).second < 60 := by
  rw [gen_BreakTime_eq t ht]
  obtain ⟨hv, _⟩ := jdn_ymd_all (t / 86400 + 2440588)
  simp only [Civil.valid, validDate] at hv
  have hd : (ymdE (t / 86400 + 2440588)).day ≤ 31 := by
    have := hv.2.2.2
    unfold daysInMonth at this
    repeat' split at this
    all_goals omega
  simp only [breakE]
  refine ⟨hv.1, hv.2.1, hv.2.2.1, hd, ?_, ?_, ?_, ?_, ?_, ?_⟩ <;> omega

/-! ### reading back -/

/-- **`Timestamp::toString` reads back** to the microsecond, for every non-negative count that fits `int64_t` -/
theorem toString_roundtrip (us : Int) (h0 : 0 ≤ us) (h1 : us < 2 ^ 63) :
    parseToString (tsToStringChars us) = some us := by
  have hs : toStringSeconds us = us / 1000000 := by
    simp only [toStringSeconds, kMicro_eq]; exact Int.tdiv_eq_ediv_of_nonneg h0
  have hm : toStringMicros us = us % 1000000 := by
    simp only [toStringMicros, kMicro_eq]; exact Int.tmod_eq_emod_of_nonneg h0
  have hs0 : 0 ≤ us / 1000000 := by omega
  obtain ⟨l6, d6, v6⟩ := fmtInt_zero 6 (by decide) (us % 1000000) (by omega) (by omega)
  have hsn : (us / 1000000).natAbs < 10 ^ 19 := by omega
  have hl := natDigits_length_le _ 19 (by decide) hsn
  have hp := natDigits_length_pos (us / 1000000).natAbs
  unfold tsToStringChars snprintf
  rw [render_toString, hs, hm, fmtInt_blank 0 _ hs0]
  simp only [Nat.zero_sub, List.replicate_zero, List.nil_append, toStringBuf]
  rw [List.take_of_length_le (by simp [l6]; omega)]
  unfold parseToString
  obtain ⟨t1, t2⟩ := takeWhile_digits (natDigits (us / 1000000).natAbs) (fmtInt 6 true (us % 1000000)) '.'
    (natDigits_isDigit _) (by decide)
  simp only [t1, t2]
  have hne : natDigits (us / 1000000).natAbs ≠ [] := List.ne_nil_of_length_pos hp
  have hall : (fmtInt 6 true (us % 1000000)).all Char.isDigit = true := List.all_eq_true.mpr d6
  simp only [hne, l6, hall, ne_eq, not_false_eq_true, and_self, if_true, Option.some.injEq]
  rw [digitsVal_natDigits, v6, Int.natAbs_of_nonneg hs0]
  omega

/-- the date-and-time part of the formatted text, read back -/
theorem parseFormatted_text (dt : DateTime) (tail : List Char) (hy0 : 0 ≤ dt.year)
    (hm : 0 ≤ dt.month ∧ dt.month < 100) (hd : 0 ≤ dt.day ∧ dt.day < 100) (hh : 0 ≤ dt.hour ∧ dt.hour < 100)
    (hmi : 0 ≤ dt.minute ∧ dt.minute < 100) (hs : 0 ≤ dt.second ∧ dt.second < 100) :
    parseFormatted (fmtInt 4 false dt.year ++ (fmtInt 2 true dt.month ++ (fmtInt 2 true dt.day ++ ' ' :: (fmtInt 2 true dt.hour ++
      ':' :: (fmtInt 2 true dt.minute ++ ':' :: (fmtInt 2 true dt.second ++ tail)))))) =
      (match tail with
       | [] => some (fromUtcTime dt * 1000000)
       | '.' :: u => if u.length = 6 then some (fromUtcTime dt * 1000000 + digitsVal u) else none
       | _ => none) := by
  obtain ⟨lmo, dmo, vmo⟩ := fmtInt_zero 2 (by decide) dt.month hm.1 (by omega)
  obtain ⟨ld, dd, vd⟩ := fmtInt_zero 2 (by decide) dt.day hd.1 (by omega)
  obtain ⟨lh, dh, vh⟩ := fmtInt_zero 2 (by decide) dt.hour hh.1 (by omega)
  obtain ⟨lmi, dmi, vmi⟩ := fmtInt_zero 2 (by decide) dt.minute hmi.1 (by omega)
  obtain ⟨ls, ds, vs⟩ := fmtInt_zero 2 (by decide) dt.second hs.1 (by omega)
  -- the two-character fields, as two characters
  have two : ∀ l : List Char, l.length = 2 → ∃ a b, l = [a, b] := by
    intro l hl
    match l, hl with
    | [a, b], _ => exact ⟨a, b, rfl⟩
  obtain ⟨h1, h2, eh⟩ := two _ lh
  obtain ⟨m1, m2, emi⟩ := two _ lmi
  obtain ⟨s1, s2, es⟩ := two _ ls
  rw [fmtInt_blank 4 _ hy0]
  have hyp := natDigits_length_pos dt.year.natAbs
  have hydig := natDigits_isDigit dt.year.natAbs
  have hval : (digitsVal (natDigits dt.year.natAbs) : Int) = dt.year := by
    rw [digitsVal_natDigits, Int.natAbs_of_nonneg hy0]
  generalize natDigits dt.year.natAbs = yd at hyp hydig hval ⊢
  -- the digit run `Y..YMMDD`
  have hrun : ∀ x ∈ yd ++ (fmtInt 2 true dt.month ++ fmtInt 2 true dt.day), x.isDigit = true := by
    intro x hx
    rcases List.mem_append.mp hx with h | h
    · exact hydig x h
    · rcases List.mem_append.mp h with h | h
      · exact dmo x h
      · exact dd x h
  have hhead : (yd ++ (fmtInt 2 true dt.month ++ (fmtInt 2 true dt.day ++ ' ' :: (fmtInt 2 true dt.hour ++
      ':' :: (fmtInt 2 true dt.minute ++ ':' :: (fmtInt 2 true dt.second ++ tail)))))).head? ≠ some ' ' := by
    cases hc : yd with
    | nil => rw [hc] at hyp; exact absurd hyp (by simp)
    | cons c cs =>
      have : c.isDigit = true := hydig c (by rw [hc]; simp)
      simp only [List.cons_append, List.head?_cons, ne_eq, Option.some.injEq]
      intro e; rw [e] at this; exact absurd this (by decide)
  unfold parseFormatted
  simp only []
  rw [List.append_assoc, dropWhile_blanks _ _ hhead]
  have regroup : yd ++ (fmtInt 2 true dt.month ++ (fmtInt 2 true dt.day ++ ' ' :: (fmtInt 2 true dt.hour ++
      ':' :: (fmtInt 2 true dt.minute ++ ':' :: (fmtInt 2 true dt.second ++ tail))))) =
      (yd ++ (fmtInt 2 true dt.month ++ fmtInt 2 true dt.day)) ++ ' ' :: (fmtInt 2 true dt.hour ++
      ':' :: (fmtInt 2 true dt.minute ++ ':' :: (fmtInt 2 true dt.second ++ tail))) := by
    simp [List.append_assoc]
  rw [regroup]
  obtain ⟨t1, t2⟩ := takeWhile_digits (yd ++ (fmtInt 2 true dt.month ++ fmtInt 2 true dt.day))
    (fmtInt 2 true dt.hour ++ ':' :: (fmtInt 2 true dt.minute ++ ':' :: (fmtInt 2 true dt.second ++ tail))) ' ' hrun (by decide)
  rw [t1, t2, eh, emi, es]
  simp only [List.cons_append, List.nil_append]
  have hlen : (yd ++ (fmtInt 2 true dt.month ++ fmtInt 2 true dt.day)).length = yd.length + 4 := by
    simp [lmo, ld]
  rw [if_neg (by rw [hlen]; omega), hlen]
  have e1 : (yd ++ (fmtInt 2 true dt.month ++ fmtInt 2 true dt.day)).take (yd.length + 4 - 4) = yd := by
    rw [Nat.add_sub_cancel, List.take_left]
  have e2 : ((yd ++ (fmtInt 2 true dt.month ++ fmtInt 2 true dt.day)).drop (yd.length + 4 - 4)).take 2 = fmtInt 2 true dt.month := by
    rw [Nat.add_sub_cancel, List.drop_left, List.take_left' lmo]
  have e3 : (yd ++ (fmtInt 2 true dt.month ++ fmtInt 2 true dt.day)).drop (yd.length + 4 - 2) = fmtInt 2 true dt.day := by
    have : (yd ++ fmtInt 2 true dt.month).length = yd.length + 4 - 2 := by simp [lmo]
    rw [← List.append_assoc, List.drop_left' this]
  rw [e1, e2, e3, ← eh, ← emi, ← es, vmo, vd, vh, vmi, vs, hval]
  rfl

/-- **`Timestamp::toFormattedString` reads back**: with microseconds to the microsecond, without to the second - for
every non-negative count whose year has at most four digits (no cut by the 64-byte buffer is possible then) -/
theorem formatted_roundtrip (us : Int) (h0 : 0 ≤ us) (hy : (BreakTime (us / 1000000)).year ≤ 9999)
    (hy0 : 0 ≤ (BreakTime (us / 1000000)).year) :
    parseFormatted (tsFormattedChars us true) = some us ∧
    parseFormatted (tsFormattedChars us false) = some (us / 1000000 * 1000000) := by
  have hs : formattedSeconds us = us / 1000000 := by
    simp only [formattedSeconds, kMicro_eq]; exact Int.tdiv_eq_ediv_of_nonneg h0
  have hm : formattedMicros us = us % 1000000 := by
    simp only [formattedMicros, kMicro_eq]; exact Int.tmod_eq_emod_of_nonneg h0
  have ht : tMin ≤ us / 1000000 := by unfold tMin jdnMin; omega
  obtain ⟨f1, f2, f3, f4, f5, f6, f7, f8, f9, f10⟩ := breakTime_fields _ ht
  obtain ⟨l6, d6, v6⟩ := fmtInt_zero 6 (by decide) (us % 1000000) (by omega) (by omega)
  generalize hdt : BreakTime (us / 1000000) = dt at *
  have hback : fromUtcTime dt = us / 1000000 := by rw [← hdt]; exact gen_fromUtc_break _ ht
  have hyl : (natDigits dt.year.natAbs).length ≤ 4 := natDigits_length_le _ 4 (by decide) (by omega)
  have hylp := natDigits_length_pos dt.year.natAbs
  have l2 : ∀ v : Int, 0 ≤ v → v < 100 → (fmtInt 2 true v).length = 2 := fun v a b => (fmtInt_zero 2 (by decide) v a (by omega)).1
  have ly : (fmtInt 4 false dt.year).length = 4 := by
    rw [fmtInt_blank 4 _ hy0]; simp; omega
  constructor
  · unfold tsFormattedChars snprintf
    simp only [hs, hm, hdt, formattedShowsMicros, if_true, List.cons_append, List.nil_append, formattedBufMicro]
    rw [render_formattedMicro]
    rw [List.take_of_length_le (by
      simp [ly, l2 dt.month (by omega) (by omega), l2 dt.day (by omega) (by omega), l2 dt.hour f5 (by omega),
        l2 dt.minute f7 (by omega), l2 dt.second f9 (by omega), l6])]
    rw [parseFormatted_text dt ('.' :: fmtInt 6 true (us % 1000000)) hy0 ⟨by omega, by omega⟩ ⟨by omega, by omega⟩
      ⟨f5, by omega⟩ ⟨f7, by omega⟩ ⟨f9, by omega⟩]
    simp only [l6, if_true, hback, v6, Option.some.injEq]
    omega
  · unfold tsFormattedChars snprintf
    simp only [hs, hdt, formattedShowsMicros, Bool.false_eq_true, if_false, formattedBuf]
    rw [render_formatted]
    rw [List.take_of_length_le (by
      simp [ly, l2 dt.month (by omega) (by omega), l2 dt.day (by omega) (by omega), l2 dt.hour f5 (by omega),
        l2 dt.minute f7 (by omega), l2 dt.second f9 (by omega)])]
    have := parseFormatted_text dt [] hy0 ⟨by omega, by omega⟩ ⟨by omega, by omega⟩
      ⟨f5, by omega⟩ ⟨f7, by omega⟩ ⟨f9, by omega⟩
    simp only [List.append_nil] at this
    rw [this, hback]

end MuduoVerif.Calendar
