import MuduoVerif.Proofs.ConnLifeTrace
import MuduoVerif.Proofs.ConnCb
/-!
Progress ("within k loop iterations") statements for the connection model (C01–C03).

The environment is an input of the model, so every statement is relative to explicit
hypotheses on the inputs of the next iteration(s); the state `c` is ANY state satisfying the
invariants `LifeInv` / `FlowInv` (they hold in every reachable state: `reach_all`).

* `down_absorbing`          – `kDisconnected` is never left (no input but a second hand-over);
* `forceClose_brings_down`  – one iteration after `forceClose()` the connection is down and DOWN
                              was reported exactly once;
* `delayed_close_*`         – the same for `forceCloseWithDelay`, once the deadline has passed and
                              the timer channel is reported;
* `released_is_destroyed`   – one iteration after the owner released the connection the object
                              is destroyed (descriptor closed): no leak;
* `fin_progress`            – the queued half-close runs in the next iteration when nothing is
                              left to write;
* `drain_step`, `drain_progress` – a backlog of `k` bytes is written after at most `k`
                              iterations that report writability and take at least one byte.
-/
namespace MuduoVerif.Conn
open MuduoVerif.Gen.Conn

/-! ### what every function of the model leaves alone -/

/-- `c'` was obtained from `c` by code that runs inside one loop iteration (dispatch or functor
phase, except the functor swap itself): functors are only appended to `pending`, the batch is
not touched, the clock does not move, the object is not destroyed, a connection that is down
stays down, none becomes `kConnected`, a half-close is not undone -/
structure Mono (c c' : Conn) : Prop where
  pend : ∃ s, c'.pending = c.pending ++ s
  batch : c'.batch = c.batch
  now : c'.now = c.now
  alive : c'.alive = c.alive
  down : c.st = .kDisconnected → c'.st = .kDisconnected
  notConn : c'.st = .kConnected → c.st = .kConnected
  shut : c.shutWr = true → c'.shutWr = true

/-- `Mono`, and delayed closes are only added (everything but `fireTimers`) -/
structure Grow (c c' : Conn) : Prop where
  mono : Mono c c'
  timers : ∃ k, c'.timers = c.timers ++ k

theorem Mono.rfl' (c : Conn) : Mono c c := ⟨⟨[], by simp⟩, rfl, rfl, rfl, id, id, id⟩

theorem Mono.trans {a b c : Conn} (h1 : Mono a b) (h2 : Mono b c) : Mono a c := by
  obtain ⟨s1, e1⟩ := h1.pend
  obtain ⟨s2, e2⟩ := h2.pend
  exact ⟨⟨s1 ++ s2, by rw [e2, e1, List.append_assoc]⟩, h2.batch.trans h1.batch, h2.now.trans h1.now,
    h2.alive.trans h1.alive, fun h => h2.down (h1.down h), fun h => h1.notConn (h2.notConn h),
    fun h => h2.shut (h1.shut h)⟩

theorem Grow.rfl' (c : Conn) : Grow c c := ⟨Mono.rfl' c, ⟨[], by simp⟩⟩

theorem Grow.trans {a b c : Conn} (h1 : Grow a b) (h2 : Grow b c) : Grow a c := by
  obtain ⟨k1, e1⟩ := h1.timers
  obtain ⟨k2, e2⟩ := h2.timers
  exact ⟨h1.mono.trans h2.mono, ⟨k1 ++ k2, by rw [e2, e1, List.append_assoc]⟩⟩

/-- nothing that `Mono` / `Grow` speak about changed -/
theorem Grow.same {c c' : Conn} (h1 : c'.pending = c.pending) (h2 : c'.batch = c.batch) (h3 : c'.now = c.now)
    (h4 : c'.alive = c.alive) (h5 : c'.st = c.st) (h6 : c'.shutWr = c.shutWr) (h7 : c'.timers = c.timers) :
    Grow c c' :=
  ⟨⟨⟨[], by simp [h1]⟩, h2, h3, h4, fun h => by rw [h5]; exact h, fun h => by rw [← h5]; exact h,
    fun h => by rw [h6]; exact h⟩, ⟨[], by simp [h7]⟩⟩

theorem grow_if {p : Prop} [Decidable p] {c a b : Conn} (h1 : Grow c a) (h2 : Grow c b) :
    Grow c (if p then a else b) := by split <;> assumption

theorem emit_grow (c : Conn) (e : Ev) : Grow c (emit c e) := Grow.same rfl rfl rfl rfl rfl rfl rfl
theorem setEvents_grow (c : Conn) (r w : Bool) : Grow c (setEvents c r w) := Grow.same rfl rfl rfl rfl rfl rfl rfl
theorem popWrite_grow (c : Conn) : Grow c (popWrite c) := by
  unfold popWrite; split <;> exact Grow.same rfl rfl rfl rfl rfl rfl rfl
theorem popRead_grow (c : Conn) : Grow c (popRead c) := by
  unfold popRead; split <;> exact Grow.same rfl rfl rfl rfl rfl rfl rfl

theorem enqueue_grow (c : Conn) (t : Task) : Grow c (enqueue c t) :=
  ⟨⟨⟨[t], rfl⟩, rfl, rfl, rfl, id, id, id⟩, ⟨[], by simp [enqueue]⟩⟩

/-- `setState(kDisconnecting)` -/
theorem disconnecting_grow (c : Conn) (hu : c.st ≠ .kDisconnected) : Grow c { c with st := .kDisconnecting } :=
  ⟨⟨⟨[], by simp⟩, rfl, rfl, rfl, fun h => absurd h hu, (fun h => by cases h), id⟩, ⟨[], by simp⟩⟩

/-- `setState(kDisconnected)` and what follows it -/
theorem down_grow (c : Conn) : Grow c { c with st := .kDisconnected } :=
  ⟨⟨⟨[], by simp⟩, rfl, rfl, rfl, fun _ => rfl, (fun h => by cases h), id⟩, ⟨[], by simp⟩⟩

/-- a delayed close is armed -/
theorem addTimer_grow (c : Conn) (d : Nat) : Grow c { c with timers := c.timers ++ [d] } :=
  ⟨⟨⟨[], by simp⟩, rfl, rfl, rfl, id, id, id⟩, ⟨[d], rfl⟩⟩

theorem queueRemainder_grow (c : Conn) (data : Bytes) (n : Nat) (fault : Bool) :
    Grow c (queueRemainder c data n fault) := by
  unfold queueRemainder
  split
  · simp only
    have key : ∀ c1 : Conn, Grow c c1 →
        Grow c (if sendEnablesWriting ({ c1 with outBuf := c1.outBuf ++ data.drop n } : Conn).ch.evWrite
          then enableWriting { c1 with outBuf := c1.outBuf ++ data.drop n }
          else { c1 with outBuf := c1.outBuf ++ data.drop n }) := by
      intro c1 h1
      split
      · exact h1.trans (Grow.same rfl rfl rfl rfl rfl rfl rfl)
      · exact h1.trans (Grow.same rfl rfl rfl rfl rfl rfl rfl)
    split
    · exact key _ (enqueue_grow _ _)
    · exact key _ (Grow.rfl' c)
  · split
    · exact Grow.same rfl rfl rfl rfl rfl rfl rfl
    · exact Grow.rfl' c

theorem sendDirect_grow (c : Conn) (data : Bytes) (r : WriteRes) : Grow c (sendDirect c data r) := by
  cases r with
  | took n =>
    simp only [sendDirect]
    have b : Grow c ({ c with wrote := c.wrote ++ data.take n } : Conn) := Grow.same rfl rfl rfl rfl rfl rfl rfl
    split
    · exact (b.trans (enqueue_grow _ _)).trans (queueRemainder_grow _ _ _ _)
    · exact b.trans (queueRemainder_grow _ _ _ _)
  | err e => exact queueRemainder_grow _ _ _ _

theorem sendInLoop_grow (c : Conn) (data : Bytes) (q : Bool) : Grow c (sendInLoop c data q) := by
  unfold sendInLoop
  split
  · exact emit_grow _ _
  · split
    · have b : Grow c (accept c data q) := Grow.same rfl rfl rfl rfl rfl rfl rfl
      exact ((b.trans (popWrite_grow _)).trans (emit_grow _ _)).trans (sendDirect_grow _ _ _)
    · have b : Grow c (accept c data q) := Grow.same rfl rfl rfl rfl rfl rfl rfl
      exact b.trans (queueRemainder_grow _ _ _ _)

theorem shutdownInLoop_grow (c : Conn) : Grow c (shutdownInLoop c) := by
  unfold shutdownInLoop; split
  · exact ⟨⟨⟨[], by simp [emit]⟩, rfl, rfl, rfl, id, id, fun _ => rfl⟩, ⟨[], by simp [emit]⟩⟩
  · exact Grow.rfl' c

theorem startReadInLoop_grow (c : Conn) : Grow c (startReadInLoop c) := by
  unfold startReadInLoop; split
  · exact Grow.same rfl rfl rfl rfl rfl rfl rfl
  · exact Grow.rfl' c

theorem stopReadInLoop_grow (c : Conn) : Grow c (stopReadInLoop c) := by
  unfold stopReadInLoop; split
  · exact Grow.same rfl rfl rfl rfl rfl rfl rfl
  · exact Grow.rfl' c

theorem handOff_grow (c : Conn) (f : Bool) (d : Dispatch) (t : Task) (g : Conn → Conn) (hg : Grow c (g c)) :
    Grow c (handOff c f d t g) := by
  unfold handOff; split
  · exact enqueue_grow _ _
  · exact hg

theorem act_grow (c : Conn) (f : Bool) (a : Act) : Grow c (act c f a) := by
  cases a with
  | send d =>
    simp only [act]; split
    · split
      · exact Grow.trans (b := ({ c with offeredF := c.offeredF ++ [d] } : Conn))
          (Grow.same rfl rfl rfl rfl rfl rfl rfl) (enqueue_grow _ _)
      · exact Grow.trans (b := ({ c with offeredL := c.offeredL ++ [d] } : Conn))
          (Grow.same rfl rfl rfl rfl rfl rfl rfl) (sendInLoop_grow _ _ _)
    · exact Grow.rfl' c
  | shutdown =>
    simp only [act]; split
    · rename_i hg
      have hu : c.st ≠ .kDisconnected := by intro h; rw [shutdownAccepts, h] at hg; cases hg
      exact (disconnecting_grow c hu).trans (handOff_grow _ _ _ _ _ (shutdownInLoop_grow _))
    · exact Grow.rfl' c
  | forceClose =>
    simp only [act]; split
    · rename_i hg
      have hu : c.st ≠ .kDisconnected := by
        intro h; rw [forceCloseAccepts, h] at hg; rcases hg with hg | hg <;> cases hg
      exact (disconnecting_grow c hu).trans (handOff_grow _ _ _ _ _ (Grow.rfl' _))
    · exact Grow.rfl' c
  | forceCloseDelay us =>
    simp only [act]; split
    · rename_i hg
      have hu : c.st ≠ .kDisconnected := by
        intro h; rw [forceCloseDelayAccepts, h] at hg; rcases hg with hg | hg <;> cases hg
      split
      · exact (disconnecting_grow c hu).trans (enqueue_grow _ _)
      · exact ⟨⟨⟨[], by simp⟩, rfl, rfl, rfl, fun h => absurd h hu, (fun h => by cases h), id⟩,
          ⟨[c.now + us], rfl⟩⟩
    · exact Grow.rfl' c
  | stopRead => simp only [act]; exact handOff_grow _ _ _ _ _ (stopReadInLoop_grow _)
  | startRead => simp only [act]; exact handOff_grow _ _ _ _ _ (startReadInLoop_grow _)
  | setWc k => exact Grow.same rfl rfl rfl rfl rfl rfl rfl
  | setHwm k m => exact Grow.same rfl rfl rfl rfl rfl rfl rfl

theorem callback_grow (c : Conn) (k : Cb) (e : Ev) : Grow c (callback c k e) := by
  unfold callback; split
  · exact Grow.trans (b := { emit c e with hooks := dropHook k c.hooks })
      (Grow.same rfl rfl rfl rfl rfl rfl rfl) (act_grow _ _ _)
  · exact emit_grow _ _

theorem handleClose_grow (c : Conn) : Grow c (handleClose c) := by
  unfold handleClose
  split
  · exact Grow.same rfl rfl rfl rfl rfl rfl rfl
  · have h1 : Grow c (disableAll { c with st := .kDisconnected }) :=
      (down_grow c).trans (setEvents_grow _ _ _)
    have h2 := (h1.trans (callback_grow _ .down .down)).trans (emit_grow _ .closeCb)
    have h3 : Grow c ({ emit (callback (disableAll { c with st := .kDisconnected }) .down .down) .closeCb with
        owner := false } : Conn) := h2.trans (Grow.same rfl rfl rfl rfl rfl rfl rfl)
    exact h3.trans (enqueue_grow _ .connectDestroyed)

theorem handleReadRes_grow (c : Conn) (r : ReadRes) : Grow c (handleReadRes c r) := by
  unfold handleReadRes
  split
  · exact handleClose_grow _
  · rename_i n
    simp only
    have hd : Grow c (deliver c (n + 1)) := Grow.same rfl rfl rfl rfl rfl rfl rfl
    exact (hd.trans (callback_grow _ _ _)).trans (Grow.same rfl rfl rfl rfl rfl rfl rfl)
  · exact Grow.rfl' c

theorem handleRead_grow (c : Conn) : Grow c (handleRead c) := by
  unfold handleRead
  exact ((popRead_grow c).trans (emit_grow _ _)).trans (handleReadRes_grow _ _)

theorem afterDrain_grow (c : Conn) : Grow c (afterDrain c) := by
  unfold afterDrain
  simp only
  have h1 : Grow c (disableWriting c) := setEvents_grow _ _ _
  split
  · split
    · exact (h1.trans (enqueue_grow _ _)).trans (handOff_grow _ _ _ _ _ (shutdownInLoop_grow _))
    · exact h1.trans (enqueue_grow _ _)
  · split
    · exact h1.trans (handOff_grow _ _ _ _ _ (shutdownInLoop_grow _))
    · exact h1

theorem handleWriteRes_grow (c : Conn) (r : WriteRes) : Grow c (handleWriteRes c r) := by
  unfold handleWriteRes
  split
  · rename_i n
    simp only
    have b : Grow c ({ c with wrote := c.wrote ++ c.outBuf.take (n + 1), outBuf := c.outBuf.drop (n + 1) } : Conn) :=
      Grow.same rfl rfl rfl rfl rfl rfl rfl
    split
    · exact b.trans (afterDrain_grow _)
    · exact b
  · exact Grow.rfl' c

theorem handleWrite_grow (c : Conn) : Grow c (handleWrite c) := by
  unfold handleWrite; split
  · exact ((popWrite_grow c).trans (emit_grow _ _)).trans (handleWriteRes_grow _ _)
  · exact Grow.rfl' c

theorem guarded_grow (f : Conn → Conn) (hf : ∀ c, Grow c (f c)) (rev : Prop) [Decidable rev]
    (sub : Bool → Bool → Bool → Prop) [∀ a b c, Decidable (sub a b c)] (c : Conn) : Grow c (guarded f rev sub c) := by
  unfold guarded; split
  · exact hf c
  · exact Grow.rfl' c

theorem handleEvent_grow (c : Conn) (r : Nat) : Grow c (handleEvent c r) := by
  unfold handleEvent
  split
  · exact Grow.rfl' c
  · exact ((guarded_grow _ handleClose_grow _ _ c).trans (guarded_grow _ handleRead_grow _ _ _)).trans
      (guarded_grow _ handleWrite_grow _ _ _)

theorem removeChannel_grow (c : Conn) : Grow c (removeChannel c) := by
  unfold removeChannel; split <;> exact Grow.same rfl rfl rfl rfl rfl rfl rfl

theorem connectDestroyed_grow (c : Conn) : Grow c (connectDestroyed c) := by
  unfold connectDestroyed; split
  · exact (((down_grow c).trans (setEvents_grow _ _ _)).trans (callback_grow _ _ _)).trans (removeChannel_grow _)
  · exact removeChannel_grow _

theorem fireDelay_grow (c : Conn) : Grow c (fireDelay c) := by
  unfold fireDelay; split
  · exact act_grow _ _ _
  · exact Grow.rfl' c

theorem fireN_grow (n : Nat) (c : Conn) : Grow c (fireN c n) := by
  induction n generalizing c with
  | zero => exact Grow.rfl' c
  | succ n ih => exact (fireDelay_grow c).trans (ih _)

theorem runTask_grow (c : Conn) (t : Task) : Grow c (runTask c t) := by
  unfold runTask
  split
  · split
    · exact addTimer_grow _ _
    · split
      · exact Grow.rfl' c
      · exact Grow.same rfl rfl rfl rfl rfl rfl rfl
  · cases t with
    | sendInLoop d => exact sendInLoop_grow _ _ _
    | shutdownInLoop => exact shutdownInLoop_grow _
    | drainShutdownInLoop => exact shutdownInLoop_grow _
    | forceCloseInLoop => simp only; split; exact handleClose_grow _; exact Grow.rfl' c
    | connectDestroyed => exact connectDestroyed_grow _
    | writeComplete => exact callback_grow _ _ _
    | highWater n => exact callback_grow _ _ _
    | startReadInLoop => exact startReadInLoop_grow _
    | stopReadInLoop => exact stopReadInLoop_grow _
    | addDelayTimer d => exact addTimer_grow _ _

/-- firing the expired timers: the expired deadlines leave the list, the rest is `Mono` -/
theorem fireTimers_mono (c : Conn) : Mono c (fireTimers c) := by
  unfold fireTimers
  have b : Mono c ({ c with timers := c.timers.filter (fun d => ¬ d ≤ c.now) } : Conn) :=
    ⟨⟨[], by simp⟩, rfl, rfl, rfl, id, id, id⟩
  exact b.trans (fireN_grow _ _).mono

theorem dispatch_mono (c : Conn) (s : Src) : Mono c (dispatch c s) := by
  cases s with
  | conn r => simp only [dispatch]; split; exact Mono.rfl' c; exact (handleEvent_grow _ _).mono
  | timer => simp only [dispatch]; split; exact Mono.rfl' c; exact fireTimers_mono _

theorem foldl_dispatch_mono (l : List Src) (c : Conn) : Mono c (l.foldl dispatch c) := by
  induction l generalizing c with
  | nil => exact Mono.rfl' c
  | cons s rest ih => exact (dispatch_mono c s).trans (ih _)

theorem maybeDestroy_st (c : Conn) : (maybeDestroy c).st = c.st := by
  unfold maybeDestroy; (repeat' split) <;> rfl

theorem runBatch_down (n : Nat) (c : Conn) (h : c.st = .kDisconnected) : (runBatch n c).st = .kDisconnected := by
  induction n generalizing c with
  | zero => exact h
  | succ n ih =>
    unfold runBatch; split
    · exact h
    · split
      · exact h
      · exact ih _ ((runTask_grow _ _).mono.down h)

theorem drainPending_down (c : Conn) (h : c.st = .kDisconnected) : (drainPending c).st = .kDisconnected := by
  unfold drainPending; exact runBatch_down _ _ h

theorem iter_down (c : Conn) (a : List Src) (h : c.st = .kDisconnected) : (iter c a).st = .kDisconnected := by
  unfold iter
  split
  · exact h
  · simp only
    have h1 := drainPending_down _ ((foldl_dispatch_mono a c).down h)
    split
    · exact h1
    · rw [maybeDestroy_st]; exact h1

/-! ### 1. `kDisconnected` is absorbing -/

/-- no input except a (second) hand-over by the acceptor/connector moves the connection out of
`kDisconnected` -/
theorem down_absorbing (c : Conn) (i : Input) (hne : i.notEstablish) (h : c.st = .kDisconnected) :
    (step c i).st = .kDisconnected := by
  cases i with
  | establish => exact absurd hne (by simp [Input.notEstablish])
  | act f a =>
    simp only [step]; split
    · exact h
    · split
      · exact act_st_down _ _ _ h
      · exact act_st_down _ _ _ h
  | iter a => exact iter_down _ _ h
  | ownerDestroy =>
    simp only [step]; split
    · exact h
    · rw [maybeDestroy_st]
      exact (connectDestroyed_grow c).mono.down h
  | hook k a => exact h
  | setMark n => exact h
  | setRetrieve n => exact h
  | peerWrite d => exact h
  | envWrite r => exact h
  | envRead r => exact h
  | advance us => exact h

theorem run_down (ins : List Input) (c : Conn) (hne : ∀ i ∈ ins, i.notEstablish) (h : c.st = .kDisconnected) :
    (run c ins).st = .kDisconnected := by
  induction ins generalizing c with
  | nil => exact h
  | cons i rest ih =>
    exact ih (step c i) (fun j hj => hne j (List.mem_cons_of_mem _ hj))
      (down_absorbing c i (hne i (List.mem_cons_self ..)) h)

/-! ### 2. `forceClose()` brings the connection down within one iteration -/

/-- the connection is down, or the functor that will bring it down is queued -/
def Closing (c : Conn) : Prop := c.st = .kDisconnected ∨ Task.forceCloseInLoop ∈ c.queue

/-- whatever runs in the dispatch phase keeps `forceCloseInLoop` queued (prefix lemma) -/
theorem Mono.closing {c c' : Conn} (h : Mono c c') (hc : Closing c) : Closing c' := by
  rcases hc with hc | hc
  · exact Or.inl (h.down hc)
  · obtain ⟨s, e⟩ := h.pend
    right
    unfold Conn.queue at hc ⊢
    rw [h.batch, e]
    rcases List.mem_append.mp hc with hc | hc
    · exact List.mem_append_left _ hc
    · exact List.mem_append_right _ (List.mem_append_left _ hc)

theorem handleClose_down (c : Conn) (hu : c.isUp) : (handleClose c).st = .kDisconnected := by
  unfold handleClose
  have hok : handleCloseOk c = true := by
    unfold handleCloseOk; unfold Conn.isUp at hu; rcases hu with h | h <;> simp [h]
  rw [if_neg (by simp [hok])]
  exact callback_st_down _ _ _ rfl

/-- `forceCloseInLoop` run on a connection that exists leaves it down -/
theorem runTask_forceClose_down (c : Conn) (he : c.st ≠ .kConnecting)
    (ha : c.st ≠ .kDisconnected → c.alive = true) : (runTask c .forceCloseInLoop).st = .kDisconnected := by
  by_cases hd : c.st = .kDisconnected
  · exact (runTask_grow _ _).mono.down hd
  · have hu : c.isUp := by unfold Conn.isUp; cases hs : c.st <;> simp_all
    unfold runTask
    rw [if_neg (by simp [ha hd])]
    simp only
    rw [if_pos (by simpa [forceCloseInLoopActs, Conn.isUp] using hu)]
    exact handleClose_down _ hu

/-- the functor phase runs every functor of the batch (the process is not aborted: `LifeInv`),
so a queued `forceCloseInLoop` runs, and what it does is not undone -/
theorem runBatch_closes (n : Nat) (c : Conn) (hl : LifeInv c) (hn : c.batch.length ≤ n)
    (h : c.st = .kDisconnected ∨ Task.forceCloseInLoop ∈ c.batch) : (runBatch n c).st = .kDisconnected := by
  induction n generalizing c with
  | zero =>
    rcases h with h | h
    · exact h
    · have : c.batch = [] := List.eq_nil_of_length_eq_zero (by omega)
      rw [this] at h; cases h
  | succ n ih =>
    unfold runBatch
    rw [if_neg (by simp [hl.notDead])]
    split
    · rename_i hb
      rcases h with h | h
      · exact h
      · rw [hb] at h; cases h
    · rename_i t rest hb
      have hl' := runTask_life c t rest hb hl
      have hg := (runTask_grow { c with batch := rest } t).mono
      apply ih _ hl'
      · rw [hg.batch]; rw [hb] at hn; simpa using hn
      · rcases h with h | h
        · exact Or.inl (hg.down h)
        · rw [hb] at h
          rcases List.mem_cons.mp h with h | h
          · left; subst h
            exact runTask_forceClose_down _ hl.established (fun hd => (hl.upFacts hd).2.1)
          · right; rw [hg.batch]; exact h

/-- the swap of `doPendingFunctors` keeps the queue as a whole -/
theorem swapped_life (c : Conn) (hi : LifeInv c) :
    LifeInv { c with pending := [], batch := c.batch ++ c.pending } := by
  constructor
  · exact hi.life
  · exact hi.notDead
  · exact hi.established
  · exact hi.ownerGone
  · exact hi.quiet
  · intro h1 h2 h3; have := hi.reg h1 h2 h3; simpa [Conn.queue] using this
  · intro h; have := hi.gone h; simpa [Conn.queue] using this

theorem drainPending_closes (c : Conn) (hl : LifeInv c) (hc : Closing c) : (drainPending c).st = .kDisconnected := by
  unfold drainPending
  exact runBatch_closes _ _ (swapped_life _ hl) (Nat.le_refl _) hc

/-- if the dispatch phase of an iteration ends with the connection down or `forceCloseInLoop` queued,
the iteration ends with the connection down -/
theorem iter_down_of (c : Conn) (a : List Src) (hl : LifeInv c) (hc : Closing (a.foldl dispatch c)) :
    (iter c a).st = .kDisconnected := by
  unfold iter
  rw [if_neg (by simp [hl.notDead])]
  simp only
  have hd := drainPending_closes _ (foldl_dispatch_life a c hl) hc
  split
  · exact hd
  · rw [maybeDestroy_st]; exact hd

/-- a connection with `forceCloseInLoop` queued is down after the next iteration, whatever the
poller reports in it, whatever else is queued and whatever the callbacks do -/
theorem closing_iter_down (c : Conn) (a : List Src) (hl : LifeInv c) (hc : Closing c) :
    (iter c a).st = .kDisconnected :=
  iter_down_of c a hl ((foldl_dispatch_mono a c).closing hc)

/-- `forceClose()` on any thread: the functor is queued (`forceCloseDispatch = .queue`), unless the
connection is down already -/
theorem forceClose_closing (c : Conn) (f : Bool) (hl : LifeInv c) : Closing (act c f .forceClose) := by
  simp only [act]
  split
  · right; unfold handOff; rw [if_pos (by simp [forceCloseDispatch])]; simp [Conn.queue, enqueue]
  · rename_i hg; left
    have := hl.established
    cases hs : c.st <;> simp_all [forceCloseAccepts]

theorem LifeInv.gone_down {c : Conn} (hl : LifeInv c) (h : c.alive = false) : c.st = .kDisconnected :=
  hl.ownerGone (hl.gone h).2.1

theorem forceClose_life (c : Conn) (f : Bool) (hl : LifeInv c) : LifeInv (act c f .forceClose) := by
  cases ha : c.alive with
  | true => exact act_life _ _ _ ha hl
  | false =>
    have hd := hl.gone_down ha
    have : act c f .forceClose = c := by simp [act, forceCloseAccepts, hd]
    rw [this]; exact hl

/-- **C02 progress.** One loop iteration after `forceClose()` — called on any thread (`f`), in any
state of the connection, with any I/O events `a` arriving in that iteration, whatever other functors
are queued and whatever the callbacks do — the connection is `kDisconnected`.  (`LifeInv c` holds in
every reachable state; it contains `c.dead = false`.) -/
theorem forceClose_brings_down (c : Conn) (f : Bool) (a : List Src) (hl : LifeInv c) :
    (iter (act c f .forceClose) a).st = .kDisconnected :=
  closing_iter_down _ a (forceClose_life c f hl) (forceClose_closing c f hl)

/-- in a state that is down, DOWN has been reported exactly once -/
theorem down_reported_once (c : Conn) (hl : LifeInv c) (hd : c.st = .kDisconnected) :
    C02.cnt C02.isDownEv c.trace = 1 := by
  have := (C02.life_counts c.trace _ hl.life).2.1
  rw [this]; unfold phaseOf; split
  · simp
  · simp [hd]

/-- in a state that is up, DOWN has not been reported -/
theorem up_not_reported (c : Conn) (hl : LifeInv c) (hu : c.isUp) : C02.cnt C02.isDownEv c.trace = 0 := by
  obtain ⟨_, ha, _⟩ := hl.upFacts (isUp_ne hu)
  have := (C02.life_counts c.trace _ hl.life).2.1
  rw [this]; unfold phaseOf; unfold Conn.isUp at hu
  rcases hu with h | h <;> simp [ha, h]

/-- … and therefore the user has seen DOWN exactly once after that iteration, and nothing aborted -/
theorem forceClose_reports_down (c : Conn) (f : Bool) (a : List Src) (hl : LifeInv c) :
    C02.cnt C02.isDownEv (iter (act c f .forceClose) a).trace = 1 ∧
    C02.cnt C02.isBadEv (iter (act c f .forceClose) a).trace = 0 ∧
    (iter (act c f .forceClose) a).dead = false := by
  have hl' := iter_life _ a (forceClose_life c f hl)
  exact ⟨down_reported_once _ hl' (forceClose_brings_down c f a hl),
    (C02.life_counts _ _ hl'.life).2.2.2.1, hl'.notDead⟩

/-! ### 4. a released connection is destroyed in the next iteration -/

/-- the owner has dropped the connection (after `handleClose` / `~TcpServer`): it is down, not
watched, and kept alive only by functors -/
structure Released (c : Conn) : Prop where
  st : c.st = .kDisconnected
  alive : c.alive = true
  owner : c.owner = false
  dead : c.dead = false
  evRead : c.ch.evRead = false
  evWrite : c.ch.evWrite = false

/-- `c'` is `c` as far as `Released` and the functor queue are concerned -/
structure Still (c c' : Conn) : Prop where
  st : c'.st = c.st
  alive : c'.alive = c.alive
  owner : c'.owner = c.owner
  dead : c'.dead = c.dead
  evRead : c'.ch.evRead = c.ch.evRead
  evWrite : c'.ch.evWrite = c.ch.evWrite
  pending : c'.pending = c.pending
  batch : c'.batch = c.batch

theorem Still.rfl' (c : Conn) : Still c c := ⟨rfl, rfl, rfl, rfl, rfl, rfl, rfl, rfl⟩
theorem Still.trans {a b c : Conn} (h1 : Still a b) (h2 : Still b c) : Still a c :=
  ⟨h2.st.trans h1.st, h2.alive.trans h1.alive, h2.owner.trans h1.owner, h2.dead.trans h1.dead,
   h2.evRead.trans h1.evRead, h2.evWrite.trans h1.evWrite, h2.pending.trans h1.pending, h2.batch.trans h1.batch⟩

theorem Released.of_still {c c' : Conn} (hr : Released c) (h : Still c c') : Released c' :=
  ⟨h.st.trans hr.st, h.alive.trans hr.alive, h.owner.trans hr.owner, h.dead.trans hr.dead,
   h.evRead.trans hr.evRead, h.evWrite.trans hr.evWrite⟩

theorem LifeInv.released {c : Conn} (hl : LifeInv c) (ho : c.owner = false) (ha : c.alive = true) : Released c :=
  ⟨hl.ownerGone ho, ha, ho, hl.notDead, (hl.quiet (hl.ownerGone ho)).1, (hl.quiet (hl.ownerGone ho)).2⟩

/-- on the loop thread every user operation on a connection that is down does nothing (installing a callback
stores it, of course) -/
theorem act_down_loop (c : Conn) (a : Act) (h : c.st = .kDisconnected)
    (h1 : ∀ k, a ≠ .setWc k) (h2 : ∀ k m, a ≠ .setHwm k m) : act c false a = c := by
  cases a with
  | setWc k => exact absurd rfl (h1 k)
  | setHwm k m => exact absurd rfl (h2 k m)
  | _ => simp [act, h, sendAcceptsPiece, shutdownAccepts, forceCloseAccepts, forceCloseDelayAccepts, handOff,
    stopReadDispatch, startReadDispatch, stopReadInLoop, startReadInLoop, stopReadActs, startReadActs]

theorem act_down_still (c : Conn) (a : Act) (h : c.st = .kDisconnected) : Still c (act c false a) := by
  cases a with
  | setWc k => exact ⟨rfl, rfl, rfl, rfl, rfl, rfl, rfl, rfl⟩
  | setHwm k m => exact ⟨rfl, rfl, rfl, rfl, rfl, rfl, rfl, rfl⟩
  | send d => rw [act_down_loop _ _ h (by simp) (by simp)]; exact Still.rfl' c
  | shutdown => rw [act_down_loop _ _ h (by simp) (by simp)]; exact Still.rfl' c
  | forceClose => rw [act_down_loop _ _ h (by simp) (by simp)]; exact Still.rfl' c
  | forceCloseDelay us => rw [act_down_loop _ _ h (by simp) (by simp)]; exact Still.rfl' c
  | stopRead => rw [act_down_loop _ _ h (by simp) (by simp)]; exact Still.rfl' c
  | startRead => rw [act_down_loop _ _ h (by simp) (by simp)]; exact Still.rfl' c

theorem callback_still (c : Conn) (k : Cb) (e : Ev) (h : c.st = .kDisconnected) : Still c (callback c k e) := by
  unfold callback; split
  · unfold actLoop
    exact Still.trans (b := { emit c e with hooks := dropHook k c.hooks }) ⟨rfl, rfl, rfl, rfl, rfl, rfl, rfl, rfl⟩
      (act_down_still _ _ (by exact h))
  · exact ⟨rfl, rfl, rfl, rfl, rfl, rfl, rfl, rfl⟩

/-- a functor run on a released connection neither queues anything nor revives it -/
theorem runTask_released (c : Conn) (t : Task) (hr : Released c) : Still c (runTask c t) := by
  have hnu : ¬ (c.st = .kConnected ∨ c.st = .kDisconnecting) := by rw [hr.st]; simp
  unfold runTask
  rw [if_neg (by simp [hr.alive])]
  cases t with
  | sendInLoop d =>
    simp only; unfold sendInLoop; rw [if_pos (show sendGivesUp c.st from hr.st)]
    exact ⟨rfl, rfl, rfl, rfl, rfl, rfl, rfl, rfl⟩
  | shutdownInLoop => simp only; unfold shutdownInLoop; split <;> exact ⟨rfl, rfl, rfl, rfl, rfl, rfl, rfl, rfl⟩
  | drainShutdownInLoop => simp only; unfold shutdownInLoop; split <;> exact ⟨rfl, rfl, rfl, rfl, rfl, rfl, rfl, rfl⟩
  | forceCloseInLoop => simp only; rw [if_neg (show ¬ forceCloseInLoopActs c.st from hnu)]; exact Still.rfl' c
  | connectDestroyed =>
    simp only; unfold connectDestroyed; rw [if_neg (show ¬ destroyedWhileConnected c.st from hnu)]
    unfold removeChannel; rw [if_neg (by simp [Chan.none, hr.evRead, hr.evWrite])]
    exact ⟨rfl, rfl, rfl, rfl, rfl, rfl, rfl, rfl⟩
  | writeComplete => exact callback_still _ _ _ hr.st
  | highWater n => exact callback_still _ _ _ hr.st
  | startReadInLoop =>
    simp only; unfold startReadInLoop
    rw [if_neg (show ¬ startReadActs c.st c.reading c.ch.evRead from fun h => hnu h.1)]; exact Still.rfl' c
  | stopReadInLoop =>
    simp only; unfold stopReadInLoop
    rw [if_neg (show ¬ stopReadActs c.st c.reading c.ch.evRead from fun h => hnu h.1)]; exact Still.rfl' c
  | addDelayTimer d => exact ⟨rfl, rfl, rfl, rfl, rfl, rfl, rfl, rfl⟩

/-- the functor phase on a released connection consumes the whole batch and queues nothing -/
theorem runBatch_released (n : Nat) (c : Conn) (hr : Released c) (hn : c.batch.length ≤ n) :
    Released (runBatch n c) ∧ (runBatch n c).batch = [] ∧ (runBatch n c).pending = c.pending := by
  induction n generalizing c with
  | zero =>
    have hb : c.batch = [] := List.eq_nil_of_length_eq_zero (by omega)
    exact ⟨hr, hb, rfl⟩
  | succ n ih =>
    unfold runBatch
    rw [if_neg (by simp [hr.dead])]
    split
    · rename_i hb; exact ⟨hr, hb, rfl⟩
    · rename_i t rest hb
      have hr0 : Released ({ c with batch := rest } : Conn) := ⟨hr.st, hr.alive, hr.owner, hr.dead, hr.evRead, hr.evWrite⟩
      have hs := runTask_released _ t hr0
      obtain ⟨r1, r2, r3⟩ := ih _ (hr0.of_still hs) (by rw [hs.batch]; rw [hb] at hn; simpa using hn)
      exact ⟨r1, r2, r3.trans hs.pending⟩

/-- no I/O event is delivered to a released connection: its channel has no interest -/
theorem handleEvent_released (c : Conn) (r : Nat) (hr : Released c) : handleEvent c r = c := by
  have hn : c.ch.none = true := by simp [Chan.none, hr.evRead, hr.evWrite]
  unfold handleEvent
  rw [if_neg (by simp [hr.alive])]
  simp [guarded, dispCloseSub, dispReadSub, dispWriteSub, hn, hr.evRead, hr.evWrite]

theorem fireN_released (n : Nat) (c : Conn) (hr : Released c) : fireN c n = c := by
  induction n with
  | zero => rfl
  | succ n ih =>
    have : fireDelay c = c := by
      unfold fireDelay; rw [if_pos hr.alive]; unfold actLoop; exact act_down_loop _ _ hr.st (by simp) (by simp)
    simp only [fireN, this]; exact ih

theorem dispatch_released (c : Conn) (s : Src) (hr : Released c) : Still c (dispatch c s) := by
  cases s with
  | conn r => simp only [dispatch]; rw [if_neg (by simp [hr.dead]), handleEvent_released c r hr]; exact Still.rfl' c
  | timer =>
    simp only [dispatch]; rw [if_neg (by simp [hr.dead])]
    unfold fireTimers
    have hr0 : Released ({ c with timers := c.timers.filter (fun d => ¬ d ≤ c.now) } : Conn) :=
      ⟨hr.st, hr.alive, hr.owner, hr.dead, hr.evRead, hr.evWrite⟩
    rw [fireN_released _ _ hr0]
    exact ⟨rfl, rfl, rfl, rfl, rfl, rfl, rfl, rfl⟩

theorem foldl_dispatch_released (l : List Src) (c : Conn) (hr : Released c) : Still c (l.foldl dispatch c) := by
  induction l generalizing c with
  | nil => exact Still.rfl' c
  | cons s rest ih =>
    have h1 := dispatch_released c s hr
    exact h1.trans (ih _ (hr.of_still h1))

/-- **C02 progress: no object or descriptor leaks.** Once the owner has released the connection
(`handleClose` ran, or `~TcpServer`) and only functors keep it alive, ONE loop iteration — with
any poll result, any functors queued, any callbacks — destroys the object: every queued functor runs
(none can queue another one, `runTask_released`), the references go away with the batch, and
`~TcpConnection` closes the descriptor. -/
theorem released_is_destroyed (c : Conn) (a : List Src) (hl : LifeInv c) (ho : c.owner = false)
    (ha : c.alive = true) : (iter c a).alive = false := by
  have hr := hl.released ho ha
  unfold iter
  rw [if_neg (by simp [hr.dead])]
  simp only
  have hs1 := foldl_dispatch_released a c hr
  have hr1 := hr.of_still hs1
  have hl3 := drainPending_life _ (foldl_dispatch_life a c hl)
  have hr2 : Released ({ a.foldl dispatch c with pending := [], batch := (a.foldl dispatch c).batch ++ (a.foldl dispatch c).pending } : Conn) :=
    ⟨hr1.st, hr1.alive, hr1.owner, hr1.dead, hr1.evRead, hr1.evWrite⟩
  obtain ⟨hr3, hb, hp⟩ := runBatch_released _ _ hr2 (Nat.le_refl _)
  have hp' : (drainPending (a.foldl dispatch c)).pending = [] := hp
  have hb' : (drainPending (a.foldl dispatch c)).batch = [] := hb
  have hr3' : Released (drainPending (a.foldl dispatch c)) := hr3
  rw [if_neg (by simp [hr3'.dead])]
  have hreg : (drainPending (a.foldl dispatch c)).registered = false := by
    cases hw : (drainPending (a.foldl dispatch c)).registered with
    | false => rfl
    | true =>
      have := hl3.reg hr3'.alive hr3'.owner hw
      simp [Conn.queue, hb', hp'] at this
  unfold maybeDestroy
  rw [if_pos (by simp [hr3'.alive, hr3'.owner, hb', hp']), if_neg (by simp [hr3'.st]), if_neg (by simp [hreg])]
  rfl

/-- … and the descriptor was closed exactly once, after DOWN, and nothing aborted -/
theorem released_closes_descriptor (c : Conn) (a : List Src) (hl : LifeInv c) (ho : c.owner = false)
    (ha : c.alive = true) :
    C02.cnt C02.isCloseEv (iter c a).trace = 1 ∧ C02.cnt C02.isDownEv (iter c a).trace = 1 ∧
    C02.cnt C02.isBadEv (iter c a).trace = 0 := by
  have hl' := iter_life c a hl
  have hg := released_is_destroyed c a hl ho ha
  have hp : phaseOf (iter c a) = .closed := by unfold phaseOf; simp [hg]
  have := C02.life_counts _ _ hl'.life
  rw [hp] at this
  exact ⟨by simpa using this.2.2.1, by simpa using this.2.1, this.2.2.2.1⟩

/-! ### 3. `forceCloseWithDelay` -/

/-- a delayed close with deadline `d` is armed (its timer is set), or has done its work -/
def Armed (d : Nat) (c : Conn) : Prop := Closing c ∨ d ∈ c.timers

/-- … or is on its way to the loop thread (`runAfter` called on another thread) -/
def Arming (d : Nat) (c : Conn) : Prop := Armed d c ∨ Task.addDelayTimer d ∈ c.queue

theorem Grow.armed {c c' : Conn} {d : Nat} (h : Grow c c') (ha : Armed d c) : Armed d c' := by
  rcases ha with ha | ha
  · exact Or.inl (h.mono.closing ha)
  · obtain ⟨k, e⟩ := h.timers
    right; rw [e]; exact List.mem_append_left _ ha

/-- the timer callback: `forceClose()` through the weak pointer -/
theorem fireDelay_closing (c : Conn) (hl : LifeInv c) : Closing (fireDelay c) := by
  unfold fireDelay; split
  · exact forceClose_closing c false hl
  · rename_i ha
    exact Or.inl (hl.gone_down (by simpa using ha))

theorem fireN_closing (n : Nat) (c : Conn) (hl : LifeInv c) (hn : 0 < n) : Closing (fireN c n) := by
  cases n with
  | zero => omega
  | succ n => exact (fireN_grow n (fireDelay c)).mono.closing (fireDelay_closing c hl)

/-- `TimerQueue::handleRead` with the deadline passed: the delayed close fires -/
theorem fireTimers_fires (c : Conn) (d : Nat) (hl : LifeInv c) (hd : d ∈ c.timers) (hle : d ≤ c.now) :
    Closing (fireTimers c) := by
  unfold fireTimers
  apply fireN_closing
  · exact hl.frame ⟨rfl, rfl, rfl, rfl, rfl, rfl, rfl, rfl, rfl, rfl⟩
  · apply List.length_pos_of_mem (a := d)
    exact List.mem_filter.mpr ⟨hd, by simpa using hle⟩

theorem fireTimers_armed (c : Conn) (d : Nat) (hl : LifeInv c) (ha : Armed d c) : Armed d (fireTimers c) := by
  rcases ha with ha | ha
  · exact Or.inl ((fireTimers_mono c).closing ha)
  · by_cases hle : d ≤ c.now
    · exact Or.inl (fireTimers_fires c d hl ha hle)
    · right
      unfold fireTimers
      obtain ⟨k, e⟩ := (fireN_grow (c.timers.filter (· ≤ c.now)).length
        ({ c with timers := c.timers.filter (fun d => ¬ d ≤ c.now) } : Conn)).timers
      rw [e]
      exact List.mem_append_left _ (List.mem_filter.mpr ⟨ha, by simpa using hle⟩)

theorem dispatch_armed (c : Conn) (s : Src) (d : Nat) (hl : LifeInv c) (ha : Armed d c) : Armed d (dispatch c s) := by
  cases s with
  | conn r => simp only [dispatch]; split; exact ha; exact (handleEvent_grow _ _).armed ha
  | timer => simp only [dispatch]; split; exact ha; exact fireTimers_armed c d hl ha

theorem foldl_dispatch_armed (l : List Src) (c : Conn) (d : Nat) (hl : LifeInv c) (ha : Armed d c) :
    Armed d (l.foldl dispatch c) := by
  induction l generalizing c with
  | nil => exact ha
  | cons s rest ih => exact ih _ (dispatch_life _ _ hl) (dispatch_armed c s d hl ha)

/-- the timer channel is reported after the deadline: the close is under way when the dispatch
phase ends -/
theorem foldl_dispatch_fires (l : List Src) (c : Conn) (d : Nat) (hl : LifeInv c) (ha : Armed d c)
    (hle : d ≤ c.now) (hm : Src.timer ∈ l) : Closing (l.foldl dispatch c) := by
  induction l generalizing c with
  | nil => cases hm
  | cons s rest ih =>
    by_cases hs : s = .timer
    · subst hs
      apply (foldl_dispatch_mono rest _).closing
      rcases ha with ha | ha
      · exact (dispatch_mono c .timer).closing ha
      · simp only [dispatch]; rw [if_neg (by simp [hl.notDead])]
        exact fireTimers_fires c d hl ha hle
    · have hm' : Src.timer ∈ rest := by
        rcases List.mem_cons.mp hm with h | h
        · exact absurd h.symm hs
        · exact h
      exact ih _ (dispatch_life _ _ hl) (dispatch_armed c s d hl ha)
        (by rw [(dispatch_mono c s).now]; exact hle) hm'

/-- an armed delayed close whose deadline has passed brings the connection down in the iteration
in which the poller reports the timer descriptor (the timer callback runs in the dispatch phase and
queues `forceCloseInLoop` for the functor phase of the SAME iteration) -/
theorem armed_iter_down (c : Conn) (a : List Src) (d : Nat) (hl : LifeInv c) (ha : Armed d c)
    (hle : d ≤ c.now) (hm : Src.timer ∈ a) : (iter c a).st = .kDisconnected :=
  iter_down_of c a hl (foldl_dispatch_fires a c d hl ha hle hm)

theorem maybeDestroy_fields (c : Conn) :
    (maybeDestroy c).st = c.st ∧ (maybeDestroy c).timers = c.timers ∧ (maybeDestroy c).batch = c.batch ∧
    (maybeDestroy c).pending = c.pending ∧ (maybeDestroy c).now = c.now := by
  unfold maybeDestroy; (repeat' split) <;> exact ⟨rfl, rfl, rfl, rfl, rfl⟩

theorem maybeDestroy_armed (c : Conn) (d : Nat) (ha : Armed d c) : Armed d (maybeDestroy c) := by
  obtain ⟨h1, h2, h3, h4, _⟩ := maybeDestroy_fields c
  unfold Armed Closing Conn.queue at *
  rw [h1, h2, h3, h4]; exact ha

theorem runTask_addDelayTimer (c : Conn) (d : Nat) :
    runTask c (.addDelayTimer d) = { c with timers := c.timers ++ [d] } := by
  unfold runTask; split <;> rfl

/-- running the head of the batch keeps the close under way (if the head is `forceCloseInLoop`
itself, the connection is down afterwards) -/
theorem runTask_pop_closing (c : Conn) (t : Task) (rest : List Task) (hb : c.batch = t :: rest) (hl : LifeInv c)
    (hc : Closing c) : Closing (runTask { c with batch := rest } t) := by
  have hg := (runTask_grow { c with batch := rest } t).mono
  rcases hc with hc | hc
  · exact Or.inl (hg.down hc)
  · unfold Conn.queue at hc; rw [hb] at hc
    rcases List.mem_cons.mp hc with hc | hc
    · subst hc
      exact Or.inl (runTask_forceClose_down _ hl.established (fun hd => (hl.upFacts hd).2.1))
    · exact hg.closing (Or.inr hc)

/-- the functor phase keeps an armed close armed and arms the ones on their way -/
theorem runBatch_arms (n : Nat) (c : Conn) (d : Nat) (hl : LifeInv c) (hn : c.batch.length ≤ n)
    (h : Armed d c ∨ Task.addDelayTimer d ∈ c.batch) : Armed d (runBatch n c) := by
  induction n generalizing c with
  | zero =>
    rcases h with h | h
    · exact h
    · have : c.batch = [] := List.eq_nil_of_length_eq_zero (by omega)
      rw [this] at h; cases h
  | succ n ih =>
    unfold runBatch
    rw [if_neg (by simp [hl.notDead])]
    split
    · rename_i hb
      rcases h with h | h
      · exact h
      · rw [hb] at h; cases h
    · rename_i t rest hb
      have hl' := runTask_life c t rest hb hl
      have hg := runTask_grow { c with batch := rest } t
      apply ih _ hl'
      · rw [hg.mono.batch]; rw [hb] at hn; simpa using hn
      · rcases h with (h | h) | h
        · exact Or.inl (Or.inl (runTask_pop_closing c t rest hb hl h))
        · exact Or.inl (hg.armed (Or.inr h))
        · rw [hb] at h
          rcases List.mem_cons.mp h with h | h
          · left; subst h
            rw [runTask_addDelayTimer]
            exact Or.inr (by simp)
          · right; rw [hg.mono.batch]; exact h

/-- an iteration keeps an armed close armed, and arms the one that is on its way -/
theorem iter_arms (c : Conn) (a : List Src) (d : Nat) (hl : LifeInv c) (h : Arming d c) : Armed d (iter c a) := by
  unfold iter
  rw [if_neg (by simp [hl.notDead])]
  simp only
  have hl1 := foldl_dispatch_life a c hl
  have hm := foldl_dispatch_mono a c
  have h1 : Armed d (drainPending (a.foldl dispatch c)) := by
    unfold drainPending
    apply runBatch_arms _ _ d (swapped_life _ hl1) (Nat.le_refl _)
    rcases h with h | h
    · left
      have := foldl_dispatch_armed a c d hl h
      unfold Armed Closing Conn.queue at this ⊢
      simpa using this
    · right
      obtain ⟨s, e⟩ := hm.pend
      unfold Conn.queue at h
      show Task.addDelayTimer d ∈ (a.foldl dispatch c).batch ++ (a.foldl dispatch c).pending
      rw [hm.batch, e]
      rcases List.mem_append.mp h with h | h
      · exact List.mem_append_left _ h
      · exact List.mem_append_right _ (List.mem_append_left _ h)
  split
  · exact h1
  · exact maybeDestroy_armed _ d h1

theorem runBatch_now (n : Nat) (c : Conn) : (runBatch n c).now = c.now := by
  induction n generalizing c with
  | zero => rfl
  | succ n ih =>
    unfold runBatch; split
    · rfl
    · split
      · rfl
      · rw [ih]; exact (runTask_grow _ _).mono.now

/-- the clock is an input: no iteration moves it -/
theorem iter_now (c : Conn) (a : List Src) : (iter c a).now = c.now := by
  unfold iter
  split
  · rfl
  · simp only
    have h1 : (drainPending (a.foldl dispatch c)).now = c.now := by
      unfold drainPending; rw [runBatch_now]; exact (foldl_dispatch_mono a c).now
    split
    · exact h1
    · rw [(maybeDestroy_fields _).2.2.2.2]; exact h1

/-- every input keeps an armed close armed: until it fires it cannot be lost -/
theorem armed_stable (c : Conn) (i : Input) (d : Nat) (hne : i.notEstablish) (hl : LifeInv c) (h : Armed d c) :
    Armed d (step c i) := by
  cases i with
  | establish => exact absurd hne (by simp [Input.notEstablish])
  | act f a =>
    simp only [step]; split
    · exact h
    · split
      · exact (act_grow _ _ _).armed h
      · exact (act_grow _ _ _).armed h
  | iter a => exact iter_arms c a d hl (Or.inl h)
  | ownerDestroy =>
    simp only [step]; split
    · exact h
    · apply maybeDestroy_armed
      have := (connectDestroyed_grow c).armed h
      unfold Armed Closing Conn.queue at this ⊢
      exact this
  | hook k a => exact h
  | setMark n => exact h
  | setRetrieve n => exact h
  | peerWrite d => exact h
  | envWrite r => exact h
  | envRead r => exact h
  | advance us => exact h

/-- `forceCloseWithDelay(us)`: on the loop thread the timer is armed at once, from another thread the
request is queued for the loop; if the connection is down already there is nothing to do -/
theorem forceCloseDelay_arming (c : Conn) (f : Bool) (us : Nat) (hl : LifeInv c) :
    Arming (c.now + us) (act c f (.forceCloseDelay us)) := by
  simp only [act]
  split
  · split
    · right; simp [Conn.queue, enqueue]
    · left; right; simp
  · rename_i hg; left; left; left
    have := hl.established
    cases hs : c.st <;> simp_all [forceCloseDelayAccepts]

theorem forceCloseDelay_life (c : Conn) (f : Bool) (us : Nat) (hl : LifeInv c) :
    LifeInv (act c f (.forceCloseDelay us)) := by
  cases ha : c.alive with
  | true => exact act_life _ _ _ ha hl
  | false =>
    have hd := hl.gone_down ha
    have : act c f (.forceCloseDelay us) = c := by simp [act, forceCloseDelayAccepts, hd]
    rw [this]; exact hl

theorem advance_life (c : Conn) (d : Nat) (hl : LifeInv c) : LifeInv (step c (.advance d)) :=
  hl.frame ⟨rfl, rfl, rfl, rfl, rfl, rfl, rfl, rfl, rfl, rfl⟩

/-- **C02 progress, delayed close on the loop thread.** `forceCloseWithDelay(us)` called on the loop
thread, the clock advanced by at least `us`, then ONE iteration in which the poller reports the timer
descriptor (together with anything else): the connection is down. -/
theorem delayed_close_brings_down (c : Conn) (us d : Nat) (a : List Src) (hl : LifeInv c) (hd : us ≤ d)
    (hm : Src.timer ∈ a) :
    (iter (step (act c false (.forceCloseDelay us)) (.advance d)) a).st = .kDisconnected := by
  have hl1 := forceCloseDelay_life c false us hl
  have harm : Armed (c.now + us) (act c false (.forceCloseDelay us)) := by
    -- on the loop thread `runAfter` arms the timer at once
    simp only [act]
    split
    · right; simp
    · rename_i hg; left; left
      have := hl.established
      cases hs : c.st <;> simp_all [forceCloseDelayAccepts]
  have hnow : (act c false (.forceCloseDelay us)).now = c.now := (act_grow c false _).mono.now
  apply armed_iter_down _ a (c.now + us) (advance_life _ d hl1) harm _ hm
  show c.now + us ≤ (act c false (.forceCloseDelay us)).now + d
  rw [hnow]; omega

/-- **C02 progress, delayed close from another thread.** `forceCloseWithDelay(us)` called on a
thread other than the loop's: the first iteration (any poll result `a1`) arms the timer in its functor
phase; once the clock has advanced by at least `us`, the iteration in which the poller reports the
timer descriptor brings the connection down.  Two iterations, and the first one is needed
(`delayed_close_foreign_needs_two`). -/
theorem delayed_close_foreign_brings_down (c : Conn) (us d : Nat) (a1 a2 : List Src) (hl : LifeInv c)
    (hd : us ≤ d) (hm : Src.timer ∈ a2) :
    (iter (step (iter (act c true (.forceCloseDelay us)) a1) (.advance d)) a2).st = .kDisconnected := by
  have hl1 := forceCloseDelay_life c true us hl
  have harm := iter_arms _ a1 _ hl1 (forceCloseDelay_arming c true us hl)
  have hl2 := iter_life _ a1 hl1
  have hnow : (iter (act c true (.forceCloseDelay us)) a1).now = c.now := by
    rw [iter_now]; exact (act_grow c true _).mono.now
  apply armed_iter_down _ a2 (c.now + us) (advance_life _ d hl2) harm _ hm
  show c.now + us ≤ (iter (act c true (.forceCloseDelay us)) a1).now + d
  rw [hnow]; omega

/-! ### 5a. the half-close (FIN) is sent in the next iteration once nothing is left to write -/

/-- a half-close is queued in front of every queued `sendInLoop` -/
def finNext : List Task → Bool
  | [] => false
  | t :: r => t.isShut || (!t.isSend && finNext r)

theorem finNext_append (l s : List Task) (h : finNext l = true) : finNext (l ++ s) = true := by
  induction l with
  | nil => cases h
  | cons t r ih =>
    simp only [List.cons_append, finNext, Bool.or_eq_true, Bool.and_eq_true] at h ⊢
    rcases h with h | ⟨h1, h2⟩
    · exact Or.inl h
    · exact Or.inr ⟨h1, ih h2⟩

theorem finNext_of_all (l : List Task) (h1 : l.all (fun t => !t.isSend) = true) (h2 : ∃ t ∈ l, t.isShut = true) :
    finNext l = true := by
  induction l with
  | nil => obtain ⟨t, ht, _⟩ := h2; cases ht
  | cons a r ih =>
    simp only [List.all_cons, Bool.and_eq_true] at h1
    simp only [finNext, Bool.or_eq_true, Bool.and_eq_true]
    obtain ⟨t, ht, hs⟩ := h2
    rcases List.mem_cons.mp ht with e | e
    · subst e; exact Or.inl hs
    · exact Or.inr ⟨h1.1, ih h1.2 ⟨t, e, hs⟩⟩

/-- no write interest, and the state no longer accepts `send()` -/
def NoWr (c : Conn) : Prop := c.ch.evWrite = false ∧ c.st ≠ .kConnected

theorem NoWr.of {c c' : Conn} (h : NoWr c) (hg : Mono c c') (hw : c'.ch.evWrite = c.ch.evWrite) : NoWr c' :=
  ⟨hw.trans h.1, fun hc => h.2 (hg.notConn hc)⟩

theorem NoWr.of' {c c' : Conn} (h : NoWr c) (hg : Mono c c') (hw : c'.ch.evWrite = false) : NoWr c' :=
  ⟨hw, fun hc => h.2 (hg.notConn hc)⟩

/-- a user operation in a state that is not `kConnected` does not touch write interest
(`send()` and `shutdown()` are refused) -/
theorem act_evWrite (c : Conn) (f : Bool) (a : Act) (h : c.st ≠ .kConnected) :
    (act c f a).ch.evWrite = c.ch.evWrite := by
  cases a with
  | send d => simp only [act]; rw [if_neg (show ¬ sendAcceptsPiece c.st from h)]
  | shutdown => simp only [act]; rw [if_neg (show ¬ shutdownAccepts c.st from h)]
  | forceClose =>
    simp only [act]; split
    · unfold handOff; split <;> rfl
    · rfl
  | forceCloseDelay us =>
    simp only [act]; split
    · split <;> rfl
    · rfl
  | stopRead =>
    simp only [act]; unfold handOff; split
    · rfl
    · unfold stopReadInLoop; split
      · simp [disableReading, setEvents, chanUpdate_evWrite]
      · rfl
  | startRead =>
    simp only [act]; unfold handOff; split
    · rfl
    · unfold startReadInLoop; split
      · simp [enableReading, setEvents, chanUpdate_evWrite]
      · rfl
  | setWc k => rfl
  | setHwm k m => rfl

theorem callback_evWrite (c : Conn) (k : Cb) (e : Ev) (h : c.st ≠ .kConnected) :
    (callback c k e).ch.evWrite = c.ch.evWrite := by
  unfold callback; split
  · unfold actLoop; rw [act_evWrite _ _ _ (by exact h)]; rfl
  · rfl

theorem act_nowr (c : Conn) (f : Bool) (a : Act) (h : NoWr c) : NoWr (act c f a) :=
  h.of (act_grow c f a).mono (act_evWrite c f a h.2)

theorem callback_nowr (c : Conn) (k : Cb) (e : Ev) (h : NoWr c) : NoWr (callback c k e) :=
  h.of (callback_grow c k e).mono (callback_evWrite c k e h.2)

theorem handleClose_nowr (c : Conn) (h : NoWr c) : NoWr (handleClose c) := by
  apply h.of' (handleClose_grow c).mono
  unfold handleClose; split
  · exact h.1
  · show (callback (disableAll { c with st := .kDisconnected }) .down .down).ch.evWrite = false
    rw [callback_evWrite _ _ _ (by simp [disableAll, setEvents])]
    simp [disableAll, setEvents, chanUpdate_evWrite]

theorem handleReadRes_nowr (c : Conn) (r : ReadRes) (h : NoWr c) : NoWr (handleReadRes c r) := by
  unfold handleReadRes
  split
  · exact handleClose_nowr _ h
  · rename_i n
    simp only
    have hd : NoWr (deliver c (n + 1)) := h
    exact callback_nowr _ _ _ hd
  · exact h

theorem handleRead_nowr (c : Conn) (h : NoWr c) : NoWr (handleRead c) := by
  unfold handleRead
  apply handleReadRes_nowr
  exact ⟨(popRead_same c).evWrite.trans h.1, by
    show (popRead c).st ≠ _; rw [(popRead_same c).st]; exact h.2⟩

theorem handleWrite_nowr (c : Conn) (h : NoWr c) : NoWr (handleWrite c) := by
  unfold handleWrite; rw [if_neg (by simp [handleWriteActs, h.1])]; exact h

theorem guarded_nowr (f : Conn → Conn) (hf : ∀ c, NoWr c → NoWr (f c)) (rev : Prop) [Decidable rev]
    (sub : Bool → Bool → Bool → Prop) [∀ a b c, Decidable (sub a b c)] (c : Conn) (h : NoWr c) :
    NoWr (guarded f rev sub c) := by
  unfold guarded; split
  · exact hf c h
  · exact h

theorem handleEvent_nowr (c : Conn) (r : Nat) (h : NoWr c) : NoWr (handleEvent c r) := by
  unfold handleEvent
  split
  · exact h
  · exact guarded_nowr _ handleWrite_nowr _ _ _
      (guarded_nowr _ handleRead_nowr _ _ _ (guarded_nowr _ handleClose_nowr _ _ _ h))

theorem fireDelay_nowr (c : Conn) (h : NoWr c) : NoWr (fireDelay c) := by
  unfold fireDelay; split
  · exact act_nowr _ _ _ h
  · exact h

theorem fireN_nowr (n : Nat) (c : Conn) (h : NoWr c) : NoWr (fireN c n) := by
  induction n generalizing c with
  | zero => exact h
  | succ n ih => exact ih _ (fireDelay_nowr _ h)

theorem fireTimers_nowr (c : Conn) (h : NoWr c) : NoWr (fireTimers c) := by
  unfold fireTimers; exact fireN_nowr _ _ h

theorem dispatch_nowr (c : Conn) (s : Src) (h : NoWr c) : NoWr (dispatch c s) := by
  cases s with
  | conn r => simp only [dispatch]; split; exact h; exact handleEvent_nowr _ _ h
  | timer => simp only [dispatch]; split; exact h; exact fireTimers_nowr _ h

theorem foldl_dispatch_nowr (l : List Src) (c : Conn) (h : NoWr c) : NoWr (l.foldl dispatch c) := by
  induction l generalizing c with
  | nil => exact h
  | cons s rest ih => exact ih _ (dispatch_nowr _ _ h)

theorem removeChannel_evWrite (c : Conn) : (removeChannel c).ch.evWrite = c.ch.evWrite := by
  unfold removeChannel; split <;> rfl

theorem connectDestroyed_nowr (c : Conn) (h : NoWr c) : NoWr (connectDestroyed c) := by
  apply h.of' (connectDestroyed_grow c).mono
  unfold connectDestroyed; split
  · rw [removeChannel_evWrite, callback_evWrite _ _ _ (by simp [disableAll, setEvents])]
    simp [disableAll, setEvents, chanUpdate_evWrite]
  · rw [removeChannel_evWrite]; exact h.1

/-- a functor other than `sendInLoop` does not turn write interest on -/
theorem runTask_nowr (c : Conn) (t : Task) (ht : t.isSend = false) (h : NoWr c) : NoWr (runTask c t) := by
  unfold runTask
  split
  · split
    · exact h
    · split
      · exact h
      · exact h
  · cases t with
    | sendInLoop d => cases ht
    | shutdownInLoop => simp only; unfold shutdownInLoop; split; exact h; exact h
    | drainShutdownInLoop => simp only; unfold shutdownInLoop; split; exact h; exact h
    | forceCloseInLoop => simp only; split; exact handleClose_nowr _ h; exact h
    | connectDestroyed => exact connectDestroyed_nowr _ h
    | writeComplete => exact callback_nowr _ _ _ h
    | highWater n => exact callback_nowr _ _ _ h
    | startReadInLoop =>
      simp only; unfold startReadInLoop; split
      · exact ⟨by simp [enableReading, setEvents, chanUpdate_evWrite, h.1], h.2⟩
      · exact h
    | stopReadInLoop =>
      simp only; unfold stopReadInLoop; split
      · exact ⟨by simp [disableReading, setEvents, chanUpdate_evWrite, h.1], h.2⟩
      · exact h
    | addDelayTimer d => exact h

/-- the half-close has been done, or will be done by the next `shutdownInLoop` that runs -/
def FinReady (c : Conn) : Prop := c.shutWr = true ∨ NoWr c

/-- `shutdownInLoop` (from `shutdown()` or from the drain path of `handleWrite`) on an existing
connection without write interest calls `shutdownWrite` -/
theorem runTask_shut (c : Conn) (t : Task) (ha : c.alive = true) (ht : t.isShut = true) (hp : FinReady c) :
    (runTask c t).shutWr = true := by
  have key : (shutdownInLoop c).shutWr = true := by
    unfold shutdownInLoop
    rcases hp with hp | hp
    · split
      · rfl
      · exact hp
    · rw [if_pos (by simp [shutdownNow, hp.1])]; rfl
  unfold runTask
  rw [if_neg (by simp [ha])]
  cases t with
  | shutdownInLoop => exact key
  | drainShutdownInLoop => exact key
  | _ => cases ht

theorem runBatch_fin (n : Nat) (c : Conn) (hl : LifeInv c) (ha : c.alive = true) (hn : c.batch.length ≤ n)
    (hp : FinReady c) (hs : c.shutWr = true ∨ finNext c.batch = true) : (runBatch n c).shutWr = true := by
  induction n generalizing c with
  | zero =>
    rcases hs with hs | hs
    · exact hs
    · have : c.batch = [] := List.eq_nil_of_length_eq_zero (by omega)
      rw [this] at hs; cases hs
  | succ n ih =>
    unfold runBatch
    rw [if_neg (by simp [hl.notDead])]
    split
    · rename_i hb
      rcases hs with hs | hs
      · exact hs
      · rw [hb] at hs; cases hs
    · rename_i t rest hb
      have hl' := runTask_life c t rest hb hl
      have hg := (runTask_grow { c with batch := rest } t).mono
      have hn' : (runTask { c with batch := rest } t).batch.length ≤ n := by
        rw [hg.batch]; rw [hb] at hn; simpa using hn
      have ha' : (runTask { c with batch := rest } t).alive = true := hg.alive.trans ha
      have hdone : (runTask { c with batch := rest } t).shutWr = true →
          (runBatch n (runTask { c with batch := rest } t)).shutWr = true :=
        fun h => ih _ hl' ha' hn' (Or.inl h) (Or.inl h)
      rcases hs with hs | hs
      · exact hdone (hg.shut hs)
      · rw [hb] at hs
        simp only [finNext, Bool.or_eq_true, Bool.and_eq_true, Bool.not_eq_true'] at hs
        rcases hs with hs | ⟨h1, h2⟩
        · exact hdone (runTask_shut _ t ha hs hp)
        · apply ih _ hl' ha' hn'
          · rcases hp with hp | hp
            · exact Or.inl (hg.shut hp)
            · exact Or.inr (runTask_nowr _ t h1 hp)
          · right; rw [hg.batch]; exact h2

theorem maybeDestroy_shutWr (c : Conn) : (maybeDestroy c).shutWr = c.shutWr := by
  unfold maybeDestroy; (repeat' split) <;> rfl

/-- **C03 progress.** The connection exists, is no longer `kConnected` (`shutdown()` was called),
nothing is left in the output buffer, and a half-close functor (`shutdownInLoop` queued by `shutdown()`,
or the one queued by the drain path of `handleWrite`) stands in the queue in front of every queued
`sendInLoop`: then after ONE iteration — with any poll result, whatever the callbacks do — the write side
has been shut down (the FIN is sent). -/
theorem fin_progress (c : Conn) (a : List Src) (hl : LifeInv c) (hf : FlowInv c) (hst : c.st ≠ .kConnected)
    (ha : c.alive = true) (ho : c.outBuf = []) (hq : finNext c.queue = true) : (iter c a).shutWr = true := by
  have hw : c.ch.evWrite = false := by
    by_cases hd : c.st = .kDisconnected
    · exact (hl.quiet hd).2
    · have := hf.wi hd
      rw [ho] at this
      cases he : c.ch.evWrite with
      | false => rfl
      | true => exact absurd rfl (this.mp he)
  have hnw : NoWr c := ⟨hw, hst⟩
  unfold iter
  rw [if_neg (by simp [hl.notDead])]
  simp only
  have hm := foldl_dispatch_mono a c
  have hl1 := foldl_dispatch_life a c hl
  have h1 : (drainPending (a.foldl dispatch c)).shutWr = true := by
    unfold drainPending
    apply runBatch_fin _ _ (swapped_life _ hl1) (hm.alive.trans ha) (Nat.le_refl _)
      (Or.inr (foldl_dispatch_nowr a c hnw))
    right
    obtain ⟨s, e⟩ := hm.pend
    show finNext ((a.foldl dispatch c).batch ++ (a.foldl dispatch c).pending) = true
    rw [hm.batch, e, ← List.append_assoc]
    exact finNext_append _ _ hq
  split
  · exact h1
  · rw [maybeDestroy_shutWr]; exact h1

/-- the same in the terms of the task: state `kDisconnecting`, a half-close queued, no `sendInLoop` queued -/
theorem fin_progress' (c : Conn) (a : List Src) (hl : LifeInv c) (hf : FlowInv c) (hst : c.st = .kDisconnecting)
    (ho : c.outBuf = []) (hq : c.queue.all (fun t => !t.isSend) = true) (hs : ∃ t ∈ c.queue, t.isShut = true) :
    (iter c a).shutWr = true :=
  fin_progress c a hl hf (by rw [hst]; simp) (hl.upFacts (by rw [hst]; simp)).2.1 ho (finNext_of_all _ hq hs)

/-- `shutdown()` with nothing left to write (on any thread): the FIN is sent in the next iteration -/
theorem shutdown_sends_fin (c : Conn) (f : Bool) (a : List Src) (hl : LifeInv c) (hf : FlowInv c)
    (hst : c.st = .kConnected) (ho : c.outBuf = []) (hq : c.queue.all (fun t => !t.isSend) = true) :
    (iter (act c f .shutdown) a).shutWr = true := by
  have hal := (hl.upFacts (by rw [hst]; simp)).2.1
  have he : act c f .shutdown = enqueue { c with st := .kDisconnecting } .shutdownInLoop := by
    simp only [act]; rw [if_pos (show shutdownAccepts c.st from hst), shutdown_queued]
  have hl' := act_life c f .shutdown hal hl
  have hf' := act_flow c f .shutdown hf
  rw [he] at hl' hf' ⊢
  apply fin_progress' _ a hl' hf' rfl ho
  · rw [queue_enqueue]; exact all_snoc _ _ _ hq rfl
  · exact ⟨.shutdownInLoop, by rw [queue_enqueue]; simp, rfl⟩

/-! ### 5b. the backlog drains under fair write results -/

theorem callback_nohook (c : Conn) (k : Cb) (e : Ev) (h : c.hooks = []) : callback c k e = emit c e := by
  unfold callback; rw [h]; rfl

/-- functors that neither send, nor close, nor destroy -/
def calmTask : Task → Bool
  | .sendInLoop _ | .forceCloseInLoop | .connectDestroyed => false
  | _ => true

theorem calm_notSend (l : List Task) (h : l.all calmTask = true) : l.all (fun t => !t.isSend) = true := by
  rw [List.all_eq_true] at h ⊢
  intro t ht
  have := h t ht
  cases t <;> simp_all [calmTask, Task.isSend]

/-- `c'` has the backlog, the callback scripts and the batch of `c` -/
structure SameOut (c c' : Conn) : Prop where
  outBuf : c'.outBuf = c.outBuf
  hooks : c'.hooks = c.hooks
  batch : c'.batch = c.batch

/-- without callback scripts, a functor other than `sendInLoop` leaves the backlog alone -/
theorem runTask_sameOut (c : Conn) (t : Task) (hh : c.hooks = []) (ht : t.isSend = false) :
    SameOut c (runTask c t) := by
  unfold runTask
  split
  · split
    · exact ⟨rfl, rfl, rfl⟩
    · split <;> exact ⟨rfl, rfl, rfl⟩
  · cases t with
    | sendInLoop d => cases ht
    | shutdownInLoop => simp only; unfold shutdownInLoop; split <;> exact ⟨rfl, rfl, rfl⟩
    | drainShutdownInLoop => simp only; unfold shutdownInLoop; split <;> exact ⟨rfl, rfl, rfl⟩
    | forceCloseInLoop =>
      simp only; split
      · unfold handleClose; split
        · exact ⟨rfl, rfl, rfl⟩
        · rw [callback_nohook _ _ _ (by exact hh)]; exact ⟨rfl, rfl, rfl⟩
      · exact ⟨rfl, rfl, rfl⟩
    | connectDestroyed =>
      simp only; unfold connectDestroyed; split
      · rw [callback_nohook _ _ _ (by exact hh)]; unfold removeChannel; split <;> exact ⟨rfl, rfl, rfl⟩
      · unfold removeChannel; split <;> exact ⟨rfl, rfl, rfl⟩
    | writeComplete => simp only; rw [callback_nohook _ _ _ hh]; exact ⟨rfl, rfl, rfl⟩
    | highWater n => simp only; rw [callback_nohook _ _ _ hh]; exact ⟨rfl, rfl, rfl⟩
    | startReadInLoop => simp only; unfold startReadInLoop; split <;> exact ⟨rfl, rfl, rfl⟩
    | stopReadInLoop => simp only; unfold stopReadInLoop; split <;> exact ⟨rfl, rfl, rfl⟩
    | addDelayTimer d => exact ⟨rfl, rfl, rfl⟩

theorem runBatch_sameOut (n : Nat) (c : Conn) (hh : c.hooks = []) (hq : c.batch.all (fun t => !t.isSend) = true) :
    (runBatch n c).outBuf = c.outBuf := by
  induction n generalizing c with
  | zero => rfl
  | succ n ih =>
    unfold runBatch; split
    · rfl
    · split
      · rfl
      · rename_i t rest hb
        rw [hb] at hq
        simp only [List.all_cons, Bool.and_eq_true, Bool.not_eq_true'] at hq
        have hs := runTask_sameOut ({ c with batch := rest } : Conn) t hh hq.1
        rw [ih _ (hs.hooks.trans hh) (by rw [hs.batch]; exact hq.2)]
        exact hs.outBuf

theorem afterDrain_fields (c : Conn) :
    (afterDrain c).st = c.st ∧ (afterDrain c).hooks = c.hooks ∧ (afterDrain c).batch = c.batch ∧
    (afterDrain c).writes = c.writes := by
  unfold afterDrain handOff shutdownInLoop; simp only []; (repeat' split) <;> exact ⟨rfl, rfl, rfl, rfl⟩

theorem afterDrain_calm (c : Conn) : ∃ s, (afterDrain c).pending = c.pending ++ s ∧ s.all calmTask = true := by
  rw [afterDrain_sched]
  refine ⟨_, List.append_assoc _ _ _, ?_⟩
  by_cases h1 : c.hasWC = true <;> by_cases h2 : c.st = .kDisconnecting <;> simp [h1, h2, calmTask]

/-- `handleWrite` with write interest on and the kernel taking `n+1` bytes -/
theorem handleWrite_took (c : Conn) (n : Nat) (ws : List WriteRes) (hw : c.ch.evWrite = true)
    (hws : c.writes = .took (n+1) :: ws) :
    (handleWrite c).outBuf = c.outBuf.drop (n+1) ∧ (handleWrite c).hooks = c.hooks ∧
    (handleWrite c).batch = c.batch ∧ (handleWrite c).st = c.st ∧ (handleWrite c).writes = ws ∧
    ∃ s, (handleWrite c).pending = c.pending ++ s ∧ s.all calmTask = true := by
  have hp : peekWrite c = .took (n+1) := by simp [peekWrite, hws]
  have hpop : popWrite c = { c with writes := ws } := by simp only [popWrite, hws]
  unfold handleWrite
  rw [if_pos (show handleWriteActs c.ch.evWrite from hw), hp, hpop]
  simp only [handleWriteRes]
  split
  · obtain ⟨f1, f2, f3, f4⟩ := afterDrain_fields
      ({ emit ({ c with writes := ws } : Conn) (.sysWrite c.outBuf.length (.took (n+1))) with
          wrote := c.wrote ++ c.outBuf.take (n+1), outBuf := c.outBuf.drop (n+1) } : Conn)
    obtain ⟨s, e, hs⟩ := afterDrain_calm
      ({ emit ({ c with writes := ws } : Conn) (.sysWrite c.outBuf.length (.took (n+1))) with
          wrote := c.wrote ++ c.outBuf.take (n+1), outBuf := c.outBuf.drop (n+1) } : Conn)
    exact ⟨afterDrain_outBuf _, f2, f3, f1, f4, s, e, hs⟩
  · exact ⟨rfl, rfl, rfl, rfl, rfl, [], by simp [emit], rfl⟩

/-- the poller reports POLLOUT only: the write handler runs iff write interest is on -/
theorem handleEvent_pollout (c : Conn) (ha : c.alive = true) (hd : c.dead = false) :
    handleEvent c 4 = if c.ch.evWrite = true then handleWrite c else c := by
  have h1 : ¬ dispClose 4 := by decide
  have h2 : ¬ dispRead 4 := by decide
  have h3 : dispWrite 4 := by decide
  unfold handleEvent
  rw [if_neg (by simp [ha])]
  simp only [guarded, h1, h2, h3, false_and, if_false, true_and, dispWriteSub, and_true, hd]

/-- an iteration in which the poller reports the connection's descriptor only -/
theorem iter_single (c : Conn) (r : Nat) (hd : c.dead = false) :
    iter c [.conn r] = if (drainPending (handleEvent c r)).dead then drainPending (handleEvent c r)
      else maybeDestroy (drainPending (handleEvent c r)) := by
  have h : [Src.conn r].foldl dispatch c = handleEvent c r := by
    simp only [List.foldl, dispatch]; rw [if_neg (by simp [hd])]
  unfold iter
  rw [if_neg (by simp [hd])]
  simp only []
  rw [h]

theorem maybeDestroy_outBuf (c : Conn) : (maybeDestroy c).outBuf = c.outBuf := by
  unfold maybeDestroy; (repeat' split) <;> rfl

/-- **C01 progress, one step.** A backlog, write interest on (`FlowInv`), no `sendInLoop` queued and
no callback scripts: the iteration in which the poller reports writability and the kernel takes
`n+1` bytes shortens the backlog by `n+1` bytes (to nothing if it was shorter). -/
theorem drain_step (c : Conn) (n : Nat) (ws : List WriteRes) (hl : LifeInv c) (hf : FlowInv c)
    (hu : c.st ≠ .kDisconnected) (hne : c.outBuf ≠ []) (hws : c.writes = .took (n+1) :: ws)
    (hq : c.queue.all (fun t => !t.isSend) = true) (hh : c.hooks = []) :
    (iter c [.conn 4]).outBuf = c.outBuf.drop (n+1) := by
  have hw : c.ch.evWrite = true := (hf.wi hu).mpr hne
  obtain ⟨_, ha, _⟩ := hl.upFacts hu
  obtain ⟨g1, g2, g3, _, _, s, e, hs⟩ := handleWrite_took c n ws hw hws
  rw [iter_single c 4 hl.notDead, handleEvent_pollout c ha hl.notDead, if_pos hw]
  have h1 : (drainPending (handleWrite c)).outBuf = c.outBuf.drop (n+1) := by
    unfold drainPending
    rw [runBatch_sameOut _ _ (by exact g2.trans hh)]
    · exact g1
    · show ((handleWrite c).batch ++ (handleWrite c).pending).all (fun t => !t.isSend) = true
      rw [g3, e, ← List.append_assoc, List.all_append, Bool.and_eq_true]
      exact ⟨hq, calm_notSend _ hs⟩
  split
  · exact h1
  · rw [maybeDestroy_outBuf]; exact h1

/-- `c'` is `c` as far as draining the backlog is concerned -/
structure Calm (c c' : Conn) : Prop where
  st : c'.st = c.st
  outBuf : c'.outBuf = c.outBuf
  hooks : c'.hooks = c.hooks
  writes : c'.writes = c.writes
  pending : c'.pending = c.pending
  batch : c'.batch = c.batch

theorem runTask_calm (c : Conn) (t : Task) (hh : c.hooks = []) (ht : calmTask t = true) (ha : c.alive = true) :
    Calm c (runTask c t) := by
  unfold runTask
  rw [if_neg (by simp [ha])]
  cases t with
  | sendInLoop d => cases ht
  | forceCloseInLoop => cases ht
  | connectDestroyed => cases ht
  | shutdownInLoop => simp only; unfold shutdownInLoop; split <;> exact ⟨rfl, rfl, rfl, rfl, rfl, rfl⟩
  | drainShutdownInLoop => simp only; unfold shutdownInLoop; split <;> exact ⟨rfl, rfl, rfl, rfl, rfl, rfl⟩
  | writeComplete => simp only; rw [callback_nohook _ _ _ hh]; exact ⟨rfl, rfl, rfl, rfl, rfl, rfl⟩
  | highWater n => simp only; rw [callback_nohook _ _ _ hh]; exact ⟨rfl, rfl, rfl, rfl, rfl, rfl⟩
  | startReadInLoop => simp only; unfold startReadInLoop; split <;> exact ⟨rfl, rfl, rfl, rfl, rfl, rfl⟩
  | stopReadInLoop => simp only; unfold stopReadInLoop; split <;> exact ⟨rfl, rfl, rfl, rfl, rfl, rfl⟩
  | addDelayTimer d => exact ⟨rfl, rfl, rfl, rfl, rfl, rfl⟩

/-- a batch of calm functors runs to its end and changes nothing the drain path reads -/
theorem runBatch_calm (n : Nat) (c : Conn) (hl : LifeInv c) (hh : c.hooks = []) (ha : c.alive = true)
    (hq : c.batch.all calmTask = true) (hn : c.batch.length ≤ n) :
    (runBatch n c).st = c.st ∧ (runBatch n c).outBuf = c.outBuf ∧ (runBatch n c).hooks = [] ∧
    (runBatch n c).writes = c.writes ∧ (runBatch n c).pending = c.pending ∧ (runBatch n c).batch = [] := by
  induction n generalizing c with
  | zero =>
    have hb : c.batch = [] := List.eq_nil_of_length_eq_zero (by omega)
    exact ⟨rfl, rfl, hh, rfl, rfl, hb⟩
  | succ n ih =>
    unfold runBatch
    rw [if_neg (by simp [hl.notDead])]
    split
    · rename_i hb; exact ⟨rfl, rfl, hh, rfl, rfl, hb⟩
    · rename_i t rest hb
      rw [hb] at hq hn
      simp only [List.all_cons, Bool.and_eq_true] at hq
      have hk := runTask_calm ({ c with batch := rest } : Conn) t hh hq.1 ha
      have hg := (runTask_grow ({ c with batch := rest } : Conn) t).mono
      obtain ⟨r1, r2, r3, r4, r5, r6⟩ := ih _ (runTask_life c t rest hb hl) (hk.hooks.trans hh) (hg.alive.trans ha)
        (by rw [hk.batch]; exact hq.2) (by rw [hk.batch]; simpa using hn)
      exact ⟨r1.trans hk.st, r2.trans hk.outBuf, r3, r4.trans hk.writes, r5.trans hk.pending, r6⟩

theorem maybeDestroy_up (c : Conn) (hl : LifeInv c) (hu : c.st ≠ .kDisconnected) : maybeDestroy c = c := by
  obtain ⟨_, _, ho⟩ := hl.upFacts hu
  unfold maybeDestroy; rw [if_neg (by simp [ho])]

/-- an iteration that reports POLLOUT only, when what the write handler leaves behind is calm -/
theorem iter_pollout_calm (c c1 : Conn) (hl : LifeInv c) (hc1 : handleEvent c 4 = c1)
    (hu1 : c1.st ≠ .kDisconnected) (hh1 : c1.hooks = []) (hq1 : c1.queue.all calmTask = true) :
    (iter c [.conn 4]).st = c1.st ∧ (iter c [.conn 4]).outBuf = c1.outBuf ∧ (iter c [.conn 4]).hooks = [] ∧
    (iter c [.conn 4]).writes = c1.writes ∧ (iter c [.conn 4]).queue = [] := by
  have hl1 : LifeInv c1 := hc1 ▸ handleEvent_life c 4 hl
  obtain ⟨_, ha1, _⟩ := hl1.upFacts hu1
  rw [iter_single c 4 hl.notDead, hc1]
  have hl2 : LifeInv (drainPending c1) := drainPending_life _ hl1
  obtain ⟨r1, r2, r3, r4, r5, r6⟩ := runBatch_calm (c1.batch ++ c1.pending).length
    ({ c1 with pending := [], batch := c1.batch ++ c1.pending } : Conn) (swapped_life _ hl1) hh1 ha1 hq1 (Nat.le_refl _)
  have e : drainPending c1 = runBatch (c1.batch ++ c1.pending).length
    ({ c1 with pending := [], batch := c1.batch ++ c1.pending } : Conn) := rfl
  rw [← e] at r1 r2 r3 r4 r5 r6
  have hu2 : (drainPending c1).st ≠ .kDisconnected := by rw [r1]; exact hu1
  rw [if_neg (by simp [hl2.notDead]), maybeDestroy_up _ hl2 hu2]
  refine ⟨r1, r2, r3, r4, ?_⟩
  unfold Conn.queue; rw [r6, r5]; rfl

/-- every scripted write result takes at least one byte -/
def Fair (ws : List WriteRes) : Prop := ∀ r ∈ ws, ∃ n, r = WriteRes.took (n+1)

/-- a connection that is up and only has its backlog to write: no send, close or destruction is
queued, no callback scripts, and the environment is fair (every `write` takes at least one byte; at
least as many results are scripted as there are bytes) -/
structure Draining (c : Conn) : Prop where
  life : LifeInv c
  flow : FlowInv c
  up : c.st ≠ .kDisconnected
  calm : c.queue.all calmTask = true
  nohooks : c.hooks = []
  fair : Fair c.writes
  enough : c.outBuf.length ≤ c.writes.length

theorem draining_step (c : Conn) (hd : Draining c) :
    Draining (iter c [.conn 4]) ∧ (iter c [.conn 4]).outBuf.length ≤ c.outBuf.length - 1 := by
  obtain ⟨_, ha, _⟩ := hd.life.upFacts hd.up
  have hl' := iter_life c [.conn 4] hd.life
  have hf' := iter_flow c [.conn 4] hd.flow
  by_cases ho : c.outBuf = []
  · have hw : ¬ c.ch.evWrite = true := fun h => (hd.flow.wi hd.up).mp h ho
    have hc1 : handleEvent c 4 = c := by rw [handleEvent_pollout c ha hd.life.notDead, if_neg hw]
    obtain ⟨r1, r2, r3, r4, r5⟩ := iter_pollout_calm c c hd.life hc1 hd.up hd.nohooks hd.calm
    refine ⟨⟨hl', hf', by rw [r1]; exact hd.up, by rw [r5]; rfl, r3, by rw [r4]; exact hd.fair, ?_⟩, ?_⟩
    · rw [r2, r4]; exact hd.enough
    · rw [r2, ho]; simp
  · have hne : c.outBuf ≠ [] := ho
    have hpos : 0 < c.outBuf.length := List.length_pos_iff.mpr hne
    have hw : c.ch.evWrite = true := (hd.flow.wi hd.up).mpr hne
    have hen := hd.enough
    cases hws : c.writes with
    | nil => rw [hws] at hen; exact absurd (by simpa using hen) hne
    | cons r ws =>
      obtain ⟨n, hr⟩ := hd.fair r (by rw [hws]; simp)
      subst hr
      obtain ⟨g1, g2, g3, g4, g5, s, e, hs⟩ := handleWrite_took c n ws hw hws
      have hc1 : handleEvent c 4 = handleWrite c := by rw [handleEvent_pollout c ha hd.life.notDead, if_pos hw]
      have hq1 : (handleWrite c).queue.all calmTask = true := by
        unfold Conn.queue; rw [g3, e, ← List.append_assoc, List.all_append, Bool.and_eq_true]
        exact ⟨hd.calm, hs⟩
      obtain ⟨r1, r2, r3, r4, r5⟩ := iter_pollout_calm c _ hd.life hc1 (by rw [g4]; exact hd.up)
        (g2.trans hd.nohooks) hq1
      have hlen : (iter c [.conn 4]).outBuf.length = c.outBuf.length - (n+1) := by
        rw [r2, g1, List.length_drop]
      refine ⟨⟨hl', hf', by rw [r1, g4]; exact hd.up, by rw [r5]; rfl, r3, ?_, ?_⟩, ?_⟩
      · rw [r4, g5]; intro r hr; exact hd.fair r (by rw [hws]; exact List.mem_cons_of_mem _ hr)
      · rw [hlen, r4, g5]; rw [hws] at hen; simp at hen; omega
      · rw [hlen]; omega

/-- `k` consecutive iterations in each of which the poller reports writability only -/
def pollOut (c : Conn) : Nat → Conn
  | 0 => c
  | k+1 => pollOut (iter c [.conn 4]) k

/-- **C01 progress.** Under the fairness hypothesis (every iteration reports writability and the
kernel takes at least one byte) a backlog of at most `k` bytes is written out after `k` iterations,
provided nothing else interferes (`Draining`). -/
theorem drain_progress (k : Nat) (c : Conn) (hd : Draining c) (hk : c.outBuf.length ≤ k) :
    (pollOut c k).outBuf = [] ∧ Draining (pollOut c k) := by
  induction k generalizing c with
  | zero =>
    have h0 : c.outBuf = [] := List.eq_nil_of_length_eq_zero (by omega)
    exact ⟨h0, hd⟩
  | succ k ih =>
    obtain ⟨h1, h2⟩ := draining_step c hd
    exact ih _ h1 (by omega)

/-! ### 2 + 4. from `forceClose()` to the destruction of the object -/

/-- going down and being released go together: a connection that is down, or whose
`connectDestroyed` is queued, has been dropped by its owner.  (An invariant of every reachable
state: `reach_downRel`.) -/
structure DownRel (c : Conn) : Prop where
  down : c.st = .kDisconnected → c.owner = false
  cd : Task.connectDestroyed ∈ c.queue → c.owner = false

/-- `c'` was obtained from `c` by code that releases the connection whenever it brings it down
or queues `connectDestroyed` -/
structure Keeps (c c' : Conn) : Prop where
  owner : c.owner = false → c'.owner = false
  rel : c'.st = .kDisconnected → c'.owner = true → c.st = .kDisconnected
  cd : Task.connectDestroyed ∈ c'.pending → c'.owner = true → Task.connectDestroyed ∈ c.pending
  batch : c'.batch = c.batch

theorem Keeps.rfl' (c : Conn) : Keeps c c := ⟨id, fun h _ => h, fun h _ => h, rfl⟩

theorem Keeps.same {c c' : Conn} (h1 : c'.owner = c.owner) (h2 : c'.st = c.st) (h3 : c'.pending = c.pending)
    (h4 : c'.batch = c.batch) : Keeps c c' :=
  ⟨fun h => h1.trans h, fun h _ => h2 ▸ h, fun h _ => h3 ▸ h, h4⟩

theorem Keeps.released {c c' : Conn} (h : c'.owner = false) (hb : c'.batch = c.batch) : Keeps c c' :=
  ⟨fun _ => h, (fun _ h' => by rw [h] at h'; cases h'), (fun _ h' => by rw [h] at h'; cases h'), hb⟩

theorem Keeps.trans {a b c : Conn} (h1 : Keeps a b) (h2 : Keeps b c) : Keeps a c := by
  have hob : c.owner = true → b.owner = true := by
    intro h
    cases hb : b.owner with
    | true => rfl
    | false => rw [h2.owner hb] at h; cases h
  exact ⟨fun h => h2.owner (h1.owner h), fun h ho => h1.rel (h2.rel h ho) (hob ho),
    fun h ho => h1.cd (h2.cd h ho) (hob ho), h2.batch.trans h1.batch⟩

theorem DownRel.keep {c c' : Conn} (hr : DownRel c) (hk : Keeps c c') : DownRel c' := by
  constructor
  · intro hd
    cases ho : c'.owner with
    | false => rfl
    | true =>
      have h1 := hr.down (hk.rel hd ho)
      rw [hk.owner h1] at ho; cases ho
  · intro hq
    cases ho : c'.owner with
    | false => rfl
    | true =>
      have hq' : Task.connectDestroyed ∈ c.queue := by
        unfold Conn.queue at hq ⊢; rw [hk.batch] at hq
        rcases List.mem_append.mp hq with h | h
        · exact List.mem_append_left _ h
        · exact List.mem_append_right _ (hk.cd h ho)
      have h1 := hr.cd hq'
      rw [hk.owner h1] at ho; cases ho

theorem emit_keeps (c : Conn) (e : Ev) : Keeps c (emit c e) := Keeps.same rfl rfl rfl rfl
theorem setEvents_keeps (c : Conn) (r w : Bool) : Keeps c (setEvents c r w) := Keeps.same rfl rfl rfl rfl
theorem popWrite_keeps (c : Conn) : Keeps c (popWrite c) := by
  unfold popWrite; split <;> exact Keeps.same rfl rfl rfl rfl
theorem popRead_keeps (c : Conn) : Keeps c (popRead c) := by
  unfold popRead; split <;> exact Keeps.same rfl rfl rfl rfl

theorem enqueue_keeps (c : Conn) (t : Task) (ht : t ≠ .connectDestroyed) : Keeps c (enqueue c t) := by
  refine ⟨id, fun h _ => h, fun h _ => ?_, rfl⟩
  rcases List.mem_append.mp h with h | h
  · exact h
  · simp only [List.mem_cons, List.not_mem_nil, or_false] at h; exact absurd h.symm ht

theorem disconnecting_keeps (c : Conn) : Keeps c { c with st := .kDisconnecting } :=
  ⟨id, (fun h _ => by cases h), fun h _ => h, rfl⟩

theorem queueRemainder_keeps (c : Conn) (data : Bytes) (n : Nat) (fault : Bool) :
    Keeps c (queueRemainder c data n fault) := by
  unfold queueRemainder
  split
  · simp only
    have key : ∀ c1 : Conn, Keeps c c1 →
        Keeps c (if sendEnablesWriting ({ c1 with outBuf := c1.outBuf ++ data.drop n } : Conn).ch.evWrite
          then enableWriting { c1 with outBuf := c1.outBuf ++ data.drop n }
          else { c1 with outBuf := c1.outBuf ++ data.drop n }) := by
      intro c1 h1
      split
      · exact h1.trans (Keeps.same rfl rfl rfl rfl)
      · exact h1.trans (Keeps.same rfl rfl rfl rfl)
    split
    · exact key _ (enqueue_keeps _ _ (by simp))
    · exact key _ (Keeps.rfl' c)
  · split
    · exact Keeps.same rfl rfl rfl rfl
    · exact Keeps.rfl' c

theorem sendDirect_keeps (c : Conn) (data : Bytes) (r : WriteRes) : Keeps c (sendDirect c data r) := by
  cases r with
  | took n =>
    simp only [sendDirect]
    have b : Keeps c ({ c with wrote := c.wrote ++ data.take n } : Conn) := Keeps.same rfl rfl rfl rfl
    split
    · exact (b.trans (enqueue_keeps _ _ (by simp))).trans (queueRemainder_keeps _ _ _ _)
    · exact b.trans (queueRemainder_keeps _ _ _ _)
  | err e => exact queueRemainder_keeps _ _ _ _

theorem sendInLoop_keeps (c : Conn) (data : Bytes) (q : Bool) : Keeps c (sendInLoop c data q) := by
  unfold sendInLoop
  split
  · exact emit_keeps _ _
  · split
    · have b : Keeps c (accept c data q) := Keeps.same rfl rfl rfl rfl
      exact ((b.trans (popWrite_keeps _)).trans (emit_keeps _ _)).trans (sendDirect_keeps _ _ _)
    · have b : Keeps c (accept c data q) := Keeps.same rfl rfl rfl rfl
      exact b.trans (queueRemainder_keeps _ _ _ _)

theorem shutdownInLoop_keeps (c : Conn) : Keeps c (shutdownInLoop c) := by
  unfold shutdownInLoop; split
  · exact Keeps.same rfl rfl rfl rfl
  · exact Keeps.rfl' c

theorem startReadInLoop_keeps (c : Conn) : Keeps c (startReadInLoop c) := by
  unfold startReadInLoop; split
  · exact Keeps.same rfl rfl rfl rfl
  · exact Keeps.rfl' c

theorem stopReadInLoop_keeps (c : Conn) : Keeps c (stopReadInLoop c) := by
  unfold stopReadInLoop; split
  · exact Keeps.same rfl rfl rfl rfl
  · exact Keeps.rfl' c

theorem handOff_keeps (c : Conn) (f : Bool) (d : Dispatch) (t : Task) (g : Conn → Conn)
    (ht : t ≠ .connectDestroyed) (hg : Keeps c (g c)) : Keeps c (handOff c f d t g) := by
  unfold handOff; split
  · exact enqueue_keeps _ _ ht
  · exact hg

theorem act_keeps (c : Conn) (f : Bool) (a : Act) : Keeps c (act c f a) := by
  cases a with
  | send d =>
    simp only [act]; split
    · split
      · exact Keeps.trans (b := ({ c with offeredF := c.offeredF ++ [d] } : Conn))
          (Keeps.same rfl rfl rfl rfl) (enqueue_keeps _ _ (by simp))
      · exact Keeps.trans (b := ({ c with offeredL := c.offeredL ++ [d] } : Conn))
          (Keeps.same rfl rfl rfl rfl) (sendInLoop_keeps _ _ _)
    · exact Keeps.rfl' c
  | shutdown =>
    simp only [act]; split
    · exact (disconnecting_keeps c).trans (handOff_keeps _ _ _ _ _ (by simp) (shutdownInLoop_keeps _))
    · exact Keeps.rfl' c
  | forceClose =>
    simp only [act]; split
    · exact (disconnecting_keeps c).trans (handOff_keeps _ _ _ _ _ (by simp) (Keeps.rfl' _))
    · exact Keeps.rfl' c
  | forceCloseDelay us =>
    simp only [act]; split
    · split
      · exact (disconnecting_keeps c).trans (enqueue_keeps _ _ (by simp))
      · exact ⟨id, (fun h _ => by cases h), fun h _ => h, rfl⟩
    · exact Keeps.rfl' c
  | stopRead => simp only [act]; exact handOff_keeps _ _ _ _ _ (by simp) (stopReadInLoop_keeps _)
  | startRead => simp only [act]; exact handOff_keeps _ _ _ _ _ (by simp) (startReadInLoop_keeps _)
  | setWc k => exact Keeps.same rfl rfl rfl rfl
  | setHwm k m => exact Keeps.same rfl rfl rfl rfl

theorem callback_keeps (c : Conn) (k : Cb) (e : Ev) : Keeps c (callback c k e) := by
  unfold callback; split
  · exact Keeps.trans (b := { emit c e with hooks := dropHook k c.hooks })
      (Keeps.same rfl rfl rfl rfl) (act_keeps _ _ _)
  · exact emit_keeps _ _

/-- `handleClose` brings the connection down AND makes the owner drop it (`closeCallback_`) -/
theorem handleClose_keeps (c : Conn) : Keeps c (handleClose c) := by
  have hb := (handleClose_grow c).mono.batch
  unfold handleClose at hb ⊢
  split
  · exact Keeps.same rfl rfl rfl rfl
  · rename_i hg
    rw [if_neg hg] at hb
    exact Keeps.released rfl hb

theorem handleReadRes_keeps (c : Conn) (r : ReadRes) : Keeps c (handleReadRes c r) := by
  unfold handleReadRes
  split
  · exact handleClose_keeps _
  · rename_i n
    simp only
    have hd : Keeps c (deliver c (n + 1)) := Keeps.same rfl rfl rfl rfl
    exact (hd.trans (callback_keeps _ _ _)).trans (Keeps.same rfl rfl rfl rfl)
  · exact Keeps.rfl' c

theorem handleRead_keeps (c : Conn) : Keeps c (handleRead c) := by
  unfold handleRead
  exact ((popRead_keeps c).trans (emit_keeps _ _)).trans (handleReadRes_keeps _ _)

theorem afterDrain_keeps (c : Conn) : Keeps c (afterDrain c) := by
  unfold afterDrain
  simp only
  have h1 : Keeps c (disableWriting c) := setEvents_keeps _ _ _
  split
  · split
    · exact (h1.trans (enqueue_keeps _ _ (by simp))).trans
        (handOff_keeps _ _ _ _ _ (by simp) (shutdownInLoop_keeps _))
    · exact h1.trans (enqueue_keeps _ _ (by simp))
  · split
    · exact h1.trans (handOff_keeps _ _ _ _ _ (by simp) (shutdownInLoop_keeps _))
    · exact h1

theorem handleWriteRes_keeps (c : Conn) (r : WriteRes) : Keeps c (handleWriteRes c r) := by
  unfold handleWriteRes
  split
  · rename_i n
    simp only
    have b : Keeps c ({ c with wrote := c.wrote ++ c.outBuf.take (n + 1), outBuf := c.outBuf.drop (n + 1) } : Conn) :=
      Keeps.same rfl rfl rfl rfl
    split
    · exact b.trans (afterDrain_keeps _)
    · exact b
  · exact Keeps.rfl' c

theorem handleWrite_keeps (c : Conn) : Keeps c (handleWrite c) := by
  unfold handleWrite; split
  · exact ((popWrite_keeps c).trans (emit_keeps _ _)).trans (handleWriteRes_keeps _ _)
  · exact Keeps.rfl' c

theorem guarded_keeps (f : Conn → Conn) (hf : ∀ c, Keeps c (f c)) (rev : Prop) [Decidable rev]
    (sub : Bool → Bool → Bool → Prop) [∀ a b c, Decidable (sub a b c)] (c : Conn) : Keeps c (guarded f rev sub c) := by
  unfold guarded; split
  · exact hf c
  · exact Keeps.rfl' c

theorem handleEvent_keeps (c : Conn) (r : Nat) : Keeps c (handleEvent c r) := by
  unfold handleEvent
  split
  · exact Keeps.rfl' c
  · exact ((guarded_keeps _ handleClose_keeps _ _ c).trans (guarded_keeps _ handleRead_keeps _ _ _)).trans
      (guarded_keeps _ handleWrite_keeps _ _ _)

theorem fireDelay_keeps (c : Conn) : Keeps c (fireDelay c) := by
  unfold fireDelay; split
  · exact act_keeps _ _ _
  · exact Keeps.rfl' c

theorem fireN_keeps (n : Nat) (c : Conn) : Keeps c (fireN c n) := by
  induction n generalizing c with
  | zero => exact Keeps.rfl' c
  | succ n ih => exact (fireDelay_keeps c).trans (ih _)

theorem fireTimers_keeps (c : Conn) : Keeps c (fireTimers c) := by
  unfold fireTimers
  exact Keeps.trans (b := ({ c with timers := c.timers.filter (fun d => ¬ d ≤ c.now) } : Conn))
    (Keeps.same rfl rfl rfl rfl) (fireN_keeps _ _)

theorem dispatch_keeps (c : Conn) (s : Src) : Keeps c (dispatch c s) := by
  cases s with
  | conn r => simp only [dispatch]; split; exact Keeps.rfl' c; exact handleEvent_keeps _ _
  | timer => simp only [dispatch]; split; exact Keeps.rfl' c; exact fireTimers_keeps _

theorem foldl_dispatch_keeps (l : List Src) (c : Conn) : Keeps c (l.foldl dispatch c) := by
  induction l generalizing c with
  | nil => exact Keeps.rfl' c
  | cons s rest ih => exact (dispatch_keeps c s).trans (ih _)

theorem removeChannel_owner (c : Conn) : (removeChannel c).owner = c.owner := by
  unfold removeChannel; split <;> rfl

theorem connectDestroyed_owner (c : Conn) : (connectDestroyed c).owner = c.owner := by
  unfold connectDestroyed; split
  · rw [removeChannel_owner, callback_owner]; rfl
  · exact removeChannel_owner c

/-- `connectDestroyed` run for a connection its owner has dropped -/
theorem connectDestroyed_keeps (c : Conn) (ho : c.owner = false) : Keeps c (connectDestroyed c) :=
  Keeps.released ((connectDestroyed_owner c).trans ho) (connectDestroyed_grow c).mono.batch

theorem runTask_keeps (c : Conn) (t : Task) (ht : t ≠ .connectDestroyed) : Keeps c (runTask c t) := by
  unfold runTask
  split
  · split
    · exact Keeps.same rfl rfl rfl rfl
    · split
      · exact Keeps.rfl' c
      · exact Keeps.same rfl rfl rfl rfl
  · cases t with
    | sendInLoop d => exact sendInLoop_keeps _ _ _
    | shutdownInLoop => exact shutdownInLoop_keeps _
    | drainShutdownInLoop => exact shutdownInLoop_keeps _
    | forceCloseInLoop => simp only; split; exact handleClose_keeps _; exact Keeps.rfl' c
    | connectDestroyed => exact absurd rfl ht
    | writeComplete => exact callback_keeps _ _ _
    | highWater n => exact callback_keeps _ _ _
    | startReadInLoop => exact startReadInLoop_keeps _
    | stopReadInLoop => exact stopReadInLoop_keeps _
    | addDelayTimer d => exact Keeps.same rfl rfl rfl rfl

/-- a functor taken from the head of the batch runs (`connectDestroyed` at the head shows that the
owner has dropped the connection) -/
theorem runTask_downRel (c : Conn) (t : Task) (rest : List Task) (hb : c.batch = t :: rest) (hr : DownRel c) :
    DownRel (runTask { c with batch := rest } t) := by
  have hq : c.queue = t :: (rest ++ c.pending) := by simp [Conn.queue, hb]
  have hpop : DownRel ({ c with batch := rest } : Conn) :=
    ⟨hr.down, fun h => hr.cd (by rw [hq]; exact List.mem_cons_of_mem _ h)⟩
  by_cases ht : t = .connectDestroyed
  · subst ht
    have ho : c.owner = false := hr.cd (by rw [hq]; exact List.mem_cons_self ..)
    have e : runTask ({ c with batch := rest } : Conn) .connectDestroyed = connectDestroyed { c with batch := rest } := by
      unfold runTask; rw [if_neg (by simp [connectDestroyed_strong])]
    rw [e]
    exact hpop.keep (connectDestroyed_keeps _ ho)
  · exact hpop.keep (runTask_keeps _ t ht)

theorem runBatch_downRel (n : Nat) (c : Conn) (hr : DownRel c) : DownRel (runBatch n c) := by
  induction n generalizing c with
  | zero => exact hr
  | succ n ih =>
    unfold runBatch; split
    · exact hr
    · split
      · exact hr
      · rename_i t rest hb
        exact ih _ (runTask_downRel c t rest hb hr)

theorem maybeDestroy_owner (c : Conn) : (maybeDestroy c).owner = c.owner := by
  unfold maybeDestroy; (repeat' split) <;> rfl

theorem maybeDestroy_downRel (c : Conn) (hr : DownRel c) : DownRel (maybeDestroy c) := by
  obtain ⟨h1, _, h3, h4, _⟩ := maybeDestroy_fields c
  constructor
  · rw [h1, maybeDestroy_owner]; exact hr.down
  · unfold Conn.queue; rw [h3, h4, maybeDestroy_owner]; exact hr.cd

theorem iter_downRel (c : Conn) (a : List Src) (hr : DownRel c) : DownRel (iter c a) := by
  unfold iter
  split
  · exact hr
  · simp only
    have h0 := hr.keep (foldl_dispatch_keeps a c)
    have h1 : DownRel (drainPending (a.foldl dispatch c)) := by
      unfold drainPending
      apply runBatch_downRel
      exact ⟨h0.down, fun h => h0.cd (by simpa [Conn.queue] using h)⟩
    split
    · exact h1
    · exact maybeDestroy_downRel _ h1

theorem step_downRel (c : Conn) (i : Input) (hne : i.notEstablish) (hr : DownRel c) : DownRel (step c i) := by
  cases i with
  | establish => exact absurd hne (by simp [Input.notEstablish])
  | act f a =>
    simp only [step]; split
    · exact hr
    · split
      · exact hr.keep (act_keeps _ _ _)
      · exact hr.keep (act_keeps _ _ _)
  | iter a => exact iter_downRel _ _ hr
  | ownerDestroy =>
    simp only [step]; split
    · exact hr
    · apply maybeDestroy_downRel
      exact ⟨fun _ => rfl, fun _ => rfl⟩
  | hook k a => exact ⟨hr.down, hr.cd⟩
  | setMark n => exact ⟨hr.down, hr.cd⟩
  | setRetrieve n => exact ⟨hr.down, hr.cd⟩
  | peerWrite d => exact ⟨hr.down, hr.cd⟩
  | envWrite r => exact ⟨hr.down, hr.cd⟩
  | envRead r => exact ⟨hr.down, hr.cd⟩
  | advance us => exact ⟨hr.down, hr.cd⟩

theorem run_downRel (ins : List Input) (c : Conn) (hne : ∀ i ∈ ins, i.notEstablish) (hr : DownRel c) :
    DownRel (run c ins) := by
  induction ins generalizing c with
  | nil => exact hr
  | cons i rest ih =>
    exact ih (step c i) (fun j hj => hne j (List.mem_cons_of_mem _ hj))
      (step_downRel c i (hne i (List.mem_cons_self ..)) hr)

theorem establish_downRel (c : Conn) (h : Fresh c) : DownRel (step c .establish) := by
  simp only [step, connectEstablished]
  rw [if_neg (by simp [h.dead]), if_neg (by simp [h.st])]
  apply DownRel.keep _ (callback_keeps _ _ _)
  constructor
  · intro hd; simp [enableReading, setEvents] at hd
  · intro hq; simp [Conn.queue, enableReading, setEvents, h.batch, h.pending] at hq

/-- `DownRel` holds in every state reached from a fresh connection -/
theorem reach_downRel (c0 : Conn) (h0 : Fresh c0) (ins : List Input) (hne : ∀ i ∈ ins, i.notEstablish) :
    DownRel (run (step c0 .establish) ins) :=
  run_downRel ins _ hne (establish_downRel c0 h0)

theorem runBatch_alive (n : Nat) (c : Conn) : (runBatch n c).alive = c.alive := by
  induction n generalizing c with
  | zero => rfl
  | succ n ih =>
    unfold runBatch; split
    · rfl
    · split
      · rfl
      · rw [ih]; exact (runTask_grow _ _).mono.alive

/-- a destroyed object is not resurrected -/
theorem iter_gone (c : Conn) (a : List Src) (h : c.alive = false) : (iter c a).alive = false := by
  unfold iter
  split
  · exact h
  · simp only
    have h1 : (drainPending (a.foldl dispatch c)).alive = false := by
      unfold drainPending; rw [runBatch_alive]; exact (foldl_dispatch_mono a c).alive.trans h
    split
    · exact h1
    · unfold maybeDestroy; rw [if_neg (by simp [h1])]; exact h1

/-- in a state in which the object is gone, DOWN was reported once and the descriptor closed once -/
theorem gone_closed_once (c : Conn) (hl : LifeInv c) (h : c.alive = false) :
    C02.cnt C02.isDownEv c.trace = 1 ∧ C02.cnt C02.isCloseEv c.trace = 1 ∧ C02.cnt C02.isBadEv c.trace = 0 := by
  have hp : phaseOf c = .closed := by unfold phaseOf; simp [h]
  have := C02.life_counts _ _ hl.life
  rw [hp] at this
  exact ⟨by simpa using this.2.1, by simpa using this.2.2.1, this.2.2.2.1⟩

/-- **C02 progress, end to end.** Two loop iterations after `forceClose()` — called on any thread, in
any reachable state, with any poll results, functors and callbacks — the connection object is destroyed:
the first iteration brings it down and makes the owner drop it, the second one runs `connectDestroyed`
and drops the last reference.  Nothing leaks. -/
theorem forceClose_destroys (c : Conn) (f : Bool) (a1 a2 : List Src) (hl : LifeInv c) (hr : DownRel c) :
    (iter (iter (act c f .forceClose) a1) a2).alive = false := by
  have hl1 := iter_life _ a1 (forceClose_life c f hl)
  have hd1 := forceClose_brings_down c f a1 hl
  have hr1 := iter_downRel _ a1 (hr.keep (act_keeps c f .forceClose))
  cases ha : (iter (act c f .forceClose) a1).alive with
  | true => exact released_is_destroyed _ a2 hl1 (hr1.down hd1) ha
  | false => exact iter_gone _ a2 ha

/-- … with DOWN reported exactly once, the descriptor closed exactly once, and no abort -/
theorem forceClose_closes_descriptor (c : Conn) (f : Bool) (a1 a2 : List Src) (hl : LifeInv c) (hr : DownRel c) :
    C02.cnt C02.isDownEv (iter (iter (act c f .forceClose) a1) a2).trace = 1 ∧
    C02.cnt C02.isCloseEv (iter (iter (act c f .forceClose) a1) a2).trace = 1 ∧
    C02.cnt C02.isBadEv (iter (iter (act c f .forceClose) a1) a2).trace = 0 :=
  gone_closed_once _ (iter_life _ a2 (iter_life _ a1 (forceClose_life c f hl))) (forceClose_destroys c f a1 a2 hl hr)


/-! ### 6. the hypotheses are satisfiable; what cannot be strengthened -/

/-- a connection with a block queued by another thread and a callback script on DOWN -/
def demoUp : Conn := run (step {} .establish) [.act true (.send [1, 2, 3]), .hook .down .startRead]

theorem demoUp_inv : FlowInv demoUp ∧ LifeInv demoUp := by
  have h := reach_all {} (fresh_default .epoll true true true _ _ [] [] [])
    [.act true (.send [1, 2, 3]), .hook .down .startRead] (by
      intro i hi
      simp only [List.mem_cons, List.not_mem_nil, or_false] at hi
      rcases hi with h | h <;> subst h <;> trivial)
  exact ⟨h.1, h.2.1⟩

theorem demoUp_downRel : DownRel demoUp :=
  reach_downRel {} (fresh_default .epoll true true true _ _ [] [] []) _ (by
    intro i hi
    simp only [List.mem_cons, List.not_mem_nil, or_false] at hi
    rcases hi with h | h <;> subst h <;> trivial)

/-- 2: `forceClose()` from another thread while a send is queued and the peer's data arrives in the
same iteration: one iteration later the connection is down, DOWN reported once, and the owner has
released it; before, it was `kConnected` -/
example :
    demoUp.st = .kConnected ∧
    (iter (act demoUp true .forceClose) [.conn 1]).st = .kDisconnected ∧
    (iter (act demoUp true .forceClose) [.conn 1]).trace
      = [.up, .sysReadv (.err 11), .sysWrite 3 (.err 11), .down, .closeCb] ∧
    (iter (act demoUp true .forceClose) [.conn 1]).owner = false ∧
    (iter (act demoUp true .forceClose) [.conn 1]).alive = true := by decide

/-- 4: that state satisfies the premises of `released_is_destroyed`, and the next iteration (here one
that only reports the timer descriptor) destroys the object and closes the descriptor -/
example :
    let c := iter (act demoUp true .forceClose) [.conn 1]
    c.owner = false ∧ c.alive = true ∧ c.queue = [.connectDestroyed] ∧
    (iter c [.timer]).alive = false ∧
    (iter c [.timer]).trace = c.trace ++ [.sysClose, .destroyed] := by decide

/-- 3: a delayed close called on the loop thread fires in the iteration that reports the timer … -/
example :
    (iter (step (act demoUp false (.forceCloseDelay 7)) (.advance 7)) [.timer]).st = .kDisconnected ∧
    (step (act demoUp false (.forceCloseDelay 7)) (.advance 7)).st = .kDisconnecting := by decide

/-- … called on another thread it is only armed by the first iteration: ONE iteration does not suffice
(so `delayed_close_foreign_brings_down` needs its two iterations) -/
theorem delayed_close_foreign_needs_two :
    LifeInv demoUp ∧
    (iter (step (act demoUp true (.forceCloseDelay 7)) (.advance 7)) [.timer]).st = .kDisconnecting ∧
    (iter (step (iter (act demoUp true (.forceCloseDelay 7)) []) (.advance 7)) [.timer]).st = .kDisconnected :=
  ⟨demoUp_inv.2, by decide, by decide⟩

/-- 5a: `shutdown()` on the loop thread with nothing to write -/
def demoShut : Conn := run (step {} .establish) [.act false .shutdown]

example :
    demoShut.st = .kDisconnecting ∧ demoShut.outBuf = [] ∧ demoShut.queue = [.shutdownInLoop] ∧
    finNext demoShut.queue = true ∧ demoShut.shutWr = false ∧
    (iter demoShut []).shutWr = true ∧ (iter demoShut []).st = .kDisconnecting ∧
    (iter demoShut [.conn 1]).shutWr = true := by decide

/-- 5b: a short write leaves a backlog of two bytes; two fair write results are scripted -/
def demoBacklog : Conn :=
  run (step {} .establish) [.envWrite (.took 1), .act false (.send [1, 2, 3]), .envWrite (.took 1), .envWrite (.took 1)]

theorem demoBacklog_draining : Draining demoBacklog := by
  have h := reach_all {} (fresh_default .epoll true true true _ _ [] [] [])
    [.envWrite (.took 1), .act false (.send [1, 2, 3]), .envWrite (.took 1), .envWrite (.took 1)] (by
      intro i hi
      simp only [List.mem_cons, List.not_mem_nil, or_false] at hi
      rcases hi with h | h | h | h <;> subst h <;> trivial)
  refine ⟨h.2.1, h.1, by decide, by decide, by decide, ?_, by decide⟩
  intro r hr
  have : demoBacklog.writes = [.took 1, .took 1] := by decide
  rw [this] at hr
  simp only [List.mem_cons, List.not_mem_nil, or_false] at hr
  rcases hr with h | h <;> exact ⟨0, h⟩

example :
    demoBacklog.outBuf = [2, 3] ∧ demoBacklog.ch.evWrite = true ∧
    (iter demoBacklog [.conn 4]).outBuf = [3] ∧
    (pollOut demoBacklog 2).outBuf = [] ∧ (pollOut demoBacklog 2).ch.evWrite = false ∧
    (pollOut demoBacklog 2).wrote = [1, 2, 3] ∧
    (pollOut demoBacklog 2).trace = [.up, .sysWrite 3 (.took 1), .sysWrite 2 (.took 1), .sysWrite 1 (.took 1), .wc 1] := by
  decide

/-- `drain_progress` needs more than "no `sendInLoop` queued": with `forceCloseInLoop` queued (here by
`forceClose()` from another thread) the first iteration still shortens the backlog (`drain_step`), but its
functor phase brings the connection down, write interest goes away and the rest of the backlog is never
written — however fair the environment is.  That is why `Draining` excludes queued closes. -/
def demoBacklogClosing : Conn := step (act demoBacklog true .forceClose) (.envWrite (.took 1))

example :
    demoBacklogClosing.outBuf = [2, 3] ∧ demoBacklogClosing.hooks = [] ∧ demoBacklogClosing.st = .kDisconnecting ∧
    demoBacklogClosing.queue.all (fun t => !t.isSend) = true ∧
    demoBacklogClosing.writes = [.took 1, .took 1, .took 1] ∧
    (pollOut demoBacklogClosing 1).outBuf = [3] ∧ (pollOut demoBacklogClosing 1).st = .kDisconnected ∧
    (pollOut demoBacklogClosing 3).outBuf = [3] ∧ (pollOut demoBacklogClosing 3).alive = false := by decide

end MuduoVerif.Conn
