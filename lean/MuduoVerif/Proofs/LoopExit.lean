import MuduoVerif.Proofs.LoopWake
/-!
# `drain_on_exit` (C04): what was queued before the first `quit()` call has run when `loop()` returns
-/
set_option linter.unnecessarySimpa false
namespace MuduoVerif.Loop
open MuduoVerif.Gen.Loop

/-- `drain_on_exit`: what was queued before the first `quit()` has run when `loop()` returns -/
structure ExitInv (s : St) : Prop where
  markSome : s.quit = true → s.quitMark.isSome = true
  markLe : ∀ n, s.quitMark = some n → n ≤ s.appendOrder.length
  atExit : s.phase = .atExit → s.quitMark.isSome = true
  finalPhase : s.final = true → (s.phase = .preSwap ∨ s.phase = .draining) ∧ s.quitMark.isSome = true
  finalDrain : s.final = true → s.phase = .draining → ∀ n, s.quitMark = some n → n ≤ s.executed.length + s.batch.length
  done : exited s.phase = true → ∃ n, s.quitMark = some n ∧ n ≤ s.executed.length
  ret : exited s.phase = true → s.retMark = some s.executed.length

theorem markOf_some {s : St} {n : Nat} (h : s.quitMark = some n) : markOf s = some n := by
  simp [markOf, h]

theorem markOf_isSome (s : St) : (markOf s).isSome = true := by simp [markOf]

theorem markOf_le {s : St} {n : Nat} (hl : ∀ n, s.quitMark = some n → n ≤ s.appendOrder.length)
    (h : markOf s = some n) : n ≤ s.appendOrder.length := by
  unfold markOf at h
  cases hq : s.quitMark with
  | none => simp [hq] at h; omega
  | some m => simp [hq] at h; subst h; exact hl _ hq

theorem runTop_exit {s : St} (h : ExitInv s) (ht : taskPhase s.phase = true) : ExitInv (runTop s) := by
  obtain ⟨h1, h2, h3, h4, h5, h6, h7⟩ := h
  have hx : exited s.phase = false := by cases hp : s.phase <;> simp_all [taskPhase, exited]
  have hae : s.phase ≠ .atExit := by intro hh; simp [hh, taskPhase] at ht
  have grow : ∀ x, ∀ n, s.quitMark = some n → n ≤ (s.appendOrder ++ [x]).length := by
    intro x n hn; have := h2 n hn; simp; omega
  unfold runTop
  split
  · split <;> exact ⟨h1, h2, h3, h4, h5, h6, h7⟩
  · split <;> exact ⟨h1, h2, h3, h4, h5, h6, h7⟩
  · split
    · exact ⟨h1, h2, h3, h4, h5, h6, h7⟩
    · exact ⟨h1, h2, h3, h4, h5, h6, h7⟩
    · exact ⟨h1, grow _, h3, h4, h5, h6, h7⟩
    · split
      · exact ⟨h1, h2, h3, h4, h5, h6, h7⟩
      · exact ⟨h1, grow _, h3, h4, h5, h6, h7⟩
    · refine ⟨?_, ?_, ?_, ?_, ?_, ?_, ?_⟩
      · intro _; exact markOf_isSome s
      · intro n hn; exact markOf_le (s := s) h2 hn
      · intro hh; exact absurd hh hae
      · intro hh; exact ⟨(h4 hh).1, markOf_isSome s⟩
      · intro hh hp n hn
        obtain ⟨m, hm⟩ := Option.isSome_iff_exists.mp (h4 hh).2
        rw [markOf_some hm] at hn; cases hn
        exact h5 hh hp _ hm
      · intro hh; simp [hx] at hh
      · intro hh; simp [hx] at hh
    · exact ⟨h1, h2, h3, h4, h5, h6, h7⟩
    · split <;> exact ⟨h1, h2, h3, h4, h5, h6, h7⟩
    · exact ⟨h1, h2, h3, h4, h5, h6, h7⟩

theorem stepLoop_exit {s : St} (hf : FifoInv s) (h : ExitInv s) : ExitInv (stepLoop s) := by
  have hr := runTop_exit h
  obtain ⟨h1, h2, h3, h4, h5, h6, h7⟩ := h
  obtain ⟨f1, f2⟩ := hf
  have := drainSwaps_tie; have := finalDrain_tie
  loop_cases
  all_goals (first
    | exact hr (by simp [*, taskPhase])
    | (refine ⟨?_, ?_, ?_, ?_, ?_, ?_, ?_⟩ <;> simp_all [exited] <;>
        (first
          | (intro hf n hn; have := h5 hf n hn; omega)
          | (obtain ⟨n, hn⟩ := Option.isSome_iff_exists.mp h4; exact ⟨n, hn, h5 n hn⟩))))

theorem stepOther_exit {s : St} (k : Nat) (h : ExitInv s) : ExitInv (stepOther s k) := by
  obtain ⟨h1, h2, h3, h4, h5, h6, h7⟩ := h
  have grow : ∀ x, ∀ n, s.quitMark = some n → n ≤ (s.appendOrder ++ [x]).length := by
    intro x n hn; have := h2 n hn; simp; omega
  have mk := markOf_isSome s
  have ml : ∀ n, markOf s = some n → n ≤ s.appendOrder.length := fun n hn => markOf_le (s := s) h2 hn
  have mf : s.final = true → s.phase = .draining → ∀ n, markOf s = some n → n ≤ s.executed.length + s.batch.length := by
    intro hh hp n hn
    obtain ⟨m, hm⟩ := Option.isSome_iff_exists.mp (h4 hh).2
    rw [markOf_some hm] at hn; cases hn
    exact h5 hh hp _ hm
  have md : exited s.phase = true → ∃ n, markOf s = some n ∧ n ≤ s.executed.length := by
    intro hh
    obtain ⟨n, hn, hle⟩ := h6 hh
    exact ⟨n, markOf_some hn, hle⟩
  other_cases
  all_goals (refine ⟨?_, ?_, ?_, ?_, ?_, ?_, ?_⟩ <;> simp_all [exited])

theorem step_exit {s : St} (k : Nat) (h : FifoInv s ∧ ExitInv s) : FifoInv (step s k) ∧ ExitInv (step s k) := by
  refine ⟨step_fifo k h.1, ?_⟩
  unfold step; split
  · exact stepLoop_exit h.1 h.2
  · exact stepOther_exit k h.2

theorem run_exit {s : St} (sched : List Nat) (hf : FifoInv s) (h : ExitInv s) : ExitInv (run s sched) :=
  (run_invariant (P := fun s => FifoInv s ∧ ExitInv s) (fun _ k h => step_exit k h) ⟨hf, h⟩ sched).2

theorem init_exit (elt wl : Bool) (tbl) (dtbl) (pre) (again) (progs) : ExitInv (init elt wl tbl dtbl pre again progs) := by
  cases elt <;> (refine ⟨?_, ?_, ?_, ?_, ?_, ?_, ?_⟩ <;> simp [init, exited])

end MuduoVerif.Loop
