import MuduoVerif.Proofs.Race
import Mathlib.Tactic.IntervalCases
/-! Two concrete traces for the non-vacuity examples of `Props/C08.lean`. -/
namespace MuduoVerif.Race

/-- thread 1 constructs an object (plain write of member 0, no lock), forks thread 2, then both
use member 0 under mutex 0, member 1 atomically, and thread 2 alone uses member 2 -/
def goodTrace : Trace := [
  ⟨1, .wr 0⟩, ⟨1, .fork 2⟩,
  ⟨1, .acq 0⟩, ⟨1, .wr 0⟩, ⟨1, .rel 0⟩,
  ⟨2, .acq 0⟩, ⟨2, .rd 0⟩, ⟨2, .rel 0⟩,
  ⟨2, .awr 1⟩, ⟨1, .ard 1⟩,
  ⟨2, .wr 2⟩]

def goodPol : Loc → Disc
  | 0 => .guarded 0
  | 1 => .atomic
  | 2 => .confined 2
  | _ => .unused

theorem getElem?_lt {tr : Trace} {i : Nat} {e : Event} (h : tr[i]? = some e) : i < tr.length :=
  (List.getElem?_eq_some_iff.mp h).1

theorem goodTrace_wf : WellFormed goodTrace := by
  intro i t m hi u ⟨a, hai, ha, hnr⟩
  have hil := getElem?_lt hi
  simp only [goodTrace, List.length_cons, List.length_nil] at hil
  interval_cases i <;> simp [goodTrace] at hi
  · -- thread 1 acquires at 2: nobody acquired before
    interval_cases a <;> simp [goodTrace] at ha
  · -- thread 2 acquires at 5: thread 1 acquired at 2 and released at 4
    obtain ⟨rfl, rfl⟩ := hi
    interval_cases a <;> simp [goodTrace] at ha
    obtain ⟨rfl, rfl⟩ := ha
    exact hnr 4 (by omega) (by omega) (by simp [goodTrace])

theorem goodTrace_respects : Respects goodTrace goodPol := by
  intro i t e x ⟨hi, hx⟩
  have hil := getElem?_lt hi
  simp only [goodTrace, List.length_cons, List.length_nil] at hil
  interval_cases i <;> simp [goodTrace] at hi <;> obtain ⟨rfl, rfl⟩ := hi <;>
    simp [Ev.loc?] at hx <;> subst hx
  · -- the constructor's write: initialising — it happens-before thread 2's read through the fork
    left
    intro j u e' ⟨hj, hx'⟩ hne
    have hjl := getElem?_lt hj
    simp only [goodTrace, List.length_cons, List.length_nil] at hjl
    interval_cases j <;> simp [goodTrace] at hj <;> obtain ⟨rfl, rfl⟩ := hj <;>
      simp [Ev.loc?] at hx' <;> try (exact absurd rfl hne)
    exact HB.trans (j := 1)
      (HB.po (i := 0) (j := 1) (t := 1) (e₁ := .wr 0) (e₂ := .fork 2) (by omega) (by simp [goodTrace]) (by simp [goodTrace]))
      (HB.fork (i := 1) (j := 6) (t := 1) (u := 2) (e := .rd 0) (by omega) (by simp [goodTrace]) (by simp [goodTrace]))
  · right; exact ⟨2, by omega, by simp [goodTrace], by
      intro k hk1 hk2; interval_cases k⟩
  · right; exact ⟨5, by omega, by simp [goodTrace], by
      intro k hk1 hk2; interval_cases k⟩
  · right; rfl
  · right; rfl
  · right; rfl

/-- two threads write member 0, the second one without the lock -/
def racyTrace : Trace := [⟨1, .acq 0⟩, ⟨1, .wr 0⟩, ⟨1, .rel 0⟩, ⟨2, .wr 0⟩]

theorem racyTrace_wf : WellFormed racyTrace := by
  intro i t m hi u ⟨a, hai, ha, _⟩
  have hil := getElem?_lt hi
  simp only [racyTrace, List.length_cons, List.length_nil] at hil
  interval_cases i <;> simp [racyTrace] at hi
  interval_cases a

theorem racyTrace_rejected : ¬ Respects racyTrace goodPol := by
  intro h
  rcases h 3 2 (.wr 0) 0 ⟨by simp [racyTrace], rfl⟩ with hinit | hok
  · -- not initialising: thread 1's write at 1 comes earlier
    have := (hinit 1 1 (.wr 0) ⟨by simp [racyTrace], rfl⟩ (by decide)).lt
    omega
  · -- thread 2 never acquired mutex 0
    obtain ⟨a, ha, haq, _⟩ := hok
    interval_cases a <;> simp [racyTrace] at haq

/-- and it is indeed a data race: the two writes are not ordered -/
theorem racyTrace_races : ¬ RaceFree racyTrace := by
  intro h
  have key : ∀ i j, HB racyTrace i j → j = 3 → False := by
    intro i j hb
    induction hb with
    | @po i j t e₁ e₂ hlt h1 h2 =>
      intro hj; subst hj
      simp [racyTrace] at h2; obtain ⟨rfl, rfl⟩ := h2
      interval_cases i <;> simp [racyTrace] at h1
    | sw _ _ h2 => intro hj; subst hj; simp [racyTrace] at h2
    | @fork i j t u e hlt h1 h2 =>
      intro hj; subst hj
      interval_cases i <;> simp [racyTrace] at h1
    | join _ _ h2 => intro hj; subst hj; simp [racyTrace] at h2
    | queue _ _ h2 => intro hj; subst hj; simp [racyTrace] at h2
    | trans _ _ _ ih2 => exact ih2
  rcases h 1 3 1 2 (.wr 0) (.wr 0) 0 ⟨by simp [racyTrace], rfl⟩ ⟨by simp [racyTrace], rfl⟩ (by decide)
      ⟨Or.inl rfl, by simp [Ev.isAtomic]⟩ with hb | hb
  · exact key 1 3 hb rfl
  · have := hb.lt; omega

end MuduoVerif.Race
