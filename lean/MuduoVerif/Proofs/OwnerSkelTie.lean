import MuduoVerif.Generated.OwnerSkel
/-!
# T1 tie for the statement order of `TcpServer.cc` (Owner engine, C02)

`Gen.OwnerSkel.<fn>` is the statement skeleton `vlib/gen/ownerskel.py` extracts from /repo's current `TcpServer.cc` on
every run; `Decl.<fn>` (`Model/OwnerSkelDecl.lean`) is the skeleton the corresponding step of `Model/Owner.lean`
assumes.  Each `skeleton_<fn>` is closed by `decide`: it holds exactly as long as the source performs the same
significant actions, in the same order, under the same nesting.  The reading lemmas below are evaluated on the EXTRACTED
skeletons (not on the declared ones): they say what the order is needed for, so that a change of order breaks a
statement about the protocol and not only an equality.
-/
namespace MuduoVerif.OwnerSkel

-- `String` equality is evaluated character by character
set_option maxRecDepth 4096

theorem skeleton_ctor : Gen.OwnerSkel.ctor = Decl.ctor := by decide
theorem skeleton_dtor : Gen.OwnerSkel.dtor = Decl.dtor := by decide
theorem skeleton_setThreadNum : Gen.OwnerSkel.setThreadNum = Decl.setThreadNum := by decide
theorem skeleton_start : Gen.OwnerSkel.start = Decl.start := by decide
theorem skeleton_newConnection : Gen.OwnerSkel.newConnection = Decl.newConnection := by decide
theorem skeleton_removeConnection : Gen.OwnerSkel.removeConnection = Decl.removeConnection := by decide
theorem skeleton_removeConnectionGuarded : Gen.OwnerSkel.removeConnectionGuarded = Decl.removeConnectionGuarded := by decide
theorem skeleton_removeConnectionIfAlive : Gen.OwnerSkel.removeConnectionIfAlive = Decl.removeConnectionIfAlive := by decide
theorem skeleton_removeConnectionInLoop : Gen.OwnerSkel.removeConnectionInLoop = Decl.removeConnectionInLoop := by decide

/-- every extracted skeleton is the declared one -/
theorem skeletons_agree :
    Gen.OwnerSkel.ctor = Decl.ctor ∧
    Gen.OwnerSkel.dtor = Decl.dtor ∧
    Gen.OwnerSkel.setThreadNum = Decl.setThreadNum ∧
    Gen.OwnerSkel.start = Decl.start ∧
    Gen.OwnerSkel.newConnection = Decl.newConnection ∧
    Gen.OwnerSkel.removeConnection = Decl.removeConnection ∧
    Gen.OwnerSkel.removeConnectionGuarded = Decl.removeConnectionGuarded ∧
    Gen.OwnerSkel.removeConnectionIfAlive = Decl.removeConnectionIfAlive ∧
    Gen.OwnerSkel.removeConnectionInLoop = Decl.removeConnectionInLoop :=
  ⟨skeleton_ctor, skeleton_dtor, skeleton_setThreadNum, skeleton_start, skeleton_newConnection, skeleton_removeConnection,
   skeleton_removeConnectionGuarded, skeleton_removeConnectionIfAlive, skeleton_removeConnectionInLoop⟩

/-- the callbacks `TcpServer::newConnection` has to install on a connection before it gives it away -/
def connSetup : List String :=
  ["setConnectionCallback", "setMessageCallback", "setWriteCompleteCallback", "setCloseCallback"]

/-- **the hand-over is the last thing the acceptor thread does to a connection** (what makes `Owner.accept` ONE step, and
what `TcpConnection`'s "set-up setters run before the object is shared" rests on for the library's own caller): in
/repo's current `TcpServer::newConnection` the functor `connectEstablished(conn)` is handed to a loop exactly once, it
is the only hand-off of the function, all four callbacks (connection, message, write-complete, close) have been
installed on `conn` before it, and no action on `conn` - no member call, no further copy into the map, a member or a
local - follows it.  After `ioLoop->runInLoop(..)` the io thread may be inside `connectEstablished`, `handleRead`,
`handleClose` (which calls `closeCallback_`) at any moment; an installation after that point is a write of a
`std::function` the io thread may be reading, or calling while it is still empty. -/
theorem handover_is_last :
    HandoverLast "conn" "TcpConnection::connectEstablished(conn)" connSetup Gen.OwnerSkel.newConnection := by decide

/-- the same about any skeleton equal to the declared one: the declaration itself has the property -/
theorem handover_is_last_decl :
    HandoverLast "conn" "TcpConnection::connectEstablished(conn)" connSetup Decl.newConnection := by decide

/-- `newConnection`: the connection is in `connections_` before it is handed over (a close that the io loop reports at
once finds the entry: `assert(n == 1)` in `removeConnectionInLoop`), and the loop it is handed to is the very `ioLoop` it
was created with -/
theorem insert_precedes_handover :
    Precedes (.mapInsert "connName" "conn") Act.isHandoff (flatten Gen.OwnerSkel.newConnection) ∧
    Precedes (.create "TcpConnection" "ioLoop, connName, sockfd, localAddr, peerAddr") Act.isHandoff
      (flatten Gen.OwnerSkel.newConnection) ∧
    (flatten Gen.OwnerSkel.newConnection).contains
      (.handoff .run "ioLoop" "TcpConnection::connectEstablished(conn)") = true := by decide

/-- `removeConnectionInLoop`: the map entry is erased before `connectDestroyed` is queued (`Owner.removeInLoop`: `mapErase`
then `handDestroy`), and the hand-off is the last statement -/
theorem erase_precedes_destroy :
    Precedes (.mapErase "conn.name()") Act.isHandoff (flatten Gen.OwnerSkel.removeConnectionInLoop) ∧
    HandoverLast "conn" "TcpConnection::connectDestroyed(conn)" [] Gen.OwnerSkel.removeConnectionInLoop := by decide

/-- `~TcpServer`: the life token expires before the first connection is handed its `connectDestroyed`
(`Owner.destroyServer`: `alive := false` first), and per connection the map entry is reset before the hand-off -/
theorem token_expires_first :
    Precedes (.on "alive_" "reset" "") (fun a => a.isHandoff || a.touches "conn" || a.touches "item.second")
      (flatten Gen.OwnerSkel.dtor) ∧
    Precedes (.on "item.second" "reset" "") Act.isHandoff (flatten Gen.OwnerSkel.dtor) ∧
    HandoverLast "conn" "TcpConnection::connectDestroyed(conn)" [] Gen.OwnerSkel.dtor := by decide

/-- `start`: every io loop exists before the acceptor listens (`Owner.init`: `pool := Pool.start L` from the first
`accept` on) -/
theorem pool_before_listen :
    Precedes (.on "threadPool_" "start" "threadInitCallback_") Act.isHandoff (flatten Gen.OwnerSkel.start) := by decide

/-- non-vacuity of the reading: the order of the seeded change (close callback installed after the hand-over) is
rejected by `HandoverLast`, and so is a skeleton that never installs it -/
theorem handover_is_last_rejects :
    ¬ HandoverLast "conn" "TcpConnection::connectEstablished(conn)" connSetup
        [ .act (.on "conn" "setWriteCompleteCallback" "writeCompleteCallback_"),
          .act (.handoff .run "ioLoop" "TcpConnection::connectEstablished(conn)"),
          .act (.on "conn" "setCloseCallback" "TcpServer::removeConnectionGuarded(weak(alive_), this, loop_, _1)") ] ∧
    ¬ HandoverLast "conn" "TcpConnection::connectEstablished(conn)" connSetup
        [ .act (.on "conn" "setConnectionCallback" "connectionCallback_"),
          .act (.on "conn" "setMessageCallback" "messageCallback_"),
          .act (.on "conn" "setWriteCompleteCallback" "writeCompleteCallback_"),
          .act (.handoff .run "ioLoop" "TcpConnection::connectEstablished(conn)") ] := by decide

end MuduoVerif.OwnerSkel
