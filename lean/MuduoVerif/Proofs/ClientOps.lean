import MuduoVerif.Proofs.ClientIter
/-! The user's operations, the scope guard, and the invariant over all guarded histories. -/
namespace MuduoVerif.Client
open MuduoVerif.Gen.Client

/-- the property's scope guard for `connect()`: no attempt in progress, no connection, no `connect()` of another thread
still queued, and no pending retry timer - except the timer of a cycle that `stop()` has ended (`connect_` is false; the
loop has not run `stop()`'s functor yet, which would have cancelled it): `connect()` on the loop thread is then inside
the property (F33: the new cycle cancels the stale timer).  [From another thread in that same window - `stop()`'s functor
still queued, the stopped cycle's timer still armed - `connect()` stays outside: the stale timer may fire before the two
queued functors run, and the invariant `Mid.a9` (no attempt while a `connect()` is queued) does not cover that.] -/
def connectOk (c : C) (w : Who) : Prop :=
  c.cstate ≠ .kConnecting ∧ c.connection = none ∧ (nRetry c.timers = 0 ∨ (w = .loop ∧ c.cConnect = false)) ∧
  .startCycle ∉ c.pending
instance (c : C) (w : Who) : Decidable (connectOk c w) := by unfold connectOk; infer_instance

/-- the user gives up a reference to a connection only if it is down or somebody else still holds it
(`TcpConnection`'s own contract: its destructor asserts `kDisconnected`) -/
def dropOk (c : C) : Prop :=
  ∀ x ∈ c.conns, x.userRef = true → x.st = .disconnected ∨ (c.clientAlive = true ∧ c.connection = some x.sock) ∨
    ∃ t ∈ c.pending, t.holds x.sock = true
instance (c : C) : Decidable (dropOk c) := by unfold dropOk; infer_instance

/-- which inputs the theorems cover in state `c` -/
def okIn (c : C) : In → Prop
  | .connect w => c.clientAlive = true ∧ connectOk c w
  | .disconnect _ => c.clientAlive = true
  | .stop _ => c.clientAlive = true
  -- a client that reconnects by itself must not be told `connect()` by its DOWN callback as well (two attempts)
  | .enableRetry => c.clientAlive = true ∧ HookOp.connect ∉ c.hooksDown
  | .destroy w => c.clientAlive = true ∧ w = .loop
  | .dropRef => dropOk c
  -- operations of the connection callback: `connect()` never from the UP callback (a connection is outstanding:
  -- the property's own quantifier), from the DOWN callback only when the client does not reconnect by itself
  | .hookUp op => op ≠ .connect
  | .hookDown op => op = .connect → c.retry = false
  | _ => True
instance (c : C) (i : In) : Decidable (okIn c i) := by
  cases i <;> unfold okIn <;> infer_instance

/-- a history inside the scope guard -/
def Guarded (c : C) : List In → Prop
  | [] => True
  | i :: is => okIn c i ∧ Guarded (step c i) is
instance : (c : C) → (ins : List In) → Decidable (Guarded c ins)
  | _, [] => by unfold Guarded; infer_instance
  | c, i :: is => by
    unfold Guarded
    have := instDecidableGuarded (step c i) is
    infer_instance

/-- at a boundary the channel exists only while registered -/
theorem bnd_chan {c : C} (hi : Mid c [] true) (hnc : c.cstate ≠ .kConnecting) : c.chan = none := by
  cases hc : c.chan with
  | none => rfl
  | some k =>
    cases hon : c.chanOn
    · have := (hi.a5 (by simp [hc]) hon).1
      exact absurd this (by simpa using hi.a16 rfl)
    · exact absurd (hi.a1 hon) hnc

theorem userConnect_mid (c : C) (w : Who) (hi : Mid c [] true) (hal : c.clientAlive = true) (hok : connectOk c w) :
    Mid (userConnect c w) [] true := by
  obtain ⟨hnc, hcn, hnt, hns⟩ := hok
  have hch := bnd_chan hi hnc
  have htr := hi.tr.gConnect hal
  have hnr : Task.resetChannel ∉ c.pending := hi.a16 rfl
  have h1 : Mid { c with tConnect := true, cConnect := true, stopReq := false, trace := c.trace ++ [.ghost .connect] } [] true := by
    obtain ⟨notDead, a1, a2, a3, a4, a5, a6, a7, a8, a9, a10, a11, a13, a14, a15, a16, s1, c1, c2, c3, c4, c5, c6, c7, c8, c9, c10, g1, g3, h1, t1⟩ := hi
    constructor
    all_goals mid_auto3
  unfold userConnect
  simp only [startDispatch]
  cases w with
  | loop =>
    simp only
    exact startCycle_mid' _ [] [] true (.inl rfl) h1 hch hcn hnc (by simpa using hns) (fun _ => hal)
  | foreign =>
    have hnt : nRetry c.timers = 0 := by
      rcases hnt with h | h
      · exact h
      · exact absurd h.1 (by decide)
    have hna : ¬ attempting c.cstate c.timers := by
      rintro (h | h)
      · exact hnc h
      · omega
    simp only
    unfold enqueue
    have hcnt : c.pending.count Task.startCycle = 0 := List.count_eq_zero.mpr hns
    obtain ⟨notDead, a1, a2, a3, a4, a5, a6, a7, a8, a9, a10, a11, a13, a14, a15, a16, s1, c1, c2, c3, c4, c5, c6, c7, c8, c9, c10, g1, g3, h1, t1⟩ := h1
    constructor
    all_goals mid_auto3

theorem userStop_mid (c : C) (w : Who) (hi : Mid c [] true) (hal : c.clientAlive = true) :
    Mid (userStop c w) [] true := userStop_midG c [] true w hi hal

theorem userDisconnect_mid (c : C) (hi : Mid c [] true) : Mid (userDisconnect c) [] true :=
  userDisconnect_midG c [] true hi

/-! ### `~TcpClient` on the loop thread -/

def detachClose : ConnRec → ConnRec := fun r => { r with closeCb := .detached, st := .disconnecting }

macro "mid_auto4" : tactic =>
  `(tactic| (first | assumption | grind [attempting, held, nRetry_snoc_retry, nRetry_snoc_park, Task.plain, Task.holds, updRec, detach, detachClose] | skip))

/-- no connection: the connector is stopped and parked for a second -/
theorem destroyIdle_mid (c : C) (hi : Mid c [] true) (hal : c.clientAlive = true) (hcn : c.connection = none) (d : Nat) :
    Mid { c with destroyedAt := some c.now, trace := c.trace ++ [.ghost .destroy], cConnect := false,
                 pending := c.pending ++ [.stopInLoop], timers := c.timers ++ [(d, .park)],
                 clientAlive := false, connection := none } [] true := by
  have htr := hi.tr.gDestroy hal
  obtain ⟨notDead, a1, a2, a3, a4, a5, a6, a7, a8, a9, a10, a11, a13, a14, a15, a16, s1, c1, c2, c3, c4, c5, c6, c7, c8, c9, c10, g1, g3, h1, t1⟩ := hi
  constructor
  all_goals mid_auto4

/-- a connection only the client holds: it is detached and force-closed -/
theorem destroyUnique_mid (c : C) (hi : Mid c [] true) (hal : c.clientAlive = true) (k : Nat) (hcn : c.connection = some k) :
    Mid { c with destroyedAt := some c.now, trace := c.trace ++ [.ghost .destroy],
                 conns := c.conns.map (updRec k detachClose), pending := c.pending ++ [.forceCloseInLoop k],
                 clientAlive := false, connection := none } [] true := by
  obtain ⟨x, hx, hst, hcb⟩ := hi.c7 k hcn
  have hna : ¬ attempting c.cstate c.timers := by
    intro h; have := (hi.a9 h).1; rw [hcn] at this; cases this
  have hmem := @mem_map_upd c.conns k detachClose
  have hfind := fun j => @findIn_upd c.conns k j detachClose (fun _ => rfl)
  have hsocks := @socks_upd c.conns k detachClose (fun _ => rfl)
  have hfs := @findIn_some c.conns
  have hxu : ∀ y ∈ c.conns, y.sock = k → y = x := by
    intro y hy hk
    have := findIn_of_mem hi.c2 hy; rw [hk, hx] at this; exact (Option.some.inj this).symm
  have htr := (hi.tr.gDestroy hal).upd_same k detachClose (fun _ => rfl) (fun r hr => by
    rw [hx] at hr; cases hr; exact ⟨rfl, by simp [detachClose, hst]⟩)
  obtain ⟨notDead, a1, a2, a3, a4, a5, a6, a7, a8, a9, a10, a11, a13, a14, a15, a16, s1, c1, c2, c3, c4, c5, c6, c7, c8, c9, c10, g1, g3, h1, t1⟩ := hi
  constructor
  all_goals mid_auto4
  · intro y hy hne
    obtain ⟨x0, hx0, rfl⟩ := hmem hy
    by_cases hk : x0.sock = k
    · right; right
      exact ⟨.forceCloseInLoop k, by simp, by simp [Task.holds, updRec, hk, detachClose]⟩
    · have e : updRec k detachClose x0 = x0 := by simp [updRec, hk]
      rw [e] at hne ⊢
      rcases c5 x0 hx0 hne with h | h | ⟨t, ht, hh⟩
      · exact .inl h
      · rw [hcn] at h; exact absurd (Option.some.inj h.2).symm hk
      · exact .inr (.inr ⟨t, by simp at ht ⊢; exact .inl ht, hh⟩)

/-- a connection the user holds too: it is only detached -/
theorem destroyShared_mid (c : C) (hi : Mid c [] true) (hal : c.clientAlive = true) (k : Nat) (hcn : c.connection = some k)
    (x : ConnRec) (hx : findIn c.conns k = some x) (hur : x.userRef = true) :
    Mid { c with destroyedAt := some c.now, trace := c.trace ++ [.ghost .destroy],
                 conns := c.conns.map (updRec k detach),
                 clientAlive := false, connection := none } [] true := by
  have hna : ¬ attempting c.cstate c.timers := by
    intro h; have := (hi.a9 h).1; rw [hcn] at this; cases this
  have hmem := @mem_map_upd c.conns k detach
  have hfind := fun j => @findIn_upd c.conns k j detach (fun _ => rfl)
  have hsocks := @socks_upd c.conns k detach (fun _ => rfl)
  have hfs := @findIn_some c.conns
  have hxu : ∀ y ∈ c.conns, y.sock = k → y = x := by
    intro y hy hk
    have := findIn_of_mem hi.c2 hy; rw [hk, hx] at this; exact (Option.some.inj this).symm
  have htr := (hi.tr.gDestroy hal).upd_same k detach (fun _ => rfl) (fun r _ => ⟨rfl, Iff.rfl⟩)
  obtain ⟨notDead, a1, a2, a3, a4, a5, a6, a7, a8, a9, a10, a11, a13, a14, a15, a16, s1, c1, c2, c3, c4, c5, c6, c7, c8, c9, c10, g1, g3, h1, t1⟩ := hi
  constructor
  all_goals mid_auto4

theorem updRec_comp (k : Nat) (f g : ConnRec → ConnRec) (hf : ∀ r, (f r).sock = r.sock) (cs : List ConnRec) :
    (cs.map (updRec k f)).map (updRec k g) = cs.map (updRec k (g ∘ f)) := by
  rw [List.map_map]; apply List.map_congr_left; intro r _
  simp only [Function.comp, updRec]
  by_cases h : r.sock = k
  · simp [h, hf]
  · simp [h]

theorem useCount_frame (c : C) (k : Nat) (t : List Ev) (d : Option Nat) :
    useCount { c with destroyedAt := d, trace := t } k = useCount c k := rfl

theorem userDestroy_shared_eq (c : C) (k : Nat) (hcn : c.connection = some k) (hu : ¬ (useCount c k == 1) = true) :
    userDestroy c .loop = reapConnector
      { c with destroyedAt := some c.now, trace := c.trace ++ [.ghost .destroy],
               conns := c.conns.map (updRec k detach),
               clientAlive := false, connection := none } := by
  cases c
  simp only at hcn
  subst hcn
  unfold userDestroy
  simp only [dtorHasConn, dtorSetCbDispatch, if_true]
  split
  · rename_i h; exact absurd h hu
  · rfl

theorem connForceClose_eq (c : C) (k : Nat) (x : ConnRec) (hx : findIn c.conns k = some x) (hst : x.st ≠ .disconnected) :
    connForceClose c k = { c with conns := c.conns.map (updRec k toDisconnecting), pending := c.pending ++ [.forceCloseInLoop k] } := by
  have hcs : connSt c k = x.st := by simp [connSt, findConn_eq, hx]
  unfold connForceClose
  rw [hcs, if_pos (by cases h : x.st <;> simp_all)]
  rfl

theorem userDestroy_unique_eq (c : C) (k : Nat) (x : ConnRec) (hcn : c.connection = some k)
    (hx : findIn c.conns k = some x) (hst : x.st ≠ .disconnected) (hu : (useCount c k == 1) = true) :
    userDestroy c .loop = reapConnector
      { c with destroyedAt := some c.now, trace := c.trace ++ [.ghost .destroy],
               conns := c.conns.map (updRec k detachClose), pending := c.pending ++ [.forceCloseInLoop k],
               clientAlive := false, connection := none } := by
  cases c
  simp only at hcn hx
  subst hcn
  unfold userDestroy
  simp only [dtorHasConn, dtorSetCbDispatch, if_true]
  split
  case isFalse h => exact absurd hu h
  rw [connForceClose_eq _ k (detach x) ?_ hst]
  · simp only [updConn_eq]
    rw [show (fun r : ConnRec => ({ r with closeCb := CloseCb.detached } : ConnRec)) = detach from rfl]
    rw [updRec_comp k detach toDisconnecting (fun _ => rfl)]
    rfl
  · simp only [updConn_eq]
    rw [show (fun r : ConnRec => ({ r with closeCb := CloseCb.detached } : ConnRec)) = detach from rfl]
    rw [findIn_upd k k detach (fun _ => rfl), hx]
    simp [updRec, (findIn_some hx).2]

theorem userDestroy_idle_eq (c : C) (hcn : c.connection = none) :
    userDestroy c .loop = reapConnector
      { c with destroyedAt := some c.now, trace := c.trace ++ [.ghost .destroy], cConnect := false,
               pending := c.pending ++ [.stopInLoop], timers := c.timers ++ [(c.now + dtorParkUs, .park)],
               clientAlive := false, connection := none } := by
  cases c
  simp only at hcn
  subst hcn
  unfold userDestroy connectorStop
  simp only [stopDispatch, enqueue]

theorem userDestroy_mid (c : C) (hi : Mid c [] true) (hal : c.clientAlive = true) :
    Mid (userDestroy c .loop) [] true := by
  cases hcn : c.connection with
  | none =>
    have h := destroyIdle_mid c hi hal hcn (c.now + dtorParkUs)
    rw [userDestroy_idle_eq c hcn, reapConnector_id h]; exact h
  | some k =>
    obtain ⟨x, hx, hst, hcb⟩ := hi.c7 k hcn
    by_cases hu : (useCount c k == 1) = true
    · have h := destroyUnique_mid c hi hal k hcn
      rw [userDestroy_unique_eq c k x hcn hx hst hu, reapConnector_id h]; exact h
    · have hur : x.userRef = true := by
        cases hur : x.userRef
        · exfalso
          apply hu
          have hxu : ∀ y ∈ c.conns, y.sock = k → y = x := by
            intro y hy hk
            have := findIn_of_mem hi.c2 hy; rw [hk, hx] at this; exact (Option.some.inj this).symm
          have hnone : c.pending.filter (·.holds k) = [] := by
            rw [List.filter_eq_nil_iff]
            intro t ht hh
            cases t with
            | connectDestroyed j =>
              have hj : j = k := by simpa [Task.holds] using hh
              subst hj
              obtain ⟨y, hy, hys⟩ := hi.c9 j (by simpa using ht)
              rw [hx] at hy; cases hy; exact hst hys
            | forceCloseInLoop j =>
              have hj : j = k := by simpa [Task.holds] using hh
              subst hj
              obtain ⟨y, hy, hyc⟩ := hi.c8 j (by simpa using ht)
              rw [hx] at hy; cases hy; rw [hcb] at hyc; cases hyc
            | setCloseCb j => have := hi.a13 _ (by simpa using ht); cases this
            | shutdownInLoop j => rw [holds_shutdown] at hh; cases hh
            | startCycle => cases hh
            | stopInLoop => cases hh
            | resetChannel => cases hh
            | addTimer a b => cases hh
          simp [useCount, findConn_eq, hx, hur, hnone]
        · rfl
      have h := destroyShared_mid c hi hal k hcn x hx hur
      rw [userDestroy_shared_eq c k hcn hu, reapConnector_id h]; exact h

/-! ### user references, the clock, the environment -/

theorem Tr.mapg_same {tr n ss cs u nr sp al} (h : Tr tr n ss cs u nr sp al) (g : ConnRec → ConnRec)
    (hg : ∀ r, (g r).sock = r.sock ∧ (g r).destroyed = r.destroyed ∧ (g r).st = r.st) :
    Tr tr n ss (cs.map g) u nr sp al := by
  apply h.same
  intro j
  apply phaseAt_congr'
  rw [findIn_mapg j g (fun r => (hg r).1)]
  cases hj : findIn cs j with
  | none => rfl
  | some y => simp [(hg y).2.1, (hg y).2.2]

def setRef (k : Nat) : ConnRec → ConnRec := fun r => { r with userRef := r.sock == k }
def clearRef : ConnRec → ConnRec := fun r => { r with userRef := false }

theorem holdRef_mid (c : C) (hi : Mid c [] true) : Mid (holdRef c) [] true := by
  unfold holdRef
  split
  · rename_i k hcn
    have hal : c.clientAlive = true := by
      cases h : c.clientAlive
      · have := (hi.a11 h).1; rw [hcn] at this; cases this
      · rfl
    have hmem : ∀ y ∈ c.conns.map (setRef k), ∃ x ∈ c.conns, y = setRef k x := by
      intro y hy; obtain ⟨x, hx, rfl⟩ := List.mem_map.mp hy; exact ⟨x, hx, rfl⟩
    have hfind := fun j => @findIn_mapg c.conns j (setRef k) (fun _ => rfl)
    have hsocks : (c.conns.map (setRef k)).map (·.sock) = c.conns.map (·.sock) := by
      rw [List.map_map]; rfl
    have hfs := @findIn_some c.conns
    have htr := hi.tr.mapg_same (setRef k) (fun _ => ⟨rfl, rfl, rfl⟩)
    show Mid { c with conns := c.conns.map (setRef k) } [] true
    obtain ⟨notDead, a1, a2, a3, a4, a5, a6, a7, a8, a9, a10, a11, a13, a14, a15, a16, s1, c1, c2, c3, c4, c5, c6, c7, c8, c9, c10, g1, g3, h1, t1⟩ := hi
    constructor
    all_goals (first | assumption | grind [attempting, held, Task.plain, Task.holds, setRef] | skip)
    · intro y hy hne
      obtain ⟨x0, hx0, rfl⟩ := hmem y hy
      have hne' : x0.st ≠ .disconnected := hne
      cases hcb : x0.closeCb
      · exact .inr (.inl ⟨hal, (c6 x0 hx0 hne' hcb).2⟩)
      · have := c10 x0 hx0 hcb; rw [hal] at this; cases this
  · exact hi

theorem dropRef_mid (c : C) (hi : Mid c [] true) (hok : dropOk c) : Mid (dropRef c) [] true := by
  unfold dropRef
  have hmem : ∀ y ∈ c.conns.map clearRef, ∃ x ∈ c.conns, y = clearRef x := by
    intro y hy; obtain ⟨x, hx, rfl⟩ := List.mem_map.mp hy; exact ⟨x, hx, rfl⟩
  have hfind := fun j => @findIn_mapg c.conns j clearRef (fun _ => rfl)
  have hsocks : (c.conns.map clearRef).map (·.sock) = c.conns.map (·.sock) := by
    rw [List.map_map]; rfl
  have hfs := @findIn_some c.conns
  have htr := hi.tr.mapg_same clearRef (fun _ => ⟨rfl, rfl, rfl⟩)
  unfold dropOk at hok
  show Mid { c with conns := c.conns.map clearRef } [] true
  obtain ⟨notDead, a1, a2, a3, a4, a5, a6, a7, a8, a9, a10, a11, a13, a14, a15, a16, s1, c1, c2, c3, c4, c5, c6, c7, c8, c9, c10, g1, g3, h1, t1⟩ := hi
  constructor
  all_goals (first | assumption | grind [attempting, held, Task.plain, Task.holds, clearRef] | skip)

theorem advance_mid (c : C) (us : Nat) (hi : Mid c [] true) : Mid { c with now := c.now + us } [] true := by
  have hch : c.chan.isSome = true → c.chanOn = true := by
    intro h
    cases hon : c.chanOn
    · exact absurd (hi.a5 h hon).1 (by simpa using hi.a16 rfl)
    · rfl
  obtain ⟨notDead, a1, a2, a3, a4, a5, a6, a7, a8, a9, a10, a11, a13, a14, a15, a16, s1, c1, c2, c3, c4, c5, c6, c7, c8, c9, c10, g1, g3, h1, t1⟩ := hi
  constructor
  all_goals mid_auto3

theorem enableRetry_mid (c : C) (hi : Mid c [] true) (hno : HookOp.connect ∉ c.hooksDown) : Mid { c with retry := true } [] true :=
  ⟨hi.notDead, hi.a1, hi.a2, hi.a3, hi.a4, hi.a5, hi.a6, hi.a7, hi.a8, hi.a9, hi.a10, hi.a11, hi.a13, hi.a14, hi.a15, hi.a16,
   hi.s1, hi.c1, hi.c2, hi.c3, hi.c4, hi.c5, hi.c6, hi.c7, hi.c8, hi.c9, hi.c10, hi.g1, hi.g3,
   ⟨hi.h1.1, fun h => absurd h hno⟩, hi.t1⟩

theorem hookUp_mid (c : C) (op : HookOp) (hi : Mid c [] true) (hop : op ≠ .connect) :
    Mid { c with hooksUp := c.hooksUp ++ [op] } [] true :=
  ⟨hi.notDead, hi.a1, hi.a2, hi.a3, hi.a4, hi.a5, hi.a6, hi.a7, hi.a8, hi.a9, hi.a10, hi.a11, hi.a13, hi.a14, hi.a15, hi.a16,
   hi.s1, hi.c1, hi.c2, hi.c3, hi.c4, hi.c5, hi.c6, hi.c7, hi.c8, hi.c9, hi.c10, hi.g1, hi.g3,
   ⟨fun h => by
      rcases List.mem_append.mp h with h | h
      · exact hi.h1.1 h
      · exact hop (List.mem_singleton.mp h).symm, hi.h1.2⟩, hi.t1⟩

theorem hookDown_mid (c : C) (op : HookOp) (hi : Mid c [] true) (hop : op = .connect → c.retry = false) :
    Mid { c with hooksDown := c.hooksDown ++ [op] } [] true :=
  ⟨hi.notDead, hi.a1, hi.a2, hi.a3, hi.a4, hi.a5, hi.a6, hi.a7, hi.a8, hi.a9, hi.a10, hi.a11, hi.a13, hi.a14, hi.a15, hi.a16,
   hi.s1, hi.c1, hi.c2, hi.c3, hi.c4, hi.c5, hi.c6, hi.c7, hi.c8, hi.c9, hi.c10, hi.g1, hi.g3,
   ⟨hi.h1.1, fun h => by
      rcases List.mem_append.mp h with h | h
      · exact hi.h1.2 h
      · exact hop (List.mem_singleton.mp h).symm⟩, hi.t1⟩

/-! ### every guarded history -/

theorem step_bnd (c : C) (i : In) (hi : Bnd c) (hok : okIn c i) : Bnd (step c i) := by
  unfold Bnd at hi ⊢
  unfold step
  rw [if_neg (by rw [hi.notDead]; exact Bool.false_ne_true)]
  cases i with
  | connect w =>
    simp only [stepLive, okIn] at hok ⊢
    rw [if_pos hok.1]; exact userConnect_mid c w hi hok.1 hok.2
  | disconnect w =>
    simp only [stepLive, okIn] at hok ⊢
    rw [if_pos hok]; exact userDisconnect_mid c hi
  | stop w =>
    simp only [stepLive, okIn] at hok ⊢
    rw [if_pos hok]; exact userStop_mid c w hi hok
  | enableRetry =>
    simp only [stepLive, okIn] at hok ⊢
    rw [if_pos hok.1]; exact enableRetry_mid c hi hok.2
  | destroy w =>
    simp only [okIn] at hok
    obtain ⟨hal, rfl⟩ := hok
    have hsl : stepLive c (.destroy .loop) = userDestroy c .loop := by simp [stepLive, hal]
    have h := userDestroy_mid c hi hal
    simp only
    rw [hsl]
    split
    · rename_i hd; rw [h.notDead] at hd; cases hd
    · exact reap_mid _ h
  | holdRef =>
    have hsl : stepLive c .holdRef = holdRef c := rfl
    have h := holdRef_mid c hi
    simp only
    rw [hsl]
    split
    · rename_i hd; rw [h.notDead] at hd; cases hd
    · exact reap_mid _ h
  | dropRef =>
    simp only [okIn] at hok
    have hsl : stepLive c .dropRef = dropRef c := rfl
    have h := dropRef_mid c hi hok
    simp only
    rw [hsl]
    split
    · rename_i hd; rw [h.notDead] at hd; cases hd
    · exact reap_mid _ h
  | hookUp op => exact hookUp_mid c op hi hok
  | hookDown op => exact hookDown_mid c op hi hok
  | advance us => exact advance_mid c us hi
  | iter active => exact iter_bnd c active hi
  | envConnect r => exact hi.env (c.envConnect ++ [r]) c.envSoErr c.envSelf c.envRead c.starved c.horizon
  | envSoError r => exact hi.env c.envConnect (c.envSoErr ++ [r]) c.envSelf c.envRead c.starved c.horizon
  | envSelf b => exact hi.env c.envConnect c.envSoErr (c.envSelf ++ [b]) c.envRead c.starved c.horizon
  | envRead n => exact hi.env c.envConnect c.envSoErr c.envSelf (c.envRead ++ [n]) c.starved c.horizon

theorem run_bnd (ins : List In) : ∀ (c : C), Bnd c → Guarded c ins → Bnd (run c ins) := by
  induction ins with
  | nil => intro c h _; exact h
  | cons i ins ih =>
    intro c h hg
    unfold Guarded at hg
    show Bnd (run (step c i) ins)
    exact ih _ (step_bnd c i h hg.1) hg.2

theorem init_bnd (asserts : Bool) : Bnd (init asserts) := by
  unfold Bnd init
  constructor
  all_goals first
    | exact ⟨{}, rfl, ⟨rfl, fun k => by simp [phaseAt], rfl, rfl, rfl, rfl⟩⟩
    | simp [attempting, nRetry, held, specDelay, kInitRetryDelayMs]

/-- **the invariant holds after every guarded history from the initial state** -/
theorem reach_bnd (asserts : Bool) (ins : List In) (hg : Guarded (init asserts) ins) : Bnd (run (init asserts) ins) :=
  run_bnd ins _ (init_bnd asserts) hg

end MuduoVerif.Client
