/-!
Calendar arithmetic over Euclidean division (core Lean only; independent of the
generated definitions, so the expensive cycle checks below never have to be rebuilt
when /repo changes).

* `Civil`, `isLeap`, `daysInMonth`, `validDate`, `nextDay`, `civilFrom` — the proleptic
  Gregorian calendar, defined from its rules (the *specification*);
* `jdnE`, `ymdE` — the Julian-day-number algorithms with `/` = floor division; they are
  correct for **every** integer day number / year;
* `checkDays`, `checkYears` — executable checkers used by `decide +kernel` on one
  400-year cycle (Proofs/CalendarCycle*.lean), and their soundness lemmas.
-/
namespace MuduoVerif.CalendarE

structure Civil where
  year : Int
  month : Int
  day : Int
deriving DecidableEq, Repr

/-! ### the specification: Gregorian rules -/

abbrev isLeap (y : Int) : Prop := y % 4 = 0 ∧ (y % 100 ≠ 0 ∨ y % 400 = 0)

def daysInMonth (y m : Int) : Int :=
  if m = 2 then (if isLeap y then 29 else 28)
  else if m = 4 ∨ m = 6 ∨ m = 9 ∨ m = 11 then 30
  else 31

def validDate (y m d : Int) : Prop := 1 ≤ m ∧ m ≤ 12 ∧ 1 ≤ d ∧ d ≤ daysInMonth y m
instance (y m d : Int) : Decidable (validDate y m d) := inferInstanceAs (Decidable (_ ∧ _ ∧ _ ∧ _))

def Civil.valid (x : Civil) : Prop := validDate x.year x.month x.day
instance (x : Civil) : Decidable x.valid := inferInstanceAs (Decidable (validDate _ _ _))

/-- the day after `x` -/
def nextDay (x : Civil) : Civil :=
  if x.day < daysInMonth x.year x.month then { x with day := x.day + 1 }
  else if x.month < 12 then { x with month := x.month + 1, day := 1 }
  else { year := x.year + 1, month := 1, day := 1 }

/-- `n` days after `x`, by counting -/
def civilFrom (x : Civil) : Nat → Civil
  | 0 => x
  | n + 1 => nextDay (civilFrom x n)

/-! ### the algorithms over floor division -/

def jdnE (year month day : Int) : Int :=
  let a := (14 - month) / 12
  let y := year + 4800 - a
  let m := month + 12 * a - 3
  day + (153 * m + 2) / 5 + 365 * y + y / 4 - y / 100 + y / 400 - 32045

def ymdC (b c : Int) : Civil :=
  let d := (4 * c + 3) / 1461
  let e := c - (1461 * d) / 4
  let m := (5 * e + 2) / 153
  { day := e - (153 * m + 2) / 5 + 1, month := m + 3 - 12 * (m / 10), year := 100 * b + d - 4800 + m / 10 }

def ymdE (j : Int) : Civil :=
  let a := j + 32044
  let b := (4 * a + 3) / 146097
  ymdC b (a - (146097 * b) / 4)

def Civil.jdn (x : Civil) : Int := jdnE x.year x.month x.day

/-! ### 400-year periodicity -/

theorem jdnE_period (y m d : Int) : jdnE (y + 400) m d = jdnE y m d + 146097 := by
  simp only [jdnE]; omega

theorem ymdC_shift (b c : Int) : ymdC (b + 4) c = { ymdC b c with year := (ymdC b c).year + 400 } := by
  simp only [ymdC, Civil.mk.injEq, and_self, and_true]
  omega

theorem ymdE_period (j : Int) :
    ymdE (j + 146097) = { ymdE j with year := (ymdE j).year + 400 } := by
  have hb : (4 * (j + 146097 + 32044) + 3) / 146097 = (4 * (j + 32044) + 3) / 146097 + 4 := by omega
  have hc : j + 146097 + 32044 - 146097 * ((4 * (j + 32044) + 3) / 146097 + 4) / 4
      = j + 32044 - 146097 * ((4 * (j + 32044) + 3) / 146097) / 4 := by omega
  simp only [ymdE, hb, hc, ymdC_shift]

theorem isLeap_period (y : Int) : isLeap (y + 400) ↔ isLeap y := by
  simp only [isLeap]; omega

theorem daysInMonth_period (y m : Int) : daysInMonth (y + 400) m = daysInMonth y m := by
  simp only [daysInMonth, isLeap_period]

theorem validDate_period (y m d : Int) : validDate (y + 400) m d ↔ validDate y m d := by
  simp only [validDate, daysInMonth_period]

theorem jdnE_periodN (y m d : Int) (k : Nat) : jdnE (y + 400 * k) m d = jdnE y m d + 146097 * k := by
  induction k with
  | zero => simp
  | succ n ih =>
    have : y + 400 * ((n + 1 : Nat) : Int) = (y + 400 * n) + 400 := by omega
    rw [this, jdnE_period, ih]; omega

theorem ymdE_periodN (j : Int) (k : Nat) :
    ymdE (j + 146097 * k) = { ymdE j with year := (ymdE j).year + 400 * k } := by
  induction k with
  | zero => simp
  | succ n ih =>
    have : j + 146097 * ((n + 1 : Nat) : Int) = (j + 146097 * n) + 146097 := by omega
    rw [this, ymdE_period, ih]
    simp only [Civil.mk.injEq, and_self, and_true]; omega

theorem validDate_periodN (y m d : Int) (k : Nat) : validDate (y + 400 * k) m d ↔ validDate y m d := by
  induction k with
  | zero => simp
  | succ n ih =>
    have : y + 400 * ((n + 1 : Nat) : Int) = (y + 400 * n) + 400 := by omega
    rw [this, validDate_period, ih]

/-! ### checkers for one cycle (evaluated by the kernel) -/

/-- `k v`, written so that the kernel evaluates `v` to a literal first (it would otherwise
substitute the unevaluated term for every occurrence of the bound variable) -/
def withInt {α : Type} (v : Int) (k : Int → α) : α :=
  match v with
  | Int.ofNat n => (match n with | 0 => k 0 | m + 1 => k (Int.ofNat (m + 1)))
  | Int.negSucc n => (match n with | 0 => k (-1) | m + 1 => k (Int.negSucc (m + 1)))

theorem withInt_eq {α : Type} (v : Int) (k : Int → α) : withInt v k = k v := by
  unfold withInt
  split
  · split <;> rfl
  · split <;> rfl

def leapB (y : Int) : Bool := y % 4 == 0 && (y % 100 != 0 || y % 400 == 0)
def dimB (y m : Int) : Int :=
  if m == 2 then (if leapB y then 29 else 28) else if m == 4 || m == 6 || m == 9 || m == 11 then 30 else 31

theorem dimB_eq (y m : Int) : dimB y m = daysInMonth y m := by
  simp only [dimB, daysInMonth, leapB, isLeap, beq_iff_eq, Bool.or_eq_true, Bool.and_eq_true, bne_iff_ne, ne_eq]
  repeat' split
  all_goals first | rfl | omega

/-- day `j`: the computed date is a valid civil date and maps back to `j` -/
def dayOk (j : Int) : Bool :=
  match ymdE j with
  | ⟨y, m, d⟩ => withInt y fun y => withInt m fun m => withInt d fun d =>
    decide (1 ≤ m) && decide (m ≤ 12) && decide (1 ≤ d) && decide (d ≤ dimB y m) && (jdnE y m d == j)

theorem dayOk_sound (j : Int) (h : dayOk j = true) : (ymdE j).valid ∧ (ymdE j).jdn = j := by
  unfold dayOk at h
  simp only [withInt_eq, Bool.and_eq_true, decide_eq_true_eq, beq_iff_eq, dimB_eq] at h
  exact ⟨⟨h.1.1.1.1, h.1.1.1.2, h.1.1.2, h.1.2⟩, h.2⟩

/-- `dayOk` for the `n` days from `j` on -/
def checkDays (j : Int) : Nat → Bool
  | 0 => true
  | n + 1 => dayOk j && checkDays (j + 1) n

theorem checkDays_sound (j : Int) (n : Nat) (h : checkDays j n = true) (i : Int) (h1 : j ≤ i) (h2 : i < j + n) :
    (ymdE i).valid ∧ (ymdE i).jdn = i := by
  induction n generalizing j with
  | zero => omega
  | succ n ih =>
    simp only [checkDays, Bool.and_eq_true] at h
    by_cases hi : i = j
    · subst hi; exact dayOk_sound i h.1
    · exact ih (j + 1) h.2 (by omega) (by omega)

/-- date `y-m-d` maps to a day number that maps back to it -/
def dateOk (y m d : Int) : Bool :=
  withInt (jdnE y m d) fun j =>
    match ymdE j with
    | ⟨y', m', d'⟩ => y' == y && m' == m && d' == d

theorem dateOk_sound (y m d : Int) (h : dateOk y m d = true) : ymdE (jdnE y m d) = ⟨y, m, d⟩ := by
  unfold dateOk at h
  simp only [withInt_eq, Bool.and_eq_true, beq_iff_eq] at h
  cases hx : ymdE (jdnE y m d) with
  | mk a b c => rw [hx] at h; simp only at h; rw [h.1.1, h.1.2, h.2]

/-- days `d .. d+n-1` of month `m` -/
def checkMonthDays (y m d : Int) : Nat → Bool
  | 0 => true
  | n + 1 => dateOk y m d && checkMonthDays y m (d + 1) n

/-- months `m .. m+n-1` of year `y`, each with all its days -/
def checkMonths (y m : Int) : Nat → Bool
  | 0 => true
  | n + 1 => checkMonthDays y m 1 (dimB y m).toNat && checkMonths y (m + 1) n

def checkYears (y : Int) : Nat → Bool
  | 0 => true
  | n + 1 => checkMonths y 1 12 && checkYears (y + 1) n

theorem checkMonthDays_sound (y m d0 : Int) (n : Nat) (h : checkMonthDays y m d0 n = true)
    (d : Int) (h1 : d0 ≤ d) (h2 : d < d0 + n) : ymdE (jdnE y m d) = ⟨y, m, d⟩ := by
  induction n generalizing d0 with
  | zero => omega
  | succ n ih =>
    simp only [checkMonthDays, Bool.and_eq_true] at h
    by_cases hd : d = d0
    · subst hd; exact dateOk_sound y m d h.1
    · exact ih (d0 + 1) h.2 (by omega) (by omega)

theorem checkMonths_sound (y m0 : Int) (n : Nat) (h : checkMonths y m0 n = true)
    (m d : Int) (h1 : m0 ≤ m) (h2 : m < m0 + n) (hd1 : 1 ≤ d) (hd2 : d ≤ daysInMonth y m) :
    ymdE (jdnE y m d) = ⟨y, m, d⟩ := by
  induction n generalizing m0 with
  | zero => omega
  | succ n ih =>
    simp only [checkMonths, Bool.and_eq_true] at h
    by_cases hm : m = m0
    · subst hm
      rw [dimB_eq] at h
      exact checkMonthDays_sound y m 1 _ h.1 d hd1 (by omega)
    · exact ih (m0 + 1) h.2 (by omega) (by omega)

theorem checkYears_sound (y0 : Int) (n : Nat) (h : checkYears y0 n = true)
    (y m d : Int) (h1 : y0 ≤ y) (h2 : y < y0 + n) (hv : validDate y m d) :
    ymdE (jdnE y m d) = ⟨y, m, d⟩ := by
  induction n generalizing y0 with
  | zero => omega
  | succ n ih =>
    simp only [checkYears, Bool.and_eq_true] at h
    by_cases hy : y = y0
    · subst hy
      exact checkMonths_sound y 1 12 h.1 m d hv.1 (by have := hv.2.1; omega) hv.2.2.1 hv.2.2.2
    · exact ih (y0 + 1) h.2 (by omega) (by omega)

end MuduoVerif.CalendarE
