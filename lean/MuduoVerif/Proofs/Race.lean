import MuduoVerif.Model.Race
/-! Lemmas of the race model: happens-before basics, the lock lemma, soundness of the
discipline, the model of the owner-thread assertion. -/
namespace MuduoVerif.Race

theorem HB.lt {tr : Trace} {i j : Nat} (h : HB tr i j) : i < j := by
  induction h with
  | po h _ _ => exact h
  | sw h _ _ => exact h
  | fork h _ _ => exact h
  | join h _ _ => exact h
  | queue h _ _ => exact h
  | trans _ _ ih₁ ih₂ => exact Nat.lt_trans ih₁ ih₂

theorem HB.inBounds {tr : Trace} {i j : Nat} (h : HB tr i j) : j < tr.length := by
  have aux : ∀ {k : Nat} {e : Event}, tr[k]? = some e → k < tr.length := by
    intro k e hk
    exact (List.getElem?_eq_some_iff.mp hk).1
  induction h with
  | po _ _ h => exact aux h
  | sw _ _ h => exact aux h
  | fork _ _ h => exact aux h
  | join _ _ h => exact aux h
  | queue _ _ h => exact aux h
  | trans _ _ _ ih₂ => exact ih₂

/-- the heart of the lockset argument: if thread `t` holds `m` at its event `i`, thread `u ≠ t`
holds `m` at the later position `j`, and event `i` is not itself `t`'s release of `m`, then `t`
released `m` after `i` and `u` acquired it after that release: `i` happens-before `j`. -/
theorem lock_orders {tr : Trace} (wf : WellFormed tr) {i j : Nat} {t u : Tid} {m : Mtx} {e e' : Ev}
    (hij : i < j) (hi : tr[i]? = some ⟨t, e⟩) (hj : tr[j]? = some ⟨u, e'⟩) (hne : t ≠ u)
    (hrel : e ≠ .rel m) (ht : Holds tr t m i) (hu : Holds tr u m j) : HB tr i j := by
  obtain ⟨a, hai, haq, hanr⟩ := ht
  obtain ⟨b, hbj, hbq, hbnr⟩ := hu
  have hab : a ≠ b := by
    intro h
    subst h
    rw [haq] at hbq
    exact hne (by injection hbq with h; injection h)
  rcases Nat.lt_or_gt_of_ne hab with hlt | hgt
  · -- `t` acquired first: at `b` nobody holds `m`, so `t` released in between, necessarily after `i`
    have hnot := wf b u m hbq t
    have hex : ∃ r, r < b ∧ a < r ∧ tr[r]? = some ⟨t, .rel m⟩ := by
      apply Classical.byContradiction
      intro hno
      apply hnot
      refine ⟨a, hlt, haq, ?_⟩
      intro k hkb hak hk
      exact hno ⟨k, hkb, hak, hk⟩
    obtain ⟨r, hrb, har, hr⟩ := hex
    have hir : i < r := by
      rcases Nat.lt_trichotomy r i with h | h | h
      · exact absurd hr (hanr r h har)
      · subst h
        rw [hi] at hr
        exact absurd (by injection hr with h; injection h) hrel
      · exact h
    have h1 : HB tr i r := HB.po hir hi hr
    have h2 : HB tr r b := HB.sw hrb hr hbq
    have h3 : HB tr b j := HB.po hbj hbq hj
    exact HB.trans h1 (HB.trans h2 h3)
  · -- `u` acquired first and still holds `m` at `a`, where `t` acquires it: excluded
    exfalso
    apply wf a t m haq u
    refine ⟨b, hgt, hbq, ?_⟩
    intro k hka hbk
    exact hbnr k (Nat.lt_trans hka (Nat.lt_trans hai hij)) hbk

/-- an access event is not a release -/
theorem access_not_rel {e : Ev} {x : Loc} {m : Mtx} (h : e.loc? = some x) : e ≠ .rel m := by
  intro he
  subst he
  simp [Ev.loc?] at h

/-- **soundness of the discipline** (lockset theorem), for every trace -/
theorem respects_raceFree {tr : Trace} {pol : Loc → Disc} (wf : WellFormed tr)
    (hr : Respects tr pol) : RaceFree tr := by
  intro i j t u e e' x hi hj hne hc
  rcases hr i t e x hi with hinit | hok
  · exact Or.inl (hinit j u e' hj (Ne.symm hne))
  rcases hr j u e' x hj with hinit | hok'
  · exact Or.inr (hinit i t e hi hne)
  -- both accesses obey the discipline of `x`
  cases hp : pol x with
  | immutable =>
    rw [hp] at hok hok'
    simp only [DiscOk] at hok hok'
    rcases hc.1 with h | h
    · rw [hok] at h; cases h
    · rw [hok'] at h; cases h
  | atomic =>
    rw [hp] at hok hok'
    exact absurd ⟨hok, hok'⟩ hc.2
  | guarded m =>
    rw [hp] at hok hok'
    simp only [DiscOk] at hok hok'
    have hijne : i ≠ j := by
      intro h
      subst h
      have := hi.1.symm.trans hj.1
      exact hne (by injection this with h; injection h)
    rcases Nat.lt_or_gt_of_ne hijne with hlt | hgt
    · exact Or.inl (lock_orders wf hlt hi.1 hj.1 hne (access_not_rel hi.2) hok hok')
    · exact Or.inr (lock_orders wf hgt hj.1 hi.1 (Ne.symm hne) (access_not_rel hj.2) hok' hok)
  | confined o =>
    rw [hp] at hok hok'
    simp only [DiscOk] at hok hok'
    exact absurd (hok.trans hok'.symm) hne
  | unused =>
    rw [hp] at hok
    exact hok.elim

/-! ### the owner-thread assertion -/

theorem runOp_access_prefix (o t : Tid) (pre : List Ev) (rest : List Act) :
    runOp o t (pre.map Act.access ++ rest) = pre.map (fun e => ⟨t, e⟩) ++ runOp o t rest := by
  induction pre with
  | nil => rfl
  | cons e pre ih => simp [runOp, ih]

/-- on a foreign thread a guarded operation executes its debug-only reads and aborts: no event
of the body occurs -/
theorem runOp_foreign (o t : Tid) (pre : List Ev) (body : List Act) (h : t ≠ o) :
    runOp o t (pre.map Act.access ++ Act.assertOwner :: body)
      = pre.map (fun e => ⟨t, e⟩) ++ [⟨t, .abort⟩] := by
  rw [runOp_access_prefix]
  simp [runOp, h]

/-- on the owner thread the assertion is transparent -/
theorem runOp_owner (o : Tid) (pre : List Ev) (body : List Act) :
    runOp o o (pre.map Act.access ++ Act.assertOwner :: body)
      = pre.map (fun e => ⟨o, e⟩) ++ runOp o o body := by
  rw [runOp_access_prefix]
  simp [runOp]

/-! ### from table rows to trace events (what "contexts are truthful" means) -/

/-- the trace-level discipline that a table-level policy stands for, given the instance data of
one object: which mutex id its member `m` is, and which thread owns its loop / the object -/
def Policy.disc (mtx : String → Mtx) (owner : Tid) : Policy → Disc
  | .immutable => .immutable
  | .atomic => .atomic
  | .guarded m => .guarded (mtx m)
  | .confined => .confined owner
  | .owner => .confined owner
  | .sync => .unused
  | .ctorOnly => .unused

/-- the event a row of kind `k` stands for -/
def kindMatches : AKind → Ev → Prop
  | .rd, e => ∃ x, e = .rd x
  | .call, e => ∃ x, e = .rd x          -- the pointer is read; the callee is another function's business
  | .wr, e => ∃ x, e = .wr x ∨ e = .rd x -- "may write" (conservative classification)
  | .ard, e => ∃ x, e = .ard x
  | .awr, e => ∃ x, e = .awr x ∨ e = .ard x

/-- **one row, one event.**  If a row passes `selfOk` and its context is *truthful* for an event of
thread `t` — the thread holds every mutex the row lists, an owner check in the row means `t` is the
owner, the single-owner API and (as `assert_aborts` shows, for any execution that gets past the
assertion) loop-confined operations run on the owner — then the event obeys the trace-level
discipline its member's policy stands for.  (Rows on synchronisation members are not accesses in
the trace model: their operations are the `acq/rel/fork/join` events.) -/
theorem selfOk_discOk {tr : Trace} {i : Nat} {t : Tid} {e : Ev} {p : Policy} {k : AKind}
    {locks : List String} {cctx own ar : Bool} (mtx : String → Mtx) (owner : Tid)
    (hk : kindMatches k e) (hsync : p ≠ .sync)
    (hlocks : ∀ m, locks.contains m = true → Holds tr t (mtx m) i)
    (hctx : cctx = true → t = owner) (hown : own = true → t = owner) (har : ar = true → t = owner)
    (hok : selfOk p k locks cctx own ar = true) : DiscOk tr (p.disc mtx owner) i t e := by
  cases p with
  | immutable =>
    simp only [selfOk, Bool.or_eq_true, beq_iff_eq] at hok
    simp only [Policy.disc, DiscOk]
    rcases hok with h | h <;> subst h <;> obtain ⟨x, rfl⟩ := hk <;> rfl
  | atomic =>
    simp only [selfOk, Bool.or_eq_true, beq_iff_eq] at hok
    simp only [Policy.disc, DiscOk]
    rcases hok with h | h <;> subst h
    · obtain ⟨x, rfl⟩ := hk; rfl
    · obtain ⟨x, rfl | rfl⟩ := hk <;> rfl
  | guarded m =>
    simp only [selfOk] at hok
    exact hlocks m hok
  | confined =>
    simp only [selfOk, Bool.or_eq_true] at hok
    simp only [Policy.disc, DiscOk]
    rcases hok with h | h
    · exact hctx h
    · exact har h
  | owner =>
    simp only [selfOk] at hok
    exact hown hok
  | sync => exact absurd rfl hsync
  | ctorOnly => simp [selfOk] at hok

end MuduoVerif.Race
