import MuduoVerif.Proofs.ClientOps
/-!
Monotonicity inside one loop iteration: every function the loop runs only appends to the trace
and to the functor queue, never un-destroys or revives a connection, never takes a new reference
to a connection that is already down.  (Used for the "leads to" theorems.)
-/
namespace MuduoVerif.Client
open MuduoVerif.Gen.Client

structure Grow (c c' : C) : Prop where
  tr : c.trace <+: c'.trace
  pend : c.pending <+: c'.pending
  conn : ∀ k x, findIn c.conns k = some x → ∃ x', findIn c'.conns k = some x' ∧
           x'.destroyed = x.destroyed ∧ (x.st = .disconnected → x'.st = .disconnected) ∧
           x'.userRef = x.userRef ∧ x'.closeCb = x.closeCb
  alive : c'.clientAlive = c.clientAlive
  hold : ∀ k x, findIn c.conns k = some x → x.st = .disconnected → ∀ t ∈ c'.pending, t.holds k = true → t ∈ c.pending
  nostop : .stopInLoop ∈ c'.pending → .stopInLoop ∈ c.pending

theorem Grow.rfl' (c : C) : Grow c c :=
  ⟨List.prefix_refl _, List.prefix_refl _, fun _ x h => ⟨x, h, rfl, id, rfl, rfl⟩, rfl, fun _ _ _ _ _ ht _ => ht, id⟩

theorem Grow.trans {a b c : C} (h1 : Grow a b) (h2 : Grow b c) : Grow a c := by
  refine ⟨h1.tr.trans h2.tr, h1.pend.trans h2.pend, ?_, h2.alive.trans h1.alive, ?_, fun h => h1.nostop (h2.nostop h)⟩
  · intro k x hx
    obtain ⟨x1, hx1, e1, e2, e3, e4⟩ := h1.conn k x hx
    obtain ⟨x2, hx2, f1, f2, f3, f4⟩ := h2.conn k x1 hx1
    exact ⟨x2, hx2, f1.trans e1, fun h => f2 (e2 h), f3.trans e3, f4.trans e4⟩
  · intro k x hx hst t ht hh
    obtain ⟨x1, hx1, _, e2, _, _⟩ := h1.conn k x hx
    exact h1.hold k x hx hst t (h2.hold k x1 hx1 (e2 hst) t ht hh) hh

/-- same connections, the queue grows by functors that hold no connection -/
theorem Grow.frame {c c' : C} (ht : c.trace <+: c'.trace) (hc : c'.conns = c.conns) (ha : c'.clientAlive = c.clientAlive)
    (hp : ∃ d, c'.pending = c.pending ++ d ∧ ∀ t ∈ d, t ≠ .stopInLoop ∧ ∀ k, t.holds k = false) : Grow c c' := by
  obtain ⟨d, hd, hnh⟩ := hp
  refine ⟨ht, ⟨d, hd.symm⟩, ?_, ha, ?_, ?_⟩
  rotate_left 2
  · intro h; rw [hd] at h
    rcases List.mem_append.mp h with h | h
    · exact h
    · exact absurd rfl (hnh _ h).1
  · intro k x hx; rw [hc]; exact ⟨x, hx, rfl, id, rfl, rfl⟩
  · intro k x _ _ t ht hh
    rw [hd] at ht
    rcases List.mem_append.mp ht with h | h
    · exact h
    · rw [(hnh t h).2 k] at hh; cases hh

macro "grow_frame" : tactic =>
  `(tactic| (apply Grow.frame <;>
      first
        | rfl
        | (refine ⟨[], ?_, ?_⟩ <;> simp <;> done)
        | (refine ⟨[Task.resetChannel], ?_, ?_⟩ <;> simp [Task.holds] <;> done)
        | (refine ⟨[Task.startCycle], ?_, ?_⟩ <;> simp [Task.holds] <;> done)
        | simp))

theorem closeSock_grow (c : C) (k : Nat) : Grow c (closeSock c k) := by
  unfold closeSock; grow_frame

theorem retry_grow (c : C) (k : Nat) : Grow c (retry c k) := by
  unfold retry closeSock
  simp only
  repeat' split
  all_goals grow_frame

theorem connecting_grow (c : C) (k : Nat) : Grow c (connecting c k) := by
  unfold connecting die
  repeat' split
  all_goals grow_frame

theorem env_grow (c : C) (e1 : List Nat) (e2 : List Nat) (e3 : List Bool) (e4 : List (Option Nat)) (b : Bool) :
    Grow c { c with envConnect := e1, envSoErr := e2, envSelf := e3, envRead := e4, starved := b } := by
  grow_frame

theorem connect_grow (c : C) : Grow c (connect c) := by
  unfold connect
  simp only
  obtain ⟨e, b, he⟩ := popConnect_snd ({ c with nsock := c.nsock + 1, sockSt := c.sockSt ++ [SockSt.opened], trace := c.trace ++ [Ev.sockCreated c.nsock, Ev.attempt c.nsock c.now] } : C)
  rw [he]
  have h0 : Grow c ({ c with nsock := c.nsock + 1, sockSt := c.sockSt ++ [SockSt.opened], trace := c.trace ++ [Ev.sockCreated c.nsock, Ev.attempt c.nsock c.now], envConnect := e, starved := b } : C) := by
    grow_frame
  split
  · exact h0.trans (connecting_grow _ _)
  · exact h0.trans (retry_grow _ _)
  · exact h0.trans (closeSock_grow _ _)

theorem startInLoop_grow (c : C) : Grow c (startInLoop c) := by
  unfold startInLoop die
  split
  · grow_frame
  · split
    · exact connect_grow c
    · exact Grow.rfl' c

theorem startCycle_grow (c : C) : Grow c (startCycle c) := by
  unfold startCycle
  refine Grow.trans ?_ (startInLoop_grow _)
  grow_frame

theorem restart_grow (c : C) : Grow c (restart c) := by
  unfold restart
  refine Grow.trans ?_ (startInLoop_grow _)
  grow_frame

theorem stopInLoop_grow (c : C) : Grow c (stopInLoop c) := by
  unfold stopInLoop die
  split
  · split
    · split
      · refine Grow.trans ?_ (retry_grow _ _); grow_frame
      · refine Grow.trans ?_ (retry_grow _ _); grow_frame
    · grow_frame
  · exact Grow.rfl' c

theorem resetChannel_grow (c : C) : Grow c (resetChannel c) := by
  unfold resetChannel die
  split <;> grow_frame

theorem reapConnector_grow (c : C) : Grow c (reapConnector c) := by
  unfold reapConnector die
  repeat' split
  all_goals first | exact Grow.rfl' c | grow_frame

theorem newConnection_grow (c : C) (k : Nat) (hn : findIn c.conns k = none) : Grow c (newConnection c k) := by
  unfold newConnection die
  split
  · refine ⟨by simp, List.prefix_refl _, ?_, rfl, fun _ _ _ _ _ ht _ => ht, id⟩
    intro j x hx
    refine ⟨x, ?_, rfl, id, rfl, rfl⟩
    show findIn (c.conns ++ [{ sock := k }]) j = some x
    rw [findIn_append_new _ rfl, hx]; simp
  · grow_frame

theorem handleError_grow (c : C) : Grow c (handleError c) := by
  unfold handleError die
  split
  · split
    · simp only
      rw [popSoErr_eq]
      refine Grow.trans ?_ (retry_grow _ _)
      grow_frame
    · grow_frame
  · exact Grow.rfl' c

theorem handleWrite_grow (c : C) (hopen : ∀ k, c.chan = some k → findIn c.conns k = none) : Grow c (handleWrite c) := by
  unfold handleWrite die
  split
  · split
    · rename_i k hk
      simp only
      rw [popSoErr_eq]
      split
      · refine Grow.trans ?_ (retry_grow _ _); grow_frame
      · rw [popSelf_eq]
        split
        · refine Grow.trans ?_ (retry_grow _ _); grow_frame
        · split
          · refine Grow.trans ?_ (newConnection_grow _ _ (hopen k hk)); grow_frame
          · refine Grow.trans ?_ (closeSock_grow _ _); grow_frame
    · grow_frame
  · split
    · grow_frame
    · exact Grow.rfl' c

theorem retry_chan (c : C) (k : Nat) : (retry c k).chan = c.chan := by
  unfold retry closeSock; simp only; repeat' split
  all_goals rfl

theorem handleError_chan (c : C) : (handleError c).chan = c.chan ∧ (handleError c).conns = c.conns := by
  unfold handleError die
  split
  · split
    · simp only
      rw [popSoErr_eq]
      exact ⟨by rw [retry_chan], by rw [retry_conns]⟩
    · exact ⟨rfl, rfl⟩
  · exact ⟨rfl, rfl⟩

theorem dispatchConnector_grow (c : C) (rev : Nat) (hopen : ∀ k, c.chan = some k → findIn c.conns k = none) :
    Grow c (dispatchConnector c rev) := by
  unfold dispatchConnector
  split
  · split
    · dsimp only
      split
      · exact handleError_grow c
      · split
        · refine (handleError_grow c).trans (handleWrite_grow _ ?_)
          intro k hk
          rw [(handleError_chan c).1] at hk; rw [(handleError_chan c).2]; exact hopen k hk
        · exact handleError_grow c
    · dsimp only
      split
      · exact Grow.rfl' c
      · split
        · exact handleWrite_grow c hopen
        · exact Grow.rfl' c
  · exact Grow.rfl' c

theorem die_grow {c c1 : C} (e : Ev) (h : Grow c c1) : Grow c (die c1 e) :=
  h.trans (by unfold die; grow_frame)

/-- DOWN of a connection that is up -/
theorem handleClose_grow (c : C) (j : Nat) (xj : ConnRec) (hj : findIn c.conns j = some xj) (hst : xj.st ≠ .disconnected) :
    Grow c (handleClose c j) := by
  have h1 : Grow c { c with conns := c.conns.map (updRec j goDown), trace := c.trace ++ [.down j], pending := c.pending ++ [.connectDestroyed j] } := by
    refine ⟨by simp, by simp, ?_, rfl, ?_, by simp⟩
    · intro k x hx
      refine ⟨updRec j goDown x, ?_, ?_, ?_, ?_, ?_⟩
      · show findIn (c.conns.map (updRec j goDown)) k = _
        rw [findIn_upd j k goDown (fun _ => rfl), hx]; rfl
      all_goals (unfold updRec goDown; split <;> simp)
    · intro k x hx hxs t ht hh
      simp only [List.mem_append, List.mem_singleton] at ht
      rcases ht with ht | rfl
      · exact ht
      · have : j = k := by simpa [Task.holds] using hh
        subst this; rw [hj] at hx; cases hx; exact absurd hxs hst
  have h0 : Grow c { c with conns := c.conns.map (updRec j goDown), trace := c.trace ++ [.down j] } :=
    ⟨h1.tr, List.prefix_refl _, h1.conn, rfl, fun _ _ _ _ _ ht _ => ht, id⟩
  have h2 : Grow c { c with conns := c.conns.map (updRec j goDown), trace := c.trace ++ [.down j], connection := none, pending := c.pending ++ [.connectDestroyed j] } :=
    ⟨h1.tr, h1.pend, h1.conn, h1.alive, h1.hold, h1.nostop⟩
  unfold handleClose
  simp only
  split
  · exact h1
  · split
    · exact die_grow _ h0
    · split
      · exact die_grow _ h0
      · split
        · exact h2.trans (restart_grow _)
        · exact h2

theorem handleRead_grow (c : C) (j : Nat) (xj : ConnRec) (hj : findIn c.conns j = some xj) (hst : xj.st ≠ .disconnected) :
    Grow c (handleRead c j) := by
  unfold handleRead
  simp only
  rw [popRead_eq]
  have h0 : Grow c ({ c with envRead := (popRead c).2.envRead, starved := (popRead c).2.starved } : C) := by grow_frame
  split
  · exact h0.trans (handleClose_grow _ j xj hj hst)
  · exact h0

theorem dispatchConn_grow (c : C) (r : List Task) (ph : Bool) (hi : Mid c r ph) (j rev : Nat) :
    Grow c (dispatchConn c j rev) := by
  unfold dispatchConn
  rw [findConn_eq]
  split
  · exact Grow.rfl' c
  · rename_i x hx
    split
    · exact Grow.rfl' c
    · rename_i hcond
      simp only [not_or, Decidable.not_not] at hcond
      have hon' : x.chanOn = true := by simpa using hcond.2.1
      have hst := hi.c3 x (findIn_some hx).1 hon'
      by_cases hdc : MuduoVerif.Gen.Conn.dispClose rev ∧ MuduoVerif.Gen.Conn.dispCloseSub false true false
      · simp only [hdc, and_self, if_true]
        have h1 := handleClose_grow c j x hx hst
        split
        · exact h1
        · have hoff : ((findConn (handleClose c j) j).map (·.chanOn)).getD false = false := by
            rw [findConn_eq, handleClose_conns, findIn_upd j j goDown (fun _ => rfl), hx]
            simp [updRec, (findIn_some hx).2, goDown]
          rw [hoff, if_neg (by simp [MuduoVerif.Gen.Conn.dispReadSub])]
          exact h1
      · simp only [hdc, if_false]
        split
        · exact Grow.rfl' c
        · split
          · exact handleRead_grow c j x hx hst
          · exact Grow.rfl' c

theorem fire_fold_grow (due : List (Nat × TKind)) (c : C) : Grow c (due.foldl fireOne c) := by
  induction due generalizing c with
  | nil => exact Grow.rfl' c
  | cons t due ih =>
    rw [List.foldl_cons]
    refine Grow.trans ?_ (ih _)
    unfold fireOne
    split
    · exact Grow.rfl' c
    · split
      · exact startInLoop_grow c
      · exact Grow.rfl' c

theorem fireTimers_grow (c : C) : Grow c (fireTimers c) := by
  rw [fireTimers_eq]
  simp only
  have h0 : Grow c ({ c with timers := c.timers.filter (fun t => decide (¬ t.1 ≤ c.now)) } : C) := by grow_frame
  have h1 := h0.trans (fire_fold_grow (c.timers.filter (fun t => decide (t.1 ≤ c.now))) _)
  split
  · exact h1
  · exact h1.trans (reapConnector_grow _)

theorem dispatch_grow (c : C) (s : Src) (hi : Mid c [] false) : Grow c (dispatch c s) := by
  cases s with
  | timer => exact fireTimers_grow c
  | connector rev =>
    show Grow c (dispatchConnector c rev)
    by_cases hon : c.chanOn = true
    · apply dispatchConnector_grow
      intro k hk
      obtain ⟨k', hk', hop⟩ := hi.a3 hon
      rw [hk] at hk'; cases hk'
      rw [findIn_none_iff]; intro x hx he
      have := hi.c1 x hx; rw [he, hop] at this; cases this
    · unfold dispatchConnector
      rw [if_neg (by simp [hon])]
      exact Grow.rfl' c
  | conn k rev => exact dispatchConn_grow c [] false hi k rev

theorem dispatch_fold_grow (active : List Src) (c : C) (hi : Mid c [] false) :
    Grow c (active.foldl (fun (c : C) s => if c.dead then c else dispatch c s) c) := by
  induction active generalizing c with
  | nil => exact Grow.rfl' c
  | cons s active ih =>
    rw [List.foldl_cons, if_neg (by simp [hi.notDead])]
    exact (dispatch_grow c s hi).trans (ih _ (dispatch_mid c [] s hi))

theorem connectDestroyed_grow (c : C) (j : Nat) (x : ConnRec) (hx : findIn c.conns j = some x) (hst : x.st = .disconnected) :
    Grow c (connectDestroyed c j) := by
  unfold connectDestroyed
  rw [findConn_eq, hx]
  simp only
  rw [if_neg (by rw [hst]; simp), updConn_eq]
  refine ⟨List.prefix_refl _, List.prefix_refl _, ?_, rfl, fun _ _ _ _ _ ht _ => ht, id⟩
  intro k y hy
  refine ⟨updRec j chanOff y, ?_, ?_, ?_, ?_, ?_⟩
  · show findIn (c.conns.map (updRec j chanOff)) k = _
    rw [findIn_upd j k chanOff (fun _ => rfl), hy]; rfl
  all_goals (unfold updRec chanOff; split <;> simp)

theorem runTask_grow (c : C) (r : List Task) (t : Task) (hi : Mid c (t :: r) true) : Grow c (runTask c t) := by
  cases t with
  | startCycle => unfold runTask; simp only; split; exact startCycle_grow c; exact die_grow _ (Grow.rfl' c)
  | stopInLoop => unfold runTask; simp only; split; exact stopInLoop_grow c; exact die_grow _ (Grow.rfl' c)
  | resetChannel => unfold runTask; simp only; split; exact resetChannel_grow c; exact die_grow _ (Grow.rfl' c)
  | connectDestroyed k =>
    obtain ⟨x, hx, hst⟩ := hi.c9 k (by simp)
    exact connectDestroyed_grow c k x hx hst
  | shutdownInLoop k =>
    unfold runTask; simp only
    split
    · split
      · exact die_grow _ (Grow.rfl' c)
      · exact Grow.rfl' c
    · unfold emit; grow_frame
  | forceCloseInLoop k =>
    obtain ⟨x, hx, hcb⟩ := hi.c8 k (by simp)
    have hcs : connSt c k = x.st := by simp [connSt, findConn_eq, hx]
    unfold runTask; simp only; rw [hcs]
    split
    · rename_i hst
      exact handleClose_grow c k x hx (by rcases hst with h | h <;> rw [h] <;> simp)
    · exact Grow.rfl' c
  | setCloseCb k => have := hi.a13 (.setCloseCb k) (by simp); cases this
  | addTimer d kd => have := hi.a13 (.addTimer d kd) (by simp); cases this

theorem task_fold_grow (rest : List Task) (c : C) (hi : Mid c rest true) :
    Grow c (rest.foldl (fun (c : C) t => if c.dead then c else runTask c t) c) := by
  induction rest generalizing c with
  | nil => exact Grow.rfl' c
  | cons t rest ih =>
    rw [List.foldl_cons, if_neg (by simp [hi.notDead])]
    exact (runTask_grow c rest t hi).trans (ih _ (runTask_mid c rest t hi))

end MuduoVerif.Client
