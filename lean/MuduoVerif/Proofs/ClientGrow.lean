import MuduoVerif.Proofs.ClientOps
import MuduoVerif.Proofs.ClientTrace
/-!
Monotonicity inside one loop iteration: every function the loop runs only appends to the trace
and to the functor queue, never un-destroys or revives a connection, never takes a new reference
to a connection that is already down.  (Used for the "leads to" theorems.)
-/
namespace MuduoVerif.Client
open MuduoVerif.Gen.Client

structure Grow (c c' : C) : Prop where
  tr : c.trace <+: c'.trace
  pend : c.pending <+: c'.pending
  conn : ∀ k x, findIn c.conns k = some x → ∃ x', findIn c'.conns k = some x' ∧
           x'.destroyed = x.destroyed ∧ (x.st = .disconnected → x'.st = .disconnected) ∧
           x'.userRef = x.userRef ∧ x'.closeCb = x.closeCb
  alive : c'.clientAlive = c.clientAlive
  hold : ∀ k x, findIn c.conns k = some x → x.st = .disconnected → ∀ t ∈ c'.pending, t.holds k = true → t ∈ c.pending
  /-- nobody stops the connector on behalf of a client that is gone -/
  nostop : c.clientAlive = false → .stopInLoop ∈ c'.pending → .stopInLoop ∈ c.pending
  /-- the operations registered for the UP callback are consumed front to back -/
  hsuf : c'.hooksUp <:+ c.hooksUp
  /-- if `disconnect()` was the next operation of the UP callback and the callback ran, then the connection it
  reported has its half-close queued (and exists) -/
  hup : ∀ rest, c.hooksUp = HookOp.disconnect :: rest → c'.hooksUp ≠ c.hooksUp →
          ∃ k, Ev.up k ∈ c'.trace ∧ Ev.up k ∉ c.trace ∧ Task.shutdownInLoop k ∈ c'.pending ∧
            ∃ x, findIn c'.conns k = some x ∧ x.destroyed = false
  /-- an UP report runs the callback: it consumes the next registered operation (if there is one) -/
  upq : ∀ k, Ev.up k ∈ c'.trace → Ev.up k ∉ c.trace → c.hooksUp = [] ∨ c'.hooksUp ≠ c.hooksUp

/-- a step that reports no UP and leaves the callback's operations alone -/
theorem Grow.quiet {c c' : C} (tr : c.trace <+: c'.trace) (pend : c.pending <+: c'.pending)
    (conn : ∀ k x, findIn c.conns k = some x → ∃ x', findIn c'.conns k = some x' ∧
           x'.destroyed = x.destroyed ∧ (x.st = .disconnected → x'.st = .disconnected) ∧
           x'.userRef = x.userRef ∧ x'.closeCb = x.closeCb)
    (alive : c'.clientAlive = c.clientAlive)
    (hold : ∀ k x, findIn c.conns k = some x → x.st = .disconnected → ∀ t ∈ c'.pending, t.holds k = true → t ∈ c.pending)
    (nostop : c.clientAlive = false → .stopInLoop ∈ c'.pending → .stopInLoop ∈ c.pending)
    (hq : c'.hooksUp = c.hooksUp) (hnu : ∀ k, Ev.up k ∈ c'.trace → Ev.up k ∈ c.trace) : Grow c c' :=
  ⟨tr, pend, conn, alive, hold, nostop, by rw [hq]; exact List.suffix_refl _, fun _ _ h => absurd hq h,
   fun k h1 h2 => absurd (hnu k h1) h2⟩

theorem Grow.rfl' (c : C) : Grow c c :=
  Grow.quiet (List.prefix_refl _) (List.prefix_refl _) (fun _ x h => ⟨x, h, rfl, id, rfl, rfl⟩) rfl
    (fun _ _ _ _ _ ht _ => ht) (fun _ => id) rfl (fun _ => id)

theorem Grow.trans {a b c : C} (h1 : Grow a b) (h2 : Grow b c) : Grow a c := by
  refine ⟨h1.tr.trans h2.tr, h1.pend.trans h2.pend, ?_, h2.alive.trans h1.alive, ?_,
    fun ha h => h1.nostop ha (h2.nostop (h1.alive.trans ha) h), h2.hsuf.trans h1.hsuf, ?_, ?_⟩
  · intro k x hx
    obtain ⟨x1, hx1, e1, e2, e3, e4⟩ := h1.conn k x hx
    obtain ⟨x2, hx2, f1, f2, f3, f4⟩ := h2.conn k x1 hx1
    exact ⟨x2, hx2, f1.trans e1, fun h => f2 (e2 h), f3.trans e3, f4.trans e4⟩
  · intro k x hx hst t ht hh
    obtain ⟨x1, hx1, _, e2, _, _⟩ := h1.conn k x hx
    exact h1.hold k x hx hst t (h2.hold k x1 hx1 (e2 hst) t ht hh) hh
  · intro rest hh hne
    by_cases hb : b.hooksUp = a.hooksUp
    · obtain ⟨k, u1, u2, u3, x, u4, u5⟩ := h2.hup rest (hb.trans hh) (by rw [hb]; exact hne)
      exact ⟨k, u1, fun h => u2 (h1.tr.subset h), u3, x, u4, u5⟩
    · obtain ⟨k, u1, u2, u3, x, u4, u5⟩ := h1.hup rest hh hb
      obtain ⟨x', v1, v2, _⟩ := h2.conn k x u4
      exact ⟨k, h2.tr.subset u1, u2, h2.pend.subset u3, x', v1, v2.trans u5⟩
  · intro k hk hnk
    by_cases hb : b.hooksUp = a.hooksUp
    · by_cases hkb : Ev.up k ∈ b.trace
      · rcases h1.upq k hkb hnk with h | h
        · exact .inl h
        · exact absurd hb h
      · rcases h2.upq k hk hkb with h | h
        · exact .inl (hb ▸ h)
        · exact .inr (by rw [← hb]; exact h)
    · right
      intro e
      -- `c.hooksUp` is a suffix of `b.hooksUp`, a proper suffix of `a.hooksUp`
      have l1 := h2.hsuf.length_le
      have l2 := h1.hsuf.length_le
      have : b.hooksUp.length = a.hooksUp.length := by rw [e] at l1; omega
      exact hb (h1.hsuf.eq_of_length this)

/-- same connections, the queue grows by functors that hold no connection, no UP is reported -/
theorem Grow.frame {c c' : C} (ht : c.trace <+: c'.trace) (hc : c'.conns = c.conns) (ha : c'.clientAlive = c.clientAlive)
    (hp : ∃ d, c'.pending = c.pending ++ d ∧ ∀ t ∈ d, t ≠ .stopInLoop ∧ ∀ k, t.holds k = false)
    (hq : c'.hooksUp = c.hooksUp) (hnu : ∀ k, Ev.up k ∈ c'.trace → Ev.up k ∈ c.trace) : Grow c c' := by
  obtain ⟨d, hd, hnh⟩ := hp
  refine Grow.quiet ht ⟨d, hd.symm⟩ ?_ ha ?_ ?_ hq hnu
  rotate_left 2
  · intro _ h; rw [hd] at h
    rcases List.mem_append.mp h with h | h
    · exact h
    · exact absurd rfl (hnh _ h).1
  · intro k x hx; rw [hc]; exact ⟨x, hx, rfl, id, rfl, rfl⟩
  · intro k x _ _ t ht hh
    rw [hd] at ht
    rcases List.mem_append.mp ht with h | h
    · exact h
    · rw [(hnh t h).2 k] at hh; cases hh

macro "grow_frame" : tactic =>
  `(tactic| (apply Grow.frame <;>
      first
        | rfl
        | (refine ⟨[], ?_, ?_⟩ <;> simp <;> done)
        | (refine ⟨[Task.resetChannel], ?_, ?_⟩ <;> simp [Task.holds] <;> done)
        | (refine ⟨[Task.startCycle], ?_, ?_⟩ <;> simp [Task.holds] <;> done)
        | simp))

theorem closeSock_grow (c : C) (k : Nat) : Grow c (closeSock c k) := by
  unfold closeSock; grow_frame

theorem retry_grow (c : C) (k : Nat) : Grow c (retry c k) := by
  unfold retry closeSock
  simp only
  repeat' split
  all_goals grow_frame

theorem connecting_grow (c : C) (k : Nat) : Grow c (connecting c k) := by
  unfold connecting die
  repeat' split
  all_goals grow_frame

theorem env_grow (c : C) (e1 : List Nat) (e2 : List Nat) (e3 : List Bool) (e4 : List (Option Nat)) (b : Bool) :
    Grow c { c with envConnect := e1, envSoErr := e2, envSelf := e3, envRead := e4, starved := b } := by
  grow_frame

theorem connect_grow (c : C) : Grow c (connect c) := by
  unfold connect
  simp only
  obtain ⟨e, b, he⟩ := popConnect_snd ({ c with nsock := c.nsock + 1, sockSt := c.sockSt ++ [SockSt.opened], trace := c.trace ++ [Ev.sockCreated c.nsock, Ev.attempt c.nsock c.now] } : C)
  rw [he]
  have h0 : Grow c ({ c with nsock := c.nsock + 1, sockSt := c.sockSt ++ [SockSt.opened], trace := c.trace ++ [Ev.sockCreated c.nsock, Ev.attempt c.nsock c.now], envConnect := e, starved := b } : C) := by
    grow_frame
  split
  · exact h0.trans (connecting_grow _ _)
  · exact h0.trans (retry_grow _ _)
  · exact h0.trans (closeSock_grow _ _)

theorem startInLoop_grow (c : C) : Grow c (startInLoop c) := by
  unfold startInLoop die
  split
  · grow_frame
  · split
    · exact connect_grow c
    · exact Grow.rfl' c

theorem cancelIf_grow (b : Bool) (c : C) : Grow c (cancelIf b c) := by
  unfold cancelIf cancelRetry
  split
  · grow_frame
  · exact Grow.rfl' c

theorem startCycleCore_grow (c : C) : Grow c (startCycleCore c) := by
  unfold startCycleCore
  refine Grow.trans ?_ (startInLoop_grow _)
  grow_frame

theorem startCycle_grow (c : C) : Grow c (startCycle c) :=
  Grow.trans (cancelIf_grow cycleStartCancelsRetryTimer c) (startCycleCore_grow _)

theorem restart_grow (c : C) : Grow c (restart c) := by
  unfold restart
  refine Grow.trans ?_ (startInLoop_grow _)
  grow_frame

theorem stopInLoop_grow (c : C) : Grow c (stopInLoop c) := by
  refine Grow.trans (cancelIf_grow (decide (stopCancelsRetryTimer c.cConnect)) c) ?_
  show Grow _ (stopInLoopCore _)
  generalize cancelIf (decide (stopCancelsRetryTimer c.cConnect)) c = c
  unfold stopInLoopCore die
  split
  · split
    · split
      · refine Grow.trans ?_ (retry_grow _ _); grow_frame
      · refine Grow.trans ?_ (retry_grow _ _); grow_frame
    · grow_frame
  · exact Grow.rfl' c

theorem resetChannel_grow (c : C) : Grow c (resetChannel c) := by
  unfold resetChannel die
  split <;> grow_frame

theorem reapConnector_grow (c : C) : Grow c (reapConnector c) := by
  unfold reapConnector die
  repeat' split
  all_goals first | exact Grow.rfl' c | grow_frame

/-! ### the user's connection callback -/

theorem userDisconnect_grow (c : C) : Grow c (userDisconnect c) := by
  unfold userDisconnect
  simp only
  split
  · rename_i j _
    unfold connShutdown
    split
    · rename_i hcs
      show Grow c { c with tConnect := false, conns := c.conns.map (updRec j toDisconnecting),
                           pending := c.pending ++ [.shutdownInLoop j] }
      refine Grow.quiet (List.prefix_refl _) (by simp) ?_ rfl ?_ ?_ rfl (fun _ => id)
      · intro k x hx
        refine ⟨updRec j toDisconnecting x, ?_, ?_, ?_, ?_, ?_⟩
        · show findIn (c.conns.map (updRec j toDisconnecting)) k = _
          rw [findIn_upd j k toDisconnecting (fun _ => rfl), hx]; rfl
        · unfold updRec toDisconnecting; split <;> simp
        · intro hd
          have hne : ¬ x.sock = j := by
            intro e
            have : connSt { c with tConnect := false } j = x.st := by
              rw [← e, (findIn_some hx).2]; simp [connSt, findConn_eq, hx]
            rw [this, hd] at hcs; cases hcs
          simp [updRec, hne, hd]
        all_goals (unfold updRec toDisconnecting; split <;> simp)
      · intro k x _ _ t ht hh
        simp only [List.mem_append, List.mem_singleton] at ht
        rcases ht with ht | rfl
        · exact ht
        · rw [holds_shutdown] at hh; cases hh
      · intro _ h
        simp only [List.mem_append, List.mem_singleton] at h
        rcases h with h | h
        · exact h
        · cases h
    · grow_frame
  · grow_frame

/-- an operation of the connection callback on a live client -/
theorem hookOp_grow (c : C) (j : Nat) (op : HookOp) (hal : c.clientAlive = true) :
    Grow c (hookOp c j op) ∧ (hookOp c j op).hooksUp = c.hooksUp := by
  cases op with
  | disconnect =>
    refine ⟨userDisconnect_grow c, ?_⟩
    show (userDisconnect c).hooksUp = _
    unfold userDisconnect connShutdown
    simp only
    repeat' split
    all_goals rfl
  | stop =>
    refine ⟨?_, ?_⟩
    · show Grow c (userStop c .loop)
      unfold userStop connectorStop
      simp only [stopDispatch]
      unfold enqueue
      refine Grow.quiet (by simp) (by simp) (fun _ x h => ⟨x, h, rfl, id, rfl, rfl⟩) rfl ?_ ?_ rfl (by simp)
      · intro k x _ _ t ht hh
        simp only [List.mem_append, List.mem_singleton] at ht
        rcases ht with ht | rfl
        · exact ht
        · cases hh
      · intro h; rw [hal] at h; cases h
    · show (userStop c .loop).hooksUp = _
      unfold userStop connectorStop
      simp only [stopDispatch]
      rfl
  | connect =>
    refine ⟨?_, ?_⟩
    · show Grow c (userConnect c .loop)
      unfold userConnect
      simp only [startDispatch]
      refine Grow.trans ?_ (startCycle_grow _)
      grow_frame
    · show (userConnect c .loop).hooksUp = _
      unfold userConnect
      simp only [startDispatch]
      exact (startCycle_keeps _).2.2.2.1
  | query =>
    refine ⟨?_, rfl⟩
    show Grow c (emit c _)
    unfold emit; grow_frame

theorem runHookDown_grow (c : C) (k : Nat) : Grow c (runHookDown c k) := by
  unfold runHookDown
  split
  · rename_i hal
    split
    · exact Grow.rfl' c
    · rename_i op rest _
      have h0 : Grow c ({ c with hooksDown := rest } : C) := by grow_frame
      exact h0.trans (hookOp_grow ({ c with hooksDown := rest } : C) k op hal).1
  · exact Grow.rfl' c

/-- the state in which the user's callback is told UP -/
def estab (c : C) (k : Nat) : C :=
  { c with sockSt := c.sockSt.set k .handedOver, conns := c.conns ++ [{ sock := k }], connection := some k,
           ups := c.ups + 1, trace := c.trace ++ [.handedOver k, .up k] }

theorem newConnection_eq (c : C) (k : Nat) (hal : c.clientAlive = true) :
    newConnection c k = runHookUp (estab c k) k := by
  unfold newConnection
  rw [if_pos hal, if_pos gen_publishBeforeEstablish]
  rfl

theorem disconnect_in_estab (c : C) (k : Nat) (hn : findIn c.conns k = none) (rest : List HookOp) :
    hookOp ({ estab c k with hooksUp := rest } : C) k .disconnect =
      { estab c k with hooksUp := rest, tConnect := false,
                       conns := (c.conns ++ [({ sock := k } : ConnRec)]).map (updRec k toDisconnecting),
                       pending := c.pending ++ [.shutdownInLoop k] } := by
  have hnew : findIn (c.conns ++ [({ sock := k } : ConnRec)]) k = some { sock := k } := by
    rw [findIn_append_new _ rfl, hn]; simp
  unfold hookOp userDisconnect connShutdown estab
  simp only [connSt, findConn_eq, hnew, Option.map_some, Option.getD_some, if_true]
  rfl

/-- `TcpClient::newConnection`: hand-over, UP, and the user's callback inside it -/
theorem newConnection_grow (c : C) (k : Nat) (hn : findIn c.conns k = none) (hnu : Ev.up k ∉ c.trace) :
    Grow c (newConnection c k) := by
  by_cases hal : c.clientAlive = true
  · rw [newConnection_eq c k hal]
    have hconn : ∀ j x, findIn c.conns j = some x → findIn (c.conns ++ [({ sock := k } : ConnRec)]) j = some x := by
      intro j x hx; rw [findIn_append_new _ rfl, hx]; simp
    have hnew : findIn (c.conns ++ [({ sock := k } : ConnRec)]) k = some { sock := k } := by
      rw [findIn_append_new _ rfl, hn]; simp
    unfold runHookUp
    rw [if_pos (show (estab c k).clientAlive = true from hal)]
    have hcases : c.hooksUp = [] ∨ ∃ op rest, c.hooksUp = op :: rest := by
      cases c.hooksUp with
      | nil => exact Or.inl rfl
      | cons op rest => exact Or.inr ⟨op, rest, rfl⟩
    rcases hcases with hh | ⟨op, rest, hh⟩
    · rw [show (estab c k).hooksUp = [] from hh]
      simp only
      exact ⟨(by simp [estab]), List.prefix_refl _, fun j x hx => ⟨x, hconn j x hx, rfl, id, rfl, rfl⟩, rfl,
        fun _ _ _ _ _ ht _ => ht, fun _ => id, List.suffix_refl _,
        (fun rest e => by rw [hh] at e; cases e), fun _ _ _ => Or.inl hh⟩
    · rw [show (estab c k).hooksUp = op :: rest from hh]
      simp only
      have hlen : rest ≠ c.hooksUp := by
        rw [hh]; intro e'; have := congrArg List.length e'; simp at this
      by_cases hop : op = .disconnect
      · subst hop
        -- `disconnect()` inside the UP callback: `connection_` is published, the connection is connected
        rw [disconnect_in_estab c k hn rest]
        refine ⟨(by simp [estab]), (by simp), ?_, rfl, ?_, ?_, (by show rest <:+ c.hooksUp; rw [hh]; exact List.suffix_cons _ _), ?_, ?_⟩
        · intro j x hx
          have hne : ¬ x.sock = k := by
            intro e'
            have := (findIn_some hx).2
            rw [e'] at this; subst this; rw [hn] at hx; cases hx
          refine ⟨x, ?_, rfl, id, rfl, rfl⟩
          show findIn ((c.conns ++ [({ sock := k } : ConnRec)]).map (updRec k toDisconnecting)) j = some x
          rw [findIn_upd k j toDisconnecting (fun _ => rfl), hconn j x hx]
          simp [updRec, hne]
        · intro j x _ _ t ht hh'
          simp only [List.mem_append, List.mem_singleton] at ht
          rcases ht with ht | rfl
          · exact ht
          · rw [holds_shutdown] at hh'; cases hh'
        · intro _ h
          simp only [List.mem_append, List.mem_singleton] at h
          rcases h with h | h
          · exact h
          · cases h
        · intro rest' _ _
          refine ⟨k, (by simp [estab]), hnu, (by simp), updRec k toDisconnecting ({ sock := k } : ConnRec), ?_, ?_⟩
          · show findIn ((c.conns ++ [({ sock := k } : ConnRec)]).map (updRec k toDisconnecting)) k = _
            rw [findIn_upd k k toDisconnecting (fun _ => rfl), hnew]; rfl
          · simp [updRec, toDisconnecting]
        · intro _ _ _
          exact Or.inr hlen
      · have hE : Grow c ({ estab c k with hooksUp := rest } : C) := by
          refine ⟨(by simp [estab]), List.prefix_refl _, fun j x hx => ⟨x, hconn j x hx, rfl, id, rfl, rfl⟩, rfl,
            fun _ _ _ _ _ ht _ => ht, fun _ => id, (by show rest <:+ c.hooksUp; rw [hh]; exact List.suffix_cons _ _), ?_, ?_⟩
          · intro rest' e'; rw [hh] at e'; cases e'; exact absurd rfl hop
          · intro _ _ _
            exact Or.inr hlen
        exact hE.trans (hookOp_grow ({ estab c k with hooksUp := rest } : C) k op hal).1
  · unfold newConnection
    rw [if_neg hal]
    unfold die; grow_frame

theorem retry_noUp (c : C) (k : Nat) : ∀ j, Ev.up j ∈ (retry c k).trace → Ev.up j ∈ c.trace := by
  unfold retry closeSock; simp only; repeat' split
  all_goals simp

theorem handleError_noUp (c : C) : ∀ j, Ev.up j ∈ (handleError c).trace → Ev.up j ∈ c.trace := by
  unfold handleError die
  split
  · split
    · simp only
      rw [popSoErr_eq]
      exact retry_noUp _ _
    · simp
  · exact fun _ h => h

theorem handleError_grow (c : C) : Grow c (handleError c) := by
  unfold handleError die
  split
  · split
    · simp only
      rw [popSoErr_eq]
      refine Grow.trans ?_ (retry_grow _ _)
      grow_frame
    · grow_frame
  · exact Grow.rfl' c

theorem handleWrite_grow (c : C) (hopen : ∀ k, c.chan = some k → findIn c.conns k = none ∧ Ev.up k ∉ c.trace) :
    Grow c (handleWrite c) := by
  unfold handleWrite die
  split
  · split
    · rename_i k hk
      simp only
      rw [popSoErr_eq]
      split
      · refine Grow.trans ?_ (retry_grow _ _); grow_frame
      · rw [popSelf_eq]
        split
        · refine Grow.trans ?_ (retry_grow _ _); grow_frame
        · split
          · refine Grow.trans ?_ (newConnection_grow _ _ (hopen k hk).1 (hopen k hk).2); grow_frame
          · refine Grow.trans ?_ (closeSock_grow _ _); grow_frame
    · grow_frame
  · split
    · grow_frame
    · exact Grow.rfl' c

theorem retry_chan (c : C) (k : Nat) : (retry c k).chan = c.chan := by
  unfold retry closeSock; simp only; repeat' split
  all_goals rfl

theorem handleError_chan (c : C) : (handleError c).chan = c.chan ∧ (handleError c).conns = c.conns := by
  unfold handleError die
  split
  · split
    · simp only
      rw [popSoErr_eq]
      exact ⟨by rw [retry_chan], by rw [retry_conns]⟩
    · exact ⟨rfl, rfl⟩
  · exact ⟨rfl, rfl⟩

theorem dispatchConnector_grow (c : C) (rev : Nat) (hopen : ∀ k, c.chan = some k → findIn c.conns k = none ∧ Ev.up k ∉ c.trace) :
    Grow c (dispatchConnector c rev) := by
  unfold dispatchConnector
  split
  · split
    · dsimp only
      split
      · exact handleError_grow c
      · split
        · refine (handleError_grow c).trans (handleWrite_grow _ ?_)
          intro k hk
          rw [(handleError_chan c).1] at hk; rw [(handleError_chan c).2]
          exact ⟨(hopen k hk).1, fun h => (hopen k hk).2 (handleError_noUp c k h)⟩
        · exact handleError_grow c
    · dsimp only
      split
      · exact Grow.rfl' c
      · split
        · exact handleWrite_grow c hopen
        · exact Grow.rfl' c
  · exact Grow.rfl' c

theorem die_grow {c c1 : C} (e : Ev) (h : Grow c c1) (he : ∀ k, Ev.up k ≠ e := by intros; simp) : Grow c (die c1 e) :=
  h.trans (by
    unfold die
    apply Grow.frame <;> first | rfl | (refine ⟨[], ?_, ?_⟩ <;> simp <;> done) | skip
    · simp
    · intro k hk
      simp only [List.mem_append, List.mem_singleton] at hk
      rcases hk with hk | hk
      · exact hk
      · exact absurd hk (he k))

/-- `queueInLoop(connectDestroyed)` of a connection that was up at the beginning, after DOWN -/
theorem Grow.enqueueCd {c c2 : C} (G : Grow c c2) (j : Nat) (xj : ConnRec) (hj : findIn c.conns j = some xj)
    (hst : xj.st ≠ .disconnected) (cn : Option Nat) :
    Grow c { c2 with connection := cn, pending := c2.pending ++ [.connectDestroyed j] } := by
  refine ⟨G.tr, G.pend.trans (by simp), G.conn, G.alive, ?_, ?_, G.hsuf, ?_, G.upq⟩
  · intro k x hx hxs t ht hh
    simp only [List.mem_append, List.mem_singleton] at ht
    rcases ht with ht | rfl
    · exact G.hold k x hx hxs t ht hh
    · have : j = k := by simpa [Task.holds] using hh
      subst this; rw [hj] at hx; cases hx; exact absurd hxs hst
  · intro ha h
    simp only [List.mem_append, List.mem_singleton] at h
    rcases h with h | h
    · exact G.nostop ha h
    · cases h
  · intro rest hh hne
    obtain ⟨k, u1, u2, u3, x, u4, u5⟩ := G.hup rest hh hne
    exact ⟨k, u1, u2, by simp [u3], x, u4, u5⟩

/-- DOWN of a connection that is up -/
theorem handleClose_grow (c : C) (j : Nat) (xj : ConnRec) (hj : findIn c.conns j = some xj) (hst : xj.st ≠ .disconnected) :
    Grow c (handleClose c j) := by
  have h0 : Grow c (downState c j) := by
    refine Grow.quiet (by simp [downState]) (List.prefix_refl _) ?_ rfl (fun _ _ _ _ _ ht _ => ht) (fun _ => id) rfl
      (by simp [downState])
    intro k x hx
    refine ⟨updRec j goDown x, ?_, ?_, ?_, ?_, ?_⟩
    · show findIn (c.conns.map (updRec j goDown)) k = _
      rw [findIn_upd j k goDown (fun _ => rfl), hx]; rfl
    all_goals (unfold updRec goDown; split <;> simp)
  have h2 := h0.trans (runHookDown_grow (downState c j) j)
  rw [handleClose_eq]
  simp only
  generalize runHookDown (downState c j) j = c2 at h2
  split
  · exact h2
  · split
    · exact h2.enqueueCd j xj hj hst c2.connection
    · unfold removeConn
      simp only
      split
      · exact die_grow _ h2
      · split
        · exact die_grow _ h2
        · split
          · exact (h2.enqueueCd j xj hj hst none).trans (restart_grow _)
          · exact h2.enqueueCd j xj hj hst none

theorem handleRead_grow (c : C) (j : Nat) (xj : ConnRec) (hj : findIn c.conns j = some xj) (hst : xj.st ≠ .disconnected) :
    Grow c (handleRead c j) := by
  unfold handleRead
  simp only
  rw [popRead_eq]
  have h0 : Grow c ({ c with envRead := (popRead c).2.envRead, starved := (popRead c).2.starved } : C) := by grow_frame
  split
  · exact h0.trans (handleClose_grow _ j xj hj hst)
  · exact h0

theorem dispatchConn_grow (c : C) (r : List Task) (ph : Bool) (hi : Mid c r ph) (j rev : Nat) :
    Grow c (dispatchConn c j rev) := by
  unfold dispatchConn
  rw [findConn_eq]
  split
  · exact Grow.rfl' c
  · rename_i x hx
    split
    · exact Grow.rfl' c
    · rename_i hcond
      simp only [not_or, Decidable.not_not] at hcond
      have hon' : x.chanOn = true := by simpa using hcond.2.1
      have hst := hi.c3 x (findIn_some hx).1 hon'
      by_cases hdc : MuduoVerif.Gen.Conn.dispClose rev ∧ MuduoVerif.Gen.Conn.dispCloseSub false true false
      · simp only [hdc, and_self, if_true]
        have h1 := handleClose_grow c j x hx hst
        split
        · exact h1
        · have hoff : ((findConn (handleClose c j) j).map (·.chanOn)).getD false = false := by
            rw [findConn_eq, handleClose_find c j x hx]
            simp [goDown]
          rw [hoff, if_neg (by simp [MuduoVerif.Gen.Conn.dispReadSub])]
          exact h1
      · simp only [hdc, if_false]
        split
        · exact Grow.rfl' c
        · split
          · exact handleRead_grow c j x hx hst
          · exact Grow.rfl' c

theorem fire_fold_grow (due : List (Nat × TKind)) (c : C) : Grow c (due.foldl fireOne c) := by
  induction due generalizing c with
  | nil => exact Grow.rfl' c
  | cons t due ih =>
    rw [List.foldl_cons]
    refine Grow.trans ?_ (ih _)
    unfold fireOne
    split
    · exact Grow.rfl' c
    · split
      · exact startInLoop_grow c
      · exact Grow.rfl' c

theorem fireTimers_grow (c : C) : Grow c (fireTimers c) := by
  rw [fireTimers_eq]
  simp only
  have h0 : Grow c ({ c with timers := c.timers.filter (fun t => decide (¬ t.1 ≤ c.now)) } : C) := by grow_frame
  have h1 := h0.trans (fire_fold_grow (c.timers.filter (fun t => decide (t.1 ≤ c.now))) _)
  split
  · exact h1
  · exact h1.trans (reapConnector_grow _)

theorem dispatch_grow (c : C) (s : Src) (hi : Mid c [] false) : Grow c (dispatch c s) := by
  cases s with
  | timer => exact fireTimers_grow c
  | connector rev =>
    show Grow c (dispatchConnector c rev)
    by_cases hon : c.chanOn = true
    · apply dispatchConnector_grow
      intro k hk
      obtain ⟨k', hk', hop⟩ := hi.a3 hon
      rw [hk] at hk'; cases hk'
      refine ⟨?_, ?_⟩
      · rw [findIn_none_iff]; intro x hx he
        have := hi.c1 x hx; rw [he, hop] at this; cases this
      · -- the socket of the attempt in progress has not been reported UP
        obtain ⟨s, hs, hr⟩ := hi.tr
        have hcnt := (cnt_scan hs).up k
        have hp : s.phases[k]? = some .opened := by rw [hr.ph k, phaseAt_opened hop]
        intro hm
        have := List.count_pos_iff.mpr hm
        rw [hcnt] at this
        simp [Spec.has, hp, b2n, Phase.wasUp] at this
    · unfold dispatchConnector
      rw [if_neg (by simp [hon])]
      exact Grow.rfl' c
  | conn k rev => exact dispatchConn_grow c [] false hi k rev

theorem dispatch_fold_grow (active : List Src) (c : C) (hi : Mid c [] false) :
    Grow c (active.foldl (fun (c : C) s => if c.dead then c else dispatch c s) c) := by
  induction active generalizing c with
  | nil => exact Grow.rfl' c
  | cons s active ih =>
    rw [List.foldl_cons, if_neg (by simp [hi.notDead])]
    exact (dispatch_grow c s hi).trans (ih _ (dispatch_mid c [] s hi))

theorem connectDestroyed_grow (c : C) (j : Nat) (x : ConnRec) (hx : findIn c.conns j = some x) (hst : x.st = .disconnected) :
    Grow c (connectDestroyed c j) := by
  unfold connectDestroyed
  rw [findConn_eq, hx]
  simp only
  rw [if_neg (by rw [hst]; simp), updConn_eq]
  refine Grow.quiet (List.prefix_refl _) (List.prefix_refl _) ?_ rfl (fun _ _ _ _ _ ht _ => ht) (fun _ => id) rfl (fun _ => id)
  intro k y hy
  refine ⟨updRec j chanOff y, ?_, ?_, ?_, ?_, ?_⟩
  · show findIn (c.conns.map (updRec j chanOff)) k = _
    rw [findIn_upd j k chanOff (fun _ => rfl), hy]; rfl
  all_goals (unfold updRec chanOff; split <;> simp)

theorem runTask_grow (c : C) (r : List Task) (t : Task) (hi : Mid c (t :: r) true) : Grow c (runTask c t) := by
  cases t with
  | startCycle => unfold runTask; simp only; split; exact startCycle_grow c; exact die_grow _ (Grow.rfl' c)
  | stopInLoop => unfold runTask; simp only; split; exact stopInLoop_grow c; exact die_grow _ (Grow.rfl' c)
  | resetChannel => unfold runTask; simp only; split; exact resetChannel_grow c; exact die_grow _ (Grow.rfl' c)
  | connectDestroyed k =>
    obtain ⟨x, hx, hst⟩ := hi.c9 k (by simp)
    exact connectDestroyed_grow c k x hx hst
  | shutdownInLoop k =>
    unfold runTask; simp only
    split
    · split
      · exact die_grow _ (Grow.rfl' c)
      · exact Grow.rfl' c
    · unfold emit; grow_frame
  | forceCloseInLoop k =>
    obtain ⟨x, hx, hcb⟩ := hi.c8 k (by simp)
    have hcs : connSt c k = x.st := by simp [connSt, findConn_eq, hx]
    unfold runTask; simp only; rw [hcs]
    split
    · rename_i hst
      exact handleClose_grow c k x hx (by rcases hst with h | h <;> rw [h] <;> simp)
    · exact Grow.rfl' c
  | setCloseCb k => have := hi.a13 (.setCloseCb k) (by simp); cases this
  | addTimer d kd => have := hi.a13 (.addTimer d kd) (by simp); cases this

theorem task_fold_grow (rest : List Task) (c : C) (hi : Mid c rest true) :
    Grow c (rest.foldl (fun (c : C) t => if c.dead then c else runTask c t) c) := by
  induction rest generalizing c with
  | nil => exact Grow.rfl' c
  | cons t rest ih =>
    rw [List.foldl_cons, if_neg (by simp [hi.notDead])]
    exact (runTask_grow c rest t hi).trans (ih _ (runTask_mid c rest t hi))

end MuduoVerif.Client
