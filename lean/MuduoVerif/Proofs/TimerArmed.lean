import MuduoVerif.Proofs.TimerStep
/-! The loop stays armed for the earliest pending deadline (C06 `armed`), for histories in which every deadline that
was registered or restarted is a valid `Timestamp` (> 0 us since the epoch). -/
namespace MuduoVerif.Timer
open MuduoVerif.Gen.Timer

/-- a deadline put into `timers_` is a valid `Timestamp` -/
def evValid : Ev → Prop
  | .registered _ _ e => 0 < e
  | .restarted _ _ e => 0 < e
  | _ => True

instance : DecidablePred evValid := fun ev => by cases ev <;> unfold evValid <;> infer_instance

def ValidTr (t : List Ev) : Prop := ∀ ev ∈ t, evValid ev
instance (t : List Ev) : Decidable (ValidTr t) := by unfold ValidTr; infer_instance

theorem ValidTr.suffix {t t' : List Ev} (h : ValidTr t') (hs : t <:+ t') : ValidTr t := fun ev he => h ev (hs.subset he)

def AllValid (s : TQ) : Prop := ∀ e ∈ s.timers, 0 < e.1

/-- the timerfd is readable, or armed no later than the earliest deadline / 100 us after the arming -/
def AC (s : TQ) : Prop :=
  s.timers ≠ [] → s.readable = true ∨ ∃ a, s.alarm = some a ∧ a ≤ max (firstExp s.timers) (s.armedAt + 100)

/-- `b`: inside an expiry batch (where only the validity of the deadlines is maintained) -/
def ArmedB (b : Bool) (s : TQ) : Prop := ValidTr s.trace → AllValid s ∧ (b = false → AC s)

theorem ArmedB.weaken {b : Bool} {s : TQ} (h : ArmedB b s) : ArmedB true s :=
  fun hv => ⟨(h hv).1, fun hh => by cases hh⟩

theorem ArmedB.of_same {b : Bool} {s s' : TQ} (h : ArmedB b s) (ht : s'.timers = s.timers) (ha : s'.alarm = s.alarm)
    (hr : s'.readable = s.readable) (hm : s'.armedAt = s.armedAt) (hs : s.trace <:+ s'.trace) : ArmedB b s' := by
  intro hv
  obtain ⟨h1, h2⟩ := h (hv.suffix hs)
  refine ⟨by unfold AllValid; rw [ht]; exact h1, ?_⟩
  intro hb; unfold AC; rw [ht, ha, hr, hm]; exact h2 hb

theorem ArmedB.emit {b : Bool} {s : TQ} (h : ArmedB b s) (e : Ev) : ArmedB b (emit s e) :=
  h.of_same rfl rfl rfl rfl (List.suffix_cons _ _)

theorem ArmedB.frame {b : Bool} {s s' : TQ} (h : ArmedB b s) (f : Frame s s') : ArmedB b s' :=
  h.of_same f.timers f.alarm f.readable f.armedAt (by rw [f.trace]; exact List.suffix_refl _)

theorem armFd_alarm (s : TQ) (w : Time) : (armFd s w).alarm = some (max w ((readNow s).1 + 100)) := by
  show some ((readNow s).1 + howMuchUs w (readNow s).1) = _
  rw [alarm_eq]
theorem armFd_readable (s : TQ) (w : Time) : (armFd s w).readable = false := rfl
theorem armFd_armedAt (s : TQ) (w : Time) : (armFd s w).armedAt = (readNow s).1 := rfl

/-- after `resetTimerfd(when)` with `when` the earliest deadline the fd is armed as required -/
theorem AC_armFd (s : TQ) (h : firstExp s.timers = w) : AC (armFd s w) := by
  intro _
  right
  refine ⟨_, armFd_alarm s w, ?_⟩
  rw [armFd_armedAt, armFd_timers, h]

theorem firstExp_insEntry_changed {e : Time × Addr} {l : List (Time × Addr)}
    (h : insertEarliestChanged l.isEmpty e.1 (firstExp l)) : firstExp (insEntry e l) = e.1 := by
  cases l with
  | nil => rfl
  | cons x xs =>
    have h' : e.1 < x.1 := by simpa [insertEarliestChanged, firstExp] using h
    have : entryLt e x := Or.inl h'
    simp [insEntry, this, firstExp]

theorem firstExp_insEntry_same {e : Time × Addr} {l : List (Time × Addr)}
    (h : ¬ insertEarliestChanged l.isEmpty e.1 (firstExp l)) : firstExp (insEntry e l) = firstExp l ∧ l ≠ [] := by
  cases l with
  | nil => simp [insertEarliestChanged] at h
  | cons x xs =>
    have h' : ¬ e.1 < x.1 := by simpa [insertEarliestChanged, firstExp] using h
    refine ⟨?_, by simp⟩
    unfold insEntry
    split
    · rename_i hlt
      rcases hlt with hlt | ⟨heq, _⟩
      · exact absurd hlt h'
      · exact heq
    · rfl

theorem ArmedB.addInLoop {b : Bool} {s : TQ} {a : Addr} {c : Cell} (h : ArmedB b s) (hc : s.heap a = some c) :
    ArmedB b (Timer.addInLoop s a) := by
  intro hv
  have hext := addInLoop_ext s a
  obtain ⟨h1, h2⟩ := h (hv.suffix hext.trace)
  rw [addInLoop_eq hc] at hv ⊢
  have hreg : 0 < c.exp := by
    have hm : Ev.registered a c.seq c.exp ∈ (if insertEarliestChanged s.timers.isEmpty c.exp (firstExp s.timers)
        then armFd (ins (Timer.emit s (.registered a c.seq c.exp)) a c) c.exp
        else ins (Timer.emit s (.registered a c.seq c.exp)) a c).trace := by
      split
      · rw [armFd_trace]; exact List.mem_cons_of_mem _ List.mem_cons_self
      · exact List.mem_cons_self
    exact hv _ hm
  have hall : AllValid (ins (Timer.emit s (.registered a c.seq c.exp)) a c) := by
    intro e he
    rcases mem_insEntry.1 he with rfl | he
    · exact hreg
    · exact h1 e he
  split
  · rename_i hch
    refine ⟨by unfold AllValid; rw [armFd_timers]; exact hall, fun _ => AC_armFd _ ?_⟩
    exact firstExp_insEntry_changed (e := (c.exp, a)) hch
  · rename_i hch
    refine ⟨hall, fun hb => ?_⟩
    obtain ⟨g1, g2⟩ := firstExp_insEntry_same (e := (c.exp, a)) hch
    intro _
    show _ ∨ ∃ x, s.alarm = some x ∧ x ≤ max (firstExp (insEntry (c.exp, a) s.timers)) (s.armedAt + 100)
    rw [g1]
    exact h2 hb g2

theorem firstExp_le_of_mem {l : List (Time × Addr)} (hs : l.Pairwise entryLt) {x : Time × Addr} (hx : x ∈ l) :
    firstExp l ≤ x.1 := by
  cases l with
  | nil => cases hx
  | cons y ys =>
    rcases List.mem_cons.1 hx with rfl | hx
    · exact Int.le_refl _
    · have := (List.pairwise_cons.1 hs).1 x hx
      rcases this with h | ⟨h, _⟩
      · exact Int.le_of_lt h
      · exact Int.le_of_eq h

theorem firstExp_filter {l : List (Time × Addr)} (hs : l.Pairwise entryLt) (p : Time × Addr → Bool)
    (hne : l.filter p ≠ []) : firstExp l ≤ firstExp (l.filter p) := by
  cases hf : l.filter p with
  | nil => exact absurd hf hne
  | cons y ys =>
    have : y ∈ l.filter p := by rw [hf]; exact List.mem_cons_self
    exact firstExp_le_of_mem hs (List.mem_filter.1 this).1

theorem ArmedB.cancelInLoop {b : Bool} {s : TQ} {B : List (Time × Addr)} {L : List Addr} (hw : WFp s B L)
    (h : ArmedB b s) (id : TimerId) : ArmedB b (Timer.cancelInLoop s id) := by
  have hl : (id.addr, id.seq) ∈ s.active → (s.heap id.addr).isSome := by
    intro hm
    obtain ⟨c, h1, _⟩ := hw.a_live _ hm
    exact isSome_of_eq h1
  rw [cancelInLoop_eq id hl]
  split
  · intro hv
    obtain ⟨h1, h2⟩ := h (hv.suffix (List.suffix_cons _ _))
    refine ⟨fun e he => h1 e (List.mem_filter.1 he).1, fun hb hne => ?_⟩
    have hne' : s.timers ≠ [] := by
      intro h0; apply hne
      show s.timers.filter _ = []
      rw [h0]; rfl
    rcases h2 hb hne' with hr | ⟨x, hx1, hx2⟩
    · exact Or.inl hr
    · refine Or.inr ⟨x, hx1, ?_⟩
      have := firstExp_filter hw.sorted (fun e => decide (e ≠ ((cellAt s id.addr).exp, id.addr))) hne
      show x ≤ max (firstExp (s.timers.filter _)) (s.armedAt + 100)
      unfold Time at *
      omega
  · split
    · exact (h.emit _).of_same rfl rfl rfl rfl (List.suffix_refl _)
    · exact h.emit _

theorem ArmedB.bindId {b : Bool} {s : TQ} (h : ArmedB b s) (name : Nat) (a : Addr) (q : Nat) : ArmedB b (bindId s name a q) :=
  h.of_same rfl rfl rfl rfl (List.suffix_cons _ _)

theorem ArmedB.addL {b : Bool} {s : TQ} (h : ArmedB b s) (name : Nat) (m : Mode) : ArmedB b (Timer.addL s name m) := by
  rcases addL_spec s name m with hf | ⟨s1, a, c, h1, _, _, _, _, _, _, h8⟩
  · exact h.frame hf
  · rw [h8]
    have h2 : ArmedB b (allocCell s1 a c) := (h.frame h1).of_same rfl rfl rfl rfl (List.suffix_refl _)
    exact (h2.addInLoop (allocCell_heap s1 a c)).bindId _ _ _

theorem ArmedB.execAct {b : Bool} {s : TQ} {B : List (Time × Addr)} {L : List Addr} (hw : WFp s B L)
    (h : ArmedB b s) (act : Act) : ArmedB b (Timer.execAct s act) := by
  cases act with
  | add name m => exact h.addL name m
  | cancel v => exact h.cancelInLoop hw _

theorem ArmedB.runTimer {b : Bool} {s : TQ} {B : List (Time × Addr)} {L : List Addr} (hw : WFp s B L)
    (h : ArmedB b s) (now : Time) {e : Time × Addr} (he : e ∈ B) : ArmedB b (Timer.runTimer now s e) := by
  obtain ⟨⟨c, hc, _⟩, _⟩ := hw.b_live e he
  rw [runTimer_eq hc]
  have := foldl_inv (fun s => WFp s B L ∧ ArmedB b s) Timer.execAct (scriptFor s.scripts c.name (c.runs + 1)) _
    ⟨hw.emit (.run c.name c.seq (c.runs + 1) e.2 c.rep c.first c.delta e.1 now s.clock) (by intro x; simp), h.emit _⟩
    (fun s act _ hs => ⟨hs.1.execAct act, hs.2.execAct hs.1 act⟩)
  exact this.2

theorem ArmedB.resetOne {s : TQ} {B : List (Time × Addr)} {L : List Addr} {e : Time × Addr} (hw : WFp s (e :: B) L)
    (h : ArmedB true s) (now : Time) : ArmedB true (Timer.resetOne now s e) := by
  obtain ⟨⟨c, hc, _⟩, _⟩ := hw.b_live e List.mem_cons_self
  rw [resetOne_eq hc]
  split
  · intro hv
    obtain ⟨h1, _⟩ := h (hv.suffix (List.suffix_cons _ _))
    refine ⟨?_, fun hh => by cases hh⟩
    intro x hx
    rcases mem_insEntry.1 hx with rfl | hx
    · exact hv (.restarted e.2 c.seq (restarted c now).exp) List.mem_cons_self
    · exact h1 x hx
  · exact h.of_same rfl rfl rfl rfl (List.suffix_refl _)

theorem ArmedB.resetFold (now : Time) {L : List Addr} (l : List (Time × Addr)) (s : TQ) (hw : WFp s l L)
    (h : ArmedB true s) : ArmedB true (l.foldl (Timer.resetOne now) s) := by
  induction l generalizing s with
  | nil => exact h
  | cons x xs ih => exact ih _ (hw.resetOne now) (h.resetOne hw now)

theorem ArmedB.rearm {s : TQ} {B : List (Time × Addr)} {L : List Addr} (hw : WFp s B L) (h : ArmedB true s) :
    ArmedB false (Timer.rearm s) := by
  intro hv
  obtain ⟨h1, _⟩ := h (hv.suffix (rearm_ext s).trace)
  rw [rearm_eq hw]
  cases ht : s.timers with
  | nil => exact ⟨by unfold AllValid; rw [ht]; simp, fun _ hne => absurd ht hne⟩
  | cons e r =>
    have he : 0 < e.1 := h1 e (by rw [ht]; exact List.mem_cons_self)
    simp only [he, if_true]
    exact ⟨by unfold AllValid; rw [armFd_timers]; exact h1, fun _ => AC_armFd _ (by rw [ht]; rfl)⟩

theorem ArmedB.sub {b : Bool} {s s' : TQ} (h : ArmedB b s) (ht : ∀ e ∈ s'.timers, e ∈ s.timers)
    (hs : s.trace <:+ s'.trace) : ArmedB true s' := by
  intro hv
  exact ⟨fun e he => (h (hv.suffix hs)).1 e (ht e he), fun hh => by cases hh⟩

theorem ArmedB.handleRead {b : Bool} {s : TQ} {L : List Addr} (hw : WFp s [] L) (h : ArmedB b s) :
    ArmedB false (Timer.handleRead s) := by
  unfold Timer.handleRead
  simp only []
  have hw0 : WFp { (readNow s).2 with readable := false } [] L :=
    (hw.frame (readNow_frame s)).congr rfl rfl rfl rfl (hw.frame (readNow_frame s)).no_uaf
  rw [getExpired_eq hw0]
  simp only []
  have hw1 := hw0.take (isExpired (readNow s).1)
  have hw2 : WFp { takeB { (readNow s).2 with readable := false } (isExpired (readNow s).1) with
      calling := true, cancelling := [] } _ L := hw1.congr rfl rfl rfl rfl hw1.no_uaf
  have ha2 : ArmedB true { takeB { (readNow s).2 with readable := false } (isExpired (readNow s).1) with
      calling := true, cancelling := [] } := by
    refine h.sub ?_ ?_
    · intro e he
      have : e ∈ (readNow s).2.timers := (List.dropWhile_sublist _).subset he
      rw [(readNow_frame s).timers] at this; exact this
    · show s.trace <:+ (readNow s).2.trace
      rw [(readNow_frame s).trace]; exact List.suffix_refl _
  have h3 := foldl_inv (fun s' => WFp s' (List.takeWhile (isExpired (readNow s).1) (readNow s).2.timers) L ∧ ArmedB true s')
    (Timer.runTimer (readNow s).1) _ _ ⟨hw2, ha2⟩ (fun s' e he hs => ⟨hs.1.runTimer _ he, hs.2.runTimer hs.1 _ he⟩)
  unfold reset
  generalize List.foldl (Timer.runTimer (readNow s).1) _ _ = s3 at h3 ⊢
  have hw3 : WFp { s3 with calling := false } (List.takeWhile (isExpired (readNow s).1) (readNow s).2.timers) L :=
    h3.1.congr rfl rfl rfl rfl h3.1.no_uaf
  have ha3 : ArmedB true { s3 with calling := false } := h3.2.sub (fun e he => he) (List.suffix_refl _)
  exact ArmedB.rearm (WFp.resetFold (readNow s).1 _ _ hw3) (ArmedB.resetFold _ _ _ hw3 ha3)

/-- the excluded branch: `reset()` does not arm the timerfd when the earliest deadline is not a valid `Timestamp` -/
theorem rearm_invalid {s : TQ} {B : List (Time × Addr)} {L : List Addr} (hw : WFp s B L) {e : Time × Addr}
    {r : List (Time × Addr)} (ht : s.timers = e :: r) (he : e.1 ≤ 0) : Timer.rearm s = s := by
  rw [rearm_eq hw, ht]
  have : ¬ 0 < e.1 := by unfold Time at *; omega
  simp only [this, if_false]

/-! ### over all histories -/

theorem ArmedB.runNext {s : TQ} (hw : WF s []) (h : ArmedB false s) : ArmedB false (Timer.runNext s) := by
  cases hr : s.running with
  | nil => rw [runNext_nil hr]; exact h
  | cons f r =>
    rw [runNext_cons hr]
    have hp := wf_pop hw hr
    have h' : ArmedB false { s with running := r } := h.of_same rfl rfl rfl rfl (List.suffix_refl _)
    cases f with
    | add a =>
      obtain ⟨c, hc⟩ := Option.isSome_iff_exists.1 (hp.p_live a List.mem_cons_self).1
      exact h'.addInLoop hc
    | cancel id => exact h'.cancelInLoop hp id
    | marker k => exact h'.emit _

theorem ArmedB.step {s : TQ} (ht : Top s) (h : ArmedB false s) (i : In) : ArmedB false (Timer.step s i) := by
  cases i with
  | now t => exact h.of_same rfl rfl rfl rfl (List.suffix_refl _)
  | addr a => exact h.of_same rfl rfl rfl rfl (List.suffix_refl _)
  | script name k a => exact h.of_same rfl rfl rfl rfl (List.suffix_refl _)
  | add who name m =>
    cases who with
    | loop => exact h.addL name m
    | foreign =>
      show ArmedB false (if s.parked.isSome then s else Timer.addFinish (Timer.addAlloc s name m))
      split
      · exact h
      · have he := addForeign_quiet s name m
        exact h.of_same he.timers he.alarm he.readable he.armedAt he.suffix
  | addAlloc name m =>
    have he := addAlloc_quiet s name m
    exact h.of_same he.timers he.alarm he.readable he.armedAt he.suffix
  | addFinish =>
    have he := addFinish_quiet s
    exact h.of_same he.timers he.alarm he.readable he.armedAt he.suffix
  | cancel who v k =>
    cases who with
    | loop => exact (h.cancelInLoop ht.wf _).emit _
    | foreign => exact h.of_same rfl rfl rfl rfl (List.suffix_refl _)
  | expire =>
    show ArmedB false (match s.alarm with | some _ => { s with alarm := none, readable := true } | none => s)
    split
    · intro hv
      obtain ⟨h1, _⟩ := h hv
      exact ⟨h1, fun _ _ => Or.inl rfl⟩
    · exact h
  | iter =>
    exact iter_inv (ArmedB false) (fun s ht h => h.handleRead ht.wf)
      (fun s _ h => h.of_same rfl rfl rfl rfl (List.suffix_refl _)) (fun s hw _ h => h.runNext hw) s ht h

theorem run_armed (ins : List In) : ArmedB false (run ins) :=
  run_inv (ArmedB false) (fun _ => ⟨fun _ he => absurd he List.not_mem_nil, fun _ hne => absurd rfl hne⟩)
    (fun _ i ht h => h.step ht i) ins

end MuduoVerif.Timer
