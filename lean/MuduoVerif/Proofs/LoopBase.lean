import MuduoVerif.Model.Loop
/-!
# Lemmas about the `Loop` transition system that do not depend on what the code looks like

Frame lemmas for `touch` / `setThr`, the two case-analysis macros, classifiers of phases and thread positions,
"some other thread is at position p".  No `Gen.Loop` constant is mentioned here: the ties to the generated
definitions live next to the invariants that need them (`Proofs/Loop.lean`, `LoopWake`, `LoopExit` for C04;
`LoopQuit`, `LoopElt` for C05), so that a change of the code breaks exactly the proofs that rest on the changed part.
-/
set_option linter.unnecessarySimpa false
namespace MuduoVerif.Loop
open MuduoVerif.Gen.Loop

/-! ## frame lemmas -/

section touch
variable (s : St) (d : Bool)
@[simp] theorem touch_pending : (touch s d).pending = s.pending := by unfold touch; split <;> (try split) <;> rfl
@[simp] theorem touch_appendOrder : (touch s d).appendOrder = s.appendOrder := by unfold touch; split <;> (try split) <;> rfl
@[simp] theorem touch_executed : (touch s d).executed = s.executed := by unfold touch; split <;> (try split) <;> rfl
@[simp] theorem touch_batch : (touch s d).batch = s.batch := by unfold touch; split <;> (try split) <;> rfl
@[simp] theorem touch_phase : (touch s d).phase = s.phase := by unfold touch; split <;> (try split) <;> rfl
@[simp] theorem touch_ev : (touch s d).ev = s.ev := by unfold touch; split <;> (try split) <;> rfl
@[simp] theorem touch_quit : (touch s d).quit = s.quit := by unfold touch; split <;> (try split) <;> rfl
@[simp] theorem touch_qreq : (touch s d).qreq = s.qreq := by unfold touch; split <;> (try split) <;> rfl
@[simp] theorem touch_selfQuit : (touch s d).selfQuit = s.selfQuit := by unfold touch; split <;> (try split) <;> rfl
@[simp] theorem touch_quitMark : (touch s d).quitMark = s.quitMark := by unfold touch; split <;> (try split) <;> rfl
@[simp] theorem touch_calling : (touch s d).calling = s.calling := by unfold touch; split <;> (try split) <;> rfl
@[simp] theorem touch_looping : (touch s d).looping = s.looping := by unfold touch; split <;> (try split) <;> rfl
@[simp] theorem touch_lpc : (touch s d).lpc = s.lpc := by unfold touch; split <;> (try split) <;> rfl
@[simp] theorem touch_stack : (touch s d).stack = s.stack := by unfold touch; split <;> (try split) <;> rfl
@[simp] theorem touch_thr : (touch s d).thr = s.thr := by unfold touch; split <;> (try split) <;> rfl
@[simp] theorem touch_elt : (touch s d).elt = s.elt := by unfold touch; split <;> (try split) <;> rfl
@[simp] theorem touch_alive : (touch s d).alive = s.alive := by unfold touch; split <;> (try split) <;> rfl
@[simp] theorem touch_loopPtr : (touch s d).loopPtr = s.loopPtr := by unfold touch; split <;> (try split) <;> rfl
@[simp] theorem touch_mtx : (touch s d).mtx = s.mtx := by unfold touch; split <;> (try split) <;> rfl
@[simp] theorem touch_waiting : (touch s d).waiting = s.waiting := by unfold touch; split <;> (try split) <;> rfl
@[simp] theorem touch_finished : (touch s d).finished = s.finished := by unfold touch; split <;> (try split) <;> rfl
@[simp] theorem touch_retMark : (touch s d).retMark = s.retMark := by unfold touch; split <;> (try split) <;> rfl
@[simp] theorem touch_final : (touch s d).final = s.final := by unfold touch; split <;> (try split) <;> rfl
@[simp] theorem touch_ioReady : (touch s d).ioReady = s.ioReady := by unfold touch; split <;> (try split) <;> rfl
@[simp] theorem touch_active : (touch s d).active = s.active := by unfold touch; split <;> (try split) <;> rfl
@[simp] theorem touch_corpses : (touch s d).corpses = s.corpses := by unfold touch; split <;> (try split) <;> rfl
@[simp] theorem touch_burying : (touch s d).burying = s.burying := by unfold touch; split <;> (try split) <;> rfl
@[simp] theorem touch_tbl : (touch s d).tbl = s.tbl := by unfold touch; split <;> (try split) <;> rfl
@[simp] theorem touch_dtbl : (touch s d).dtbl = s.dtbl := by unfold touch; split <;> (try split) <;> rfl
@[simp] theorem touch_L : (touch s d).L = s.L := by unfold St.L; simp
@[simp] theorem touch_markOf : markOf (touch s d) = markOf s := by unfold markOf; simp
theorem touch_uafDtor_false : (touch s false).uafDtor = s.uafDtor := by unfold touch; split <;> rfl
theorem touch_uafDtor_true : (touch s true).uafDtor = (s.uafDtor || !s.alive) := by
  unfold touch; split <;> simp_all
end touch

section setThr
variable (s : St) (k : Nat) (t : FThread)
@[simp] theorem setThr_pending : (setThr s k t).pending = s.pending := rfl
@[simp] theorem setThr_appendOrder : (setThr s k t).appendOrder = s.appendOrder := rfl
@[simp] theorem setThr_executed : (setThr s k t).executed = s.executed := rfl
@[simp] theorem setThr_batch : (setThr s k t).batch = s.batch := rfl
@[simp] theorem setThr_phase : (setThr s k t).phase = s.phase := rfl
@[simp] theorem setThr_ev : (setThr s k t).ev = s.ev := rfl
@[simp] theorem setThr_quit : (setThr s k t).quit = s.quit := rfl
@[simp] theorem setThr_qreq : (setThr s k t).qreq = s.qreq := rfl
@[simp] theorem setThr_selfQuit : (setThr s k t).selfQuit = s.selfQuit := rfl
@[simp] theorem setThr_quitMark : (setThr s k t).quitMark = s.quitMark := rfl
@[simp] theorem setThr_calling : (setThr s k t).calling = s.calling := rfl
@[simp] theorem setThr_looping : (setThr s k t).looping = s.looping := rfl
@[simp] theorem setThr_lpc : (setThr s k t).lpc = s.lpc := rfl
@[simp] theorem setThr_stack : (setThr s k t).stack = s.stack := rfl
@[simp] theorem setThr_elt : (setThr s k t).elt = s.elt := rfl
@[simp] theorem setThr_alive : (setThr s k t).alive = s.alive := rfl
@[simp] theorem setThr_loopPtr : (setThr s k t).loopPtr = s.loopPtr := rfl
@[simp] theorem setThr_mtx : (setThr s k t).mtx = s.mtx := rfl
@[simp] theorem setThr_waiting : (setThr s k t).waiting = s.waiting := rfl
@[simp] theorem setThr_finished : (setThr s k t).finished = s.finished := rfl
@[simp] theorem setThr_retMark : (setThr s k t).retMark = s.retMark := rfl
@[simp] theorem setThr_final : (setThr s k t).final = s.final := rfl
@[simp] theorem setThr_ioReady : (setThr s k t).ioReady = s.ioReady := rfl
@[simp] theorem setThr_active : (setThr s k t).active = s.active := rfl
@[simp] theorem setThr_corpses : (setThr s k t).corpses = s.corpses := rfl
@[simp] theorem setThr_burying : (setThr s k t).burying = s.burying := rfl
@[simp] theorem setThr_tbl : (setThr s k t).tbl = s.tbl := rfl
@[simp] theorem setThr_dtbl : (setThr s k t).dtbl = s.dtbl := rfl
@[simp] theorem setThr_uafDtor : (setThr s k t).uafDtor = s.uafDtor := rfl
@[simp] theorem setThr_thr_self : (setThr s k t).thr k = t := by simp [setThr]
theorem setThr_thr_ne {j : Nat} (h : j ≠ k) : (setThr s k t).thr j = s.thr j := by simp [setThr, h]
theorem setThr_thr (j : Nat) : (setThr s k t).thr j = if j = k then t else s.thr j := rfl
end setThr

/-- unfold one step of the loop thread into its branches (task bodies stay behind `runTop`) -/
macro "loop_cases" : tactic => `(tactic| (
  unfold stepLoop stepLoopFD stepLoopG
  split
  all_goals (try simp only [testQuit, leaveLoop, enterLoop, relaunch])
  all_goals (repeat' split)))


/-- unfold one step of another thread into its branches -/
macro "other_cases" : tactic => `(tactic| (
  unfold stepOther
  split
  all_goals (try simp only [stepIdle, stepAppended, stepQuitStored, stepSCheck, stepSWaiting, stepDEntry,
    stepDStored, stepDJoin])
  all_goals (try split)
  all_goals (try split)
  all_goals (try split)
  all_goals (try simp only [doAppend, doQuitStore, doWake, silent])))


/-! ## the loop thread never changes another thread's record -/

theorem runTop_thr (s : St) : (runTop s).thr = s.thr := by
  unfold runTop; repeat' split
  all_goals rfl

theorem runTop_elt (s : St) : (runTop s).elt = s.elt := by
  unfold runTop; repeat' split
  all_goals rfl

theorem stepOther_frame (s : St) (k j : Nat) (hj : j ≠ k) : (stepOther s k).thr j = s.thr j := by
  other_cases
  all_goals (simp [setThr, hj])

theorem L_of_elt {s s' : St} (h : s'.elt = s.elt) : s'.L = s.L := by unfold St.L; rw [h]

/-! ## positions of the other threads -/

/-- some thread other than the loop thread is at micro-position `p` -/
def inflightF (thr : Nat → FThread) (L : Nat) (p : Pc) : Prop := ∃ j, j ≠ L ∧ (thr j).pc = p

theorem inflightF_new {thr : Nat → FThread} {k : Nat} {t : FThread} {L : Nat} {p : Pc}
    (hk : k ≠ L) (ht : t.pc = p) : inflightF (fun j => if j = k then t else thr j) L p :=
  ⟨k, hk, by simp [ht]⟩

theorem inflightF_keep {thr : Nat → FThread} {k : Nat} {t : FThread} {L : Nat} {p : Pc}
    (h : inflightF thr L p) (hk : (thr k).pc ≠ p) : inflightF (fun j => if j = k then t else thr j) L p := by
  obtain ⟨j, hj, hp⟩ := h
  refine ⟨j, hj, ?_⟩
  have : j ≠ k := by rintro rfl; exact hk hp
  simp [this, hp]

@[simp] theorem setThr_thr_fun (s : St) (k : Nat) (t : FThread) :
    (setThr s k t).thr = fun j => if j = k then t else s.thr j := rfl

/-- phases in which a queued functor must be accompanied by a wake-up (`returned`: `loop()` may be entered again, and
what a foreign thread queued after the last test of the queue must then wake the first `poll`) -/
def needsWake : Phase → Bool
  | .unborn | .born | .pre | .ready | .entered | .looptest | .polling | .draining | .returned => true
  | _ => false

def taskPhase : Phase → Bool
  | .unborn | .born | .pre | .dispatch | .draining => true
  | _ => false

/-- outside `loop()`: before it is entered, or after it has returned (and before it is entered again) -/
def beforeLoop : Phase → Bool
  | .unborn | .born | .pre | .ready | .returned => true
  | _ => false

theorem inflightF_keep' {thr thr' : Nat → FThread} {k : Nat} {L : Nat} {p : Pc}
    (h : inflightF thr L p) (hk : (thr k).pc ≠ p) (hthr : ∀ j, j ≠ k → thr' j = thr j) : inflightF thr' L p := by
  obtain ⟨j, hj, hp⟩ := h
  refine ⟨j, hj, ?_⟩
  have : j ≠ k := by rintro rfl; exact hk hp
  rw [hthr j this]; exact hp


theorem inflight_keep_of {s s' : St} {k : Nat} {p : Pc} (h : inflightF s.thr s.L p) (hk : (s.thr k).pc ≠ p)
    (hL : s'.elt = s.elt) (hthr : ∀ j, j ≠ k → s'.thr j = s.thr j) : inflightF s'.thr s'.L p := by
  unfold St.L; rw [hL]; exact inflightF_keep' h hk hthr

/-! ## classifiers -/

/-- `loop()` has returned -/
def exited : Phase → Bool
  | .returned | .dead => true
  | _ => false
/-- `loop_` of the `EventLoopThread` is published -/
def running : Phase → Bool
  | .ready | .entered | .looptest | .polling | .dispatch | .preSwap | .draining | .atExit | .returned => true
  | _ => false
/-- the `EventLoop` object exists -/
def hasLoop : Phase → Bool
  | .unborn | .born | .dead => false
  | _ => true
/-- the thread holds `EventLoopThread::mutex_` across a point -/
def inH : Pc → Bool
  | .dBeforeQuit | .dStored => true
  | _ => false
/-- inside an `EventLoopThread` member function -/
def inElt : Pc → Bool
  | .sCheck | .sWaiting | .dEntry | .dBeforeQuit | .dStored | .dJoin => true
  | _ => false

/-! ## induction over schedules -/

theorem run_cons (s : St) (k : Nat) (rest : List Nat) : run s (k :: rest) = run (step s k) rest := rfl

theorem run_append (s : St) (a b : List Nat) : run s (a ++ b) = run (run s a) b := by
  simp [run, List.foldl_append]

/-- an invariant of `step` holds after every schedule -/
theorem run_invariant {P : St → Prop} (hstep : ∀ s k, P s → P (step s k)) {s : St} (h : P s) (sched : List Nat) :
    P (run s sched) := by
  induction sched generalizing s with
  | nil => exact h
  | cons k rest ih => exact ih (hstep s k h)

/-- reachable from an initial configuration under some schedule -/
def Reachable (s : St) : Prop :=
  ∃ elt wl tbl dtbl pre again progs sched, s = run (init elt wl tbl dtbl pre again progs) sched

theorem reachable_init (elt wl : Bool) (tbl) (dtbl) (pre) (again) (progs) : Reachable (init elt wl tbl dtbl pre again progs) :=
  ⟨elt, wl, tbl, dtbl, pre, again, progs, [], rfl⟩

theorem reachable_run {s : St} (h : Reachable s) (sched : List Nat) : Reachable (run s sched) := by
  obtain ⟨elt, wl, tbl, dtbl, pre, again, progs, sc, rfl⟩ := h
  exact ⟨elt, wl, tbl, dtbl, pre, again, progs, sc ++ sched, (run_append _ _ _).symm⟩

theorem reachable_step {s : St} (h : Reachable s) (k : Nat) : Reachable (step s k) := reachable_run h [k]

/-- what holds initially and survives every step holds in every reachable state -/
theorem reachable_invariant {P : St → Prop} (hinit : ∀ elt wl tbl dtbl pre again progs, P (init elt wl tbl dtbl pre again progs))
    (hstep : ∀ s k, P s → P (step s k)) {s : St} (h : Reachable s) : P s := by
  obtain ⟨elt, wl, tbl, dtbl, pre, again, progs, sc, rfl⟩ := h
  exact run_invariant hstep (hinit elt wl tbl dtbl pre again progs) sc

end MuduoVerif.Loop
