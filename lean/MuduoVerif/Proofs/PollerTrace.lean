import MuduoVerif.Proofs.PollerPoll
import MuduoVerif.Proofs.PollerEpoll
/-!
# Trace invariants of the dispatch engine, whatever the back-end

The output trace carries its own history: `.op c k …` events are the accepted operations in the order
they were executed — between polls *and* inside callbacks.  `histEvents`/`histAdded` replay them.
Every callback event is checked against that replay.
-/
namespace MuduoVerif.Poller
open MuduoVerif.Gen.Poller

/-- interest word of channel `c` after one more trace event -/
def histStepEv (c : Nat) (e : Nat) : Ev → Nat
  | .op c' k _ _ => if c' = c then opEvents k e else e
  | _ => e

/-- registration of channel `c` after one more trace event -/
def histStepAdded (c : Nat) (a : Bool) : Ev → Bool
  | .op c' k _ _ => if c' = c then opAdded k else a
  | _ => a

/-- the loop's own channels (timer queue, wake-up) are read-enabled by `EventLoop`'s constructor -/
def initEvents (c : Nat) : Nat := if c = wakeChan then kReadEvent else if c = timerChan then kReadEvent else 0
def initAdded (c : Nat) : Bool := if c = wakeChan then true else if c = timerChan then true else false

/-- the interest word of channel `c` according to the operations recorded in the trace -/
def histEvents (c : Nat) (out : List Ev) : Nat := out.foldl (histStepEv c) (initEvents c)
/-- is channel `c` registered according to the operations recorded in the trace? -/
def histAdded (c : Nat) (out : List Ev) : Bool := out.foldl (histStepAdded c) (initAdded c)

def Ev.isOp : Ev → Bool
  | .op .. => true
  | _ => false

theorem foldl_histStepEv_noop (c : Nat) (l : List Ev) (hl : ∀ e ∈ l, e.isOp = false) (e0 : Nat) :
    l.foldl (histStepEv c) e0 = e0 := by
  induction l generalizing e0 with
  | nil => rfl
  | cons e r ih =>
    have he := hl e (by simp)
    rw [List.foldl_cons, ih (fun x hx => hl x (by simp [hx]))]
    cases e <;> simp_all [histStepEv, Ev.isOp]

theorem foldl_histStepAdded_noop (c : Nat) (l : List Ev) (hl : ∀ e ∈ l, e.isOp = false) (a0 : Bool) :
    l.foldl (histStepAdded c) a0 = a0 := by
  induction l generalizing a0 with
  | nil => rfl
  | cons e r ih =>
    have he := hl e (by simp)
    rw [List.foldl_cons, ih (fun x hx => hl x (by simp [hx]))]
    cases e <;> simp_all [histStepAdded, Ev.isOp]

theorem histEvents_append_noop (c : Nat) (out l : List Ev) (hl : ∀ e ∈ l, e.isOp = false) :
    histEvents c (out ++ l) = histEvents c out := by
  unfold histEvents; rw [List.foldl_append, foldl_histStepEv_noop c l hl]

theorem histAdded_append_noop (c : Nat) (out l : List Ev) (hl : ∀ e ∈ l, e.isOp = false) :
    histAdded c (out ++ l) = histAdded c out := by
  unfold histAdded; rw [List.foldl_append, foldl_histStepAdded_noop c l hl]

theorem isBack_notOp {e : Ev} (h : e.isBack = true) : e.isOp = false := by
  cases e <;> simp_all [Ev.isBack, Ev.isOp]

theorem isBack_notCb {e : Ev} (h : e.isBack = true) : e.isCb = false := by
  cases e <;> simp_all [Ev.isBack, Ev.isCb]

theorem isPlumb_notOp {e : Ev} (h : e.isPlumb) : e.isOp = false := by
  cases e <;> simp_all [Ev.isPlumb, Ev.isOp]

/-- what the trace says about the callbacks dispatched so far -/
structure TraceInv (s : State) : Prop where
  /-- the channel objects agree with the replay of the recorded operations -/
  ev : s.dead = false → ∀ c, (s.chans c).events = histEvents c s.out
  added : s.dead = false → ∀ c, (s.chans c).added = histAdded c s.out
  /-- interest implies registration -/
  reg : ∀ c, (s.chans c).events ≠ 0 → (s.chans c).added = true
  /-- every callback: matching `revents` bits, and subscribed at the moment of the call according to
  the operations executed before it (including those of earlier callbacks of the same batch) -/
  cb : ∀ i c k rev ev, s.out[i]? = some (.cb c k rev ev) →
    disp k rev ∧ subscribed k ev ∧ ev = histEvents c (s.out.take i) ∧ histAdded c (s.out.take i) = true

theorem getElem?_append_cb {out l : List Ev} (hl : ∀ e ∈ l, e.isCb = false) {i : Nat} {c k rev ev}
    (h : (out ++ l)[i]? = some (.cb c k rev ev)) : out[i]? = some (.cb c k rev ev) ∧ i < out.length := by
  by_cases hi : i < out.length
  · rw [List.getElem?_append_left hi] at h; exact ⟨h, hi⟩
  · rw [List.getElem?_append_right (by omega)] at h
    have := hl _ (List.mem_of_getElem? h)
    simp [Ev.isCb] at this

theorem TraceInv.cb_append {s : State} (h : TraceInv s) {out' l : List Ev} (ho : out' = s.out ++ l)
    (hl : ∀ e ∈ l, e.isCb = false) :
    ∀ i c k rev ev, out'[i]? = some (.cb c k rev ev) →
      disp k rev ∧ subscribed k ev ∧ ev = histEvents c (out'.take i) ∧ histAdded c (out'.take i) = true := by
  intro i c k rev ev hi
  rw [ho] at hi ⊢
  obtain ⟨h1, h2⟩ := getElem?_append_cb hl hi
  rw [List.take_append_of_le_length (by omega)]
  exact h.cb i c k rev ev h1

theorem subscribed_ne_zero {k : Kind} {e : Nat} (h : subscribed k e) : e ≠ 0 := by
  intro h0; subst h0
  cases k <;> simp [subscribed, guardClose, guardError, guardRead, guardWrite, isNoneEvent, kNoneEvent,
    isReading, isWriting] at h

theorem traceInv_applyOp (s : State) (c : Nat) (k : OpKind) (h : TraceInv s) : TraceInv (applyOp s c k) := by
  rcases applyOp_cases s c k with ⟨_, h1⟩ | ⟨hd, _, h1⟩ | ⟨hd, hacc, h1⟩
  · rw [h1]; exact h
  · rw [h1]
    have hn : ∀ e ∈ [Ev.reject c k], e.isOp = false := by simp [Ev.isOp]
    refine ⟨fun _ x => ?_, fun _ x => ?_, h.reg, h.cb_append rfl (by simp [Ev.isCb])⟩
    · simp only [emit]; rw [histEvents_append_noop x _ _ hn]; exact h.ev hd x
    · simp only [emit]; rw [histAdded_append_noop x _ _ hn]; exact h.added hd x
  · obtain ⟨l, hlb, halive, hdead⟩ := h1.out
    have hlop : ∀ e ∈ l, e.isOp = false := fun e he => isBack_notOp (hlb e he)
    refine ⟨?_, ?_, ?_, ?_⟩
    · intro hd' x
      rw [(halive hd').2, h1.ev x]
      unfold histEvents
      rw [List.foldl_append, List.foldl_append, foldl_histStepEv_noop x l hlop]
      simp only [List.foldl_cons, List.foldl_nil, histStepEv]
      have := h.ev hd
      unfold histEvents at this
      by_cases hx : x = c
      · subst hx; simp [this x]
      · have hx' : ¬ c = x := fun e => hx e.symm
        simp [hx, hx', this x]
    · intro hd' x
      rw [(halive hd').2, h1.added x]
      unfold histAdded
      rw [List.foldl_append, List.foldl_append, foldl_histStepAdded_noop x l hlop]
      simp only [List.foldl_cons, List.foldl_nil, histStepAdded]
      have := h.added hd
      unfold histAdded at this
      by_cases hx : x = c
      · subst hx; simp
      · have hx' : ¬ c = x := fun e => hx e.symm
        simp [hx, hx', this x]
    · intro x hx
      rw [h1.ev x] at hx
      rw [h1.added x]
      by_cases hxc : x = c
      · subst hxc
        simp only [if_true] at hx ⊢
        cases k with
        | remove =>
          have hr : removeOk s x := hacc
          exact absurd (by simpa [opEvents, newEvents, isNoneEvent, kNoneEvent] using hr.2.1) hx
        | recreate => simp [opEvents] at hx
        | _ => rfl
      · simp only [hxc, if_false] at hx ⊢
        exact h.reg x hx
    · cases hd' : (applyOp s c k).dead with
      | true =>
        exact h.cb_append (hdead hd') (fun e he => isBack_notCb (hlb e he))
      | false =>
        refine h.cb_append (l := l ++ [.op c k ((applyOp s c k).chans c).events ((applyOp s c k).chans c).index])
          (by rw [(halive hd').2, List.append_assoc]) ?_
        intro e he
        rcases List.mem_append.1 he with h2 | h2
        · exact isBack_notCb (hlb e h2)
        · simp at h2; subst h2; rfl

theorem traceInv_frame (s t : State) (f : Frame s t) (h : TraceInv s) : TraceInv t := by
  obtain ⟨l, hl, hp, _⟩ := f.out
  have hlop : ∀ e ∈ l, e.isOp = false := fun e he => isPlumb_notOp (hp e he)
  refine ⟨?_, ?_, ?_, h.cb_append hl (fun e he => (hp e he).notCb)⟩
  · intro hd x
    rw [hl, histEvents_append_noop x _ _ hlop, f.ev x]; exact h.ev (f.dead hd) x
  · intro hd x
    rw [hl, histAdded_append_noop x _ _ hlop, f.added x]; exact h.added (f.dead hd) x
  · intro x hx
    rw [f.ev x] at hx; rw [f.added x]; exact h.reg x hx

theorem traceInv_cb (s t : State) (q : CbStep s t) (h : TraceInv s) : TraceInv t := by
  obtain ⟨c, k, hd, hdisp, hsub, rfl⟩ := q
  have hn : ∀ e ∈ [Ev.cb c k (s.chans c).revents (s.chans c).events], e.isOp = false := by simp [Ev.isOp]
  refine ⟨?_, ?_, h.reg, ?_⟩
  · intro _ x
    simp only [emit]; rw [histEvents_append_noop x _ _ hn]; exact h.ev hd x
  · intro _ x
    simp only [emit]; rw [histAdded_append_noop x _ _ hn]; exact h.added hd x
  · intro i c' k' rev ev hi
    simp only [emit] at hi ⊢
    by_cases hlt : i < s.out.length
    · rw [List.getElem?_append_left hlt] at hi
      rw [List.take_append_of_le_length (by omega)]
      exact h.cb i c' k' rev ev hi
    · rw [List.getElem?_append_right (by omega)] at hi
      have hi0 : i - s.out.length = 0 := by
        cases hz : i - s.out.length with
        | zero => rfl
        | succ n => rw [hz] at hi; simp at hi
      rw [hi0] at hi
      simp only [List.getElem?_cons_zero, Option.some.injEq, Ev.cb.injEq] at hi
      obtain ⟨rfl, rfl, rfl, rfl⟩ := hi
      have hi' : i = s.out.length := by omega
      subst hi'
      rw [List.take_left']
      · refine ⟨hdisp, hsub, h.ev hd c, ?_⟩
        rw [← h.added hd c]
        exact h.reg c (subscribed_ne_zero hsub)
      · rfl


/-! ### the initial state -/

theorem init_alive (be : Backend) :
    (applyOp (empty be) timerChan .enableR).dead = false ∧
      (applyOp (applyOp (empty be) timerChan .enableR) wakeChan .enableR).dead = false := by
  cases be with
  | epoll =>
    have h1 := epStruct_applyOp (s := empty .epoll) rfl epStruct_empty timerChan .enableR
    have h2 := epStruct_applyOp (s := applyOp (empty .epoll) timerChan .enableR)
      ((applyOp_be _ _ _).trans rfl) h1.1 wakeChan .enableR
    exact ⟨h1.2.1, h2.2.1.trans h1.2.1⟩
  | poll =>
    have h1 := pollStruct_applyOp (s := empty .poll) rfl pollStruct_empty timerChan .enableR
    have h2 := pollStruct_applyOp (s := applyOp (empty .poll) timerChan .enableR)
      ((applyOp_be _ _ _).trans rfl) h1.1 wakeChan .enableR
    exact ⟨h1.2.1, h2.2.1.trans h1.2.1⟩

/-- the state after `EventLoop`'s constructor, whatever the back-end -/
theorem init_chans (be : Backend) (c : Nat) :
    ((init be).chans c).events = initEvents c ∧ ((init be).chans c).added = initAdded c ∧
      (init be).dead = false ∧ ((init be).chans c).revents = 0 := by
  obtain ⟨d1, d2⟩ := init_alive be
  have o1 := applyOp_opStep (s := empty be) rfl (c := timerChan) (k := .enableR) trivial
  have o2 := applyOp_opStep (s := applyOp (empty be) timerChan .enableR) d1 (c := wakeChan) (k := .enableR) trivial
  refine ⟨?_, ?_, d2, ?_⟩
  · show ((applyOp (applyOp (empty be) timerChan .enableR) wakeChan .enableR).chans c).events = _
    rw [o2.ev c, o1.ev c, o1.ev wakeChan]
    unfold initEvents
    by_cases h1 : c = wakeChan
    · subst h1; simp [empty, opEvents, newEvents, enableReading, wakeChan, timerChan]
    · by_cases h0 : c = timerChan
      · subst h0; simp [empty, opEvents, newEvents, enableReading, wakeChan, timerChan]
      · simp [h1, h0, empty]
  · show ((applyOp (applyOp (empty be) timerChan .enableR) wakeChan .enableR).chans c).added = _
    rw [o2.added c, o1.added c]
    unfold initAdded
    by_cases h1 : c = wakeChan
    · simp [h1, opAdded]
    · by_cases h0 : c = timerChan
      · simp [h0, opAdded]
      · simp [h1, h0, empty]
  · show ((applyOp (applyOp (empty be) timerChan .enableR) wakeChan .enableR).chans c).revents = _
    rw [o2.rev c, o1.rev c, o1.rev wakeChan]
    by_cases h1 : c = wakeChan
    · subst h1; simp [empty, opRevents, wakeChan, timerChan]
    · by_cases h0 : c = timerChan
      · subst h0; simp [empty, opRevents, wakeChan, timerChan]
      · simp [h1, h0, empty]

theorem init_out (be : Backend) : (init be).out = [] := rfl

theorem traceInv_init (be : Backend) : TraceInv (init be) := by
  refine ⟨fun _ c => ?_, fun _ c => ?_, fun c hc => ?_, fun i c k rev ev h => ?_⟩
  · rw [(init_chans be c).1, init_out]; rfl
  · rw [(init_chans be c).2.1, init_out]; rfl
  · rw [(init_chans be c).1] at hc
    rw [(init_chans be c).2.1]
    unfold initEvents at hc; unfold initAdded
    split
    · rfl
    · rename_i h1; rw [if_neg h1] at hc
      split
      · rfl
      · rename_i h0; rw [if_neg h0] at hc; exact absurd rfl hc
  · rw [init_out] at h; simp at h

theorem traceInv_run (be : Backend) (ins : List In) : TraceInv (run (init be) ins) :=
  ReachF.preserves traceInv_applyOp traceInv_frame traceInv_cb (reach_run ins _) (traceInv_init be)


/-! ### no `epoll_ctl` ever fails -/

theorem isFailure_ctl {e : Ev} (h : e.isFailure = false) : e.isCtlFailure = false := by
  unfold Ev.isFailure at h; rw [Bool.or_eq_false_iff] at h; exact h.1

theorem isAbort_notCtl {e : Ev} (h : e.isAbort = true) : e.isCtlFailure = false := by
  cases e <;> simp_all [Ev.isAbort, Ev.isCtlFailure]

theorem isPlumb_notCtl {e : Ev} (h : e.isPlumb) : e.isCtlFailure = false := by
  cases e <;> simp_all [Ev.isPlumb, Ev.isCtlFailure]

/-- `PollPoller` makes no system call in `updateChannel`: at most a failed assertion is logged -/
theorem pollUpdate_out (s : State) (c : Nat) :
    ∃ l, (pollUpdate s c).out = s.out ++ l ∧ ∀ e ∈ l, e.isAbort = true := by
  unfold pollUpdate
  simp only
  split
  · split
    · exact ⟨[_], rfl, by simp [Ev.isAbort]⟩
    · exact ⟨[], by simp, by simp⟩
  · split
    · exact ⟨[_], rfl, by simp [Ev.isAbort]⟩
    · split
      · exact ⟨[_], rfl, by simp [Ev.isAbort]⟩
      · split
        · exact ⟨[_], rfl, by simp [Ev.isAbort]⟩
        · exact ⟨[], by simp, by simp⟩

theorem pollRemove_out (s : State) (c : Nat) :
    ∃ l, (pollRemove s c).out = s.out ++ l ∧ ∀ e ∈ l, e.isAbort = true := by
  unfold pollRemove
  simp only
  split
  · exact ⟨[_], rfl, by simp [Ev.isAbort]⟩
  · split
    · exact ⟨[_], rfl, by simp [Ev.isAbort]⟩
    · split
      · exact ⟨[_], rfl, by simp [Ev.isAbort]⟩
      · split
        · exact ⟨[_], rfl, by simp [Ev.isAbort]⟩
        · split
          · exact ⟨[_], rfl, by simp [Ev.isAbort]⟩
          · split
            · exact ⟨[], by simp, by simp⟩
            · split
              · exact ⟨[_], rfl, by simp [Ev.isAbort]⟩
              · split
                · exact ⟨[_], rfl, by simp [Ev.isAbort]⟩
                · exact ⟨[], by simp, by simp⟩

theorem report_out (t : State) (c k) :
    ∃ l, (report t c k).out = t.out ++ l ∧ ∀ e ∈ l, e.isCtlFailure = false := by
  unfold report
  split
  · exact ⟨[], by simp, by simp⟩
  · exact ⟨[_], rfl, by simp [Ev.isCtlFailure]⟩

theorem applyOp_poll_out {s : State} (hbe : s.be = .poll) (c : Nat) (k : OpKind) :
    ∃ l, (applyOp s c k).out = s.out ++ l ∧ ∀ e ∈ l, e.isCtlFailure = false := by
  have comb : ∀ (p b : State), p.out = s.out → (∃ l, b.out = p.out ++ l ∧ ∀ e ∈ l, e.isAbort = true) →
      ∃ l, (report b c k).out = s.out ++ l ∧ ∀ e ∈ l, e.isCtlFailure = false := by
    intro p b hp ⟨l1, h1, h1'⟩
    obtain ⟨l2, h2, h2'⟩ := report_out b c k
    refine ⟨l1 ++ l2, by rw [h2, h1, hp, List.append_assoc], ?_⟩
    intro e he
    rcases List.mem_append.1 he with h | h
    · exact isAbort_notCtl (h1' e h)
    · exact h2' e h
  cases hd : s.dead with
  | true => rw [applyOp_dead hd]; exact ⟨[], by simp, by simp⟩
  | false =>
    by_cases hacc : accepts s c k
    · cases hk : k.isUpdate with
      | true =>
        rw [applyOp_update hd hk]
        have hbe' : (setInterest s c k).be = .poll := hbe
        simp only [updateChannel, hbe']
        exact comb (setInterest s c k) _ rfl (pollUpdate_out _ c)
      | false =>
        cases k with
        | remove =>
          have hr : removeOk s c := hacc
          rw [applyOp_remove hd hr]
          have hbe' : (setChan s c { s.chans c with added := false }).be = .poll := hbe
          simp only [removeChannel, hbe']
          exact comb (setChan s c { s.chans c with added := false }) _ rfl (pollRemove_out _ c)
        | recreate =>
          have hr : recreateOk s c := hacc
          rw [applyOp_recreate hd hr]
          exact comb (setChan s c {}) _ rfl ⟨[], by simp, by simp⟩
        | _ => simp [OpKind.isUpdate] at hk
    · rw [applyOp_reject hd hacc]
      exact ⟨[_], rfl, by simp [Ev.isCtlFailure]⟩

/-- no failed `epoll_ctl`, `LOG_SYSERR` or `LOG_SYSFATAL` in the trace -/
def NoCtlFail (s : State) : Prop := (s.be = .epoll → EpStruct s) ∧ ∀ e ∈ s.out, e.isCtlFailure = false

theorem noCtlFail_append {s : State} (h : ∀ e ∈ s.out, e.isCtlFailure = false) {out' l : List Ev}
    (ho : out' = s.out ++ l) (hl : ∀ e ∈ l, e.isCtlFailure = false) : ∀ e ∈ out', e.isCtlFailure = false := by
  intro e he
  rw [ho] at he
  rcases List.mem_append.1 he with h1 | h1
  · exact h e h1
  · exact hl e h1

theorem noCtlFail_applyOp (s : State) (c k) (h : NoCtlFail s) : NoCtlFail (applyOp s c k) := by
  cases hbe : s.be with
  | epoll =>
    obtain ⟨h1, _, l, hl, hl'⟩ := epStruct_applyOp hbe (h.1 hbe) c k
    exact ⟨fun _ => h1, noCtlFail_append h.2 hl (fun e he => isFailure_ctl (hl' e he))⟩
  | poll =>
    obtain ⟨l, hl, hl'⟩ := applyOp_poll_out hbe c k
    refine ⟨fun hb => ?_, noCtlFail_append h.2 hl hl'⟩
    rw [applyOp_be, hbe] at hb; exact absurd hb (by simp)

theorem noCtlFail_frame (s t : State) (f : Frame s t) (h : NoCtlFail s) : NoCtlFail t := by
  obtain ⟨l, hl, hp, _⟩ := f.out
  exact ⟨fun hb => (h.1 (f.be ▸ hb)).frame f, noCtlFail_append h.2 hl (fun e he => isPlumb_notCtl (hp e he))⟩

theorem noCtlFail_cb (s t : State) (q : CbStep s t) (h : NoCtlFail s) : NoCtlFail t := by
  obtain ⟨c, k, _, _, _, rfl⟩ := q
  exact ⟨fun hb => (h.1 hb).congr rfl rfl (fun _ => rfl) (fun _ => rfl) (fun _ => rfl),
    noCtlFail_append h.2 (l := [_]) rfl (by simp [Ev.isCtlFailure])⟩

theorem noCtlFail_run (be : Backend) (ins : List In) : NoCtlFail (run (init be) ins) := by
  refine ReachF.preserves noCtlFail_applyOp noCtlFail_frame noCtlFail_cb (reach_run ins _) ⟨?_, ?_⟩
  · intro hb
    cases be with
    | epoll => exact epGood_init.2
    | poll => exact absurd (hb : Backend.poll = Backend.epoll) (by decide)
  · rw [init_out]; simp

/-! ### alive ⇒ no failed assertion in the trace -/

def AliveClean (s : State) : Prop := s.dead = false → ∀ e ∈ s.out, e.isFatal = false

theorem aliveClean_run (be : Backend) (ins : List In) : AliveClean (run (init be) ins) := by
  refine ReachF.preserves (P := AliveClean) ?_ ?_ ?_ (reach_run ins _) (fun _ => by rw [init_out]; simp)
  · intro s c k h hd
    rcases applyOp_cases s c k with ⟨_, h1⟩ | ⟨hd0, _, h1⟩ | ⟨hd0, _, h1⟩
    · rw [h1] at hd ⊢; exact h hd
    · rw [h1]
      intro e he
      simp only [emit] at he
      rcases List.mem_append.1 he with h2 | h2
      · exact h hd0 e h2
      · simp at h2; subst h2; rfl
    · obtain ⟨l, _, halive, _⟩ := h1.out
      obtain ⟨h3, h4⟩ := halive hd
      rw [h4]
      intro e he
      rcases List.mem_append.1 he with h2 | h2
      · rcases List.mem_append.1 h2 with h2 | h2
        · exact h hd0 e h2
        · exact h3 e h2
      · simp at h2; subst h2; rfl
  · intro s t f h hd
    obtain ⟨l, hl, hp, ha⟩ := f.out
    rw [hl]
    intro e he
    rcases List.mem_append.1 he with h2 | h2
    · exact h (f.dead hd) e h2
    · have h5 := ha hd e h2
      have h6 := hp e h2
      cases e <;> simp_all [Ev.isFatal, Ev.isPlumb, Ev.isAbort]
  · intro s t q h hd
    obtain ⟨c, k, hd0, _, _, rfl⟩ := q
    intro e he
    simp only [emit] at he
    rcases List.mem_append.1 he with h2 | h2
    · exact h hd0 e h2
    · simp at h2; subst h2; rfl

end MuduoVerif.Poller
