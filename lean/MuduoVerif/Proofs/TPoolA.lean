import MuduoVerif.Proofs.TPoolStep
/-! Invariants of the ThreadPool model, part A: the monitor discipline (wait-sets, signals, bound, stop). -/
namespace MuduoVerif.Monitor

/-- which condition the current position of `t` may be parked on -/
def PRole (n : Nat) (pc : Nat → PPc) (prog : Nat → List POp) (t : Nat) : Cond → Prop
  | .notEmpty => pc t = .wTake
  | .notFull => pc t = .idle ∧ n ≠ 0 ∧ ∃ id rest, prog t = .run id :: rest

theorem prole_congr {n : Nat} {pc pc' : Nat → PPc} {prog prog' : Nat → List POp} {x : Nat} {c : Cond}
    (h1 : pc' x = pc x) (h2 : prog' x = prog x) (h : PRole n pc prog x c) : PRole n pc' prog' x c := by
  cases c
  · show pc' x = .wTake; rw [h1]; exact h
  · show pc' x = .idle ∧ n ≠ 0 ∧ ∃ id rest, prog' x = .run id :: rest
    rw [h1, h2]; exact h

/-- the owner is somewhere it needs the mutex -/
def OwnerPlace (s : PState) (u : Nat) : Prop :=
  s.pc u = .wTake ∨ s.pc u = .stopNotify ∨
    (s.pc u = .idle ∧ ((s.n ≠ 0 ∧ ∃ id rest, s.prog u = .run id :: rest) ∨ ∃ rest, s.prog u = .stop :: rest))

structure PA (s : PState) : Prop where
  st : s.toMon.Struct (PRole s.n s.pc s.prog)
  sigE : s.running = true → s.ne.W ≠ [] → s.q.length ≤ s.ne.S.length
  sigF : s.running = true → 0 < s.maxq → s.nf.W ≠ [] → s.maxq - s.q.length ≤ s.nf.S.length
  bnd : 0 < s.maxq → s.q.length ≤ s.maxq
  stopped : s.running = false → (s.ne.W = [] ∧ s.nf.W = []) ∨ ∃ u, s.owner = some u ∧ s.pc u = .stopNotify
  ownStop : ∀ u, s.pc u = .stopNotify → s.owner = some u
  flagOff : ∀ u, s.pc u = .stopNotify → s.running = false
  ownOk : ∀ u, s.owner = some u → OwnerPlace s u

/-- `t` is nowhere inside `wait()` and changes its position / program -/
theorem PA.rerole {s : PState} (h : PA s) {t : Nat} (hnp : ∀ c, ¬ PRole s.n s.pc s.prog t c)
    (pc' : Nat → PPc) (prog' : Nat → List POp) (h1 : ∀ x, x ≠ t → pc' x = s.pc x) (h2 : ∀ x, x ≠ t → prog' x = s.prog x) :
    s.toMon.Struct (PRole s.n pc' prog') := by
  refine h.st.mono ?_
  intro c x hx hr
  have hne : x ≠ t := by rintro rfl; exact hnp c hr
  exact prole_congr (h1 x hne) (h2 x hne) hr

theorem stopped_of_owner_not_stop {s : PState} (h : PA s) {t : Nat} (ho : s.owner = some t) (hpc : s.pc t ≠ .stopNotify)
    (hr : s.running = false) : s.ne.W = [] ∧ s.nf.W = [] := by
  rcases h.stopped hr with h1 | ⟨u, hu, hp⟩
  · exact h1
  · rw [ho] at hu; cases hu; exact absurd hp hpc

theorem ne_nil_of_mem {l : List Nat} {x : Nat} (h : x ∈ l) : l ≠ [] := by intro h0; rw [h0] at h; cases h

theorem Mon.notifs_all2 (m : Mon) :
    (m.notifs [⟨true, .notEmpty⟩, ⟨true, .notFull⟩]).owner = m.owner ∧
    (m.notifs [⟨true, .notEmpty⟩, ⟨true, .notFull⟩]).ne.W = [] ∧ (m.notifs [⟨true, .notEmpty⟩, ⟨true, .notFull⟩]).nf.W = [] := by
  refine ⟨Mon.notifs_owner _ _, ?_, ?_⟩
  · have h1 := Mon.notify_spec m ⟨true, .notEmpty⟩
    have h2 := Mon.notify_spec (m.notify ⟨true, .notEmpty⟩) ⟨true, .notFull⟩
    simp only [if_true] at h1 h2
    show (((m.notify ⟨true, .notEmpty⟩).notify ⟨true, .notFull⟩).ws .notEmpty).W = []
    rw [h2.2.1 .notEmpty (by decide), h1.2.2]; rfl
  · have h2 := Mon.notify_spec (m.notify ⟨true, .notEmpty⟩) ⟨true, .notFull⟩
    simp only [if_true] at h2
    show (((m.notify ⟨true, .notEmpty⟩).notify ⟨true, .notFull⟩).ws .notFull).W = []
    rw [h2.2.2]; rfl



/-- the owner `t` goes on past its wait on `c` (leaving `S`), unlocks and notifies; its position changes -/
theorem PA.leave {s : PState} (h : PA s) {t : Nat} {c : Cond} {S' : List Nat} (ho : s.owner = some t)
    (hS : Shrunk (s.ws c).S S' t) (hother : ∀ c', c' ≠ c → ¬ PRole s.n s.pc s.prog t c')
    (pc' : Nat → PPc) (prog' : Nat → List POp) (h1 : ∀ x, x ≠ t → pc' x = s.pc x) (h2 : ∀ x, x ≠ t → prog' x = s.prog x)
    (fs : List NotF) :
    ((s.toMon.setWs c ⟨(s.ws c).W, S'⟩).unlock.notifs fs).Struct (PRole s.n pc' prog') := by
  have hsh := Mon.shrink_facts (h.st.nodup c) hS
  refine Mon.Struct.notifs ?_ fs
  refine (h.st.go (c := c) hS).unlock (t := t) (by simpa using ho) ?_ (fun x c' hx hr => prole_congr (h1 x hx) (h2 x hx) hr)
  intro c'
  by_cases hc : c' = c
  · subst hc; rw [Mon.ws_setWs_same]; exact hsh.1
  · rw [Mon.ws_setWs_other _ _ _ _ hc]
    exact (h.st.not_parked (hother c' hc)).2

/-- the owner `t`, not inside any `wait()`, unlocks and notifies; its position changes -/
theorem PA.leave0 {s : PState} (h : PA s) {t : Nat} (ho : s.owner = some t)
    (hnp : ∀ c, ¬ PRole s.n s.pc s.prog t c)
    (pc' : Nat → PPc) (prog' : Nat → List POp) (h1 : ∀ x, x ≠ t → pc' x = s.pc x) (h2 : ∀ x, x ≠ t → prog' x = s.prog x)
    (fs : List NotF) :
    (s.toMon.unlock.notifs fs).Struct (PRole s.n pc' prog') := by
  refine Mon.Struct.notifs ?_ fs
  refine h.st.unlock (t := t) ho ?_ (fun x c' hx hr => prole_congr (h1 x hx) (h2 x hx) hr)
  intro c'
  exact (h.st.not_parked (hnp c')).2

theorem upd_ne_of {α : Type} {f : Nat → α} {t u : Nat} {v w : α} (h : upd f t v u = w) (hv : v ≠ w) : u ≠ t ∧ f u = w := by
  by_cases hut : u = t
  · subst hut; rw [upd_same] at h; exact absurd h hv
  · rw [upd_other _ _ _ _ hut] at h; exact ⟨hut, h⟩


/-- a thread that is neither inside `wait()` nor the owner changes its position, program, log -/
theorem pa_local {s : PState} (h : PA s) {t : Nat} (hnp : ∀ c, ¬ PRole s.n s.pc s.prog t c) (hno : s.owner ≠ some t)
    (p : PPc) (hp : p ≠ .stopNotify) (prog' : Nat → List POp) (h2 : ∀ x, x ≠ t → prog' x = s.prog x) (log' : List PEv)
    {gate' : Bool} :
    PA { s with gate := gate', pc := upd s.pc t p, prog := prog', log := log' } := by
  have hot : ∀ u, s.owner = some u → u ≠ t := by rintro u hu rfl; exact hno hu
  refine ⟨h.rerole hnp _ prog' (fun x hx => upd_other _ _ _ _ hx) h2, h.sigE, h.sigF, h.bnd, ?_, ?_, ?_, ?_⟩
  · intro hr
    rcases h.stopped hr with h1 | ⟨u, hu, hpu⟩
    · exact Or.inl h1
    · exact Or.inr ⟨u, hu, by show upd s.pc t _ u = _; rw [upd_other _ _ _ _ (hot u hu)]; exact hpu⟩
  · intro u hu
    exact h.ownStop u (upd_ne_of (show upd s.pc t p u = .stopNotify from hu) hp).2
  · intro u hu
    exact h.flagOff u (upd_ne_of (show upd s.pc t p u = .stopNotify from hu) hp).2
  · intro u hu
    have := h.ownOk u hu
    unfold OwnerPlace at this ⊢
    show upd s.pc t _ u = _ ∨ upd s.pc t _ u = _ ∨ (upd s.pc t _ u = _ ∧ ((s.n ≠ 0 ∧ ∃ id rest, prog' u = _) ∨ ∃ rest, prog' u = _))
    rw [upd_other _ _ _ _ (hot u hu), h2 u (hot u hu)]; exact this

theorem pa_step {s s' : PState} (h : PA s) (hs : PStep s s') : PA s' := by
  cases hs with
  | acq t ho hl hE hF =>
    refine ⟨h.st.acq t (by intro c; cases c; exact hE; exact hF), h.sigE, h.sigF, h.bnd, ?_, ?_, h.flagOff, ?_⟩
    · intro hr
      rcases h.stopped hr with h1 | ⟨u, hu, _⟩
      · exact Or.inl h1
      · rw [ho] at hu; cases hu
    · intro u hu
      have := h.ownStop u hu
      rw [ho] at this; cases this
    · intro u hu
      have : u = t := by simpa using hu.symm
      subst this
      simp only [PState.needsLock] at hl
      show OwnerPlace s u
      unfold OwnerPlace
      split at hl
      · rename_i hpc; exact Or.inl hpc
      · rename_i hpc
        right; right
        split at hl
        · rename_i id rest hp
          refine ⟨hpc, Or.inl ⟨?_, id, rest, hp⟩⟩
          simpa [PState.inline, PState.g_run_g1] using hl
        · rename_i rest hp; exact ⟨hpc, Or.inr ⟨rest, hp⟩⟩
        · cases hl
        · cases hl
      · cases hl
  | spur t c ht =>
    cases c with
    | notEmpty =>
      refine ⟨h.st.spur .notEmpty t ht, ?_, h.sigF, h.bnd, ?_, h.ownStop, h.flagOff, h.ownOk⟩
      · intro hr hW
        show s.q.length ≤ (s.ne.S ++ [t]).length
        have hW' : s.ne.W.erase t ≠ [] := hW
        have := h.sigE hr (by intro h0; rw [h0] at hW'; exact hW' rfl)
        simp only [List.length_append, List.length_singleton]; omega
      · intro hr
        rcases h.stopped hr with ⟨h1, h2⟩ | h3
        · exact Or.inl ⟨by show s.ne.W.erase t = []; rw [h1]; rfl, h2⟩
        · exact Or.inr h3
    | notFull =>
      refine ⟨h.st.spur .notFull t ht, h.sigE, ?_, h.bnd, ?_, h.ownStop, h.flagOff, h.ownOk⟩
      · intro hr hm hW
        show s.maxq - s.q.length ≤ (s.nf.S ++ [t]).length
        have hW' : s.nf.W.erase t ≠ [] := hW
        have := h.sigF hr hm (by intro h0; rw [h0] at hW'; exact hW' rfl)
        simp only [List.length_append, List.length_singleton]; omega
      · intro hr
        rcases h.stopped hr with ⟨h1, h2⟩ | h3
        · exact Or.inl ⟨h1, by show s.nf.W.erase t = []; rw [h2]; rfl⟩
        · exact Or.inr h3
  | test t hpc =>
    have hnp : ∀ c, ¬ PRole s.n s.pc s.prog t c := by
      intro c hc; cases c
      · have : s.pc t = .wTake := hc; rw [hpc] at this; cases this
      · have : s.pc t = .idle := hc.1; rw [hpc] at this; cases this
    have hot : ∀ u, s.owner = some u → u ≠ t := by
      rintro u hu rfl
      rcases h.ownOk u hu with h1 | h1 | ⟨h1, _⟩ <;> rw [hpc] at h1 <;> cases h1
    refine ⟨h.rerole hnp _ s.prog (fun x hx => upd_other _ _ _ _ hx) (fun _ _ => rfl), h.sigE, h.sigF, h.bnd, ?_, ?_, ?_, ?_⟩
    · intro hr
      rcases h.stopped hr with h1 | ⟨u, hu, hp⟩
      · exact Or.inl h1
      · exact Or.inr ⟨u, hu, by show upd s.pc t _ u = _; rw [upd_other _ _ _ _ (hot u hu)]; exact hp⟩
    · intro u hu
      have hu' : upd s.pc t _ u = .stopNotify := hu
      by_cases hut : u = t
      · subst hut; rw [upd_same] at hu'; split at hu' <;> cases hu'
      · rw [upd_other _ _ _ _ hut] at hu'; exact h.ownStop u hu'
    · intro u hu
      have hu' : upd s.pc t _ u = .stopNotify := hu
      by_cases hut : u = t
      · subst hut; rw [upd_same] at hu'; split at hu' <;> cases hu'
      · rw [upd_other _ _ _ _ hut] at hu'; exact h.flagOff u hu'
    · intro u hu
      have := h.ownOk u hu
      unfold OwnerPlace at this ⊢
      show upd s.pc t _ u = _ ∨ upd s.pc t _ u = _ ∨ (upd s.pc t _ u = _ ∧ _)
      rw [upd_other _ _ _ _ (hot u hu)]; exact this
  | takePark t S' hpc ho hS hq hr =>
    refine ⟨h.st.park (c := .notEmpty) ho hpc hS, ?_, h.sigF, h.bnd, ?_, ?_, h.flagOff, ?_⟩
    · intro _ _; show s.q.length ≤ _; rw [hq]; exact Nat.zero_le _
    · intro hr'; have : s.running = false := hr'; rw [hr] at this; cases this
    · intro u hu
      have := h.ownStop u hu
      rw [ho] at this; cases this; rw [hpc] at hu; cases hu
    · intro u hu; cases hu
  | takeNone t S' hpc ho hS hq hr =>
    have hnF : ∀ c', c' ≠ .notEmpty → ¬ PRole s.n s.pc s.prog t c' := by
      intro c' hc' hrole; cases c'
      · exact hc' rfl
      · have : s.pc t = .idle := hrole.1; rw [hpc] at this; cases this
    have hst := h.leave (c := .notEmpty) ho hS hnF (upd s.pc t .wTest) s.prog (fun x hx => upd_other _ _ _ _ hx) (fun _ _ => rfl) []
    have hW := stopped_of_owner_not_stop h ho (by rw [hpc]; intro hc; cases hc) hr
    refine ⟨hst, ?_, ?_, h.bnd, fun _ => Or.inl hW, ?_, ?_, ?_⟩
    · intro hr'; have : s.running = true := hr'; rw [hr] at this; cases this
    · intro hr'; have : s.running = true := hr'; rw [hr] at this; cases this
    · intro u hu
      obtain ⟨hut, hu'⟩ := upd_ne_of (show upd s.pc t .wTest u = .stopNotify from hu) (by intro hc; cases hc)
      have := h.ownStop u hu'; rw [ho] at this; cases this; exact absurd rfl hut
    · intro u hu
      exact h.flagOff u (upd_ne_of (show upd s.pc t .wTest u = .stopNotify from hu) (by intro hc; cases hc)).2
    · intro u hu; cases hu
  | takeSome t S' x q' hpc ho hS hq =>
    have hnF : ∀ c', c' ≠ .notEmpty → ¬ PRole s.n s.pc s.prog t c' := by
      intro c' hc' hrole; cases c'
      · exact hc' rfl
      · have : s.pc t = .idle := hrole.1; rw [hpc] at this; cases this
    have hsh := Mon.shrink_facts (h.st.nodup .notEmpty) hS
    have hlen : s.q.length = q'.length + 1 := by rw [hq]; rfl
    have hnostop : s.pc t ≠ .stopNotify := by rw [hpc]; intro hc; cases hc
    have hpcs : ∀ u, upd s.pc t (.wExec x) u = .stopNotify → False := by
      intro u hu
      obtain ⟨hut, hu'⟩ := upd_ne_of hu (by intro hc; cases hc)
      have := h.ownStop u hu'; rw [ho] at this; cases this; exact hut rfl
    by_cases hm : 0 < s.maxq
    · simp only [hm, if_true]
      have hst := h.leave (c := .notEmpty) ho hS hnF (upd s.pc t (.wExec x)) s.prog (fun x hx => upd_other _ _ _ _ hx) (fun _ _ => rfl)
        [⟨false, .notFull⟩]
      obtain ⟨ho3, hoth, hone⟩ := Mon.notifs_one (s.toMon.setWs .notEmpty ⟨s.ne.W, S'⟩).unlock .notFull
      have hne := hoth .notEmpty (by decide)
      have hst : ((s.toMon.setWs .notEmpty ⟨s.ne.W, S'⟩).unlock.notifs [⟨false, .notFull⟩]).Struct _ := hst
      generalize (s.toMon.setWs .notEmpty ⟨s.ne.W, S'⟩).unlock.notifs [⟨false, .notFull⟩] = m3 at hst ho3 hne hone ⊢
      have hne' : m3.ne = ⟨s.ne.W, S'⟩ := hne
      have hone' : OneSpec s.nf m3.nf := hone
      have ho3' : m3.owner = none := ho3
      have hS1 : s.ne.S.length ≤ S'.length + 1 := hsh.2.2.1
      refine ⟨hst, ?_, ?_, ?_, ?_, fun u hu => (hpcs u hu).elim, fun u hu => (hpcs u hu).elim, ?_⟩
      · intro hr hW
        show q'.length ≤ m3.ne.S.length
        have hW' : m3.ne.W ≠ [] := hW
        rw [hne'] at hW' ⊢
        have := h.sigE hr hW'
        show q'.length ≤ S'.length
        omega
      · intro hr _ hW
        show s.maxq - q'.length ≤ m3.nf.S.length
        have hW' : m3.nf.W ≠ [] := hW
        have hW0 : s.nf.W ≠ [] := by
          intro h0; apply hW'; rw [hone'.nil h0]; exact h0
        have := h.sigF hr hm hW0
        have := hone'.S_len hW0
        have := h.bnd hm
        omega
      · intro _; show q'.length ≤ s.maxq; have := h.bnd hm; omega
      · intro hr
        have hW := stopped_of_owner_not_stop h ho hnostop hr
        left
        constructor
        · show m3.ne.W = []; rw [hne']; exact hW.1
        · show m3.nf.W = []
          rw [hone'.nil hW.2]; exact hW.2
      · intro u hu
        have : m3.owner = some u := hu
        rw [ho3'] at this; cases this
    · simp only [hm, if_false]
      have hst := h.leave (c := .notEmpty) ho hS hnF (upd s.pc t (.wExec x)) s.prog (fun x hx => upd_other _ _ _ _ hx) (fun _ _ => rfl) []
      refine ⟨hst, ?_, fun _ hm' => absurd hm' hm, fun hm' => absurd hm' hm, ?_, fun u hu => (hpcs u hu).elim,
        fun u hu => (hpcs u hu).elim, fun u hu => by cases hu⟩
      · intro hr hW
        have := h.sigE hr hW
        have hS1 : s.ne.S.length ≤ S'.length + 1 := hsh.2.2.1
        show q'.length ≤ S'.length
        omega
      · intro hr
        have hW := stopped_of_owner_not_stop h ho hnostop hr
        exact Or.inl hW
  | exec t x p g hpc hp =>
    refine pa_local h ?_ ?_ p (by rcases hp with rfl | ⟨rfl, _⟩ <;> (intro hc; cases hc)) s.prog (fun _ _ => rfl) _
    · intro c hc; cases c
      · have : s.pc t = .wTake := hc; rw [hpc] at this; cases this
      · have : s.pc t = .idle := hc.1; rw [hpc] at this; cases this
    · intro ho
      rcases h.ownOk t ho with h1 | h1 | ⟨h1, _⟩ <;> rw [hpc] at h1 <;> cases h1
  | pass t x hpc hg =>
    refine pa_local h ?_ ?_ .wTest (by intro hc; cases hc) s.prog (fun _ _ => rfl) _
    · intro c hc; cases c
      · have : s.pc t = .wTake := hc; rw [hpc] at this; cases this
      · have : s.pc t = .idle := hc.1; rw [hpc] at this; cases this
    · intro ho
      rcases h.ownOk t ho with h1 | h1 | ⟨h1, _⟩ <;> rw [hpc] at h1 <;> cases h1
  | openGate t rest hpc hp =>
    refine pa_local h ?_ ?_ .idle (by intro hc; cases hc) _ (fun x hx => upd_other _ _ _ _ hx) _
    · intro c hc; cases c
      · have : s.pc t = .wTake := hc; rw [hpc] at this; cases this
      · obtain ⟨_, _, id, r, hr⟩ := hc; rw [hp] at hr; cases hr
    · intro ho
      rcases h.ownOk t ho with h1 | h1 | ⟨_, ⟨_, id, r, h1⟩ | ⟨r, h1⟩⟩
      · rw [hpc] at h1; cases h1
      · rw [hpc] at h1; cases h1
      · rw [hp] at h1; cases h1
      · rw [hp] at h1; cases h1
  | runInline t id rest hpc hp hn =>
    refine pa_local h ?_ ?_ .idle (by intro hc; cases hc) _ (fun x hx => upd_other _ _ _ _ hx) _
    · intro c hc; cases c
      · have : s.pc t = .wTake := hc; rw [hpc] at this; cases this
      · exact hc.2.1 hn
    · intro ho
      rcases h.ownOk t ho with h1 | h1 | ⟨_, ⟨h1, _⟩ | ⟨r, h1⟩⟩
      · rw [hpc] at h1; cases h1
      · rw [hpc] at h1; cases h1
      · exact h1 hn
      · rw [hp] at h1; cases h1
  | joinNext t i hpc hd hi =>
    refine pa_local h ?_ ?_ (.stopJoin (i + 1)) (by intro hc; cases hc) s.prog (fun _ _ => rfl) _
    · intro c hc; cases c
      · have : s.pc t = .wTake := hc; rw [hpc] at this; cases this
      · have : s.pc t = .idle := hc.1; rw [hpc] at this; cases this
    · intro ho
      rcases h.ownOk t ho with h1 | h1 | ⟨h1, _⟩ <;> rw [hpc] at h1 <;> cases h1
  | joinLast t i hpc hd hi =>
    refine pa_local h ?_ ?_ .idle (by intro hc; cases hc) _ (fun x hx => upd_other _ _ _ _ hx) _
    · intro c hc; cases c
      · have : s.pc t = .wTake := hc; rw [hpc] at this; cases this
      · have : s.pc t = .idle := hc.1; rw [hpc] at this; cases this
    · intro ho
      rcases h.ownOk t ho with h1 | h1 | ⟨h1, _⟩ <;> rw [hpc] at h1 <;> cases h1
  | runPark t id rest S' hpc hp hn ho hS hfull hr =>
    refine ⟨h.st.park (c := .notFull) ho ⟨hpc, hn, id, rest, hp⟩ hS, h.sigE, ?_, h.bnd, ?_, ?_, h.flagOff, ?_⟩
    · intro _ _ _; show s.maxq - s.q.length ≤ _; omega
    · intro hr'; have : s.running = false := hr'; rw [hr] at this; cases this
    · intro u hu
      have := h.ownStop u hu
      rw [ho] at this; cases this; rw [hpc] at hu; cases hu
    · intro u hu; cases hu
  | runStopped t id rest S' hpc hp hn ho hS hr =>
    have hnE : ∀ c', c' ≠ .notFull → ¬ PRole s.n s.pc s.prog t c' := by
      intro c' hc' hrole; cases c'
      · have : s.pc t = .wTake := hrole; rw [hpc] at this; cases this
      · exact hc' rfl
    have hst := h.leave (c := .notFull) ho hS hnE (upd s.pc t .idle) (upd s.prog t rest) (fun x hx => upd_other _ _ _ _ hx)
      (fun x hx => upd_other _ _ _ _ hx) []
    have hW := stopped_of_owner_not_stop h ho (by rw [hpc]; intro hc; cases hc) hr
    refine ⟨hst, ?_, ?_, h.bnd, fun _ => Or.inl hW, ?_, ?_, ?_⟩
    · intro hr'; have : s.running = true := hr'; rw [hr] at this; cases this
    · intro hr'; have : s.running = true := hr'; rw [hr] at this; cases this
    · intro u hu
      obtain ⟨hut, hu'⟩ := upd_ne_of (show upd s.pc t .idle u = .stopNotify from hu) (by intro hc; cases hc)
      have := h.ownStop u hu'; rw [ho] at this; cases this; exact absurd rfl hut
    · intro u hu
      exact h.flagOff u (upd_ne_of (show upd s.pc t .idle u = .stopNotify from hu) (by intro hc; cases hc)).2
    · intro u hu; cases hu
  | runPush t id rest S' hpc hp hn ho hS hroom hr =>
    have hnE : ∀ c', c' ≠ .notFull → ¬ PRole s.n s.pc s.prog t c' := by
      intro c' hc' hrole; cases c'
      · have : s.pc t = .wTake := hrole; rw [hpc] at this; cases this
      · exact hc' rfl
    have hsh := Mon.shrink_facts (h.st.nodup .notFull) hS
    have hpcs : ∀ u, upd s.pc t .idle u = .stopNotify → False := by
      intro u hu
      obtain ⟨hut, hu'⟩ := upd_ne_of hu (by intro hc; cases hc)
      have := h.ownStop u hu'; rw [ho] at this; cases this; exact hut rfl
    have hst := h.leave (c := .notFull) ho hS hnE (upd s.pc t .idle) (upd s.prog t rest) (fun x hx => upd_other _ _ _ _ hx)
      (fun x hx => upd_other _ _ _ _ hx) [⟨false, .notEmpty⟩]
    obtain ⟨ho3, hoth, hone⟩ := Mon.notifs_one (s.toMon.setWs .notFull ⟨s.nf.W, S'⟩).unlock .notEmpty
    have hnf := hoth .notFull (by decide)
    have hst : ((s.toMon.setWs .notFull ⟨s.nf.W, S'⟩).unlock.notifs [⟨false, .notEmpty⟩]).Struct _ := hst
    generalize (s.toMon.setWs .notFull ⟨s.nf.W, S'⟩).unlock.notifs [⟨false, .notEmpty⟩] = m3 at hst ho3 hnf hone ⊢
    have hnf' : m3.nf = ⟨s.nf.W, S'⟩ := hnf
    have hone' : OneSpec s.ne m3.ne := hone
    have ho3' : m3.owner = none := ho3
    have hS1 : s.nf.S.length ≤ S'.length + 1 := hsh.2.2.1
    refine ⟨hst, ?_, ?_, ?_, ?_, fun u hu => (hpcs u hu).elim, fun u hu => (hpcs u hu).elim, ?_⟩
    · intro hr' hW
      show (s.q ++ [(s.nacc, id)]).length ≤ m3.ne.S.length
      have hW' : m3.ne.W ≠ [] := hW
      have hW0 : s.ne.W ≠ [] := by
        intro h0; apply hW'; rw [hone'.nil h0]; exact h0
      have := h.sigE hr hW0
      have := hone'.S_len hW0
      simp only [List.length_append, List.length_singleton]
      omega
    · intro _ hm hW
      show s.maxq - (s.q ++ [(s.nacc, id)]).length ≤ m3.nf.S.length
      have hW' : m3.nf.W ≠ [] := hW
      have hm' : 0 < s.maxq := hm
      rw [hnf'] at hW' ⊢
      have h3 : s.maxq - s.q.length ≤ s.nf.S.length := h.sigF hr hm' hW'
      simp only [List.length_append, List.length_singleton]
      show s.maxq - (s.q.length + 1) ≤ S'.length
      omega
    · intro hm
      have hm' : 0 < s.maxq := hm
      show (s.q ++ [(s.nacc, id)]).length ≤ s.maxq
      simp only [List.length_append, List.length_singleton]
      have := h.bnd hm'
      omega
    · intro hr'; have : s.running = false := hr'; rw [hr] at this; cases this
    · intro u hu
      have : m3.owner = some u := hu
      rw [ho3'] at this; cases this
  | stopFlag t rest hpc hp ho =>
    have hnp : ∀ c, ¬ PRole s.n s.pc s.prog t c := by
      intro c hc; cases c
      · have : s.pc t = .wTake := hc; rw [hpc] at this; cases this
      · obtain ⟨_, _, id, r, hr⟩ := hc; rw [hp] at hr; cases hr
    refine ⟨h.rerole hnp _ s.prog (fun x hx => upd_other _ _ _ _ hx) (fun _ _ => rfl), ?_, ?_, h.bnd, ?_, ?_, ?_, ?_⟩
    · intro hr; cases hr
    · intro hr; cases hr
    · intro _; exact Or.inr ⟨t, ho, upd_same _ _ _⟩
    · intro u hu
      by_cases hut : u = t
      · subst hut; exact ho
      · have hu' : upd s.pc t .stopNotify u = .stopNotify := hu
        rw [upd_other _ _ _ _ hut] at hu'
        have := h.ownStop u hu'; rw [ho] at this; cases this; exact absurd rfl hut
    · intro _ _; rfl
    · intro u hu
      have : u = t := by have : s.owner = some u := hu; rw [ho] at this; cases this; rfl
      subst this
      exact Or.inr (Or.inl (upd_same _ _ _))
  | stopNotify t hpc ho hn =>
    have hnp : ∀ c, ¬ PRole s.n s.pc s.prog t c := by
      intro c hc; cases c
      · have : s.pc t = .wTake := hc; rw [hpc] at this; cases this
      · have : s.pc t = .idle := hc.1; rw [hpc] at this; cases this
    have hst := h.leave0 ho hnp (upd s.pc t (.stopJoin 0)) s.prog (fun x hx => upd_other _ _ _ _ hx) (fun _ _ => rfl)
      [⟨true, .notEmpty⟩, ⟨true, .notFull⟩]
    obtain ⟨ho3, hE, hF⟩ := Mon.notifs_all2 s.toMon.unlock
    have hroff := h.flagOff t hpc
    have hpcs : ∀ u, upd s.pc t (.stopJoin 0) u = .stopNotify → False := by
      intro u hu
      obtain ⟨hut, hu'⟩ := upd_ne_of hu (by intro hc; cases hc)
      have := h.ownStop u hu'; rw [ho] at this; cases this; exact hut rfl
    refine ⟨hst, ?_, ?_, h.bnd, fun _ => Or.inl ⟨hE, hF⟩, fun u hu => (hpcs u hu).elim, fun u hu => (hpcs u hu).elim, ?_⟩
    · intro hr'; have : s.running = true := hr'; rw [hroff] at this; cases this
    · intro hr'; have : s.running = true := hr'; rw [hroff] at this; cases this
    · intro u hu
      have : (s.toMon.unlock.notifs _).owner = some u := hu
      rw [ho3] at this; cases this
  | stopNotify0 t hpc ho hn =>
    have hnp : ∀ c, ¬ PRole s.n s.pc s.prog t c := by
      intro c hc; cases c
      · have : s.pc t = .wTake := hc; rw [hpc] at this; cases this
      · have : s.pc t = .idle := hc.1; rw [hpc] at this; cases this
    have hst := h.leave0 ho hnp (upd s.pc t .idle) (upd s.prog t (s.prog t).tail) (fun x hx => upd_other _ _ _ _ hx)
      (fun x hx => upd_other _ _ _ _ hx) [⟨true, .notEmpty⟩, ⟨true, .notFull⟩]
    obtain ⟨ho3, hE, hF⟩ := Mon.notifs_all2 s.toMon.unlock
    have hroff := h.flagOff t hpc
    have hpcs : ∀ u, upd s.pc t .idle u = .stopNotify → False := by
      intro u hu
      obtain ⟨hut, hu'⟩ := upd_ne_of hu (by intro hc; cases hc)
      have := h.ownStop u hu'; rw [ho] at this; cases this; exact hut rfl
    refine ⟨hst, ?_, ?_, h.bnd, fun _ => Or.inl ⟨hE, hF⟩, fun u hu => (hpcs u hu).elim, fun u hu => (hpcs u hu).elim, ?_⟩
    · intro hr'; have : s.running = true := hr'; rw [hroff] at this; cases this
    · intro hr'; have : s.running = true := hr'; rw [hroff] at this; cases this
    · intro u hu
      have : (s.toMon.unlock.notifs _).owner = some u := hu
      rw [ho3] at this; cases this

end MuduoVerif.Monitor
