import MuduoVerif.Proofs.CalendarE
/-! One sixteenth of the 400-year cycle, checked by kernel evaluation (see CalendarCycle.lean). -/
namespace MuduoVerif.CalendarE

theorem cycleDays_8 : checkDays 73056 9132 = true := by decide +kernel

theorem cycleYears_8 : checkYears 200 25 = true := by decide +kernel

end MuduoVerif.CalendarE
