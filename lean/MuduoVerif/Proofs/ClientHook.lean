import MuduoVerif.Proofs.ClientClose
/-! The user's connection callback (`hook up|down <op>`): preservation of `Mid` by the operations it performs on
the client from inside the UP / DOWN report, hence by `Connector::handleWrite` (hand-over + UP) and by
`TcpConnection::handleClose` (DOWN + `TcpClient::removeConnection`). -/
namespace MuduoVerif.Client
open MuduoVerif.Gen.Client

def chanOff : ConnRec → ConnRec := fun r => { r with chanOn := false }
def toDisconnecting : ConnRec → ConnRec := fun r => { r with st := .disconnecting }
def detach : ConnRec → ConnRec := fun r => { r with closeCb := .detached }

macro "mid_auto3" : tactic =>
  `(tactic| (first | assumption | grind [attempting, held, nRetry_snoc_retry, nRetry_snoc_park, Task.plain, Task.holds, updRec, goDown, chanOff, toDisconnecting, detach] | skip))

/-- fields the invariant does not read -/
theorem Mid.env {c : C} {r : List Task} {ph : Bool} (hi : Mid c r ph) (e1 : List Nat) (e2 : List Nat) (e3 : List Bool)
    (e4 : List (Option Nat)) (b : Bool) (h : Nat) :
    Mid { c with envConnect := e1, envSoErr := e2, envSelf := e3, envRead := e4, starved := b, horizon := h } r ph :=
  ⟨hi.notDead, hi.a1, hi.a2, hi.a3, hi.a4, hi.a5, hi.a6, hi.a7, hi.a8, hi.a9, hi.a10, hi.a11, hi.a13, hi.a14, hi.a15, hi.a16,
   hi.s1, hi.c1, hi.c2, hi.c3, hi.c4, hi.c5, hi.c6, hi.c7, hi.c8, hi.c9, hi.c10, hi.g1, hi.g3, hi.h1, hi.t1⟩

theorem closeSock_conns (c : C) (k : Nat) : (closeSock c k).conns = c.conns := rfl
theorem retry_conns (c : C) (k : Nat) : (retry c k).conns = c.conns := by
  unfold retry closeSock; simp only; repeat' split
  all_goals rfl
theorem connecting_conns (c : C) (k : Nat) : (connecting c k).conns = c.conns := by
  unfold connecting die; repeat' split
  all_goals rfl
theorem popConnect_conns (c : C) : (popConnect c).2.conns = c.conns := by
  obtain ⟨e, b, h⟩ := popConnect_snd c; rw [h]
theorem connect_conns (c : C) : (connect c).conns = c.conns := by
  unfold connect
  simp only
  split
  · rw [connecting_conns, popConnect_conns]
  · rw [retry_conns, popConnect_conns]
  · rw [closeSock_conns, popConnect_conns]
theorem startInLoop_conns (c : C) : (startInLoop c).conns = c.conns := by
  unfold startInLoop die
  repeat' split
  all_goals first | rfl | exact connect_conns _

theorem phaseAt_congr' {ss : List SockSt} {cs cs' : List ConnRec} {j : Nat}
    (h2 : (findIn cs' j).map (fun r => (r.destroyed, decide (r.st = .disconnected))) =
          (findIn cs j).map (fun r => (r.destroyed, decide (r.st = .disconnected)))) :
    phaseAt ss cs' j = phaseAt ss cs j := by
  unfold phaseAt
  cases h : ss[j]? with
  | none => rfl
  | some v =>
    cases v with
    | opened => rfl
    | closed => rfl
    | handedOver =>
      simp only
      cases ha : findIn cs' j with
      | none =>
        cases hb : findIn cs j with
        | none => rfl
        | some b => rw [ha, hb] at h2; simp at h2
      | some a =>
        cases hb : findIn cs j with
        | none => rw [ha, hb] at h2; simp at h2
        | some b =>
          rw [ha, hb] at h2; simp at h2
          obtain ⟨h3, h4⟩ := h2
          simp only [h3]
          by_cases hd : b.st = .disconnected
          · simp [hd, h4.mpr hd]
          · simp [hd, mt h4.mp hd]

/-- an update of one connection record that changes neither `destroyed` nor whether it is down -/
theorem Tr.upd_same {tr n ss cs u nr sp al} (h : Tr tr n ss cs u nr sp al) (k : Nat) (f : ConnRec → ConnRec)
    (hs : ∀ r, (f r).sock = r.sock)
    (hf : ∀ r, findIn cs k = some r → (f r).destroyed = r.destroyed ∧ ((f r).st = .disconnected ↔ r.st = .disconnected)) :
    Tr tr n ss (cs.map (updRec k f)) u nr sp al := by
  apply h.same
  intro j
  apply phaseAt_congr'
  rw [findIn_upd k j f hs]
  cases hj : findIn cs j with
  | none => rfl
  | some y =>
    simp only [Option.map_some, updRec]
    split
    · rename_i hk
      have hjk : j = k := by rw [← (findIn_some hj).2]; simpa using hk
      subst hjk
      simp [(hf y hj).1, (hf y hj).2]
    · rfl

/-- `Connector::startCycleInLoop()`; `r0` is the queue before (with or without the functor itself) -/
theorem startCycleCore_mid (c : C) (r r0 : List Task) (ph : Bool) (hr0 : r0 = r ∨ r0 = Task.startCycle :: r) (hi : Mid c r0 ph)
    (hch : c.chan = none) (hcn : c.connection = none)
    (hna : ¬ attempting c.cstate c.timers) (hns : .startCycle ∉ r ++ c.pending)
    (hal : c.cConnect = true → c.clientAlive = true) : Mid (startCycleCore c) r ph := by
  have hon : c.chanOn = false := by
    cases h : c.chanOn
    · rfl
    · obtain ⟨k, hk, _⟩ := hi.a3 h; rw [hch] at hk; cases hk
  have hnt : nRetry c.timers = 0 := by
    cases h : nRetry c.timers
    · rfl
    · exact absurd (.inr (by omega)) hna
  have hnc : c.cstate ≠ .kConnecting := fun h => hna (.inl h)
  have htr := hi.tr.cycle
  have hd0 := gen_kInit
  have hst' : (if cycleClearsState c.cstate then States.kDisconnected else c.cstate) = .kDisconnected := by
    unfold cycleClearsState
    cases h : c.cstate <;> simp_all
  unfold startCycleCore
  rw [hst']
  simp only [cycleResetsDelay, if_true]
  apply startInLoop_mid
  · rcases hr0 with rfl | rfl
    all_goals obtain ⟨notDead, a1, a2, a3, a4, a5, a6, a7, a8, a9, a10, a11, a13, a14, a15, a16, s1, c1, c2, c3, c4, c5, c6, c7, c8, c9, c10, g1, g3, h1, t1⟩ := hi
    all_goals constructor
    all_goals mid_auto2
  · exact ⟨rfl, hch, hcn, hnt, hns, rfl, hal⟩

/-- T1: `Connector::startCycleInLoop` cancels the back-off timer of the previous cycle before `startInLoop()` (the F33
fix; generated, a different extraction breaks the proofs here) -/
theorem gen_cycleStartCancels : cycleStartCancelsRetryTimer = true := rfl

theorem cancelIf_frame (b : Bool) (c : C) (cn : Option Nat) (q : List Task) :
    cancelIf b { c with connection := cn, pending := q } = { cancelIf b c with connection := cn, pending := q } := by
  unfold cancelIf cancelRetry; split <;> rfl
theorem cancelIf_conns (b : Bool) (c : C) : (cancelIf b c).conns = c.conns := by
  unfold cancelIf cancelRetry; split <;> rfl
theorem cancelIf_pending (b : Bool) (c : C) : (cancelIf b c).pending = c.pending := by
  unfold cancelIf cancelRetry; split <;> rfl
theorem cancelIf_hooksUp (b : Bool) (c : C) : (cancelIf b c).hooksUp = c.hooksUp := by
  unfold cancelIf cancelRetry; split <;> rfl

/-- `Connector::startCycleInLoop()`: a back-off timer left pending by the previous cycle (`stop()` during the wait) does
not matter - it is cancelled first; only an attempt in progress is excluded -/
theorem startCycle_mid' (c : C) (r r0 : List Task) (ph : Bool) (hr0 : r0 = r ∨ r0 = Task.startCycle :: r) (hi : Mid c r0 ph)
    (hch : c.chan = none) (hcn : c.connection = none)
    (hnc : c.cstate ≠ .kConnecting) (hns : .startCycle ∉ r ++ c.pending)
    (hal : c.cConnect = true → c.clientAlive = true) : Mid (startCycle c) r ph := by
  unfold startCycle
  rw [gen_cycleStartCancels]
  unfold cancelIf
  rw [if_pos rfl]
  refine startCycleCore_mid (cancelRetry c) r r0 ph hr0 (cancelRetry_mid c r0 ph hi) hch hcn ?_ hns hal
  rintro (h | h)
  · exact hnc h
  · have := cancelRetry_none c; omega

theorem startCycle_mid (c : C) (r r0 : List Task) (ph : Bool) (hr0 : r0 = r ∨ r0 = Task.startCycle :: r) (hi : Mid c r0 ph)
    (hch : c.chan = none) (hcn : c.connection = none)
    (hna : ¬ attempting c.cstate c.timers) (hns : .startCycle ∉ r ++ c.pending)
    (hal : c.cConnect = true → c.clientAlive = true) : Mid (startCycle c) r ph :=
  startCycle_mid' c r r0 ph hr0 hi hch hcn (fun h => hna (.inl h)) hns hal

theorem holds_shutdown (k j : Nat) : Task.holds (.shutdownInLoop k) j = false := by
  simp [Task.holds, gen_shutdown_weak]


/-- `TcpClient::newConnection` publishes `connection_` before `connectEstablished()` (generated; a different
extraction breaks the proofs here) -/
theorem gen_publishBeforeEstablish : publishBeforeEstablish = true := rfl

/-- replacing the registered callback operations by some of them -/
theorem Mid.hooks {c : C} {r : List Task} {ph : Bool} (hi : Mid c r ph) (hu hd : List HookOp)
    (h1 : ∀ o ∈ hu, o ∈ c.hooksUp) (h2 : ∀ o ∈ hd, o ∈ c.hooksDown) :
    Mid { c with hooksUp := hu, hooksDown := hd } r ph :=
  ⟨hi.notDead, hi.a1, hi.a2, hi.a3, hi.a4, hi.a5, hi.a6, hi.a7, hi.a8, hi.a9, hi.a10, hi.a11, hi.a13, hi.a14, hi.a15, hi.a16,
   hi.s1, hi.c1, hi.c2, hi.c3, hi.c4, hi.c5, hi.c6, hi.c7, hi.c8, hi.c9, hi.c10, hi.g1, hi.g3,
   ⟨fun h => hi.h1.1 (h1 _ h), fun h => hi.h1.2 (h2 _ h)⟩, hi.t1⟩

/-! ### the operations, in any state the loop can be in -/

theorem userStop_midG (c : C) (r : List Task) (ph : Bool) (w : Who) (hi : Mid c r ph) (hal : c.clientAlive = true) :
    Mid (userStop c w) r ph := by
  have htr := hi.tr.gStop hal
  unfold userStop connectorStop
  simp only [stopDispatch]
  have : Mid (enqueue { c with tConnect := false, stopReq := true, trace := c.trace ++ [.ghost .stop], cConnect := false } .stopInLoop) r ph := by
    unfold enqueue
    obtain ⟨notDead, a1, a2, a3, a4, a5, a6, a7, a8, a9, a10, a11, a13, a14, a15, a16, s1, c1, c2, c3, c4, c5, c6, c7, c8, c9, c10, g1, g3, h1, t1⟩ := hi
    constructor
    all_goals mid_auto3
  cases w <;> exact this

theorem noTConnect_mid (c : C) (r : List Task) (ph : Bool) (hi : Mid c r ph) : Mid { c with tConnect := false } r ph := by
  obtain ⟨notDead, a1, a2, a3, a4, a5, a6, a7, a8, a9, a10, a11, a13, a14, a15, a16, s1, c1, c2, c3, c4, c5, c6, c7, c8, c9, c10, g1, g3, h1, t1⟩ := hi
  constructor
  all_goals mid_auto3

theorem userDisconnect_midG (c : C) (r : List Task) (ph : Bool) (hi : Mid c r ph) : Mid (userDisconnect c) r ph := by
  have h1 := noTConnect_mid c r ph hi
  unfold userDisconnect
  simp only
  split
  case h_2 => exact h1
  case h_1 k hcn =>
    have hcn : c.connection = some k := hcn
    obtain ⟨x, hx, hst, hcb⟩ := hi.c7 k hcn
    unfold connShutdown
    have hcs : connSt { c with tConnect := false } k = x.st := by simp [connSt, findConn_eq, hx]
    rw [hcs]
    split
    · rename_i hconn
      rw [updConn_eq]
      unfold enqueue
      have hmem := @mem_map_upd c.conns k toDisconnecting
      have hfind := fun j => @findIn_upd c.conns k j toDisconnecting (fun _ => rfl)
      have hsocks := @socks_upd c.conns k toDisconnecting (fun _ => rfl)
      have hfs := @findIn_some c.conns
      have hw := holds_shutdown k
      have hxu : ∀ y ∈ c.conns, y.sock = k → y = x := by
        intro y hy hk
        have := findIn_of_mem hi.c2 hy; rw [hk, hx] at this; exact (Option.some.inj this).symm
      have htr := hi.tr.upd_same k toDisconnecting (fun _ => rfl) (fun r hr => by
        rw [hx] at hr; cases hr; exact ⟨rfl, by simp [toDisconnecting, hst]⟩)
      show Mid { c with tConnect := false, conns := c.conns.map (updRec k toDisconnecting),
                        pending := c.pending ++ [.shutdownInLoop k] } r ph
      obtain ⟨notDead, a1, a2, a3, a4, a5, a6, a7, a8, a9, a10, a11, a13, a14, a15, a16, s1, c1, c2, c3, c4, c5, c6, c7, c8, c9, c10, g1, g3, h1', t1⟩ := hi
      constructor
      all_goals mid_auto3
    · exact h1

/-- `connection()` read inside a callback while `connection_` is the connection it reports -/
theorem query_mid (c : C) (r : List Task) (ph : Bool) (hi : Mid c r ph) (k : Nat) (hcn : c.connection = some k) :
    Mid (emit c (.query k c.connection)) r ph := by
  obtain ⟨x, hx, hst, hcb⟩ := hi.c7 k hcn
  obtain ⟨hxm, hxs⟩ := findIn_some hx
  have hd : x.destroyed = false := by
    cases h : x.destroyed
    · rfl
    · exact absurd (hi.c4 x hxm h).1 hst
  have hk : c.sockSt[k]? = some SockSt.handedOver := by rw [← hxs]; exact hi.c1 x hxm
  have htr := hi.tr.query hk hx hd
  unfold emit
  rw [hcn]
  obtain ⟨notDead, a1, a2, a3, a4, a5, a6, a7, a8, a9, a10, a11, a13, a14, a15, a16, s1, c1, c2, c3, c4, c5, c6, c7, c8, c9, c10, g1, g3, h1, t1⟩ := hi
  constructor
  all_goals mid_auto3

/-- an operation of the UP callback (never `connect()`: a connection is outstanding) -/
theorem hookOp_mid (c : C) (r : List Task) (ph : Bool) (hi : Mid c r ph) (hal : c.clientAlive = true) (k : Nat)
    (hcn : c.connection = some k) (op : HookOp) (hop : op ≠ .connect) : Mid (hookOp c k op) r ph := by
  cases op with
  | disconnect => exact userDisconnect_midG c r ph hi
  | stop => exact userStop_midG c r ph .loop hi hal
  | connect => exact absurd rfl hop
  | query => exact query_mid c r ph hi k hcn

theorem runHookUp_mid (c : C) (r : List Task) (ph : Bool) (hi : Mid c r ph) (k : Nat) (hcn : c.connection = some k) :
    Mid (runHookUp c k) r ph := by
  unfold runHookUp
  split
  · rename_i hal
    split
    · exact hi
    · rename_i op rest hh
      have hm : Mid { c with hooksUp := rest } r ph :=
        hi.hooks rest c.hooksDown (fun o ho => by rw [hh]; exact List.mem_cons_of_mem _ ho) (fun _ h => h)
      apply hookOp_mid _ r ph hm hal k hcn op
      intro he
      exact hi.h1.1 (by rw [hh, he]; exact List.mem_cons_self)
  · exact hi

theorem handleWrite_mid (c : C) (r : List Task) (hi : Mid c r false) (hon : c.chanOn = true) :
    Mid (handleWrite c) r false := by
  have hst := hi.a1 hon
  obtain ⟨k, hk, hop⟩ := hi.a3 hon
  unfold handleWrite
  rw [if_pos (by simp [writeActs, hst])]
  split
  · rename_i k' hk'
    simp only
    rw [popSoErr_eq]
    split
    · exact failAttempt_mid c r hi hon k' hk' _ c.envSelf _
    · rw [popSelf_eq]
      split
      · exact failAttempt_mid c r hi hon k' hk' _ _ _
      · split
        · rename_i hcc
          have hal := attempt_alive c r hi hon (by simpa [writeHandsOver] using hcc)
          unfold newConnection
          rw [if_pos hal, if_pos gen_publishBeforeEstablish]
          refine runHookUp_mid _ r false ?_ k' rfl
          exact handOver_mid c r hi hon k' hk' (by simpa [writeHandsOver] using hcc) _ _ _
        · rename_i hcc
          exact closeEstablished_mid c r hi hon k' hk' (by simpa [writeHandsOver] using hcc) _ _ _
  · rename_i hk'; rw [hk] at hk'; cases hk'

theorem dispatchConnector_mid (c : C) (r : List Task) (rev : Nat) (hi : Mid c r false) :
    Mid (dispatchConnector c rev) r false := by
  unfold dispatchConnector
  split
  · rename_i h
    have hon : c.chanOn = true := h.2
    split
    · have h1 := handleError_mid c r hi hon
      rw [if_neg (by simp [h1.notDead])]
      split
      · rename_i h2
        exact handleWrite_mid _ r h1 (by simpa [MuduoVerif.Gen.Conn.dispWriteSub] using h2.2)
      · exact h1
    · rw [if_neg (by simp [hi.notDead])]
      split
      · exact handleWrite_mid c r hi hon
      · exact hi
  · exact hi


/-! ### `startCycleInLoop` neither reads nor writes `connection_` and the functor queue -/

theorem retry_frame (c : C) (k : Nat) (cn : Option Nat) (q : List Task) :
    retry { c with connection := cn, pending := q } k = { retry c k with connection := cn, pending := q } := by
  unfold retry closeSock
  simp only
  repeat' split
  all_goals first | rfl | contradiction

theorem connecting_frame (c : C) (k : Nat) (cn : Option Nat) (q : List Task) :
    connecting { c with connection := cn, pending := q } k = { connecting c k with connection := cn, pending := q } := by
  unfold connecting die
  simp only
  repeat' split
  all_goals first | rfl | contradiction

theorem popConnect_frame (c : C) (cn : Option Nat) (q : List Task) :
    popConnect { c with connection := cn, pending := q } =
      ((popConnect c).1, { (popConnect c).2 with connection := cn, pending := q }) := by
  unfold popConnect
  cases h : c.envConnect <;> simp only

theorem connect_frame (c : C) (cn : Option Nat) (q : List Task) :
    connect { c with connection := cn, pending := q } = { connect c with connection := cn, pending := q } := by
  have h1 := popConnect_frame ({ c with nsock := c.nsock + 1, sockSt := c.sockSt ++ [SockSt.opened], trace := c.trace ++ [Ev.sockCreated c.nsock, Ev.attempt c.nsock c.now] } : C) cn q
  unfold connect
  simp only at h1 ⊢
  rw [h1]
  simp only
  split
  · exact connecting_frame (popConnect _).2 _ _ _
  · exact retry_frame (popConnect _).2 _ _ _
  · rfl

theorem startInLoop_frame (c : C) (cn : Option Nat) (q : List Task) :
    startInLoop { c with connection := cn, pending := q } = { startInLoop c with connection := cn, pending := q } := by
  unfold startInLoop die
  simp only
  split
  · rfl
  · split
    · exact connect_frame _ _ _
    · rfl

theorem startCycleCore_frame (c : C) (cn : Option Nat) (q : List Task) :
    startCycleCore { c with connection := cn, pending := q } = { startCycleCore c with connection := cn, pending := q } := by
  unfold startCycleCore
  exact startInLoop_frame ({ c with cstate := if cycleClearsState c.cstate then .kDisconnected else c.cstate,
                                    delay := if cycleResetsDelay then kInitRetryDelayMs else c.delay,
                                    nretry := 0, ups := 0, trace := c.trace ++ [.ghost .cycle] } : C) cn q

theorem startCycle_frame (c : C) (cn : Option Nat) (q : List Task) :
    startCycle { c with connection := cn, pending := q } = { startCycle c with connection := cn, pending := q } := by
  unfold startCycle
  rw [cancelIf_frame]
  exact startCycleCore_frame _ cn q

theorem startCycle_conns (c : C) : (startCycle c).conns = c.conns := by
  unfold startCycle startCycleCore; rw [startInLoop_conns]; exact cancelIf_conns _ c

theorem retry_pending (c : C) (k : Nat) : (retry c k).pending = c.pending := by
  unfold retry closeSock; simp only; repeat' split
  all_goals rfl
theorem connecting_pending (c : C) (k : Nat) : (connecting c k).pending = c.pending := by
  unfold connecting die; repeat' split
  all_goals rfl
theorem popConnect_pending (c : C) : (popConnect c).2.pending = c.pending := by
  obtain ⟨e, b, h⟩ := popConnect_snd c; rw [h]
theorem connect_pending (c : C) : (connect c).pending = c.pending := by
  unfold connect
  simp only
  split
  · rw [connecting_pending, popConnect_pending]
  · rw [retry_pending, popConnect_pending]
  · show (popConnect _).2.pending = _; rw [popConnect_pending]
theorem startInLoop_pending (c : C) : (startInLoop c).pending = c.pending := by
  unfold startInLoop die
  repeat' split
  all_goals first | rfl | exact connect_pending _
theorem startCycle_pending (c : C) : (startCycle c).pending = c.pending := by
  unfold startCycle startCycleCore; rw [startInLoop_pending]; exact cancelIf_pending _ c


/-! ### DOWN: `TcpConnection::handleClose` with the user's callback before `TcpClient::removeConnection` -/

/-- DOWN of the client's connection, first half: the record goes down, `connection_` is cleared -/
theorem closeHalf_mid (c : C) (r : List Task) (ph : Bool) (hi : Mid c r ph) (k : Nat) (x : ConnRec)
    (hx : findIn c.conns k = some x) (hst : x.st ≠ .disconnected) (hcb : x.closeCb = .client) :
    Mid { c with conns := c.conns.map (updRec k goDown), trace := c.trace ++ [.down k], connection := none } r ph := by
  obtain ⟨hxm, hxs⟩ := findIn_some hx
  have hdes : x.destroyed = false := by
    cases h : x.destroyed
    · rfl
    · exact absurd (hi.c4 x hxm h).1 hst
  have hk : c.sockSt[k]? = some SockSt.handedOver := by rw [← hxs]; exact hi.c1 x hxm
  have hmem := @mem_map_upd c.conns k goDown
  have hfind := fun j => @findIn_upd c.conns k j goDown (fun _ => rfl)
  have hsocks := @socks_upd c.conns k goDown (fun _ => rfl)
  have hfs := @findIn_some c.conns
  obtain ⟨hal, hcn⟩ := hi.c6 x hxm hst hcb
  rw [hxs] at hcn
  have hfk : findIn (c.conns.map (updRec k goDown)) k = some (goDown x) := by
    rw [hfind, hx]; simp [updRec, hxs]
  have htr := hi.tr.down (cs' := c.conns.map (updRec k goDown)) hk hx hdes hst hfk hdes rfl (by
    intro j hj; rw [hfind]
    cases h : findIn c.conns j with
    | none => rfl
    | some y => have := (findIn_some h).2; simp [updRec, this, hj])
  obtain ⟨notDead, a1, a2, a3, a4, a5, a6, a7, a8, a9, a10, a11, a13, a14, a15, a16, s1, c1, c2, c3, c4, c5, c6, c7, c8, c9, c10, g1, g3, h1, t1⟩ := hi
  constructor
  all_goals mid_auto2

/-- `queueInLoop(connectDestroyed)` of a connection that is down -/
theorem enqueueCd_mid (c : C) (r : List Task) (ph : Bool) (hi : Mid c r ph) (k : Nat) (y : ConnRec)
    (hy : findIn c.conns k = some y) (hst : y.st = .disconnected) :
    Mid { c with pending := c.pending ++ [.connectDestroyed k] } r ph := by
  obtain ⟨notDead, a1, a2, a3, a4, a5, a6, a7, a8, a9, a10, a11, a13, a14, a15, a16, s1, c1, c2, c3, c4, c5, c6, c7, c8, c9, c10, g1, g3, h1, t1⟩ := hi
  constructor
  all_goals mid_auto2

/-- `connection()` read inside the DOWN callback: `connection_` is still the connection going down -/
theorem queryDown_mid (c : C) (r : List Task) (ph : Bool) (hi : Mid c r ph) (k : Nat) (y : ConnRec)
    (hy : findIn c.conns k = some y) (hd : y.destroyed = false) :
    Mid { c with trace := c.trace ++ [.query k (some k)] } r ph := by
  obtain ⟨hym, hys⟩ := findIn_some hy
  have hk : c.sockSt[k]? = some SockSt.handedOver := by rw [← hys]; exact hi.c1 y hym
  have htr := hi.tr.query hk hy hd
  obtain ⟨notDead, a1, a2, a3, a4, a5, a6, a7, a8, a9, a10, a11, a13, a14, a15, a16, s1, c1, c2, c3, c4, c5, c6, c7, c8, c9, c10, g1, g3, h1, t1⟩ := hi
  constructor
  all_goals mid_auto2


/-- what `Connector::startCycleInLoop` and everything below it leave alone (besides `connection_` and the queue) -/
def Keeps (c c' : C) : Prop :=
  c'.clientAlive = c.clientAlive ∧ c'.retry = c.retry ∧ c'.tConnect = c.tConnect ∧ c'.hooksUp = c.hooksUp ∧
  c'.hooksDown = c.hooksDown
theorem Keeps.trans {a b c : C} (h1 : Keeps a b) (h2 : Keeps b c) : Keeps a c :=
  ⟨h2.1.trans h1.1, h2.2.1.trans h1.2.1, h2.2.2.1.trans h1.2.2.1, h2.2.2.2.1.trans h1.2.2.2.1, h2.2.2.2.2.trans h1.2.2.2.2⟩
theorem retry_keeps (c : C) (k : Nat) : Keeps c (retry c k) := by
  unfold retry closeSock; simp only; repeat' split
  all_goals exact ⟨rfl, rfl, rfl, rfl, rfl⟩
theorem connecting_keeps (c : C) (k : Nat) : Keeps c (connecting c k) := by
  unfold connecting die; repeat' split
  all_goals exact ⟨rfl, rfl, rfl, rfl, rfl⟩
theorem popConnect_keeps (c : C) : Keeps c (popConnect c).2 := by
  obtain ⟨e, b, h⟩ := popConnect_snd c; rw [h]; exact ⟨rfl, rfl, rfl, rfl, rfl⟩
theorem connect_keeps (c : C) : Keeps c (connect c) := by
  unfold connect
  simp only
  have h0 : Keeps c ({ c with nsock := c.nsock + 1, sockSt := c.sockSt ++ [SockSt.opened], trace := c.trace ++ [Ev.sockCreated c.nsock, Ev.attempt c.nsock c.now] } : C) :=
    ⟨rfl, rfl, rfl, rfl, rfl⟩
  split
  · exact (h0.trans (popConnect_keeps _)).trans (connecting_keeps _ _)
  · exact (h0.trans (popConnect_keeps _)).trans (retry_keeps _ _)
  · exact (h0.trans (popConnect_keeps _)).trans ⟨rfl, rfl, rfl, rfl, rfl⟩
theorem startInLoop_keeps (c : C) : Keeps c (startInLoop c) := by
  unfold startInLoop die
  repeat' split
  all_goals first | exact ⟨rfl, rfl, rfl, rfl, rfl⟩ | exact connect_keeps _
theorem cancelIf_keeps (b : Bool) (c : C) : Keeps c (cancelIf b c) := by
  unfold cancelIf cancelRetry; split <;> exact ⟨rfl, rfl, rfl, rfl, rfl⟩
theorem startCycle_keeps (c : C) : Keeps c (startCycle c) := by
  unfold startCycle startCycleCore
  exact Keeps.trans (cancelIf_keeps _ c) (Keeps.trans ⟨rfl, rfl, rfl, rfl, rfl⟩ (startInLoop_keeps _))
theorem startCycle_connection (c : C) : (startCycle c).connection = c.connection := by
  have h := startCycle_frame c c.connection c.pending
  have e : ({ c with connection := c.connection, pending := c.pending } : C) = c := rfl
  rw [e] at h
  exact (congrArg C.connection h).trans rfl

/-- the state in which the user's callback is told DOWN: `handleClose` has set the state and removed the channel -/
def downState (c : C) (k : Nat) : C :=
  { c with conns := c.conns.map (updRec k goDown), trace := c.trace ++ [.down k] }

/-- the state in which the user's DOWN callback for connection `k` returns -/
def downCb (c : C) (k : Nat) : C := runHookDown (downState c k) k

/-- `TcpClient::removeConnection`'s first half: `connection_.reset()`, `queueInLoop(connectDestroyed)` -/
def afterDown (c2 : C) (k : Nat) : C :=
  { c2 with connection := none, pending := c2.pending ++ [.connectDestroyed k] }

/-- `TcpClient::removeConnection(conn)`, called through `closeCallback_` after the DOWN callback returned -/
def removeConn (c2 : C) (k : Nat) : C :=
  if ¬ c2.clientAlive then die c2 (.uaf "TcpClient::removeConnection")
  else if c2.asserts ∧ c2.connection ≠ some k then die c2 (.abort "connection_ == conn")
  else
    let c3 : C := { c2 with connection := none, pending := c2.pending ++ [.connectDestroyed k] }
    if reconnects c3.retry c3.tConnect then restart c3 else c3

theorem handleClose_eq (c : C) (k : Nat) :
    handleClose c k =
      (let c2 := runHookDown (downState c k) k
       if c2.dead then c2
       else match ((findConn c k).map (·.closeCb)).getD .detached with
         | .detached => enqueue c2 (.connectDestroyed k)
         | .client => removeConn c2 k) := rfl

theorem removeConn_mid (c2 : C) (k : Nat) (r : List Task) (ph : Bool) (hal : c2.clientAlive = true)
    (hcn : c2.connection = some k) (hm : Mid { c2 with connection := none } r ph) (y : ConnRec)
    (hy : findIn c2.conns k = some y) (hys : y.st = .disconnected)
    (hre : reconnects c2.retry c2.tConnect →
      c2.chan = none ∧ ¬ attempting c2.cstate c2.timers ∧ Task.startCycle ∉ r ++ c2.pending) :
    Mid (removeConn c2 k) r ph := by
  unfold removeConn
  rw [if_neg (by simp [hal]), if_neg (by simp [hcn])]
  have h3 := enqueueCd_mid _ r ph hm k y hy hys
  simp only
  split
  · rename_i hr
    obtain ⟨h1, h2, h4⟩ := hre hr
    apply restart_mid _ r ph h3 h1 rfl h2
    · intro hm'
      simp only [List.mem_append, List.mem_singleton, ← List.append_assoc] at hm'
      rcases hm' with hm' | hm'
      · exact h4 (List.mem_append.mpr hm')
      · cases hm'
    · exact hal
    · exact hr.2
  · exact h3

theorem userDisconnect_down (c : C) (k : Nat) (hcn : c.connection = some k) (hst : connSt c k = .disconnected) :
    userDisconnect c = { c with tConnect := false } := by
  cases c
  simp only at hcn
  subst hcn
  unfold userDisconnect connShutdown
  simp only
  rw [if_neg]
  intro h
  have h' : connSt _ k = .connected := h
  exact absurd (hst.symm.trans h') (by simp)


/-- the user's `connect()` up to `Connector::start`: the flags and the mark -/
theorem wantConnect_mid (c : C) (r : List Task) (ph : Bool) (hi : Mid c r ph) (hal : c.clientAlive = true) :
    Mid { c with tConnect := true, cConnect := true, stopReq := false, trace := c.trace ++ [.ghost .connect] } r ph := by
  have htr := hi.tr.gConnect hal
  obtain ⟨notDead, a1, a2, a3, a4, a5, a6, a7, a8, a9, a10, a11, a13, a14, a15, a16, s1, c1, c2, c3, c4, c5, c6, c7, c8, c9, c10, g1, g3, h1, t1⟩ := hi
  constructor
  all_goals mid_auto3

theorem handleClose_mid (c : C) (r : List Task) (ph : Bool) (hi : Mid c r ph) (k : Nat) (x : ConnRec)
    (hx : findIn c.conns k = some x) (hst : x.st ≠ .disconnected) (hch : x.closeCb = .client → c.chan = none) :
    Mid (handleClose c k) r ph := by
  obtain ⟨hxm, hxs⟩ := findIn_some hx
  rw [handleClose_eq]
  simp only [findConn_eq, hx, Option.map_some, Option.getD_some]
  cases hcb : x.closeCb
  · -- `TcpClient::removeConnection` is the close callback: the client exists, this is its connection
    obtain ⟨hal, hcn⟩ := hi.c6 x hxm hst hcb
    rw [hxs] at hcn
    have hA := closeHalf_mid c r ph hi k x hx hst hcb
    have hfk : findIn (c.conns.map (updRec k goDown)) k = some (goDown x) := by
      rw [findIn_upd k k goDown (fun _ => rfl), hx]; simp [updRec, hxs]
    have hna : ¬ attempting c.cstate c.timers := by
      intro hatt; have := (hi.a9 hatt).1; rw [hcn] at this; cases this
    have hns : Task.startCycle ∉ r ++ c.pending := by
      intro hm; have := hi.a10.2 hm; rw [hcn] at this; cases this
    have hchan := hch hcb
    have hdes : x.destroyed = false := by
      cases h : x.destroyed
      · rfl
      · exact absurd (hi.c4 x hxm h).1 hst
    simp only
    unfold runHookDown
    rw [if_pos (show (downState c k).clientAlive = true from hal)]
    cases hh : c.hooksDown with
    | nil =>
      rw [show (downState c k).hooksDown = [] from hh]
      simp only
      rw [if_neg (by rw [show (downState c k).dead = c.dead from rfl, hi.notDead]; exact Bool.false_ne_true)]
      exact removeConn_mid _ k r ph hal hcn hA (goDown x) hfk rfl (fun _ => ⟨hchan, hna, hns⟩)
    | cons op rest =>
      rw [show (downState c k).hooksDown = op :: rest from hh]
      simp only
      have hA' : Mid { c with conns := c.conns.map (updRec k goDown), trace := c.trace ++ [.down k], connection := none,
                              hooksDown := rest } r ph :=
        hA.hooks c.hooksUp rest (fun _ h => h) (fun o ho => by
          show o ∈ c.hooksDown; rw [hh]; exact List.mem_cons_of_mem _ ho)
      cases op with
      | disconnect =>
        have e : hookOp { downState c k with hooksDown := rest } k .disconnect =
            { downState c k with hooksDown := rest, tConnect := false } :=
          userDisconnect_down _ k hcn (by simp [connSt, findConn_eq, downState, hfk, goDown])
        rw [e]
        rw [if_neg (by rw [show ({ downState c k with hooksDown := rest, tConnect := false } : C).dead = c.dead from rfl, hi.notDead]; exact Bool.false_ne_true)]
        exact removeConn_mid _ k r ph hal hcn (noTConnect_mid _ r ph hA') (goDown x) hfk rfl (fun h => by cases h.2)
      | stop =>
        have hm := userStop_midG _ r ph .loop hA' hal
        rw [if_neg (by rw [show (hookOp { downState c k with hooksDown := rest } k .stop).dead = c.dead from rfl, hi.notDead]; exact Bool.false_ne_true)]
        exact removeConn_mid _ k r ph hal hcn hm (goDown x) hfk rfl (fun h => by cases h.2)
      | query =>
        have hm := queryDown_mid _ r ph hA' k (goDown x) hfk hdes
        have e : hookOp { downState c k with hooksDown := rest } k .query =
            { downState c k with hooksDown := rest, trace := c.trace ++ [.down k] ++ [.query k (some k)] } := by
          show emit _ (.query k (downState c k).connection) = _
          rw [show (downState c k).connection = some k from hcn]; rfl
        rw [e]
        rw [if_neg (by rw [show ({ downState c k with hooksDown := rest, trace := c.trace ++ [.down k] ++ [.query k (some k)] } : C).dead = c.dead from rfl, hi.notDead]; exact Bool.false_ne_true)]
        exact removeConn_mid _ k r ph hal hcn hm (goDown x) hfk rfl (fun _ => ⟨hchan, hna, hns⟩)
      | connect =>
        have hret : c.retry = false := hi.h1.2 (by rw [hh]; exact List.mem_cons_self)
        have hY := wantConnect_mid _ r ph hA' hal
        have hS := startCycle_mid _ r r ph (.inl rfl) hY hchan rfl hna hns (fun _ => hal)
        have e : hookOp { downState c k with hooksDown := rest } k .connect =
            startCycle { downState c k with hooksDown := rest, tConnect := true, cConnect := true, stopReq := false, trace := c.trace ++ [.down k] ++ [.ghost .connect] } := by
          show userConnect _ .loop = _
          unfold userConnect
          simp only [startDispatch]
          rfl
        rw [e]
        generalize hYd : ({ downState c k with hooksDown := rest, tConnect := true, cConnect := true, stopReq := false, trace := c.trace ++ [.down k] ++ [.ghost .connect] } : C) = Y at *
        have hfr := startCycle_frame Y none Y.pending
        have hYn : ({ Y with connection := none, pending := Y.pending } : C) =
            { c with conns := c.conns.map (updRec k goDown), trace := c.trace ++ [.down k] ++ [.ghost .connect], connection := none, hooksDown := rest, tConnect := true, cConnect := true, stopReq := false } := by
          rw [← hYd]; rfl
        rw [hYn] at hfr
        rw [hfr] at hS
        have hS' : Mid { startCycle Y with connection := none } r ph := by
          have : ({ startCycle Y with connection := none } : C) = { startCycle Y with connection := none, pending := Y.pending } := by
            rw [← startCycle_pending Y]
          rw [this]; exact hS
        have hk := startCycle_keeps Y
        have hYf : Y.clientAlive = true ∧ Y.retry = false ∧ Y.connection = some k ∧ Y.conns = c.conns.map (updRec k goDown) := by
          rw [← hYd]; exact ⟨hal, hret, hcn, rfl⟩
        rw [if_neg (by rw [show (startCycle Y).dead = ({ startCycle Y with connection := none } : C).dead from rfl, hS'.notDead]; exact Bool.false_ne_true)]
        refine removeConn_mid _ k r ph (by rw [hk.1]; exact hYf.1) (by rw [startCycle_connection]; exact hYf.2.2.1) hS' (goDown x)
          (by rw [startCycle_conns, hYf.2.2.2]; exact hfk) rfl (fun h => ?_)
        have := h.1; rw [hk.2.1, hYf.2.1] at this; cases this
  · -- `detail::removeConnection`: the client is gone, its callback does nothing
    have hal : c.clientAlive = false := hi.c10 x hxm hcb
    have e : runHookDown (downState c k) k = downState c k := by
      unfold runHookDown
      rw [if_neg (by rw [show (downState c k).clientAlive = c.clientAlive from rfl, hal]; exact Bool.false_ne_true)]
    simp only
    rw [e, if_neg (by rw [show (downState c k).dead = c.dead from rfl, hi.notDead]; exact Bool.false_ne_true)]
    exact closeDetached_mid c r r ph (.inl rfl) hi x hx hst hcb


/-! ### the record of a connection that is down stays as it is -/

theorem connShutdown_find (c : C) (j k : Nat) (y : ConnRec) (hy : findIn c.conns k = some y) (hys : y.st = .disconnected) :
    findIn (connShutdown c j).conns k = some y := by
  unfold connShutdown
  split
  · rename_i h
    show findIn (c.conns.map (updRec j toDisconnecting)) k = some y
    rw [findIn_upd j k toDisconnecting (fun _ => rfl), hy]
    have hne : ¬ y.sock = j := by
      intro e
      have : connSt c j = y.st := by rw [← e, (findIn_some hy).2]; simp [connSt, findConn_eq, hy]
      rw [this, hys] at h; cases h
    simp [updRec, hne]
  · exact hy

theorem hookOp_find (c : C) (k j : Nat) (op : HookOp) (y : ConnRec) (hy : findIn c.conns k = some y) (hys : y.st = .disconnected) :
    findIn (hookOp c j op).conns k = some y := by
  cases op with
  | disconnect =>
    show findIn (userDisconnect c).conns k = some y
    unfold userDisconnect
    simp only
    split
    · exact connShutdown_find _ _ k y hy hys
    · exact hy
  | stop =>
    show findIn (userStop c .loop).conns k = some y
    unfold userStop connectorStop
    simp only [stopDispatch]
    exact hy
  | connect =>
    show findIn (userConnect c .loop).conns k = some y
    unfold userConnect
    simp only [startDispatch]
    rw [startCycle_conns]; exact hy
  | query => exact hy

theorem runHookDown_find (c : C) (k j : Nat) (y : ConnRec) (hy : findIn c.conns k = some y) (hys : y.st = .disconnected) :
    findIn (runHookDown c j).conns k = some y := by
  unfold runHookDown
  split
  · split
    · exact hy
    · exact hookOp_find _ k j _ y hy hys
  · exact hy

/-- whatever the DOWN callback does, the connection's record is down and unregistered afterwards -/
theorem handleClose_find (c : C) (k : Nat) (x : ConnRec) (hx : findIn c.conns k = some x) :
    findIn (handleClose c k).conns k = some (goDown x) := by
  have hfk : findIn (downState c k).conns k = some (goDown x) := by
    show findIn (c.conns.map (updRec k goDown)) k = _
    rw [findIn_upd k k goDown (fun _ => rfl), hx]; simp [updRec, (findIn_some hx).2]
  have h2 := runHookDown_find (downState c k) k k (goDown x) hfk rfl
  rw [handleClose_eq]
  simp only
  generalize runHookDown (downState c k) k = c2 at h2
  split
  · exact h2
  · split
    · exact h2
    · unfold removeConn die
      simp only
      repeat' split
      all_goals first | exact h2 | (unfold restart; rw [startInLoop_conns]; exact h2)


end MuduoVerif.Client
