import MuduoVerif.Proofs.OwnerInv
/-! How the building blocks of the ownership model act on connections they do not concern (`Agree`). -/
namespace MuduoVerif.Owner
open MuduoVerif.Gen.Owner
open MuduoVerif.Gen.Conn (StateE forceCloseAccepts shutdownAccepts forceCloseInLoopActs destroyedWhileConnected)

theorem life_emit_other (s : Srv) {c c' : Nat} (k : Kind) (l : Nat) (h : c' ≠ c) :
    life c (s.trace ++ [⟨c', k, l⟩]) = life c s.trace := by
  rw [life_snoc]; simp [lifeStep, h]

theorem agree_setConn (s : Srv) {c c' : Nat} (C : Conn) (h : c' ≠ c) : Agree s (s.setConn c' C) c :=
  ⟨setConn_conn_other s c' c C h.symm, fun _ => rfl, fun _ => rfl, rfl, rfl, rfl, rfl, rfl⟩

theorem agree_emit (s : Srv) {c c' : Nat} (k : Kind) (l : Nat) (h : c' ≠ c) : Agree s (s.emit c' k l) c :=
  ⟨rfl, fun _ => rfl, fun _ => rfl, rfl, rfl, rfl, rfl, life_emit_other s k l h⟩

theorem not_holds_of_not_about {c : Nat} {t : Task} (h : about c t = false) : t.holds c = false := by
  cases hh : t.holds c with
  | false => rfl
  | true => rw [holds_about hh] at h; cases h

theorem agree_enq (s : Srv) {c : Nat} (l : Nat) {t : Task} (h : about c t = false) : Agree s (s.enq l t) c := by
  refine ⟨rfl, fun l' => ?_, fun l' => ?_, rfl, rfl, rfl, rfl, rfl⟩
  · rw [enq_q]; split <;> simp [List.filter_append, h]
  · rw [enq_q]; split <;> simp [List.any_append, not_holds_of_not_about h]

/-- the head of queue `l` moves to the batch of loop `l` -/
def pop (s : Srv) (l : Nat) (t : Task) (rest : List Task) : Srv :=
  { s with q := fun i => if i = l then rest else s.q i, done := fun i => if i = l then s.done i ++ [t] else s.done i }

theorem runHead_cons (s : Srv) (l : Nat) (t : Task) (rest : List Task) (h : s.q l = t :: rest) :
    runHead s l = runTask (pop s l t rest) l t := by
  simp [runHead, h, pop]

theorem runHead_nil (s : Srv) (l : Nat) (h : s.q l = []) : runHead s l = s := by
  simp [runHead, h]

theorem agree_pop (s : Srv) {c : Nat} (l : Nat) (t : Task) (rest : List Task) (hq : s.q l = t :: rest) (h : about c t = false) :
    Agree s (pop s l t rest) c := by
  refine ⟨rfl, fun l' => ?_, fun l' => ?_, rfl, rfl, rfl, rfl, rfl⟩
  · simp only [pop]; split
    · rename_i h'; subst h'; simp [hq, List.filter, h]
    · rfl
  · simp only [pop]; split
    · rename_i h'; subst h'; simp [hq, List.any_append, not_holds_of_not_about h]
    · rfl

/-- the functors' own references: what popping does to the holders of the connection the functor is about -/
theorem held_pop (s : Srv) (c l : Nat) (t : Task) (rest : List Task) (hq : s.q l = t :: rest) :
    (pop s l t rest).held c = s.held c := by
  unfold Srv.held Srv.inQueues
  have : ∀ l', (((pop s l t rest).q l').any (·.holds c) || ((pop s l t rest).done l').any (·.holds c)) =
      ((s.q l').any (·.holds c) || (s.done l').any (·.holds c)) := by
    intro l'
    simp only [pop]; split
    · rename_i h'; subst h'; simp [hq, List.any_append, Bool.or_comm, Bool.or_assoc, Bool.or_left_comm]
    · rfl
  simp only [this]
  rfl

theorem agree_reapOne (s : Srv) {c c' : Nat} (l : Nat) (h : c' ≠ c) : Agree s (reapOne s l c') c := by
  unfold reapOne; split
  · exact (agree_setConn s _ h).trans (agree_emit _ _ _ h)
  · exact Agree.refl s c

theorem agree_connectEstablished (s : Srv) {c c' : Nat} (l : Nat) (h : c' ≠ c) : Agree s (connectEstablished s l c') c := by
  unfold connectEstablished
  split
  · exact agree_emit s _ _ h
  · split
    · exact agree_emit s _ _ h
    · exact (agree_setConn s _ h).trans (agree_emit _ _ _ h)

theorem agree_connectDestroyed (s : Srv) {c c' : Nat} (l : Nat) (h : c' ≠ c) : Agree s (connectDestroyed s l c') c := by
  unfold connectDestroyed
  split
  · exact agree_emit s _ _ h
  · split
    · exact agree_emit s _ _ h
    · split
      · exact ((agree_setConn s _ h).trans (agree_emit _ _ _ h)).trans (agree_emit _ _ _ h)
      · exact (agree_setConn s _ h).trans (agree_emit _ _ _ h)

end MuduoVerif.Owner
