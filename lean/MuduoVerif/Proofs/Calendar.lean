import MuduoVerif.Model.Calendar
import MuduoVerif.Proofs.CalendarSucc
import Mathlib.Tactic.Ring
/-!
Ties between the **generated** calendar functions (C semantics: `Int.tdiv`/`Int.tmod`,
translated from /repo on every run) and the floor-division algorithms of
`Proofs/CalendarE.lean`, and the consequences for the generated functions.

The ties are semantic: they are closed by `simp` (turning truncating into floor division
where the dividend is provably non-negative), `ring_nf` and `omega`, so a harmless
rewrite of the C++ (reordered operands, renamed variables) still passes while a changed
constant or operator does not.
-/
set_option linter.unusedTactic false
set_option linter.unreachableTactic false
set_option linter.unnecessarySeqFocus false

namespace MuduoVerif.Calendar
open MuduoVerif.Gen.Calendar MuduoVerif.CalendarE

def toCivil (x : YearMonthDay) : Civil := ⟨x.year, x.month, x.day⟩

@[simp] theorem toCivil_year (x : YearMonthDay) : (toCivil x).year = x.year := rfl
@[simp] theorem toCivil_month (x : YearMonthDay) : (toCivil x).month = x.month := rfl
@[simp] theorem toCivil_day (x : YearMonthDay) : (toCivil x).day = x.day := rfl

theorem toCivil_inj (x y : YearMonthDay) (h : toCivil x = toCivil y) : x = y := by
  cases x; cases y; simp only [toCivil, Civil.mk.injEq] at h; simp only [YearMonthDay.mk.injEq]; exact h

/-- civil dates from -4800-03-01 on: where C's truncating division agrees with floor division
inside `getJulianDayNumber` -/
def inRange (y m : Int) : Prop := -4800 < y ∨ (y = -4800 ∧ 3 ≤ m)
instance (y m : Int) : Decidable (inRange y m) := inferInstanceAs (Decidable (_ ∨ _))

/-- day number of -4800-03-01, the first day of the supported range -/
def jdnMin : Int := -32044

/-! ### T1 ties -/

theorem gen_jdn_eq (y m d : Int) (hm1 : 1 ≤ m) (hm2 : m ≤ 12) (hy : inRange y m) :
    getJulianDayNumber y m d = jdnE y m d := by
  unfold inRange at hy
  simp (disch := omega) only [getJulianDayNumber, jdnE, Int.tdiv_eq_ediv_of_nonneg]
  first
    | omega
    | (ring_nf; omega)

theorem gen_ymd_eq (j : Int) (hj : jdnMin ≤ j) : toCivil (getYearMonthDay j) = ymdE j := by
  unfold jdnMin at hj
  simp (disch := omega) only [getYearMonthDay, ymdE, ymdC, toCivil, Int.tdiv_eq_ediv_of_nonneg]
  simp only [Civil.mk.injEq]
  (ring_nf) <;> (try simp only [and_self]) <;> (try omega)

theorem kJulian_eq : kJulianDayOf1970_01_01 = 2440588 := by decide
theorem kSecondsPerDay_eq : kSecondsPerDay = 86400 := by decide
theorem kDaysPerWeek_eq : kDaysPerWeek = 7 := by decide
theorem kMicro_eq : kMicroSecondsPerSecond = 1000000 := by decide

/-! ### truncating division by a positive number -/

theorem tdiv_pos (a b : Int) (hb : 0 < b) :
    Int.tdiv a b = if 0 ≤ a ∨ b ∣ a then a / b else a / b + 1 := by
  rw [Int.tdiv_eq_ediv]
  split
  · omega
  · rw [Int.sign_eq_one_of_pos hb]

theorem tmod_pos (a b : Int) (hb : 0 < b) :
    Int.tmod a b = if 0 ≤ a ∨ b ∣ a then a % b else a % b - b := by
  rw [Int.tmod_eq_emod]
  split
  · simp
  · simp only [Int.natCast_natAbs]
    rw [abs_of_pos hb]

/-! ### range facts at the floor-division level -/

theorem jdnE_ge (y m d : Int) (hv : validDate y m d) (hy : inRange y m) : jdnMin ≤ jdnE y m d := by
  unfold inRange at hy
  unfold jdnMin
  simp only [validDate] at hv
  simp only [jdnE]
  omega

theorem ymdE_inRange (j : Int) (hj : jdnMin ≤ j) : inRange (ymdE j).year (ymdE j).month := by
  unfold jdnMin at hj
  unfold inRange
  simp only [ymdE, ymdC]
  omega

/-! ### the generated functions: round trips, successor, weekday -/

theorem gen_ymd_jdn (y m d : Int) (hv : validDate y m d) (hy : inRange y m) :
    getYearMonthDay (getJulianDayNumber y m d) = ⟨y, m, d⟩ := by
  apply toCivil_inj
  rw [gen_jdn_eq y m d hv.1 hv.2.1 hy, gen_ymd_eq _ (jdnE_ge y m d hv hy), ymd_jdn_all y m d hv]
  rfl

theorem gen_jdn_ymd (j : Int) (hj : jdnMin ≤ j) :
    validDate (getYearMonthDay j).year (getYearMonthDay j).month (getYearMonthDay j).day ∧
    inRange (getYearMonthDay j).year (getYearMonthDay j).month ∧
    getJulianDayNumber (getYearMonthDay j).year (getYearMonthDay j).month (getYearMonthDay j).day = j := by
  have e := gen_ymd_eq j hj
  obtain ⟨hv, hb⟩ := jdn_ymd_all j
  have hr := ymdE_inRange j hj
  rw [← e] at hv hb hr
  simp only [Civil.valid, Civil.jdn, toCivil_year, toCivil_month, toCivil_day] at hv hb hr
  refine ⟨hv, hr, ?_⟩
  rw [gen_jdn_eq _ _ _ hv.1 hv.2.1 hr, hb]

theorem gen_ymd_succ (j : Int) (hj : jdnMin ≤ j) :
    toCivil (getYearMonthDay (j + 1)) = nextDay (toCivil (getYearMonthDay j)) := by
  rw [gen_ymd_eq j hj, gen_ymd_eq (j + 1) (by unfold jdnMin at *; omega), ymdE_succ]

theorem gen_ymd_civilFrom (j : Int) (n : Nat) (hj : jdnMin ≤ j) :
    toCivil (getYearMonthDay (j + n)) = civilFrom (toCivil (getYearMonthDay j)) n := by
  rw [gen_ymd_eq j hj, gen_ymd_eq (j + n) (by unfold jdnMin at *; omega), ymdE_civilFrom]

theorem gen_weekDay (j : Int) (hj : -1 ≤ j) : Date_weekDay j = (j + 1) % 7 := by
  simp only [Date_weekDay, kDaysPerWeek_eq]
  rw [Int.tmod_eq_emod_of_nonneg (by omega)]

/-! ### `BreakTime` / `fromUtcTime` -/

/-- seconds since the epoch → civil fields, by floor division (the specification) -/
def breakE (t : Int) : DateTime :=
  let x := ymdE (t / 86400 + 2440588)
  let s := t % 86400
  { year := x.year, month := x.month, day := x.day, hour := s / 3600, minute := s % 3600 / 60, second := s % 60 }

/-- first instant of the supported range: -4800-03-01 00:00:00 UTC -/
def tMin : Int := (jdnMin - 2440588) * 86400

theorem fillHMS_eq (s : Int) (dt : DateTime) (h : 0 ≤ s) :
    fillHMS s dt = { dt with hour := s / 3600, minute := s % 3600 / 60, second := s % 60 } := by
  simp (disch := omega) only [fillHMS, Int.tdiv_eq_ediv_of_nonneg, Int.tmod_eq_emod_of_nonneg]
  cases dt
  simp only [DateTime.mk.injEq, true_and]
  repeat' constructor
  all_goals first | trivial | omega

theorem gen_BreakTime_eq (t : Int) (ht : tMin ≤ t) : BreakTime t = breakE t := by
  unfold tMin jdnMin at ht
  have hd : jdnMin ≤ t / 86400 + 2440588 := by unfold jdnMin; omega
  have e := gen_ymd_eq _ hd
  simp only [BreakTime, kSecondsPerDay_eq, kJulian_eq, Date_ofJdn, Date_yearMonthDay,
    tdiv_pos t 86400 (by decide), tmod_pos t 86400 (by decide)]
  by_cases hc : 0 ≤ t ∨ (86400 : Int) ∣ t
  · simp only [hc, if_true]
    have hs : ¬ (t % 86400 < 0) := by omega
    simp only [hs, if_false]
    rw [fillHMS_eq _ _ (by omega)]
    simp only [breakE, ← e, toCivil]
  · simp only [hc, if_false]
    have hs : t % 86400 - 86400 < 0 := by omega
    simp only [hs, if_true]
    rw [fillHMS_eq _ _ (by omega)]
    have h1 : t / 86400 + 1 - 1 = t / 86400 := by omega
    have h2 : t % 86400 - 86400 + 86400 = t % 86400 := by omega
    simp only [breakE, ← e, toCivil, h1, h2]

theorem gen_fromUtcTime_eq (dt : DateTime) (hm1 : 1 ≤ dt.month) (hm2 : dt.month ≤ 12)
    (hy : inRange dt.year dt.month) :
    fromUtcTime dt = (jdnE dt.year dt.month dt.day - 2440588) * 86400
      + (dt.hour * 3600 + dt.minute * 60 + dt.second) := by
  simp only [fromUtcTime, Date_ofYmd, Date_julianDayNumber, kSecondsPerDay_eq, kJulian_eq,
    gen_jdn_eq _ _ _ hm1 hm2 hy] <;>
  first
    | rfl
    | omega
    | (ring_nf; omega)

theorem gen_fromUtc_break (t : Int) (ht : tMin ≤ t) : fromUtcTime (BreakTime t) = t := by
  have hd : jdnMin ≤ t / 86400 + 2440588 := by unfold tMin jdnMin at *; omega
  rw [gen_BreakTime_eq t ht]
  obtain ⟨hv, hj⟩ := jdn_ymd_all (t / 86400 + 2440588)
  have hr := ymdE_inRange _ hd
  simp only [Civil.valid, validDate] at hv
  rw [gen_fromUtcTime_eq _ (by simpa [breakE] using hv.1) (by simpa [breakE] using hv.2.1)
    (by simpa [breakE] using hr)]
  simp only [Civil.jdn] at hj
  simp only [breakE, hj]
  omega

theorem gen_break_fromUtc (dt : DateTime)
    (hv : validDate dt.year dt.month dt.day) (hy : inRange dt.year dt.month) (hf : DateTime.fieldsOk dt) :
    BreakTime (fromUtcTime dt) = dt := by
  obtain ⟨Y, Mo, D, H, Mi, Sec⟩ := dt
  simp only [DateTime.fieldsOk] at hf hv hy
  have hge := jdnE_ge _ _ _ hv hy
  rw [gen_fromUtcTime_eq _ hv.1 hv.2.1 hy]
  simp only []
  have hs : 0 ≤ H * 3600 + Mi * 60 + Sec ∧ H * 3600 + Mi * 60 + Sec < 86400 := by omega
  generalize hS : H * 3600 + Mi * 60 + Sec = S at hs ⊢
  generalize hJ : jdnE Y Mo D = J at hge ⊢
  have ht : tMin ≤ (J - 2440588) * 86400 + S := by unfold tMin jdnMin at *; omega
  rw [gen_BreakTime_eq _ ht]
  have h1 : ((J - 2440588) * 86400 + S) / 86400 + 2440588 = J := by omega
  have h2 : ((J - 2440588) * 86400 + S) % 86400 = S := by omega
  simp only [breakE, h1, h2]
  rw [← hJ, ymd_jdn_all _ _ _ hv]
  simp only [DateTime.mk.injEq, true_and]
  repeat' constructor
  all_goals first | trivial | omega

end MuduoVerif.Calendar
