import MuduoVerif.Proofs.ConnStream
/-! No data is dropped as long as the environment never supplies a fatal `write` result:
`NoDisc` is preserved by every transition of the connection model. -/
namespace MuduoVerif.Conn
open MuduoVerif.Gen.Conn

/-- a `write` result that is not a fatal error (EPIPE / ECONNRESET) -/
def WriteRes.nonFatal : WriteRes → Prop
  | .took _ => True
  | .err e => ¬ writeErrFatal e

/-- no data has been dropped, and no queued `write` result can make the code drop data -/
def NoDisc (c : Conn) : Prop := c.discarded = false ∧ ∀ r ∈ c.writes, r.nonFatal

/-- an input that is not a fatal `write` result -/
def Input.nonFatal : Input → Prop
  | .envWrite r => r.nonFatal
  | _ => True

/-- `c'` has the same `discarded` flag and the same queue of `write` results as `c` -/
def SameD (c c' : Conn) : Prop := c'.discarded = c.discarded ∧ c'.writes = c.writes

theorem NoDisc.of_same {c c' : Conn} (h : SameD c c') (hi : NoDisc c) : NoDisc c' := by
  unfold NoDisc at *; obtain ⟨h1, h2⟩ := h; rw [h1, h2]; exact hi

theorem sameD_refl (c : Conn) : SameD c c := ⟨rfl, rfl⟩
theorem sameD_trans {a b c : Conn} (h1 : SameD a b) (h2 : SameD b c) : SameD a c := by
  unfold SameD at *; obtain ⟨a1, a2⟩ := h1; obtain ⟨b1, b2⟩ := h2
  exact ⟨b1.trans a1, b2.trans a2⟩

theorem emit_sameD (c : Conn) (e : Ev) : SameD c (emit c e) := by simp [SameD, emit]
theorem setEvents_sameD (c : Conn) (r w : Bool) : SameD c (setEvents c r w) := by
  simp [SameD, setEvents]
theorem enqueue_sameD (c : Conn) (t : Task) : SameD c (enqueue c t) := by simp [SameD, enqueue]
theorem popRead_sameD (c : Conn) : SameD c (popRead c) := by
  unfold popRead; split <;> simp [SameD]
theorem accept_sameD (c : Conn) (data : Bytes) (q : Bool) : SameD c (accept c data q) := by
  simp [SameD, accept]
theorem shutdownInLoop_sameD (c : Conn) : SameD c (shutdownInLoop c) := by
  unfold shutdownInLoop; split <;> simp [SameD, emit]

theorem popWrite_nd (c : Conn) (h : NoDisc c) : NoDisc (popWrite c) := by
  obtain ⟨h1, h2⟩ := h
  unfold popWrite
  split
  · exact ⟨h1, by simpa using h2⟩
  · rename_i x rest heq
    refine ⟨h1, ?_⟩
    intro r hr
    apply h2
    rw [heq]
    exact List.mem_cons_of_mem _ hr

theorem peekWrite_nonFatal (c : Conn) (h : NoDisc c) : (peekWrite c).nonFatal := by
  obtain ⟨_, h2⟩ := h
  unfold peekWrite
  cases hw : c.writes with
  | nil => simp [WriteRes.nonFatal, writeErrFatal]
  | cons x rest =>
    simp only [List.headD_cons]
    apply h2
    rw [hw]
    exact List.mem_cons_self ..

theorem queueRemainder_nd (c : Conn) (data : Bytes) (n : Nat) (fault : Bool)
    (hf : fault = false) (h : NoDisc c) : NoDisc (queueRemainder c data n fault) := by
  subst hf
  unfold queueRemainder
  split
  · simp only
    have key : ∀ c1 : Conn, SameD c c1 →
        NoDisc (if sendEnablesWriting ({ c1 with outBuf := c1.outBuf ++ data.drop n } : Conn).ch.evWrite
          then enableWriting { c1 with outBuf := c1.outBuf ++ data.drop n }
          else { c1 with outBuf := c1.outBuf ++ data.drop n }) := by
      intro c1 hs
      have base : NoDisc ({ c1 with outBuf := c1.outBuf ++ data.drop n } : Conn) :=
        NoDisc.of_same (sameD_trans hs ⟨rfl, rfl⟩) h
      split
      · exact NoDisc.of_same (setEvents_sameD _ _ _) base
      · exact base
    split
    · exact key _ (enqueue_sameD _ _)
    · exact key _ (sameD_refl _)
  · simp only [Bool.false_eq_true, if_false]
    exact h

theorem sendDirect_nd (c : Conn) (data : Bytes) (r : WriteRes) (hr : r.nonFatal)
    (h : NoDisc c) : NoDisc (sendDirect c data r) := by
  cases r with
  | took n =>
    simp only [sendDirect]
    have key : ∀ c2 : Conn, SameD c c2 → NoDisc (queueRemainder c2 data n false) := by
      intro c2 hs
      exact queueRemainder_nd _ _ _ _ rfl (NoDisc.of_same hs h)
    split
    · exact key _ (sameD_trans (b := { c with wrote := c.wrote ++ data.take n }) ⟨rfl, rfl⟩ (enqueue_sameD _ _))
    · exact key _ ⟨rfl, rfl⟩
  | err e =>
    simp only [sendDirect]
    apply queueRemainder_nd _ _ _ _ _ h
    have hnf : ¬ writeErrFatal e := hr
    simp [hnf]

theorem sendInLoop_nd (c : Conn) (data : Bytes) (q : Bool) (h : NoDisc c) : NoDisc (sendInLoop c data q) := by
  unfold sendInLoop
  split
  · exact NoDisc.of_same (emit_sameD _ _) h
  · split
    · apply sendDirect_nd _ _ _ (peekWrite_nonFatal c h)
      apply NoDisc.of_same (emit_sameD _ _)
      apply popWrite_nd
      exact NoDisc.of_same (accept_sameD _ _ _) h
    · exact queueRemainder_nd _ _ _ _ rfl (NoDisc.of_same (accept_sameD _ _ _) h)

theorem handOff_sameD (c : Conn) (f : Bool) (d : Dispatch) (t : Task) (g : Conn → Conn)
    (hg : ∀ c, SameD c (g c)) : SameD c (handOff c f d t g) := by
  unfold handOff; split
  · exact enqueue_sameD _ _
  · exact hg _

theorem afterDrain_sameD (c : Conn) : SameD c (afterDrain c) := by
  unfold afterDrain
  simp only
  have h1 := setEvents_sameD c c.ch.evRead false
  split
  · split
    · exact sameD_trans (sameD_trans h1 (enqueue_sameD _ _)) (handOff_sameD _ _ _ _ _ shutdownInLoop_sameD)
    · exact sameD_trans h1 (enqueue_sameD _ _)
  · split
    · exact sameD_trans h1 (handOff_sameD _ _ _ _ _ shutdownInLoop_sameD)
    · exact h1

theorem handleWriteRes_sameD (c : Conn) (r : WriteRes) : SameD c (handleWriteRes c r) := by
  unfold handleWriteRes
  split
  · rename_i n
    simp only
    split
    · exact sameD_trans (b := { c with wrote := c.wrote ++ c.outBuf.take (n+1), outBuf := c.outBuf.drop (n+1) })
        ⟨rfl, rfl⟩ (afterDrain_sameD _)
    · exact ⟨rfl, rfl⟩
  · exact sameD_refl _

theorem handleWrite_nd (c : Conn) (h : NoDisc c) : NoDisc (handleWrite c) := by
  unfold handleWrite
  split
  · exact NoDisc.of_same (sameD_trans (emit_sameD _ _) (handleWriteRes_sameD _ _)) (popWrite_nd _ h)
  · exact h

theorem startReadInLoop_sameD (c : Conn) : SameD c (startReadInLoop c) := by
  unfold startReadInLoop; split
  · exact sameD_trans (setEvents_sameD c true c.ch.evWrite) ⟨rfl, rfl⟩
  · exact sameD_refl _

theorem stopReadInLoop_sameD (c : Conn) : SameD c (stopReadInLoop c) := by
  unfold stopReadInLoop; split
  · exact sameD_trans (setEvents_sameD c false c.ch.evWrite) ⟨rfl, rfl⟩
  · exact sameD_refl _

theorem act_nd (c : Conn) (f : Bool) (a : Act) (h : NoDisc c) : NoDisc (act c f a) := by
  cases a with
  | send d =>
    simp only [act]; split
    · split
      · exact NoDisc.of_same (sameD_trans (c := enqueue { c with offeredF := c.offeredF ++ [d] } (.sendInLoop d))
          (b := { c with offeredF := c.offeredF ++ [d] }) ⟨rfl, rfl⟩ (enqueue_sameD _ _)) h
      · exact sendInLoop_nd _ _ _ (NoDisc.of_same (c := c) ⟨rfl, rfl⟩ h)
    · exact h
  | shutdown =>
    simp only [act]; split
    · exact NoDisc.of_same (sameD_trans (a := c) ⟨rfl, rfl⟩ (handOff_sameD _ _ _ _ _ shutdownInLoop_sameD)) h
    · exact h
  | forceClose =>
    simp only [act]; split
    · exact NoDisc.of_same (sameD_trans (a := c) ⟨rfl, rfl⟩ (handOff_sameD _ _ _ _ _ sameD_refl)) h
    · exact h
  | forceCloseDelay us =>
    simp only [act]; split
    · split
      · exact NoDisc.of_same (sameD_trans (a := c) ⟨rfl, rfl⟩ (enqueue_sameD _ _)) h
      · exact NoDisc.of_same ⟨rfl, rfl⟩ h
    · exact h
  | stopRead => simp only [act]; exact NoDisc.of_same (handOff_sameD _ _ _ _ _ stopReadInLoop_sameD) h
  | startRead => simp only [act]; exact NoDisc.of_same (handOff_sameD _ _ _ _ _ startReadInLoop_sameD) h
  | setWc k => exact NoDisc.of_same (c := c) ⟨rfl, rfl⟩ h
  | setHwm k m => exact NoDisc.of_same (c := c) ⟨rfl, rfl⟩ h

theorem actLoop_nd (c : Conn) (a : Act) (h : NoDisc c) : NoDisc (actLoop c a) := act_nd c false a h
theorem actForeign_nd (c : Conn) (a : Act) (h : NoDisc c) : NoDisc (actForeign c a) := act_nd c true a h

theorem callback_nd (c : Conn) (k : Cb) (e : Ev) (h : NoDisc c) : NoDisc (callback c k e) := by
  unfold callback
  split
  · apply actLoop_nd
    exact NoDisc.of_same (sameD_trans (emit_sameD c e) ⟨rfl, rfl⟩) h
  · exact NoDisc.of_same (emit_sameD _ _) h

theorem handleClose_nd (c : Conn) (h : NoDisc c) : NoDisc (handleClose c) := by
  unfold handleClose
  split
  · exact NoDisc.of_same (sameD_trans ⟨rfl, rfl⟩ (emit_sameD _ _)) h
  · apply NoDisc.of_same (enqueue_sameD _ _)
    apply NoDisc.of_same (c := emit (callback (disableAll { c with st := .kDisconnected }) .down .down) .closeCb) ⟨rfl, rfl⟩
    apply NoDisc.of_same (emit_sameD _ _)
    apply callback_nd
    have hs := setEvents_sameD ({ c with st := StateE.kDisconnected } : Conn) false false
    exact NoDisc.of_same (sameD_trans (a := c) ⟨rfl, rfl⟩ hs) h

theorem handleReadRes_nd (c : Conn) (r : ReadRes) (h : NoDisc c) : NoDisc (handleReadRes c r) := by
  unfold handleReadRes
  split
  · exact handleClose_nd _ h
  · simp only
    apply NoDisc.of_same (c := callback (deliver c _) .msg _) ⟨rfl, rfl⟩
    apply callback_nd
    exact NoDisc.of_same (c := c) ⟨rfl, rfl⟩ h
  · exact h

theorem handleRead_nd (c : Conn) (h : NoDisc c) : NoDisc (handleRead c) := by
  unfold handleRead
  exact handleReadRes_nd _ _ (NoDisc.of_same (sameD_trans (popRead_sameD _) (emit_sameD _ _)) h)

theorem guarded_nd (f : Conn → Conn) (hf : ∀ c, NoDisc c → NoDisc (f c)) (rev : Prop) [Decidable rev]
    (sub : Bool → Bool → Bool → Prop) [∀ a b c, Decidable (sub a b c)]
    (c : Conn) (h : NoDisc c) : NoDisc (guarded f rev sub c) := by
  unfold guarded; split; exact hf _ h; exact h

theorem handleEvent_nd (c : Conn) (r : Nat) (h : NoDisc c) : NoDisc (handleEvent c r) := by
  unfold handleEvent
  split
  · exact h
  · exact guarded_nd _ handleWrite_nd _ _ _
      (guarded_nd _ handleRead_nd _ _ _ (guarded_nd _ handleClose_nd _ _ _ h))

theorem removeChannel_nd (c : Conn) (h : NoDisc c) : NoDisc (removeChannel c) := by
  unfold removeChannel; split
  · exact NoDisc.of_same (sameD_trans ⟨rfl, rfl⟩ (emit_sameD _ _)) h
  · exact NoDisc.of_same ⟨rfl, rfl⟩ h

theorem connectDestroyed_nd (c : Conn) (h : NoDisc c) : NoDisc (connectDestroyed c) := by
  unfold connectDestroyed; split
  · apply removeChannel_nd; apply callback_nd
    have hs := setEvents_sameD ({ c with st := StateE.kDisconnected } : Conn) false false
    exact NoDisc.of_same (sameD_trans (a := c) ⟨rfl, rfl⟩ hs) h
  · exact removeChannel_nd _ h

theorem connectEstablished_nd (c : Conn) (h : NoDisc c) : NoDisc (connectEstablished c) := by
  unfold connectEstablished; split
  · exact NoDisc.of_same (sameD_trans ⟨rfl, rfl⟩ (emit_sameD _ _)) h
  · apply callback_nd
    have hs := setEvents_sameD ({ c with st := StateE.kConnected } : Conn) true c.ch.evWrite
    exact NoDisc.of_same (sameD_trans (a := c) ⟨rfl, rfl⟩ hs) h

theorem fireDelay_nd (c : Conn) (h : NoDisc c) : NoDisc (fireDelay c) := by
  unfold fireDelay; split; exact actLoop_nd _ _ h; exact h

theorem runTask_nd (c : Conn) (t : Task) (h : NoDisc c) : NoDisc (runTask c t) := by
  unfold runTask
  split
  · split
    · exact NoDisc.of_same ⟨rfl, rfl⟩ h
    · split
      · exact h
      · exact NoDisc.of_same (sameD_trans ⟨rfl, rfl⟩ (emit_sameD _ _)) h
  · cases t with
    | sendInLoop d => exact sendInLoop_nd _ _ _ h
    | shutdownInLoop => exact NoDisc.of_same (shutdownInLoop_sameD _) h
    | drainShutdownInLoop => exact NoDisc.of_same (shutdownInLoop_sameD _) h
    | forceCloseInLoop => simp only; split; exact handleClose_nd _ h; exact h
    | connectDestroyed => exact connectDestroyed_nd _ h
    | writeComplete => exact callback_nd _ _ _ h
    | highWater n => exact callback_nd _ _ _ h
    | startReadInLoop => exact NoDisc.of_same (startReadInLoop_sameD _) h
    | stopReadInLoop => exact NoDisc.of_same (stopReadInLoop_sameD _) h
    | addDelayTimer d => exact NoDisc.of_same ⟨rfl, rfl⟩ h

theorem maybeDestroy_nd (c : Conn) (h : NoDisc c) : NoDisc (maybeDestroy c) := by
  unfold maybeDestroy
  split
  · split
    · exact NoDisc.of_same (sameD_trans ⟨rfl, rfl⟩ (emit_sameD _ _)) h
    · split
      · exact NoDisc.of_same (sameD_trans ⟨rfl, rfl⟩ (emit_sameD _ _)) h
      · have h1 := emit_sameD ({ c with alive := false } : Conn) .sysClose
        have h2 := emit_sameD (emit ({ c with alive := false } : Conn) .sysClose) .destroyed
        exact NoDisc.of_same (sameD_trans (sameD_trans (a := c) ⟨rfl, rfl⟩ h1) h2) h
  · exact h

theorem runBatch_nd (n : Nat) (c : Conn) (h : NoDisc c) : NoDisc (runBatch n c) := by
  induction n generalizing c with
  | zero => exact h
  | succ n ih =>
    unfold runBatch; split
    · exact h
    · split
      · exact h
      · exact ih _ (runTask_nd _ _ (NoDisc.of_same ⟨rfl, rfl⟩ h))

theorem fireN_nd (n : Nat) (c : Conn) (h : NoDisc c) : NoDisc (fireN c n) := by
  induction n generalizing c with
  | zero => exact h
  | succ n ih => exact ih _ (fireDelay_nd _ h)

theorem fireTimers_nd (c : Conn) (h : NoDisc c) : NoDisc (fireTimers c) := by
  unfold fireTimers
  exact fireN_nd _ _ (NoDisc.of_same ⟨rfl, rfl⟩ h)

theorem dispatch_nd (c : Conn) (s : Src) (h : NoDisc c) : NoDisc (dispatch c s) := by
  cases s with
  | conn r => simp only [dispatch]; split; exact h; exact handleEvent_nd _ _ h
  | timer => simp only [dispatch]; split; exact h; exact fireTimers_nd _ h

theorem foldl_dispatch_nd (l : List Src) (c : Conn) (h : NoDisc c) : NoDisc (l.foldl dispatch c) := by
  induction l generalizing c with
  | nil => exact h
  | cons s rest ih => exact ih _ (dispatch_nd _ _ h)

theorem iter_nd (c : Conn) (a : List Src) (h : NoDisc c) : NoDisc (iter c a) := by
  unfold iter
  split
  · exact h
  · simp only
    have h1 : NoDisc (drainPending (a.foldl dispatch c)) := by
      unfold drainPending
      exact runBatch_nd _ _ (NoDisc.of_same ⟨rfl, rfl⟩ (foldl_dispatch_nd _ _ h))
    split
    · exact h1
    · exact maybeDestroy_nd _ h1

theorem step_nodisc (c : Conn) (i : Input) (hi : i.nonFatal) (h : NoDisc c) : NoDisc (step c i) := by
  cases i with
  | establish => simp only [step]; split; exact h; exact connectEstablished_nd _ h
  | act f a =>
    simp only [step]; split
    · exact h
    · split
      · exact actForeign_nd _ _ h
      · exact actLoop_nd _ _ h
  | iter a => exact iter_nd _ _ h
  | ownerDestroy =>
    simp only [step]; split
    · exact h
    · apply maybeDestroy_nd
      exact NoDisc.of_same (c := connectDestroyed c) ⟨rfl, rfl⟩ (connectDestroyed_nd _ h)
  | hook k a => exact NoDisc.of_same (c := c) ⟨rfl, rfl⟩ h
  | setMark n => exact NoDisc.of_same (c := c) ⟨rfl, rfl⟩ h
  | setRetrieve n => exact NoDisc.of_same (c := c) ⟨rfl, rfl⟩ h
  | peerWrite d => exact NoDisc.of_same (c := c) ⟨rfl, rfl⟩ h
  | envWrite r =>
    obtain ⟨h1, h2⟩ := h
    refine ⟨h1, ?_⟩
    intro x hx
    simp only [step, List.mem_append, List.mem_singleton] at hx
    cases hx with
    | inl hx => exact h2 x hx
    | inr hx => subst hx; exact hi
  | envRead r => exact NoDisc.of_same (c := c) ⟨rfl, rfl⟩ h
  | advance us => exact NoDisc.of_same (c := c) ⟨rfl, rfl⟩ h

theorem run_nodisc (ins : List Input) (c : Conn) (hi : ∀ i ∈ ins, i.nonFatal) (h : NoDisc c) :
    NoDisc (run c ins) := by
  induction ins generalizing c with
  | nil => exact h
  | cons i rest ih =>
    exact ih _ (fun j hj => hi j (List.mem_cons_of_mem _ hj))
      (step_nodisc _ _ (hi i (List.mem_cons_self ..)) h)

end MuduoVerif.Conn
