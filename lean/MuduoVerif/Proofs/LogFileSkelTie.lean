import MuduoVerif.Generated.LogFileSkel
import MuduoVerif.Model.LogFile
/-!
# T1 tie for the statement order of the log back-end (C16, `LogFile` half)

`Gen.LogFileSkel.<fn>` is the statement skeleton `vlib/gen/logfileskel.py` extracts from /repo's current
`muduo/base/LogFile.cc` / `FileUtil.cc` on every run; `Decl.<fn>` (`Model/LogFileSkelDecl.lean`) is the skeleton the
corresponding definition of `Model/LogFile.lean` implements.  Each `skeleton_<fn>` is closed by `decide`: it holds
exactly as long as the source performs the same stores (of the same expressions), engine calls, libc calls, lock
acquisitions, assertions, `break`s and returns, in the same order, under the same nesting of the same (generated)
guards and loops as the model.  The guards themselves are tied by `Generated/LogFile.lean` (`C16.tie_*`).
`Props/C16.lean` re-exports `skeletons_agree` (`statement_order_tied`), so a change of statement order in one of these
functions breaks that property module.

The second part (`reading_*`) checks, by `rfl` / `simp only`, the places where `Model/LogFile.lean` writes a function
in a more compact form than the statement sequence the declared skeleton lists: the model term IS that sequence.
-/
namespace MuduoVerif.LogFileSkel

theorem skeleton_ctor : Gen.LogFileSkel.ctor = Decl.ctor := by decide
theorem skeleton_append : Gen.LogFileSkel.append = Decl.append := by decide
theorem skeleton_flush : Gen.LogFileSkel.flush = Decl.flush := by decide
theorem skeleton_appendUnlocked : Gen.LogFileSkel.appendUnlocked = Decl.appendUnlocked := by decide
theorem skeleton_rollFile : Gen.LogFileSkel.rollFile = Decl.rollFile := by decide
theorem skeleton_getLogFileName : Gen.LogFileSkel.getLogFileName = Decl.getLogFileName := by decide
theorem skeleton_fileCtor : Gen.LogFileSkel.fileCtor = Decl.fileCtor := by decide
theorem skeleton_fileDtor : Gen.LogFileSkel.fileDtor = Decl.fileDtor := by decide
theorem skeleton_fileAppend : Gen.LogFileSkel.fileAppend = Decl.fileAppend := by decide
theorem skeleton_fileFlush : Gen.LogFileSkel.fileFlush = Decl.fileFlush := by decide
theorem skeleton_fileWrite : Gen.LogFileSkel.fileWrite = Decl.fileWrite := by decide

/-- every extracted skeleton is the declared one -/
theorem skeletons_agree :
    Gen.LogFileSkel.ctor = Decl.ctor ∧
    Gen.LogFileSkel.append = Decl.append ∧
    Gen.LogFileSkel.flush = Decl.flush ∧
    Gen.LogFileSkel.appendUnlocked = Decl.appendUnlocked ∧
    Gen.LogFileSkel.rollFile = Decl.rollFile ∧
    Gen.LogFileSkel.getLogFileName = Decl.getLogFileName ∧
    Gen.LogFileSkel.fileCtor = Decl.fileCtor ∧
    Gen.LogFileSkel.fileDtor = Decl.fileDtor ∧
    Gen.LogFileSkel.fileAppend = Decl.fileAppend ∧
    Gen.LogFileSkel.fileFlush = Decl.fileFlush ∧
    Gen.LogFileSkel.fileWrite = Decl.fileWrite :=
  ⟨skeleton_ctor, skeleton_append, skeleton_flush, skeleton_appendUnlocked, skeleton_rollFile,
   skeleton_getLogFileName, skeleton_fileCtor, skeleton_fileDtor, skeleton_fileAppend, skeleton_fileFlush,
   skeleton_fileWrite⟩


/-! ## The compact model terms are the declared statement sequences -/
section Readings
open MuduoVerif.LogFile MuduoVerif.Gen.LogFile

/-- `Decl.appendUnlocked`: the record goes to the current file FIRST (`afterWrite`), the roll / flush decisions
(`afterAppend`) see the state after it -/
theorem reading_append (cfg : Cfg) (clk : Nat → Int) (s : St) (rec : Bytes) (fws : List FwRes) :
    step cfg clk s (.append rec fws) =
      (let s1 := afterWrite s (appendFile rec fws)                       -- file_->append(logline, len)
       afterAppend cfg clk s1) := rfl                                   -- the `if (writtenBytes() > rollSize_) .. else ..`

/-- `Decl.appendUnlocked`, roll by size: `rollFile()` on the state as it is - `count_` untouched, no clock reading of
its own -/
theorem reading_roll_by_size (cfg : Cfg) (clk : Nat → Int) (s : St) (h : rollBySize s.written cfg.rollSize) :
    afterAppend cfg clk s = (rollFile clk s).1 := by
  simp only [afterAppend, if_pos h]

/-- `Decl.appendUnlocked`, no roll by size and the check not due: `++count_` and nothing else -/
theorem reading_count_only (cfg : Cfg) (clk : Nat → Int) (s : St) (h : ¬ rollBySize s.written cfg.rollSize)
    (hc : ¬ checkDue (s.count + 1) cfg.checkEveryN) :
    afterAppend cfg clk s = { s with count := s.count + 1 } := by
  simp only [afterAppend, if_neg h, if_neg hc]

/-- `Decl.appendUnlocked`, new period: `count_ = 0`, ONE `time()` (tick + 1, `Ev.time`), then `rollFile()` (which reads
the clock again) -/
theorem reading_roll_by_period (cfg : Cfg) (clk : Nat → Int) (s : St) (h : ¬ rollBySize s.written cfg.rollSize)
    (hc : checkDue (s.count + 1) cfg.checkEveryN) (hp : periodChanged (periodOf (clk s.tick)) s.startOfPeriod) :
    afterAppend cfg clk s =
      (let s1 : St := { s with count := countReset, tick := s.tick + 1, log := Ev.time (clk s.tick) :: s.log }
       (rollFile clk s1).1) := by
  simp only [afterAppend, if_neg h, if_pos hc, if_pos hp]

/-- `Decl.appendUnlocked`, same period and the interval over: `lastFlush_ = now` and the flush, in that branch only -/
theorem reading_flush (cfg : Cfg) (clk : Nat → Int) (s : St) (h : ¬ rollBySize s.written cfg.rollSize)
    (hc : checkDue (s.count + 1) cfg.checkEveryN) (hp : ¬ periodChanged (periodOf (clk s.tick)) s.startOfPeriod)
    (hf : flushDue (clk s.tick) s.lastFlush cfg.flushInterval) :
    afterAppend cfg clk s =
      { s with count := countReset, tick := s.tick + 1, lastFlush := clk s.tick, cur := s.cur.flush,
               log := Ev.flushed s.cur.name s.cur.content.length :: Ev.time (clk s.tick) :: s.log } := by
  simp only [afterAppend, if_neg h, if_pos hc, if_neg hp, if_pos hf]

/-- `Decl.appendUnlocked`, same period and the interval not over: only `count_ = 0` and the clock reading -/
theorem reading_check_only (cfg : Cfg) (clk : Nat → Int) (s : St) (h : ¬ rollBySize s.written cfg.rollSize)
    (hc : checkDue (s.count + 1) cfg.checkEveryN) (hp : ¬ periodChanged (periodOf (clk s.tick)) s.startOfPeriod)
    (hf : ¬ flushDue (clk s.tick) s.lastFlush cfg.flushInterval) :
    afterAppend cfg clk s = { s with count := countReset, tick := s.tick + 1, log := Ev.time (clk s.tick) :: s.log } := by
  simp only [afterAppend, if_neg h, if_pos hc, if_neg hp, if_neg hf]

/-- `Decl.rollFile`, refused: the clock was read all the same, nothing else changed, result `false` -/
theorem reading_roll_refused (clk : Nat → Int) (s : St) (h : ¬ rollAllowed (clk s.tick) s.lastRoll) :
    rollFile clk s = ({ s with tick := s.tick + 1, log := Ev.time (clk s.tick) :: s.log }, false) := by
  simp only [rollFile, if_neg h]

/-- `Decl.fileAppend`: one iteration of the `while` when the stream accepts the request or reports no error - the loop
continues from `written + n` (the recursion is the loop) -/
theorem reading_loop_step (rec : Bytes) (written : Nat) (r : FwRes) (rs : List FwRes)
    (hc : appendContinues written rec.length)
    (hok : ¬ (appendShort (min r.n (appendRequest (appendRemain rec.length written))) (appendRemain rec.length written)
              ∧ r.err = true)) :
    (appendLoop rec written (r :: rs)).counted =
      (appendLoop rec (appendAdvance written (min r.n (appendRequest (appendRemain rec.length written)))) rs).counted := by
  simp only [appendLoop, if_pos hc, if_neg hok]

/-- `Decl.fileAppend`: the `break` - short count AND the error flag: the bytes of this call went out, `written` is NOT
advanced by them, the loop is left -/
theorem reading_loop_break (rec : Bytes) (written : Nat) (r : FwRes) (rs : List FwRes)
    (hc : appendContinues written rec.length)
    (hbad : appendShort (min r.n (appendRequest (appendRemain rec.length written))) (appendRemain rec.length written)
            ∧ r.err = true) :
    (appendLoop rec written (r :: rs)).counted = written ∧ (appendLoop rec written (r :: rs)).failed = true := by
  simp only [appendLoop, if_pos hc, if_pos hbad, and_self]

/-- `Decl.fileAppend`: the loop test comes first - nothing is written when `written == len` -/
theorem reading_loop_exit (rec : Bytes) (written : Nat) (fws : List FwRes) (hc : ¬ appendContinues written rec.length) :
    (appendLoop rec written fws).calls = [] ∧ (appendLoop rec written fws).counted = written := by
  cases fws <;> simp only [appendLoop, if_neg hc, and_self]

end Readings

end MuduoVerif.LogFileSkel
