import MuduoVerif.Proofs.TimerArmed
import MuduoVerif.Proofs.TimerGhost
import MuduoVerif.Proofs.TimerBatch
import MuduoVerif.Proofs.TimerCancel
import Mathlib.Data.List.Perm.Basic
/-! Glue between the invariants of the timer engine and the property statements of C06 / C07. -/
namespace MuduoVerif.Timer
open MuduoVerif.Gen.Timer

theorem run_append (ins l : List In) : run (ins ++ l) = l.foldl step (run ins) := by
  unfold run; rw [List.foldl_append]

theorem run_snoc (ins : List In) (i : In) : run (ins ++ [i]) = step (run ins) i := by
  rw [run_append]; rfl

theorem mem_runRecs {t : List Ev} {ev : Ev} {r : RunRec} (he : ev ∈ t) (hr : runRec ev = some r) : r ∈ runRecs t :=
  List.mem_filterMap.2 ⟨ev, he, hr⟩

/-! ### `timers_` and `activeTimers_` have the same size -/

theorem WFp.length_eq {s : TQ} {B : List (Time × Addr)} {L : List Addr} (h : WFp s B L) :
    s.timers.length = s.active.length := by
  have hnd : (s.timers.map (fun e => (e.2, (cellAt s e.2).seq))).Nodup := by
    refine List.Nodup.map_on ?_ h.timers_nodup
    intro x hx y hy hxy
    exact h.timers_addr_inj hx hy (Prod.mk.inj hxy).1
  have hperm : (s.timers.map (fun e => (e.2, (cellAt s e.2).seq))).Perm s.active := by
    rw [List.perm_ext_iff_of_nodup hnd h.a_nodup]
    intro p
    constructor
    · intro hp
      obtain ⟨e, he, rfl⟩ := List.mem_map.1 hp
      obtain ⟨c, h1, _, h3⟩ := h.t_live e he
      rw [cellAt_eq h1]; exact h3
    · intro hp
      obtain ⟨c, h1, h2, h3⟩ := h.a_live p hp
      refine List.mem_map.2 ⟨(c.exp, p.1), h3, ?_⟩
      show (p.1, (cellAt s p.1).seq) = p
      rw [cellAt_eq h1, h2]
  rw [← hperm.length_eq, List.length_map]

/-! ### numbering -/

theorem k_le_cnt {l : List RunRec} (hn : NumOK l) {r : RunRec} (hr : r ∈ l) : r.k ≤ cnt r.seq l := by
  induction l with
  | nil => cases hr
  | cons x xs ih =>
    rw [cnt_cons]
    rcases List.mem_cons.1 hr with rfl | hr
    · have := hn.1; simp; omega
    · have := ih hn.2 hr; omega

/-! ### sequence numbers only grow -/

theorem runNext_numCreated (s : TQ) : s.numCreated ≤ (runNext s).numCreated := by
  cases hr : s.running with
  | nil => rw [runNext_nil hr]
  | cons f r =>
    rw [runNext_cons hr]
    cases f with
    | add a => exact (addInLoop_ext { s with running := r } a).numCreated
    | cancel id => exact (cancelInLoop_ext { s with running := r } id).numCreated
    | marker k => exact Nat.le_refl _

theorem drain_numCreated (n : Nat) (s : TQ) : s.numCreated ≤ (drain n s).numCreated := by
  induction n generalizing s with
  | zero => exact Nat.le_refl _
  | succ n ih => exact Nat.le_trans (runNext_numCreated s) (ih (runNext s))

theorem step_numCreated {s : TQ} (ht : Top s) (i : In) : s.numCreated ≤ (step s i).numCreated := by
  cases i with
  | now t => exact Nat.le_refl _
  | addr a => exact Nat.le_refl _
  | script name k a => exact Nat.le_refl _
  | add who name m =>
    cases who with
    | loop => exact (addL_ext s name m).numCreated
    | foreign =>
      show s.numCreated ≤ (if s.parked.isSome then s else addFinish (addAlloc s name m)).numCreated
      split
      · exact Nat.le_refl _
      · exact (addForeign_quiet s name m).numCreated
  | addAlloc name m => exact (addAlloc_quiet s name m).numCreated
  | addFinish => exact (addFinish_quiet s).numCreated
  | cancel who v k =>
    cases who with
    | loop => exact (cancelInLoop_ext s _).numCreated
    | foreign => exact Nat.le_refl _
  | expire =>
    show s.numCreated ≤ (match s.alarm with | some _ => { s with alarm := none, readable := true } | none => s).numCreated
    split <;> exact Nat.le_refl _
  | iter =>
    unfold step iter
    simp only []
    refine Nat.le_trans ?_ (drain_numCreated _ _)
    show s.numCreated ≤ (if s.readable = true then handleRead s else s).numCreated
    split
    · exact (handleRead_extW s ht.calling).numCreated
    · exact Nat.le_refl _

/-! ### `eventually_runs` -/

theorem fires_due {s : TQ} (ht : Top s) (hr : s.readable = true) {e : Time × Addr} (he : e ∈ s.timers)
    (hle : e.1 ≤ (readNow s).1) : recOf (cellAt s e.2) e (readNow s).1 ∈ runRecs (iter s).trace := by
  rw [iter_runs ht, if_pos hr]
  refine List.mem_append_left _ (List.mem_reverse.2 (List.mem_map.2 ⟨e, ?_, rfl⟩))
  exact mem_batch_of_due ht.wf he hle

theorem eventually_runs_aux {s : TQ} (ht : Top s) (ha : ArmedB false s) (hv : ValidTr s.trace) (hn : s.nows = [])
    {e : Time × Addr} (he : e ∈ s.timers) {t : Time} (hle : e.1 ≤ t) :
    recOf (cellAt s e.2) e t ∈ runRecs (step (step (step s (.now t)) .expire) .iter).trace := by
  have ht1 : Top (step s (.now t)) := ht.step _
  have ht2 : Top (step (step s (.now t)) .expire) := ht1.step _
  have hne : s.timers ≠ [] := fun h0 => by rw [h0] at he; cases he
  have hac := (ha hv).2 rfl hne
  -- the state after `now t; expire`
  have key : ∃ s2, step (step s (.now t)) .expire = s2 ∧ s2.readable = true ∧ s2.timers = s.timers ∧ s2.heap = s.heap ∧
      s2.nows = [t] := by
    show ∃ s2, (match (step s (.now t)).alarm with
      | some _ => { step s (.now t) with alarm := none, readable := true } | none => step s (.now t)) = s2 ∧ _
    have hal : (step s (.now t)).alarm = s.alarm := rfl
    rw [hal]
    cases hs : s.alarm with
    | some x => exact ⟨_, rfl, rfl, rfl, rfl, by show s.nows ++ [t] = [t]; rw [hn]; rfl⟩
    | none =>
      rcases hac with h1 | ⟨x, h1, _⟩
      · exact ⟨_, rfl, h1, rfl, rfl, by show s.nows ++ [t] = [t]; rw [hn]; rfl⟩
      · rw [hs] at h1; cases h1
  obtain ⟨s2, h2, k1, k2, k3, k4⟩ := key
  rw [h2] at ht2 ⊢
  have hrn : (readNow s2).1 = t := by unfold readNow; rw [k4]
  have := fires_due ht2 k1 (e := e) (by rw [k2]; exact he) (by rw [hrn]; exact hle)
  rw [hrn] at this
  have hcell : cellAt s2 e.2 = cellAt s e.2 := by unfold cellAt; rw [k3]
  rw [hcell] at this
  exact this

end MuduoVerif.Timer
