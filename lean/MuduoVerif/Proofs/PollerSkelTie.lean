import MuduoVerif.Generated.PollerSkel
/-!
# T1 tie for the statement order of the dispatch engine (C09)

`Gen.PollerSkel.<fn>` is the statement skeleton `vlib/gen/pollerskel.py` extracts from /repo's current `EPollPoller.cc`,
`PollPoller.cc`, `Channel.cc` and `EventLoop.cc` on every run; `Decl.<fn>` (`Model/PollerSkelDecl.lean`) is the
skeleton the corresponding definition of `Model/Poller.lean` implements.  Each `skeleton_<fn>` is closed by `decide`:
it holds exactly as long as the source performs the same significant actions, in the same order, under the same
nesting of the same (generated) guards and loops as the model.  The guards themselves are tied by
`Generated/Poller.lean`.  `Props/C09` re-exports `skeletons_agree`, so a change of statement order in one of these
functions breaks that property module.
-/
namespace MuduoVerif.PollerSkel

-- `String` equality is evaluated character by character: the longest assertion text needs more than the default depth
set_option maxRecDepth 4096

theorem skeleton_epollPoll : Gen.PollerSkel.epollPoll = Decl.epollPoll := by decide
theorem skeleton_epollFillActiveChannels : Gen.PollerSkel.epollFillActiveChannels = Decl.epollFillActiveChannels := by decide
theorem skeleton_epollUpdateChannel : Gen.PollerSkel.epollUpdateChannel = Decl.epollUpdateChannel := by decide
theorem skeleton_epollRemoveChannel : Gen.PollerSkel.epollRemoveChannel = Decl.epollRemoveChannel := by decide
theorem skeleton_epollUpdate : Gen.PollerSkel.epollUpdate = Decl.epollUpdate := by decide
theorem skeleton_pollPoll : Gen.PollerSkel.pollPoll = Decl.pollPoll := by decide
theorem skeleton_pollFillActiveChannels : Gen.PollerSkel.pollFillActiveChannels = Decl.pollFillActiveChannels := by decide
theorem skeleton_pollUpdateChannel : Gen.PollerSkel.pollUpdateChannel = Decl.pollUpdateChannel := by decide
theorem skeleton_pollRemoveChannel : Gen.PollerSkel.pollRemoveChannel = Decl.pollRemoveChannel := by decide
theorem skeleton_channelUpdate : Gen.PollerSkel.channelUpdate = Decl.channelUpdate := by decide
theorem skeleton_channelRemove : Gen.PollerSkel.channelRemove = Decl.channelRemove := by decide
theorem skeleton_channelHandleEvent : Gen.PollerSkel.channelHandleEvent = Decl.channelHandleEvent := by decide
theorem skeleton_channelHandleEventWithGuard : Gen.PollerSkel.channelHandleEventWithGuard = Decl.channelHandleEventWithGuard := by decide
theorem skeleton_loopIteration : Gen.PollerSkel.loopIteration = Decl.loopIteration := by decide
theorem skeleton_loopUpdateChannel : Gen.PollerSkel.loopUpdateChannel = Decl.loopUpdateChannel := by decide
theorem skeleton_loopRemoveChannel : Gen.PollerSkel.loopRemoveChannel = Decl.loopRemoveChannel := by decide
theorem skeleton_loopHasChannel : Gen.PollerSkel.loopHasChannel = Decl.loopHasChannel := by decide

/-- every extracted skeleton is the declared one -/
theorem skeletons_agree :
    Gen.PollerSkel.epollPoll = Decl.epollPoll ∧
    Gen.PollerSkel.epollFillActiveChannels = Decl.epollFillActiveChannels ∧
    Gen.PollerSkel.epollUpdateChannel = Decl.epollUpdateChannel ∧
    Gen.PollerSkel.epollRemoveChannel = Decl.epollRemoveChannel ∧
    Gen.PollerSkel.epollUpdate = Decl.epollUpdate ∧
    Gen.PollerSkel.pollPoll = Decl.pollPoll ∧
    Gen.PollerSkel.pollFillActiveChannels = Decl.pollFillActiveChannels ∧
    Gen.PollerSkel.pollUpdateChannel = Decl.pollUpdateChannel ∧
    Gen.PollerSkel.pollRemoveChannel = Decl.pollRemoveChannel ∧
    Gen.PollerSkel.channelUpdate = Decl.channelUpdate ∧
    Gen.PollerSkel.channelRemove = Decl.channelRemove ∧
    Gen.PollerSkel.channelHandleEvent = Decl.channelHandleEvent ∧
    Gen.PollerSkel.channelHandleEventWithGuard = Decl.channelHandleEventWithGuard ∧
    Gen.PollerSkel.loopIteration = Decl.loopIteration ∧
    Gen.PollerSkel.loopUpdateChannel = Decl.loopUpdateChannel ∧
    Gen.PollerSkel.loopRemoveChannel = Decl.loopRemoveChannel ∧
    Gen.PollerSkel.loopHasChannel = Decl.loopHasChannel :=
  ⟨skeleton_epollPoll, skeleton_epollFillActiveChannels, skeleton_epollUpdateChannel, skeleton_epollRemoveChannel,
   skeleton_epollUpdate, skeleton_pollPoll, skeleton_pollFillActiveChannels, skeleton_pollUpdateChannel,
   skeleton_pollRemoveChannel, skeleton_channelUpdate, skeleton_channelRemove, skeleton_channelHandleEvent,
   skeleton_channelHandleEventWithGuard, skeleton_loopIteration, skeleton_loopUpdateChannel,
   skeleton_loopRemoveChannel, skeleton_loopHasChannel⟩

end MuduoVerif.PollerSkel
