import MuduoVerif.Proofs.PollerSim
/-!
# One iteration: the callbacks it runs are those of channels in the active list, with the `revents`
the poller stored for them — nothing executed during the dispatch changes `revents_`
-/
namespace MuduoVerif.Poller
open MuduoVerif.Gen.Poller

/-- every callback event in `l` is for a channel of `act`, with the `revents` given by `R` -/
def CbIn (act : List Nat) (R : Nat → Nat) (l : List Ev) : Prop :=
  ∀ c k rev ev, Ev.cb c k rev ev ∈ l → c ∈ act ∧ rev = R c

/-- during the dispatch: `eventHandling_` is set, `revents_` are what the poller stored -/
def DispInv (R : Nat → Nat) (s : State) : Prop :=
  s.handling = true ∧ ∀ x, (s.chans x).revents = R x

theorem cbIn_nocb {act R l} (h : ∀ e ∈ l, e.isCb = false) : CbIn act R l := by
  intro c k rev ev hm
  have := h _ hm
  simp [Ev.isCb] at this

theorem CbIn.append {act R l1 l2} (h1 : CbIn act R l1) (h2 : CbIn act R l2) : CbIn act R (l1 ++ l2) := by
  intro c k rev ev hm
  rcases List.mem_append.1 hm with h | h
  · exact h1 c k rev ev h
  · exact h2 c k rev ev h

theorem CbIn.mono {act act' R l} (h : CbIn act R l) (hsub : ∀ c ∈ act, c ∈ act') : CbIn act' R l :=
  fun c k rev ev hm => ⟨hsub c (h c k rev ev hm).1, (h c k rev ev hm).2⟩

theorem applyOp_out_nocb (s : State) (c : Nat) (k : OpKind) :
    ∃ l, (applyOp s c k).out = s.out ++ l ∧ ∀ e ∈ l, e.isCb = false := by
  rcases applyOp_cases s c k with ⟨_, h1⟩ | ⟨_, _, h1⟩ | ⟨_, _, h1⟩
  · exact ⟨[], by rw [h1]; simp, by simp⟩
  · exact ⟨[.reject c k], by rw [h1]; rfl, by simp [Ev.isCb]⟩
  · obtain ⟨l, hlb, halive, hdead⟩ := h1.out
    cases hd : (applyOp s c k).dead with
    | true => exact ⟨l, hdead hd, fun e he => isBack_notCb (hlb e he)⟩
    | false =>
      refine ⟨l ++ [.op c k ((applyOp s c k).chans c).events ((applyOp s c k).chans c).index],
        by rw [(halive hd).2, List.append_assoc], ?_⟩
      intro e he
      rcases List.mem_append.1 he with h2 | h2
      · exact isBack_notCb (hlb e h2)
      · simp at h2; subst h2; rfl

theorem dispInv_applyOp {R : Nat → Nat} {s : State} (h : DispInv R s) (c : Nat) (k : OpKind) :
    DispInv R (applyOp s c k) := by
  rcases applyOp_cases s c k with ⟨_, h1⟩ | ⟨_, _, h1⟩ | ⟨_, hacc, h1⟩
  · rw [h1]; exact h
  · rw [h1]; exact h
  · refine ⟨h1.handling.trans h.1, fun x => ?_⟩
    rw [h1.rev x]
    by_cases hx : x = c
    · subst hx
      simp only [if_true]
      cases k with
      | recreate =>
        have hr : recreateOk s x := hacc
        unfold recreateOk at hr
        rw [h.1] at hr; exact absurd hr.2 (by simp)
      | _ => exact h.2 x
    · simp only [hx, if_false]; exact h.2 x

theorem disp_foldl_ops {R : Nat → Nat} (act : List Nat) (hs : List Hook) : ∀ (s : State), DispInv R s →
    DispInv R (hs.foldl (fun s h => applyOp s h.c h.op) s) ∧
    ∃ l, (hs.foldl (fun s h => applyOp s h.c h.op) s).out = s.out ++ l ∧ CbIn act R l := by
  induction hs with
  | nil => intro s h; exact ⟨h, [], by simp, cbIn_nocb (by simp)⟩
  | cons x rest ih =>
    intro s h
    simp only [List.foldl_cons]
    obtain ⟨h1, l1, e1, c1⟩ := ih _ (dispInv_applyOp h x.c x.op)
    obtain ⟨l0, e0, c0⟩ := applyOp_out_nocb s x.c x.op
    exact ⟨h1, l0 ++ l1, by rw [e1, e0, List.append_assoc], (cbIn_nocb c0).append c1⟩

theorem disp_stage {R : Nat → Nat} (k : Kind) {s : State} (h : DispInv R s) (c : Nat) :
    DispInv R (stage k s c) ∧ ∃ l, (stage k s c).out = s.out ++ l ∧ CbIn [c] R l := by
  unfold stage
  split
  · exact ⟨h, [], by simp, cbIn_nocb (by simp)⟩
  · split
    · unfold fire runHooks
      have h0 : DispInv R { emit s (.cb c k (s.chans c).revents (s.chans c).events) with
          hooks := (emit s (.cb c k (s.chans c).revents (s.chans c).events)).hooks.filter
            (fun h => !h.isFor c k) } := h
      obtain ⟨h1, l1, e1, c1⟩ := disp_foldl_ops [c]
        ((emit s (.cb c k (s.chans c).revents (s.chans c).events)).hooks.filter (·.isFor c k)) _ h0
      refine ⟨h1, [.cb c k (s.chans c).revents (s.chans c).events] ++ l1, ?_, ?_⟩
      · rw [e1]; simp [emit]
      · refine CbIn.append ?_ c1
        intro c' k' rev ev hm
        simp only [List.mem_singleton, Ev.cb.injEq] at hm
        obtain ⟨rfl, _, rfl, _⟩ := hm
        exact ⟨by simp, h.2 c'⟩
    · exact ⟨h, [], by simp, cbIn_nocb (by simp)⟩

theorem disp_handleEvent {R : Nat → Nat} {s : State} (h : DispInv R s) (c : Nat) :
    DispInv R (handleEvent s c) ∧ ∃ l, (handleEvent s c).out = s.out ++ l ∧ CbIn [c] R l := by
  unfold handleEvent
  obtain ⟨h1, l1, e1, c1⟩ := disp_stage .close h c
  obtain ⟨h2, l2, e2, c2⟩ := disp_stage .error h1 c
  obtain ⟨h3, l3, e3, c3⟩ := disp_stage .read h2 c
  obtain ⟨h4, l4, e4, c4⟩ := disp_stage .write h3 c
  exact ⟨h4, l1 ++ l2 ++ l3 ++ l4, by rw [e4, e3, e2, e1]; simp [List.append_assoc],
    ((c1.append c2).append c3).append c4⟩

theorem disp_dispatch {R : Nat → Nat} (act : List Nat) : ∀ (s : State), DispInv R s →
    ∃ l, (dispatch s act).out = s.out ++ l ∧ CbIn act R l := by
  induction act with
  | nil => intro s _; exact ⟨[], by simp [dispatch], cbIn_nocb (by simp)⟩
  | cons c rest ih =>
    intro s h
    unfold dispatch
    simp only [List.foldl_cons]
    have h0 : DispInv R { s with cur := some c } := h
    obtain ⟨h1, l1, e1, c1⟩ := disp_handleEvent h0 c
    obtain ⟨l2, e2, c2⟩ := ih _ h1
    unfold dispatch at e2
    refine ⟨l1 ++ l2, by rw [e2, e1, List.append_assoc], ?_⟩
    exact (c1.mono (fun x hx => by simp at hx; simp [hx])).append (c2.mono (fun x hx => by simp [hx]))

/-- **one iteration**: after `Poller::poll` returned the active list, the loop runs callbacks only on
channels of that list, each with the `revents` the poller stored for it -/
theorem iter_reported (s : State) (hd : s.dead = false) (ready) (nret) :
    ∃ l, (iter s ready nret).out = (pollerPoll s ready nret).1.out ++ l ∧
      CbIn (pollerPoll s ready nret).2 (fun c => ((pollerPoll s ready nret).1.chans c).revents) l := by
  rw [iter_eq, if_neg (by simp [hd])]
  split
  · exact ⟨[], by simp, cbIn_nocb (by simp)⟩
  · exact disp_dispatch (R := fun c => ((pollerPoll s ready nret).1.chans c).revents)
      (pollerPoll s ready nret).2 _ ⟨rfl, fun _ => rfl⟩


/-! ### what the poller stored is what the kernel reported -/

/-- under either back-end an active channel's `revents_` is the kernel's answer for it -/
theorem poll_reported {s : State} (hbe : s.be = .poll) (hs : PollStruct s) (ready) (nret) (c : Nat)
    (hc : c ∈ (pollerPoll s ready nret).2) :
    ((pollerPoll s ready nret).1.chans c).revents = lookupRev ready c := by
  rw [pollerPoll_poll_spec hbe hs ready nret c, if_pos hc]

theorem epoll_reported {s : State} (hbe : s.be = .epoll) (hs : EpStruct s) (ready) (nret)
    (henv : epEnvOk s (.iter ready nret)) (hnd : (ready.map (·.1)).Nodup) (c : Nat)
    (hc : c ∈ (pollerPoll s ready nret).2) :
    ((pollerPoll s ready nret).1.chans c).revents = lookupRev ready c ∧ c ∈ ready.map (·.1) := by
  obtain ⟨e1, e2⟩ := pollerPoll_epoll_spec hbe hs ready nret henv hnd
  rw [e1] at hc
  rw [e2 c, if_pos hc]
  exact ⟨rfl, hc⟩

/-! ### trace statements in `pre ++ e :: post` form -/

theorem TraceInv.cb_split {s : State} (h : TraceInv s) {pre post : List Ev} {c k rev ev}
    (ho : s.out = pre ++ .cb c k rev ev :: post) :
    disp k rev ∧ subscribed k ev ∧ ev = histEvents c pre ∧ histAdded c pre = true := by
  have hi : s.out[pre.length]? = some (.cb c k rev ev) := by rw [ho]; simp
  have := h.cb pre.length c k rev ev hi
  rw [ho, List.take_left'] at this
  · exact this
  · rfl

theorem foldl_histStepAdded_false (c : Nat) (mid : List Ev)
    (h : ∀ e ∈ mid, ∀ k' e' i', e = .op c k' e' i' → k'.isUpdate = false) :
    mid.foldl (histStepAdded c) false = false := by
  induction mid with
  | nil => rfl
  | cons e rest ih =>
    rw [List.foldl_cons]
    have he := h e (by simp)
    have : histStepAdded c false e = false := by
      cases e with
      | op c' k' e' i' =>
        simp only [histStepAdded]
        split
        · rename_i hc; subst hc
          have := he k' e' i' rfl
          cases k' <;> simp_all [OpKind.isUpdate, opAdded]
        · rfl
      | _ => rfl
    rw [this]
    exact ih (fun x hx => h x (by simp [hx]))

/-- after `remove(c)` no callback of `c` runs until an `enable*/disable*` registers it again -/
theorem TraceInv.removed_never_called {s : State} (h : TraceInv s) {pre mid post : List Ev} {c e0 i0 k rev ev}
    (ho : s.out = pre ++ .op c .remove e0 i0 :: (mid ++ .cb c k rev ev :: post)) :
    ∃ k' e' i', Ev.op c k' e' i' ∈ mid ∧ k'.isUpdate = true := by
  have ho' : s.out = (pre ++ .op c .remove e0 i0 :: mid) ++ .cb c k rev ev :: post := by
    rw [ho]; simp
  have h1 := (h.cb_split ho').2.2.2
  unfold histAdded at h1
  rw [List.foldl_append, List.foldl_cons] at h1
  have h2 : histStepAdded c (List.foldl (histStepAdded c) (initAdded c) pre) (.op c .remove e0 i0) = false := by
    simp [histStepAdded, opAdded]
  rw [h2] at h1
  apply Classical.byContradiction
  intro hn
  have := foldl_histStepAdded_false c mid (by
    intro e he k' e' i' heq
    cases hk : k'.isUpdate with
    | false => rfl
    | true => exact absurd ⟨k', e', i', heq ▸ he, hk⟩ hn)
  rw [this] at h1
  exact absurd h1 (by simp)

/-! ### idle -/

/-- every `poll`/`epoll_wait` is called with the loop's constant time-out -/
def WaitInv (s : State) : Prop := ∀ sz t, Ev.wait sz t ∈ s.out → t = kPollTimeMs

theorem waitInv_run (be : Backend) (ins : List In) : WaitInv (run (init be) ins) := by
  refine ReachF.preserves (P := WaitInv) ?_ ?_ ?_ (reach_run ins _) (by intro sz t h; rw [init_out] at h; simp at h)
  · intro s c k h sz t hm
    rcases applyOp_cases s c k with ⟨_, h1⟩ | ⟨_, _, h1⟩ | ⟨_, _, h1⟩
    · rw [h1] at hm; exact h sz t hm
    · rw [h1] at hm
      simp only [emit] at hm
      rcases List.mem_append.1 hm with h2 | h2
      · exact h sz t h2
      · simp at h2
    · obtain ⟨l, hlb, halive, hdead⟩ := h1.out
      cases hd : (applyOp s c k).dead with
      | true =>
        rw [hdead hd] at hm
        rcases List.mem_append.1 hm with h2 | h2
        · exact h sz t h2
        · have := hlb _ h2; simp [Ev.isBack] at this
      | false =>
        rw [(halive hd).2] at hm
        rcases List.mem_append.1 hm with h2 | h2
        · rcases List.mem_append.1 h2 with h2 | h2
          · exact h sz t h2
          · have := hlb _ h2; simp [Ev.isBack] at this
        · simp at h2
  · intro s t' f h sz t hm
    obtain ⟨l, hl, hp, _⟩ := f.out
    rw [hl] at hm
    rcases List.mem_append.1 hm with h2 | h2
    · exact h sz t h2
    · exact hp _ h2
  · intro s t' q h sz t hm
    obtain ⟨c, k, _, _, _, rfl⟩ := q
    simp only [emit] at hm
    rcases List.mem_append.1 hm with h2 | h2
    · exact h sz t h2
    · simp at h2

/-- an iteration in which the kernel reports nothing: one `poll` with the full time-out, the iteration
counter advances, no callback runs, nothing else changes -/
theorem iter_idle (s : State) (hd : s.dead = false) :
    ∃ sz, iter s [] 0 = { s with
      out := s.out ++ [.wait sz kPollTimeMs]
      iteration := s.iteration + 1
      active := []
      handling := false
      cur := none } := by
  rw [iter_eq, if_neg (by simp [hd])]
  cases hbe : s.be with
  | poll =>
    refine ⟨s.pollfds.length, ?_⟩
    simp [pollerPoll, hbe, emit, hd, dispatch]
  | epoll =>
    refine ⟨s.evsize, ?_⟩
    simp [pollerPoll, hbe, emit, hd, dispatch, epHasEvents]


/-! ### for the examples -/

instance (s : State) (fd : Int) (mask : Nat) : Decidable (watched s fd mask) := by
  unfold watched; split <;> infer_instance

/-- a history with two user channels, an operation inside a callback that disables the *next* channel
of the same batch (the F6 situation), a removal and a re-registration -/
def sampleHistory : List In :=
  [.op 2 .enableR, .op 3 .enableR, .op 3 .enableW, .hook ⟨2, .read, 3, .disableAll⟩,
   .iter [(2, 1), (3, 5)] 2, .op 3 .remove, .iter [(2, 1)] 1, .op 3 .enableW, .iter [(2, 17), (3, 4)] 2]

end MuduoVerif.Poller
