import MuduoVerif.Model.Conn
/-!
C13: when exactly the write-complete and the high-water-mark callbacks are scheduled, and that
they run only out of the loop's functor queue.
-/
namespace MuduoVerif.Conn
open MuduoVerif.Gen.Conn

/-! ### (a) the generated guards say what the model assumes they say -/

theorem hwmCross_iff (old rem mark : Nat) (has : Bool) :
    hwmCross old rem mark has ↔ (has = true ∧ old < mark ∧ mark ≤ old + rem) := by
  unfold hwmCross; constructor
  · rintro ⟨⟨h1, h2⟩, h3⟩; exact ⟨h3, h2, h1⟩
  · rintro ⟨h3, h2, h1⟩; exact ⟨⟨h1, h2⟩, h3⟩

theorem sendWholeWC_iff (rem : Nat) (has : Bool) : sendWholeWC rem has ↔ (rem = 0 ∧ has = true) := by
  unfold sendWholeWC; exact Iff.rfl

theorem drained_iff (n : Nat) : drained n ↔ n = 0 := by unfold drained; exact Iff.rfl

theorem queueRest_iff (f : Bool) (r : Nat) : queueRest f r ↔ (f = false ∧ 0 < r) := by
  unfold queueRest; cases f <;> simp

theorem directWrite_iff (w : Bool) (n : Nat) : directWrite w n ↔ (w = false ∧ n = 0) := by
  unfold directWrite; cases w <;> simp

theorem drainWC_iff (has : Bool) : drainWC has ↔ has = true := by unfold drainWC; exact Iff.rfl

theorem handleWriteActs_iff (w : Bool) : handleWriteActs w ↔ w = true := by
  unfold handleWriteActs; exact Iff.rfl

theorem writeErrFatal_iff (e : Nat) : writeErrFatal e ↔ (e = 32 ∨ e = 104) := by
  unfold writeErrFatal; exact Iff.rfl

theorem writeErrLogged_iff (e : Nat) : writeErrLogged e ↔ e ≠ 11 := by unfold writeErrLogged; exact Iff.rfl

theorem sendGivesUp_iff (st : StateE) : sendGivesUp st ↔ st = .kDisconnected := by
  unfold sendGivesUp; exact Iff.rfl

theorem sendEnablesWriting_iff (w : Bool) : sendEnablesWriting w ↔ w = false := by
  unfold sendEnablesWriting; cases w <;> simp

theorem drainShutdown_iff (st : StateE) : drainShutdown st ↔ st = .kDisconnecting := by
  unfold drainShutdown; exact Iff.rfl

/-- the deferred half-close of the drain path is queued, never run inline -/
theorem drainShutdownDispatch_queue : drainShutdownDispatch = .queue := rfl

/-! ### (b) `sendInLoop` -/

/-- the direct `write` took the whole block of `len` bytes -/
def tookWhole : WriteRes → Nat → Bool
  | .took n, len => decide (len ≤ n)
  | .err _, _ => false

theorem tookWhole_iff (r : WriteRes) (len : Nat) : tookWhole r len = true ↔ ∃ n, r = .took n ∧ len ≤ n := by
  cases r <;> simp [tookWhole]

/-- EPIPE / ECONNRESET from the direct write -/
def fatalErr (e : Nat) : Prop := e = 32 ∨ e = 104
instance (e : Nat) : Decidable (fatalErr e) := by unfold fatalErr; infer_instance

theorem fault_iff (e : Nat) : (decide (writeErrLogged e) && decide (writeErrFatal e)) = true ↔ fatalErr e := by
  rw [Bool.and_eq_true]
  constructor
  · intro h; exact of_decide_eq_true h.2
  · intro h
    refine ⟨decide_eq_true ?_, decide_eq_true h⟩
    unfold writeErrLogged; unfold fatalErr at h; omega

theorem setEvents_pending (c : Conn) (r w : Bool) : (setEvents c r w).pending = c.pending := rfl
theorem setEvents_outBuf (c : Conn) (r w : Bool) : (setEvents c r w).outBuf = c.outBuf := rfl
theorem emit_pending (c : Conn) (e : Ev) : (emit c e).pending = c.pending := rfl
theorem popWrite_pending (c : Conn) : (popWrite c).pending = c.pending := by unfold popWrite; split <;> rfl
theorem popRead_pending (c : Conn) : (popRead c).pending = c.pending := by unfold popRead; split <;> rfl
theorem deliver_pending (c : Conn) (n : Nat) : (deliver c n).pending = c.pending := rfl
theorem consume_pending (c : Conn) : (consume c).pending = c.pending := rfl
theorem shutdownInLoop_pending (c : Conn) : (shutdownInLoop c).pending = c.pending := by
  unfold shutdownInLoop; split <;> rfl
theorem startReadInLoop_pending (c : Conn) : (startReadInLoop c).pending = c.pending := by
  unfold startReadInLoop; split <;> rfl
theorem stopReadInLoop_pending (c : Conn) : (stopReadInLoop c).pending = c.pending := by
  unfold stopReadInLoop; split <;> rfl
theorem removeChannel_pending (c : Conn) : (removeChannel c).pending = c.pending := by
  unfold removeChannel; split <;> rfl

/-- what "queue what was not written" schedules and what it leaves in the output buffer -/
theorem queueRemainder_sched (c : Conn) (data : Bytes) (n : Nat) (fault : Bool) :
    (queueRemainder c data n fault).pending = c.pending
      ++ (if fault = false ∧ 0 < data.length - n ∧ c.hasHWM = true ∧ c.outBuf.length < c.mark
            ∧ c.mark ≤ c.outBuf.length + (data.length - n)
          then [Task.highWater (bindCb hwmBind c.hwmId) (c.outBuf.length + (data.length - n))] else [])
    ∧ (queueRemainder c data n fault).outBuf
        = (if fault = false ∧ 0 < data.length - n then c.outBuf ++ data.drop n else c.outBuf) := by
  unfold queueRemainder
  by_cases hq : queueRest fault (data.length - n)
  · have hq' := (queueRest_iff _ _).mp hq
    rw [if_pos hq, if_pos hq']
    by_cases hx : hwmCross c.outBuf.length (data.length - n) c.mark c.hasHWM
    · have hx' := (hwmCross_iff _ _ _ _).mp hx
      have hb : fault = false ∧ 0 < data.length - n ∧ c.hasHWM = true ∧ c.outBuf.length < c.mark
            ∧ c.mark ≤ c.outBuf.length + (data.length - n) := ⟨hq'.1, hq'.2, hx'⟩
      rw [if_pos hx, if_pos hb]
      simp only []
      constructor
      · split <;> rfl
      · split <;> rfl
    · have hx' : ¬ (fault = false ∧ 0 < data.length - n ∧ c.hasHWM = true ∧ c.outBuf.length < c.mark
            ∧ c.mark ≤ c.outBuf.length + (data.length - n)) :=
        fun h => hx ((hwmCross_iff _ _ _ _).mpr h.2.2)
      rw [if_neg hx, if_neg hx']
      simp only []
      constructor
      · split <;> simp [enableWriting, setEvents]
      · split <;> rfl
  · have hq' : ¬ (fault = false ∧ 0 < data.length - n) := fun h => hq ((queueRest_iff _ _).mpr h)
    have hq'' : ¬ (fault = false ∧ 0 < data.length - n ∧ c.hasHWM = true ∧ c.outBuf.length < c.mark
            ∧ c.mark ≤ c.outBuf.length + (data.length - n)) := fun h => hq' ⟨h.1, h.2.1⟩
    rw [if_neg hq, if_neg hq', if_neg hq'']
    constructor
    · split <;> simp
    · split <;> rfl


/-- the high-water functor queued when a backlog of `old` bytes grows by `rem` bytes -/
def hwmSched (has : Bool) (cb : Bound) (old mark rem : Nat) : List Task :=
  if 0 < rem ∧ has = true ∧ old < mark ∧ mark ≤ old + rem then [Task.highWater cb (old + rem)] else []

/-- bytes that `queueRemainder` appends to the backlog -/
def remOf (data : Bytes) (n : Nat) (fault : Bool) : Nat := if fault then 0 else data.length - n

theorem queueRemainder_aux (c : Conn) (data : Bytes) (n : Nat) (fault : Bool) :
    (queueRemainder c data n fault).outBuf.length = c.outBuf.length + remOf data n fault ∧
    (queueRemainder c data n fault).pending
      = c.pending ++ hwmSched c.hasHWM (bindCb hwmBind c.hwmId) c.outBuf.length c.mark (remOf data n fault) := by
  obtain ⟨h1, h2⟩ := queueRemainder_sched c data n fault
  rw [h1, h2]
  cases fault with
  | true => simp [remOf, hwmSched]
  | false =>
    by_cases hr : 0 < data.length - n
    · simp [remOf, hwmSched, hr]
    · have : data.length - n = 0 := by omega
      simp [remOf, hwmSched, this]

theorem accept_popWrite_fields (c : Conn) (data : Bytes) (q : Bool) (e : Ev) :
    let c0 := emit (popWrite (accept c data q)) e
    c0.outBuf = c.outBuf ∧ c0.pending = c.pending ∧ c0.hasWC = c.hasWC ∧ c0.hasHWM = c.hasHWM ∧ c0.mark = c.mark
      ∧ c0.wcId = c.wcId ∧ c0.hwmId = c.hwmId := by
  simp only [emit]; unfold popWrite accept; split <;> exact ⟨rfl, rfl, rfl, rfl, rfl, rfl, rfl⟩

theorem sendInLoop_sched_aux (c : Conn) (data : Bytes) (q : Bool) :
    ∃ rem, (sendInLoop c data q).outBuf.length = c.outBuf.length + rem ∧
      (sendInLoop c data q).pending = c.pending
        ++ (if c.hasWC = true ∧ c.st ≠ .kDisconnected ∧ c.ch.evWrite = false ∧ c.outBuf = []
              ∧ tookWhole (peekWrite c) data.length = true then [Task.writeComplete (bindCb wcBindSend c.wcId)] else [])
        ++ hwmSched c.hasHWM (bindCb hwmBind c.hwmId) c.outBuf.length c.mark rem := by
  unfold sendInLoop
  by_cases hg : sendGivesUp c.st
  · rw [if_pos hg]
    have hg' : c.st = .kDisconnected := hg
    exact ⟨0, rfl, by simp [emit, hg', hwmSched]⟩
  · rw [if_neg hg]
    have hg' : c.st ≠ .kDisconnected := hg
    by_cases hd : directWrite c.ch.evWrite c.outBuf.length
    · rw [if_pos hd]
      obtain ⟨hw, hl⟩ := (directWrite_iff _ _).mp hd
      have ho : c.outBuf = [] := List.eq_nil_of_length_eq_zero hl
      obtain ⟨f1, f2, f3, f4, f5, f6, f7⟩ := accept_popWrite_fields c data q (.sysWrite data.length (peekWrite c))
      generalize emit (popWrite (accept c data q)) (.sysWrite data.length (peekWrite c)) = c0 at f1 f2 f3 f4 f5 f6 f7 ⊢
      cases hr : peekWrite c with
      | took n =>
        simp only [sendDirect]
        by_cases hs : sendWholeWC (data.length - n) ({ c0 with wrote := c0.wrote ++ data.take n } : Conn).hasWC
        · rw [if_pos hs]
          obtain ⟨s1, s2⟩ := (sendWholeWC_iff _ _).mp hs
          have s2' : c.hasWC = true := by rw [← f3]; exact s2
          obtain ⟨a1, a2⟩ := queueRemainder_aux (enqueue { c0 with wrote := c0.wrote ++ data.take n } (.writeComplete (bindCb wcBindSend c0.wcId))) data n false
          refine ⟨remOf data n false, ?_, ?_⟩
          · rw [a1]; simp only [enqueue]; rw [f1]
          · rw [a2]; simp only [enqueue]; rw [f1, f2, f4, f5, f6, f7]
            have : tookWhole (WriteRes.took n) data.length = true := by
              simp only [tookWhole, decide_eq_true_eq]
              have s1' : data.length - n = 0 := s1
              clear a1 a2; omega
            simp [s2', hg', hw, ho, this]
        · rw [if_neg hs]
          have hs' : ¬ (data.length - n = 0 ∧ c.hasWC = true) := by
            rw [← f3]; exact fun h => hs ((sendWholeWC_iff _ _).mpr h)
          obtain ⟨a1, a2⟩ := queueRemainder_aux ({ c0 with wrote := c0.wrote ++ data.take n } : Conn) data n false
          refine ⟨remOf data n false, ?_, ?_⟩
          · rw [a1]; simp only []; rw [f1]
          · rw [a2]; simp only []; rw [f1, f2, f4, f5, f7]
            have : ¬ (c.hasWC = true ∧ tookWhole (WriteRes.took n) data.length = true) := by
              simp only [tookWhole, decide_eq_true_eq]
              intro h; exact hs' ⟨by have := h.2; omega, h.1⟩
            rw [if_neg (fun h => this ⟨h.1, h.2.2.2.2⟩)]; simp
      | err e =>
        simp only [sendDirect]
        obtain ⟨a1, a2⟩ := queueRemainder_aux c0 data 0 (decide (writeErrLogged e) && decide (writeErrFatal e))
        refine ⟨remOf data 0 (decide (writeErrLogged e) && decide (writeErrFatal e)), ?_, ?_⟩
        · rw [a1, f1]
        · rw [a2, f1, f2, f4, f5, f7]; simp [tookWhole]
    · rw [if_neg hd]
      have hd' : ¬ (c.ch.evWrite = false ∧ c.outBuf = []) := by
        intro h; exact hd ((directWrite_iff _ _).mpr ⟨h.1, by simp [h.2]⟩)
      obtain ⟨a1, a2⟩ := queueRemainder_aux (accept c data q) data 0 false
      refine ⟨remOf data 0 false, ?_, ?_⟩
      · rw [a1]; rfl
      · rw [a2]; simp only [accept]
        rw [if_neg (fun h => hd' ⟨h.2.2.1, h.2.2.2.1⟩)]; simp

/-- a write-complete callback is scheduled iff the callback is set and the direct write took
the whole block; a high-water callback is scheduled iff the callback is set and THIS send
raised the backlog from below the mark to at least the mark; its argument is the new backlog -/
theorem sendInLoop_sched (c : Conn) (data : Bytes) (q : Bool) :
    let c' := sendInLoop c data q
    c'.pending = c.pending
      ++ (if c.hasWC = true ∧ c.st ≠ .kDisconnected ∧ c.ch.evWrite = false ∧ c.outBuf = []
            ∧ tookWhole (peekWrite c) data.length = true then [Task.writeComplete (bindCb wcBindSend c.wcId)] else [])
      ++ (if c.hasHWM = true ∧ c.outBuf.length < c.mark ∧ c.mark ≤ c'.outBuf.length
            ∧ c.outBuf.length < c'.outBuf.length then [Task.highWater (bindCb hwmBind c.hwmId) c'.outBuf.length] else []) := by
  intro c'
  obtain ⟨rem, h1, h2⟩ := sendInLoop_sched_aux c data q
  show (sendInLoop c data q).pending = _
  rw [h2]
  congr 1
  show _ = (if c.hasHWM = true ∧ c.outBuf.length < c.mark ∧ c.mark ≤ (sendInLoop c data q).outBuf.length
            ∧ c.outBuf.length < (sendInLoop c data q).outBuf.length then [Task.highWater (bindCb hwmBind c.hwmId) (sendInLoop c data q).outBuf.length] else [])
  rw [h1]; unfold hwmSched
  by_cases hc : 0 < rem ∧ c.hasHWM = true ∧ c.outBuf.length < c.mark ∧ c.mark ≤ c.outBuf.length + rem
  · rw [if_pos hc, if_pos ⟨hc.2.1, hc.2.2.1, hc.2.2.2, by omega⟩]
  · rw [if_neg hc, if_neg (fun h => hc ⟨by omega, h.1, h.2.1, h.2.2.1⟩)]

/-- the backlog after `sendInLoop`: what the kernel did not take is appended; nothing is appended
when the connection is already down or the direct write failed with EPIPE/ECONNRESET -/
theorem sendInLoop_backlog (c : Conn) (data : Bytes) (q : Bool) :
    (sendInLoop c data q).outBuf =
      if c.st = .kDisconnected then c.outBuf
      else if c.ch.evWrite = false ∧ c.outBuf = [] then
        match peekWrite c with
        | .took k => c.outBuf ++ data.drop k
        | .err e => if fatalErr e then c.outBuf else c.outBuf ++ data
      else c.outBuf ++ data := by
  have qr : ∀ (c1 : Conn) (n : Nat) (fault : Bool), (queueRemainder c1 data n fault).outBuf
      = if fault = true then c1.outBuf else c1.outBuf ++ data.drop n := by
    intro c1 n fault
    rw [(queueRemainder_sched c1 data n fault).2]
    cases fault with
    | true => simp
    | false =>
      by_cases hr : 0 < data.length - n
      · simp [hr]
      · have : data.drop n = [] := List.drop_eq_nil_of_le (by omega)
        simp [hr, this]
  unfold sendInLoop
  by_cases hg : sendGivesUp c.st
  · have hg' : c.st = .kDisconnected := hg
    rw [if_pos hg, if_pos hg']; rfl
  · have hg' : ¬ c.st = .kDisconnected := hg
    rw [if_neg hg, if_neg hg']
    by_cases hd : directWrite c.ch.evWrite c.outBuf.length
    · obtain ⟨hw, hl⟩ := (directWrite_iff _ _).mp hd
      have ho : c.outBuf = [] := List.eq_nil_of_length_eq_zero hl
      rw [if_pos hd, if_pos ⟨hw, ho⟩]
      obtain ⟨f1, -, -, -, -, -, -⟩ := accept_popWrite_fields c data q (.sysWrite data.length (peekWrite c))
      generalize emit (popWrite (accept c data q)) (.sysWrite data.length (peekWrite c)) = c0 at f1 ⊢
      cases peekWrite c with
      | took n =>
        simp only [sendDirect]
        split
        · rw [qr]; simp only [enqueue]; rw [f1]; simp
        · rw [qr]; simp only []; rw [f1]; simp
      | err e =>
        simp only [sendDirect]
        rw [qr, f1]
        by_cases hf : fatalErr e
        · rw [if_pos ((fault_iff e).mpr hf), if_pos hf]
        · rw [if_neg (fun h => hf ((fault_iff e).mp h)), if_neg hf]; simp
    · have hd' : ¬ (c.ch.evWrite = false ∧ c.outBuf = []) := by
        intro h; exact hd ((directWrite_iff _ _).mpr ⟨h.1, by simp [h.2]⟩)
      rw [if_neg hd, if_neg hd', qr]; simp [accept]

/-! ### (c) `handleWrite` -/

/-- `handleWrite` runs, and the kernel takes the whole backlog -/
def drainsNow (c : Conn) : Bool :=
  c.ch.evWrite && (match peekWrite c with
    | .took (n+1) => decide (c.outBuf.length ≤ n+1)
    | _ => false)

theorem drainsNow_iff (c : Conn) :
    drainsNow c = true ↔ c.ch.evWrite = true ∧ ∃ n, peekWrite c = .took (n+1) ∧ c.outBuf.length ≤ n+1 := by
  unfold drainsNow
  cases peekWrite c with
  | took n => cases n <;> simp
  | err e => simp

theorem afterDrain_sched (c : Conn) :
    (afterDrain c).pending = c.pending
      ++ (if c.hasWC = true then [Task.writeComplete (bindCb wcBindDrain c.wcId)] else [])
      ++ (if c.st = .kDisconnecting then [Task.drainShutdownInLoop] else []) := by
  unfold afterDrain
  simp only []
  by_cases h1 : drainWC (disableWriting c).hasWC
  · have h1' : c.hasWC = true := h1
    rw [if_pos h1, if_pos h1']
    by_cases h2 : drainShutdown (enqueue (disableWriting c) (.writeComplete (bindCb wcBindDrain c.wcId))).st
    · have h2' : c.st = .kDisconnecting := h2
      rw [if_pos h2, if_pos h2']; simp [handOff, drainShutdownDispatch, enqueue, disableWriting, setEvents]
    · have h2' : ¬ c.st = .kDisconnecting := h2
      rw [if_neg h2, if_neg h2']; simp [enqueue, disableWriting, setEvents]
  · have h1' : ¬ c.hasWC = true := h1
    rw [if_neg h1, if_neg h1']
    by_cases h2 : drainShutdown (disableWriting c).st
    · have h2' : c.st = .kDisconnecting := h2
      rw [if_pos h2, if_pos h2']; simp [handOff, drainShutdownDispatch, enqueue, disableWriting, setEvents]
    · have h2' : ¬ c.st = .kDisconnecting := h2
      rw [if_neg h2, if_neg h2']; simp [disableWriting, setEvents]

theorem afterDrain_outBuf (c : Conn) : (afterDrain c).outBuf = c.outBuf := by
  unfold afterDrain handOff shutdownInLoop; simp only []; (repeat' split) <;> rfl

theorem popWrite_emit_fields (c : Conn) (e : Ev) :
    let c0 := emit (popWrite c) e
    c0.outBuf = c.outBuf ∧ c0.pending = c.pending ∧ c0.hasWC = c.hasWC ∧ c0.st = c.st ∧ c0.wcId = c.wcId := by
  simp only [emit]; unfold popWrite; split <;> exact ⟨rfl, rfl, rfl, rfl, rfl⟩

/-- the backlog after `handleWrite` -/
theorem handleWrite_outBuf (c : Conn) :
    (handleWrite c).outBuf =
      if c.ch.evWrite = true then
        match peekWrite c with
        | .took (n+1) => c.outBuf.drop (n+1)
        | _ => c.outBuf
      else c.outBuf := by
  unfold handleWrite
  by_cases hw : handleWriteActs c.ch.evWrite
  · have hw' : c.ch.evWrite = true := hw
    rw [if_pos hw, if_pos hw']
    obtain ⟨f1, -, -, -, -⟩ := popWrite_emit_fields c (.sysWrite c.outBuf.length (peekWrite c))
    generalize emit (popWrite c) (.sysWrite c.outBuf.length (peekWrite c)) = c0 at f1 ⊢
    cases peekWrite c with
    | took n =>
      cases n with
      | zero => exact f1
      | succ n =>
        simp only [handleWriteRes]
        split
        · rw [afterDrain_outBuf, f1]
        · rw [f1]
    | err e => exact f1
  · have hw' : ¬ c.ch.evWrite = true := hw
    rw [if_neg hw, if_neg hw']

/-- a write-complete callback is scheduled by `handleWrite` iff the callback is set and this call
drained the backlog; the deferred half-close iff it drained and `shutdown()` was called before -/
theorem handleWrite_sched (c : Conn) :
    (handleWrite c).pending = c.pending
      ++ (if c.hasWC = true ∧ drainsNow c = true then [Task.writeComplete (bindCb wcBindDrain c.wcId)] else [])
      ++ (if drainsNow c = true ∧ c.st = .kDisconnecting then [Task.drainShutdownInLoop] else []) := by
  unfold handleWrite
  by_cases hw : handleWriteActs c.ch.evWrite
  · have hw' : c.ch.evWrite = true := hw
    rw [if_pos hw]
    obtain ⟨f1, f2, f3, f4, f5⟩ := popWrite_emit_fields c (.sysWrite c.outBuf.length (peekWrite c))
    generalize emit (popWrite c) (.sysWrite c.outBuf.length (peekWrite c)) = c0 at f1 f2 f3 f4 f5 ⊢
    cases hr : peekWrite c with
    | took n =>
      cases n with
      | zero => simp [handleWriteRes, f2, drainsNow, hr]
      | succ n =>
        simp only [handleWriteRes]
        by_cases hdr : drained ({ c0 with wrote := c0.wrote ++ c0.outBuf.take (n+1), outBuf := c0.outBuf.drop (n+1) } : Conn).outBuf.length
        · rw [if_pos hdr, afterDrain_sched]
          have hdr' : c.outBuf.length ≤ n + 1 := by
            have : (c0.outBuf.drop (n+1)).length = 0 := hdr
            rw [f1, List.length_drop] at this; omega
          have hd : drainsNow c = true := (drainsNow_iff c).mpr ⟨hw', n, hr, hdr'⟩
          simp only []; rw [f2, f3, f4, f5]; simp [hd]
        · rw [if_neg hdr]
          have hd : drainsNow c = false := by
            cases h : drainsNow c with
            | false => rfl
            | true =>
              obtain ⟨_, m, hm, hle⟩ := (drainsNow_iff c).mp h
              rw [hr] at hm; injection hm with hm; injection hm with hm; subst hm
              exfalso; apply hdr
              show (c0.outBuf.drop (n+1)).length = 0
              rw [f1, List.length_drop]; omega
          simp only []; rw [f2]; simp [hd]
    | err e => simp [handleWriteRes, f2, drainsNow, hr]
  · have hw' : c.ch.evWrite = false := by simpa [handleWriteActs] using hw
    rw [if_neg hw]; simp [drainsNow, hw']

/-- with a non-empty backlog (the only case that occurs while write interest is on):
"drained in this call" is "the backlog is empty afterwards" -/
theorem drainsNow_iff_emptied (c : Conn) (hne : c.outBuf ≠ []) :
    drainsNow c = true ↔ (c.ch.evWrite = true ∧ (handleWrite c).outBuf = []) := by
  rw [handleWrite_outBuf, drainsNow_iff]
  constructor
  · rintro ⟨hw, n, hr, hle⟩
    refine ⟨hw, ?_⟩
    rw [if_pos hw, hr]
    exact List.drop_eq_nil_of_le hle
  · rintro ⟨hw, he⟩
    refine ⟨hw, ?_⟩
    rw [if_pos hw] at he
    cases hr : peekWrite c with
    | took n =>
      cases n with
      | zero => rw [hr] at he; exact absurd he hne
      | succ n =>
        rw [hr] at he
        exact ⟨n, rfl, by simpa using List.drop_eq_nil_iff.mp he⟩
    | err e => rw [hr] at he; exact absurd he hne

theorem handleWrite_sched' (c : Conn) (hne : c.outBuf ≠ []) :
    let c' := handleWrite c
    c'.pending = c.pending
      ++ (if c.hasWC = true ∧ c.ch.evWrite = true ∧ c'.outBuf = [] then [Task.writeComplete (bindCb wcBindDrain c.wcId)] else [])
      ++ (if (c.ch.evWrite = true ∧ c'.outBuf = []) ∧ c.st = .kDisconnecting then [Task.drainShutdownInLoop] else []) := by
  intro c'
  show (handleWrite c).pending = _
  rw [handleWrite_sched]
  have := drainsNow_iff_emptied c hne
  simp only [this]; rfl

/-! ### (d) nothing else schedules them; they run only out of the functor queue -/

def Ev.isQueuedCb : Ev → Bool
  | .wc _ | .hwm _ _ => true
  | _ => false

/-- `c'`'s trace is `c`'s, extended by events none of which is a write-complete or high-water callback -/
def TraceExt (c c' : Conn) : Prop := ∃ s, c'.trace = c.trace ++ s ∧ ∀ e ∈ s, e.isQueuedCb = false

theorem TraceExt.same {c c' : Conn} (h : c'.trace = c.trace) : TraceExt c c' := ⟨[], by simp [h], by simp⟩
theorem TraceExt.rfl' (c : Conn) : TraceExt c c := TraceExt.same rfl
theorem TraceExt.trans {a b c : Conn} (h1 : TraceExt a b) (h2 : TraceExt b c) : TraceExt a c := by
  obtain ⟨s1, e1, q1⟩ := h1; obtain ⟨s2, e2, q2⟩ := h2
  refine ⟨s1 ++ s2, by rw [e2, e1, List.append_assoc], ?_⟩
  intro e he; rcases List.mem_append.mp he with h | h
  · exact q1 e h
  · exact q2 e h
theorem emit_tx (c : Conn) (e : Ev) (h : e.isQueuedCb = false) : TraceExt c (emit c e) :=
  ⟨[e], rfl, by intro x hx; rw [List.mem_singleton.mp hx]; exact h⟩

theorem popWrite_trace (c : Conn) : (popWrite c).trace = c.trace := by unfold popWrite; split <;> rfl
theorem popRead_trace (c : Conn) : (popRead c).trace = c.trace := by unfold popRead; split <;> rfl

theorem queueRemainder_trace (c : Conn) (data : Bytes) (n : Nat) (fault : Bool) :
    (queueRemainder c data n fault).trace = c.trace := by
  unfold queueRemainder; simp only []; (repeat' split) <;> rfl

theorem sendDirect_trace (c : Conn) (data : Bytes) (r : WriteRes) : (sendDirect c data r).trace = c.trace := by
  cases r with
  | took n => simp only [sendDirect]; split <;> rw [queueRemainder_trace] <;> rfl
  | err e => simp only [sendDirect]; rw [queueRemainder_trace]

theorem sendInLoop_tx (c : Conn) (data : Bytes) (q : Bool) : TraceExt c (sendInLoop c data q) := by
  unfold sendInLoop
  split
  · exact emit_tx _ _ rfl
  · split
    · refine ⟨[.sysWrite data.length (peekWrite c)], ?_, by simp [Ev.isQueuedCb]⟩
      rw [sendDirect_trace]; simp only [emit]; rw [popWrite_trace]; rfl
    · exact TraceExt.same (by rw [queueRemainder_trace]; rfl)

theorem shutdownInLoop_tx (c : Conn) : TraceExt c (shutdownInLoop c) := by
  unfold shutdownInLoop; split
  · exact ⟨[.sysShutdownWr], rfl, by simp [Ev.isQueuedCb]⟩
  · exact TraceExt.rfl' c
theorem startReadInLoop_trace (c : Conn) : (startReadInLoop c).trace = c.trace := by
  unfold startReadInLoop; split <;> rfl
theorem stopReadInLoop_trace (c : Conn) : (stopReadInLoop c).trace = c.trace := by
  unfold stopReadInLoop; split <;> rfl

theorem handOff_tx (c : Conn) (f : Bool) (d : Dispatch) (t : Task) (g : Conn → Conn) (hg : TraceExt c (g c)) :
    TraceExt c (handOff c f d t g) := by
  unfold handOff; split
  · exact TraceExt.same rfl
  · exact hg

theorem act_tx (c : Conn) (f : Bool) (a : Act) : TraceExt c (act c f a) := by
  cases a with
  | send d =>
    simp only [act]; split
    · split
      · exact TraceExt.same rfl
      · exact TraceExt.trans (b := { c with offeredL := c.offeredL ++ [d] }) (TraceExt.same rfl) (sendInLoop_tx _ _ _)
    · exact TraceExt.rfl' c
  | shutdown =>
    simp only [act]; split
    · exact TraceExt.trans (b := { c with st := .kDisconnecting }) (TraceExt.same rfl) (handOff_tx _ _ _ _ _ (shutdownInLoop_tx _))
    · exact TraceExt.rfl' c
  | forceClose =>
    simp only [act]; split
    · exact TraceExt.trans (b := { c with st := .kDisconnecting }) (TraceExt.same rfl) (handOff_tx _ _ _ _ _ (TraceExt.rfl' _))
    · exact TraceExt.rfl' c
  | forceCloseDelay us =>
    simp only [act]; split
    · split <;> exact TraceExt.same rfl
    · exact TraceExt.rfl' c
  | stopRead => simp only [act]; exact handOff_tx _ _ _ _ _ (TraceExt.same (stopReadInLoop_trace c))
  | startRead => simp only [act]; exact handOff_tx _ _ _ _ _ (TraceExt.same (startReadInLoop_trace c))
  | setWc k => exact TraceExt.same rfl
  | setHwm k m => exact TraceExt.same rfl

/-- user operations (from any thread, inside or outside callbacks) never run the write-complete
or the high-water callback synchronously: what they add to the trace contains neither -/
theorem wc_hwm_only_via_queue (c : Conn) (f : Bool) (a : Act) :
    (act c f a).trace.take c.trace.length = c.trace ∧
    ∀ e ∈ (act c f a).trace.drop c.trace.length, (∀ k, e ≠ .wc k) ∧ ∀ k n, e ≠ .hwm k n := by
  obtain ⟨s, hs, hq⟩ := act_tx c f a
  rw [hs]
  refine ⟨by simp, ?_⟩
  intro e he
  rw [List.drop_left'] at he
  · have := hq e he
    constructor
    · intro k h; rw [h] at this; cases this
    · intro k n h; rw [h] at this; cases this
  · rfl

/-- a callback: its event, then whatever the user's code does — which is never one of the two -/
theorem callback_trace (c : Conn) (k : Cb) (e : Ev) :
    ∃ s, (callback c k e).trace = c.trace ++ e :: s ∧ ∀ x ∈ s, x.isQueuedCb = false := by
  unfold callback; split
  · obtain ⟨s, hs, hq⟩ := act_tx ({ emit c e with hooks := dropHook k c.hooks }) false _
    exact ⟨s, by unfold actLoop; rw [hs]; simp [emit], hq⟩
  · exact ⟨[], by simp [emit], by simp⟩

theorem callback_tx (c : Conn) (k : Cb) (e : Ev) (h : e.isQueuedCb = false) : TraceExt c (callback c k e) := by
  obtain ⟨s, hs, hq⟩ := callback_trace c k e
  refine ⟨e :: s, hs, ?_⟩
  intro x hx; rcases List.mem_cons.mp hx with h' | h'
  · rw [h']; exact h
  · exact hq x h'

/-- the functor `writeComplete` invokes the callback, first thing -/
theorem runTask_wc (c : Conn) (b : Bound) (ha : c.alive = true) :
    ∃ s, (runTask c (.writeComplete b)).trace = c.trace ++ Ev.wc (b.resolve c.wcId) :: s ∧ ∀ x ∈ s, x.isQueuedCb = false := by
  have : runTask c (.writeComplete b) = callback c .wc (.wc (b.resolve c.wcId)) := by simp [runTask, ha]
  rw [this]; exact callback_trace _ _ _

theorem runTask_hwm (c : Conn) (b : Bound) (n : Nat) (ha : c.alive = true) :
    ∃ s, (runTask c (.highWater b n)).trace = c.trace ++ Ev.hwm (b.resolve c.hwmId) n :: s ∧ ∀ x ∈ s, x.isQueuedCb = false := by
  have : runTask c (.highWater b n) = callback c .hwm (.hwm (b.resolve c.hwmId) n) := by simp [runTask, ha]
  rw [this]; exact callback_trace _ _ _

/-! everything else the loop does for the connection adds neither event -/

theorem handleClose_tx (c : Conn) : TraceExt c (handleClose c) := by
  unfold handleClose; split
  · exact TraceExt.trans (b := { c with dead := true }) (TraceExt.same rfl) (emit_tx _ _ rfl)
  · refine TraceExt.trans (b := emit (callback (disableAll { c with st := .kDisconnected }) .down .down) .closeCb) ?_ (TraceExt.same rfl)
    refine TraceExt.trans ?_ (emit_tx _ _ rfl)
    exact TraceExt.trans (b := disableAll { c with st := .kDisconnected }) (TraceExt.same rfl) (callback_tx _ _ _ rfl)

theorem handleReadRes_tx (c : Conn) (r : ReadRes) : TraceExt c (handleReadRes c r) := by
  unfold handleReadRes; split
  · exact handleClose_tx c
  · simp only []
    refine TraceExt.trans (b := callback (deliver c _) .msg _) ?_ (TraceExt.same rfl)
    exact TraceExt.trans (b := deliver c _) (TraceExt.same rfl) (callback_tx _ _ _ rfl)
  · exact TraceExt.rfl' c

theorem handleRead_tx (c : Conn) : TraceExt c (handleRead c) := by
  unfold handleRead
  refine TraceExt.trans ?_ (handleReadRes_tx _ _)
  exact TraceExt.trans (b := popRead c) (TraceExt.same (popRead_trace c)) (emit_tx _ _ rfl)

theorem afterDrain_tx (c : Conn) : TraceExt c (afterDrain c) := by
  unfold afterDrain; simp only []
  split
  · split
    · exact TraceExt.trans (b := enqueue (disableWriting c) (.writeComplete (bindCb wcBindDrain c.wcId))) (TraceExt.same rfl) (handOff_tx _ _ _ _ _ (shutdownInLoop_tx _))
    · exact TraceExt.same rfl
  · split
    · exact TraceExt.trans (b := disableWriting c) (TraceExt.same rfl) (handOff_tx _ _ _ _ _ (shutdownInLoop_tx _))
    · exact TraceExt.same rfl

theorem handleWriteRes_tx (c : Conn) (r : WriteRes) : TraceExt c (handleWriteRes c r) := by
  unfold handleWriteRes; split
  · simp only []; split
    · exact TraceExt.trans (b := { c with wrote := c.wrote ++ c.outBuf.take _, outBuf := c.outBuf.drop _ }) (TraceExt.same rfl) (afterDrain_tx _)
    · exact TraceExt.same rfl
  · exact TraceExt.rfl' c

theorem handleWrite_tx (c : Conn) : TraceExt c (handleWrite c) := by
  unfold handleWrite; split
  · refine TraceExt.trans ?_ (handleWriteRes_tx _ _)
    exact TraceExt.trans (b := popWrite c) (TraceExt.same (popWrite_trace c)) (emit_tx _ _ rfl)
  · exact TraceExt.rfl' c

theorem guarded_tx (f : Conn → Conn) (hf : ∀ c, TraceExt c (f c)) (rev : Prop) [Decidable rev]
    (sub : Bool → Bool → Bool → Prop) [∀ a b c, Decidable (sub a b c)] (c : Conn) :
    TraceExt c (guarded f rev sub c) := by
  unfold guarded; split
  · exact hf c
  · exact TraceExt.rfl' c

theorem handleEvent_tx (c : Conn) (r : Nat) : TraceExt c (handleEvent c r) := by
  unfold handleEvent; split
  · exact TraceExt.rfl' c
  · exact TraceExt.trans (guarded_tx _ handleClose_tx _ _ c)
      (TraceExt.trans (guarded_tx _ handleRead_tx _ _ _) (guarded_tx _ handleWrite_tx _ _ _))

theorem removeChannel_tx (c : Conn) : TraceExt c (removeChannel c) := by
  unfold removeChannel; split
  · exact TraceExt.trans (b := { c with dead := true }) (TraceExt.same rfl) (emit_tx _ _ rfl)
  · exact TraceExt.same rfl

theorem connectDestroyed_tx (c : Conn) : TraceExt c (connectDestroyed c) := by
  unfold connectDestroyed; split
  · refine TraceExt.trans ?_ (removeChannel_tx _)
    exact TraceExt.trans (b := disableAll { c with st := .kDisconnected }) (TraceExt.same rfl) (callback_tx _ _ _ rfl)
  · exact removeChannel_tx c

theorem fireDelay_tx (c : Conn) : TraceExt c (fireDelay c) := by
  unfold fireDelay; split
  · exact act_tx _ _ _
  · exact TraceExt.rfl' c

theorem fireN_tx (n : Nat) (c : Conn) : TraceExt c (fireN c n) := by
  induction n generalizing c with
  | zero => exact TraceExt.rfl' c
  | succ n ih => exact TraceExt.trans (fireDelay_tx c) (ih _)

theorem fireTimers_tx (c : Conn) : TraceExt c (fireTimers c) := by
  unfold fireTimers
  exact TraceExt.trans (b := { c with timers := c.timers.filter (fun d => ¬ d ≤ c.now) }) (TraceExt.same rfl) (fireN_tx _ _)

theorem maybeDestroy_tx (c : Conn) : TraceExt c (maybeDestroy c) := by
  unfold maybeDestroy; split
  · split
    · exact TraceExt.trans (b := { c with dead := true }) (TraceExt.same rfl) (emit_tx _ _ rfl)
    · split
      · exact TraceExt.trans (b := { c with dead := true }) (TraceExt.same rfl) (emit_tx _ _ rfl)
      · exact TraceExt.trans (b := { c with alive := false }) (TraceExt.same rfl)
          (TraceExt.trans (emit_tx _ _ rfl) (emit_tx _ _ rfl))
  · exact TraceExt.rfl' c

/-- no functor other than `writeComplete` / `highWater` invokes one of the two callbacks -/
theorem runTask_other_tx (c : Conn) (t : Task) (h1 : ∀ b, t ≠ .writeComplete b) (h2 : ∀ b n, t ≠ .highWater b n) :
    TraceExt c (runTask c t) := by
  unfold runTask; split
  · split
    · exact TraceExt.same rfl
    · split
      · exact TraceExt.rfl' c
      · exact TraceExt.trans (b := { c with dead := true }) (TraceExt.same rfl) (emit_tx _ _ rfl)
  · cases t with
    | sendInLoop d => exact sendInLoop_tx _ _ _
    | shutdownInLoop => exact shutdownInLoop_tx _
    | drainShutdownInLoop => exact shutdownInLoop_tx _
    | forceCloseInLoop => simp only []; split; exact handleClose_tx _; exact TraceExt.rfl' c
    | connectDestroyed => exact connectDestroyed_tx _
    | writeComplete b => exact absurd rfl (h1 b)
    | highWater b n => exact absurd rfl (h2 b n)
    | startReadInLoop => exact TraceExt.same (startReadInLoop_trace c)
    | stopReadInLoop => exact TraceExt.same (stopReadInLoop_trace c)
    | addDelayTimer d => exact TraceExt.same rfl

/-! primitives that run no user code leave the functor queue alone (see also `setEvents_pending`,
`emit_pending`, `popWrite_pending`, `popRead_pending`, `deliver_pending`, `consume_pending`,
`shutdownInLoop_pending`, `startReadInLoop_pending`, `stopReadInLoop_pending`, `removeChannel_pending` above) -/

/-! ### (e) the conditions are not vacuous -/

/-- a connected connection with `backlog` bytes queued, write interest on iff the backlog is non-empty -/
def sample (mark : Nat) (backlog : Nat) (writes : List WriteRes) : Conn :=
  { st := .kConnected, mark := mark, outBuf := List.replicate backlog 7,
    ch := { evRead := true, evWrite := decide (0 < backlog), slot := .added, watch := true },
    registered := true, writes := writes }

def eight : Bytes := [1, 2, 3, 4, 5, 6, 7, 8]

/-- mark 10, backlog 4, 8 more bytes: crossing, reported with the new backlog 12 -/
example : (sendInLoop (sample 10 4 []) eight false).pending = [Task.highWater (bindCb hwmBind 1) 12] := by decide
/-- backlog already at the mark: no second report -/
example : (sendInLoop (sample 10 10 []) eight false).pending = [] := by decide
/-- backlog stays below the mark: no report -/
example : (sendInLoop (sample 13 4 []) eight false).pending = [] := by decide
/-- mark 0 is never crossed -/
example : (sendInLoop (sample 0 0 [.took 3]) eight false).pending = [] := by decide
example : (sendInLoop (sample 0 4 []) eight false).pending = [] := by decide
/-- the direct write takes everything: write-complete scheduled, nothing queued -/
example : (sendInLoop (sample 10 0 [.took 8]) eight false).pending = [Task.writeComplete (bindCb wcBindSend 1)]
    ∧ (sendInLoop (sample 10 0 [.took 8]) eight false).outBuf = [] := by decide
/-- the direct write takes 3 of 8 with mark 5: the remaining 5 cross the mark, no write-complete -/
example : (sendInLoop (sample 5 0 [.took 3]) eight false).pending = [Task.highWater (bindCb hwmBind 1) 5]
    ∧ (sendInLoop (sample 5 0 [.took 3]) eight false).outBuf = [4, 5, 6, 7, 8] := by decide
/-- `handleWrite` drains a backlog of 4: write-complete scheduled; a partial write schedules nothing -/
example : (handleWrite (sample 10 4 [.took 4])).pending = [Task.writeComplete (bindCb wcBindDrain 1)] := by decide
example : (handleWrite (sample 10 4 [.took 3])).pending = [] := by decide
/-- draining after `shutdown()`: write-complete, then the deferred half-close -/
example : (handleWrite { sample 10 4 [.took 4] with st := .kDisconnecting }).pending
    = [Task.writeComplete (bindCb wcBindDrain 1), Task.drainShutdownInLoop] := by decide

/-- functors the connection queued for itself outlive it: after `ownerDestroy` the object is gone (`alive = false`)
while the write-complete, the high-water and a foreign `sendInLoop` functor (all weak) are still pending; the next
iteration reaches `runTask` with `alive = false` for each of them and takes the `t.hold = .weak` branch: nothing is
recorded, nothing aborts (the `uaf` branch is what a raw `this` - or a trampoline that does not test the locked
pointer, `Hold.eff` - would give) -/
example :
    let c := run (step { mark := 5 } .establish) [.envWrite (.took 3), .act false (.send ([7, 7, 7])),
      .envWrite (.err 11), .act false (.send ([8, 8, 8, 8, 8, 8])), .act true (.send [1, 2, 3, 4, 5]), .ownerDestroy]
    c.alive = false ∧ c.dead = false ∧
    c.pending = [.writeComplete (bindCb wcBindSend 1), .highWater (bindCb hwmBind 1) 6, .sendInLoop [1, 2, 3, 4, 5]] ∧
    (∀ t ∈ c.pending, t.strong = false ∧ t.hold = .weak) ∧
    (iter c []).trace = c.trace ∧ (iter c []).dead = false ∧ (iter c []).pending = [] := by decide

end MuduoVerif.Conn
