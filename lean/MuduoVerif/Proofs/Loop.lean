import MuduoVerif.Model.Loop
/-!
# Lemmas about the `Loop` transition system: frame lemmas and the FIFO invariant (C04 `once_fifo`)
-/
namespace MuduoVerif.Loop
open MuduoVerif.Gen.Loop

/-! ## the T1 tie: what the proofs need from the generated definitions -/

theorem wakeGuard_foreign (c l : Bool) : wakeGuard false c l := by unfold wakeGuard; simp
theorem wakeGuard_calling (b l : Bool) : wakeGuard b true l := by unfold wakeGuard; simp
theorem wakeGuard_notLooping (b c : Bool) : wakeGuard b c false := by unfold wakeGuard; simp
theorem runInline_loop : runInline true := by unfold runInline; simp
theorem runInline_foreign : ¬ runInline false := by unfold runInline; simp
theorem quitWakes_foreign : quitWakes false := by unfold quitWakes; simp
theorem quitWakes_loop : ¬ quitWakes true := by unfold quitWakes; simp
theorem drainSwaps_tie : drainSwaps = true := rfl
theorem quitResetAtEntry_tie : quitResetAtEntry = false := rfl
theorem quitResetAtExit_tie : quitResetAtExit = true := rfl
theorem finalDrain_tie : finalDrain = true := rfl
theorem callingResetAfterRun_tie : callingResetAfterRun = true := rfl
theorem dtorLocks_tie : dtorLocks = true := rfl
theorem dtorJoinsIfStarted_tie : dtorJoinsIfStarted = true := rfl
theorem publishNotifies_tie : publishNotifies = true := rfl
theorem clearLocks_tie : clearLocks = true := rfl
theorem startWaitsWhile_tie : startWaitsWhile = true := rfl
/-- the parts of the code's shape that the model takes for granted (not parameters of `step`) -/
theorem shape_tie : quitStoresFirst = true ∧ whileTestsQuit = true ∧ drainEachIteration = true ∧
    loopingBracket = true ∧ callingSetBeforeSwap = true ∧ appendUnderLock = true ∧ publishLocks = true :=
  ⟨rfl, rfl, rfl, rfl, rfl, rfl, rfl⟩

/-- bring the ties into the context of a case analysis -/
macro "ties" : tactic => `(tactic| (
  have := drainSwaps_tie; have := quitResetAtEntry_tie; have := quitResetAtExit_tie; have := finalDrain_tie
  have := callingResetAfterRun_tie; have := dtorLocks_tie; have := dtorJoinsIfStarted_tie
  have := publishNotifies_tie; have := clearLocks_tie; have := startWaitsWhile_tie
  have := runInline_loop; have := runInline_foreign; have := quitWakes_foreign; have := quitWakes_loop))

/-! ## frame lemmas -/

section touch
variable (s : St) (d : Bool)
@[simp] theorem touch_pending : (touch s d).pending = s.pending := by unfold touch; split <;> (try split) <;> rfl
@[simp] theorem touch_appendOrder : (touch s d).appendOrder = s.appendOrder := by unfold touch; split <;> (try split) <;> rfl
@[simp] theorem touch_executed : (touch s d).executed = s.executed := by unfold touch; split <;> (try split) <;> rfl
@[simp] theorem touch_batch : (touch s d).batch = s.batch := by unfold touch; split <;> (try split) <;> rfl
@[simp] theorem touch_phase : (touch s d).phase = s.phase := by unfold touch; split <;> (try split) <;> rfl
@[simp] theorem touch_ev : (touch s d).ev = s.ev := by unfold touch; split <;> (try split) <;> rfl
@[simp] theorem touch_quit : (touch s d).quit = s.quit := by unfold touch; split <;> (try split) <;> rfl
@[simp] theorem touch_qreq : (touch s d).qreq = s.qreq := by unfold touch; split <;> (try split) <;> rfl
@[simp] theorem touch_selfQuit : (touch s d).selfQuit = s.selfQuit := by unfold touch; split <;> (try split) <;> rfl
@[simp] theorem touch_quitMark : (touch s d).quitMark = s.quitMark := by unfold touch; split <;> (try split) <;> rfl
@[simp] theorem touch_calling : (touch s d).calling = s.calling := by unfold touch; split <;> (try split) <;> rfl
@[simp] theorem touch_looping : (touch s d).looping = s.looping := by unfold touch; split <;> (try split) <;> rfl
@[simp] theorem touch_lpc : (touch s d).lpc = s.lpc := by unfold touch; split <;> (try split) <;> rfl
@[simp] theorem touch_stack : (touch s d).stack = s.stack := by unfold touch; split <;> (try split) <;> rfl
@[simp] theorem touch_thr : (touch s d).thr = s.thr := by unfold touch; split <;> (try split) <;> rfl
@[simp] theorem touch_elt : (touch s d).elt = s.elt := by unfold touch; split <;> (try split) <;> rfl
@[simp] theorem touch_alive : (touch s d).alive = s.alive := by unfold touch; split <;> (try split) <;> rfl
@[simp] theorem touch_loopPtr : (touch s d).loopPtr = s.loopPtr := by unfold touch; split <;> (try split) <;> rfl
@[simp] theorem touch_mtx : (touch s d).mtx = s.mtx := by unfold touch; split <;> (try split) <;> rfl
@[simp] theorem touch_waiting : (touch s d).waiting = s.waiting := by unfold touch; split <;> (try split) <;> rfl
@[simp] theorem touch_final : (touch s d).final = s.final := by unfold touch; split <;> (try split) <;> rfl
@[simp] theorem touch_ioReady : (touch s d).ioReady = s.ioReady := by unfold touch; split <;> (try split) <;> rfl
@[simp] theorem touch_active : (touch s d).active = s.active := by unfold touch; split <;> (try split) <;> rfl
@[simp] theorem touch_L : (touch s d).L = s.L := by unfold St.L; simp
@[simp] theorem touch_markOf : markOf (touch s d) = markOf s := by unfold markOf; simp
theorem touch_uafDtor_false : (touch s false).uafDtor = s.uafDtor := by unfold touch; split <;> rfl
theorem touch_uafDtor_true : (touch s true).uafDtor = (s.uafDtor || !s.alive) := by
  unfold touch; split <;> simp_all
end touch

section setThr
variable (s : St) (k : Nat) (t : FThread)
@[simp] theorem setThr_pending : (setThr s k t).pending = s.pending := rfl
@[simp] theorem setThr_appendOrder : (setThr s k t).appendOrder = s.appendOrder := rfl
@[simp] theorem setThr_executed : (setThr s k t).executed = s.executed := rfl
@[simp] theorem setThr_batch : (setThr s k t).batch = s.batch := rfl
@[simp] theorem setThr_phase : (setThr s k t).phase = s.phase := rfl
@[simp] theorem setThr_ev : (setThr s k t).ev = s.ev := rfl
@[simp] theorem setThr_quit : (setThr s k t).quit = s.quit := rfl
@[simp] theorem setThr_qreq : (setThr s k t).qreq = s.qreq := rfl
@[simp] theorem setThr_selfQuit : (setThr s k t).selfQuit = s.selfQuit := rfl
@[simp] theorem setThr_quitMark : (setThr s k t).quitMark = s.quitMark := rfl
@[simp] theorem setThr_calling : (setThr s k t).calling = s.calling := rfl
@[simp] theorem setThr_looping : (setThr s k t).looping = s.looping := rfl
@[simp] theorem setThr_lpc : (setThr s k t).lpc = s.lpc := rfl
@[simp] theorem setThr_stack : (setThr s k t).stack = s.stack := rfl
@[simp] theorem setThr_elt : (setThr s k t).elt = s.elt := rfl
@[simp] theorem setThr_alive : (setThr s k t).alive = s.alive := rfl
@[simp] theorem setThr_loopPtr : (setThr s k t).loopPtr = s.loopPtr := rfl
@[simp] theorem setThr_mtx : (setThr s k t).mtx = s.mtx := rfl
@[simp] theorem setThr_waiting : (setThr s k t).waiting = s.waiting := rfl
@[simp] theorem setThr_final : (setThr s k t).final = s.final := rfl
@[simp] theorem setThr_ioReady : (setThr s k t).ioReady = s.ioReady := rfl
@[simp] theorem setThr_active : (setThr s k t).active = s.active := rfl
@[simp] theorem setThr_uafDtor : (setThr s k t).uafDtor = s.uafDtor := rfl
@[simp] theorem setThr_thr_self : (setThr s k t).thr k = t := by simp [setThr]
theorem setThr_thr_ne {j : Nat} (h : j ≠ k) : (setThr s k t).thr j = s.thr j := by simp [setThr, h]
theorem setThr_thr (j : Nat) : (setThr s k t).thr j = if j = k then t else s.thr j := rfl
end setThr

/-! ## `once_fifo` -/

/-- the functor queue is a FIFO in mutex order: what ran, what is left of the current batch and
what is still queued, concatenated, is exactly the list of all appends -/
structure FifoInv (s : St) : Prop where
  order : s.appendOrder = s.executed ++ s.batch ++ s.pending
  batchNil : s.phase ≠ .draining → s.batch = []

theorem runTop_fifo {s : St} (h : FifoInv s) : FifoInv (runTop s) := by
  obtain ⟨h1, h2⟩ := h
  unfold runTop
  split
  · split <;> exact ⟨h1, h2⟩
  · split <;> exact ⟨h1, h2⟩
  · split
    · exact ⟨h1, h2⟩
    · exact ⟨h1, h2⟩
    · exact ⟨by simp [h1], h2⟩
    · split
      · exact ⟨h1, h2⟩
      · exact ⟨by simp [h1], h2⟩
    · exact ⟨h1, h2⟩
    · exact ⟨h1, h2⟩
    · exact ⟨h1, h2⟩

/-- unfold one step of the loop thread into its branches (task bodies stay behind `runTop`) -/
macro "loop_cases" : tactic => `(tactic| (
  unfold stepLoop
  split
  all_goals (try simp only [testQuit, leaveLoop, enterLoop])
  all_goals (repeat' split)))

theorem stepLoop_fifo {s : St} (h : FifoInv s) : FifoInv (stepLoop s) := by
  have hr := runTop_fifo h
  obtain ⟨h1, h2⟩ := h
  ties
  loop_cases
  all_goals (first | assumption | (constructor <;> simp_all))

/-- unfold one step of another thread into its branches -/
macro "other_cases" : tactic => `(tactic| (
  unfold stepOther
  split
  all_goals (try simp only [stepIdle, stepAppended, stepQuitStored, stepSCheck, stepSWaiting, stepDEntry,
    stepDStored, stepDJoin])
  all_goals (try split)
  all_goals (try split)
  all_goals (try split)
  all_goals (try simp only [doAppend, doQuitStore, doWake, silent])))

theorem stepOther_fifo {s : St} (k : Nat) (h : FifoInv s) : FifoInv (stepOther s k) := by
  obtain ⟨h1, h2⟩ := h
  ties
  other_cases
  all_goals (constructor <;> simp_all)

theorem step_fifo {s : St} (k : Nat) (h : FifoInv s) : FifoInv (step s k) := by
  unfold step; split
  · exact stepLoop_fifo h
  · exact stepOther_fifo k h

theorem run_fifo {s : St} (sched : List Nat) (h : FifoInv s) : FifoInv (run s sched) := by
  induction sched generalizing s with
  | nil => exact h
  | cons k rest ih => exact ih (step_fifo k h)

theorem init_fifo (elt wl : Bool) (tbl) (pre) (progs) : FifoInv (init elt wl tbl pre progs) := by
  constructor <;> simp [init]

end MuduoVerif.Loop
