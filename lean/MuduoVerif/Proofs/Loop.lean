import MuduoVerif.Proofs.LoopBase
/-!
# The FIFO invariant of the functor queue (C04 `once_fifo`) and the ties of C04 to the generated definitions
-/
namespace MuduoVerif.Loop
open MuduoVerif.Gen.Loop

/-! ## the T1 tie: what the C04 proofs need from the generated definitions -/

theorem wakeGuard_foreign (c l : Bool) : wakeGuard false c l := by unfold wakeGuard; simp
theorem wakeGuard_calling (b l : Bool) : wakeGuard b true l := by unfold wakeGuard; simp
theorem wakeGuard_notLooping (b c : Bool) : wakeGuard b c false := by unfold wakeGuard; simp
theorem runInline_loop : runInline true := by unfold runInline; simp
theorem runInline_foreign : ¬ runInline false := by unfold runInline; simp
theorem drainSwaps_tie : drainSwaps = true := rfl
theorem finalDrain_tie : finalDrain = .untilEmpty := rfl
theorem callingResetAfterRun_tie : callingResetAfterRun = true := rfl
/-- the functor objects of a batch die while `callingPendingFunctors_` is still set (`functors.clear()` before the reset):
what `WakeInv.callingDrain` needs while destructor bodies run -/
theorem batchDestroyedBeforeReset_tie : batchDestroyedBeforeReset = true := rfl
/-- the parts of the code's shape that the model of the functor queue takes for granted (not parameters of `step`) -/
theorem shape_tie : drainEachIteration = true ∧ loopingBracket = true ∧ callingSetBeforeSwap = true ∧
    appendUnderLock = true := ⟨rfl, rfl, rfl, rfl⟩
/-- `wakeup()` makes the eventfd readable (`ev + 1` in the model), `handleRead()` drains it (`ev := 0`) -/
theorem eventfd_tie : wakeupWritesOne = true ∧ handleReadDrains = true := ⟨rfl, rfl⟩

/-- bring the ties into the context of a case analysis -/
macro "ties" : tactic => `(tactic| (
  have := drainSwaps_tie; have := finalDrain_tie; have := callingResetAfterRun_tie
  have := batchDestroyedBeforeReset_tie
  have := runInline_loop; have := runInline_foreign))

/-! ## `once_fifo` -/

/-- the functor queue is a FIFO in mutex order: what ran, what is left of the current batch and
what is still queued, concatenated, is exactly the list of all appends -/
structure FifoInv (s : St) : Prop where
  order : s.appendOrder = s.executed ++ s.batch ++ s.pending
  batchNil : s.phase ≠ .draining → s.batch = []

theorem runTop_fifo {s : St} (h : FifoInv s) : FifoInv (runTop s) := by
  obtain ⟨h1, h2⟩ := h
  unfold runTop
  repeat' split
  all_goals (first | exact ⟨h1, h2⟩ | exact ⟨by simp [h1], h2⟩)

theorem stepLoop_fifo {s : St} (h : FifoInv s) : FifoInv (stepLoop s) := by
  have hr := runTop_fifo h
  obtain ⟨h1, h2⟩ := h
  ties
  loop_cases
  all_goals (first | assumption | (constructor <;> simp_all))

theorem stepOther_fifo {s : St} (k : Nat) (h : FifoInv s) : FifoInv (stepOther s k) := by
  obtain ⟨h1, h2⟩ := h
  ties
  other_cases
  all_goals (constructor <;> simp_all)

theorem step_fifo {s : St} (k : Nat) (h : FifoInv s) : FifoInv (step s k) := by
  unfold step; split
  · exact stepLoop_fifo h
  · exact stepOther_fifo k h

theorem run_fifo {s : St} (sched : List Nat) (h : FifoInv s) : FifoInv (run s sched) := by
  induction sched generalizing s with
  | nil => exact h
  | cons k rest ih => exact ih (step_fifo k h)

theorem init_fifo (elt wl : Bool) (tbl) (dtbl) (pre) (again) (progs) : FifoInv (init elt wl tbl dtbl pre again progs) := by
  constructor <;> simp [init]

/-! ## functor objects die inside the drain that ran them -/

/-- outside a drain no run functor object is left in the local vector; the destruction starts when the whole batch
has run -/
structure BuryInv (s : St) : Prop where
  outside : s.phase ≠ .draining → s.corpses = [] ∧ s.burying = false
  batchDone : s.burying = true → s.batch = []

theorem runTop_bury {s : St} (h : BuryInv s) : BuryInv (runTop s) := by
  obtain ⟨h1, h2⟩ := h
  unfold runTop
  repeat' split
  all_goals exact ⟨h1, h2⟩

theorem stepLoop_bury {s : St} (h : BuryInv s) : BuryInv (stepLoop s) := by
  have hr := runTop_bury h
  obtain ⟨h1, h2⟩ := h
  loop_cases
  all_goals (first | assumption | (constructor <;> simp_all))

theorem stepOther_bury {s : St} (k : Nat) (h : BuryInv s) : BuryInv (stepOther s k) := by
  obtain ⟨h1, h2⟩ := h
  other_cases
  all_goals (constructor <;> simp_all)

theorem step_bury {s : St} (k : Nat) (h : BuryInv s) : BuryInv (step s k) := by
  unfold step; split
  · exact stepLoop_bury h
  · exact stepOther_bury k h

theorem init_bury (elt wl : Bool) (tbl) (dtbl) (pre) (again) (progs) : BuryInv (init elt wl tbl dtbl pre again progs) := by
  constructor <;> simp [init]

/-- the loop thread's step never changes another thread's record, whatever the order of "destroy the batch" and
"reset the flag" -/
theorem stepLoopG_frame (fd : FinalDrain) (bd : Bool) (s : St) :
    (stepLoopG fd bd s).thr = s.thr ∧ (stepLoopG fd bd s).elt = s.elt := by
  have hr : (runTop s).thr = s.thr ∧ (runTop s).elt = s.elt := ⟨runTop_thr s, runTop_elt s⟩
  unfold stepLoopG
  split
  all_goals (try simp only [testQuit, leaveLoop, enterLoop])
  all_goals (repeat' split)
  all_goals (first | exact hr | exact ⟨rfl, rfl⟩ | simp)

/-- a schedule of the owner thread alone (plain scenario): nobody else's record changes -/
theorem runBD_owner_only (bd : Bool) (s : St) (n : Nat) (he : s.elt = false) :
    (runBD bd s (List.replicate n 0)).thr = s.thr ∧ (runBD bd s (List.replicate n 0)).elt = false := by
  induction n generalizing s with
  | zero => exact ⟨rfl, he⟩
  | succ n ih =>
    have hL : s.L = 0 := by simp [St.L, he]
    have hs : stepBD bd s 0 = stepLoopG finalDrain bd s := by simp [stepBD, hL]
    obtain ⟨f1, f2⟩ := stepLoopG_frame finalDrain bd s
    have := ih (stepLoopG finalDrain bd s) (by rw [f2]; exact he)
    simp only [List.replicate_succ, runBD, List.foldl_cons, hs]
    simp only [runBD] at this
    exact ⟨by rw [this.1, f1], this.2⟩

/-! ## task bodies start on the loop thread only -/

theorem step_wrongThread {s : St} (k : Nat) (h : s.wrongThread = false) : (step s k).wrongThread = false := by
  have hr : (runTop s).wrongThread = false := by
    unfold runTop; repeat' split
    all_goals exact h
  have := runInline_foreign
  unfold step; split
  · loop_cases
    all_goals (first | exact hr | exact h)
  · other_cases
    all_goals (first | exact h | (simp_all [touch]; done) | (simp [touch]; split <;> (try split) <;> exact h))

end MuduoVerif.Loop
