import MuduoVerif.Model.Inet
import MuduoVerif.Proofs.Buffer
/-!
Proofs about the IPv4 text forms and the byte-order helpers (`Model/Inet.lean`):
printing then parsing is the identity (`parseIp_toIp`, `parseIpPort_toIpPort`), the accepted texts
are exactly the printed ones (`parseIp_sound`, `parseIpPort_sound`), `toIp` is injective, the
byte-order conversions are involutions on their range and put the big-endian bytes into memory.
All statements are for all values (no bounded enumeration).
-/
namespace MuduoVerif.Inet
open MuduoVerif.Buffer (Bytes encodeBE decodeBE encodeBE_length decode_encodeBE decodeBE_fold pow256)

/-! ### byte order -/
theorem memLE_length (n x : Nat) : (memLE n x).length = n := by
  induction n generalizing x with
  | zero => rfl
  | succ n ih => simp [memLE, ih]

theorem decodeBE_cons (b : UInt8) (bs : Bytes) :
    decodeBE (b :: bs) = b.toNat * 256 ^ bs.length + decodeBE bs := by
  have := decodeBE_fold bs (0 * 256 + b.toNat)
  simp only [decodeBE, List.foldl_cons] at this ⊢
  rw [this]; simp

theorem decodeBE_concat (bs : Bytes) (b : UInt8) :
    decodeBE (bs ++ [b]) = decodeBE bs * 256 + b.toNat := by
  simp [decodeBE, List.foldl_append]

theorem toNat_ofNat_mod (x : Nat) : (UInt8.ofNat (x % 256)).toNat = x % 256 := by
  simp [UInt8.toNat_ofNat']

/-- `bswap` reads the little-endian memory image as a big-endian number -/
theorem bswap_eq_decodeBE_memLE (n x : Nat) : bswap n x = decodeBE (memLE n x) := by
  induction n generalizing x with
  | zero => rfl
  | succ n ih =>
    simp only [bswap, memLE]
    rw [decodeBE_cons, memLE_length, toNat_ofNat_mod, ih]


theorem ofNat_mod (x : Nat) : UInt8.ofNat (x % 256) = UInt8.ofNat x := by
  apply UInt8.toNat_inj.mp
  simp [UInt8.toNat_ofNat']

/-- big-endian bytes, peeled from the least significant end -/
theorem encodeBE_succ_concat (n x : Nat) :
    encodeBE (n + 1) x = encodeBE n (x / 256) ++ [UInt8.ofNat (x % 256)] := by
  induction n generalizing x with
  | zero => simp [encodeBE, ofNat_mod]
  | succ n ih =>
    rw [encodeBE, ih, encodeBE]
    have h1 : x % 256 ^ (n + 1) / 256 = x / 256 % 256 ^ n := by
      rw [Nat.pow_succ, Nat.mul_comm, Nat.mod_mul_right_div_self]
    have h2 : x % 256 ^ (n + 1) % 256 = x % 256 := by
      apply Nat.mod_mod_of_dvd
      exact ⟨256 ^ n, by rw [Nat.pow_succ, Nat.mul_comm]⟩
    have h3 : x / 256 / 256 ^ n = x / 256 ^ (n + 1) := by
      rw [Nat.div_div_eq_div_mul, Nat.pow_succ, Nat.mul_comm]
    rw [h1, h2, h3]; simp


/-- the big-endian bytes are the little-endian memory image reversed (for every `x`) -/
theorem encodeBE_eq_reverse_memLE (n x : Nat) : encodeBE n x = (memLE n x).reverse := by
  induction n generalizing x with
  | zero => rfl
  | succ n ih => rw [encodeBE_succ_concat, memLE, List.reverse_cons, ih]

theorem memLE_decodeBE_reverse (bs : Bytes) : memLE bs.length (decodeBE bs.reverse) = bs := by
  induction bs with
  | nil => rfl
  | cons b bs ih =>
    rw [List.reverse_cons, decodeBE_concat, List.length_cons, memLE]
    have h1 : (decodeBE bs.reverse * 256 + b.toNat) % 256 = b.toNat := by
      have := b.toNat_lt; omega
    have h2 : (decodeBE bs.reverse * 256 + b.toNat) / 256 = decodeBE bs.reverse := by
      have := b.toNat_lt; omega
    rw [h1, h2, ih]; simp

/-- storing the number read big-endian from `bs` little-endian gives `bs` reversed -/
theorem memLE_decodeBE (bs : Bytes) : memLE bs.length (decodeBE bs) = bs.reverse := by
  have := memLE_decodeBE_reverse bs.reverse
  rwa [List.reverse_reverse, List.length_reverse] at this

theorem memLE_bswap (n x : Nat) : memLE n (bswap n x) = encodeBE n x := by
  rw [bswap_eq_decodeBE_memLE, encodeBE_eq_reverse_memLE]
  have := memLE_decodeBE (memLE n x)
  rwa [memLE_length] at this

theorem bswap_bswap (n x : Nat) (h : x < 256 ^ n) : bswap n (bswap n x) = x := by
  rw [bswap_eq_decodeBE_memLE n (bswap n x), memLE_bswap, decode_encodeBE n x h]

theorem bswap_lt (n x : Nat) : bswap n x < 256 ^ n := by
  induction n generalizing x with
  | zero => simp [bswap]
  | succ n ih =>
    have := ih (x / 256)
    have h2 : x % 256 < 256 := Nat.mod_lt _ (by decide)
    simp only [bswap, Nat.pow_succ]
    calc x % 256 * 256 ^ n + bswap n (x / 256) < x % 256 * 256 ^ n + 256 ^ n := by omega
      _ = (x % 256 + 1) * 256 ^ n := by rw [Nat.add_mul, Nat.one_mul]
      _ ≤ 256 * 256 ^ n := Nat.mul_le_mul_right _ (by omega)
      _ = 256 ^ n * 256 := Nat.mul_comm _ _

theorem networkToHost_hostToNetwork (n x : Nat) (h : x < 256 ^ n) :
    networkToHost n (hostToNetwork n x) = x := bswap_bswap n x h

theorem hostToNetwork_mem (n x : Nat) (_h : x < 256 ^ n) :
    memLE n (hostToNetwork n x) = MuduoVerif.Buffer.encodeBE n x := memLE_bswap n x

theorem be16_roundtrip (x : Nat) (h : x < 2 ^ 16) : networkToHost 2 (hostToNetwork 2 x) = x :=
  networkToHost_hostToNetwork 2 x h
theorem be32_roundtrip (x : Nat) (h : x < 2 ^ 32) : networkToHost 4 (hostToNetwork 4 x) = x :=
  networkToHost_hostToNetwork 4 x h
theorem be64_roundtrip (x : Nat) (h : x < 2 ^ 64) : networkToHost 8 (hostToNetwork 8 x) = x :=
  networkToHost_hostToNetwork 8 x h
theorem port_roundtrip (p : Nat) (h : p < 2 ^ 16) : networkToHost 2 (hostToNetwork 2 p) = p :=
  be16_roundtrip p h


/-! ### decimal numbers -/
theorem isDigit_iff (c : Char) : c.isDigit = true ↔ 48 ≤ c.toNat ∧ c.toNat ≤ 57 := by
  simpa using Char.isDigit_iff_toNat (c := c)

theorem digitChar_of_isDigit (c : Char) (h : c.isDigit = true) :
    Nat.digitChar (c.toNat - 48) = c := by
  rw [isDigit_iff] at h
  apply Char.toNat_inj.mp
  rw [Nat.toNat_digitChar_of_lt_ten (by omega)]; omega

theorem digit_lt (c : Char) (h : c.isDigit = true) : c.toNat - 48 < 10 := by
  rw [isDigit_iff] at h; omega

theorem digit_pos (c : Char) (h : c.isDigit = true) (h0 : c ≠ '0') : 0 < c.toNat - 48 := by
  rw [isDigit_iff] at h
  have : c.toNat ≠ 48 := fun e => h0 (Char.toNat_inj.mp e)
  omega

theorem decChars_isDigit (n : Nat) : ∀ c ∈ decChars n, c.isDigit = true :=
  fun _ hc => Nat.isDigit_of_mem_toDigits (by decide) (by decide) hc

theorem decVal_decChars (n : Nat) : decVal (decChars n) = n := Nat.ofDigitChars_ten_toDigits

theorem decChars_head_ne (n : Nat) (h : 0 < n) : (decChars n).head? ≠ some '0' := by
  induction n using Nat.strongRecOn with
  | ind n ih =>
    unfold decChars at ih ⊢
    rw [Nat.toDigits_eq_if (by decide)]
    split
    · simp; omega
    · have hne : Nat.toDigits 10 (n / 10) ≠ [] := Nat.toDigits_ne_nil
      have := ih (n / 10) (by omega) (by omega)
      obtain ⟨d, ds, e⟩ := List.exists_cons_of_ne_nil hne
      rw [e] at this ⊢
      simpa using this

theorem decChars_zero : decChars 0 = ['0'] := rfl

theorem decChars_length_pos (n : Nat) : 0 < (decChars n).length := Nat.length_toDigits_pos

theorem decChars_length_le (n k : Nat) (hk : 0 < k) (h : n < 10 ^ k) : (decChars n).length ≤ k :=
  (Nat.length_toDigits_le_iff (by decide) hk).mpr h

/-- printing then parsing a decimal number -/
theorem parseDec_decChars (maxLen maxVal n : Nat) (hl : 0 < maxLen) (h1 : n < 10 ^ maxLen)
    (h2 : n ≤ maxVal) : parseDec maxLen maxVal (decChars n) = some n := by
  have hp := decChars_length_pos n
  have hle := decChars_length_le n maxLen hl h1
  have hd : (decChars n).all Char.isDigit = true := List.all_eq_true.mpr (decChars_isDigit n)
  have hz : ¬ ((decChars n).head? = some '0' ∧ (decChars n).length ≠ 1) := by
    intro ⟨hh, hl⟩
    rcases Nat.eq_zero_or_pos n with rfl | hpos
    · exact hl rfl
    · exact decChars_head_ne n hpos hh
  unfold parseDec
  rw [if_neg (by omega), if_neg (by simp [hd]), if_neg hz, decVal_decChars, if_pos h2]

/-- left-to-right: appending digits to a positive number -/
theorem decChars_ofDigitChars (cs : List Char) (n : Nat) (hn : 0 < n)
    (hd : ∀ c ∈ cs, c.isDigit = true) :
    decChars (Nat.ofDigitChars 10 cs n) = decChars n ++ cs := by
  induction cs generalizing n with
  | nil => simp
  | cons c cs ih =>
    have hc := hd c (by simp)
    rw [Nat.ofDigitChars_cons, ih _ (by omega) (fun x hx => hd x (by simp [hx]))]
    unfold decChars
    simp only [Char.reduceToNat]
    rw [← Nat.toDigits_append_toDigits (by decide) hn (digit_lt c hc),
      Nat.toDigits_of_lt_base (digit_lt c hc)]
    rw [digitChar_of_isDigit c hc]; simp

/-- the accepted decimal texts are exactly the printed ones -/
theorem parseDec_sound (maxLen maxVal : Nat) (cs : List Char) (v : Nat)
    (h : parseDec maxLen maxVal cs = some v) : v ≤ maxVal ∧ decChars v = cs := by
  unfold parseDec at h
  split at h; · cases h
  split at h; · cases h
  split at h; · cases h
  split at h
  case isFalse => cases h
  rename_i h1 h2 h3 h4
  cases h
  refine ⟨h4, ?_⟩
  have hd : ∀ c ∈ cs, c.isDigit = true := by
    have : cs.all Char.isDigit = true := by simpa using h2
    exact List.all_eq_true.mp this
  match cs, h1, h3, hd with
  | [], h1, _, _ => simp at h1
  | c :: rest, _, h3, hd =>
    have hc := hd c (by simp)
    by_cases hc0 : c = '0'
    · subst hc0
      have : rest = [] := by
        simp at h3; exact h3
      subst this; rfl
    · unfold decVal
      rw [Nat.ofDigitChars_cons]
      have hpos := digit_pos c hc hc0
      simp only [Char.reduceToNat] at hpos ⊢
      rw [Nat.mul_zero, Nat.zero_add, decChars_ofDigitChars _ _ hpos (fun x hx => hd x (by simp [hx]))]
      unfold decChars
      rw [Nat.toDigits_of_lt_base (digit_lt c hc), digitChar_of_isDigit c hc]; rfl


/-! ### split / join -/
theorem splitOn_ne_nil (sep : Char) (cs : List Char) : splitOn sep cs ≠ [] := by
  induction cs with
  | nil => simp [splitOn]
  | cons c cs ih =>
    unfold splitOn
    split
    · simp
    · split <;> simp

theorem splitOn_of_not_mem (sep : Char) (s : List Char) (h : sep ∉ s) : splitOn sep s = [s] := by
  induction s with
  | nil => rfl
  | cons c s ih =>
    have hc : c ≠ sep := fun e => h (by simp [e])
    have hs : sep ∉ s := fun e => h (by simp [e])
    simp [splitOn, hc, ih hs]

theorem splitOn_append (sep : Char) (s rest : List Char) (h : sep ∉ s) :
    splitOn sep (s ++ sep :: rest) = s :: splitOn sep rest := by
  induction s with
  | nil => simp [splitOn]
  | cons c s ih =>
    have hc : c ≠ sep := fun e => h (by simp [e])
    have hs : sep ∉ s := fun e => h (by simp [e])
    simp [splitOn, hc, ih hs]

theorem joinWith_cons (sep : Char) (p : List Char) (ps : List (List Char)) (h : ps ≠ []) :
    joinWith sep (p :: ps) = p ++ sep :: joinWith sep ps := by
  cases ps with
  | nil => exact absurd rfl h
  | cons q qs => rfl

theorem joinWith_splitOn (sep : Char) (cs : List Char) : joinWith sep (splitOn sep cs) = cs := by
  induction cs with
  | nil => rfl
  | cons c cs ih =>
    unfold splitOn
    split
    · rename_i h
      rw [joinWith_cons _ _ _ (splitOn_ne_nil sep cs), ih, h]; rfl
    · generalize hsp : splitOn sep cs = sp at ih
      cases sp with
      | nil => exact absurd hsp (splitOn_ne_nil sep cs)
      | cons p ps =>
        cases ps with
        | nil => simp only [joinWith] at ih ⊢; rw [ih]
        | cons q qs => simp only [joinWith] at ih ⊢; rw [← ih]; rfl

theorem not_mem_of_splitOn (sep : Char) (cs : List Char) : ∀ p ∈ splitOn sep cs, sep ∉ p := by
  induction cs with
  | nil => simp [splitOn]
  | cons c cs ih =>
    unfold splitOn
    split
    · intro p hp; simp at hp; rcases hp with rfl | hp
      · simp
      · exact ih p hp
    · rename_i hc
      generalize hsp : splitOn sep cs = sp at ih
      cases sp with
      | nil => simp; exact fun e => hc e.symm
      | cons q qs =>
        intro p hp; simp at hp; rcases hp with rfl | hp
        · have := ih q (by simp)
          simp; exact ⟨fun e => hc e.symm, this⟩
        · exact ih p (by simp [hp])

theorem splitLast_of_not_mem (sep : Char) (r : List Char) (h : sep ∉ r) : splitLast sep r = none := by
  induction r with
  | nil => rfl
  | cons c r ih =>
    have hc : c ≠ sep := fun e => h (by simp [e])
    have hs : sep ∉ r := fun e => h (by simp [e])
    simp [splitLast, ih hs, hc]

theorem splitLast_append (sep : Char) (l r : List Char) (h : sep ∉ r) :
    splitLast sep (l ++ sep :: r) = some (l, r) := by
  induction l with
  | nil => simp [splitLast, splitLast_of_not_mem sep r h]
  | cons c l ih => simp [splitLast, ih]

theorem splitLast_sound (sep : Char) (cs l r : List Char) (h : splitLast sep cs = some (l, r)) :
    cs = l ++ sep :: r := by
  induction cs generalizing l with
  | nil => simp [splitLast] at h
  | cons c cs ih =>
    unfold splitLast at h
    split at h
    · rename_i l' r' he
      cases h
      simp [← ih l' he]
    · split at h
      · rename_i hc
        cases h
        simp [hc]
      · cases h


/-! ### dotted quad -/
theorem dot_not_mem_decChars (n : Nat) : '.' ∉ decChars n :=
  fun h => by have := decChars_isDigit n _ h; simp at this

theorem colon_not_mem_decChars (n : Nat) : ':' ∉ decChars n :=
  fun h => by have := decChars_isDigit n _ h; simp at this

theorem toIpChars_eq (a : Nat) :
    toIpChars a = decChars (a / 2 ^ 24 % 256) ++ '.' :: (decChars (a / 2 ^ 16 % 256) ++ '.' ::
      (decChars (a / 2 ^ 8 % 256) ++ '.' :: decChars (a % 256))) := rfl

theorem parseOctet_decChars (b : Nat) (h : b < 256) : parseOctet (decChars b) = some b :=
  parseDec_decChars 3 255 b (by decide) (by omega) (by omega)

theorem parsePort_decChars (p : Nat) (h : p < 2 ^ 16) : parsePort (decChars p) = some p :=
  parseDec_decChars 5 65535 p (by decide) (by omega) (by omega)

theorem ofOctets_octets (a : Nat) (h : a < 2 ^ 32) :
    ofOctets (a / 2 ^ 24 % 256) (a / 2 ^ 16 % 256) (a / 2 ^ 8 % 256) (a % 256) = a := by
  unfold ofOctets; omega

theorem octets_ofOctets (b0 b1 b2 b3 : Nat) (h0 : b0 ≤ 255) (h1 : b1 ≤ 255) (h2 : b2 ≤ 255)
    (h3 : b3 ≤ 255) : octets (ofOctets b0 b1 b2 b3) = [b0, b1, b2, b3] := by
  unfold octets ofOctets
  congr 1; · omega
  congr 1; · omega
  congr 1; · omega
  congr 1; omega

theorem ofOctets_lt (b0 b1 b2 b3 : Nat) (h0 : b0 ≤ 255) (h1 : b1 ≤ 255) (h2 : b2 ≤ 255)
    (h3 : b3 ≤ 255) : ofOctets b0 b1 b2 b3 < 2 ^ 32 := by
  unfold ofOctets; omega

/-- the bytes in `sin_addr` are the big-endian bytes of the host-order value -/
theorem octets_eq_encodeBE (a : Nat) (h : a < 2 ^ 32) :
    (octets a).map UInt8.ofNat = encodeBE 4 a := by
  simp only [octets, encodeBE, List.map]
  have e1 : a % 256 ^ 3 / 256 ^ 2 = a / 2 ^ 16 % 256 := by omega
  have e2 : a % 256 ^ 3 % 256 ^ 2 / 256 ^ 1 = a / 2 ^ 8 % 256 := by omega
  have e3 : a % 256 ^ 3 % 256 ^ 2 % 256 ^ 1 / 256 ^ 0 = a % 256 := by omega
  have e0 : a / 256 ^ 3 = a / 2 ^ 24 % 256 := by omega
  rw [e0, e1, e2, e3, Nat.mod_mod]

theorem parseIpChars_toIpChars (a : Nat) (h : a < 2 ^ 32) : parseIpChars (toIpChars a) = some a := by
  have hb : ∀ x, x % 256 < 256 := fun x => Nat.mod_lt _ (by decide)
  unfold parseIpChars
  rw [toIpChars_eq, splitOn_append _ _ _ (dot_not_mem_decChars _),
    splitOn_append _ _ _ (dot_not_mem_decChars _), splitOn_append _ _ _ (dot_not_mem_decChars _),
    splitOn_of_not_mem _ _ (dot_not_mem_decChars _)]
  simp only [parseOctet_decChars _ (hb _), ofOctets_octets a h]

/-- the texts `inet_pton` accepts are exactly the ones `inet_ntop` prints -/
theorem parseIpChars_sound (cs : List Char) (a : Nat) (h : parseIpChars cs = some a) :
    a < 2 ^ 32 ∧ toIpChars a = cs := by
  unfold parseIpChars at h
  split at h
  case h_2 => cases h
  rename_i p0 p1 p2 p3 hsp
  split at h
  case h_2 => cases h
  rename_i b0 b1 b2 b3 e0 e1 e2 e3
  cases h
  obtain ⟨l0, d0⟩ := parseDec_sound _ _ _ _ e0
  obtain ⟨l1, d1⟩ := parseDec_sound _ _ _ _ e1
  obtain ⟨l2, d2⟩ := parseDec_sound _ _ _ _ e2
  obtain ⟨l3, d3⟩ := parseDec_sound _ _ _ _ e3
  refine ⟨ofOctets_lt _ _ _ _ l0 l1 l2 l3, ?_⟩
  unfold toIpChars
  rw [octets_ofOctets _ _ _ _ l0 l1 l2 l3]
  simp only [List.map, d0, d1, d2, d3]
  rw [← hsp, joinWith_splitOn]

theorem parseIpPortChars_toIpPortChars (a p : Nat) (ha : a < 2 ^ 32) (hp : p < 2 ^ 16) :
    parseIpPortChars (toIpPortChars a p) = some (a, p) := by
  unfold parseIpPortChars toIpPortChars
  rw [splitLast_append _ _ _ (colon_not_mem_decChars p)]
  simp only [parseIpChars_toIpChars a ha, parsePort_decChars p hp]

theorem parseIpPortChars_sound (cs : List Char) (a p : Nat) (h : parseIpPortChars cs = some (a, p)) :
    a < 2 ^ 32 ∧ p < 2 ^ 16 ∧ toIpPortChars a p = cs := by
  unfold parseIpPortChars at h
  split at h
  case h_2 => cases h
  rename_i l r hsp
  split at h
  case h_2 => cases h
  rename_i a' p' ea ep
  cases h
  obtain ⟨ha, hl⟩ := parseIpChars_sound _ _ ea
  obtain ⟨hp, hr⟩ := parseDec_sound _ _ _ _ ep
  refine ⟨ha, by omega, ?_⟩
  rw [splitLast_sound _ _ _ _ hsp, toIpPortChars, hl, hr]

/-! ### `String` level -/

theorem parseIp_toIp (a : Nat) (h : a < 2 ^ 32) : parseIp (toIp a) = some a := by
  unfold parseIp toIp
  rw [String.toList_ofList]; exact parseIpChars_toIpChars a h

theorem toIp_injective (a b : Nat) (ha : a < 2 ^ 32) (hb : b < 2 ^ 32) (h : toIp a = toIp b) :
    a = b := by
  have := parseIp_toIp a ha
  rw [h, parseIp_toIp b hb] at this
  exact (Option.some.inj this).symm

theorem parseIp_sound (s : String) (a : Nat) (h : parseIp s = some a) :
    a < 2 ^ 32 ∧ toIp a = s := by
  obtain ⟨h1, h2⟩ := parseIpChars_sound _ _ h
  exact ⟨h1, by rw [toIp, h2, String.ofList_toList]⟩

theorem parseIpPort_toIpPort (a p : Nat) (ha : a < 2 ^ 32) (hp : p < 2 ^ 16) :
    parseIpPort (toIpPort a p) = some (a, p) := by
  unfold parseIpPort toIpPort
  rw [String.toList_ofList]; exact parseIpPortChars_toIpPortChars a p ha hp

theorem parseIpPort_sound (s : String) (a p : Nat) (h : parseIpPort s = some (a, p)) :
    a < 2 ^ 32 ∧ p < 2 ^ 16 ∧ toIpPort a p = s := by
  obtain ⟨h1, h2, h3⟩ := parseIpPortChars_sound _ _ _ h
  exact ⟨h1, h2, by rw [toIpPort, h3, String.ofList_toList]⟩

theorem toIpPort_injective (a p b q : Nat) (ha : a < 2 ^ 32) (hp : p < 2 ^ 16) (hb : b < 2 ^ 32)
    (hq : q < 2 ^ 16) (h : toIpPort a p = toIpPort b q) : a = b ∧ p = q := by
  have := parseIpPort_toIpPort a p ha hp
  rw [h, parseIpPort_toIpPort b q hb hq] at this
  cases this; exact ⟨rfl, rfl⟩

/-- the code's formatting: `toIp`, then `":%u"` -/
theorem toIpPort_eq (a p : Nat) : toIpPort a p = toIp a ++ ":" ++ toString p := by
  apply String.toList_inj.mp
  simp [toIpPort, toIp, toIpPortChars, decChars, String.toList_append]

/-- the code's formatting of the IPv6 branch: `'['`, the v6 text, then `"]:%u"` -/
theorem v6IpPort_eq (t : String) (p : Nat) : v6IpPort t p = "[" ++ t ++ "]:" ++ toString p := by
  apply String.toList_inj.mp
  simp [v6IpPort, v6IpPortChars, decChars, String.toList_append]

/-- the longest IPv4 text fits `INET_ADDRSTRLEN = 16` with its NUL (`assert(size >= INET_ADDRSTRLEN)`) -/
theorem toIpChars_length (a : Nat) : (toIpChars a).length ≤ 15 := by
  have hl : ∀ x, (decChars (x % 256)).length ≤ 3 := fun x =>
    decChars_length_le _ 3 (by decide) (by have := Nat.mod_lt x (show 0 < 256 by decide); omega)
  rw [toIpChars_eq]
  simp only [List.length_append, List.length_cons]
  have := hl (a / 2 ^ 24); have := hl (a / 2 ^ 16); have := hl (a / 2 ^ 8); have := hl a
  omega

/-- `toIpPort` needs at most 21 characters + NUL; the callers pass `char buf[64]` -/
theorem toIpPortChars_length (a p : Nat) (hp : p < 2 ^ 16) : (toIpPortChars a p).length ≤ 21 := by
  have := toIpChars_length a
  have := decChars_length_le p 5 (by decide) (by omega)
  simp only [toIpPortChars, List.length_append, List.length_cons]
  omega

end MuduoVerif.Inet
