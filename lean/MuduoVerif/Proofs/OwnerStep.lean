import MuduoVerif.Proofs.OwnerClose
import MuduoVerif.Proofs.Pool
namespace MuduoVerif.Owner
open MuduoVerif.Gen.Owner
open MuduoVerif.Gen.Conn (StateE forceCloseAccepts shutdownAccepts forceCloseInLoopActs destroyedWhileConnected)

theorem MapOK.of_eq {s s' : Srv} (h : MapOK s) (hm : s'.map = s.map) (hc : ∀ c, (s'.conn c).name = (s.conn c).name) (hn : s'.n = s.n) : MapOK s' := by
  refine ⟨?_, ?_, ?_, ?_⟩
  · intro e he; rw [hc]; exact h.keys e (hm ▸ he)
  · rw [hm]; exact h.nodup
  · intro e he; rw [hn]; exact h.lt e (hm ▸ he)
  · intro c c' h1 h2 h3; rw [hc, hc] at h3; rw [hn] at h1 h2; exact h.names c c' h1 h2 h3

theorem agree_handleClose (s : Srv) (hm : MapOK s) {c c' : Nat} (l : Nat) (hc' : c' < s.n) (h : c' ≠ c) :
    Agree s (handleClose s l c') c := by
  unfold handleClose
  split
  · exact agree_emit s _ _ h
  · rw [removeConnection_nf]
    have h1 : Agree s (((s.setConn c' { s.conn c' with st := .kDisconnected, cause := true }).emit c' .down l).emit c' .closeCb l) c :=
      ((agree_setConn s _ h).trans (agree_emit _ _ _ h)).trans (agree_emit _ _ _ h)
    split
    · refine h1.trans (agree_removeInLoop _ ?_ l hc' h)
      exact hm.of_eq rfl (fun i => by simp only [emit_conn, setConn_conn]; split <;> simp_all) rfl
    · exact h1.trans (agree_enq _ _ (by simp [about, Task.conn?, h]))

theorem agree_forceCloseInLoop (s : Srv) (hm : MapOK s) {c c' : Nat} (l : Nat) (hc' : c' < s.n) (h : c' ≠ c) :
    Agree s (forceCloseInLoop s l c') c := by
  unfold forceCloseInLoop
  split
  · exact agree_emit s _ _ h
  · split
    · exact agree_handleClose s hm l hc' h
    · exact Agree.refl s c

/-- a functor of another connection does not concern `c` -/
theorem agree_runTask (s : Srv) (hm : MapOK s) {c : Nat} (l : Nat) (t : Task) (c' : Nat) (ht : t.conn? = some c')
    (hc' : c' < s.n) (h : c' ≠ c) : Agree s (runTask s l t) c := by
  cases t <;> simp only [Task.conn?, Option.some.injEq, reduceCtorEq] at ht <;> subst ht <;> simp only [runTask]
  · exact agree_connectEstablished s l h
  · exact agree_removeInLoop s hm l hc' h
  · exact agree_connectDestroyed s l h
  · exact agree_forceCloseInLoop s hm l hc' h
  · exact Agree.refl s c


/-! ### what a step leaves alone globally -/

/-- `s'` extends `s`: same configuration, same assignment of loops and names, the map only shrinks, the trace grows by
events that happen where they have to -/
structure Ext (s s' : Srv) : Prop where
  n : s'.n = s.n
  L : s'.L = s.L
  nameOf : s'.nameOf = s.nameOf
  pool : s'.pool = s.pool
  nextId : s'.nextId = s.nextId
  alive : s'.alive = s.alive
  exited : s'.exited = s.exited
  map : s'.map.Sublist s.map
  loop : ∀ c, (s'.conn c).loop = (s.conn c).loop
  name : ∀ c, (s'.conn c).name = (s.conn c).name
  drain : s'.drain = s.drain
  drainRepeats : s'.drainRepeats = s.drainRepeats
  trace : ∃ evs, s'.trace = s.trace ++ evs ∧ ∀ e ∈ evs, AffOK s e

theorem Ext.refl (s : Srv) : Ext s s :=
  ⟨rfl, rfl, rfl, rfl, rfl, rfl, rfl, List.Sublist.refl _, fun _ => rfl, fun _ => rfl, rfl, rfl, [], by simp, by simp⟩

theorem affOK_loop {s s' : Srv} (h : ∀ c, (s'.conn c).loop = (s.conn c).loop) (e : Ev) : AffOK s' e ↔ AffOK s e := by
  unfold AffOK; rw [h]

theorem Ext.trans {s s' s'' : Srv} (h1 : Ext s s') (h2 : Ext s' s'') : Ext s s'' := by
  obtain ⟨e1, ht1, ha1⟩ := h1.trace
  obtain ⟨e2, ht2, ha2⟩ := h2.trace
  refine ⟨h2.n.trans h1.n, h2.L.trans h1.L, h2.nameOf.trans h1.nameOf, h2.pool.trans h1.pool, h2.nextId.trans h1.nextId,
    h2.alive.trans h1.alive, h2.exited.trans h1.exited, h2.map.trans h1.map, fun c => (h2.loop c).trans (h1.loop c),
    fun c => (h2.name c).trans (h1.name c), h2.drain.trans h1.drain, h2.drainRepeats.trans h1.drainRepeats, e1 ++ e2, by rw [ht2, ht1, List.append_assoc], ?_⟩
  intro e he
  rcases List.mem_append.mp he with h | h
  · exact ha1 e h
  · exact (affOK_loop h1.loop e).mp (ha2 e h)

theorem ext_setConn (s : Srv) (c : Nat) (C : Conn) (hl : C.loop = (s.conn c).loop) (hn : C.name = (s.conn c).name) :
    Ext s (s.setConn c C) := by
  refine ⟨rfl, rfl, rfl, rfl, rfl, rfl, rfl, List.Sublist.refl _, fun i => ?_, fun i => ?_, rfl, rfl, [], by simp, by simp⟩
  · rw [setConn_conn]; split <;> simp_all
  · rw [setConn_conn]; split <;> simp_all

theorem ext_emit (s : Srv) (c : Nat) (k : Kind) (l : Nat) (h : AffOK s ⟨c, k, l⟩) : Ext s (s.emit c k l) :=
  ⟨rfl, rfl, rfl, rfl, rfl, rfl, rfl, List.Sublist.refl _, fun _ => rfl, fun _ => rfl, rfl, rfl, [⟨c, k, l⟩], rfl, by simpa using h⟩

theorem ext_enq (s : Srv) (l : Nat) (t : Task) : Ext s (s.enq l t) :=
  ⟨rfl, rfl, rfl, rfl, rfl, rfl, rfl, List.Sublist.refl _, fun _ => rfl, fun _ => rfl, rfl, rfl, [], by simp, by simp⟩

theorem ext_pop (s : Srv) (l : Nat) (t : Task) (rest : List Task) : Ext s (pop s l t rest) :=
  ⟨rfl, rfl, rfl, rfl, rfl, rfl, rfl, List.Sublist.refl _, fun _ => rfl, fun _ => rfl, rfl, rfl, [], by simp, by simp⟩

theorem ext_erase (s : Srv) (k : Nat) : Ext s { s with map := mapErase s.map k } :=
  ⟨rfl, rfl, rfl, rfl, rfl, rfl, rfl, List.filter_sublist, fun _ => rfl, fun _ => rfl, rfl, rfl, [], by simp, by simp⟩

theorem ext_reapOne (s : Srv) (l c : Nat) : Ext s (reapOne s l c) := by
  unfold reapOne; split
  · refine (ext_setConn s c _ ?_ ?_).trans (ext_emit _ c .dtor l ?_) <;> first | rfl | simp [AffOK]
  · exact Ext.refl s

theorem ext_connectEstablished (s : Srv) (l c : Nat) : Ext s (connectEstablished s l c) := by
  unfold connectEstablished
  split
  · refine ext_emit _ c .abort l ?_; simp [AffOK]
  · split
    · refine ext_emit _ c .abort l ?_; simp [AffOK]
    · rename_i h _
      refine (ext_setConn s c _ ?_ ?_).trans (ext_emit _ c .up l ?_) <;> first | rfl | simpa [AffOK] using h

theorem ext_connectDestroyed (s : Srv) (l c : Nat) : Ext s (connectDestroyed s l c) := by
  unfold connectDestroyed
  split
  · refine ext_emit _ c .abort l ?_; simp [AffOK]
  · rename_i h
    split
    · refine ext_emit _ c .abort l ?_; simp [AffOK]
    · split
      · refine ((ext_setConn s c _ ?_ ?_).trans (ext_emit _ c .down l ?_)).trans (ext_emit _ c .destroyed l ?_) <;>
          first | rfl | simpa [AffOK] using h
      · refine (ext_setConn s c _ ?_ ?_).trans (ext_emit _ c .destroyed l ?_) <;> first | rfl | simpa [AffOK] using h

theorem ext_removeInLoop (s : Srv) (l c : Nat) : Ext s (removeInLoop s l c) := by
  unfold removeInLoop
  split
  · simp only [removeGuarded, dtorExpiresToken, Bool.and_self, if_true]; exact Ext.refl s
  · split
    · refine ext_emit _ c .abort l ?_; simp [AffOK]
    · rename_i h
      rw [handDestroy_rem]
      have : l = 0 := by simpa using h
      refine ((ext_erase s _).trans (ext_emit _ c _ l ?_)).trans (ext_enq _ _ _)
      split <;> simp [AffOK, this]

theorem ext_handleClose (s : Srv) (l c : Nat) (hl : l = (s.conn c).loop) : Ext s (handleClose s l c) := by
  unfold handleClose
  split
  · refine ext_emit _ c .abort l ?_; simp [AffOK]
  · rw [removeConnection_nf]
    have h1 : Ext s (((s.setConn c { s.conn c with st := .kDisconnected, cause := true }).emit c .down l).emit c .closeCb l) := by
      refine ((ext_setConn s c _ ?_ ?_).trans (ext_emit _ c .down l ?_)).trans (ext_emit _ c .closeCb l ?_) <;>
        first | rfl | simp [AffOK, hl]
    split
    · exact h1.trans (ext_removeInLoop _ _ _)
    · exact h1.trans (ext_enq _ _ _)

theorem ext_forceCloseInLoop (s : Srv) (l c : Nat) : Ext s (forceCloseInLoop s l c) := by
  unfold forceCloseInLoop
  split
  · refine ext_emit _ c .abort l ?_; simp [AffOK]
  · rename_i h
    split
    · exact ext_handleClose s l c (by simpa using h)
    · exact Ext.refl s

theorem ext_runTask (s : Srv) (l : Nat) (t : Task) (ht : t ≠ .srvDtor) : Ext s (runTask s l t) := by
  cases t <;> simp only [runTask]
  · exact ext_connectEstablished s l _
  · exact ext_removeInLoop s l _
  · exact ext_connectDestroyed s l _
  · exact ext_forceCloseInLoop s l _
  · exact Ext.refl s
  · exact absurd rfl ht


/-! ### the global invariant -/

/-- the part of the invariant that is not about a particular connection -/
structure GRest (s : Srv) : Prop where
  mapOK : MapOK s
  nextId : s.nextId = idInitial + s.n * idStep
  pool : s.pool = Pool.afterNext (Pool.start s.L) s.n
  assigned : ∀ c, c < s.n → (s.conn c).loop = if s.L = 0 then 0 else c % s.L + 1
  aff : ∀ e ∈ s.trace, AffOK s e
  mapDead : s.alive = false → s.map = []

structure GInv (s : Srv) : Prop where
  conns : ∀ c, c < s.n → CInv s c
  fresh : ∀ c, s.n ≤ c → (∀ l, ∀ t ∈ s.q l, about c t = false) ∧ life c s.trace = some {} ∧ s.conn c = {}
  rest : GRest s

theorem GInv.mapOK {s : Srv} (h : GInv s) : MapOK s := h.rest.mapOK

theorem GRest.ext {s s' : Srv} (h : GRest s) (he : Ext s s') : GRest s' := by
  obtain ⟨evs, htr, haff⟩ := he.trace
  refine ⟨⟨?_, ?_, ?_, ?_⟩, ?_, ?_, ?_, ?_, ?_⟩
  · intro e hem; rw [he.name]; exact h.mapOK.keys e (he.map.subset hem)
  · exact (he.map.map _).nodup h.mapOK.nodup
  · intro e hem; rw [he.n]; exact h.mapOK.lt e (he.map.subset hem)
  · intro c c' h1 h2 h3; rw [he.name, he.name] at h3; rw [he.n] at h1 h2; exact h.mapOK.names c c' h1 h2 h3
  · rw [he.nextId, he.n]; exact h.nextId
  · rw [he.pool, he.L, he.n]; exact h.pool
  · intro c hc; rw [he.n] at hc; rw [he.loop, he.L]; exact h.assigned c hc
  · intro e hem
    rw [htr] at hem
    rw [affOK_loop he.loop]
    rcases List.mem_append.mp hem with h1 | h1
    · exact h.aff e h1
    · exact haff e h1
  · intro ha
    rw [he.alive] at ha
    have := h.mapDead ha
    have h2 := he.map
    rw [this] at h2
    exact List.sublist_nil.mp h2

theorem agree_fresh {s s' : Srv} {c : Nat} (h : AgreeC s s' c)
    (hf : (∀ l, ∀ t ∈ s.q l, about c t = false) ∧ life c s.trace = some {} ∧ s.conn c = {}) :
    (∀ l, ∀ t ∈ s'.q l, about c t = false) ∧ life c s'.trace = some {} ∧ s'.conn c = {} := by
  refine ⟨fun l t ht => ?_, h.life.trans hf.2.1, by rw [h.conn]; exact hf.2.2⟩
  cases hab : about c t with
  | false => rfl
  | true =>
    have : t ∈ (s'.q l).filter (about c) := List.mem_filter.mpr ⟨ht, hab⟩
    rw [h.q l] at this
    have h2 := hf.1 l t (List.mem_filter.mp this).1
    rw [hab] at h2; cases h2

/-- a step that concerns (at most) one connection `c0` -/
theorem GInv.local {s s' : Srv} (h : GInv s) (he : Ext s s') (c0 : Nat)
    (hc0 : c0 < s.n → CInv s' c0) (hf0 : s.n ≤ c0 → AgreeC s s' c0)
    (hother : ∀ c, c ≠ c0 → Agree s s' c) : GInv s' := by
  refine ⟨?_, ?_, h.rest.ext he⟩
  · intro c hc
    rw [he.n] at hc
    by_cases h0 : c = c0
    · subst h0; exact hc0 hc
    · exact (h.conns c hc).agree (hother c h0)
  · intro c hc
    rw [he.n] at hc
    by_cases h0 : c = c0
    · subst h0; exact agree_fresh (hf0 hc) (h.fresh c hc)
    · exact agree_fresh (hother c h0).c (h.fresh c hc)

theorem GInv.mapOK_pop {s : Srv} (h : GInv s) (l : Nat) (t : Task) (rest : List Task) : MapOK (pop s l t rest) :=
  ⟨h.mapOK.keys, h.mapOK.nodup, h.mapOK.lt, h.mapOK.names⟩

/-- a loop runs a functor (other than the one that destroys the server) -/
theorem ginv_runHead_conn (s : Srv) (h : GInv s) (l : Nat) (t : Task) (rest : List Task) (hq : s.q l = t :: rest)
    (c0 : Nat) (ht : t.conn? = some c0) : GInv (runHead s l) := by
  rw [runHead_cons s l t rest hq]
  have hc0 : c0 < s.n := by
    apply Decidable.byContradiction; intro hge
    have := (h.fresh c0 (by omega)).1 l t (hq ▸ List.mem_cons_self)
    simp [about, ht] at this
  have hne : t ≠ .srvDtor := by intro h'; rw [h'] at ht; simp [Task.conn?] at ht
  refine h.local ((ext_pop s l t rest).trans (ext_runTask _ l t hne)) c0 (fun _ => ?_) (fun hge => absurd hc0 (by omega)) ?_
  · have hc := h.conns c0 hc0
    cases t <;> simp only [Task.conn?, Option.some.injEq, reduceCtorEq] at ht <;> subst ht
    · exact cinv_est s l _ rest hq hc
    · exact cinv_rem s h.mapOK l _ rest hq hc hc0
    · exact cinv_des s l _ rest hq hc
    · exact cinv_fcl s h.mapOK l _ hc0 rest hq hc
    · exact cinv_shut s l _ rest hq hc
  · intro c hcne
    have hab : about c t = false := by simp [about, ht, Ne.symm hcne]
    refine (agree_pop s l t rest hq hab).trans ?_
    exact agree_runTask _ (h.mapOK_pop l t rest) l t c0 ht hc0 (Ne.symm hcne)

end MuduoVerif.Owner
