import MuduoVerif.Generated.ClientSkel
/-!
# T1 tie for the statement order of the client engine (C12)

`Gen.ClientSkel.<fn>` is the statement skeleton `vlib/gen/clientskel.py` extracts from /repo's current
`Connector.cc` / `TcpClient.cc` on every run; `Decl.<fn>` (`Model/ClientSkelDecl.lean`) is the skeleton the
corresponding definition of `Model/Client.lean` implements.  Each `skeleton_<fn>` is closed by `decide`: it holds
exactly as long as the source performs the same significant actions, in the same order, under the same nesting
of the same (generated) guards as the model.  The guards themselves are tied by `Generated/Client.lean`.
`Props/C12.lean` re-exports `skeletons_agree` (`statement_order_tied`), so a change of statement order in one of
these functions breaks that property module.
-/
namespace MuduoVerif.ClientSkel

theorem skeleton_start : Gen.ClientSkel.start = Decl.start := by decide
theorem skeleton_startCycleInLoop : Gen.ClientSkel.startCycleInLoop = Decl.startCycleInLoop := by decide
theorem skeleton_startInLoop : Gen.ClientSkel.startInLoop = Decl.startInLoop := by decide
theorem skeleton_stop : Gen.ClientSkel.stop = Decl.stop := by decide
theorem skeleton_stopInLoop : Gen.ClientSkel.stopInLoop = Decl.stopInLoop := by decide
theorem skeleton_connect : Gen.ClientSkel.connect = Decl.connect := by decide
theorem skeleton_restart : Gen.ClientSkel.restart = Decl.restart := by decide
theorem skeleton_connecting : Gen.ClientSkel.connecting = Decl.connecting := by decide
theorem skeleton_removeAndResetChannel : Gen.ClientSkel.removeAndResetChannel = Decl.removeAndResetChannel := by decide
theorem skeleton_resetChannel : Gen.ClientSkel.resetChannel = Decl.resetChannel := by decide
theorem skeleton_handleWrite : Gen.ClientSkel.handleWrite = Decl.handleWrite := by decide
theorem skeleton_handleError : Gen.ClientSkel.handleError = Decl.handleError := by decide
theorem skeleton_retry : Gen.ClientSkel.retry = Decl.retry := by decide
theorem skeleton_cancelRetryTimer : Gen.ClientSkel.cancelRetryTimer = Decl.cancelRetryTimer := by decide
theorem skeleton_detailRemoveConnection : Gen.ClientSkel.detailRemoveConnection = Decl.detailRemoveConnection := by decide
theorem skeleton_detailRemoveConnector : Gen.ClientSkel.detailRemoveConnector = Decl.detailRemoveConnector := by decide
theorem skeleton_dtor : Gen.ClientSkel.dtor = Decl.dtor := by decide
theorem skeleton_clientConnect : Gen.ClientSkel.clientConnect = Decl.clientConnect := by decide
theorem skeleton_clientDisconnect : Gen.ClientSkel.clientDisconnect = Decl.clientDisconnect := by decide
theorem skeleton_clientStop : Gen.ClientSkel.clientStop = Decl.clientStop := by decide
theorem skeleton_newConnection : Gen.ClientSkel.newConnection = Decl.newConnection := by decide
theorem skeleton_removeConnection : Gen.ClientSkel.removeConnection = Decl.removeConnection := by decide

/-- every extracted skeleton is the declared one -/
theorem skeletons_agree :
    Gen.ClientSkel.start = Decl.start ∧
    Gen.ClientSkel.startCycleInLoop = Decl.startCycleInLoop ∧
    Gen.ClientSkel.startInLoop = Decl.startInLoop ∧
    Gen.ClientSkel.stop = Decl.stop ∧
    Gen.ClientSkel.stopInLoop = Decl.stopInLoop ∧
    Gen.ClientSkel.connect = Decl.connect ∧
    Gen.ClientSkel.restart = Decl.restart ∧
    Gen.ClientSkel.connecting = Decl.connecting ∧
    Gen.ClientSkel.removeAndResetChannel = Decl.removeAndResetChannel ∧
    Gen.ClientSkel.resetChannel = Decl.resetChannel ∧
    Gen.ClientSkel.handleWrite = Decl.handleWrite ∧
    Gen.ClientSkel.handleError = Decl.handleError ∧
    Gen.ClientSkel.retry = Decl.retry ∧
    Gen.ClientSkel.cancelRetryTimer = Decl.cancelRetryTimer ∧
    Gen.ClientSkel.detailRemoveConnection = Decl.detailRemoveConnection ∧
    Gen.ClientSkel.detailRemoveConnector = Decl.detailRemoveConnector ∧
    Gen.ClientSkel.dtor = Decl.dtor ∧
    Gen.ClientSkel.clientConnect = Decl.clientConnect ∧
    Gen.ClientSkel.clientDisconnect = Decl.clientDisconnect ∧
    Gen.ClientSkel.clientStop = Decl.clientStop ∧
    Gen.ClientSkel.newConnection = Decl.newConnection ∧
    Gen.ClientSkel.removeConnection = Decl.removeConnection :=
  ⟨skeleton_start, skeleton_startCycleInLoop, skeleton_startInLoop, skeleton_stop, skeleton_stopInLoop,
   skeleton_connect, skeleton_restart, skeleton_connecting, skeleton_removeAndResetChannel, skeleton_resetChannel,
   skeleton_handleWrite, skeleton_handleError, skeleton_retry, skeleton_cancelRetryTimer, skeleton_detailRemoveConnection,
   skeleton_detailRemoveConnector, skeleton_dtor, skeleton_clientConnect, skeleton_clientDisconnect,
   skeleton_clientStop, skeleton_newConnection, skeleton_removeConnection⟩

end MuduoVerif.ClientSkel
