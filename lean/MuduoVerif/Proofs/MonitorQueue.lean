import MuduoVerif.Proofs.MonitorBase
/-! Invariants of the BlockingQueue / BoundedBlockingQueue model (C14). -/
namespace MuduoVerif.Monitor
open MuduoVerif.Generated.Monitor

/-- elements put so far, in mutex order, each with its producer -/
def puts (log : List QEv) : List (Nat × Nat) :=
  log.flatMap fun e => match e.op with
    | .put v => [(e.t, v)]
    | _ => []

/-- elements returned by `take`/`drain` so far, in mutex order -/
def taken (log : List QEv) : List (Nat × Nat) :=
  log.flatMap fun e => match e.res with
    | .took p v => [(p, v)]
    | .drained xs => xs
    | _ => []

/-- which condition the current operation of `t` waits on -/
def QRole (prog : Nat → List QOp) (t : Nat) : Cond → Prop
  | .notEmpty => ∃ rest, prog t = .take :: rest
  | .notFull => ∃ v rest, prog t = .put v :: rest

structure QInv (s : QState) : Prop where
  st : s.toMon.Struct (QRole s.prog)
  sigE : s.ne.W ≠ [] → s.q.length ≤ s.ne.S.length
  sigF : ∀ c, s.cap = some c → s.nf.W ≠ [] → c - s.q.length ≤ s.nf.S.length
  bnd : ∀ c, s.cap = some c → s.q.length ≤ c
  unb : s.cap = none → s.nf.W = [] ∧ s.nf.S = []
  fifo : taken s.log ++ s.q = puts s.log

theorem exec_put_bounded (s : QState) (t v c : Nat) (rest : List QOp) (hc : s.cap = some c) :
    ∃ S', Shrunk s.nf.S S' t ∧ s.execOp t (.put v) rest =
      if s.q.length = c then { s with toMon := { s.toMon.setWs .notFull ⟨s.nf.W ++ [t], S'⟩ with owner := none } }
      else ({ s with toMon := (s.toMon.setWs .notFull ⟨s.nf.W, S'⟩).notifs [⟨false, .notEmpty⟩], q := s.q ++ [(t, v)] } : QState).fin
              t (.put v) rest .ok := by
  obtain ⟨S', hS, he⟩ := Mon.enter_facts s.toMon t .notFull (decide (s.q.length = c))
  refine ⟨S', hS, ?_⟩
  simp only [QState.execOp, QState.bounded, hc, Option.isSome_some, putF_bounded, putGuard_some, QState.enter, he]
  by_cases hg : s.q.length = c
  · simp [hg]
  · simp [hg, QState.notifs]


theorem QRole.upd {prog : Nat → List QOp} {t : Nat} {rest : List QOp} (x : Nat) (c : Cond) (hx : x ≠ t)
    (h : QRole prog x c) : QRole (upd prog t rest) x c := by
  cases c <;> simpa [QRole, upd_other _ _ _ _ hx] using h

theorem taken_append (l : List QEv) (e : QEv) : taken (l ++ [e]) = taken l ++ taken [e] := by
  simp [taken, List.flatMap_append]
theorem puts_append (l : List QEv) (e : QEv) : puts (l ++ [e]) = puts l ++ puts [e] := by
  simp [puts, List.flatMap_append]

namespace QState
@[simp] theorem fin_ne (s : QState) (t op rest r) : (s.fin t op rest r).ne = s.ne := rfl
@[simp] theorem fin_nf (s : QState) (t op rest r) : (s.fin t op rest r).nf = s.nf := rfl
@[simp] theorem fin_q (s : QState) (t op rest r) : (s.fin t op rest r).q = s.q := rfl
@[simp] theorem fin_cap (s : QState) (t op rest r) : (s.fin t op rest r).cap = s.cap := rfl
@[simp] theorem fin_log (s : QState) (t op rest r) : (s.fin t op rest r).log = s.log ++ [⟨t, op, r⟩] := rfl
@[simp] theorem fin_prog (s : QState) (t op rest r) : (s.fin t op rest r).prog = upd s.prog t rest := rfl
theorem fin_toMon (s : QState) (t op rest r) : (s.fin t op rest r).toMon = { s.toMon with owner := none } := rfl
end QState

/-- `put` past its wait: push, notify `notEmpty_`, unlock -/
theorem qinv_put_go {s : QState} {t v : Nat} {rest : List QOp} (h : QInv s) (hp : s.prog t = .put v :: rest)
    (m3 : Mon) (st3 : m3.Struct (QRole s.prog)) (ho3 : m3.owner = some t) (hne : OneSpec s.ne m3.ne)
    (hnfW : m3.nf.W = s.nf.W) (hnfS : s.nf.S.length ≤ m3.nf.S.length + 1) (htS : t ∉ m3.nf.S)
    (hroom : ∀ c, s.cap = some c → s.q.length < c) (hunb : s.cap = none → m3.nf = s.nf) :
    QInv (({ s with toMon := m3, q := s.q ++ [(t, v)] } : QState).fin t (.put v) rest .ok) := by
  refine ⟨?_, ?_, ?_, ?_, ?_, ?_⟩
  · rw [QState.fin_toMon, QState.fin_prog]
    refine st3.release (R' := QRole (upd s.prog t rest)) (t := t) ho3 ?_ (fun x c' hx hr => QRole.upd x c' hx hr)
    intro c'
    cases c'
    · exact (st3.not_parked (c := .notEmpty) (by simp [QRole, hp])).2
    · exact htS
  · simp only [QState.fin_ne, QState.fin_q]
    show m3.ne.W ≠ [] → (s.q ++ [(t, v)]).length ≤ m3.ne.S.length
    intro hW
    have hW0 : s.ne.W ≠ [] := by
      intro h0; apply hW
      rw [hne.nil h0]; exact h0
    have := h.sigE hW0
    have := hne.S_len hW0
    simp only [List.length_append, List.length_singleton]
    omega
  · intro c' hc' hW
    simp only [QState.fin_nf, QState.fin_q, QState.fin_cap] at hc' hW ⊢
    change s.cap = some c' at hc'
    change m3.nf.W ≠ [] at hW
    show c' - (s.q ++ [(t, v)]).length ≤ m3.nf.S.length
    rw [hnfW] at hW
    have := h.sigF c' hc' hW
    simp only [List.length_append, List.length_singleton]
    omega
  · intro c' hc'
    simp only [QState.fin_q, QState.fin_cap] at hc' ⊢
    change s.cap = some c' at hc'
    show (s.q ++ [(t, v)]).length ≤ c'
    have := hroom c' hc'
    simp only [List.length_append, List.length_singleton]
    omega
  · intro hc'
    simp only [QState.fin_nf, QState.fin_cap] at hc' ⊢
    change s.cap = none at hc'
    show m3.nf.W = [] ∧ m3.nf.S = []
    rw [hunb hc']; exact h.unb hc'
  · simp only [QState.fin_q, QState.fin_log]
    show taken (s.log ++ [_]) ++ (s.q ++ [(t, v)]) = puts (s.log ++ [_])
    rw [taken_append, puts_append, ← h.fifo]
    simp [taken, puts]

theorem qinv_put_bounded {s : QState} {t v c : Nat} {rest : List QOp} (h : QInv s) (ho : s.owner = some t)
    (hp : s.prog t = .put v :: rest) (hc : s.cap = some c) : QInv (s.execOp t (.put v) rest) := by
  obtain ⟨S', hS, he⟩ := exec_put_bounded s t v c rest hc
  rw [he]
  have hsh := Mon.shrink_facts (h.st.nodup .notFull) hS
  by_cases hg : s.q.length = c
  · simp only [hg, if_true]
    refine ⟨h.st.park (c := .notFull) ho ⟨v, rest, hp⟩ hS, h.sigE, ?_, h.bnd, ?_, h.fifo⟩
    rotate_left
    · intro hc'; have : s.cap = none := hc'; rw [hc] at this; cases this
    intro c' hc' _
    have : c' = c := by
      have : s.cap = some c' := hc'
      rw [hc] at this; exact (Option.some.inj this).symm
    subst this
    show c' - s.q.length ≤ _
    omega
  · simp only [hg, if_false]
    obtain ⟨ho3, hoth, hone⟩ := Mon.notifs_one (s.toMon.setWs .notFull ⟨s.nf.W, S'⟩) .notEmpty
    have hnf := hoth .notFull (by decide)
    refine qinv_put_go h hp _ ((h.st.go (c := .notFull) hS).notifs _) (by rw [ho3]; simpa using ho) hone ?_ ?_ ?_ ?_
      (by intro h0; rw [hc] at h0; cases h0)
    · show ((Mon.notifs _ _).ws .notFull).W = _; rw [hnf]; rfl
    · show _ ≤ ((Mon.notifs _ _).ws .notFull).S.length + 1; rw [hnf]; exact hsh.2.2.1
    · show t ∉ ((Mon.notifs _ _).ws .notFull).S; rw [hnf]; exact hsh.1
    · intro c' hc'
      rw [hc] at hc'; cases hc'
      have := h.bnd c hc
      omega


theorem exec_put_unbounded (s : QState) (t v : Nat) (rest : List QOp) (hc : s.cap = none) :
    s.execOp t (.put v) rest =
      ({ s with toMon := s.toMon.notifs [⟨false, .notEmpty⟩], q := s.q ++ [(t, v)] } : QState).fin t (.put v) rest .ok := by
  simp only [QState.execOp, QState.bounded, hc, Option.isSome_none, putF_unbounded, QState.enter, Mon.enter, QState.notifs]

theorem qinv_put_unbounded {s : QState} {t v : Nat} {rest : List QOp} (h : QInv s) (ho : s.owner = some t)
    (hp : s.prog t = .put v :: rest) (hc : s.cap = none) : QInv (s.execOp t (.put v) rest) := by
  rw [exec_put_unbounded s t v rest hc]
  obtain ⟨ho3, hoth, hone⟩ := Mon.notifs_one s.toMon .notEmpty
  have hnf := hoth .notFull (by decide)
  have hu := h.unb hc
  refine qinv_put_go h hp _ (h.st.notifs _) (by rw [ho3]; exact ho) hone ?_ ?_ ?_ ?_ ?_
  · show ((Mon.notifs _ _).ws .notFull).W = _; rw [hnf]; rfl
  · show _ ≤ ((Mon.notifs _ _).ws .notFull).S.length + 1; rw [hnf]; exact Nat.le_succ _
  · show t ∉ ((Mon.notifs _ _).ws .notFull).S; rw [hnf]; show t ∉ s.nf.S; rw [hu.2]; exact List.not_mem_nil
  · intro c' hc'; rw [hc] at hc'; cases hc'
  · intro _; exact hnf

/-! ### take -/

theorem exec_take (s : QState) (t : Nat) (rest : List QOp) :
    ∃ S', Shrunk s.ne.S S' t ∧ s.execOp t .take rest =
      if s.q.length = 0 then { s with toMon := { s.toMon.setWs .notEmpty ⟨s.ne.W ++ [t], S'⟩ with owner := none } }
      else match s.q with
        | [] => ({ s with toMon := s.toMon.setWs .notEmpty ⟨s.ne.W, S'⟩ } : QState).fin t .take rest .abort
        | x :: q' =>
          ({ s with toMon := (s.toMon.setWs .notEmpty ⟨s.ne.W, S'⟩).notifs (if s.cap.isSome then [⟨false, .notFull⟩] else []),
                    q := q' } : QState).fin t .take rest (.took x.1 x.2) := by
  obtain ⟨S', hS, he⟩ := Mon.enter_facts s.toMon t .notEmpty (decide (s.q.length = 0))
  refine ⟨S', hS, ?_⟩
  cases hc : s.cap with
  | none =>
    simp only [QState.execOp, QState.bounded, hc, Option.isSome_none, takeF_unbounded, takeGuard_eq, QState.enter, he]
    by_cases hg : s.q.length = 0
    · simp [hg]
    · simp only [hg, decide_false, Bool.false_eq_true, if_false]
      cases hq : s.q <;> simp [QState.notifs, Mon.notifs]
  | some c =>
    simp only [QState.execOp, QState.bounded, hc, Option.isSome_some, takeF_bounded, takeGuard_eq, QState.enter, he]
    by_cases hg : s.q.length = 0
    · simp [hg]
    · simp only [hg, decide_false, Bool.false_eq_true, if_false]
      cases hq : s.q <;> simp [QState.notifs]


theorem qinv_take_go {s : QState} {t : Nat} {x : Nat × Nat} {q' : List (Nat × Nat)} {rest : List QOp} (h : QInv s)
    (hp : s.prog t = .take :: rest) (hq : s.q = x :: q')
    (m3 : Mon) (st3 : m3.Struct (QRole s.prog)) (ho3 : m3.owner = some t)
    (hneW : m3.ne.W = s.ne.W) (hneS : s.ne.S.length ≤ m3.ne.S.length + 1) (htS : t ∉ m3.ne.S)
    (hnf : (∃ c, s.cap = some c) ∧ OneSpec s.nf m3.nf ∨ s.cap = none ∧ m3.nf = s.nf) :
    QInv (({ s with toMon := m3, q := q' } : QState).fin t .take rest (.took x.1 x.2)) := by
  have hlen : s.q.length = q'.length + 1 := by rw [hq]; rfl
  refine ⟨?_, ?_, ?_, ?_, ?_, ?_⟩
  · rw [QState.fin_toMon, QState.fin_prog]
    refine st3.release (R' := QRole (upd s.prog t rest)) (t := t) ho3 ?_ (fun x c' hx hr => QRole.upd x c' hx hr)
    intro c'
    cases c'
    · exact htS
    · exact (st3.not_parked (c := .notFull) (by simp [QRole, hp])).2
  · simp only [QState.fin_ne, QState.fin_q]
    show m3.ne.W ≠ [] → q'.length ≤ m3.ne.S.length
    intro hW
    rw [hneW] at hW
    have := h.sigE hW
    omega
  · intro c' hc' hW
    simp only [QState.fin_nf, QState.fin_q, QState.fin_cap] at hc' hW ⊢
    change s.cap = some c' at hc'
    change m3.nf.W ≠ [] at hW
    show c' - q'.length ≤ m3.nf.S.length
    rcases hnf with ⟨_, hone⟩ | ⟨hn, _⟩
    · have hW0 : s.nf.W ≠ [] := by
        intro h0; apply hW
        rw [hone.nil h0]; exact h0
      have := h.sigF c' hc' hW0
      have := hone.S_len hW0
      have := h.bnd c' hc'
      omega
    · rw [hn] at hc'; cases hc'
  · intro c' hc'
    simp only [QState.fin_q, QState.fin_cap] at hc' ⊢
    change s.cap = some c' at hc'
    show q'.length ≤ c'
    have := h.bnd c' hc'
    omega
  · intro hc'
    simp only [QState.fin_nf, QState.fin_cap] at hc' ⊢
    change s.cap = none at hc'
    show m3.nf.W = [] ∧ m3.nf.S = []
    rcases hnf with ⟨⟨c, hc⟩, _⟩ | ⟨_, he⟩
    · rw [hc] at hc'; cases hc'
    · rw [he]; exact h.unb hc'
  · simp only [QState.fin_q, QState.fin_log]
    show taken (s.log ++ [_]) ++ q' = puts (s.log ++ [_])
    rw [taken_append, puts_append, ← h.fifo, hq]
    simp [taken, puts]

theorem qinv_take {s : QState} {t : Nat} {rest : List QOp} (h : QInv s) (ho : s.owner = some t)
    (hp : s.prog t = .take :: rest) : QInv (s.execOp t .take rest) := by
  obtain ⟨S', hS, he⟩ := exec_take s t rest
  rw [he]
  have hsh := Mon.shrink_facts (h.st.nodup .notEmpty) hS
  by_cases hg : s.q.length = 0
  · simp only [hg, if_true]
    refine ⟨h.st.park (c := .notEmpty) ho ⟨rest, hp⟩ hS, ?_, h.sigF, h.bnd, h.unb, h.fifo⟩
    intro _
    show s.q.length ≤ _
    omega
  · simp only [hg, if_false]
    cases hq : s.q with
    | nil => rw [hq] at hg; exact absurd rfl hg
    | cons x q' =>
      simp only
      have hcap : s.cap = none ∨ ∃ c, s.cap = some c := by cases s.cap <;> simp
      rcases hcap with hc | ⟨c, hc⟩
      · have hb : s.cap.isSome = false := by rw [hc]; rfl
        simp only [hb, Bool.false_eq_true, if_false]
        show QInv (({ s with toMon := s.toMon.setWs .notEmpty ⟨s.ne.W, S'⟩, q := q' } : QState).fin t .take rest (.took x.1 x.2))
        refine qinv_take_go h hp hq (s.toMon.setWs .notEmpty ⟨s.ne.W, S'⟩) (h.st.go (c := .notEmpty) hS) ?_ ?_ ?_ ?_ (Or.inr ⟨hc, rfl⟩)
        · simpa using ho
        · rfl
        · exact hsh.2.2.1
        · exact hsh.1
      · have hb : s.cap.isSome = true := by rw [hc]; rfl
        simp only [hb, if_true]
        obtain ⟨ho3, hoth, hone⟩ := Mon.notifs_one (s.toMon.setWs .notEmpty ⟨s.ne.W, S'⟩) .notFull
        have hne := hoth .notEmpty (by decide)
        refine qinv_take_go h hp hq _ ((h.st.go (c := .notEmpty) hS).notifs _) (ho3.trans (by simpa using ho)) ?_ ?_ ?_
          (Or.inl ⟨⟨c, hc⟩, hone⟩)
        · show ((Mon.notifs _ _).ws .notEmpty).W = _; rw [hne]; rfl
        · show _ ≤ ((Mon.notifs _ _).ws .notEmpty).S.length + 1; rw [hne]; exact hsh.2.2.1
        · show t ∉ ((Mon.notifs _ _).ws .notEmpty).S; rw [hne]; exact hsh.1

/-! ### operations that never wait -/

/-- an operation that neither waits nor notifies: the queue becomes `q'` (no longer than before) -/
theorem qinv_plain {s : QState} {t : Nat} {op : QOp} {rest : List QOp} {r : QRes} {q' : List (Nat × Nat)} (h : QInv s)
    (ho : s.owner = some t) (hp : s.prog t = op :: rest) (hop : op ≠ .take ∧ ∀ v, op ≠ .put v)
    (hq : q' = s.q ∨ (q' = [] ∧ s.cap = none))
    (hf : taken [⟨t, op, r⟩] ++ q' = s.q) :
    QInv (({ s with q := q' } : QState).fin t op rest r) := by
  have hlen : q'.length ≤ s.q.length := by rcases hq with rfl | ⟨rfl, _⟩ <;> simp
  refine ⟨?_, ?_, ?_, ?_, h.unb, ?_⟩
  · rw [QState.fin_toMon, QState.fin_prog]
    refine h.st.release (R' := QRole (upd s.prog t rest)) (t := t) ho ?_ (fun x c' hx hr => QRole.upd x c' hx hr)
    intro c'
    cases c'
    · refine (h.st.not_parked (c := .notEmpty) ?_).2
      rintro ⟨r', hr'⟩; rw [hp] at hr'; exact hop.1 (List.cons.inj hr').1
    · refine (h.st.not_parked (c := .notFull) ?_).2
      rintro ⟨v, r', hr'⟩; rw [hp] at hr'; exact hop.2 v (List.cons.inj hr').1
  · intro hW
    have := h.sigE hW
    show q'.length ≤ s.ne.S.length
    omega
  · intro c hc hW
    rcases hq with rfl | ⟨_, hn⟩
    · exact h.sigF c hc hW
    · have : s.cap = some c := hc
      rw [hn] at this; cases this
  · intro c hc
    have := h.bnd c hc
    show q'.length ≤ c
    omega
  · simp only [QState.fin_q, QState.fin_log]
    show taken (s.log ++ [_]) ++ q' = puts (s.log ++ [_])
    rw [taken_append, puts_append, List.append_assoc, hf, h.fifo]
    cases op <;> simp [puts] at hop ⊢


/-! ### every step -/

theorem qinv_exec {s : QState} {t : Nat} {op : QOp} {rest : List QOp} (h : QInv s) (ho : s.owner = some t)
    (hp : s.prog t = op :: rest) : QInv (s.execOp t op rest) := by
  have hcap : s.cap = none ∨ ∃ c, s.cap = some c := by cases s.cap <;> simp
  cases op with
  | put v =>
    rcases hcap with hc | ⟨c, hc⟩
    · exact qinv_put_unbounded h ho hp hc
    · exact qinv_put_bounded h ho hp hc
  | take => exact qinv_take h ho hp
  | drain =>
    rcases hcap with hc | ⟨c, hc⟩
    · have hb : s.bounded = false := by simp [QState.bounded, hc]
      simp only [QState.execOp, hb, Bool.false_eq_true, if_false]
      exact qinv_plain h ho hp (by simp) (Or.inr ⟨rfl, hc⟩) (by simp [taken])
    · have hb : s.bounded = true := by simp [QState.bounded, hc]
      simp only [QState.execOp, hb, if_true]
      exact qinv_plain (q' := s.q) h ho hp (by simp) (Or.inl rfl) (by simp [taken])
  | size => exact qinv_plain (q' := s.q) h ho hp (by simp) (Or.inl rfl) (by simp [taken])
  | empty => exact qinv_plain (q' := s.q) h ho hp (by simp) (Or.inl rfl) (by simp [taken])
  | full => exact qinv_plain (q' := s.q) h ho hp (by simp) (Or.inl rfl) (by simp [taken])
  | capacity => exact qinv_plain (q' := s.q) h ho hp (by simp) (Or.inl rfl) (by simp [taken])

theorem qinv_step {s s' : QState} {a : Act} (h : QInv s) (hs : qstep s a = some s') : QInv s' := by
  cases a with
  | acq t =>
    simp only [qstep] at hs
    split at hs
    · rename_i hc
      cases hs
      refine ⟨h.st.acq t ?_, h.sigE, h.sigF, h.bnd, h.unb, h.fifo⟩
      intro c; cases c
      · exact hc.2.2.1
      · exact hc.2.2.2
    · cases hs
  | body t =>
    simp only [qstep] at hs
    split at hs
    · rename_i ho
      split at hs
      · rename_i hp
        cases hs
        refine ⟨?_, h.sigE, h.sigF, h.bnd, h.unb, h.fifo⟩
        refine h.st.release (R' := QRole s.prog) (t := t) ho ?_ (fun _ _ _ hr => hr)
        intro c
        refine (h.st.not_parked (c := c) ?_).2
        cases c <;> simp [QRole, hp]
      · rename_i op rest hp
        cases hs
        exact qinv_exec h ho hp
    · cases hs
  | spur t c =>
    simp only [qstep] at hs
    split at hs
    · rename_i ht
      cases hs
      refine ⟨h.st.spur c t ht, ?_, ?_, h.bnd, ?_, h.fifo⟩
      · cases c
        · show (s.ne.W.erase t) ≠ [] → s.q.length ≤ (s.ne.S ++ [t]).length
          intro hW
          have : s.ne.W ≠ [] := by intro h0; rw [h0] at hW; exact hW rfl
          have := h.sigE this
          simp only [List.length_append, List.length_singleton]; omega
        · exact h.sigE
      · cases c
        · exact h.sigF
        · intro k hk
          show (s.nf.W.erase t) ≠ [] → k - s.q.length ≤ (s.nf.S ++ [t]).length
          intro hW
          have : s.nf.W ≠ [] := by intro h0; rw [h0] at hW; exact hW rfl
          have := h.sigF k hk this
          simp only [List.length_append, List.length_singleton]; omega
      · cases c
        · exact h.unb
        · intro hn
          have := (h.unb hn).1
          have ht' : t ∈ s.nf.W := ht
          rw [this] at ht'; cases ht'
    · cases hs

theorem qinv_init (cap : Option Nat) (prog : Nat → List QOp) (sched : List Nat) : QInv (qinit cap prog sched) := by
  refine ⟨⟨?_, ?_, ?_⟩, ?_, ?_, ?_, ?_, ?_⟩
  · intro c; cases c <;> exact List.nodup_nil
  · intro u c hu; cases hu
  · intro c t ht; cases c <;> simp [qinit, Mon.init, Mon.ws] at ht
  · intro hW; exact absurd rfl hW
  · intro c _ hW; exact absurd rfl hW
  · intro c _; exact Nat.zero_le _
  · intro _; exact ⟨rfl, rfl⟩
  · rfl

theorem qinv_reach {s0 s : QState} (h0 : QInv s0) (hr : QReach s0 s) : QInv s := by
  induction hr with
  | refl => exact h0
  | step a _ hs ih => exact qinv_step ih hs

/-! ### states in which no thread can move -/

theorem q_blocked_facts {s : QState} (h : QInv s) (hb : QBlocked s) :
    s.owner = none ∧ s.ne.S = [] ∧ s.nf.S = [] := by
  have hown : s.owner = none := by
    cases ho : s.owner with
    | none => rfl
    | some u =>
      have := (hb u).2
      simp only [qstep, ho, if_true] at this
      split at this <;> cases this
  have key : ∀ c u, u ∈ (s.ws c).S → False := by
    intro c u hu
    have hrole := h.st.role c u (Or.inr hu)
    have hp : s.prog u ≠ [] := by
      cases c
      · obtain ⟨r, hr⟩ := hrole; rw [hr]; simp
      · obtain ⟨v, r, hr⟩ := hrole; rw [hr]; simp
    have hW : ∀ c', u ∉ (s.ws c').W := by
      intro c' hx
      have hrole' := h.st.role c' u (Or.inl hx)
      cases c <;> cases c'
      · have := List.nodup_append.mp (h.st.nodup .notEmpty)
        exact this.2.2 u hx u hu rfl
      · obtain ⟨r, hr⟩ := hrole; obtain ⟨v, r', hr'⟩ := hrole'; rw [hr] at hr'; cases hr'
      · obtain ⟨v, r, hr⟩ := hrole; obtain ⟨r', hr'⟩ := hrole'; rw [hr] at hr'; cases hr'
      · have := List.nodup_append.mp (h.st.nodup .notFull)
        exact this.2.2 u hx u hu rfl
    have := (hb u).1
    simp only [qstep] at this
    rw [if_pos ⟨hown, hp, hW .notEmpty, hW .notFull⟩] at this
    cases this
  refine ⟨hown, ?_, ?_⟩
  · cases hS : s.ne.S with
    | nil => rfl
    | cons u l => exact (key .notEmpty u (by show u ∈ s.ne.S; rw [hS]; simp)).elim
  · cases hS : s.nf.S with
    | nil => rfl
    | cons u l => exact (key .notFull u (by show u ∈ s.nf.S; rw [hS]; simp)).elim


/-! ### program order and the capacity -/

/-- the operations thread `p` has completed, in order -/
def opsOf (p : Nat) (log : List QEv) : List QOp := (log.filter (fun e => e.t = p)).map (·.op)

theorem exec_shape (s : QState) (t : Nat) (op : QOp) (rest : List QOp) :
    (s.execOp t op rest).cap = s.cap ∧
      (((s.execOp t op rest).prog = s.prog ∧ (s.execOp t op rest).log = s.log) ∨
        ∃ r, (s.execOp t op rest).prog = upd s.prog t rest ∧ (s.execOp t op rest).log = s.log ++ [⟨t, op, r⟩]) := by
  have hcap : s.cap = none ∨ ∃ c, s.cap = some c := by cases s.cap <;> simp
  cases op with
  | put v =>
    rcases hcap with hc | ⟨c, hc⟩
    · rw [exec_put_unbounded s t v rest hc]; exact ⟨rfl, Or.inr ⟨_, rfl, rfl⟩⟩
    · obtain ⟨S', _, he⟩ := exec_put_bounded s t v c rest hc
      rw [he]; split
      · exact ⟨rfl, Or.inl ⟨rfl, rfl⟩⟩
      · exact ⟨rfl, Or.inr ⟨_, rfl, rfl⟩⟩
  | take =>
    obtain ⟨S', _, he⟩ := exec_take s t rest
    rw [he]; split
    · exact ⟨rfl, Or.inl ⟨rfl, rfl⟩⟩
    · split
      · exact ⟨rfl, Or.inr ⟨_, rfl, rfl⟩⟩
      · exact ⟨rfl, Or.inr ⟨_, rfl, rfl⟩⟩
  | drain =>
    simp only [QState.execOp]; split
    · exact ⟨rfl, Or.inr ⟨_, rfl, rfl⟩⟩
    · exact ⟨rfl, Or.inr ⟨_, rfl, rfl⟩⟩
  | size => exact ⟨rfl, Or.inr ⟨_, rfl, rfl⟩⟩
  | empty => exact ⟨rfl, Or.inr ⟨_, rfl, rfl⟩⟩
  | full => exact ⟨rfl, Or.inr ⟨_, rfl, rfl⟩⟩
  | capacity => exact ⟨rfl, Or.inr ⟨_, rfl, rfl⟩⟩

theorem qstep_shape {s s' : QState} {a : Act} (hs : qstep s a = some s') :
    s'.cap = s.cap ∧ ((s'.prog = s.prog ∧ s'.log = s.log) ∨
      ∃ t op rest r, s.prog t = op :: rest ∧ s'.prog = upd s.prog t rest ∧ s'.log = s.log ++ [⟨t, op, r⟩]) := by
  cases a with
  | acq t =>
    simp only [qstep] at hs
    split at hs
    · cases hs; exact ⟨rfl, Or.inl ⟨rfl, rfl⟩⟩
    · cases hs
  | body t =>
    simp only [qstep] at hs
    split at hs
    · split at hs
      · cases hs; exact ⟨rfl, Or.inl ⟨rfl, rfl⟩⟩
      · rename_i op rest hp
        cases hs
        obtain ⟨h1, h2⟩ := exec_shape s t op rest
        refine ⟨h1, ?_⟩
        rcases h2 with h2 | ⟨r, h2, h3⟩
        · exact Or.inl h2
        · exact Or.inr ⟨t, op, rest, r, hp, h2, h3⟩
    · cases hs
  | spur t c =>
    simp only [qstep] at hs
    split at hs
    · cases hs; exact ⟨rfl, Or.inl ⟨rfl, rfl⟩⟩
    · cases hs

theorem qreach_cap {s0 s : QState} (hr : QReach s0 s) : s.cap = s0.cap := by
  induction hr with
  | refl => rfl
  | step a _ hs ih => rw [(qstep_shape hs).1, ih]

theorem qreach_hist {s0 s : QState} (hr : QReach s0 s) (h0 : s0.log = []) (p : Nat) :
    opsOf p s.log ++ s.prog p = s0.prog p := by
  induction hr with
  | refl => simp [opsOf, h0]
  | step a _ hs ih =>
    rcases (qstep_shape hs).2 with ⟨h1, h2⟩ | ⟨t, op, rest, r, hp, h1, h2⟩
    · rw [h1, h2]; exact ih
    · rw [h1, h2, ← ih]
      by_cases hpt : p = t
      · subst hpt
        simp [opsOf, List.filter_append, hp]
      · have : ¬ t = p := fun h => hpt h.symm
        simp [opsOf, List.filter_append, upd_other _ _ _ _ hpt, this]

/-! ### concrete runs (for the non-vacuity examples) -/

def runQ (s : QState) : List Act → Option QState
  | [] => some s
  | a :: as => (qstep s a).bind fun s' => runQ s' as

theorem runQ_reach {s0 s : QState} {as : List Act} (h : runQ s0 as = some s) : QReach s0 s := by
  induction as generalizing s0 with
  | nil => cases h; exact .refl
  | cons a as ih =>
    simp only [runQ] at h
    cases hs : qstep s0 a with
    | none => rw [hs] at h; cases h
    | some s1 =>
      rw [hs] at h
      have h1 : QReach s1 s := ih h
      clear ih h
      induction h1 with
      | refl => exact .step a .refl hs
      | step b _ hb ih2 => exact .step b ih2 hb

/-- capacity 1, a consumer that arrives first and waits, two puts of one producer: both come out, in order -/
def demoProg : Nat → List QOp
  | 1 => [.put 5, .put 6]
  | 2 => [.take, .take]
  | _ => []

def demoActs : List Act :=
  [.acq 2, .body 2, .acq 1, .body 1, .acq 1, .body 1, .acq 2, .body 2, .acq 1, .body 1, .acq 2, .body 2]

/-- a lone consumer: a reachable state in which nobody can move (the hypotheses of `nobody_stuck`) -/
def loneProg : Nat → List QOp := fun t => if t = 1 then [.take] else []

def loneParked : QState :=
  { toMon := { owner := none, ne := { W := [1], S := [] }, nf := {}, sched := [] }, cap := none, q := [],
    prog := loneProg, log := [] }

end MuduoVerif.Monitor
