import MuduoVerif.Model.AsyncLog
import Mathlib.Data.List.Basic
/-! Lemmas about the `AsyncLogging` transition system (C16, concurrent half): closed forms of the generated
statement sequences (these are the places where a changed statement list stops the proofs), the invariant
`AInv` and its preservation by every step, and who writes the ghost fields. -/
set_option linter.unusedSimpArgs false
namespace MuduoVerif.AsyncLog
open MuduoVerif.Gen.LogFile (fixedAppendFits)
open MuduoVerif.Gen.AsyncLog

/-! ## ties between the two space tests -/

theorem frontFits_fixed (a l : Nat) (h : frontFits a l) : fixedAppendFits a l := by
  simp only [frontFits, fixedAppendFits] at *; omega

theorem fixed_frontFits (a l : Nat) (h : fixedAppendFits a l) : frontFits a l := by
  simp only [frontFits, fixedAppendFits] at *; omega

theorem empty_takes (cap l : Nat) (h : l < cap) : fixedAppendFits (avail cap []) l := by
  unfold fixedAppendFits avail used; simpa using h

theorem full_refuses (cap : Nat) (b : Buf) (l : Nat) (h : cap ≤ l) : ¬ frontFits (avail cap b) l ∧ ¬ fixedAppendFits (avail cap b) l := by
  unfold frontFits fixedAppendFits avail; omega

/-! ## closed forms of the generated statement sequences -/

theorem runOps_append (r : Rec) (a b : List Op) (s : St) : runOps r (a ++ b) s = runOps r b (runOps r a s) := by
  simp [runOps, List.foldl_append]

theorem runOps_frontThen (r : Rec) (s : St) (h : s.curOk = true) :
    runOps r frontThen s = { s with cur := bufAppend s.cap s.cur r } := by
  simp [runOps, frontThen, exec, h]

theorem runOps_frontElse (r : Rec) (s : St) (h : s.curOk = true) :
    runOps r frontElse s =
      { s with bufs := s.bufs ++ [s.cur], cur := bufAppend s.cap [] r, curOk := true, hasNext := false,
               woken := notified s } := by
  simp [runOps, frontElse, exec, h, notified]

theorem runOps_loopCollect (s : St) (h : s.curOk = true) :
    runOps noRec loopCollect s =
      { s with toWrite := s.bufs ++ [s.cur], bufs := s.toWrite, cur := [], curOk := s.nb1, nb1 := false,
               hasNext := s.hasNext || s.nb2, nb2 := s.hasNext && s.nb2 } := by
  cases hn : s.hasNext <;> simp [runOps, loopCollect, exec, h, hn]

theorem runOps_finalCollect (s : St) (h : s.curOk = true) :
    runOps noRec finalCollect s =
      { s with toWrite := s.bufs ++ [s.cur], bufs := s.toWrite, cur := [], curOk := s.nb1, nb1 := false } := by
  simp [runOps, finalCollect, exec, h]

theorem runOps_finalWrite (s : St) :
    runOps noRec finalWrite s =
      { s with disk := s.disk ++ items s.toWrite, ledger := s.ledger ++ keeps s.toWrite ++ s.pending, pending := [],
               flushed := (s.disk ++ items s.toWrite).length } := by
  simp [runOps, finalWrite, exec]

/-- the part of a cycle after the write: shrink, recycle, clear, flush -/
def tailOps : List Op := [.shrink, .recycle1, .recycle2, .clear, .flush]

theorem loopWrite_split : loopWrite = [.valve, .writeAll] ++ tailOps := by
  simp [loopWrite, tailOps]

theorem runOps_tail (t : St) (h1 : t.nb1 = false) (hne : t.toWrite ≠ [])
    (h2 : t.nb2 = false → 2 ≤ t.toWrite.length) (hf : t.fault = false) :
    runOps noRec tailOps t = { t with toWrite := [], nb1 := true, nb2 := true, flushed := t.disk.length } := by
  obtain ⟨cap, cur, curOk, hasNext, bufs, running, pc, woken, toWrite, nb1, nb2, disk, flushed, errNotes, fault, appended,
    ledger, pending, started, stopCalled, stopReturned, atStop⟩ := t
  simp only at h1 h2 hf hne
  subst h1 hf
  match toWrite, hne, h2 with
  | [a], _, h2 =>
    cases nb2 <;> simp_all [runOps, tailOps, exec, shrinkIf, shrinkTo]
  | [a, b], _, _ =>
    cases nb2 <;> simp [runOps, tailOps, exec, shrinkIf, shrinkTo]
  | a :: b :: c :: rest, _, _ =>
    cases nb2 <;> simp [runOps, tailOps, exec, shrinkIf, shrinkTo]

theorem runOps_valveWrite (s : St) (hp : s.pending = []) :
    runOps noRec [.valve, .writeAll] s =
      if overloaded s.toWrite.length then
        { s with disk := s.disk ++ [Item.note (dropAnnounce s.toWrite.length)] ++ items (s.toWrite.take dropKeep),
                 errNotes := s.errNotes ++ [dropAnnounce s.toWrite.length],
                 ledger := s.ledger ++ keeps (s.toWrite.take dropKeep) ++ [Led.dropped (s.toWrite.drop dropKeep)],
                 pending := [], toWrite := s.toWrite.take dropKeep }
      else { s with disk := s.disk ++ items s.toWrite, ledger := s.ledger ++ keeps s.toWrite, pending := [] } := by
  by_cases h : overloaded s.toWrite.length <;>
    simp [runOps, exec, h, hp, valveAnnouncesFile, valveAnnouncesStderr]

theorem startOps_run (s : St) (h : s.pc = .idle) :
    runOps noRec startOps s = { s with running := true, pc := .test } := by
  simp [runOps, startOps, exec, h]

theorem stopPrefix_run (s : St) :
    runOps noRec stopPrefix s = { s with running := false, woken := notified s } := by
  simp [runOps, stopPrefix, stopOps, exec, notified]

theorem join_in_stop : Op.join ∈ stopOps := by simp [stopOps]

/-! ## list helpers -/

theorem expand_append (a b : List Led) : expand (a ++ b) = expand a ++ expand b := by
  induction a with
  | nil => rfl
  | cons x xs ih => cases x <;> simp [expand, ih]

theorem keptOf_append (a b : List Led) : keptOf (a ++ b) = keptOf a ++ keptOf b := by
  induction a with
  | nil => rfl
  | cons x xs ih => cases x <;> simp [keptOf, ih]

theorem dropsOf_append (a b : List Led) : dropsOf (a ++ b) = dropsOf a ++ dropsOf b := by
  induction a with
  | nil => rfl
  | cons x xs ih => cases x <;> simp [dropsOf, ih]

theorem recsOf_append (a b : List Item) : recsOf (a ++ b) = recsOf a ++ recsOf b := by
  induction a with
  | nil => rfl
  | cons x xs ih => cases x <;> simp [recsOf, ih]

theorem notesOf_append (a b : List Item) : notesOf (a ++ b) = notesOf a ++ notesOf b := by
  induction a with
  | nil => rfl
  | cons x xs ih => cases x <;> simp [notesOf, ih]

theorem expand_keeps (bs : List Buf) : expand (keeps bs) = bs.flatten := by
  unfold keeps
  induction bs.flatten with
  | nil => rfl
  | cons x xs ih => simp [expand, ih]

theorem keptOf_keeps (bs : List Buf) : keptOf (keeps bs) = bs.flatten := by
  unfold keeps
  induction bs.flatten with
  | nil => rfl
  | cons x xs ih => simp [keptOf, ih]

theorem dropsOf_keeps (bs : List Buf) : dropsOf (keeps bs) = [] := by
  unfold keeps
  induction bs.flatten with
  | nil => rfl
  | cons x xs ih => simp [dropsOf, ih]

theorem recsOf_items (bs : List Buf) : recsOf (items bs) = bs.flatten := by
  unfold items
  induction bs.flatten with
  | nil => rfl
  | cons x xs ih => simp [recsOf, ih]

theorem notesOf_items (bs : List Buf) : notesOf (items bs) = [] := by
  unfold items
  induction bs.flatten with
  | nil => rfl
  | cons x xs ih => simp [notesOf, ih]

/-! ## the invariant -/

structure AInv (cap : Nat) (s : St) : Prop where
  cap : s.cap = cap
  eq : expand s.ledger ++ (inflight s).flatten ++ s.bufs.flatten ++ s.cur = s.appended
  kept : recsOf s.disk = keptOf s.ledger
  notes : notesOf s.disk = dropsOf s.ledger
  err : s.errNotes = notesOf s.disk
  ok : s.curOk = true ∧ s.fault = false ∧ s.pending = []
  tw : s.pc = .swapped ∨ s.pc = .done ∨ s.toWrite = []
  nb : s.pc ≠ .swapped → s.pc ≠ .done → s.nb1 = true ∧ s.nb2 = true
  sw : s.pc = .swapped → s.nb1 = false ∧ s.toWrite ≠ [] ∧ (s.nb2 = false → 2 ≤ s.toWrite.length)
  nx : s.pc ≠ .done → s.hasNext = false → s.bufs ≠ []
  life : (s.pc = .idle ↔ s.started = false) ∧ (s.started = true → s.running = true ∨ s.stopCalled = true) ∧
         (s.stopCalled = true → s.started = true)
  stop1 : s.stopCalled = true → s.atStop <+: s.appended
  fl : s.pc = .final → s.stopCalled = true
  fin : s.pc = .done → s.stopCalled = true ∧ s.atStop <+: expand s.ledger ∧ s.flushed = s.disk.length
  ret : s.stopReturned = true → s.pc = .done

theorem AInv_init (cap : Nat) : AInv cap (init cap) := by
  constructor <;> simp [init, inflight, expand, recsOf, keptOf, notesOf, dropsOf]

theorem AInv_front (cap : Nat) (s : St) (r : Rec) (h : AInv cap s) (hr : r.len < cap) : AInv cap (front s r) := by
  obtain ⟨hcap, heq, hkept, hnotes, herr, ⟨hok, hfault, hpend⟩, htw, hnb, hsw, hnx, hlife, hstop1, hfl, hfin, hret⟩ := h
  unfold front
  rw [if_pos hok]
  by_cases hf : frontFits (avail s.cap s.cur) r.len
  · have hb : bufAppend s.cap s.cur r = s.cur ++ [r] := by
      unfold bufAppend; rw [if_pos (frontFits_fixed _ _ hf)]
    simp only [if_pos hf, runOps_frontThen r s hok, hb]
    constructor
    case eq => simp only [inflight] at heq ⊢; rw [← heq]; simp
    case stop1 => exact fun h => (hstop1 h).trans (List.prefix_append _ _)
    all_goals simp_all [inflight]
  · have hb : bufAppend s.cap [] r = [r] := by
      unfold bufAppend; rw [if_pos (empty_takes _ _ (by omega))]; rfl
    simp only [if_neg hf, runOps_frontElse r s hok, hb]
    constructor
    case eq => simp only [inflight] at heq ⊢; rw [← heq]; simp
    case stop1 => exact fun h => (hstop1 h).trans (List.prefix_append _ _)
    all_goals simp_all [inflight]

theorem AInv_start (cap : Nat) (s : St) (h : AInv cap s) (hs : s.started = false) :
    AInv cap (runOps noRec startOps { s with started := true }) := by
  obtain ⟨hcap, heq, hkept, hnotes, herr, ⟨hok, hfault, hpend⟩, htw, hnb, hsw, hnx, hlife, hstop1, hfl, hfin, hret⟩ := h
  have hidle : s.pc = .idle := hlife.1.2 hs
  rw [startOps_run _ (by simpa using hidle)]
  constructor
  case eq => simp only [inflight, hidle] at heq ⊢; simpa using heq
  all_goals simp_all [inflight]

theorem AInv_test (cap : Nat) (s : St) (h : AInv cap s) (hp : s.pc = .test) :
    AInv cap (if s.running then { s with pc := .enter } else { s with pc := .final }) := by
  obtain ⟨hcap, heq, hkept, hnotes, herr, ⟨hok, hfault, hpend⟩, htw, hnb, hsw, hnx, hlife, hstop1, hfl, hfin, hret⟩ := h
  cases hr : s.running
  · simp only [Bool.false_eq_true, if_false]
    constructor
    case eq => simp only [inflight, hp] at heq ⊢; simpa using heq
    all_goals simp_all [inflight]
  · simp only [if_true]
    constructor
    case eq => simp only [inflight, hp] at heq ⊢; simpa using heq
    all_goals simp_all [inflight]

theorem AInv_collect (cap : Nat) (s : St) (h : AInv cap s) (hp : s.pc = .enter ∨ s.pc = .waiting) :
    AInv cap (collect s) := by
  obtain ⟨hcap, heq, hkept, hnotes, herr, ⟨hok, hfault, hpend⟩, htw, hnb, hsw, hnx, hlife, hstop1, hfl, hfin, hret⟩ := h
  have hne1 : s.pc ≠ .swapped := by rcases hp with hp | hp <;> simp [hp]
  have hne2 : s.pc ≠ .done := by rcases hp with hp | hp <;> simp [hp]
  have hne3 : s.pc ≠ .idle := by rcases hp with hp | hp <;> simp [hp]
  have htw0 : s.toWrite = [] := by rcases htw with h | h | h <;> simp_all
  obtain ⟨hn1, hn2⟩ := hnb hne1 hne2
  unfold collect
  rw [runOps_loopCollect s hok]
  constructor
  case eq => simp only [inflight, if_neg hne1] at heq; simp only [inflight]; rw [← heq]; simp [htw0]
  case sw =>
    intro _
    refine ⟨rfl, by simp, ?_⟩
    simp only [hn2, Bool.and_true]
    intro hh
    have := hnx hne2 hh
    cases hb : s.bufs with
    | nil => exact absurd hb this
    | cons a t => simp
  all_goals simp_all [inflight]

theorem AInv_wait (cap : Nat) (s : St) (h : AInv cap s) (hp : s.pc = .enter) :
    AInv cap { s with pc := .waiting, woken := false } := by
  obtain ⟨hcap, heq, hkept, hnotes, herr, ⟨hok, hfault, hpend⟩, htw, hnb, hsw, hnx, hlife, hstop1, hfl, hfin, hret⟩ := h
  constructor
  case eq => simp only [inflight, hp] at heq ⊢; simpa using heq
  all_goals simp_all [inflight]

theorem AInv_write (cap : Nat) (s : St) (h : AInv cap s) (hp : s.pc = .swapped) : AInv cap (writePhase s) := by
  obtain ⟨hcap, heq, hkept, hnotes, herr, ⟨hok, hfault, hpend⟩, htw, hnb, hsw, hnx, hlife, hstop1, hfl, hfin, hret⟩ := h
  obtain ⟨h1, hne, h2⟩ := hsw hp
  unfold writePhase
  rw [loopWrite_split, runOps_append, runOps_valveWrite s hpend]
  simp only [inflight, if_pos hp] at heq
  by_cases hov : overloaded s.toWrite.length
  · have hlen : dropKeep < s.toWrite.length := by
      simp only [overloaded] at hov; simp only [dropKeep]; omega
    have hda : dropAnnounce s.toWrite.length = (s.toWrite.drop dropKeep).length := by
      simp [dropAnnounce, dropKeep]
    rw [if_pos hov, runOps_tail]
    rotate_left
    · exact h1
    · cases hw : s.toWrite with
      | nil => exact absurd hw hne
      | cons a t => simp [dropKeep]
    · intro _; simp only [dropKeep] at hlen ⊢; simp; omega
    · exact hfault
    constructor
    case eq =>
      simp only [inflight]
      rw [← heq]
      simp [expand_append, expand_keeps, expand]
      rw [← List.append_assoc, ← List.flatten_append, List.take_append_drop]
    case kept => simp [recsOf_append, recsOf_items, recsOf, keptOf_append, keptOf_keeps, keptOf, hkept]
    case notes => simp [notesOf_append, notesOf_items, notesOf, dropsOf_append, dropsOf_keeps, dropsOf, hnotes, hda]
    case err => simp [notesOf_append, notesOf_items, notesOf, herr]
    all_goals simp_all [inflight]
  · rw [if_neg hov, runOps_tail]
    rotate_left
    · exact h1
    · exact hne
    · exact h2
    · exact hfault
    constructor
    case eq =>
      simp only [inflight]
      rw [← heq]
      simp [expand_append, expand_keeps]
    case kept => simp [recsOf_append, recsOf_items, keptOf_append, keptOf_keeps, hkept]
    case notes => simp [notesOf_append, notesOf_items, dropsOf_append, dropsOf_keeps, hnotes]
    case err => simp [notesOf_append, notesOf_items, herr]
    all_goals simp_all [inflight]

theorem AInv_final (cap : Nat) (s : St) (h : AInv cap s) (hp : s.pc = .final) : AInv cap (finalPhase s) := by
  obtain ⟨hcap, heq, hkept, hnotes, herr, ⟨hok, hfault, hpend⟩, htw, hnb, hsw, hnx, hlife, hstop1, hfl, hfin, hret⟩ := h
  have htw0 : s.toWrite = [] := by rcases htw with h | h | h <;> simp_all
  obtain ⟨hn1, hn2⟩ := hnb (by simp [hp]) (by simp [hp])
  have hstarted : s.started = true := by
    cases hs : s.started with
    | true => rfl
    | false => have := hlife.1.2 hs; simp [hp] at this
  unfold finalPhase
  rw [runOps_finalCollect s hok, runOps_finalWrite]
  simp only [inflight, hp] at heq
  have heq' : expand s.ledger ++ (s.bufs.flatten ++ s.cur) = s.appended := by simpa using heq
  constructor
  case eq => simp [inflight, expand_append, expand_keeps, hpend, htw0, heq']
  case kept => simp [recsOf_append, recsOf_items, keptOf_append, keptOf_keeps, hkept, hpend]
  case notes => simp [notesOf_append, notesOf_items, dropsOf_append, dropsOf_keeps, hnotes, hpend]
  case err => simp [notesOf_append, notesOf_items, herr]
  case fin =>
    intro _
    refine ⟨hfl hp, ?_, by simp⟩
    simp only [expand_append, expand_keeps, hpend, htw0, expand, List.append_nil]
    simpa [heq'] using hstop1 (hfl hp)
  all_goals simp_all [inflight]

theorem AInv_stopCall (cap : Nat) (s : St) (h : AInv cap s) (hs : s.started = true) (hc : s.stopCalled = false) :
    AInv cap (runOps noRec stopPrefix { s with stopCalled := true, atStop := s.appended }) := by
  obtain ⟨hcap, heq, hkept, hnotes, herr, ⟨hok, hfault, hpend⟩, htw, hnb, hsw, hnx, hlife, hstop1, hfl, hfin, hret⟩ := h
  rw [stopPrefix_run]
  have hnd : s.pc ≠ .done := fun hd => by have := (hfin hd).1; simp [hc] at this
  constructor
  case eq => simp only [inflight] at heq ⊢; exact heq
  case fin => intro hd; exact absurd hd hnd
  all_goals simp_all [inflight]

theorem AInv_stopJoin (cap : Nat) (s : St) (h : AInv cap s) (hd : s.pc = .done) :
    AInv cap { s with stopReturned := true } := by
  obtain ⟨hcap, heq, hkept, hnotes, herr, ⟨hok, hfault, hpend⟩, htw, hnb, hsw, hnx, hlife, hstop1, hfl, hfin, hret⟩ := h
  constructor
  case eq => simp only [inflight] at heq ⊢; exact heq
  all_goals simp_all [inflight]

theorem AInv_step (cap : Nat) (s s' : St) (a : Step) (h : AInv cap s)
    (ha : ∀ r, a = .front r → r.len < cap) (hs : step s a = some s') : AInv cap s' := by
  cases a with
  | start =>
    simp only [step] at hs
    split at hs
    · exact absurd hs (by simp)
    · rename_i hst
      cases Option.some.inj hs
      exact AInv_start cap s h (by simpa using hst)
  | front r =>
    simp only [step] at hs
    cases Option.some.inj hs
    exact AInv_front cap s r h (ha r rfl)
  | test =>
    simp only [step] at hs
    split at hs
    · rename_i hp
      cases Option.some.inj hs
      exact AInv_test cap s h hp
    · exact absurd hs (by simp)
  | enter =>
    simp only [step] at hs
    split at hs
    · rename_i hp
      cases Option.some.inj hs
      split
      · exact AInv_wait cap s h hp
      · exact AInv_collect cap s h (Or.inl hp)
    · exact absurd hs (by simp)
  | wake k =>
    simp only [step] at hs
    split at hs
    · rename_i hp
      cases Option.some.inj hs
      exact AInv_collect cap s h (Or.inr hp.1)
    · exact absurd hs (by simp)
  | write =>
    simp only [step] at hs
    split at hs
    · rename_i hp
      cases Option.some.inj hs
      exact AInv_write cap s h hp
    · exact absurd hs (by simp)
  | final =>
    simp only [step] at hs
    split at hs
    · rename_i hp
      cases Option.some.inj hs
      exact AInv_final cap s h hp
    · exact absurd hs (by simp)
  | stopCall =>
    simp only [step] at hs
    split at hs
    · rename_i hp
      cases Option.some.inj hs
      exact AInv_stopCall cap s h hp.1 (by simpa using hp.2)
    · exact absurd hs (by simp)
  | stopJoin =>
    simp only [step] at hs
    split at hs
    · rename_i hp
      cases Option.some.inj hs
      exact AInv_stopJoin cap s h (hp.2.2 join_in_stop)
    · exact absurd hs (by simp)

theorem fronts_append (a b : List Step) : fronts (a ++ b) = fronts a ++ fronts b := by
  induction a with
  | nil => rfl
  | cons x xs ih => cases x <;> simp [fronts, ih]

theorem run_append (s : St) (a b : List Step) :
    run s (a ++ b) = (run s a).bind (fun s' => run s' b) := by
  induction a generalizing s with
  | nil => rfl
  | cons x xs ih =>
    simp only [List.cons_append, run]
    cases step s x with
    | none => rfl
    | some s1 => exact ih s1

theorem AInv_run (cap : Nat) (steps : List Step) (s s' : St) (h : AInv cap s)
    (hfit : ∀ r ∈ fronts steps, r.len < cap) (hr : run s steps = some s') : AInv cap s' := by
  induction steps generalizing s with
  | nil => simp only [run] at hr; cases Option.some.inj hr; exact h
  | cons a rest ih =>
    simp only [run] at hr
    cases hst : step s a with
    | none => simp [hst] at hr
    | some s1 =>
      simp only [hst] at hr
      refine ih s1 (AInv_step cap s s1 a h ?_ hst) ?_ hr
      · intro r har; subst har; exact hfit r (by simp [fronts])
      · intro r hrm; apply hfit r; cases a <;> simp [fronts, hrm]

/-! ## ghost fields: who writes them -/

theorem exec_ghost (r : Rec) (o : Op) (s : St) :
    (exec r o s).appended = s.appended ∧ (exec r o s).atStop = s.atStop ∧ (exec r o s).stopCalled = s.stopCalled ∧
    (exec r o s).stopReturned = s.stopReturned ∧ (exec r o s).started = s.started ∧ (exec r o s).cap = s.cap := by
  cases o <;> simp only [exec] <;> (try split) <;> simp

theorem runOps_ghost (r : Rec) (ops : List Op) (s : St) :
    (runOps r ops s).appended = s.appended ∧ (runOps r ops s).atStop = s.atStop ∧
    (runOps r ops s).stopCalled = s.stopCalled ∧ (runOps r ops s).stopReturned = s.stopReturned ∧
    (runOps r ops s).started = s.started ∧ (runOps r ops s).cap = s.cap := by
  induction ops generalizing s with
  | nil => simp [runOps]
  | cons o rest ih =>
    have h1 := exec_ghost r o s
    have h2 := ih (exec r o s)
    simp only [runOps, List.foldl_cons] at h2 ⊢
    obtain ⟨a1, a2, a3, a4, a5, a6⟩ := h1
    obtain ⟨b1, b2, b3, b4, b5, b6⟩ := h2
    exact ⟨b1.trans a1, b2.trans a2, b3.trans a3, b4.trans a4, b5.trans a5, b6.trans a6⟩

theorem front_appended (s : St) (r : Rec) : (front s r).appended = s.appended ++ [r] := by
  unfold front
  split
  · split <;> rfl
  · rfl

theorem front_ghost (s : St) (r : Rec) :
    (front s r).atStop = s.atStop ∧ (front s r).stopCalled = s.stopCalled := by
  unfold front
  split
  · split
    · exact ⟨(runOps_ghost r frontThen s).2.1, (runOps_ghost r frontThen s).2.2.1⟩
    · exact ⟨(runOps_ghost r frontElse s).2.1, (runOps_ghost r frontElse s).2.2.1⟩
  · exact ⟨rfl, rfl⟩

/-- one step: `appended` grows by the step's record, if it is an `append` -/
theorem step_appended (s s' : St) (a : Step) (hs : step s a = some s') : s'.appended = s.appended ++ fronts [a] := by
  cases a with
  | front r => simp only [step] at hs; cases Option.some.inj hs; simp [fronts, front_appended]
  | start =>
    simp only [step] at hs; split at hs
    · exact absurd hs (by simp)
    · cases Option.some.inj hs; simp [fronts, (runOps_ghost _ _ _).1]
  | test =>
    simp only [step] at hs; split at hs
    · cases Option.some.inj hs; split <;> simp [fronts]
    · exact absurd hs (by simp)
  | enter =>
    simp only [step] at hs; split at hs
    · cases Option.some.inj hs; split <;> simp [fronts, collect, (runOps_ghost _ _ _).1]
    · exact absurd hs (by simp)
  | wake k =>
    simp only [step] at hs; split at hs
    · cases Option.some.inj hs; simp [fronts, collect, (runOps_ghost _ _ _).1]
    · exact absurd hs (by simp)
  | write =>
    simp only [step] at hs; split at hs
    · cases Option.some.inj hs; simp [fronts, writePhase, (runOps_ghost _ _ _).1]
    · exact absurd hs (by simp)
  | final =>
    simp only [step] at hs; split at hs
    · cases Option.some.inj hs; simp [fronts, finalPhase, (runOps_ghost _ _ _).1]
    · exact absurd hs (by simp)
  | stopCall =>
    simp only [step] at hs; split at hs
    · cases Option.some.inj hs; simp [fronts, (runOps_ghost _ _ _).1]
    · exact absurd hs (by simp)
  | stopJoin =>
    simp only [step] at hs; split at hs
    · cases Option.some.inj hs; simp [fronts]
    · exact absurd hs (by simp)

/-- `appended` is the history's `append` calls -/
theorem appended_run (steps : List Step) (s s' : St) (hr : run s steps = some s') :
    s'.appended = s.appended ++ fronts steps := by
  induction steps generalizing s with
  | nil => simp only [run] at hr; cases Option.some.inj hr; simp [fronts]
  | cons a rest ih =>
    simp only [run] at hr
    cases hst : step s a with
    | none => simp [hst] at hr
    | some s1 =>
      simp only [hst] at hr
      rw [ih s1 hr, step_appended s s1 a hst, List.append_assoc, ← fronts_append]
      rfl

/-- once `stop()` has been called, `atStop` is frozen -/
theorem step_atStop (s s' : St) (a : Step) (hc : s.stopCalled = true) (hs : step s a = some s') :
    s'.atStop = s.atStop ∧ s'.stopCalled = true := by
  cases a with
  | front r => simp only [step] at hs; cases Option.some.inj hs; simp [front_ghost, hc]
  | start =>
    simp only [step] at hs; split at hs
    · exact absurd hs (by simp)
    · cases Option.some.inj hs; simp [(runOps_ghost _ _ _).2.1, (runOps_ghost _ _ _).2.2.1, hc]
  | test =>
    simp only [step] at hs; split at hs
    · cases Option.some.inj hs; split <;> simp [hc]
    · exact absurd hs (by simp)
  | enter =>
    simp only [step] at hs; split at hs
    · cases Option.some.inj hs; split <;> simp [collect, (runOps_ghost _ _ _).2.1, (runOps_ghost _ _ _).2.2.1, hc]
    · exact absurd hs (by simp)
  | wake k =>
    simp only [step] at hs; split at hs
    · cases Option.some.inj hs; simp [collect, (runOps_ghost _ _ _).2.1, (runOps_ghost _ _ _).2.2.1, hc]
    · exact absurd hs (by simp)
  | write =>
    simp only [step] at hs; split at hs
    · cases Option.some.inj hs; simp [writePhase, (runOps_ghost _ _ _).2.1, (runOps_ghost _ _ _).2.2.1, hc]
    · exact absurd hs (by simp)
  | final =>
    simp only [step] at hs; split at hs
    · cases Option.some.inj hs; simp [finalPhase, (runOps_ghost _ _ _).2.1, (runOps_ghost _ _ _).2.2.1, hc]
    · exact absurd hs (by simp)
  | stopCall =>
    simp only [step] at hs; split at hs
    · rename_i hp; exact absurd hc (by simpa using hp.2)
    · exact absurd hs (by simp)
  | stopJoin =>
    simp only [step] at hs; split at hs
    · cases Option.some.inj hs; simp [hc]
    · exact absurd hs (by simp)

theorem run_atStop (steps : List Step) (s s' : St) (hc : s.stopCalled = true) (hr : run s steps = some s') :
    s'.atStop = s.atStop := by
  induction steps generalizing s with
  | nil => simp only [run] at hr; cases Option.some.inj hr; rfl
  | cons a rest ih =>
    simp only [run] at hr
    cases hst : step s a with
    | none => simp [hst] at hr
    | some s1 =>
      simp only [hst] at hr
      obtain ⟨h1, h2⟩ := step_atStop s s1 a hc hst
      rw [ih s1 h2 hr, h1]

theorem stopCall_atStop (s s' : St) (hs : step s .stopCall = some s') :
    s'.atStop = s.appended ∧ s'.stopCalled = true := by
  simp only [step] at hs; split at hs
  · cases Option.some.inj hs
    simp [(runOps_ghost _ _ _).2.1, (runOps_ghost _ _ _).2.2.1]
  · exact absurd hs (by simp)

/-! ## kept records vs. the whole ledger -/

theorem keptOf_sublist_expand (l : List Led) : (keptOf l).Sublist (expand l) := by
  induction l with
  | nil => exact List.Sublist.slnil
  | cons x xs ih =>
    cases x with
    | kept r => simpa [keptOf, expand] using ih
    | dropped bs => exact ih.trans (List.sublist_append_right _ _)

theorem expand_eq_keptOf (l : List Led) (h : dropsOf l = []) : expand l = keptOf l := by
  induction l with
  | nil => rfl
  | cons x xs ih =>
    cases x with
    | kept r => simp only [dropsOf] at h; simp [keptOf, expand, ih h]
    | dropped bs => simp [dropsOf] at h


end MuduoVerif.AsyncLog
