import MuduoVerif.Proofs.PollerOps
/-!
# EPollPoller: the slot-state invariant (`kNew/kAdded/kDeleted` against `channels_` and the kernel's
interest list) and its preservation by every operation — no `epoll_ctl` ever fails
-/
namespace MuduoVerif.Poller
open MuduoVerif.Gen.Poller

/-- what the invariant says about one channel: its object, its `channels_` slot, its kernel entry -/
def EpLocal (ch : Chan) (cm : Option Nat) (kn : Option Nat) (c : Nat) : Prop :=
  if ch.added = true then
    cm = some c ∧
      ((ch.index = kAdded ∧ kn = some ch.events ∧ ch.events ≠ 0) ∨
       (ch.index = kDeleted ∧ ch.events = 0 ∧ kn = none))
  else ch.index = kNew ∧ ch.events = 0 ∧ cm = none ∧ kn = none

structure EpStruct (s : State) : Prop where
  loc : ∀ c, EpLocal (s.chans c) (s.cmap (fdOf c)) (s.kernel (fdOf c)) c
  other : ∀ fd, (∀ c, fd ≠ fdOf c) → s.cmap fd = none ∧ s.kernel fd = none

theorem EpLocal.added_intro {ch : Chan} {cm kn : Option Nat} {c : Nat} (ha : ch.added = true)
    (hcm : cm = some c)
    (h : (ch.index = kAdded ∧ kn = some ch.events ∧ ch.events ≠ 0) ∨
       (ch.index = kDeleted ∧ ch.events = 0 ∧ kn = none)) : EpLocal ch cm kn c := by
  unfold EpLocal; rw [if_pos ha]; exact ⟨hcm, h⟩

theorem EpLocal.unreg_intro {ch : Chan} {cm kn : Option Nat} {c : Nat} (ha : ch.added = false)
    (h : ch.index = kNew ∧ ch.events = 0 ∧ cm = none ∧ kn = none) : EpLocal ch cm kn c := by
  unfold EpLocal; rw [if_neg (by simp [ha])]; exact h

/-- an operation on channel `c` touches only `c`'s object, map slot and kernel entry -/
theorem EpStruct.local {s t : State} (h : EpStruct s) (c : Nat)
    (hch : ∀ x, x ≠ c → (t.chans x).events = (s.chans x).events ∧ (t.chans x).index = (s.chans x).index ∧
      (t.chans x).added = (s.chans x).added)
    (hcm : ∀ fd, fd ≠ fdOf c → t.cmap fd = s.cmap fd) (hkn : ∀ fd, fd ≠ fdOf c → t.kernel fd = s.kernel fd)
    (hc : EpLocal (t.chans c) (t.cmap (fdOf c)) (t.kernel (fdOf c)) c) : EpStruct t := by
  refine ⟨?_, ?_⟩
  · intro x
    by_cases hx : x = c
    · subst hx; exact hc
    · have hfd : fdOf x ≠ fdOf c := fun e => hx (by unfold fdOf at e; omega)
      rw [hcm _ hfd, hkn _ hfd]
      have := h.loc x
      obtain ⟨e1, e2, e3⟩ := hch x hx
      unfold EpLocal at this ⊢
      rw [e1, e2, e3]; exact this
  · intro fd hfd
    rw [hcm fd (hfd c), hkn fd (hfd c)]
    exact h.other fd hfd

/-! ### `epoll_ctl` on the kernel's interest list -/

theorem ctl_add {s : State} {c : Nat} (hk : s.kernel (fdOf c) = none) :
    ctl s 1 c = { s with
      out := s.out ++ [.ctl 1 c (s.chans c).events .ok]
      kernel := fun x => if x = fdOf c then some (s.chans c).events else s.kernel x } := by
  simp [ctl, ctlADD, hk, emit]

theorem ctl_del {s : State} {c : Nat} {m : Nat} (hk : s.kernel (fdOf c) = some m) :
    ctl s 2 c = { s with
      out := s.out ++ [.ctl 2 c (s.chans c).events .ok]
      kernel := fun x => if x = fdOf c then none else s.kernel x } := by
  simp [ctl, ctlADD, ctlDEL, hk, emit]

theorem ctl_mod {s : State} {c : Nat} {m : Nat} (hk : s.kernel (fdOf c) = some m) :
    ctl s 3 c = { s with
      out := s.out ++ [.ctl 3 c (s.chans c).events .ok]
      kernel := fun x => if x = fdOf c then some (s.chans c).events else s.kernel x } := by
  simp [ctl, ctlADD, ctlDEL, hk, emit]

/-! ### `EPollPoller::updateChannel` -/

theorem epollUpdate_new_skip {s : State} {c : Nat} (hi : (s.chans c).index = kNew) (hc : s.cmap (fdOf c) = none)
    (he : (s.chans c).events = 0) :
    epollUpdate s c = { s with
      cmap := fun x => if x = fdOf c then some c else s.cmap x
      chans := fun x => if x = c then { s.chans c with index := kDeleted } else s.chans x } := by
  simp [epollUpdate, epAddBranch, epIsNew, hi, hc, he, epNewSkips, isNoneEvent, kNoneEvent, setIndex, setCmap,
    epIndexAfterNewSkip]

theorem epollUpdate_new {s : State} {c : Nat} (hi : (s.chans c).index = kNew) (hc : s.cmap (fdOf c) = none)
    (he : (s.chans c).events ≠ 0) (hk : s.kernel (fdOf c) = none) :
    epollUpdate s c = { s with
      cmap := fun x => if x = fdOf c then some c else s.cmap x
      chans := fun x => if x = c then { s.chans c with index := kAdded } else s.chans x
      out := s.out ++ [.ctl 1 c (s.chans c).events .ok]
      kernel := fun x => if x = fdOf c then some (s.chans c).events else s.kernel x } := by
  have hk' : (setIndex (setCmap s (fdOf c) (some c)) c epIndexAfterAdd).kernel (fdOf c) = none := hk
  simp only [epollUpdate, epAddBranch, epIsNew, hi, hc, epCtlAdd, true_or, if_true, ne_eq, not_true_eq_false,
    if_false, ctl_add hk', epNewSkips, isNoneEvent, kNoneEvent, he]
  simp [setIndex, setCmap, epIndexAfterAdd]


theorem epollUpdate_deleted_skip {s : State} {c : Nat} (hi : (s.chans c).index = kDeleted)
    (hc : s.cmap (fdOf c) = some c) (he : (s.chans c).events = 0) : epollUpdate s c = s := by
  simp [epollUpdate, epAddBranch, epIsNew, hi, hc, he, kDeleted, kNew, epDeletedSkips, isNoneEvent, kNoneEvent]

theorem epollUpdate_deleted_add {s : State} {c : Nat} (hi : (s.chans c).index = kDeleted)
    (hc : s.cmap (fdOf c) = some c) (he : (s.chans c).events ≠ 0) (hk : s.kernel (fdOf c) = none) :
    epollUpdate s c = { s with
      chans := fun x => if x = c then { s.chans c with index := kAdded } else s.chans x
      out := s.out ++ [.ctl 1 c (s.chans c).events .ok]
      kernel := fun x => if x = fdOf c then some (s.chans c).events else s.kernel x } := by
  have hk' : (setIndex s c epIndexAfterAdd).kernel (fdOf c) = none := hk
  simp only [epollUpdate, epAddBranch, epIsNew, hi, hc, epCtlAdd, ctl_add hk']
  simp [setIndex, epIndexAfterAdd, kDeleted, kNew, epDeletedSkips, isNoneEvent, kNoneEvent, he]

theorem epollUpdate_added_del {s : State} {c : Nat} {m : Nat} (hi : (s.chans c).index = kAdded)
    (hc : s.cmap (fdOf c) = some c) (he : (s.chans c).events = 0) (hk : s.kernel (fdOf c) = some m) :
    epollUpdate s c = { s with
      chans := fun x => if x = c then { s.chans c with index := kDeleted } else s.chans x
      out := s.out ++ [.ctl 2 c (s.chans c).events .ok]
      kernel := fun x => if x = fdOf c then none else s.kernel x } := by
  simp only [epollUpdate, epAddBranch, epIsNew, hi, hc, epCtlNoInterest, ctl_del hk]
  simp [setIndex, epIndexAfterDel, kDeleted, kNew, kAdded, epExistingDeletes, isNoneEvent, kNoneEvent, he]

theorem epollUpdate_added_mod {s : State} {c : Nat} {m : Nat} (hi : (s.chans c).index = kAdded)
    (hc : s.cmap (fdOf c) = some c) (he : (s.chans c).events ≠ 0) (hk : s.kernel (fdOf c) = some m) :
    epollUpdate s c = { s with
      out := s.out ++ [.ctl 3 c (s.chans c).events .ok]
      kernel := fun x => if x = fdOf c then some (s.chans c).events else s.kernel x } := by
  simp only [epollUpdate, epAddBranch, epIsNew, hi, hc, epCtlModify, ctl_mod hk]
  simp [kDeleted, kNew, kAdded, epExistingDeletes, isNoneEvent, kNoneEvent, he]

/-! ### `EPollPoller::removeChannel` -/

theorem epollRemove_deleted {s : State} {c : Nat} (hi : (s.chans c).index = kDeleted)
    (hc : s.cmap (fdOf c) = some c) (he : (s.chans c).events = 0) :
    epollRemove s c = { s with
      cmap := fun x => if x = fdOf c then none else s.cmap x
      chans := fun x => if x = c then { s.chans c with index := kNew } else s.chans x } := by
  simp [epollRemove, hi, hc, he, isNoneEvent, kNoneEvent, epRemoveDels, kAdded, kDeleted, setIndex, setCmap,
    epIndexAfterRemove]

theorem epollRemove_added {s : State} {c : Nat} {m : Nat} (hi : (s.chans c).index = kAdded)
    (hc : s.cmap (fdOf c) = some c) (he : (s.chans c).events = 0) (hk : s.kernel (fdOf c) = some m) :
    epollRemove s c = { s with
      cmap := fun x => if x = fdOf c then none else s.cmap x
      chans := fun x => if x = c then { s.chans c with index := kNew } else s.chans x
      out := s.out ++ [.ctl 2 c (s.chans c).events .ok]
      kernel := fun x => if x = fdOf c then none else s.kernel x } := by
  have hk' : (setCmap s (fdOf c) none).kernel (fdOf c) = some m := hk
  simp only [epollRemove, hi, hc, epCtlRemove, ctl_del hk']
  simp [he, isNoneEvent, kNoneEvent, epRemoveDels, kAdded, kDeleted, setIndex, setCmap, epIndexAfterRemove]


/-! ### every operation keeps the invariant, and every `epoll_ctl` succeeds -/

def Ev.isCtlOk : Ev → Bool
  | .ctl _ _ _ .ok => true
  | _ => false

/-- the back-end call went through: invariant kept, nobody died, only successful `epoll_ctl`s logged -/
structure EpOk (s t : State) : Prop where
  struct : EpStruct t
  dead : t.dead = s.dead
  out : ∃ l, t.out = s.out ++ l ∧ ∀ e ∈ l, e.isCtlOk = true

theorem epStruct_update {s : State} (h : EpStruct s) (c : Nat) (k : OpKind) :
    EpOk s (epollUpdate (setInterest s c k) c) := by
  have hl := h.loc c
  unfold EpLocal at hl
  generalize hS : setInterest s c k = S
  have hSc : S.chans c = { s.chans c with events := newEvents k (s.chans c).events, added := true } := by
    subst hS; simp [setInterest]
  have hSd : ∀ d, d ≠ c → S.chans d = s.chans d := by intro d hd; subst hS; simp [setInterest, hd]
  have hScm : S.cmap = s.cmap := by subst hS; rfl
  have hSk : S.kernel = s.kernel := by subst hS; rfl
  have hSdead : S.dead = s.dead := by subst hS; rfl
  have hSout : S.out = s.out := by subst hS; rfl
  have hfd : ∀ x, x ≠ c → fdOf x ≠ fdOf c := fun x hx e => hx (by unfold fdOf at e; omega)
  cases ha : (s.chans c).added with
  | false =>
    rw [if_neg (by simp [ha])] at hl
    obtain ⟨hi, he, hcm, hkn⟩ := hl
    by_cases hne : newEvents k (s.chans c).events = 0
    · rw [epollUpdate_new_skip (by rw [hSc]; exact hi) (by rw [hScm]; exact hcm) (by rw [hSc]; exact hne)]
      refine ⟨h.local c ?_ ?_ ?_ ?_, hSdead, ⟨[], by simp [hSout], by simp⟩⟩
      · intro x hx; simp [hx, hSd x hx]
      · intro fd hfd'; simp [hfd', hScm]
      · intro fd hfd'; simp [hSk]
      · exact EpLocal.added_intro (by simp [hSc]) (by simp)
          (.inr ⟨by simp, by simp [hSc, hne], by simp [hSk, hkn]⟩)
    · rw [epollUpdate_new (by rw [hSc]; exact hi) (by rw [hScm]; exact hcm) (by rw [hSc]; exact hne)
        (by rw [hSk]; exact hkn)]
      refine ⟨h.local c ?_ ?_ ?_ ?_, hSdead, ⟨_, by rw [hSout], by simp [Ev.isCtlOk]⟩⟩
      · intro x hx; simp [hx, hSd x hx]
      · intro fd hfd'; simp [hfd', hScm]
      · intro fd hfd'; simp [hfd', hSk]
      · exact EpLocal.added_intro (by simp [hSc]) (by simp) (.inl ⟨by simp, by simp, by simpa [hSc] using hne⟩)
  | true =>
    rw [if_pos ha] at hl
    obtain ⟨hcm, hl⟩ := hl
    rcases hl with ⟨hi, hkn, hbl⟩ | ⟨hi, he, hkn⟩
    · by_cases hne : newEvents k (s.chans c).events = 0
      · rw [epollUpdate_added_del (by rw [hSc]; exact hi) (by rw [hScm]; exact hcm) (by rw [hSc]; exact hne)
          (by rw [hSk]; exact hkn)]
        refine ⟨h.local c ?_ ?_ ?_ ?_, hSdead, ⟨_, by rw [hSout], by simp [Ev.isCtlOk]⟩⟩
        · intro x hx; simp [hx, hSd x hx]
        · intro fd hfd'; simp [hScm]
        · intro fd hfd'; simp [hfd', hSk]
        · exact EpLocal.added_intro (by simp [hSc]) (by simp [hScm, hcm]) (.inr ⟨by simp, by simp [hSc, hne], by simp⟩)
      · rw [epollUpdate_added_mod (by rw [hSc]; exact hi) (by rw [hScm]; exact hcm) (by rw [hSc]; exact hne)
          (by rw [hSk]; exact hkn)]
        refine ⟨h.local c ?_ ?_ ?_ ?_, hSdead, ⟨_, by rw [hSout], by simp [Ev.isCtlOk]⟩⟩
        · intro x hx; simp [hSd x hx]
        · intro fd hfd'; simp [hScm]
        · intro fd hfd'; simp [hfd', hSk]
        · exact EpLocal.added_intro (by simp [hSc]) (by simp [hScm, hcm])
            (.inl ⟨by simp [hSc, hi], by simp, by simpa [hSc] using hne⟩)
    · by_cases hne : newEvents k (s.chans c).events = 0
      · rw [epollUpdate_deleted_skip (by rw [hSc]; exact hi) (by rw [hScm]; exact hcm) (by rw [hSc]; exact hne)]
        refine ⟨h.local c ?_ ?_ ?_ ?_, hSdead, ⟨[], by simp [hSout], by simp⟩⟩
        · intro x hx; simp [hSd x hx]
        · intro fd hfd'; simp [hScm]
        · intro fd hfd'; simp [hSk]
        · exact EpLocal.added_intro (by simp [hSc]) (by simp [hScm, hcm])
            (.inr ⟨by simp [hSc, hi], by simp [hSc, hne], by simp [hSk, hkn]⟩)
      · rw [epollUpdate_deleted_add (by rw [hSc]; exact hi) (by rw [hScm]; exact hcm) (by rw [hSc]; exact hne)
          (by rw [hSk]; exact hkn)]
        refine ⟨h.local c ?_ ?_ ?_ ?_, hSdead, ⟨_, by rw [hSout], by simp [Ev.isCtlOk]⟩⟩
        · intro x hx; simp [hx, hSd x hx]
        · intro fd hfd'; simp [hScm]
        · intro fd hfd'; simp [hfd', hSk]
        · exact EpLocal.added_intro (by simp [hSc]) (by simp [hScm, hcm])
            (.inl ⟨by simp, by simp, by simpa [hSc] using hne⟩)


theorem epStruct_remove {s : State} (h : EpStruct s) (c : Nat) (ha : (s.chans c).added = true)
    (he : (s.chans c).events = 0) :
    EpOk s (epollRemove (setChan s c { s.chans c with added := false }) c) := by
  have hl := h.loc c
  unfold EpLocal at hl
  rw [if_pos ha] at hl
  obtain ⟨hcm, hl⟩ := hl
  generalize hS : setChan s c { s.chans c with added := false } = S
  have hSc : S.chans c = { s.chans c with added := false } := by subst hS; simp [setChan]
  have hSd : ∀ d, d ≠ c → S.chans d = s.chans d := by intro d hd; subst hS; simp [setChan, hd]
  have hScm : S.cmap = s.cmap := by subst hS; rfl
  have hSk : S.kernel = s.kernel := by subst hS; rfl
  have hSdead : S.dead = s.dead := by subst hS; rfl
  have hSout : S.out = s.out := by subst hS; rfl
  rcases hl with ⟨hi, hkn, _⟩ | ⟨hi, _, hkn⟩
  · rw [epollRemove_added (by rw [hSc]; exact hi) (by rw [hScm]; exact hcm) (by rw [hSc]; exact he)
      (by rw [hSk]; exact hkn)]
    refine ⟨h.local c ?_ ?_ ?_ ?_, hSdead, ⟨_, by rw [hSout], by simp [Ev.isCtlOk]⟩⟩
    · intro x hx; simp [hx, hSd x hx]
    · intro fd hfd'; simp [hfd', hScm]
    · intro fd hfd'; simp [hfd', hSk]
    · exact EpLocal.unreg_intro (by simp [hSc]) ⟨by simp, by simp [hSc, he], by simp, by simp⟩
  · rw [epollRemove_deleted (by rw [hSc]; exact hi) (by rw [hScm]; exact hcm) (by rw [hSc]; exact he)]
    refine ⟨h.local c ?_ ?_ ?_ ?_, hSdead, ⟨[], by simp [hSout], by simp⟩⟩
    · intro x hx; simp [hx, hSd x hx]
    · intro fd hfd'; simp [hfd', hScm]
    · intro fd hfd'; simp [hSk]
    · exact EpLocal.unreg_intro (by simp [hSc]) ⟨by simp, by simp [hSc, he], by simp, by simp [hSk, hkn]⟩

theorem EpStruct.congr {s t : State} (h : EpStruct s) (hc : t.cmap = s.cmap) (hk : t.kernel = s.kernel)
    (he : ∀ c, (t.chans c).events = (s.chans c).events) (hi : ∀ c, (t.chans c).index = (s.chans c).index)
    (ha : ∀ c, (t.chans c).added = (s.chans c).added) : EpStruct t := by
  refine ⟨?_, ?_⟩
  · intro c
    have := h.loc c
    unfold EpLocal at this ⊢
    rw [he, hi, ha, hc, hk]; exact this
  · intro fd hfd; rw [hc, hk]; exact h.other fd hfd

theorem EpStruct.frame {s t : State} (f : Frame s t) (h : EpStruct s) : EpStruct t :=
  h.congr f.cmap f.kernel f.ev f.idx f.added

theorem isCtlOk_clean {e : Ev} (h : e.isCtlOk = true) : e.isFailure = false := by
  cases e <;> simp_all [Ev.isCtlOk, Ev.isFailure, Ev.isCtlFailure, Ev.isAbort]
  rename_i r; cases r <;> simp_all

/-- on an epoll loop every operation keeps the invariant, kills nobody, and logs no failure -/
theorem epStruct_applyOp {s : State} (hbe : s.be = .epoll) (h : EpStruct s) (c : Nat) (k : OpKind) :
    EpStruct (applyOp s c k) ∧ (applyOp s c k).dead = s.dead ∧
      ∃ l, (applyOp s c k).out = s.out ++ l ∧ ∀ e ∈ l, e.isFailure = false := by
  have hrep : ∀ t : State, EpOk s t → EpStruct (report t c k) ∧ (report t c k).dead = s.dead ∧
      ∃ l, (report t c k).out = s.out ++ l ∧ ∀ e ∈ l, e.isFailure = false := by
    intro t ht
    obtain ⟨l, hl, hok⟩ := ht.out
    unfold report
    split
    · exact ⟨ht.struct, ht.dead, l, hl, fun e he => isCtlOk_clean (hok e he)⟩
    · refine ⟨ht.struct.congr rfl rfl (fun _ => rfl) (fun _ => rfl) (fun _ => rfl), ht.dead,
        l ++ [.op c k (t.chans c).events (t.chans c).index], by simp [emit, hl], ?_⟩
      intro e he
      rcases List.mem_append.1 he with h1 | h1
      · exact isCtlOk_clean (hok e h1)
      · simp at h1; subst h1; rfl
  cases hd : s.dead with
  | true => rw [applyOp_dead hd]; exact ⟨h, hd, [], by simp, by simp⟩
  | false =>
    by_cases hacc : accepts s c k
    · cases hk : k.isUpdate with
      | true =>
        rw [applyOp_update hd hk]
        have hbe' : (setInterest s c k).be = .epoll := hbe
        simp only [updateChannel, hbe']
        have := hrep _ (epStruct_update h c k)
        rw [hd] at this; exact this
      | false =>
        cases k with
        | remove =>
          have hr : removeOk s c := hacc
          rw [applyOp_remove hd hr]
          have hbe' : (setChan s c { s.chans c with added := false }).be = .epoll := hbe
          simp only [removeChannel, hbe']
          have := hrep _ (epStruct_remove h c hr.1 hr.2.1)
          rw [hd] at this; exact this
        | recreate =>
          have hr : recreateOk s c := hacc
          rw [applyOp_recreate hd hr]
          have hl := h.loc c
          unfold EpLocal at hl
          rw [if_neg (by simp [hr.1])] at hl
          have : EpOk s (setChan s c {}) := by
            refine ⟨h.local c ?_ ?_ ?_ ?_, rfl, [], by simp [setChan], by simp⟩
            · intro x hx; simp [setChan, hx]
            · intro fd _; rfl
            · intro fd _; rfl
            · exact EpLocal.unreg_intro (by simp [setChan]) ⟨by simp [setChan, kNew], by simp [setChan],
                hl.2.2.1, hl.2.2.2⟩
          have := hrep _ this
          rw [hd] at this; exact this
        | _ => simp [OpKind.isUpdate] at hk
    · rw [applyOp_reject hd hacc]
      exact ⟨h.congr rfl rfl (fun _ => rfl) (fun _ => rfl) (fun _ => rfl), hd, [.reject c k], rfl,
        by simp [Ev.isFailure, Ev.isCtlFailure, Ev.isAbort]⟩


/-! ### the invariant of an epoll loop along every history -/

def EpGood (s : State) : Prop := s.be = .epoll ∧ EpStruct s

theorem epStruct_empty : EpStruct (empty .epoll) :=
  ⟨fun c => by simp [EpLocal, empty, kNew], fun fd _ => ⟨rfl, rfl⟩⟩

theorem epGood_applyOp (s : State) (c k) (h : EpGood s) : EpGood (applyOp s c k) :=
  ⟨(applyOp_be s c k).trans h.1, (epStruct_applyOp h.1 h.2 c k).1⟩

theorem epGood_frame (s t : State) (f : Frame s t) (h : EpGood s) : EpGood t :=
  ⟨f.be.trans h.1, h.2.frame f⟩

theorem epGood_cb (s t : State) (q : CbStep s t) (h : EpGood s) : EpGood t := by
  obtain ⟨c, k, _, _, _, rfl⟩ := q
  exact ⟨h.1, h.2.congr rfl rfl (fun _ => rfl) (fun _ => rfl) (fun _ => rfl)⟩

theorem epGood_init : EpGood (init .epoll) := by
  have h0 : EpGood (empty .epoll) := ⟨rfl, epStruct_empty⟩
  have h2 := epGood_applyOp _ wakeChan .enableR (epGood_applyOp _ timerChan .enableR h0)
  exact ⟨h2.1, h2.2.congr rfl rfl (fun _ => rfl) (fun _ => rfl) (fun _ => rfl)⟩

theorem epGood_run (ins : List In) : EpGood (run (init .epoll) ins) :=
  ReachF.preserves epGood_applyOp epGood_frame epGood_cb (reach_run ins _) epGood_init

/-! ### the poll phase, when the kernel behaves -/

/-- the environment assumption of an epoll loop: `epoll_wait` returns as many events as it says, at
most as many as the array holds, and only for descriptors in the interest list -/
def epEnvOk (s : State) : In → Prop
  | .iter ready nret =>
    s.be = .epoll → nret = ready.length ∧ ready.length ≤ s.evsize ∧ ∀ p ∈ ready, (s.kernel (fdOf p.1)).isSome
  | _ => True
instance : Decidable (epEnvOk s i) := by cases i <;> unfold epEnvOk <;> infer_instance

theorem EpStruct.kernel_cmap {s : State} (h : EpStruct s) {c : Nat} (hk : (s.kernel (fdOf c)).isSome) :
    s.cmap (fdOf c) = some c ∧ (s.chans c).added = true := by
  have hl := h.loc c
  unfold EpLocal at hl
  split at hl
  · rename_i ha; exact ⟨hl.1, ha⟩
  · rw [hl.2.2.2] at hk; simp at hk

theorem epollFill_dead (ready : List (Nat × Nat)) :
    ∀ (s : State) (acc : List Nat), (∀ p ∈ ready, s.cmap (fdOf p.1) = some p.1) →
      (epollFill s ready acc).1.dead = s.dead := by
  induction ready with
  | nil => intro s acc _; rfl
  | cons p rest ih =>
    intro s acc h
    obtain ⟨c, rev⟩ := p
    have hc : s.cmap (fdOf c) = some c := h (c, rev) (by simp)
    simp only [epollFill, hc, ne_eq, not_true_eq_false, if_false]
    rw [ih _ _ (fun q hq => by simpa [setChan] using h q (by simp [hq]))]
    rfl

/-- an epoll loop on a well-behaved kernel: alive, invariant holds -/
def EpAlive (s : State) : Prop := EpGood s ∧ s.dead = false

theorem epAlive_poll (s : State) (ready nret) (h : EpAlive s) (henv : epEnvOk s (.iter ready nret)) :
    EpAlive (pollerPoll s ready nret).1 := by
  refine ⟨epGood_frame _ _ (frame_pollerPoll s ready nret) h.1, ?_⟩
  obtain ⟨h1, h2, h3⟩ := henv h.1.1
  unfold pollerPoll
  rw [h.1.1]
  simp only
  have hn : ¬ (ready.length > (emit s (.wait s.evsize kPollTimeMs)).evsize ∨ nret ≠ ready.length) := by
    simp only [emit]; omega
  by_cases hz : epHasEvents (nret : Int)
  · rw [if_pos hz, if_neg hn]
    have hf := epollFill_dead ready (emit s (.wait s.evsize kPollTimeMs)) []
      (fun p hp => (h.1.2.kernel_cmap (h3 p hp)).1)
    generalize epollFill (emit s (.wait s.evsize kPollTimeMs)) ready [] = r at hf
    obtain ⟨s1, act⟩ := r
    simp only at hf ⊢
    split
    · simp only [emit] at hf ⊢; rw [hf]; exact h.2
    · rw [hf]; exact h.2
  · rw [if_neg hz]; exact h.2

theorem epAlive_run (ins : List In) (henv : Along epEnvOk (init .epoll) ins) :
    EpAlive (run (init .epoll) ins) := by
  refine run_induction (P := EpAlive) (Q := epEnvOk) ?_ ?_ ?_ ?_ ?_ ins _ ?_ henv
  · intro s c k h
    exact ⟨epGood_applyOp s c k h.1, (epStruct_applyOp h.1.1 h.1.2 c k).2.1.trans h.2⟩
  · intro s t q h
    have hd : t.dead = s.dead := by obtain ⟨hh, c, rfl⟩ := q; rfl
    exact ⟨epGood_frame s t q.frame h.1, hd.trans h.2⟩
  · intro s t q h
    exact ⟨epGood_cb s t q h.1, (frame_of_cbStep q).2.2.2.2.2.trans h.2⟩
  · intro s ready nret h _ henv
    exact epAlive_poll s ready nret h henv
  · intro s it act hh c h
    exact ⟨⟨h.1.1, h.1.2.congr rfl rfl (fun _ => rfl) (fun _ => rfl) (fun _ => rfl)⟩, h.2⟩
  · refine ⟨epGood_init, ?_⟩
    have h1 := (epStruct_applyOp (s := empty .epoll) rfl epStruct_empty timerChan .enableR)
    have h2 := (epStruct_applyOp (s := applyOp (empty .epoll) timerChan .enableR)
      ((applyOp_be _ _ _).trans rfl) h1.1 wakeChan .enableR)
    exact h2.2.1.trans h1.2.1


/-! ### refinement: the kernel's interest list is the specification map -/

theorem epStruct_refines {s : State} (hbe : s.be = .epoll) (h : EpStruct s)
    (fd : Int) (mask : Nat) : watched s fd mask ↔ specWatched s fd mask := by
  simp only [watched, hbe, specWatched]
  constructor
  · intro hk
    by_cases hfd : 0 ≤ fd
    · have hfc : fd = fdOf fd.toNat := by unfold fdOf; omega
      have hl := h.loc fd.toNat
      rw [← hfc, hk] at hl
      unfold EpLocal at hl
      split at hl
      · rename_i ha
        rcases hl.2 with ⟨_, h2, h3⟩ | ⟨_, _, h3⟩
        · have hm : mask = (s.chans fd.toNat).events := Option.some.inj h2
          refine ⟨fd.toNat, hfc, ha, hm.symm, ?_⟩
          exact hm ▸ h3
        · exact absurd h3 (by simp)
      · exact absurd hl.2.2.2 (by simp)
    · have := (h.other fd (fun c e => hfd (by rw [e]; unfold fdOf; omega))).2
      rw [hk] at this; exact absurd this (by simp)
  · rintro ⟨c, rfl, ha, he, hm⟩
    have hl := h.loc c
    unfold EpLocal at hl
    rw [if_pos ha] at hl
    rcases hl.2 with ⟨_, h2, _⟩ | ⟨_, h2, _⟩
    · rw [h2, he]
    · rw [he] at h2; exact absurd h2 hm

end MuduoVerif.Poller
