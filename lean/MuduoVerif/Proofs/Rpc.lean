import MuduoVerif.Model.Rpc
/-! Invariants of the caller side of `Model/Rpc.lean` (id counter, `outstandings_`, pending completion)
and their preservation by every atomic step. -/
namespace MuduoVerif.Rpc
open MuduoVerif.Gen.Rpc

/-! ### what the generated definitions say (re-checked against the regenerated file on every build) -/
theorem idFetch_eq (c : Nat) : idFetch c = (c + 1, c + 1) := rfl
theorem insertBeforeSend_eq : callInsertBeforeSend = true := rfl
theorem erases_eq : respErasesWhenFound = true := rfl
theorem runCount_eq : respRunCount = 1 := rfl
theorem freeCount_eq : respFreeCount = 1 := rfl

/-! ### association list -/
theorem lookup_eraseKey (i j : Nat) (l : List (Nat × Nat)) :
    lookup i (eraseKey j l) = if i = j then none else lookup i l := by
  induction l with
  | nil => simp [eraseKey, lookup]
  | cons e rest ih =>
    obtain ⟨a, b⟩ := e
    unfold eraseKey at ih ⊢
    by_cases h : a = j
    · subst h
      simp only [List.filter, ne_eq, not_true_eq_false, decide_false]
      rw [ih]
      by_cases h2 : i = a
      · simp [h2]
      · have : ¬ a = i := fun h => h2 h.symm
        simp [h2, lookup, this]
    · simp only [List.filter, ne_eq, h, not_false_eq_true, decide_true, lookup]
      rw [ih]
      by_cases h2 : a = i
      · subst h2
        simp [h]
      · simp [h2]

theorem lookup_insertKey (i j k : Nat) (l : List (Nat × Nat)) :
    lookup i (insertKey j k l) = if j = i then some k else lookup i l := by
  unfold insertKey
  simp only [lookup]
  by_cases h : j = i
  · simp [h]
  · have : ¬ i = j := fun h' => h h'.symm
    simp [h, lookup_eraseKey, this]

/-! ### counting completions -/
def isRan (k : Nat) : Ev → Bool
  | .ran k' _ _ => decide (k' = k)
  | _ => false

def isFreeResp (k : Nat) : Ev → Bool
  | .free (.resp k') => decide (k' = k)
  | _ => false

def ranCount (k : Nat) (log : List Ev) : Nat := log.countP (isRan k)
def freeCount (k : Nat) (log : List Ev) : Nat := log.countP (isFreeResp k)

/-- events that do not belong to the caller side -/
def Ev.foreign : Ev → Bool
  | .ran .. => false
  | .free (.resp _) => false
  | .sent .. => false
  | _ => true

theorem ranCount_foreign (k : Nat) (evs log : List Ev) (h : ∀ e ∈ evs, e.foreign = true) :
    ranCount k (evs ++ log) = ranCount k log := by
  unfold ranCount
  rw [List.countP_append]
  have : List.countP (isRan k) evs = 0 := by
    rw [List.countP_eq_zero]
    intro e he
    have := h e he
    cases e <;> simp_all [Ev.foreign, isRan]
  omega

theorem freeCount_foreign (k : Nat) (evs log : List Ev) (h : ∀ e ∈ evs, e.foreign = true) :
    freeCount k (evs ++ log) = freeCount k log := by
  unfold freeCount
  rw [List.countP_append]
  have : List.countP (isFreeResp k) evs = 0 := by
    rw [List.countP_eq_zero]
    intro e he
    have := h e he
    cases e with
    | free c => cases c <;> simp_all [Ev.foreign, isFreeResp]
    | _ => simp_all [Ev.foreign, isFreeResp]
  omega

/-! ### the invariant -/
def Registered (s : Chan) (k : Nat) : Prop := s.stage k = .inserted ∨ s.stage k = .returned

structure CallInv (s : Chan) : Prop where
  born : ∀ k, s.nextCall ≤ k → s.stage k = .unborn
  alive : ∀ k, s.stage k ≠ .unborn → k < s.nextCall
  idpos : ∀ k, k < s.nextCall → 1 ≤ s.idOf k ∧ s.idOf k ≤ s.counter
  inj : ∀ j k, j < s.nextCall → k < s.nextCall → s.idOf j = s.idOf k → j = k
  noSentOnly : ∀ k, s.stage k ≠ .sentOnly
  out : ∀ i k, lookup i s.outstanding = some k →
    s.idOf k = i ∧ Registered s k ∧ ranCount k s.log = 0 ∧ freeCount k s.log = 0 ∧ (∀ m, s.pending ≠ some (k, m))
  pend : ∀ k m, s.pending = some (k, m) →
    m.id = s.idOf k ∧ Registered s k ∧ Ev.arrived m ∈ s.log ∧ ranCount k s.log = 0 ∧ freeCount k s.log = 0
  once : ∀ k, ranCount k s.log ≤ 1 ∧ freeCount k s.log ≤ 1
  fresh : ∀ k, ¬ Registered s k → ranCount k s.log = 0 ∧ freeCount k s.log = 0 ∧ (∀ m, s.pending ≠ some (k, m))
  own : ∀ k i v, Ev.ran k i v ∈ s.log → i = s.idOf k ∧ ∃ m, Ev.arrived m ∈ s.log ∧ m.id = i ∧ v = view m
  reg : ∀ k, Registered s k → ranCount k s.log = 0 → (∀ m, s.pending ≠ some (k, m)) →
    lookup (s.idOf k) s.outstanding = some k
  wire : ∀ i k, Ev.sent i k ∈ s.log → i = s.idOf k ∧ s.stage k = .returned

theorem CallInv.init (a h : Bool) : CallInv (init a h) := by
  constructor <;> simp [MuduoVerif.Rpc.init, lookup, ranCount, freeCount, Registered]

/-- a step that leaves the caller-side fields alone and logs only foreign events and arrivals -/
theorem CallInv.foreign_step {s s' : Chan} (inv : CallInv s) (evs : List Ev)
    (hlog : s'.log = evs ++ s.log) (hev : ∀ e ∈ evs, e.foreign = true)
    (h1 : s'.counter = s.counter) (h2 : s'.outstanding = s.outstanding) (h3 : s'.stage = s.stage)
    (h4 : s'.idOf = s.idOf) (h5 : s'.pending = s.pending) (h6 : s'.nextCall = s.nextCall) : CallInv s' := by
  have hr : ∀ k, ranCount k s'.log = ranCount k s.log := fun k => by rw [hlog]; exact ranCount_foreign k evs s.log hev
  have hf : ∀ k, freeCount k s'.log = freeCount k s.log := fun k => by rw [hlog]; exact freeCount_foreign k evs s.log hev
  have hmem : ∀ e, e ∈ s.log → e ∈ s'.log := fun e he => by rw [hlog]; exact List.mem_append_right _ he
  have hmem' : ∀ e, e.foreign = false → e ∈ s'.log → e ∈ s.log := fun e hfe he => by
    rw [hlog] at he
    rcases List.mem_append.mp he with h | h
    · have := hev e h; simp [this] at hfe
    · exact h
  constructor
  · intro k hk; rw [h3]; exact inv.born k (by omega)
  · intro k hk; rw [h6]; rw [h3] at hk; exact inv.alive k hk
  · intro k hk; rw [h4, h1]; exact inv.idpos k (by omega)
  · intro j k hj hk; rw [h4]; exact inv.inj j k (by omega) (by omega)
  · intro k; rw [h3]; exact inv.noSentOnly k
  · intro i k hl
    rw [h2] at hl
    have := inv.out i k hl
    simp only [Registered, h3, h4, h5, hr, hf] at *
    exact this
  · intro k m hp
    rw [h5] at hp
    obtain ⟨a, b, c, d, e⟩ := inv.pend k m hp
    simp only [Registered, h3, h4, hr, hf] at *
    exact ⟨a, b, hmem _ c, d, e⟩
  · intro k; rw [hr, hf]; exact inv.once k
  · intro k hk
    simp only [Registered, h3, h5, hr, hf] at *
    exact inv.fresh k hk
  · intro k i v he
    have he' := hmem' _ (by simp [Ev.foreign]) he
    obtain ⟨a, m, b, c, d⟩ := inv.own k i v he'
    rw [h4]
    exact ⟨a, m, hmem _ b, c, d⟩
  · intro k hk hrk hp
    simp only [Registered, h2, h3, h4, h5, hr] at *
    exact inv.reg k hk hrk hp
  · intro i k he
    have he' := hmem' _ (by simp [Ev.foreign]) he
    rw [h3, h4]
    exact inv.wire i k he'

end MuduoVerif.Rpc
