import MuduoVerif.Proofs.OwnerTrace
/-! Second layer of the ownership invariant: what an io loop that has left `loop()` leaves behind.  With the final
drain its queue is empty and stays empty, so "every io loop has exited and the base loop has run its queue" means
that nothing is left to do (`Srv.quiet`). -/
namespace MuduoVerif.Owner
open MuduoVerif.Gen.Owner
open MuduoVerif.Gen.Conn (StateE forceCloseAccepts shutdownAccepts forceCloseInLoopActs destroyedWhileConnected)

/-- `e`: a loop that is in the middle of leaving `loop()` (its final drain is running); `0` = none -/
structure XInvE (e : Nat) (s : Srv) : Prop where
  x1 : ∀ l, l ≠ 0 → s.exited l = true → s.alive = false ∧ l ≤ s.L
  x2 : s.drain = true → ∀ l, l ≠ 0 → l ≠ e → s.exited l = true → s.q l = [] ∧ s.done l = []
  x3 : ∀ l, s.L < l → s.q l = [] ∧ s.done l = []
  x4 : ∀ l, Task.srvDtor ∈ s.q l → l = 0

abbrev XInv (s : Srv) : Prop := XInvE 0 s

/-- `s'` results from `s` by work that only appends functors: to the base loop's queue, or (`al`: while the server
existed) to the queue of an io loop -/
structure GrowA (al : Bool) (s s' : Srv) : Prop where
  exited : s'.exited = s.exited
  drain : s'.drain = s.drain
  L : s'.L = s.L
  done : s'.done = s.done
  alive : s'.alive = true → s.alive = true
  q : ∀ l, ∃ ts, s'.q l = s.q l ++ ts ∧ (ts ≠ [] → l = 0 ∨ (al = true ∧ l ≤ s.L)) ∧ Task.srvDtor ∉ ts

theorem GrowA.refl (al : Bool) (s : Srv) : GrowA al s s :=
  ⟨rfl, rfl, rfl, rfl, id, fun _ => ⟨[], by simp, by simp, by simp⟩⟩

theorem GrowA.trans {al : Bool} {s s' s'' : Srv} (h1 : GrowA al s s') (h2 : GrowA al s' s'') : GrowA al s s'' := by
  refine ⟨h2.exited.trans h1.exited, h2.drain.trans h1.drain, h2.L.trans h1.L, h2.done.trans h1.done,
    fun h => h1.alive (h2.alive h), fun l => ?_⟩
  obtain ⟨t1, e1, c1, d1⟩ := h1.q l
  obtain ⟨t2, e2, c2, d2⟩ := h2.q l
  refine ⟨t1 ++ t2, by rw [e2, e1, List.append_assoc], ?_, ?_⟩
  · intro hne
    by_cases h : t1 = []
    · subst h
      have : t2 ≠ [] := by simpa using hne
      rcases c2 this with h' | h'
      · exact Or.inl h'
      · exact Or.inr ⟨h'.1, by rw [← h1.L]; exact h'.2⟩
    · exact c1 h
  · simp only [List.mem_append, not_or]; exact ⟨d1, d2⟩

theorem growA_of_fields (al : Bool) (s s' : Srv) (h1 : s'.exited = s.exited) (h2 : s'.drain = s.drain) (h3 : s'.L = s.L)
    (h4 : s'.done = s.done) (h5 : s'.alive = true → s.alive = true) (h6 : s'.q = s.q) : GrowA al s s' :=
  ⟨h1, h2, h3, h4, h5, fun l => ⟨[], by rw [h6]; simp, by simp, by simp⟩⟩

theorem growA_setConn (al : Bool) (s : Srv) (c : Nat) (C : Conn) : GrowA al s (s.setConn c C) :=
  growA_of_fields al _ _ rfl rfl rfl rfl id rfl

theorem growA_emit (al : Bool) (s : Srv) (c : Nat) (k : Kind) (l : Nat) : GrowA al s (s.emit c k l) :=
  growA_of_fields al _ _ rfl rfl rfl rfl id rfl

theorem growA_enq (al : Bool) (s : Srv) (l : Nat) (t : Task) (ht : t ≠ .srvDtor) (hl : l = 0 ∨ (al = true ∧ l ≤ s.L)) :
    GrowA al s (s.enq l t) := by
  refine ⟨rfl, rfl, rfl, rfl, id, fun l' => ?_⟩
  rw [enq_q]; split
  · rename_i h; subst h
    exact ⟨[t], rfl, fun _ => hl, by simpa using Ne.symm ht⟩
  · exact ⟨[], by simp, by simp, by simp⟩

theorem growA_reapOne (al : Bool) (s : Srv) (l c : Nat) : GrowA al s (reapOne s l c) := by
  unfold reapOne; split
  · exact (growA_setConn al s c _).trans (growA_emit al _ _ _ _)
  · exact GrowA.refl al s

theorem growA_connectEstablished (al : Bool) (s : Srv) (l c : Nat) : GrowA al s (connectEstablished s l c) := by
  unfold connectEstablished
  split
  · exact growA_emit al s _ _ _
  · split
    · exact growA_emit al s _ _ _
    · exact (growA_setConn al s c _).trans (growA_emit al _ _ _ _)

theorem growA_connectDestroyed (al : Bool) (s : Srv) (l c : Nat) : GrowA al s (connectDestroyed s l c) := by
  unfold connectDestroyed
  split
  · exact growA_emit al s _ _ _
  · split
    · exact growA_emit al s _ _ _
    · split
      · exact ((growA_setConn al s c _).trans (growA_emit al _ _ _ _)).trans (growA_emit al _ _ _ _)
      · exact (growA_setConn al s c _).trans (growA_emit al _ _ _ _)

/-- `removeConnectionIfAlive`: hands `connectDestroyed` to an io loop only while the server exists -/
theorem growA_removeInLoop (s : Srv) (l c : Nat) (hle : (s.conn c).loop ≤ s.L) : GrowA s.alive s (removeInLoop s l c) := by
  unfold removeInLoop
  split
  · simp only [removeGuarded, dtorExpiresToken, Bool.and_self, if_true]; exact GrowA.refl _ s
  · rename_i ha
    split
    · exact growA_emit _ s _ _ _
    · rw [handDestroy_rem]
      have ha' : s.alive = true := by simpa using ha
      have key : ∀ (k : Kind), GrowA s.alive s
          (({ s with map := mapErase s.map (s.conn c).name }.emit c k l).enq (s.conn c).loop (.des c)) := by
        intro k
        have e : ∀ s1 : Srv, s1.L = s.L → GrowA s.alive s1 (s1.enq (s.conn c).loop (.des c)) :=
          fun s1 h1 => growA_enq _ s1 _ _ (by simp) (Or.inr ⟨ha', by rw [h1]; exact hle⟩)
        exact GrowA.trans (s' := { s with map := mapErase s.map (s.conn c).name }.emit c k l)
          (growA_of_fields _ _ _ rfl rfl rfl rfl id rfl) (e ({ s with map := mapErase s.map (s.conn c).name }.emit c k l) rfl)
      exact key _

theorem growA_handleClose (s : Srv) (l c : Nat) (hle : (s.conn c).loop ≤ s.L) : GrowA s.alive s (handleClose s l c) := by
  unfold handleClose
  split
  · exact growA_emit _ s _ _ _
  · rw [removeConnection_nf]
    have g1 : GrowA s.alive s (((s.setConn c { s.conn c with st := .kDisconnected, cause := true }).emit c .down l).emit c .closeCb l) :=
      ((growA_setConn _ s c _).trans (growA_emit _ _ _ _ _)).trans (growA_emit _ _ _ _ _)
    split
    · exact g1.trans (growA_removeInLoop (((s.setConn c { s.conn c with st := .kDisconnected, cause := true }).emit c .down l).emit c .closeCb l) l c (by simpa using hle))
    · exact g1.trans (growA_enq _ _ _ _ (by simp) (Or.inl rfl))

theorem growA_forceCloseInLoop (s : Srv) (l c : Nat) (hle : (s.conn c).loop ≤ s.L) : GrowA s.alive s (forceCloseInLoop s l c) := by
  unfold forceCloseInLoop
  split
  · exact growA_emit _ s _ _ _
  · split
    · exact growA_handleClose s l c hle
    · exact GrowA.refl _ s

theorem growA_dtorOne (s : Srv) (c : Nat) (hle : (s.conn c).loop ≤ s.L) : GrowA true s (dtorOne s c) := by
  rw [dtorOne_nf]
  refine GrowA.trans ?_ (growA_reapOne true _ 0 c)
  split
  · exact (growA_setConn true s c _).trans (growA_connectDestroyed true _ 0 c)
  · exact (growA_setConn true s c _).trans (growA_enq true _ _ _ (by simp) (Or.inr ⟨rfl, by simpa using hle⟩))

theorem growA_destroyServer (s : Srv) (hle : ∀ c, (s.conn c).loop ≤ s.L) : GrowA s.alive s (destroyServer s) := by
  unfold destroyServer
  split
  · exact GrowA.refl _ s
  · rename_i ha
    have ha' : s.alive = true := by simpa using ha
    rw [ha']
    have g0 : GrowA true s { s with map := [], alive := false } :=
      growA_of_fields _ _ _ rfl rfl rfl rfl (fun h => by cases h) rfl
    have : ∀ (cs : List Nat) (s0 : Srv), (∀ c, (s0.conn c).loop ≤ s0.L) → GrowA true s0 (cs.foldl dtorOne s0) := by
      intro cs
      induction cs with
      | nil => intro s0 _; exact GrowA.refl _ s0
      | cons c cs ih =>
        intro s0 h0
        refine (growA_dtorOne s0 c (h0 c)).trans (ih _ ?_)
        intro c'
        have he := ext_dtorOne s0 c
        rw [he.loop, he.L]; exact h0 c'
    exact g0.trans (this _ _ hle)

theorem growA_runTask (s : Srv) (l : Nat) (t : Task) (hle : ∀ c, (s.conn c).loop ≤ s.L) : GrowA s.alive s (runTask s l t) := by
  cases t <;> simp only [runTask]
  · exact growA_connectEstablished _ s l _
  · exact growA_removeInLoop s l _ (hle _)
  · exact growA_connectDestroyed _ s l _
  · exact growA_forceCloseInLoop s l _ (hle _)
  · exact GrowA.refl _ s
  · exact growA_destroyServer s hle


theorem XInvE.grow {e : Nat} {al : Bool} {s s' : Srv} (hx : XInvE e s) (hg : GrowA al s s') (hal : al = true → s.alive = true) :
    XInvE e s' := by
  have key : ∀ l, (l ≠ 0 ∧ s.exited l = true) ∨ s.L < l → s'.q l = s.q l := by
    intro l hl
    obtain ⟨ts, e1, c1, _⟩ := hg.q l
    by_cases hts : ts = []
    · rw [e1, hts]; simp
    · exfalso
      rcases c1 hts with h0 | ⟨h1, h2⟩
      · rcases hl with ⟨h3, _⟩ | h3
        · exact h3 h0
        · omega
      · rcases hl with ⟨h3, h4⟩ | h3
        · have := (hx.x1 l h3 h4).1
          rw [hal h1] at this; cases this
        · omega
  refine ⟨?_, ?_, ?_, ?_⟩
  · intro l h0 hex
    rw [hg.exited] at hex
    obtain ⟨h1, h2⟩ := hx.x1 l h0 hex
    refine ⟨?_, by rw [hg.L]; exact h2⟩
    cases h : s'.alive with
    | false => rfl
    | true => rw [hg.alive h] at h1; cases h1
  · intro hd l h0 he hex
    rw [hg.drain] at hd; rw [hg.exited] at hex
    rw [key l (Or.inl ⟨h0, hex⟩), hg.done]
    exact hx.x2 hd l h0 he hex
  · intro l hl
    rw [hg.L] at hl
    rw [key l (Or.inr hl), hg.done]
    exact hx.x3 l hl
  · intro l hm
    obtain ⟨ts, e1, _, d1⟩ := hg.q l
    rw [e1] at hm
    rcases List.mem_append.mp hm with h | h
    · exact hx.x4 l h
    · exact absurd h d1

/-- a step that only shortens queues and batches; a batch may grow by a functor popped from a running loop's queue -/
structure Shrinks (e : Nat) (s s' : Srv) : Prop where
  exited : s'.exited = s.exited
  drain : s'.drain = s.drain
  L : s'.L = s.L
  alive : s'.alive = s.alive
  q : ∀ l, (s'.q l).Sublist (s.q l)
  done : ∀ l, (s'.done l).Sublist (s.done l) ∨ ((s.exited l = false ∨ l = e) ∧ s.q l ≠ [])

theorem XInvE.shrinks {e : Nat} {s s' : Srv} (hx : XInvE e s) (h : Shrinks e s s') : XInvE e s' := by
  refine ⟨?_, ?_, ?_, ?_⟩
  · intro l h0 hex
    rw [h.exited] at hex; rw [h.alive, h.L]; exact hx.x1 l h0 hex
  · intro hd l h0 he hex
    rw [h.drain] at hd; rw [h.exited] at hex
    obtain ⟨h1, h2⟩ := hx.x2 hd l h0 he hex
    refine ⟨List.sublist_nil.mp (h1 ▸ h.q l), ?_⟩
    rcases h.done l with h3 | ⟨h3, h4⟩
    · exact List.sublist_nil.mp (h2 ▸ h3)
    · exact absurd h1 h4
  · intro l hl
    rw [h.L] at hl
    obtain ⟨h1, h2⟩ := hx.x3 l hl
    refine ⟨List.sublist_nil.mp (h1 ▸ h.q l), ?_⟩
    rcases h.done l with h3 | ⟨_, h4⟩
    · exact List.sublist_nil.mp (h2 ▸ h3)
    · exact absurd h1 h4
  · intro l hm; exact hx.x4 l ((h.q l).subset hm)

theorem loops_le {s : Srv} (h : GInv s) (c : Nat) : (s.conn c).loop ≤ s.L := by
  by_cases hc : c < s.n
  · exact (h.conns c hc).core.loop_le
  · rw [(h.fresh c (by omega)).2.2]; exact Nat.zero_le _

theorem shrinks_pop (e : Nat) (s : Srv) (l : Nat) (t : Task) (rest : List Task) (hq : s.q l = t :: rest)
    (hex : s.exited l = false ∨ l = e) : Shrinks e s (pop s l t rest) := by
  refine ⟨rfl, rfl, rfl, rfl, fun l' => ?_, fun l' => ?_⟩
  · rw [pop_q]; split
    · rename_i h; subst h; rw [hq]; exact List.sublist_cons_self _ _
    · exact List.Sublist.refl _
  · simp only [pop]; split
    · rename_i h; subst h; right; exact ⟨hex, by rw [hq]; simp⟩
    · left; exact List.Sublist.refl _

theorem xinvE_runHead (e : Nat) (s : Srv) (hg : GInv s) (hx : XInvE e s) (l : Nat) (hex : s.exited l = false ∨ l = e) :
    XInvE e (runHead s l) := by
  cases hq : s.q l with
  | nil => rw [runHead_nil s l hq]; exact hx
  | cons t rest =>
    rw [runHead_cons s l t rest hq]
    have h1 := hx.shrinks (shrinks_pop e s l t rest hq hex)
    exact h1.grow (growA_runTask (pop s l t rest) l t (fun c => loops_le hg c)) (fun h => h)

theorem shrinks_undone (e : Nat) (s : Srv) (l : Nat) (t : Task) (rest : List Task) (hd : s.done l = t :: rest) :
    Shrinks e s (undone s l rest) := by
  refine ⟨rfl, rfl, rfl, rfl, fun _ => List.Sublist.refl _, fun l' => ?_⟩
  left; simp only [undone]; split
  · rename_i h; subst h; rw [hd]; exact List.sublist_cons_self _ _
  · exact List.Sublist.refl _

theorem xinvE_releaseHead (e : Nat) (s : Srv) (hx : XInvE e s) (l : Nat) : XInvE e (releaseHead s l) := by
  cases hd : s.done l with
  | nil => simp only [releaseHead, hd]; exact hx
  | cons t rest =>
    rw [releaseHead_cons s l t rest hd]
    have h1 := hx.shrinks (shrinks_undone e s l t rest hd)
    cases t.conn? with
    | none => exact h1
    | some c => exact h1.grow (growA_reapOne false _ l c) (fun h => by cases h)

theorem shrinks_dropq (e : Nat) (s : Srv) (l : Nat) (t : Task) (rest : List Task) (hq : s.q l = t :: rest) :
    Shrinks e s (dropq s l rest) := by
  refine ⟨rfl, rfl, rfl, rfl, fun l' => ?_, fun _ => Or.inl (List.Sublist.refl _)⟩
  simp only [dropq]; split
  · rename_i h; subst h; rw [hq]; exact List.sublist_cons_self _ _
  · exact List.Sublist.refl _

theorem xinvE_dropHead (e : Nat) (s : Srv) (hx : XInvE e s) (l : Nat) : XInvE e (dropHead s l) := by
  cases hq : s.q l with
  | nil => simp only [dropHead, hq]; exact hx
  | cons t rest =>
    rw [dropHead_cons s l t rest hq]
    have h1 := hx.shrinks (shrinks_dropq e s l t rest hq)
    cases t.conn? with
    | none => exact h1
    | some c => exact h1.grow (growA_reapOne false _ l c) (fun h => by cases h)

theorem xinvE_iterate (e : Nat) (f : Srv → Srv) (P : Srv → Prop) (hf : ∀ s, P s → XInvE e s → P (f s) ∧ XInvE e (f s)) (k : Nat) (s : Srv)
    (hp : P s) (hx : XInvE e s) : P (iterate f k s) ∧ XInvE e (iterate f k s) := by
  induction k generalizing s with
  | zero => exact ⟨hp, hx⟩
  | succ k ih => obtain ⟨h1, h2⟩ := hf s hp hx; exact ih _ h1 h2


theorem xinvE_enq (e : Nat) (s : Srv) (hx : XInvE e s) (l : Nat) (t : Task) (ht : t = .srvDtor → l = 0) (hl : l ≤ s.L)
    (hex : l = 0 ∨ s.exited l = false ∨ s.drain = false) : XInvE e (s.enq l t) := by
  refine ⟨hx.x1, ?_, ?_, ?_⟩
  · intro hd l' h0 he hx'
    have : l' ≠ l := by
      intro h; subst h
      rcases hex with h1 | h1 | h1
      · exact h0 h1
      · simp only [enq_exited] at hx'; rw [h1] at hx'; cases hx'
      · simp only [Srv.enq] at hd; rw [h1] at hd; cases hd
    simp only [enq_q_other _ _ _ _ this, enq_done]
    exact hx.x2 hd l' h0 he hx'
  · intro l' hl'
    have : l' ≠ l := by simp only [enq_L] at hl'; omega
    simp only [enq_q_other _ _ _ _ this, enq_done]
    exact hx.x3 l' hl'
  · intro l' hm
    rw [enq_q] at hm; split at hm
    · rename_i h; subst h
      rcases List.mem_append.mp hm with h1 | h1
      · exact hx.x4 _ h1
      · exact ht (List.mem_singleton.mp h1).symm
    · exact hx.x4 _ hm

theorem releaseHead_q (s : Srv) (l : Nat) : (releaseHead s l).q = s.q := by
  cases hd : s.done l with
  | nil => simp only [releaseHead, hd]
  | cons t rest =>
    rw [releaseHead_cons s l t rest hd]
    cases t.conn? with
    | none => rfl
    | some c => simp only; unfold reapOne; split <;> rfl

theorem releaseHead_done (s : Srv) (l : Nat) : (releaseHead s l).done l = (s.done l).tail := by
  cases hd : s.done l with
  | nil => simp only [releaseHead, hd]; rfl
  | cons t rest =>
    rw [releaseHead_cons s l t rest hd]
    cases t.conn? with
    | none => simp [undone]
    | some c =>
      simp only
      have : (reapOne (undone s l rest) l c).done = (undone s l rest).done := by unfold reapOne; split <;> rfl
      rw [this]; simp [undone]

theorem endBatch_q_done (s : Srv) (l : Nat) : (endBatch s l).q = s.q ∧ (endBatch s l).done l = [] := by
  unfold endBatch
  have : ∀ (k : Nat) (s : Srv), (s.done l).length = k →
      (iterate (fun s => releaseHead s l) k s).q = s.q ∧ (iterate (fun s => releaseHead s l) k s).done l = [] := by
    intro k
    induction k with
    | zero => intro s h; exact ⟨rfl, List.length_eq_zero_iff.mp h⟩
    | succ k ih =>
      intro s h
      have h1 : ((releaseHead s l).done l).length = k := by rw [releaseHead_done]; simp [h]
      obtain ⟨a, b⟩ := ih (releaseHead s l) h1
      exact ⟨a.trans (releaseHead_q s l), b⟩
  exact this _ s rfl

/-- an io loop whose server is gone only hands work to the base loop: its own queue just gets shorter -/
theorem runHead_io (s : Srv) (hg : GInv s) (l : Nat) (hl : l ≠ 0) (ha : s.alive = false) :
    (runHead s l).q l = (s.q l).tail ∧ (runHead s l).alive = false := by
  cases hq : s.q l with
  | nil => rw [runHead_nil s l hq]; exact ⟨by rw [hq]; rfl, ha⟩
  | cons t rest =>
    rw [runHead_cons s l t rest hq]
    have g := growA_runTask (pop s l t rest) l t (fun c => loops_le hg c)
    obtain ⟨ts, e1, c1, _⟩ := g.q l
    have hts : ts = [] := by
      apply Decidable.byContradiction; intro hne
      rcases c1 hne with h | ⟨h, _⟩
      · exact hl h
      · simp only [pop_alive] at h; rw [ha] at h; cases h
    refine ⟨by rw [e1, hts]; simp, ?_⟩
    cases h : (runTask (pop s l t rest) l t).alive with
    | false => rfl
    | true => have := g.alive h; simp only [pop_alive] at this; rw [ha] at this; cases this

theorem iterate_runHead_io (l : Nat) (hl : l ≠ 0) (k : Nat) : ∀ s, GInv s → s.alive = false → (s.q l).length = k →
    (iterate (fun s => runHead s l) k s).q l = [] := by
  induction k with
  | zero => intro s _ _ h; exact List.length_eq_zero_iff.mp h
  | succ k ih =>
    intro s hg ha h
    obtain ⟨h1, h2⟩ := runHead_io s hg l hl ha
    exact ih _ (ginv_runHead s hg l) h2 (by rw [h1]; simp [h])

theorem growA_accept (s : Srv) (hg : GInv s) (hinj : Function.Injective s.nameOf) : GrowA s.alive s (accept s) := by
  by_cases hgo : s.alive = true ∧ s.exited 0 = false
  swap
  · have : accept s = s := by
      unfold accept
      cases ha : s.alive <;> cases he : s.exited 0 <;> simp_all
    rw [this]; exact GrowA.refl _ s
  obtain ⟨ha, he⟩ := hgo
  rw [accept_nf s ha he (mapFind_fresh s hg hinj), ha]
  obtain ⟨hpick, _⟩ := picked_loop s hg hinj
  have hle : loopIndex (Pool.getNextLoop s.pool).1 ≤ s.L := by
    rw [hpick]; split
    · omega
    · rename_i hL; have := Nat.mod_lt s.n (Nat.pos_of_ne_zero hL); omega
  have g0 : ∀ l, GrowA true s (accepted s l) := fun l => growA_of_fields _ _ _ rfl rfl rfl rfl (fun _ => ha) rfl
  split
  · exact (g0 0).trans (growA_connectEstablished true _ 0 _)
  · exact (g0 _).trans (growA_enq true _ _ _ (by simp) (Or.inr ⟨rfl, hle⟩))

/-- a user's `forceClose()` / `shutdown()` is not accepted by a connection whose loop has exited after its final drain -/
theorem not_up_of_exited (s : Srv) (hg : GInv s) (hx : XInv s) (c : Nat) (hal : (s.conn c).alive = true)
    (hl0 : (s.conn c).loop ≠ 0) (hex : s.exited (s.conn c).loop = true) (hd : s.drain = true) : isUp (s.conn c).st = false := by
  have hc := hg.conns c (lt_of_alive hg hal)
  have hsa := (hx.x1 _ hl0 hex).1
  have hq := (hx.x2 hd _ hl0 hl0 hex).1
  have hio : ioQ s c = [] := by unfold ioQ; rw [hq]; rfl
  have hrow := hc.core.row
  unfold RowP at hrow
  rw [hio, hsa] at hrow
  cases hu : isUp (s.conn c).st with
  | false => rfl
  | true =>
    clear hq hio hc hg hx
    rcases hrow with r|r|r|r|r|r|r|r|r <;> grind [isUp]

theorem runHead_drain (s : Srv) (hg : GInv s) (l : Nat) : (runHead s l).drain = s.drain := by
  cases hq : s.q l with
  | nil => rw [runHead_nil s l hq]
  | cons t rest =>
    rw [runHead_cons s l t rest hq]
    exact (growA_runTask (pop s l t rest) l t (fun c => loops_le hg c)).drain

theorem releaseHead_drain (s : Srv) (l : Nat) : (releaseHead s l).drain = s.drain := by
  cases hd : s.done l with
  | nil => simp only [releaseHead, hd]
  | cons t rest =>
    rw [releaseHead_cons s l t rest hd]
    cases t.conn? with
    | none => rfl
    | some c => exact (growA_reapOne false _ l c).drain

theorem endBatch_xinv (e : Nat) (s : Srv) (hx : XInvE e s) (l : Nat) : XInvE e (endBatch s l) ∧ (endBatch s l).drain = s.drain := by
  unfold endBatch
  have := xinvE_iterate e (fun s => releaseHead s l) (fun s' => s'.drain = s.drain)
    (fun s' hp h => ⟨(releaseHead_drain s' l).trans hp, xinvE_releaseHead e s' h l⟩) (s.done l).length s rfl hx
  exact ⟨this.2, this.1⟩

theorem xinvE_drainBatch (e : Nat) (s : Srv) (hg : GInv s) (hx : XInvE e s) (l : Nat) (hex : s.exited l = false ∨ l = e) :
    GInv (drainBatch s l) ∧ XInvE e (drainBatch s l) := by
  unfold drainBatch
  have hexi : ∀ (k : Nat) (s0 : Srv), (iterate (fun s => runHead s l) k s0).exited = s0.exited := by
    intro k; induction k with
    | zero => intro s0; rfl
    | succ k ih =>
      intro s0
      rw [show iterate (fun s => runHead s l) (k + 1) s0 = iterate (fun s => runHead s l) k (runHead s0 l) from rfl, ih]
      cases hq : s0.q l with
      | nil => rw [runHead_nil s0 l hq]
      | cons t rest =>
        rw [runHead_cons s0 l t rest hq]
        by_cases ht : t = .srvDtor
        · subst ht
          have : ∀ (cs : List Nat) (s1 : Srv), (cs.foldl dtorOne s1).exited = s1.exited := by
            intro cs; induction cs with
            | nil => intro s1; rfl
            | cons c cs ih2 => intro s1; exact (ih2 _).trans (ext_dtorOne s1 c).exited
          simp only [runTask, destroyServer]
          split
          · rfl
          · exact this _ _
        · exact ((ext_pop s0 l t rest).trans (ext_runTask _ l t ht)).exited
  obtain ⟨⟨hg2, hex2⟩, hx2⟩ := xinvE_iterate e (fun s => runHead s l) (fun s' => GInv s' ∧ s'.exited = s.exited)
    (fun s' hp hxs => ⟨⟨ginv_runHead s' hp.1 l, (hexi 1 s').trans hp.2⟩,
      xinvE_runHead e s' hp.1 hxs l (by rw [hp.2]; exact hex)⟩)
    (s.q l).length s ⟨hg, rfl⟩ hx
  exact ⟨ginv_endBatch _ hg2 l, (endBatch_xinv e _ hx2 l).1⟩

theorem drainBatch_io (s : Srv) (hg : GInv s) (l : Nat) (hl : l ≠ 0) (ha : s.alive = false) :
    (drainBatch s l).q l = [] ∧ (drainBatch s l).done l = [] := by
  unfold drainBatch
  obtain ⟨hq3, hd3⟩ := endBatch_q_done (iterate (fun s => runHead s l) (s.q l).length s) l
  exact ⟨by rw [hq3]; exact iterate_runHead_io l hl _ s hg ha rfl, hd3⟩

theorem xinvE_drainAll (s : Srv) (l : Nat) (f : Nat) : ∀ s, GInv s → XInvE l s → XInvE l (drainAll l f s) := by
  induction f with
  | zero => intro s _ hx; exact hx
  | succ f ih =>
    intro s hg hx
    obtain ⟨h1, h2⟩ := xinvE_drainBatch l s hg hx l (Or.inr rfl)
    simp only [drainAll]; split
    · exact h2
    · exact ih _ h1 h2

theorem xinv_exit (s : Srv) (hg : GInv s) (hx : XInv s) (l : Nat) (hio : l ≠ 0 → s.alive = false ∧ l ≤ s.L) :
    XInv (if s.drain then
      (if s.drainRepeats then drainAll l 3 { s with exited := fun i => if i = l then true else s.exited i }
       else drainBatch { s with exited := fun i => if i = l then true else s.exited i } l)
    else { s with exited := fun i => if i = l then true else s.exited i }) := by
  -- the loop is marked as exited; while its final drain runs it is exempt from the "exited loops are empty" clause
  have hx1 : XInvE l { s with exited := fun i => if i = l then true else s.exited i } := by
    refine ⟨?_, ?_, hx.x3, hx.x4⟩
    · intro l' h0 hex
      simp only at hex
      split at hex
      · rename_i h; subst h; exact hio h0
      · exact hx.x1 l' h0 hex
    · intro hd l' h0 he hex
      simp only at hex
      rw [if_neg he] at hex
      exact hx.x2 hd l' h0 h0 hex
  have hg1 : GInv { s with exited := fun i => if i = l then true else s.exited i } := ginv_exited s hg _
  generalize hs1 : ({ s with exited := fun i => if i = l then true else s.exited i } : Srv) = s1 at hx1 hg1 ⊢
  have hs1d : s1.drain = s.drain := by rw [← hs1]
  have hs1a : s1.alive = s.alive := by rw [← hs1]
  -- from "exempt" back to the plain invariant, given that the loop's own queue and batch are empty
  have close : ∀ s2 : Srv, XInvE l s2 → (l ≠ 0 → s2.q l = [] ∧ s2.done l = []) → XInv s2 := by
    intro s2 h2 hemp
    refine ⟨h2.x1, ?_, h2.x3, h2.x4⟩
    intro hd l' h0 _ hex
    by_cases hl : l' = l
    · subst hl; exact hemp h0
    · exact h2.x2 hd l' h0 hl hex
  cases hd : s.drain with
  | false =>
    simp only [Bool.false_eq_true, if_false]
    refine ⟨hx1.x1, ?_, hx1.x3, hx1.x4⟩
    intro hd' ; rw [hs1d, hd] at hd'; cases hd'
  | true =>
    simp only [if_true]
    have hb := xinvE_drainBatch l s1 hg1 hx1 l (Or.inr rfl)
    split
    · -- repeated drain
      by_cases hl0 : l = 0
      · subst hl0
        exact close _ (xinvE_drainAll s1 0 3 s1 hg1 hx1) (fun h => absurd rfl h)
      · obtain ⟨hq, hdn⟩ := drainBatch_io s1 hg1 l hl0 (hs1a.trans (hio hl0).1)
        have : drainAll l 3 s1 = drainBatch s1 l := by simp only [drainAll, hq, if_true]
        rw [this]
        exact close _ hb.2 (fun _ => ⟨hq, hdn⟩)
    · by_cases hl0 : l = 0
      · subst hl0; exact close _ hb.2 (fun h => absurd rfl h)
      · exact close _ hb.2 (fun _ => drainBatch_io s1 hg1 l hl0 (hs1a.trans (hio hl0).1))

theorem xinv_step (s : Srv) (hg : GInv s) (hinj : Function.Injective s.nameOf) (hx : XInv s) (a : Action) : XInv (step s a) := by
  cases a with
  | accept => exact hx.grow (growA_accept s hg hinj) (fun h => h)
  | run l =>
    simp only [step]; split
    · exact hx
    · rename_i h; exact xinvE_runHead 0 s hg hx l (Or.inl (by simpa using h))
  | endBatch l =>
    simp only [step, endBatch]
    exact (xinvE_iterate 0 _ (fun _ => True) (fun s _ h => ⟨trivial, xinvE_releaseHead 0 s h l⟩) _ s trivial hx).2
  | msg c =>
    simp only [step]; split
    · exact hx.grow (growA_emit false s _ _ _) (fun h => by cases h)
    · exact hx
  | close c =>
    simp only [step]; split
    · exact hx.grow ((growA_handleClose s _ c (loops_le hg c)).trans (growA_reapOne _ _ _ c)) (fun h => h)
    · exact hx
  | forceClose c thr =>
    simp only [step, forceCloseDispatch_queue, reduceCtorEq, false_and, if_false]
    split
    · rename_i hgd
      have hup : isUp (s.conn c).st = true := by
        have := hgd.2; unfold forceCloseAccepts at this; rcases this with h1 | h1 <;> simp [isUp, h1]
      have h1 : XInv (s.setConn c { s.conn c with st := .kDisconnecting, cause := true }) :=
        hx.grow (growA_setConn false s c _) (fun h => by cases h)
      refine xinvE_enq 0 _ h1 _ _ (by simp) (by simpa using loops_le hg c) ?_
      by_cases hl0 : (s.conn c).loop = 0
      · exact Or.inl hl0
      · right
        cases hex : s.exited (s.conn c).loop with
        | false => exact Or.inl hex
        | true =>
          right
          cases hd : s.drain with
          | false => exact hd
          | true => have := not_up_of_exited s hg hx c hgd.1 hl0 hex hd; rw [hup] at this; cases this
    · exact hx
  | shutdown c thr =>
    simp only [step, shutdownDispatch_queue, reduceCtorEq, false_and, if_false]
    split
    · rename_i hgd
      have hup : isUp (s.conn c).st = true := by
        have : (s.conn c).st = .kConnected := hgd.2
        simp [isUp, this]
      have h1 : XInv (s.setConn c { s.conn c with st := .kDisconnecting }) :=
        hx.grow (growA_setConn false s c _) (fun h => by cases h)
      refine xinvE_enq 0 _ h1 _ _ (by simp) (by simpa using loops_le hg c) ?_
      by_cases hl0 : (s.conn c).loop = 0
      · exact Or.inl hl0
      · right
        cases hex : s.exited (s.conn c).loop with
        | false => exact Or.inl hex
        | true =>
          right
          cases hd : s.drain with
          | false => exact hd
          | true => have := not_up_of_exited s hg hx c hgd.1 hl0 hex hd; rw [hup] at this; cases this
    · exact hx
  | hold c =>
    simp only [step]; split
    · exact hx.grow (growA_setConn false s c _) (fun h => by cases h)
    · exact hx
  | drop c thr =>
    simp only [step]; split
    · exact hx.grow ((growA_setConn false s c _).trans (growA_reapOne false _ thr c)) (fun h => by cases h)
    · exact hx
  | destroy => exact hx.grow (growA_destroyServer s (fun c => loops_le hg c)) (fun h => h)
  | postDestroy =>
    simp only [step]; split
    · exact xinvE_enq 0 s hx 0 _ (fun _ => rfl) (Nat.zero_le _) (Or.inl rfl)
    · exact hx
  | loopGone l =>
    simp only [step]; split
    · exact (xinvE_iterate 0 _ (fun _ => True) (fun s _ h => ⟨trivial, xinvE_dropHead 0 s h l⟩) _ s trivial hx).2
    · exact hx
  | exit l =>
    simp only [step]; split
    · exact hx
    · rename_i hcond
      have hne : s.exited l = false := by cases h : s.exited l <;> simp_all
      have hdn : s.done l = [] := by
        cases h : s.done l with
        | nil => rfl
        | cons t r => simp [h] at hcond
      have hio : l ≠ 0 → s.alive = false ∧ l ≤ s.L := by
        intro hl0
        have h1 : (l != 0) = true := by simpa using hl0
        constructor
        · cases h : s.alive with
          | false => rfl
          | true => simp [h1, h] at hcond
        · apply Decidable.byContradiction; intro hgt
          have : decide (s.L < l) = true := by simpa using (by omega : s.L < l)
          simp [h1, this] at hcond
      exact xinv_exit s hg hx l hio

theorem xinv_init (L : Nat) (nameOf : Nat → Nat) : XInv (init L nameOf) :=
  ⟨fun l _ h => by simp [init] at h, fun _ l _ _ h => by simp [init] at h, fun l _ => ⟨rfl, rfl⟩, fun l h => by simp [init] at h⟩

theorem xinv_run (as : List Action) : ∀ s, GInv s → Function.Injective s.nameOf → GoodSched s as → XInv s → XInv (run s as) := by
  induction as with
  | nil => intro s _ _ _ h; exact h
  | cons a as ih =>
    intro s hg hinj hgs hx
    have hn : (step s a).nameOf = s.nameOf := (same_step s a).2.1
    exact ih (step s a) (ginv_step s hg hinj a hgs.1) (by rw [hn]; exact hinj) hgs.2 (xinv_step s hg hinj hx a)

theorem run_drain (as : List Action) : ∀ s, (run s as).drain = s.drain := by
  induction as with
  | nil => intro s; rfl
  | cons a as ih => intro s; exact (ih (step s a)).trans (same_step s a).2.2.1

/-- with the final drain: the server destroyed, every io loop out of `loop()`, the base loop's queue run - then nothing
is left anywhere -/
theorem quiet_of_exited (s : Srv) (hx : XInv s) (hd : s.drain = true) (hio : ∀ l, 1 ≤ l → l ≤ s.L → s.exited l = true)
    (hbase : s.q 0 = [] ∧ s.done 0 = []) : s.quiet := by
  intro l
  by_cases h0 : l = 0
  · subst h0; exact hbase
  · by_cases hl : l ≤ s.L
    · exact hx.x2 hd l h0 h0 (hio l (by omega) hl)
    · exact hx.x3 l (by omega)

/-- with io loops (and the final drain) no `connectEstablished` / `connectDestroyed` functor is ever stranded: the
connections' loops empty their queues when they leave, and the base loop never holds such a functor -/
theorem strandOK_io (s : Srv) (hg : GInv s) (hx : XInv s) (hL : s.L ≠ 0) (hd : s.drain = true) (l : Nat)
    (hr : goneReady s l = true) : StrandOK s l := by
  simp only [goneReady, Bool.and_eq_true, Bool.not_eq_true'] at hr
  by_cases h0 : l = 0
  · subst h0
    intro t ht c
    have key : ∀ u, u = Task.est c ∨ u = Task.des c → u ∈ s.q 0 → False := by
      intro u hu hm
      have hab : about c u = true := by rcases hu with h | h <;> simp [h]
      have hc : c < s.n := by
        apply Decidable.byContradiction; intro hge
        have := (hg.fresh c (by omega)).1 0 u hm
        rw [hab] at this; cases this
      have hl : (s.conn c).loop = 0 := by
        apply Decidable.byContradiction; intro hne
        have := ((hg.conns c hc).core.stray 0).1 (Ne.symm hne)
        rcases hu with h | h
        · exact this.1 (h ▸ hm)
        · exact this.2.1 (h ▸ hm)
      have := hg.rest.assigned c hc
      rw [if_neg hL] at this
      omega
    exact ⟨fun h => key t (Or.inl h) ht, fun h => key t (Or.inr h) ht⟩
  · have := (hx.x2 hd l h0 h0 hr.1.1).1
    intro t ht; rw [this] at ht; cases ht

theorem goodSched_io (as : List Action) : ∀ s, GInv s → XInv s → Function.Injective s.nameOf → s.L ≠ 0 → s.drain = true →
    GoodSched s as := by
  induction as with
  | nil => intro s _ _ _ _ _; trivial
  | cons a as ih =>
    intro s hg hx hinj hL hd
    have h1 : ∀ l, a = .loopGone l → goneReady s l = true → StrandOK s l := fun l _ hr => strandOK_io s hg hx hL hd l hr
    have hs := same_step s a
    exact ⟨h1, ih (step s a) (ginv_step s hg hinj a h1) (xinv_step s hg hinj hx a) (by rw [hs.2.1]; exact hinj)
      (by rw [hs.1]; exact hL) (by rw [hs.2.2.1]; exact hd)⟩

end MuduoVerif.Owner
