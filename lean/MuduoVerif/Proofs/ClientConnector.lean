import MuduoVerif.Proofs.ClientTr
/-! Preservation of `Mid` by the functions of the Connector. -/
namespace MuduoVerif.Client
open MuduoVerif.Gen.Client

/-- facts of the generated file the proofs depend on (a different extraction breaks them here) -/
theorem gen_cycleResetsDelay : cycleResetsDelay = true := rfl
theorem gen_retryUsesOldDelay : retryUsesOldDelay = true := rfl
theorem gen_retryClosesSocket : retryClosesSocket = true := rfl
theorem gen_stopResetsChannelNow : stopResetsChannelNow = true := rfl
theorem gen_holdsRef : startHoldsRef = true ∧ stopHoldsRef = true ∧ resetHoldsRef = true ∧ retryTimerHoldsRef = true :=
  ⟨rfl, rfl, rfl, rfl⟩
theorem gen_shutdown_weak : MuduoVerif.Gen.Conn.shutdownHold = .weak := rfl
theorem gen_kInit : kInitRetryDelayMs = specDelay 0 := rfl

theorem nextDelay_spec (i : Nat) : nextDelay (specDelay i) = specDelay (i + 1) := by
  unfold nextDelay specDelay kMaxRetryDelayMs
  rw [Nat.pow_succ]
  generalize 2 ^ i = x
  omega

theorem nRetry_snoc_retry (l : List (Nat × TKind)) (d : Nat) : nRetry (l ++ [(d, .retry)]) = nRetry l + 1 := by
  simp [nRetry, List.countP_append, isRetryT]
theorem nRetry_snoc_park (l : List (Nat × TKind)) (d : Nat) : nRetry (l ++ [(d, .park)]) = nRetry l := by
  simp [nRetry, List.countP_append, isRetryT]
theorem nRetry_zero {l : List (Nat × TKind)} (h : nRetry l = 0) : ∀ t ∈ l, t.2 ≠ .retry := by
  intro t ht he
  have := List.countP_pos_iff.mpr ⟨t, ht, (by simp [isRetryT, he] : isRetryT t = true)⟩
  unfold nRetry at h; omega

macro "mid_auto" : tactic =>
  `(tactic| (first | assumption | grind [attempting, held, nRetry_snoc_retry, nRetry_snoc_park, Task.plain, Task.holds] | skip))

theorem mem_q_connectorAlive {c : C} {r : List Task} {t : Task} (h15 : ∀ t ∈ r, t ∈ c.batch)
    (ht : t ∈ r ++ c.pending) (hh : taskHoldsConnector t = true) : connectorAlive c = true := by
  unfold connectorAlive
  rcases List.mem_append.mp ht with h | h
  · have : c.batch.any taskHoldsConnector = true := List.any_eq_true.mpr ⟨t, h15 t h, hh⟩
    simp [this]
  · have : c.pending.any taskHoldsConnector = true := List.any_eq_true.mpr ⟨t, h, hh⟩
    simp [this]

theorem reapConnector_id {c : C} {r : List Task} {ph : Bool} (hi : Mid c r ph) : reapConnector c = c := by
  unfold reapConnector
  split
  · rfl
  · rename_i hna
    split
    · rename_i hc
      exfalso
      cases hon : c.chanOn
      · obtain ⟨hm, _⟩ := hi.a5 hc hon
        exact hna (mem_q_connectorAlive hi.a15 hm rfl)
      · rcases hi.a14 hon with h | h
        · apply hna; unfold connectorAlive; simp [h]
        · exact hna (mem_q_connectorAlive hi.a15 h rfl)
    · rfl

theorem resetChannel_mid (c : C) (r : List Task) (ph : Bool) (hi : Mid c (.resetChannel :: r) ph) :
    Mid (resetChannel c) r ph := by
  obtain ⟨h6a, h6b, h6c, h6d⟩ := hi.a6 (by simp)
  have hnr : Task.resetChannel ∉ r ++ c.pending := by
    intro h
    have := List.count_pos_iff.mpr h
    simp at h6c this; omega
  unfold resetChannel
  rw [if_neg (by simp [h6b])]
  obtain ⟨notDead, a1, a2, a3, a4, a5, a6, a7, a8, a9, a10, a11, a13, a14, a15, a16, s1, c1, c2, c3, c4, c5, c6, c7, c8, c9, c10, g1, g3, h1, t1⟩ := hi
  constructor
  all_goals mid_auto

theorem popConnect_snd (c : C) : ∃ e b, (popConnect c).2 = { c with envConnect := e, starved := b } := by
  unfold popConnect; split
  · exact ⟨_, _, rfl⟩
  · exact ⟨_, _, rfl⟩
theorem popSoErr_snd (c : C) : ∃ e b, (popSoErr c).2 = { c with envSoErr := e, starved := b } := by
  unfold popSoErr; split
  · exact ⟨_, _, rfl⟩
  · exact ⟨_, _, rfl⟩
theorem popSelf_snd (c : C) : ∃ e b, (popSelf c).2 = { c with envSelf := e, starved := b } := by
  unfold popSelf; split
  · exact ⟨_, _, rfl⟩
  · exact ⟨_, _, rfl⟩
theorem popRead_snd (c : C) : ∃ e b, (popRead c).2 = { c with envRead := e, starved := b } := by
  unfold popRead; split
  · exact ⟨_, _, rfl⟩
  · exact ⟨_, _, rfl⟩

theorem popSoErr_eq (c : C) : (popSoErr c).2 = { c with envSoErr := (popSoErr c).2.envSoErr, starved := (popSoErr c).2.starved } := by
  unfold popSoErr; split <;> rfl
theorem popSelf_eq (c : C) : (popSelf c).2 = { c with envSelf := (popSelf c).2.envSelf, starved := (popSelf c).2.starved } := by
  unfold popSelf; split <;> rfl
theorem popRead_eq (c : C) : (popRead c).2 = { c with envRead := (popRead c).2.envRead, starved := (popRead c).2.starved } := by
  unfold popRead; split <;> rfl

/-- what `startInLoop` needs to find -/
structure StartPre (c : C) (r : List Task) : Prop where
  st : c.cstate = .kDisconnected
  chan : c.chan = none
  conn : c.connection = none
  noTimer : nRetry c.timers = 0
  noStart : .startCycle ∉ r ++ c.pending
  ups : c.ups = 0
  alive : c.cConnect = true → c.clientAlive = true

theorem startInLoop_mid (c : C) (r : List Task) (ph : Bool) (hi : Mid c r ph) (hp : StartPre c r) :
    Mid (startInLoop c) r ph := by
  unfold startInLoop
  rw [if_neg (by simp [startAssert, hp.st])]
  split
  · rename_i hcc
    simp only [startConnects] at hcc
    have hal := hp.alive hcc
    have hsr : c.stopReq = false := by
      cases h : c.stopReq
      · rfl
      · have := (hi.g3 h).1; rw [hcc] at this; cases this
    obtain ⟨hst, hchan, hconn, hnt, hns, hups, _⟩ := hp
    have hon : c.chanOn = false := by
      cases h : c.chanOn
      · rfl
      · have := hi.a1 h; rw [hst] at this; cases this
    have hopen : ∀ k : Nat, c.sockSt[k]? ≠ some SockSt.opened := by
      intro k h; have := (hi.a4 k h).2; rw [hon] at this; cases this
    have htr1 : Tr (c.trace ++ [Ev.sockCreated c.nsock, Ev.attempt c.nsock c.now]) (c.nsock + 1)
        (c.sockSt ++ [SockSt.opened]) c.conns c.ups c.nretry c.stopReq c.clientAlive := by
      simpa using (hi.tr.create hi.s1).attempt (k := c.nsock) (t := c.now) (by rw [← hi.s1]; simp) rfl hsr hal
    have hopn : (c.sockSt ++ [SockSt.opened])[c.nsock]? = some SockSt.opened := by rw [← hi.s1]; simp
    have htr2 := htr1.closeSock hopn
    have htr3 := htr2.retrySched (t := c.now) hsr hal
    have hd := nextDelay_spec c.nretry
    have hdp := specDelay_pos c.nretry
    have hnz := nRetry_zero hnt
    obtain ⟨notDead, a1, a2, a3, a4, a5, a6, a7, a8, a9, a10, a11, a13, a14, a15, a16, s1, c1, c2, c3, c4, c5, c6, c7, c8, c9, c10, g1, g3, h1, t1⟩ := hi
    unfold connect
    simp only
    obtain ⟨e, b, he⟩ := popConnect_snd ({ c with nsock := c.nsock + 1, sockSt := c.sockSt ++ [SockSt.opened], trace := c.trace ++ [Ev.sockCreated c.nsock, Ev.attempt c.nsock c.now] } : C)
    rw [he]
    generalize (popConnect _).1 = res
    split
    · -- proceed
      unfold connecting
      simp only [hchan, Option.isSome_none, connectingAssert]
      rw [if_neg (by simp), if_neg (by simp)]
      constructor
      all_goals mid_auto
    · -- retry
      unfold retry closeSock
      simp only [retryClosesSocket, retryUsesOldDelay, retrySchedules, hcc, if_true, retryDelayUs]
      rw [← g1] at htr3
      constructor
      all_goals mid_auto
    · -- give up
      unfold closeSock
      constructor
      all_goals mid_auto
  · exact hi

theorem stopInLoopCore_mid (c : C) (r : List Task) (ph : Bool) (hi : Mid c (.stopInLoop :: r) ph) :
    Mid (stopInLoopCore c) r ph := by
  unfold stopInLoopCore
  split
  · rename_i hst
    simp only [stopActs] at hst
    have hon := hi.a2 hst
    obtain ⟨k, hk, hop⟩ := hi.a3 hon
    have hatt : attempting c.cstate c.timers := .inl hst
    have hnt : nRetry c.timers = 0 := by
      have := hi.a8.2; rw [hst] at this
      cases h : nRetry c.timers
      · rfl
      · exact absurd (this (by omega)) (by simp)
    have hnz := nRetry_zero hnt
    have htr2 := hi.tr.closeSock hop
    have hd := nextDelay_spec c.nretry
    have hdp := specDelay_pos c.nretry
    rw [hk]
    simp only [stopResetsChannelNow, if_true]
    unfold retry closeSock
    simp only [retryClosesSocket, retryUsesOldDelay, retrySchedules, if_true, retryDelayUs]
    cases hcc : c.cConnect
    · simp only [Bool.false_eq_true, if_false]
      obtain ⟨notDead, a1, a2, a3, a4, a5, a6, a7, a8, a9, a10, a11, a13, a14, a15, a16, s1, c1, c2, c3, c4, c5, c6, c7, c8, c9, c10, g1, g3, h1, t1⟩ := hi
      constructor
      all_goals mid_auto
    · simp only [if_true]
      have hal : c.clientAlive = true := by
        cases h : c.clientAlive
        · rcases (hi.a11 h).2 with h2 | h2
          · rw [hcc] at h2; cases h2
          · exact absurd hatt h2.1
        · rfl
      have hsr : c.stopReq = false := by
        cases h : c.stopReq
        · rfl
        · have := (hi.g3 h).1; rw [hcc] at this; cases this
      have htr3 := htr2.retrySched (t := c.now) hsr hal
      rw [← hi.g1] at htr3
      obtain ⟨notDead, a1, a2, a3, a4, a5, a6, a7, a8, a9, a10, a11, a13, a14, a15, a16, s1, c1, c2, c3, c4, c5, c6, c7, c8, c9, c10, g1, g3, h1, t1⟩ := hi
      constructor
      all_goals mid_auto
  · rename_i hst
    simp only [stopActs] at hst
    obtain ⟨notDead, a1, a2, a3, a4, a5, a6, a7, a8, a9, a10, a11, a13, a14, a15, a16, s1, c1, c2, c3, c4, c5, c6, c7, c8, c9, c10, g1, g3, h1, t1⟩ := hi
    constructor
    all_goals mid_auto

/-! ### `Connector::cancelRetryTimer()` -/

theorem nRetry_cancel (l : List (Nat × TKind)) : nRetry (l.filter (fun t => !(t.2 == .retry))) = 0 := by
  unfold nRetry
  rw [List.countP_eq_zero]
  intro t ht
  have := (List.mem_filter.mp ht).2
  simpa [isRetryT] using this

theorem cancelRetry_mid (c : C) (r : List Task) (ph : Bool) (hi : Mid c r ph) : Mid (cancelRetry c) r ph := by
  have hz := nRetry_cancel c.timers
  have hsub : ∀ t ∈ c.timers.filter (fun t => !(t.2 == .retry)), t ∈ c.timers := fun t ht => (List.mem_filter.mp ht).1
  unfold cancelRetry
  obtain ⟨notDead, a1, a2, a3, a4, a5, a6, a7, a8, a9, a10, a11, a13, a14, a15, a16, s1, c1, c2, c3, c4, c5, c6, c7, c8, c9, c10, g1, g3, h1, t1⟩ := hi
  constructor
  all_goals mid_auto

theorem cancelIf_mid (b : Bool) (c : C) (r : List Task) (ph : Bool) (hi : Mid c r ph) : Mid (cancelIf b c) r ph := by
  unfold cancelIf; split
  · exact cancelRetry_mid c r ph hi
  · exact hi

/-- after the cancellation no back-off timer is pending -/
theorem cancelRetry_none (c : C) : nRetry (cancelRetry c).timers = 0 := nRetry_cancel c.timers

theorem stopInLoop_mid (c : C) (r : List Task) (ph : Bool) (hi : Mid c (.stopInLoop :: r) ph) :
    Mid (stopInLoop c) r ph :=
  stopInLoopCore_mid _ r ph (cancelIf_mid _ c _ ph hi)

/-- the attempt on socket `k` failed after the poller reported it: `removeAndResetChannel` + `retry` -/
theorem failAttempt_mid (c : C) (r : List Task) (hi : Mid c r false) (hon : c.chanOn = true) (k : Nat) (hk : c.chan = some k)
    (e1 : List Nat) (e2 : List Bool) (b : Bool) :
    Mid (retry { c with chanOn := false, pending := c.pending ++ [Task.resetChannel], envSoErr := e1, envSelf := e2, starved := b } k) r false := by
  have hst := hi.a1 hon
  have hop : c.sockSt[k]? = some SockSt.opened := by
    obtain ⟨k', hk', hop⟩ := hi.a3 hon; rw [hk] at hk'; cases hk'; exact hop
  have hatt : attempting c.cstate c.timers := .inl hst
  have hnt : nRetry c.timers = 0 := by
    have := hi.a8.2; rw [hst] at this
    cases h : nRetry c.timers
    · rfl
    · exact absurd (this (by omega)) (by simp)
  have hnz := nRetry_zero hnt
  have hnreset : Task.resetChannel ∉ r ++ c.pending := by
    intro h; have := (hi.a6 h).2.1; rw [hon] at this; cases this
  have hcnt : (r ++ c.pending).count Task.resetChannel = 0 := List.count_eq_zero.mpr hnreset
  have htr2 := hi.tr.closeSock hop
  have hd := nextDelay_spec c.nretry
  have hdp := specDelay_pos c.nretry
  have hal : c.cConnect = true → c.clientAlive = true := by
    intro hcc
    cases h : c.clientAlive
    · rcases (hi.a11 h).2 with h2 | h2
      · rw [hcc] at h2; cases h2
      · exact absurd hatt h2.1
    · rfl
  have hsr : c.cConnect = true → c.stopReq = false := by
    intro hcc
    cases h : c.stopReq
    · rfl
    · have := (hi.g3 h).1; rw [hcc] at this; cases this
  unfold retry closeSock
  simp only [retryClosesSocket, retryUsesOldDelay, retrySchedules, if_true, retryDelayUs]
  cases hcc : c.cConnect
  · simp only [Bool.false_eq_true, if_false]
    obtain ⟨notDead, a1, a2, a3, a4, a5, a6, a7, a8, a9, a10, a11, a13, a14, a15, a16, s1, c1, c2, c3, c4, c5, c6, c7, c8, c9, c10, g1, g3, h1, t1⟩ := hi
    constructor
    all_goals mid_auto
  · simp only [if_true]
    have htr3 := htr2.retrySched (t := c.now) (hsr hcc) (hal hcc)
    rw [← hi.g1] at htr3
    obtain ⟨notDead, a1, a2, a3, a4, a5, a6, a7, a8, a9, a10, a11, a13, a14, a15, a16, s1, c1, c2, c3, c4, c5, c6, c7, c8, c9, c10, g1, g3, h1, t1⟩ := hi
    constructor
    all_goals mid_auto


theorem handleError_mid (c : C) (r : List Task) (hi : Mid c r false) (hon : c.chanOn = true) :
    Mid (handleError c) r false := by
  have hst := hi.a1 hon
  obtain ⟨k, hk, hop⟩ := hi.a3 hon
  unfold handleError
  rw [if_pos (by simp [errorActs, hst])]
  split
  · rename_i k' hk'
    simp only
    rw [popSoErr_eq]
    exact failAttempt_mid c r hi hon k' hk' _ c.envSelf _
  · rename_i hk'; rw [hk] at hk'; cases hk'

/-- while an attempt is in progress and wanted, the client exists -/
theorem attempt_alive (c : C) (r : List Task) (hi : Mid c r false) (hon : c.chanOn = true) (hcc : c.cConnect = true) :
    c.clientAlive = true := by
  have hatt : attempting c.cstate c.timers := .inl (hi.a1 hon)
  cases h : c.clientAlive
  · rcases (hi.a11 h).2 with h2 | h2
    · rw [hcc] at h2; cases h2
    · exact absurd hatt h2.1
  · rfl

/-- the attempt on socket `k` succeeded and the user still wants the connection -/
theorem handOver_mid (c : C) (r : List Task) (hi : Mid c r false) (hon : c.chanOn = true) (k : Nat) (hk : c.chan = some k)
    (hcc : c.cConnect = true) (e1 : List Nat) (e2 : List Bool) (b : Bool) :
    Mid { c with chanOn := false, pending := c.pending ++ [Task.resetChannel], envSoErr := e1, envSelf := e2,
                 starved := b, cstate := .kConnected,
                 sockSt := c.sockSt.set k .handedOver, conns := c.conns ++ [{ sock := k }], connection := some k,
                 ups := c.ups + 1, trace := c.trace ++ [.handedOver k, .up k] } r false := by
  have hst := hi.a1 hon
  have hop : c.sockSt[k]? = some SockSt.opened := by
    obtain ⟨k', hk', hop⟩ := hi.a3 hon; rw [hk] at hk'; cases hk'; exact hop
  have hatt : attempting c.cstate c.timers := .inl hst
  have hnt : nRetry c.timers = 0 := by
    have := hi.a8.2; rw [hst] at this
    cases h : nRetry c.timers
    · rfl
    · exact absurd (this (by omega)) (by simp)
  have hnz := nRetry_zero hnt
  have hnreset : Task.resetChannel ∉ r ++ c.pending := by
    intro h; have := (hi.a6 h).2.1; rw [hon] at this; cases this
  have hcnt : (r ++ c.pending).count Task.resetChannel = 0 := List.count_eq_zero.mpr hnreset
  have htr2 := hi.tr.closeSock hop
  have hd := nextDelay_spec c.nretry
  have hdp := specDelay_pos c.nretry
  have hal : c.cConnect = true → c.clientAlive = true := by
    intro hcc
    cases h : c.clientAlive
    · rcases (hi.a11 h).2 with h2 | h2
      · rw [hcc] at h2; cases h2
      · exact absurd hatt h2.1
    · rfl
  have hsr : c.cConnect = true → c.stopReq = false := by
    intro hcc
    cases h : c.stopReq
    · rfl
    · have := (hi.g3 h).1; rw [hcc] at this; cases this
  have hups := (hi.a9 hatt).2.2
  have hconn := (hi.a9 hatt).1
  have hnone : findIn c.conns k = none := by
    rw [findIn_none_iff]; intro x hx he
    have := hi.c1 x hx; rw [he, hop] at this; cases this
  have hfnew : findIn (c.conns ++ [({ sock := k } : ConnRec)]) k = some { sock := k } := by
    rw [findIn_append_new _ rfl, hnone]; simp
  have hfa : ∀ j x, findIn c.conns j = some x → findIn (c.conns ++ [({ sock := k } : ConnRec)]) j = some x := by
    intro j x h; rw [findIn_append_new _ rfl, h]; simp
  have htr3 : Tr (c.trace ++ [Ev.handedOver k, Ev.up k]) c.nsock (c.sockSt.set k .handedOver) (c.conns ++ [{ sock := k }])
      (c.ups + 1) c.nretry c.stopReq c.clientAlive := by
    have := hi.tr; rw [hups] at this ⊢
    exact this.handUp hop hnone (hsr hcc) (hal hcc)
  have hal' := hal hcc
  obtain ⟨notDead, a1, a2, a3, a4, a5, a6, a7, a8, a9, a10, a11, a13, a14, a15, a16, s1, c1, c2, c3, c4, c5, c6, c7, c8, c9, c10, g1, g3, h1, t1⟩ := hi
  constructor
  all_goals mid_auto

/-- the attempt on socket `k` succeeded but `stop()` was called meanwhile -/
theorem closeEstablished_mid (c : C) (r : List Task) (hi : Mid c r false) (hon : c.chanOn = true) (k : Nat) (hk : c.chan = some k)
    (hcc : c.cConnect = false) (e1 : List Nat) (e2 : List Bool) (b : Bool) :
    Mid (closeSock { c with chanOn := false, pending := c.pending ++ [Task.resetChannel], envSoErr := e1, envSelf := e2,
                            starved := b, cstate := .kConnected } k) r false := by
  have hst := hi.a1 hon
  have hop : c.sockSt[k]? = some SockSt.opened := by
    obtain ⟨k', hk', hop⟩ := hi.a3 hon; rw [hk] at hk'; cases hk'; exact hop
  have hatt : attempting c.cstate c.timers := .inl hst
  have hnt : nRetry c.timers = 0 := by
    have := hi.a8.2; rw [hst] at this
    cases h : nRetry c.timers
    · rfl
    · exact absurd (this (by omega)) (by simp)
  have hnz := nRetry_zero hnt
  have hnreset : Task.resetChannel ∉ r ++ c.pending := by
    intro h; have := (hi.a6 h).2.1; rw [hon] at this; cases this
  have hcnt : (r ++ c.pending).count Task.resetChannel = 0 := List.count_eq_zero.mpr hnreset
  have htr2 := hi.tr.closeSock hop
  have hd := nextDelay_spec c.nretry
  have hdp := specDelay_pos c.nretry
  have hal : c.cConnect = true → c.clientAlive = true := by
    intro hcc
    cases h : c.clientAlive
    · rcases (hi.a11 h).2 with h2 | h2
      · rw [hcc] at h2; cases h2
      · exact absurd hatt h2.1
    · rfl
  have hsr : c.cConnect = true → c.stopReq = false := by
    intro hcc
    cases h : c.stopReq
    · rfl
    · have := (hi.g3 h).1; rw [hcc] at this; cases this
  unfold closeSock
  obtain ⟨notDead, a1, a2, a3, a4, a5, a6, a7, a8, a9, a10, a11, a13, a14, a15, a16, s1, c1, c2, c3, c4, c5, c6, c7, c8, c9, c10, g1, g3, h1, t1⟩ := hi
  constructor
  all_goals mid_auto

end MuduoVerif.Client
