import MuduoVerif.Proofs.MonitorBase
/-! Invariants of the CountDownLatch model (C14). -/
namespace MuduoVerif.Monitor
open MuduoVerif.Generated.Monitor

def LRole (prog : Nat → List LOp) (t : Nat) : Cond → Prop
  | .notEmpty => ∃ rest, prog t = .wait :: rest
  | .notFull => False

structure LInv (s : LState) : Prop where
  st : s.toMon.Struct (LRole s.prog)
  /-- once the count has reached zero nobody is left unsignalled -/
  released : s.count ≤ 0 → s.ne.W = []

namespace LState
@[simp] theorem fin_ne (s : LState) (t op rest) : (s.fin t op rest).ne = s.ne := rfl
@[simp] theorem fin_count (s : LState) (t op rest) : (s.fin t op rest).count = s.count := rfl
@[simp] theorem fin_prog (s : LState) (t op rest) : (s.fin t op rest).prog = upd s.prog t rest := rfl
theorem fin_toMon (s : LState) (t op rest) : (s.fin t op rest).toMon = { s.toMon with owner := none } := rfl
end LState

theorem LRole.upd {prog : Nat → List LOp} {t : Nat} {rest : List LOp} (x : Nat) (c : Cond) (hx : x ≠ t)
    (h : LRole prog x c) : LRole (upd prog t rest) x c := by
  cases c
  · simpa [LRole, upd_other _ _ _ _ hx] using h
  · exact h

theorem exec_wait (s : LState) (t : Nat) (rest : List LOp) :
    ∃ S', (S' = s.ne.S ∧ t ∉ s.ne.S ∨ S' = s.ne.S.erase t ∧ t ∈ s.ne.S) ∧ s.execOp t .wait rest =
      if 0 < s.count then { s with toMon := { s.toMon.setWs .notEmpty ⟨s.ne.W ++ [t], S'⟩ with owner := none } }
      else ({ s with toMon := s.toMon.setWs .notEmpty ⟨s.ne.W, S'⟩ } : LState).fin t .wait rest := by
  obtain ⟨S', hS, he⟩ := Mon.enter_facts s.toMon t .notEmpty (decide (latch_wait_g1 s.count))
  refine ⟨S', hS, ?_⟩
  simp only [LState.execOp, latch_waitF, LState.enter, he]
  by_cases hg : 0 < s.count
  · simp [hg, latch_wait_guard]
  · simp [hg, latch_wait_guard]

/-- the owner completes an operation that is not parked anywhere -/
theorem linv_fin {s : LState} {t : Nat} {op : LOp} {rest : List LOp} (h : LInv s) (ho : s.owner = some t)
    (hS : t ∉ s.ne.S) : LInv (s.fin t op rest) := by
  refine ⟨?_, h.released⟩
  rw [LState.fin_toMon, LState.fin_prog]
  refine h.st.release (R' := LRole (upd s.prog t rest)) (t := t) ho ?_ (fun x c' hx hr => LRole.upd x c' hx hr)
  intro c
  cases c
  · exact hS
  · exact (h.st.not_parked (c := .notFull) (by simp [LRole])).2

theorem linv_exec {s : LState} {t : Nat} {op : LOp} {rest : List LOp} (h : LInv s) (ho : s.owner = some t)
    (hp : s.prog t = op :: rest) : LInv (s.execOp t op rest) := by
  cases op with
  | wait =>
    obtain ⟨S', hS, he⟩ := exec_wait s t rest
    rw [he]
    have hsh := Mon.shrink_facts (h.st.nodup .notEmpty) hS
    by_cases hg : 0 < s.count
    · simp only [hg, if_true]
      refine ⟨h.st.park (c := .notEmpty) ho ⟨rest, hp⟩ hS, ?_⟩
      intro hc
      have : s.count ≤ 0 := hc
      omega
    · simp only [hg, if_false]
      refine linv_fin (s := { s with toMon := s.toMon.setWs .notEmpty ⟨s.ne.W, S'⟩ }) ⟨h.st.go (c := .notEmpty) hS, h.released⟩
        (by simpa using ho) hsh.1
  | countDown =>
    have hnp : t ∉ s.ne.S := (h.st.not_parked (c := .notEmpty) (by simp [LRole, hp])).2
    simp only [LState.execOp, latch_countDownF, latch_countDown_guard]
    split
    · rename_i h0
      obtain ⟨ho3, hoth, hall⟩ := Mon.notifs_all s.toMon .notEmpty
      refine linv_fin (s := ({ s with count := s.count - 1 } : LState).notifs [⟨true, .notEmpty⟩]) ⟨h.st.notifs _, ?_⟩
        (ho3.trans ho) ?_
      · intro _
        show ((s.toMon.notifs _).ws .notEmpty).W = []
        rw [hall]; rfl
      · show t ∉ ((s.toMon.notifs _).ws .notEmpty).S
        rw [hall]
        have hW : t ∉ s.ne.W := h.st.own t .notEmpty ho
        simp only [WS.all, List.mem_append, not_or]
        exact ⟨hnp, hW⟩
    · rename_i h0
      refine linv_fin (s := { s with count := s.count - 1 }) ⟨h.st, ?_⟩ ho hnp
      intro hc
      have : s.count - 1 ≤ 0 := hc
      exact h.released (by omega)
  | getCount =>
    exact linv_fin h ho (h.st.not_parked (c := .notEmpty) (by simp [LRole, hp])).2

theorem linv_step {s s' : LState} {a : Act} (h : LInv s) (hs : lstep s a = some s') : LInv s' := by
  cases a with
  | acq t =>
    simp only [lstep] at hs
    split at hs
    · rename_i hc
      cases hs
      refine ⟨h.st.acq t ?_, h.released⟩
      intro c; cases c
      · exact hc.2.2.1
      · exact hc.2.2.2
    · cases hs
  | body t =>
    simp only [lstep] at hs
    split at hs
    · rename_i ho
      split at hs
      · rename_i hp
        cases hs
        refine ⟨?_, h.released⟩
        refine h.st.release (R' := LRole s.prog) (t := t) ho ?_ (fun _ _ _ hr => hr)
        intro c
        refine (h.st.not_parked (c := c) ?_).2
        cases c <;> simp [LRole, hp]
      · rename_i op rest hp
        cases hs
        exact linv_exec h ho hp
    · cases hs
  | spur t c =>
    simp only [lstep] at hs
    split at hs
    · rename_i ht
      cases hs
      refine ⟨h.st.spur c t ht, ?_⟩
      intro hc
      cases c
      · show s.ne.W.erase t = []
        rw [h.released hc]; rfl
      · exact h.released hc
    · cases hs

theorem linv_init (count : Int) (prog : Nat → List LOp) (sched : List Nat) : LInv (linit count prog sched) := by
  refine ⟨⟨?_, ?_, ?_⟩, fun _ => rfl⟩
  · intro c; cases c <;> exact List.nodup_nil
  · intro u c hu; cases hu
  · intro c t ht; cases c <;> simp [linit, Mon.init, Mon.ws] at ht

theorem linv_reach {s0 s : LState} (h0 : LInv s0) (hr : LReach s0 s) : LInv s := by
  induction hr with
  | refl => exact h0
  | step a _ hs ih => exact linv_step ih hs

theorem l_blocked_facts {s : LState} (h : LInv s) (hb : LBlocked s) : s.owner = none ∧ s.ne.S = [] := by
  have hown : s.owner = none := by
    cases ho : s.owner with
    | none => rfl
    | some u =>
      have := (hb u).2
      simp only [lstep, ho, if_true] at this
      split at this <;> cases this
  refine ⟨hown, ?_⟩
  cases hS : s.ne.S with
  | nil => rfl
  | cons u l =>
    exfalso
    have hu : u ∈ s.ne.S := by rw [hS]; simp
    obtain ⟨r, hr⟩ := h.st.role .notEmpty u (Or.inr hu)
    have hW : u ∉ s.ne.W := fun hx => (List.nodup_append.mp (h.st.nodup .notEmpty)).2.2 u hx u hu rfl
    have hF : u ∉ s.nf.W := fun hx => h.st.role .notFull u (Or.inl hx)
    have := (hb u).1
    simp only [lstep] at this
    rw [if_pos ⟨hown, by rw [hr]; simp, hW, hF⟩] at this
    cases this

def runL (s : LState) : List Act → Option LState
  | [] => some s
  | a :: as => (lstep s a).bind fun s' => runL s' as

theorem runL_reach {s0 s : LState} {as : List Act} (h : runL s0 as = some s) : LReach s0 s := by
  induction as generalizing s0 with
  | nil => cases h; exact .refl
  | cons a as ih =>
    simp only [runL] at h
    cases hs : lstep s0 a with
    | none => rw [hs] at h; cases h
    | some s1 =>
      rw [hs] at h
      have h1 : LReach s1 s := ih h
      clear ih h
      induction h1 with
      | refl => exact .step a .refl hs
      | step b _ hb ih2 => exact .step b ih2 hb

/-- two waiters, one `countDown` on a latch of 1: both are signalled -/
def latchProg : Nat → List LOp
  | 1 => [.wait]
  | 2 => [.wait]
  | 3 => [.countDown]
  | _ => []

end MuduoVerif.Monitor
