import MuduoVerif.Proofs.RpcServe
/-! What a halt means (`HaltInv`), the done-callbacks under the hypothesis on the service, the channel
destructor, and `RpcServer`'s channels as reachable channel states. -/
namespace MuduoVerif.Rpc
open MuduoVerif.Gen.Rpc

/-! ### halting -/
structure HaltInv (s : Chan) : Prop where
  halt : s.halted = true → s.asserts = true ∧ s.pending = none ∧
    ∃ m rest, s.log = .abort :: .arrived m :: rest ∧ m.type = .RESPONSE ∧ ¬ respAssert m.payload.isSome m.err.isSome
  noAbort : s.halted = false → .abort ∉ s.log

theorem HaltInv.init (a h : Bool) : HaltInv (init a h) := by
  constructor <;> simp [MuduoVerif.Rpc.init]

/-- a step that neither halts nor logs `abort` -/
theorem HaltInv.keep {s s' : Chan} (hi : HaltInv s) (hn : s.halted = false) (hh : s'.halted = s.halted)
    (hl : .abort ∈ s'.log → .abort ∈ s.log) : HaltInv s' := by
  constructor
  · intro h; rw [hh, hn] at h; cases h
  · intro _ ha; exact hi.noAbort hn (hl ha)

theorem HaltInv.srv {s s' : Chan} (hi : HaltInv s) (hn : s.halted = false) (h : SrvStep s s') : HaltInv s' := by
  refine hi.keep hn h.halted ?_
  obtain ⟨evs, hl, hev⟩ := h.log
  intro ha
  rw [hl] at ha
  rcases List.mem_append.mp ha with h1 | h1
  · have := (hev _ h1).1; cases this
  · exact h1

theorem HaltInv.step {s : Chan} (hi : HaltInv s) (a : Act) : HaltInv (step s a) := by
  unfold MuduoVerif.Rpc.step
  split
  · exact hi
  next hn =>
    have hn : s.halted = false := by simpa using hn
    cases a with
    | callBegin => exact hi.keep hn rfl (fun h => h)
    | callInsert k =>
      show HaltInv (callInsert s k)
      unfold MuduoVerif.Rpc.callInsert
      split <;> split <;> first | exact hi | exact hi.keep hn rfl (fun h => h)
    | callSend k =>
      show HaltInv (callSend s k)
      unfold MuduoVerif.Rpc.callSend
      split <;> split <;> first
        | exact hi
        | exact hi.keep hn rfl (fun h => by
            have h' : Ev.abort ∈ Ev.sent (s.idOf k) k :: s.log := h
            simpa using h')
    | recv m =>
      show HaltInv (recv s m)
      unfold MuduoVerif.Rpc.recv
      split
      · exact hi
      next hp =>
        have hp' := pending_none_of_not_isSome hp
        split
        next ht =>
          have ht' := (typeSwitch_response _).mp ht
          unfold MuduoVerif.Rpc.recvResponse
          split
          next hc =>
            constructor
            · intro _
              exact ⟨by simpa using hc.1, hp', m, s.log, rfl, ht', hc.2⟩
            · intro h; cases h
          · split
            · exact hi.keep hn rfl (fun h => by
                have h' : Ev.abort ∈ Ev.arrived m :: s.log := h
                simpa using h')
            · exact hi.keep hn rfl (fun h => by
                have h' : Ev.abort ∈ Ev.arrived m :: s.log := h
                simpa using h')
        next ht => exact hi.srv hn (SrvStep.recvRequest s m hp' ((typeSwitch_request _).mp ht))
        next ht =>
          refine hi.srv hn (SrvStep.other s m hp' ?_)
          intro he; rw [(typeSwitch_response _).mpr he] at ht; cases ht
        next ht =>
          refine hi.srv hn (SrvStep.other s m hp' ?_)
          intro he; rw [(typeSwitch_response _).mpr he] at ht; cases ht
    | finish =>
      show HaltInv (finish s)
      unfold MuduoVerif.Rpc.finish
      split
      · exact hi
      next k m _ =>
        refine hi.keep hn rfl ?_
        intro h
        have h' : Ev.abort ∈ List.replicate respFreeCount (Ev.free (.resp k)) ++ List.replicate respRunCount (Ev.ran k m.id (view m))
          ++ (if respParses m.payload.isSome m.err.isSome then [Ev.parse k] else []) ++ s.log := h
        simp only [List.mem_append, List.mem_replicate] at h'
        rcases h' with ((⟨_, h1⟩ | ⟨_, h1⟩) | h1) | h1
        · cases h1
        · cases h1
        · split at h1
          · simp at h1
          · cases h1
        · exact h1
    | fireDone r => exact hi.srv hn (SrvStep.fireDone s r)

theorem HaltInv.foldl (acts : List Act) : ∀ {s : Chan}, HaltInv s → HaltInv (acts.foldl MuduoVerif.Rpc.step s) := by
  induction acts with
  | nil => intro s h; exact h
  | cons a rest ih => intro s h; exact ih (h.step a)

theorem HaltInv.run (asserts hs : Bool) (acts : List Act) : HaltInv (run asserts hs acts) :=
  HaltInv.foldl acts (HaltInv.init asserts hs)

/-- a halted process does nothing any more -/
theorem step_halted (s : Chan) (a : Act) (h : s.halted = true) : step s a = s := by
  simp [step, h]

theorem foldl_halted (acts : List Act) (s : Chan) (h : s.halted = true) : acts.foldl step s = s := by
  induction acts with
  | nil => rfl
  | cons a rest ih => rw [List.foldl_cons, step_halted s a h]; exact ih

/-- what an `assert` in the RESPONSE branch does (whatever it demands - `respAssert` is extracted from the
    source; `True` when there is none): with `assert` compiled in, a RESPONSE that violates it stops the process -/
theorem bare_response_halts (s : Chan) (m : Msg) (hn : s.halted = false) (hp : s.pending = none)
    (ha : s.asserts = true) (ht : m.type = .RESPONSE) (hw : ¬ respAssert m.payload.isSome m.err.isSome) :
    (step s (.recv m)).halted = true ∧ (step s (.recv m)).log = .abort :: .arrived m :: s.log ∧
    (step s (.recv m)).outstanding = s.outstanding := by
  have hc : s.asserts = true ∧ ¬ respAssert m.payload.isSome m.err.isSome := ⟨ha, hw⟩
  simp [step, hn, recv, hp, (typeSwitch_response _).mpr ht, recvResponse, hc]

/-! ### the configuration never changes -/
theorem step_consts (s : Chan) (a : Act) : (step s a).asserts = s.asserts ∧ (step s a).hasServices = s.hasServices := by
  unfold MuduoVerif.Rpc.step
  split
  · exact ⟨rfl, rfl⟩
  · cases a with
    | callBegin => exact ⟨rfl, rfl⟩
    | callInsert k =>
      show (callInsert s k).asserts = _ ∧ (callInsert s k).hasServices = _
      unfold MuduoVerif.Rpc.callInsert
      split <;> split <;> exact ⟨rfl, rfl⟩
    | callSend k =>
      show (callSend s k).asserts = _ ∧ (callSend s k).hasServices = _
      unfold MuduoVerif.Rpc.callSend
      split <;> split <;> exact ⟨rfl, rfl⟩
    | finish =>
      show (finish s).asserts = _ ∧ (finish s).hasServices = _
      unfold MuduoVerif.Rpc.finish
      split <;> exact ⟨rfl, rfl⟩
    | recv m =>
      show (recv s m).asserts = _ ∧ (recv s m).hasServices = _
      unfold MuduoVerif.Rpc.recv
      split
      · exact ⟨rfl, rfl⟩
      · split
        · unfold MuduoVerif.Rpc.recvResponse
          split
          · exact ⟨rfl, rfl⟩
          · split <;> exact ⟨rfl, rfl⟩
        · rcases expected_cases s.hasServices m with ⟨code, h⟩ | ⟨p, h, hm | hm⟩
          · rw [recvRequest_err s m code h]; exact ⟨rfl, rfl⟩
          · rw [recvRequest_sync s m p h hm]; exact ⟨rfl, rfl⟩
          · rw [recvRequest_defer s m p h hm]; exact ⟨rfl, rfl⟩
        · exact ⟨rfl, rfl⟩
        · exact ⟨rfl, rfl⟩
    | fireDone r =>
      show (fireDone s r).asserts = _ ∧ (fireDone s r).hasServices = _
      cases hf : s.closures.find? (fun c => c.1 = r) with
      | some c => rw [fireDone_found s r c hf]; exact ⟨rfl, rfl⟩
      | none =>
        rw [fireDone_absent s r hf]
        split <;> exact ⟨rfl, rfl⟩

theorem run_consts (asserts hs : Bool) (acts : List Act) :
    (run asserts hs acts).asserts = asserts ∧ (run asserts hs acts).hasServices = hs := by
  have : ∀ (acts : List Act) (s : Chan), (acts.foldl step s).asserts = s.asserts ∧ (acts.foldl step s).hasServices = s.hasServices := by
    intro acts
    induction acts with
    | nil => intro s; exact ⟨rfl, rfl⟩
    | cons a rest ih =>
      intro s
      obtain ⟨h1, h2⟩ := ih (step s a)
      obtain ⟨h3, h4⟩ := step_consts s a
      exact ⟨h1.trans h3, h2.trans h4⟩
  exact this acts (init asserts hs)

/-! ### done-callbacks -/
/-- the hypothesis on the service: it invokes a done-callback only while it holds it - so at most once,
    and never one it was not given -/
def ServiceDoneOnce (asserts hs : Bool) (acts : List Act) : Prop :=
  ∀ pre r post, acts = pre ++ .fireDone r :: post → 0 < held r (run asserts hs pre).closures

theorem find_of_held {r : Nat} {cl : List (Nat × Nat × Nat)} (h : 0 < held r cl) :
    ∃ c, cl.find? (fun c => c.1 = r) = some c := by
  cases hf : cl.find? (fun c => c.1 = r) with
  | some c => exact ⟨c, rfl⟩
  | none =>
    rw [List.find?_eq_none] at hf
    unfold held at h
    rw [List.countP_pos_iff] at h
    obtain ⟨c, hc, hp⟩ := h
    exact absurd hp (hf c hc)

theorem no_uaf_of_callStep {s s' : Chan} (h : CallStep s s') (h0 : ∀ c, Ev.uaf c ∉ s.log) : ∀ c, Ev.uaf c ∉ s'.log := by
  obtain ⟨evs, hl, hev⟩ := h.log
  intro c hc
  rw [hl] at hc
  rcases List.mem_append.mp hc with h1 | h1
  · have := (hev _ h1).1; cases this
  · exact h0 c h1

theorem step_no_uaf (s : Chan) (a : Act) (h0 : ∀ c, Ev.uaf c ∉ s.log)
    (ha : ∀ r, a = .fireDone r → 0 < held r s.closures) : ∀ c, Ev.uaf c ∉ (step s a).log := by
  unfold MuduoVerif.Rpc.step
  split
  · exact h0
  · cases a with
    | callBegin => exact no_uaf_of_callStep (CallStep.callBegin s) h0
    | callInsert k => exact no_uaf_of_callStep (CallStep.callInsert s k) h0
    | callSend k => exact no_uaf_of_callStep (CallStep.callSend s k) h0
    | finish => exact no_uaf_of_callStep (CallStep.finish s) h0
    | recv m =>
      show ∀ c, Ev.uaf c ∉ (recv s m).log
      unfold MuduoVerif.Rpc.recv
      split
      · exact h0
      · split
        next ht =>
          refine no_uaf_of_callStep (CallStep.recvResponse s m ?_) h0
          rw [(typeSwitch_response _).mp ht]; decide
        · rcases expected_cases s.hasServices m with ⟨code, h⟩ | ⟨p, h, hm | hm⟩
          · rw [recvRequest_err s m code h]
            intro c hc
            have hc' : Ev.uaf c ∈ Ev.reply s.nextReq m.id none (some code) :: Ev.arrived m :: s.log := hc
            simp only [List.mem_cons] at hc'
            rcases hc' with h1 | h1 | h1
            · cases h1
            · cases h1
            · exact h0 c h1
          · rw [recvRequest_sync s m p h hm]
            intro c hc
            have hc' : Ev.uaf c ∈ Ev.free (.srvResp s.nextReq) :: Ev.reply s.nextReq m.id (some p) none ::
              Ev.dispatch s.nextReq p :: Ev.arrived m :: s.log := hc
            simp only [List.mem_cons] at hc'
            rcases hc' with h1 | h1 | h1 | h1 | h1
            · cases h1
            · cases h1
            · cases h1
            · cases h1
            · exact h0 c h1
          · rw [recvRequest_defer s m p h hm]
            intro c hc
            have hc' : Ev.uaf c ∈ Ev.dispatch s.nextReq p :: Ev.arrived m :: s.log := hc
            simp only [List.mem_cons] at hc'
            rcases hc' with h1 | h1 | h1
            · cases h1
            · cases h1
            · exact h0 c h1
        next ht =>
          refine no_uaf_of_callStep (CallStep.other s m ?_) h0
          intro he; rw [(typeSwitch_request _).mpr he] at ht; cases ht
        next ht =>
          refine no_uaf_of_callStep (CallStep.other s m ?_) h0
          intro he; rw [(typeSwitch_request _).mpr he] at ht; cases ht
    | fireDone r =>
      obtain ⟨c, hf⟩ := find_of_held (ha r rfl)
      show ∀ c, Ev.uaf c ∉ (fireDone s r).log
      rw [fireDone_found s r c hf]
      intro c' hc
      have hc' : Ev.uaf c' ∈ Ev.free (.srvResp r) :: Ev.reply r c.2.1 (some c.2.2) none :: s.log := hc
      simp only [List.mem_cons] at hc'
      rcases hc' with h1 | h1 | h1
      · cases h1
      · cases h1
      · exact h0 c' h1

theorem no_uaf_foldl (acts : List Act) : ∀ (s : Chan), (∀ c, Ev.uaf c ∉ s.log) →
    (∀ pre r post, acts = pre ++ .fireDone r :: post → 0 < held r (pre.foldl step s).closures) →
    ∀ c, Ev.uaf c ∉ (acts.foldl step s).log := by
  induction acts with
  | nil => intro s h _; exact h
  | cons a rest ih =>
    intro s h0 H
    refine ih (step s a) (step_no_uaf s a h0 ?_) ?_
    · intro r hr
      subst hr
      exact H [] r rest rfl
    · intro pre r post hp
      exact H (a :: pre) r post (by rw [hp]; rfl)

theorem no_uaf_run (asserts hs : Bool) (acts : List Act) (h : ServiceDoneOnce asserts hs acts) :
    ∀ c, Ev.uaf c ∉ (run asserts hs acts).log :=
  no_uaf_foldl acts (init asserts hs) (by simp [MuduoVerif.Rpc.init]) h

/-! ### `~RpcChannel` -/
theorem freeCount_destroy (k : Nat) (l : List (Nat × Nat)) :
    freeCount k (l.flatMap (fun e => [Ev.free (.resp e.2), Ev.free (.done e.2)])) = l.countP (fun e => decide (e.2 = k)) := by
  induction l with
  | nil => rfl
  | cons e rest ih =>
    rw [List.flatMap_cons, List.countP_cons]
    unfold freeCount at ih ⊢
    rw [List.countP_append, ih]
    simp [List.countP_cons, isFreeResp]
    omega

theorem countP_val (k i : Nat) (l : List (Nat × Nat)) (hk : (l.map Prod.fst).Nodup)
    (hall : ∀ e ∈ l, e.2 = k → e.1 = i) :
    l.countP (fun e => decide (e.2 = k)) = if (i, k) ∈ l then 1 else 0 := by
  induction l with
  | nil => simp
  | cons e rest ih =>
    obtain ⟨a, b⟩ := e
    rw [List.map_cons, List.nodup_cons] at hk
    have ih' := ih hk.2 (fun e he => hall e (List.mem_cons_of_mem _ he))
    rw [List.countP_cons]
    by_cases hb : b = k
    · have ha : a = i := hall (a, b) List.mem_cons_self hb
      subst hb; subst ha
      have hnot : (a, b) ∉ rest := fun hm => hk.1 (List.mem_map.mpr ⟨(a, b), hm, rfl⟩)
      rw [ih']
      simp [hnot]
    · have hne : (i, k) ≠ (a, b) := by
        intro h; injection h with _ h2; exact hb h2.symm
      rw [ih']
      simp [hb, List.mem_cons, hne]

instance (s : Chan) (k : Nat) : Decidable (Registered s k) := by unfold Registered; infer_instance

/-- the destructor and the completions together free the response object of every registered call exactly
    once, of no other call ever -/
theorem destroy_frees_once {s : Chan} (inv : CallInv s) (ti : TraceInv s) (hp : s.pending = none) (k : Nat) :
    freeCount k (destroyEvents s) + freeCount k s.log = if Registered s k then 1 else 0 := by
  have hnp : ∀ m, s.pending ≠ some (k, m) := by intro m; rw [hp]; simp
  have hall : ∀ e ∈ s.outstanding, e.2 = k → e.1 = s.idOf k := by
    intro e he hek
    have := lookup_of_mem _ ti.keys e.1 e.2 he
    rw [← hek]
    exact (inv.out e.1 e.2 this).1.symm
  unfold destroyEvents
  rw [freeCount_destroy, countP_val k (s.idOf k) _ ti.keys hall, ti.freeEq k]
  by_cases hreg : Registered s k
  · rw [if_pos hreg]
    by_cases hr : ranCount k s.log = 0
    · have := mem_of_lookup _ _ _ (inv.reg k hreg hr hnp)
      rw [if_pos this, hr]
    · have hnot : (s.idOf k, k) ∉ s.outstanding := by
        intro hm
        exact hr (inv.out _ _ (lookup_of_mem _ ti.keys _ _ hm)).2.2.1
      have := (inv.once k).1
      rw [if_neg hnot]
      omega
  · rw [if_neg hreg]
    have hnot : (s.idOf k, k) ∉ s.outstanding := by
      intro hm
      exact hreg (inv.out _ _ (lookup_of_mem _ ti.keys _ _ hm)).2.1
    rw [if_neg hnot, (inv.fresh k hreg).1]

/-! ### `RpcServer` -/
inductive SrvOp
  | up (c : Nat) | down (c : Nat) | act (c : Nat) (a : Act)

def Server.apply (sv : Server) : SrvOp → Server
  | .up c => sv.up c
  | .down c => sv.down c
  | .act c a => sv.act c a

def Server.runOps (asserts : Bool) (ops : List SrvOp) : Server := ops.foldl Server.apply { asserts := asserts }

/-- every channel is a reachable channel state of a channel with services, and a connection has one channel -/
structure ServerInv (asserts : Bool) (sv : Server) : Prop where
  flavour : sv.asserts = asserts
  reach : ∀ e ∈ sv.chans, ∃ acts, e.2 = run asserts true acts
  one : (sv.chans.map Prod.fst).Nodup

theorem run_snoc (asserts hs : Bool) (acts : List Act) (a : Act) :
    step (run asserts hs acts) a = run asserts hs (acts ++ [a]) := by
  simp [run, List.foldl_append]

theorem ServerInv.apply {asserts : Bool} {sv : Server} (h : ServerInv asserts sv) (op : SrvOp) :
    ServerInv asserts (sv.apply op) := by
  cases op with
  | up c =>
    show ServerInv asserts (sv.up c)
    unfold Server.up
    rw [if_pos (by decide)]
    refine ⟨h.flavour, ?_, ?_⟩
    · intro e he
      have he' : e ∈ (c, init sv.asserts serverSetsServices) :: sv.chans.filter (fun e => e.1 ≠ c) := he
      rcases List.mem_cons.mp he' with h1 | h1
      · exact ⟨[], by rw [h1, h.flavour]; rfl⟩
      · exact h.reach e (List.mem_filter.mp h1).1
    · show ((_ :: sv.chans.filter (fun e => e.1 ≠ c)).map Prod.fst).Nodup
      rw [List.map_cons, List.nodup_cons]
      constructor
      · intro hm
        rw [List.mem_map] at hm
        obtain ⟨e, he, hc⟩ := hm
        have := (List.mem_filter.mp he).2
        simp [hc] at this
      · exact List.Nodup.sublist (List.Sublist.map _ List.filter_sublist) h.one
  | down c =>
    show ServerInv asserts (sv.down c)
    unfold Server.down
    rw [if_pos (by decide)]
    refine ⟨h.flavour, ?_, ?_⟩
    · intro e he
      have he' : e ∈ sv.chans.filter (fun e => e.1 ≠ c) := he
      exact h.reach e (List.mem_filter.mp he').1
    · exact List.Nodup.sublist (List.Sublist.map _ List.filter_sublist) h.one
  | act c a =>
    show ServerInv asserts (sv.act c a)
    unfold Server.act
    refine ⟨h.flavour, ?_, ?_⟩
    · intro e he
      have he' : e ∈ sv.chans.map (fun e => if e.1 = c then (e.1, step e.2 a) else e) := he
      rw [List.mem_map] at he'
      obtain ⟨e0, he0, heq⟩ := he'
      obtain ⟨acts, hacts⟩ := h.reach e0 he0
      split at heq
      · rw [← heq]
        exact ⟨acts ++ [a], by rw [← run_snoc, ← hacts]⟩
      · rw [← heq]; exact ⟨acts, hacts⟩
    · show ((sv.chans.map (fun e => if e.1 = c then (e.1, step e.2 a) else e)).map Prod.fst).Nodup
      have : (sv.chans.map (fun e => if e.1 = c then (e.1, step e.2 a) else e)).map Prod.fst = sv.chans.map Prod.fst := by
        rw [List.map_map]
        apply List.map_congr_left
        intro e _
        simp only [Function.comp]
        split <;> rfl
      rw [this]; exact h.one

theorem ServerInv.runOps (asserts : Bool) (ops : List SrvOp) : ServerInv asserts (Server.runOps asserts ops) := by
  have : ∀ (ops : List SrvOp) (sv : Server), ServerInv asserts sv → ServerInv asserts (ops.foldl Server.apply sv) := by
    intro ops
    induction ops with
    | nil => intro sv h; exact h
    | cons op rest ih => intro sv h; exact ih _ (h.apply op)
  exact this ops _ ⟨rfl, (by intro e he; cases he), (by simp)⟩

/-- an action on one connection leaves the channel of every other connection as it is -/
theorem Server.act_other (sv : Server) (c c' : Nat) (a : Act) (h : c' ≠ c) : (sv.act c a).chan? c' = sv.chan? c' := by
  unfold Server.chan? Server.act
  show ((sv.chans.map (fun e => if e.1 = c then (e.1, step e.2 a) else e)).find? (fun e => e.1 = c')).map (·.2) = _
  induction sv.chans with
  | nil => rfl
  | cons e rest ih =>
    rw [List.map_cons]
    by_cases he : e.1 = c
    · have hne : ¬ e.1 = c' := fun h' => h (h'.symm.trans he)
      rw [if_pos he, List.find?_cons_of_neg (by simpa using hne), List.find?_cons_of_neg (by simpa using hne)]
      exact ih
    · rw [if_neg he]
      by_cases hc : e.1 = c'
      · rw [List.find?_cons_of_pos (by simpa using hc), List.find?_cons_of_pos (by simpa using hc)]
      · rw [List.find?_cons_of_neg (by simpa using hc), List.find?_cons_of_neg (by simpa using hc)]
        exact ih

end MuduoVerif.Rpc
