import MuduoVerif.Proofs.TPoolTie
/-!
# The steps of the ThreadPool model, one explicit successor state per case

`PStep s s'` lists what `pstep` can do once the skeleton features and guards of `Generated/Monitor.lean`
have been evaluated (`Proofs/TPoolTie.lean`); `pstep_sound` shows that every enabled `pstep` is one of
them.  The invariants of `Proofs/TPool.lean` are proved by cases on `PStep`.
-/
namespace MuduoVerif.Monitor
open MuduoVerif.Generated.Monitor

inductive PStep (s : PState) : PState → Prop where
  | acq (t : Nat) (ho : s.owner = none) (hl : s.needsLock t = true) (hE : t ∉ s.ne.W) (hF : t ∉ s.nf.W) :
      PStep s { s with owner := some t }
  | spur (t : Nat) (c : Cond) (h : t ∈ (s.ws c).W) :
      PStep s { s with toMon := s.toMon.setWs c ((s.ws c).spur t) }
  | test (t : Nat) (hpc : s.pc t = .wTest) :
      PStep s { s with pc := upd s.pc t (if s.running = true then .wTake else .wDone) }
  | takePark (t : Nat) (S' : List Nat) (hpc : s.pc t = .wTake) (ho : s.owner = some t) (hS : Shrunk s.ne.S S' t)
      (hq : s.q = []) (hr : s.running = true) :
      PStep s { s with toMon := (s.toMon.setWs .notEmpty ⟨s.ne.W ++ [t], S'⟩).unlock }
  | takeNone (t : Nat) (S' : List Nat) (hpc : s.pc t = .wTake) (ho : s.owner = some t) (hS : Shrunk s.ne.S S' t)
      (hq : s.q = []) (hr : s.running = false) :
      PStep s { s with toMon := (s.toMon.setWs .notEmpty ⟨s.ne.W, S'⟩).unlock, pc := upd s.pc t .wTest }
  | takeSome (t : Nat) (S' : List Nat) (x : Task) (q' : List Task) (hpc : s.pc t = .wTake) (ho : s.owner = some t)
      (hS : Shrunk s.ne.S S' t) (hq : s.q = x :: q') :
      PStep s { s with
        toMon := if 0 < s.maxq then (s.toMon.setWs .notEmpty ⟨s.ne.W, S'⟩).unlock.notifs [⟨false, .notFull⟩]
                 else (s.toMon.setWs .notEmpty ⟨s.ne.W, S'⟩).unlock,
        q := q', pc := upd s.pc t (.wExec x), log := s.log ++ [.took t x] }
  | exec (t : Nat) (x : Task) (p : PPc) (g : Bool) (hpc : s.pc t = .wExec x)
      (hp : p = .wTest ∨ (p = .wGate x ∧ s.kind x.2 = .waits)) :
      PStep s { s with gate := g, pc := upd s.pc t p, log := s.log ++ [.exec t x] }
  | pass (t : Nat) (x : Task) (hpc : s.pc t = .wGate x) (hg : s.gate = true) :
      PStep s { s with pc := upd s.pc t .wTest, log := s.log ++ [.pass t x] }
  | openGate (t : Nat) (rest : List POp) (hpc : s.pc t = .idle) (hp : s.prog t = .open :: rest) :
      PStep s { s with gate := true, pc := upd s.pc t .idle, prog := upd s.prog t rest, log := s.log ++ [.openRet t] }
  | runInline (t id : Nat) (rest : List POp) (hpc : s.pc t = .idle) (hp : s.prog t = .run id :: rest) (hn : s.n = 0) :
      PStep s { s with pc := upd s.pc t .idle, prog := upd s.prog t rest, log := s.log ++ [.inl t id, .runRet t id] }
  | runPark (t id : Nat) (rest : List POp) (S' : List Nat) (hpc : s.pc t = .idle) (hp : s.prog t = .run id :: rest)
      (hn : s.n ≠ 0) (ho : s.owner = some t) (hS : Shrunk s.nf.S S' t)
      (hfull : 0 < s.maxq ∧ s.maxq ≤ s.q.length) (hr : s.running = true) :
      PStep s { s with toMon := (s.toMon.setWs .notFull ⟨s.nf.W ++ [t], S'⟩).unlock }
  | runStopped (t id : Nat) (rest : List POp) (S' : List Nat) (hpc : s.pc t = .idle) (hp : s.prog t = .run id :: rest)
      (hn : s.n ≠ 0) (ho : s.owner = some t) (hS : Shrunk s.nf.S S' t) (hr : s.running = false) :
      PStep s { s with toMon := (s.toMon.setWs .notFull ⟨s.nf.W, S'⟩).unlock,
                       pc := upd s.pc t .idle, prog := upd s.prog t rest, log := s.log ++ [.runRet t id] }
  | runPush (t id : Nat) (rest : List POp) (S' : List Nat) (hpc : s.pc t = .idle) (hp : s.prog t = .run id :: rest)
      (hn : s.n ≠ 0) (ho : s.owner = some t) (hS : Shrunk s.nf.S S' t)
      (hroom : ¬ (0 < s.maxq ∧ s.maxq ≤ s.q.length)) (hr : s.running = true) :
      PStep s { s with
        toMon := (s.toMon.setWs .notFull ⟨s.nf.W, S'⟩).unlock.notifs [⟨false, .notEmpty⟩],
        q := s.q ++ [(s.nacc, id)], nacc := s.nacc + 1,
        pc := upd s.pc t .idle, prog := upd s.prog t rest, log := s.log ++ [.accept t (s.nacc, id), .runRet t id] }
  | stopFlag (t : Nat) (rest : List POp) (hpc : s.pc t = .idle) (hp : s.prog t = .stop :: rest) (ho : s.owner = some t) :
      PStep s { s with running := false, pc := upd s.pc t .stopNotify, log := s.log ++ [.stopFlag t] }
  | stopNotify (t : Nat) (hpc : s.pc t = .stopNotify) (ho : s.owner = some t) (hn : s.n ≠ 0) :
      PStep s { s with toMon := s.toMon.unlock.notifs [⟨true, .notEmpty⟩, ⟨true, .notFull⟩],
                       pc := upd s.pc t (.stopJoin 0) }
  | stopNotify0 (t : Nat) (hpc : s.pc t = .stopNotify) (ho : s.owner = some t) (hn : s.n = 0) :
      PStep s { s with toMon := s.toMon.unlock.notifs [⟨true, .notEmpty⟩, ⟨true, .notFull⟩],
                       pc := upd s.pc t .idle, prog := upd s.prog t (s.prog t).tail, log := s.log ++ [.stopRet t] }
  | joinNext (t i : Nat) (hpc : s.pc t = .stopJoin i) (hd : s.pc (i + 1) = .wDone) (hi : i + 1 < s.n) :
      PStep s { s with pc := upd s.pc t (.stopJoin (i + 1)) }
  | joinLast (t i : Nat) (hpc : s.pc t = .stopJoin i) (hd : s.pc (i + 1) = .wDone) (hi : ¬ i + 1 < s.n) :
      PStep s { s with pc := upd s.pc t .idle, prog := upd s.prog t (s.prog t).tail, log := s.log ++ [.stopRet t] }

theorem PState.enter_while_cases (s : PState) (t : Nat) (c : Cond) (g : Bool) :
    ∃ S', Shrunk (s.ws c).S S' t ∧ ∀ eff : PState → PState, s.enter t (some ⟨true, c⟩) g eff =
      if g = true then { s with toMon := (s.toMon.setWs c ⟨(s.ws c).W ++ [t], S'⟩).unlock }
      else eff { s with toMon := s.toMon.setWs c ⟨(s.ws c).W, S'⟩ } := by
  obtain ⟨S', hS, he⟩ := Mon.enter_facts s.toMon t c g
  refine ⟨S', hS, fun eff => ?_⟩
  simp only [PState.enter, he]
  cases g <;> simp [Mon.unlock]

theorem pstep_sound {s s' : PState} {a : Act} (h : pstep s a = some s') : PStep s s' := by
  cases a with
  | acq t =>
    simp only [pstep] at h
    split at h
    · rename_i hc; cases h; exact .acq t hc.1 hc.2.1 hc.2.2.1 hc.2.2.2
    · cases h
  | spur t c =>
    simp only [pstep] at h
    split at h
    · rename_i hc; cases h; exact .spur t c hc
    · cases h
  | body t =>
    simp only [pstep] at h
    split at h
    · -- wTest
      rename_i hpc
      simp only [PState.g_loop_g2] at h
      cases h
      have := PStep.test (s := s) t hpc
      cases hr : s.running <;> simpa [hr] using this
    · -- wTake
      rename_i hpc
      split at h
      · rename_i ho
        cases h
        obtain ⟨S', hS, he⟩ := s.enter_while_cases t .notEmpty (s.g pool_take_g1)
        simp only [PState.takeBody, pool_takeW, he]
        by_cases hg : s.q.length = 0 ∧ s.running = true
        · rw [if_pos (by simpa [PState.g_take_g1] using hg)]
          exact .takePark t S' hpc ho hS (List.eq_nil_of_length_eq_zero hg.1) hg.2
        · rw [if_neg (by simpa [PState.g_take_g1] using hg)]
          have hq' : s.q = [] ∨ ∃ x q', s.q = x :: q' := by cases s.q <;> simp
          rcases hq' with hq | ⟨x, q', hq⟩
          ·
            have hr : s.running = false := by
              cases hr : s.running
              · rfl
              · exact absurd ⟨by rw [hq]; rfl, hr⟩ hg
            have := PStep.takeNone (s := s) t S' hpc ho hS hq hr
            simpa [PState.g_take_g2, hq, Mon.unlock] using this
          · have := PStep.takeSome (s := s) t S' x q' hpc ho hS hq
            by_cases hm : 0 < s.maxq
            · simpa [PState.g_take_g2, PState.g_take_g3, hq, pool_takeN, PState.notifs, hm, Mon.unlock] using this
            · simpa [PState.g_take_g2, PState.g_take_g3, hq, pool_takeN, PState.notifs, hm, Mon.unlock] using this
      · cases h
    · -- wExec
      rename_i x hpc
      simp only [PState.g_loop_g3, if_true, PState.startTask] at h
      cases h
      cases hk : s.kind x.2
      · exact .exec t x .wTest s.gate hpc (Or.inl rfl)
      · exact .exec t x (.wGate x) s.gate hpc (Or.inr ⟨rfl, hk⟩)
      · exact .exec t x .wTest true hpc (Or.inl rfl)
    · -- wGate
      rename_i x hpc
      split at h
      · rename_i hg; cases h; exact .pass t x hpc hg
      · cases h
    · cases h
    · -- idle
      rename_i hpc
      split at h
      · cases h
      · rename_i id rest hp
        simp only [PState.inline, PState.g_run_g1, decide_eq_true_eq] at h
        split at h
        · rename_i hn
          cases h
          exact .runInline t id rest hpc hp hn
        · rename_i hn
          split at h
          · rename_i ho
            cases h
            obtain ⟨S', hS, he⟩ := s.enter_while_cases t .notFull (s.g pool_run_g2)
            simp only [PState.runBody, pool_runW, he]
            by_cases hg : (0 < s.maxq ∧ s.maxq ≤ s.q.length) ∧ s.running = true
            · rw [if_pos (by simpa [PState.g_run_g2] using hg)]
              exact .runPark t id rest S' hpc hp hn ho hS hg.1 hg.2
            · rw [if_neg (by simpa [PState.g_run_g2] using hg)]
              have hr' : s.running = false ∨ s.running = true := by cases s.running <;> simp
              rcases hr' with hr | hr
              · have := PStep.runStopped (s := s) t id rest S' hpc hp hn ho hS hr
                simpa [PState.g_run_g3, hr, PState.ret, Mon.unlock] using this
              · have hroom : ¬ (0 < s.maxq ∧ s.maxq ≤ s.q.length) := fun hf => hg ⟨hf, hr⟩
                have := PStep.runPush (s := s) t id rest S' hpc hp hn ho hS hroom hr
                simpa [PState.g_run_g3, hr, PState.ret, pool_runN, PState.notifs, Mon.unlock] using this
          · cases h
      · rename_i rest hp
        split at h
        · rename_i ho
          cases h
          exact .stopFlag t _ hpc hp ho
        · cases h
      · rename_i rest hp
        cases h
        exact .openGate t rest hpc hp
    · -- stopNotify
      rename_i hpc
      split at h
      · rename_i ho
        cases h
        by_cases hn : s.n = 0
        · have := PStep.stopNotify0 (s := s) t hpc ho hn
          simpa [hn, pool_stopN, PState.notifs, PState.stopDone, PState.ret, Mon.unlock] using this
        · have := PStep.stopNotify (s := s) t hpc ho hn
          simpa [hn, pool_stopN, PState.notifs, Mon.unlock] using this
      · cases h
    · -- stopJoin
      rename_i i hpc
      split at h
      · rename_i hd
        cases h
        by_cases hi : i + 1 < s.n
        · simpa [hi] using PStep.joinNext (s := s) t i hpc hd hi
        · simpa [hi, PState.stopDone, PState.ret] using PStep.joinLast (s := s) t i hpc hd hi
      · cases h

end MuduoVerif.Monitor
