import MuduoVerif.Generated.TsText
import MuduoVerif.Model.TsTextDecl
/-!
# T1 tie for the text forms of `Timestamp` (C20)

`Gen.TsText.<x>` is what `vlib/gen/tstext.py` extracts from /repo's current `muduo/base/Timestamp.cc` on every run;
`TsText.Decl.<x>` is what the theorems about the text forms were proved for.  The model calls the generated
definitions; a changed width, flag, separator, argument order, buffer size or a changed split of the microsecond count
breaks the equation (and the theorems).
-/
namespace MuduoVerif.TsText

theorem tie_toStringSeconds : Gen.TsText.toStringSeconds = Decl.toStringSeconds := rfl
theorem tie_toStringMicros : Gen.TsText.toStringMicros = Decl.toStringMicros := rfl
theorem tie_toStringFormat : Gen.TsText.toStringFormat = Decl.toStringFormat := rfl
theorem tie_toStringBuf : Gen.TsText.toStringBuf = Decl.toStringBuf := rfl
theorem tie_toStringArgs : Gen.TsText.toStringArgs = Decl.toStringArgs := rfl
theorem tie_formattedSeconds : Gen.TsText.formattedSeconds = Decl.formattedSeconds := rfl
theorem tie_formattedMicros : Gen.TsText.formattedMicros = Decl.formattedMicros := rfl
theorem tie_formattedShowsMicros : Gen.TsText.formattedShowsMicros = Decl.formattedShowsMicros := rfl
theorem tie_formattedFormatMicro : Gen.TsText.formattedFormatMicro = Decl.formattedFormatMicro := rfl
theorem tie_formattedBufMicro : Gen.TsText.formattedBufMicro = Decl.formattedBufMicro := rfl
theorem tie_formattedArgsMicro : Gen.TsText.formattedArgsMicro = Decl.formattedArgsMicro := rfl
theorem tie_formattedFormat : Gen.TsText.formattedFormat = Decl.formattedFormat := rfl
theorem tie_formattedBuf : Gen.TsText.formattedBuf = Decl.formattedBuf := rfl
theorem tie_formattedArgs : Gen.TsText.formattedArgs = Decl.formattedArgs := rfl
theorem tie_formattedGmtime : Gen.TsText.formattedGmtime = Decl.formattedGmtime := rfl

/-- every extracted definition is the declared one -/
theorem text_forms_tied :
    Gen.TsText.toStringSeconds = Decl.toStringSeconds ∧
    Gen.TsText.toStringMicros = Decl.toStringMicros ∧
    Gen.TsText.toStringFormat = Decl.toStringFormat ∧
    Gen.TsText.toStringBuf = Decl.toStringBuf ∧
    Gen.TsText.toStringArgs = Decl.toStringArgs ∧
    Gen.TsText.formattedSeconds = Decl.formattedSeconds ∧
    Gen.TsText.formattedMicros = Decl.formattedMicros ∧
    Gen.TsText.formattedShowsMicros = Decl.formattedShowsMicros ∧
    Gen.TsText.formattedFormatMicro = Decl.formattedFormatMicro ∧
    Gen.TsText.formattedBufMicro = Decl.formattedBufMicro ∧
    Gen.TsText.formattedArgsMicro = Decl.formattedArgsMicro ∧
    Gen.TsText.formattedFormat = Decl.formattedFormat ∧
    Gen.TsText.formattedBuf = Decl.formattedBuf ∧
    Gen.TsText.formattedArgs = Decl.formattedArgs ∧
    Gen.TsText.formattedGmtime = Decl.formattedGmtime :=
  ⟨tie_toStringSeconds, tie_toStringMicros, tie_toStringFormat, tie_toStringBuf, tie_toStringArgs, tie_formattedSeconds, tie_formattedMicros, tie_formattedShowsMicros, tie_formattedFormatMicro, tie_formattedBufMicro, tie_formattedArgsMicro, tie_formattedFormat, tie_formattedBuf, tie_formattedArgs, tie_formattedGmtime⟩

end MuduoVerif.TsText
