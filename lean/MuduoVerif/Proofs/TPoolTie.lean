import MuduoVerif.Model.TPool
import MuduoVerif.Proofs.MonitorBase
/-!
# T1 tie for `ThreadPool` (C15)

`Declared.pool_*` is the statement skeleton each method is modelled with; `tie_pool_*` show that the
skeleton extracted from /repo's current `ThreadPool.cc` is exactly that one (see Proofs/MonitorTie.lean
for the conventions).  Below them: what `Model/TPool.lean` reads off the skeletons, and the generated
guards in the form the proofs use.
-/
namespace MuduoVerif.Monitor
open MuduoVerif.MonitorSkel
open MuduoVerif.Generated.Monitor

namespace Declared
def pool_stop : List Stmt :=
  [.lock, .act "operator= running_", .notifyAll "notEmpty_", .notifyAll "notFull_", .unlock, .forBegin, .act "join", .forEnd]
def pool_run : List Stmt :=
  [.ifBegin, .act "operator()", .elseBegin, .lock, .whileWait "notFull_", .ifBegin, .ret, .ifEnd,
   .act "push_back queue_", .notify "notEmpty_", .unlock, .ifEnd]
def pool_take : List Stmt :=
  [.lock, .whileWait "notEmpty_", .ifBegin, .act "operator= queue_", .act "pop_front queue_", .ifBegin,
   .notify "notFull_", .ifEnd, .ifEnd, .ret, .unlock]
def pool_isFull : List Stmt := [.act "assertLocked mutex_", .act "return maxQueueSize_ queue_", .ret]
def pool_runInThread : List Stmt :=
  [.ifBegin, .act "operator() threadInitCallback_", .ifEnd, .point, .whileBegin, .act "decl task take",
   .ifBegin, .act "operator()", .ifEnd, .point, .whileEnd]
end Declared

theorem tie_pool_stop : pool_stop = Declared.pool_stop := by decide
theorem tie_pool_run : pool_run = Declared.pool_run := by decide
theorem tie_pool_take : pool_take = Declared.pool_take := by decide
theorem tie_pool_isFull : pool_isFull = Declared.pool_isFull := by decide
theorem tie_pool_runInThread : pool_runInThread = Declared.pool_runInThread := by decide


theorem pool_runW : waitOf pool_run = some ⟨true, .notFull⟩ := by rw [tie_pool_run]; decide
theorem pool_runN : notifsOf pool_run = [⟨false, .notEmpty⟩] := by rw [tie_pool_run]; decide
theorem pool_takeW : waitOf pool_take = some ⟨true, .notEmpty⟩ := by rw [tie_pool_take]; decide
theorem pool_takeN : notifsOf pool_take = [⟨false, .notFull⟩] := by rw [tie_pool_take]; decide
theorem pool_stopN : notifsOf pool_stop = [⟨true, .notEmpty⟩, ⟨true, .notFull⟩] := by rw [tie_pool_stop]; decide

theorem pool_isFull_iff (size maxq : Nat) : pool_isFull_ret size maxq ↔ 0 < maxq ∧ maxq ≤ size := by
  unfold pool_isFull_ret; omega


namespace PState
variable (s : PState)
theorem g_run_g1 : s.g pool_run_g1 = decide (s.n = 0) := by simp [PState.g, pool_run_g1]
theorem g_run_g2 : s.g pool_run_g2 = decide ((0 < s.maxq ∧ s.maxq ≤ s.q.length) ∧ s.running = true) := by
  simp [PState.g, pool_run_g2, pool_isFull_ret]
theorem g_run_g3 : s.g pool_run_g3 = !s.running := by cases h : s.running <;> simp [PState.g, pool_run_g3, h]
theorem g_take_g1 : s.g pool_take_g1 = decide (s.q.length = 0 ∧ s.running = true) := by simp [PState.g, pool_take_g1]
theorem g_take_g2 : s.g pool_take_g2 = decide (s.q.length ≠ 0) := by simp [PState.g, pool_take_g2]
theorem g_take_g3 : s.g pool_take_g3 = decide (0 < s.maxq) := by simp [PState.g, pool_take_g3]
theorem g_loop_g2 : s.g pool_runInThread_g2 = s.running := by cases h : s.running <;> simp [PState.g, pool_runInThread_g2, h]
theorem g_loop_g3 : s.g pool_runInThread_g3 (taskValid := true) = true := by simp [PState.g, pool_runInThread_g3]
end PState

end MuduoVerif.Monitor
