import MuduoVerif.Model.Codec
import MuduoVerif.Proofs.Buffer
import MuduoVerif.Proofs.Stream
/-! Lemmas about the framing model: slices, Adler-32 range, the loop step is `StepOk`,
what `step` does on an encoded frame. -/
namespace MuduoVerif.Codec
open MuduoVerif.Stream MuduoVerif.Gen.Codec
open MuduoVerif.Buffer (encodeBE decodeBE toSigned toUnsigned intBytes intBytes_length
  int_roundtrip_bytes toUnsigned_lt toSigned_toUnsigned decode_encodeBE encodeBE_length)

/-! ### slices -/
theorem slice_append_left (buf x : Bytes) (off len : Int) (h : off.toNat + len.toNat ≤ buf.length) :
    slice (buf ++ x) off len = slice buf off len := by
  unfold slice
  rw [List.drop_append_of_le_length (by omega), List.take_append_of_le_length (by simp; omega)]

theorem asInt32_append (buf x : Bytes) (off : Int) (h : off.toNat + 4 ≤ buf.length) :
    asInt32 (buf ++ x) off = asInt32 buf off := by
  unfold asInt32
  rw [slice_append_left _ _ _ _ (by simpa using h)]

theorem slice_zero_append (a b : Bytes) : slice (a ++ b) 0 (a.length : Int) = a := by
  simp [slice]

theorem slice_skip_append (a b c : Bytes) : slice (a ++ (b ++ c)) (a.length : Int) (b.length : Int) = b := by
  simp [slice]

/-! ### Adler-32 stays below 2^32 -/
theorem adlerStep_lt (s : Nat × Nat) (b : UInt8) :
    (adlerStep s b).1 < 65536 ∧ (adlerStep s b).2 < 65536 := by
  simp only [adlerStep, adlerMod]
  constructor <;> omega

theorem adler_fold_lt (bs : Bytes) (s : Nat × Nat) (h : s.1 < 65536 ∧ s.2 < 65536) :
    (bs.foldl adlerStep s).1 < 65536 ∧ (bs.foldl adlerStep s).2 < 65536 := by
  induction bs generalizing s with
  | nil => exact h
  | cons b bs ih => exact ih _ (adlerStep_lt s b)

theorem adler32_lt (init : Nat) (h : init < 2 ^ 32) (bs : Bytes) : adler32 init bs < 2 ^ 32 := by
  unfold adler32
  have := adler_fold_lt bs (init % 65536, init / 65536) ⟨by omega, by simp only; omega⟩
  simp only
  omega

/-! ### signed 32-bit values on the wire -/
theorem toUnsigned_toSigned32 (u : Nat) (h : u < 2 ^ 32) : toUnsigned 32 (toSigned 32 u) = u := by
  unfold toSigned toUnsigned
  split
  · have : ((u : Int) % (2 ^ 32 : Int)) = u := Int.emod_eq_of_lt (by omega) (by omega)
    rw [this]; simp
  · have : (((u : Int) - 2 ^ 32) % (2 ^ 32 : Int)) = u := by
      rw [Int.sub_emod_right]; exact Int.emod_eq_of_lt (by omega) (by omega)
    rw [this]; simp

/-- the four bytes written by `appendInt32(static_cast<int32_t>(u))` read back as the same int32 -/
theorem asInt32_intBytes_signed (u : Nat) (h : u < 2 ^ 32) (pre post : Bytes) :
    asInt32 (pre ++ (intBytes 4 (toSigned 32 u) ++ post)) (pre.length : Int) = toSigned 32 u := by
  have hl : (intBytes 4 (toSigned 32 u)).length = 4 := intBytes_length _ _
  unfold asInt32
  have := slice_skip_append pre (intBytes 4 (toSigned 32 u)) post
  rw [hl] at this
  rw [show ((4 : Nat) : Int) = 4 from rfl] at this
  rw [this]
  unfold intBytes
  rw [toUnsigned_toSigned32 u h, decode_encodeBE 4 u (by omega)]

/-- a length below 2^31 written big-endian reads back as itself -/
theorem asInt32_intBytes_nat (n : Nat) (h : n < 2 ^ 31) (post : Bytes) :
    asInt32 (intBytes 4 (n : Int) ++ post) 0 = (n : Int) := by
  have hl : (intBytes 4 (n : Int)).length = 4 := intBytes_length _ _
  unfold asInt32
  have := slice_zero_append (intBytes 4 (n : Int)) post
  rw [hl] at this
  rw [show ((4 : Nat) : Int) = 4 from rfl] at this
  rw [this]
  exact int_roundtrip_bytes 4 (by omega) (n : Int) (by omega) (by omega)


/-! ### the guards, in plain arithmetic -/
theorem headerAvailable_iff (n : Nat) (c : Cfg) :
    headerAvailable n (minLen c) ↔ c.tag.length + 8 ≤ n := by
  unfold headerAvailable minLen kMinMessageLen kChecksumLen kHeaderLen; omega

theorem lenOutOfRange_iff (len : Int) (c : Cfg) :
    lenOutOfRange len (minLen c) ↔ (len > 67108864 ∨ len < (c.tag.length : Int) + 4) := by
  unfold lenOutOfRange minLen kMinMessageLen kChecksumLen kMaxMessageLen; omega

theorem frameAvailable_iff (n : Nat) (len : Int) : frameAvailable n len ↔ 4 + len ≤ (n : Int) := by
  unfold frameAvailable kHeaderLen; omega

theorem consumedBytes_eq (len : Int) : consumedBytes len = 4 + len := by
  unfold consumedBytes kHeaderLen; omega

/-- an iteration that did not ask for more bytes gives the same verdict when more bytes
follow: it never looks beyond the frame whose length field it read -/
theorem step_append (c : Cfg) (buf x : Bytes) (h : step c () buf ≠ .need) :
    step c () (buf ++ x) = step c () buf := by
  unfold step at h ⊢
  by_cases h1 : headerAvailable buf.length (minLen c)
  · have h1' : headerAvailable (buf ++ x).length (minLen c) := by
      rw [headerAvailable_iff] at h1 ⊢; simp only [List.length_append]; omega
    have h4 : 4 ≤ buf.length := by rw [headerAvailable_iff] at h1; omega
    have hlen : asInt32 (buf ++ x) 0 = asInt32 buf 0 := asInt32_append buf x 0 (by simpa using h4)
    simp only [h1, h1', if_true, hlen] at h ⊢
    by_cases h2 : lenOutOfRange (asInt32 buf 0) (minLen c)
    · simp only [h2, if_true]
    · simp only [h2, if_false] at h ⊢
      by_cases h3 : frameAvailable buf.length (asInt32 buf 0)
      · have h3' : frameAvailable (buf ++ x).length (asInt32 buf 0) := by
          rw [frameAvailable_iff] at h3 ⊢; simp only [List.length_append]; omega
        have hr : ¬ (asInt32 buf 0 < (c.tag.length : Int) + 4) := by
          rw [lenOutOfRange_iff] at h2; omega
        have hfit : (4 + asInt32 buf 0).toNat ≤ buf.length := by
          rw [frameAvailable_iff] at h3; omega
        have hs : slice (buf ++ x) frameOffset (frameLen (asInt32 buf 0))
            = slice buf frameOffset (frameLen (asInt32 buf 0)) :=
          slice_append_left _ _ _ _ (by simp only [frameOffset, frameLen, kHeaderLen]; omega)
        have ht : (buf ++ x).take (consumedBytes (asInt32 buf 0)).toNat
            = buf.take (consumedBytes (asInt32 buf 0)).toNat :=
          List.take_append_of_le_length (by rw [consumedBytes_eq]; exact hfit)
        simp only [h3, h3', if_true, hs, ht]
      · simp only [h3, if_false] at h
        exact absurd rfl h
  · simp only [h1, if_false] at h
    exact absurd rfl h

/-- every frame the loop consumes is at least 8 bytes long and lies inside the buffer -/
theorem step_adv (c : Cfg) (buf : Bytes) (evs : List Event) (k : Nat)
    (h : step c () buf = .adv () evs k) :
    k = (4 + asInt32 buf 0).toNat ∧ 8 ≤ k ∧ k ≤ buf.length ∧ k ≤ 67108868 := by
  unfold step at h
  by_cases h1 : headerAvailable buf.length (minLen c)
  · simp only [h1, if_true] at h
    by_cases h2 : lenOutOfRange (asInt32 buf 0) (minLen c)
    · simp only [h2, if_true] at h; cases h
    · simp only [h2, if_false] at h
      by_cases h3 : frameAvailable buf.length (asInt32 buf 0)
      · simp only [h3, if_true] at h
        rw [lenOutOfRange_iff] at h2
        rw [frameAvailable_iff] at h3
        have hk : k = (consumedBytes (asInt32 buf 0)).toNat := by
          split at h
          · cases h; rfl
          · split at h
            · cases h; rfl
            · cases h
        rw [consumedBytes_eq] at hk
        omega
      · simp only [h3, if_false] at h; cases h
  · simp only [h1, if_false] at h; cases h

theorem stepOk (c : Cfg) : StepOk (fun _ : Unit => True) (step c) where
  adv_ok := by
    intro s buf s' evs k _ h
    obtain ⟨_, h8, hk, _⟩ := step_adv c buf evs k h
    exact ⟨by omega, hk, trivial⟩
  adv_mono := by
    intro s buf s' evs k x _ h
    rw [step_append c buf x (by rw [h]; intro hh; cases hh)]; exact h
  fail_mono := by
    intro s buf e x _ h
    rw [step_append c buf x (by rw [h]; intro hh; cases hh)]; exact h


/-! ### what `fillEmptyBuffer` produces, and what `step` makes of it -/

/-- everything behind the length field -/
def bodyOf (c : Cfg) (p : Bytes) : Bytes :=
  c.tag ++ p ++ intBytes 4 (checksum32 adlerInit (c.tag ++ p))

theorem encode_eq (c : Cfg) (p : Bytes) :
    encode c p = intBytes 4 ((bodyOf c p).length : Int) ++ bodyOf c p := rfl

theorem bodyOf_length (c : Cfg) (p : Bytes) : (bodyOf c p).length = c.tag.length + p.length + 4 := by
  simp only [bodyOf, List.length_append, intBytes_length]

theorem encode_length (c : Cfg) (p : Bytes) : (encode c p).length = 4 + (c.tag.length + p.length + 4) := by
  rw [encode_eq, List.length_append, intBytes_length, bodyOf_length]

theorem adlerInit_lt : adlerInit < 2 ^ 32 := by unfold adlerInit; omega

theorem validate_body (c : Cfg) (p : Bytes) : validateChecksum (bodyOf c p) = true := by
  unfold validateChecksum
  have hL := bodyOf_length c p
  have h1 : slice (bodyOf c p) checksumFrom (checksumLen ((bodyOf c p).length : Int)) = c.tag ++ p := by
    have : checksumLen ((bodyOf c p).length : Int) = ((c.tag ++ p).length : Int) := by
      unfold checksumLen kChecksumLen; simp only [List.length_append]; omega
    rw [this]
    unfold checksumFrom bodyOf
    exact slice_zero_append _ _
  have h2 : asInt32 (bodyOf c p) (checksumAt ((bodyOf c p).length : Int))
      = checksum32 adlerInit (c.tag ++ p) := by
    have : checksumAt ((bodyOf c p).length : Int) = ((c.tag ++ p).length : Int) := by
      unfold checksumAt kChecksumLen; simp only [List.length_append]; omega
    rw [this]
    have hb : bodyOf c p = (c.tag ++ p) ++ (intBytes 4 (toSigned 32 (adler32 adlerInit (c.tag ++ p))) ++ []) := by
      simp [bodyOf, checksum32]
    rw [hb]
    exact asInt32_intBytes_signed _ (adler32_lt _ adlerInit_lt _) _ _
  rw [h1, h2]
  simp

theorem tagMatches_body (c : Cfg) (p : Bytes) : tagMatches c (bodyOf c p) = true := by
  unfold tagMatches tagAt tagCmpLen bodyOf
  rw [List.append_assoc, slice_zero_append]
  simp

theorem payloadOf_body (c : Cfg) (p : Bytes) : payloadOf c (bodyOf c p) = p := by
  unfold payloadOf
  have hL := bodyOf_length c p
  have h1 : payloadAt (c.tag.length : Int) = (c.tag.length : Int) := by unfold payloadAt; omega
  have h2 : payloadLen ((bodyOf c p).length : Int) (c.tag.length : Int) = (p.length : Int) := by
    unfold payloadLen kChecksumLen; omega
  rw [h1, h2]
  unfold bodyOf
  rw [List.append_assoc]
  exact slice_skip_append _ _ _

theorem parse_body (c : Cfg) (p : Bytes) (hp : c.parsePayload p = true) :
    parse c (bodyOf c p) = .kNoError := by
  unfold parse
  rw [validate_body, tagMatches_body, payloadOf_body, hp]
  rfl

/-- the decoder's view of `encode c p ++ rest` when the frame is within the decoder's limit -/
theorem step_encode (c : Cfg) (p rest : Bytes)
    (hmax : c.tag.length + p.length + kChecksumLen ≤ kMaxMessageLen)
    (hp : c.parsePayload p = true) (hraw : c.rawSkip (encode c p) = false) :
    step c () (encode c p ++ rest) = .adv () [.msg p] (encode c p).length := by
  have hL := bodyOf_length c p
  have hmax' : c.tag.length + p.length + 4 ≤ 67108864 := by
    unfold kChecksumLen kMaxMessageLen at hmax; exact hmax
  have hlen : asInt32 (encode c p ++ rest) 0 = ((bodyOf c p).length : Int) := by
    rw [encode_eq, List.append_assoc]
    exact asInt32_intBytes_nat _ (by omega) _
  have hbl : (encode c p ++ rest).length = 4 + (c.tag.length + p.length + 4) + rest.length := by
    rw [List.length_append, encode_length]
  have h1 : headerAvailable (encode c p ++ rest).length (minLen c) := by
    rw [headerAvailable_iff]; omega
  have h2 : ¬ lenOutOfRange ((bodyOf c p).length : Int) (minLen c) := by
    rw [lenOutOfRange_iff]; omega
  have h3 : frameAvailable (encode c p ++ rest).length ((bodyOf c p).length : Int) := by
    rw [frameAvailable_iff]; omega
  have hk : (consumedBytes ((bodyOf c p).length : Int)).toNat = (encode c p).length := by
    rw [consumedBytes_eq, encode_length]; omega
  have ht : (encode c p ++ rest).take (encode c p).length = encode c p := by simp
  have hs : slice (encode c p ++ rest) frameOffset (frameLen ((bodyOf c p).length : Int)) = bodyOf c p := by
    rw [encode_eq, List.append_assoc]
    have : frameOffset = ((intBytes 4 ((bodyOf c p).length : Int)).length : Int) := by
      rw [intBytes_length]; unfold frameOffset kHeaderLen; omega
    rw [this]
    unfold frameLen
    exact slice_skip_append _ _ _
  unfold step
  simp only [hlen, h1, h2, h3, if_true, if_false, hk, ht, hraw, hs, parse_body c p hp, payloadOf_body,
    Bool.false_eq_true]

/-- F12: `fillEmptyBuffer` has no size check, so a message whose frame body exceeds
`kMaxMessageLen` (and still fits an int32) is encoded - and the decoder's range test
rejects the result -/
theorem step_encode_oversize (c : Cfg) (p rest : Bytes)
    (hbig : kMaxMessageLen < c.tag.length + p.length + kChecksumLen)
    (h31 : c.tag.length + p.length + kChecksumLen < 2 ^ 31) :
    step c () (encode c p ++ rest) = .fail (.err .kInvalidLength) := by
  have hL := bodyOf_length c p
  unfold kChecksumLen kMaxMessageLen at hbig
  unfold kChecksumLen at h31
  have hlen : asInt32 (encode c p ++ rest) 0 = ((bodyOf c p).length : Int) := by
    rw [encode_eq, List.append_assoc]
    exact asInt32_intBytes_nat _ (by omega) _
  have hbl : (encode c p ++ rest).length = 4 + (c.tag.length + p.length + 4) + rest.length := by
    rw [List.length_append, encode_length]
  have h1 : headerAvailable (encode c p ++ rest).length (minLen c) := by
    rw [headerAvailable_iff]; omega
  have h2 : lenOutOfRange ((bodyOf c p).length : Int) (minLen c) := by
    rw [lenOutOfRange_iff]; omega
  unfold step
  simp only [hlen, h1, h2, if_true]
  rfl

end MuduoVerif.Codec
