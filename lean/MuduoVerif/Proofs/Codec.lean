import MuduoVerif.Model.Codec
import MuduoVerif.Proofs.Buffer
import MuduoVerif.Proofs.Stream
/-! Lemmas about the framing model: slices, Adler-32 range, the loop step is `StepOk`,
what `step` does on an encoded frame. -/
namespace MuduoVerif.Codec
open MuduoVerif.Stream MuduoVerif.Gen.Codec
open MuduoVerif.Buffer (encodeBE decodeBE toSigned toUnsigned intBytes intBytes_length
  int_roundtrip_bytes toUnsigned_lt toSigned_toUnsigned decode_encodeBE encodeBE_length)

/-! ### slices -/
theorem slice_append_left (buf x : Bytes) (off len : Int) (h : off.toNat + len.toNat ≤ buf.length) :
    slice (buf ++ x) off len = slice buf off len := by
  unfold slice
  rw [List.drop_append_of_le_length (by omega), List.take_append_of_le_length (by simp; omega)]

theorem asInt32_append (buf x : Bytes) (off : Int) (h : off.toNat + 4 ≤ buf.length) :
    asInt32 (buf ++ x) off = asInt32 buf off := by
  unfold asInt32
  rw [slice_append_left _ _ _ _ (by simpa using h)]

theorem slice_zero_append (a b : Bytes) : slice (a ++ b) 0 (a.length : Int) = a := by
  simp [slice]

theorem slice_skip_append (a b c : Bytes) : slice (a ++ (b ++ c)) (a.length : Int) (b.length : Int) = b := by
  simp [slice]

/-! ### Adler-32 stays below 2^32 -/
theorem adlerStep_lt (s : Nat × Nat) (b : UInt8) :
    (adlerStep s b).1 < 65536 ∧ (adlerStep s b).2 < 65536 := by
  simp only [adlerStep, adlerMod]
  constructor <;> omega

theorem adler_fold_lt (bs : Bytes) (s : Nat × Nat) (h : s.1 < 65536 ∧ s.2 < 65536) :
    (bs.foldl adlerStep s).1 < 65536 ∧ (bs.foldl adlerStep s).2 < 65536 := by
  induction bs generalizing s with
  | nil => exact h
  | cons b bs ih => exact ih _ (adlerStep_lt s b)

theorem adler32_lt (init : Nat) (h : init < 2 ^ 32) (bs : Bytes) : adler32 init bs < 2 ^ 32 := by
  unfold adler32
  have := adler_fold_lt bs (init % 65536, init / 65536) ⟨by omega, by simp only; omega⟩
  simp only
  omega

/-! ### signed 32-bit values on the wire -/
theorem toUnsigned_toSigned32 (u : Nat) (h : u < 2 ^ 32) : toUnsigned 32 (toSigned 32 u) = u := by
  unfold toSigned toUnsigned
  split
  · have : ((u : Int) % (2 ^ 32 : Int)) = u := Int.emod_eq_of_lt (by omega) (by omega)
    rw [this]; simp
  · have : (((u : Int) - 2 ^ 32) % (2 ^ 32 : Int)) = u := by
      rw [Int.sub_emod_right]; exact Int.emod_eq_of_lt (by omega) (by omega)
    rw [this]; simp

/-- the four bytes written by `appendInt32(static_cast<int32_t>(u))` read back as the same int32 -/
theorem asInt32_intBytes_signed (u : Nat) (h : u < 2 ^ 32) (pre post : Bytes) :
    asInt32 (pre ++ (intBytes 4 (toSigned 32 u) ++ post)) (pre.length : Int) = toSigned 32 u := by
  have hl : (intBytes 4 (toSigned 32 u)).length = 4 := intBytes_length _ _
  unfold asInt32
  have := slice_skip_append pre (intBytes 4 (toSigned 32 u)) post
  rw [hl] at this
  rw [show ((4 : Nat) : Int) = 4 from rfl] at this
  rw [this]
  unfold intBytes
  rw [toUnsigned_toSigned32 u h, decode_encodeBE 4 u (by omega)]

/-- a length below 2^31 written big-endian reads back as itself -/
theorem asInt32_intBytes_nat (n : Nat) (h : n < 2 ^ 31) (post : Bytes) :
    asInt32 (intBytes 4 (n : Int) ++ post) 0 = (n : Int) := by
  have hl : (intBytes 4 (n : Int)).length = 4 := intBytes_length _ _
  unfold asInt32
  have := slice_zero_append (intBytes 4 (n : Int)) post
  rw [hl] at this
  rw [show ((4 : Nat) : Int) = 4 from rfl] at this
  rw [this]
  exact int_roundtrip_bytes 4 (by omega) (n : Int) (by omega) (by omega)


/-! ### the guards, in plain arithmetic -/
theorem headerAvailable_iff (n : Nat) (c : Cfg) :
    headerAvailable n (minLen c) ↔ c.tag.length + 8 ≤ n := by
  unfold headerAvailable minLen kMinMessageLen kChecksumLen kHeaderLen; omega

theorem lenOutOfRange_iff (len : Int) (c : Cfg) :
    lenOutOfRange len (minLen c) ↔ (len > 67108864 ∨ len < (c.tag.length : Int) + 4) := by
  unfold lenOutOfRange minLen kMinMessageLen kChecksumLen kMaxMessageLen; omega

theorem frameAvailable_iff (n : Nat) (len : Int) : frameAvailable n len ↔ 4 + len ≤ (n : Int) := by
  unfold frameAvailable kHeaderLen; omega

theorem consumedBytes_eq (len : Int) : consumedBytes len = 4 + len := by
  unfold consumedBytes kHeaderLen; omega

/-- an iteration that did not ask for more bytes gives the same verdict when more bytes
follow: it never looks beyond the frame whose length field it read -/
theorem step_append (c : Cfg) (buf x : Bytes) (h : step c () buf ≠ .need) :
    step c () (buf ++ x) = step c () buf := by
  unfold step at h ⊢
  by_cases h1 : headerAvailable buf.length (minLen c)
  · have h1' : headerAvailable (buf ++ x).length (minLen c) := by
      rw [headerAvailable_iff] at h1 ⊢; simp only [List.length_append]; omega
    have h4 : 4 ≤ buf.length := by rw [headerAvailable_iff] at h1; omega
    have hlen : asInt32 (buf ++ x) 0 = asInt32 buf 0 := asInt32_append buf x 0 (by simpa using h4)
    simp only [h1, h1', if_true, hlen] at h ⊢
    by_cases h2 : lenOutOfRange (asInt32 buf 0) (minLen c)
    · simp only [h2, if_true]
    · simp only [h2, if_false] at h ⊢
      by_cases h3 : frameAvailable buf.length (asInt32 buf 0)
      · have h3' : frameAvailable (buf ++ x).length (asInt32 buf 0) := by
          rw [frameAvailable_iff] at h3 ⊢; simp only [List.length_append]; omega
        have hr : ¬ (asInt32 buf 0 < (c.tag.length : Int) + 4) := by
          rw [lenOutOfRange_iff] at h2; omega
        have hfit : (4 + asInt32 buf 0).toNat ≤ buf.length := by
          rw [frameAvailable_iff] at h3; omega
        have hs : slice (buf ++ x) frameOffset (frameLen (asInt32 buf 0))
            = slice buf frameOffset (frameLen (asInt32 buf 0)) :=
          slice_append_left _ _ _ _ (by simp only [frameOffset, frameLen, kHeaderLen]; omega)
        have ht : (buf ++ x).take (consumedBytes (asInt32 buf 0)).toNat
            = buf.take (consumedBytes (asInt32 buf 0)).toNat :=
          List.take_append_of_le_length (by rw [consumedBytes_eq]; exact hfit)
        simp only [h3, h3', if_true, hs, ht]
      · simp only [h3, if_false] at h
        exact absurd rfl h
  · simp only [h1, if_false] at h
    exact absurd rfl h

/-- every frame the loop consumes is at least 8 bytes long and lies inside the buffer -/
theorem step_adv (c : Cfg) (buf : Bytes) (evs : List Event) (k : Nat)
    (h : step c () buf = .adv () evs k) :
    k = (4 + asInt32 buf 0).toNat ∧ 8 ≤ k ∧ k ≤ buf.length ∧ k ≤ 67108868 ∧ c.tag.length + 8 ≤ k := by
  unfold step at h
  by_cases h1 : headerAvailable buf.length (minLen c)
  · simp only [h1, if_true] at h
    by_cases h2 : lenOutOfRange (asInt32 buf 0) (minLen c)
    · simp only [h2, if_true] at h; cases h
    · simp only [h2, if_false] at h
      by_cases h3 : frameAvailable buf.length (asInt32 buf 0)
      · simp only [h3, if_true] at h
        rw [lenOutOfRange_iff] at h2
        rw [frameAvailable_iff] at h3
        have hk : k = (consumedBytes (asInt32 buf 0)).toNat := by
          split at h
          · cases h; rfl
          · split at h
            · cases h; rfl
            · cases h
        rw [consumedBytes_eq] at hk
        omega
      · simp only [h3, if_false] at h; cases h
  · simp only [h1, if_false] at h; cases h

theorem stepOk (c : Cfg) : StepOk (fun _ : Unit => True) (step c) where
  adv_ok := by
    intro s buf s' evs k _ h
    obtain ⟨_, h8, hk, _, _⟩ := step_adv c buf evs k h
    exact ⟨by omega, hk, trivial⟩
  adv_mono := by
    intro s buf s' evs k x _ h
    rw [step_append c buf x (by rw [h]; intro hh; cases hh)]; exact h
  fail_mono := by
    intro s buf e x _ h
    rw [step_append c buf x (by rw [h]; intro hh; cases hh)]; exact h


/-! ### what `fillEmptyBuffer` produces, and what `step` makes of it -/

/-- everything behind the length field -/
def bodyOf (c : Cfg) (p : Bytes) : Bytes :=
  c.tag ++ p ++ intBytes 4 (checksum32 adlerInit (c.tag ++ p))

theorem encode_eq (c : Cfg) (p : Bytes) :
    encode c p = intBytes 4 ((bodyOf c p).length : Int) ++ bodyOf c p := rfl

theorem bodyOf_length (c : Cfg) (p : Bytes) : (bodyOf c p).length = c.tag.length + p.length + 4 := by
  simp only [bodyOf, List.length_append, intBytes_length]

theorem encode_length (c : Cfg) (p : Bytes) : (encode c p).length = 4 + (c.tag.length + p.length + 4) := by
  rw [encode_eq, List.length_append, intBytes_length, bodyOf_length]

theorem adlerInit_lt : adlerInit < 2 ^ 32 := by unfold adlerInit; omega

theorem validate_body (c : Cfg) (p : Bytes) : validateChecksum (bodyOf c p) = true := by
  unfold validateChecksum
  have hL := bodyOf_length c p
  have h1 : slice (bodyOf c p) checksumFrom (checksumLen ((bodyOf c p).length : Int)) = c.tag ++ p := by
    have : checksumLen ((bodyOf c p).length : Int) = ((c.tag ++ p).length : Int) := by
      unfold checksumLen kChecksumLen; simp only [List.length_append]; omega
    rw [this]
    unfold checksumFrom bodyOf
    exact slice_zero_append _ _
  have h2 : asInt32 (bodyOf c p) (checksumAt ((bodyOf c p).length : Int))
      = checksum32 adlerInit (c.tag ++ p) := by
    have : checksumAt ((bodyOf c p).length : Int) = ((c.tag ++ p).length : Int) := by
      unfold checksumAt kChecksumLen; simp only [List.length_append]; omega
    rw [this]
    have hb : bodyOf c p = (c.tag ++ p) ++ (intBytes 4 (toSigned 32 (adler32 adlerInit (c.tag ++ p))) ++ []) := by
      simp [bodyOf, checksum32]
    rw [hb]
    exact asInt32_intBytes_signed _ (adler32_lt _ adlerInit_lt _) _ _
  rw [h1, h2]
  simp

theorem tagMatches_body (c : Cfg) (p : Bytes) : tagMatches c (bodyOf c p) = true := by
  unfold tagMatches tagAt tagCmpLen bodyOf
  rw [List.append_assoc, slice_zero_append]
  simp

theorem payloadOf_body (c : Cfg) (p : Bytes) : payloadOf c (bodyOf c p) = p := by
  unfold payloadOf
  have hL := bodyOf_length c p
  have h1 : payloadAt (c.tag.length : Int) = (c.tag.length : Int) := by unfold payloadAt; omega
  have h2 : payloadLen ((bodyOf c p).length : Int) (c.tag.length : Int) = (p.length : Int) := by
    unfold payloadLen kChecksumLen; omega
  rw [h1, h2]
  unfold bodyOf
  rw [List.append_assoc]
  exact slice_skip_append _ _ _

theorem parse_body (c : Cfg) (p : Bytes) (hp : c.parsePayload p = true) :
    parse c (bodyOf c p) = .kNoError := by
  unfold parse
  rw [validate_body, tagMatches_body, payloadOf_body, hp]
  rfl

/-- the decoder's view of `encode c p ++ rest` when the frame is within the decoder's limit -/
theorem step_encode (c : Cfg) (p rest : Bytes)
    (hmax : c.tag.length + p.length + kChecksumLen ≤ kMaxMessageLen)
    (hp : c.parsePayload p = true) (hraw : c.rawSkip (encode c p) = false) :
    step c () (encode c p ++ rest) = .adv () [.msg p] (encode c p).length := by
  have hL := bodyOf_length c p
  have hmax' : c.tag.length + p.length + 4 ≤ 67108864 := by
    unfold kChecksumLen kMaxMessageLen at hmax; exact hmax
  have hlen : asInt32 (encode c p ++ rest) 0 = ((bodyOf c p).length : Int) := by
    rw [encode_eq, List.append_assoc]
    exact asInt32_intBytes_nat _ (by omega) _
  have hbl : (encode c p ++ rest).length = 4 + (c.tag.length + p.length + 4) + rest.length := by
    rw [List.length_append, encode_length]
  have h1 : headerAvailable (encode c p ++ rest).length (minLen c) := by
    rw [headerAvailable_iff]; omega
  have h2 : ¬ lenOutOfRange ((bodyOf c p).length : Int) (minLen c) := by
    rw [lenOutOfRange_iff]; omega
  have h3 : frameAvailable (encode c p ++ rest).length ((bodyOf c p).length : Int) := by
    rw [frameAvailable_iff]; omega
  have hk : (consumedBytes ((bodyOf c p).length : Int)).toNat = (encode c p).length := by
    rw [consumedBytes_eq, encode_length]; omega
  have ht : (encode c p ++ rest).take (encode c p).length = encode c p := by simp
  have hs : slice (encode c p ++ rest) frameOffset (frameLen ((bodyOf c p).length : Int)) = bodyOf c p := by
    rw [encode_eq, List.append_assoc]
    have : frameOffset = ((intBytes 4 ((bodyOf c p).length : Int)).length : Int) := by
      rw [intBytes_length]; unfold frameOffset kHeaderLen; omega
    rw [this]
    unfold frameLen
    exact slice_skip_append _ _ _
  unfold step
  simp only [hlen, h1, h2, h3, if_true, if_false, hk, ht, hraw, hs, parse_body c p hp, payloadOf_body,
    Bool.false_eq_true]

/-- F12: `fillEmptyBuffer` has no size check, so a message whose frame body exceeds
`kMaxMessageLen` (and still fits an int32) is encoded - and the decoder's range test
rejects the result -/
theorem step_encode_oversize (c : Cfg) (p rest : Bytes)
    (hbig : kMaxMessageLen < c.tag.length + p.length + kChecksumLen)
    (h31 : c.tag.length + p.length + kChecksumLen < 2 ^ 31) :
    step c () (encode c p ++ rest) = .fail (.err .kInvalidLength) := by
  have hL := bodyOf_length c p
  unfold kChecksumLen kMaxMessageLen at hbig
  unfold kChecksumLen at h31
  have hlen : asInt32 (encode c p ++ rest) 0 = ((bodyOf c p).length : Int) := by
    rw [encode_eq, List.append_assoc]
    exact asInt32_intBytes_nat _ (by omega) _
  have hbl : (encode c p ++ rest).length = 4 + (c.tag.length + p.length + 4) + rest.length := by
    rw [List.length_append, encode_length]
  have h1 : headerAvailable (encode c p ++ rest).length (minLen c) := by
    rw [headerAvailable_iff]; omega
  have h2 : lenOutOfRange ((bodyOf c p).length : Int) (minLen c) := by
    rw [lenOutOfRange_iff]; omega
  unfold step
  simp only [hlen, h1, h2, if_true]
  rfl


/-! ### the loop on whole streams -/

theorem step_short (c : Cfg) (buf : Bytes) (h : buf.length < c.tag.length + 8) : step c () buf = .need := by
  unfold step
  have : ¬ headerAvailable buf.length (minLen c) := by rw [headerAvailable_iff]; omega
  simp only [this, if_false]

theorem init_settled (c : Cfg) : Settled (fun _ : Unit => True) (step c) Codec.init :=
  ⟨trivial, Or.inr (step_short c [] (by simp only [List.length_nil]; omega))⟩

theorem decode_eq (c : Cfg) (s : Bytes) :
    decode c s = ({ s := (), buf := (onMessage c s).rest, dead := (onMessage c s).dead }, (onMessage c s).evs) := by
  simp [decode, feed, Stream.feed, Codec.init, onMessage]

theorem decode_fail (c : Cfg) (s : Bytes) (e : Event) (h : step c () s = .fail e) :
    decode c s = ({ s := (), buf := s, dead := true }, [e]) := by
  rw [decode_eq]; unfold onMessage
  rw [drain_unfold (stepOk c) () s trivial, h]

theorem decode_short (c : Cfg) (s : Bytes) (h : s.length < c.tag.length + 8) :
    decode c s = ({ s := (), buf := s, dead := false }, []) := by
  rw [decode_eq]; unfold onMessage
  rw [drain_unfold (stepOk c) () s trivial, step_short c s h]

theorem onMessage_encode_append (c : Cfg) (p rest : Bytes)
    (hmax : c.tag.length + p.length + kChecksumLen ≤ kMaxMessageLen)
    (hp : c.parsePayload p = true) (hraw : c.rawSkip (encode c p) = false) :
    onMessage c (encode c p ++ rest) = (onMessage c rest).pre [.msg p] := by
  unfold onMessage
  rw [drain_unfold (stepOk c) () _ trivial, step_encode c p rest hmax hp hraw]
  simp

theorem decode_encode_append (c : Cfg) (p rest : Bytes)
    (hmax : c.tag.length + p.length + kChecksumLen ≤ kMaxMessageLen)
    (hp : c.parsePayload p = true) (hraw : c.rawSkip (encode c p) = false) :
    decode c (encode c p ++ rest) = ((decode c rest).1, .msg p :: (decode c rest).2) := by
  rw [decode_eq, decode_eq, onMessage_encode_append c p rest hmax hp hraw]
  rfl

theorem decode_stream (c : Cfg) (ps : List Bytes) (tail : Bytes)
    (hmax : ∀ p ∈ ps, c.tag.length + p.length + kChecksumLen ≤ kMaxMessageLen)
    (hp : ∀ p ∈ ps, c.parsePayload p = true) (hraw : ∀ p ∈ ps, c.rawSkip (encode c p) = false)
    (htail : tail.length < c.tag.length + 8) :
    decode c ((ps.map (encode c)).flatten ++ tail) = ({ s := (), buf := tail, dead := false }, ps.map .msg) := by
  induction ps with
  | nil => simpa using decode_short c tail htail
  | cons p ps ih =>
    simp only [List.map_cons, List.flatten_cons, List.append_assoc]
    rw [decode_encode_append c p _ (hmax p (by simp)) (hp p (by simp)) (hraw p (by simp)),
      ih (fun q hq => hmax q (by simp [hq])) (fun q hq => hp q (by simp [hq]))
        (fun q hq => hraw q (by simp [hq]))]

/-- what an iteration can emit: an error is one of the five error codes, never `kNoError` -/
theorem step_fail_is_err (c : Cfg) (buf : Bytes) (e : Event) (h : step c () buf = .fail e) :
    ∃ code, code ≠ .kNoError ∧ e = .err code := by
  unfold step at h
  split at h
  · split at h
    · cases h; exact ⟨lengthError, by unfold lengthError; decide, rfl⟩
    · split at h
      · split at h
        · cases h
        · split at h
          · cases h
          · next e' hne => cases h; exact ⟨_, fun hh => hne hh, rfl⟩
      · cases h
  · cases h

/-- ... and progress comes with no event (raw callback dropped the frame) or one message -/
theorem step_adv_evs (c : Cfg) (buf : Bytes) (evs : List Event) (k : Nat)
    (h : step c () buf = .adv () evs k) : evs = [] ∨ ∃ p, evs = [.msg p] := by
  unfold step at h
  split at h
  · split at h
    · cases h
    · split at h
      · split at h
        · cases h; exact Or.inl rfl
        · split at h
          · cases h; exact Or.inr ⟨_, rfl⟩
          · cases h
      · cases h
  · cases h

theorem onMessage_shape (c : Cfg) : ∀ (n : Nat) (buf : Bytes), buf.length = n →
    ∃ ps : List Bytes,
      ((onMessage c buf).dead = false ∧ (onMessage c buf).evs = ps.map .msg) ∨
      ((onMessage c buf).dead = true ∧ ∃ e, e ≠ .kNoError ∧ (onMessage c buf).evs = ps.map .msg ++ [.err e]) := by
  intro n
  induction n using Nat.strongRecOn with
  | _ n ih =>
    intro buf hn
    unfold onMessage
    rw [drain_unfold (stepOk c) () buf trivial]
    cases hs : step c () buf with
    | need => exact ⟨[], Or.inl ⟨rfl, rfl⟩⟩
    | fail e =>
      obtain ⟨code, hc, rfl⟩ := step_fail_is_err c buf e hs
      exact ⟨[], Or.inr ⟨rfl, code, hc, rfl⟩⟩
    | adv s' evs k =>
      obtain ⟨_, h8, hkl, _, _⟩ := step_adv c buf evs k hs
      obtain ⟨ps, h⟩ := ih (buf.drop k).length (by simp only [List.length_drop]; omega) (buf.drop k) rfl
      unfold onMessage at h
      simp only [Res.pre_dead, Res.pre_evs]
      rcases step_adv_evs c buf evs k hs with rfl | ⟨p, rfl⟩
      · exact ⟨ps, by simpa using h⟩
      · refine ⟨p :: ps, ?_⟩
        rcases h with ⟨h1, h2⟩ | ⟨h1, e, he, h2⟩
        · exact Or.inl ⟨h1, by simp [h2]⟩
        · exact Or.inr ⟨h1, e, he, by simp [h2]⟩

theorem decode_shape (c : Cfg) (s : Bytes) :
    ∃ ps : List Bytes,
      ((decode c s).1.dead = false ∧ (decode c s).2 = ps.map .msg) ∨
      ((decode c s).1.dead = true ∧ ∃ e, e ≠ .kNoError ∧ (decode c s).2 = ps.map .msg ++ [.err e]) := by
  rw [decode_eq]
  exact onMessage_shape c _ s rfl

/-- the verdict on a consumed frame is a function of exactly the consumed bytes -/
theorem step_take (c : Cfg) (buf : Bytes) (evs : List Event) (k : Nat)
    (h : step c () buf = .adv () evs k) : step c () (buf.take k) = .adv () evs k := by
  obtain ⟨hk, h8, hkl, hmaxk, htag⟩ := step_adv c buf evs k h
  have hlenk : (buf.take k).length = k := by simp only [List.length_take]; omega
  have hsplit : buf.take k ++ buf.drop k = buf := List.take_append_drop k buf
  have hlen : asInt32 buf 0 = asInt32 (buf.take k) 0 := by
    have := asInt32_append (buf.take k) (buf.drop k) 0 (by simp only [hlenk]; omega)
    rw [hsplit] at this; exact this
  have hne : step c () (buf.take k) ≠ .need := by
    have h1 : headerAvailable (buf.take k).length (minLen c) := by rw [headerAvailable_iff, hlenk]; exact htag
    have h2 : ¬ lenOutOfRange (asInt32 (buf.take k) 0) (minLen c) := by
      rw [lenOutOfRange_iff, ← hlen]; omega
    have h3 : frameAvailable (buf.take k).length (asInt32 (buf.take k) 0) := by
      rw [frameAvailable_iff, hlenk, ← hlen]; omega
    unfold step
    simp only [h1, h2, h3, if_true, if_false]
    split
    · intro hh; cases hh
    · split <;> (intro hh; cases hh)
  have := step_append c (buf.take k) (buf.drop k) hne
  rw [hsplit] at this
  rw [← this]; exact h

/-! ### arbitrary frames: what each of `parse`'s tests means on the bytes -/

/-- a length field announcing `body`, then `body` -/
def frame (body : Bytes) : Bytes := intBytes 4 (body.length : Int) ++ body

/-- the signed big-endian value in the last four bytes of the frame body -/
def storedChecksum (body : Bytes) : Int := toSigned 32 (decodeBE (body.drop (body.length - 4)))
/-- `(int32_t) adler32(1, ...)` of everything before them -/
def computedChecksum (body : Bytes) : Int := checksum32 1 (body.take (body.length - 4))

theorem validateChecksum_iff (body : Bytes) (h4 : 4 ≤ body.length) :
    validateChecksum body = true ↔ storedChecksum body = computedChecksum body := by
  unfold validateChecksum storedChecksum computedChecksum asInt32 slice checksumFrom checksumLen checksumAt
    kChecksumLen adlerInit
  have e1 : (((body.length : Int) - ((4 : Nat) : Int))).toNat = body.length - 4 := by omega
  have e2 : ((0 : Int) + (body.length : Int) - ((4 : Nat) : Int)).toNat = body.length - 4 := by omega
  have e3 : ((4 : Int)).toNat = 4 := rfl
  have e0 : ((0 : Int)).toNat = 0 := rfl
  rw [e1, e2, e3, e0, List.drop_zero]
  have : (body.drop (body.length - 4)).take 4 = body.drop (body.length - 4) :=
    List.take_of_length_le (by simp only [List.length_drop]; omega)
  rw [this]
  constructor
  · intro h; exact (beq_iff_eq.mp h).symm
  · intro h; exact beq_iff_eq.mpr h.symm

theorem tagMatches_iff (c : Cfg) (body : Bytes) :
    tagMatches c body = true ↔ body.take c.tag.length = c.tag := by
  unfold tagMatches slice tagAt tagCmpLen
  simp

theorem payloadOf_eq (c : Cfg) (body : Bytes) :
    payloadOf c body = (body.drop c.tag.length).take (body.length - 4 - c.tag.length) := by
  unfold payloadOf slice payloadAt payloadLen kChecksumLen
  have e1 : ((0 : Int) + (c.tag.length : Int)).toNat = c.tag.length := by omega
  have e2 : ((body.length : Int) - ((4 : Nat) : Int) - (c.tag.length : Int)).toNat
      = body.length - 4 - c.tag.length := by omega
  rw [e1, e2]

/-- one iteration on a complete frame whose length field is in range -/
theorem step_frame (c : Cfg) (body rest : Bytes)
    (hmin : c.tag.length + kChecksumLen ≤ body.length) (hmax : body.length ≤ kMaxMessageLen)
    (hraw : c.rawSkip (frame body) = false) :
    step c () (frame body ++ rest) =
      match parse c body with
      | .kNoError => .adv () [.msg (payloadOf c body)] (4 + body.length)
      | e => .fail (.err e) := by
  unfold kChecksumLen at hmin
  unfold kMaxMessageLen at hmax
  have hfl : (frame body).length = 4 + body.length := by
    simp only [frame, List.length_append, intBytes_length]
  have hlen : asInt32 (frame body ++ rest) 0 = (body.length : Int) := by
    unfold frame; rw [List.append_assoc]
    exact asInt32_intBytes_nat _ (by omega) _
  have hbl : (frame body ++ rest).length = 4 + body.length + rest.length := by
    rw [List.length_append, hfl]
  have h1 : headerAvailable (frame body ++ rest).length (minLen c) := by
    rw [headerAvailable_iff]; omega
  have h2 : ¬ lenOutOfRange (body.length : Int) (minLen c) := by
    rw [lenOutOfRange_iff]; omega
  have h3 : frameAvailable (frame body ++ rest).length (body.length : Int) := by
    rw [frameAvailable_iff]; omega
  have hk : (consumedBytes (body.length : Int)).toNat = 4 + body.length := by
    rw [consumedBytes_eq]; omega
  have ht : (frame body ++ rest).take (4 + body.length) = frame body := by
    rw [← hfl]; simp
  have hs : slice (frame body ++ rest) frameOffset (frameLen (body.length : Int)) = body := by
    unfold frame; rw [List.append_assoc]
    have : frameOffset = ((intBytes 4 (body.length : Int)).length : Int) := by
      rw [intBytes_length]; unfold frameOffset kHeaderLen; omega
    rw [this]
    unfold frameLen
    exact slice_skip_append _ _ _
  unfold step
  simp only [hlen, h1, h2, h3, if_true, if_false, hk, ht, hraw, hs, Bool.false_eq_true]
  cases parse c body <;> rfl

theorem step_bad_length (c : Cfg) (stream : Bytes) (h : c.tag.length + 8 ≤ stream.length)
    (hr : asInt32 stream 0 > (kMaxMessageLen : Int) ∨ asInt32 stream 0 < (c.tag.length : Int) + kChecksumLen) :
    step c () stream = .fail (.err .kInvalidLength) := by
  unfold kMaxMessageLen kChecksumLen at hr
  have h1 : headerAvailable stream.length (minLen c) := by rw [headerAvailable_iff]; exact h
  have h2 : lenOutOfRange (asInt32 stream 0) (minLen c) := by rw [lenOutOfRange_iff]; omega
  unfold step
  simp only [h1, h2, if_true]
  rfl

theorem step_frame_checksum (c : Cfg) (body rest : Bytes)
    (hmin : c.tag.length + kChecksumLen ≤ body.length) (hmax : body.length ≤ kMaxMessageLen)
    (hraw : c.rawSkip (frame body) = false) (hck : storedChecksum body ≠ computedChecksum body) :
    step c () (frame body ++ rest) = .fail (.err .kCheckSumError) := by
  have h4 : 4 ≤ body.length := by unfold kChecksumLen at hmin; omega
  have hv : validateChecksum body = false := by
    cases hh : validateChecksum body with
    | false => rfl
    | true => exact absurd ((validateChecksum_iff body h4).mp hh) hck
  rw [step_frame c body rest hmin hmax hraw]
  simp only [parse, parseDecision, hv, Bool.false_eq_true, if_false]

theorem step_frame_tag (c : Cfg) (body rest : Bytes)
    (hmin : c.tag.length + kChecksumLen ≤ body.length) (hmax : body.length ≤ kMaxMessageLen)
    (hraw : c.rawSkip (frame body) = false) (hck : storedChecksum body = computedChecksum body)
    (htag : body.take c.tag.length ≠ c.tag) :
    step c () (frame body ++ rest) = .fail (.err .kUnknownMessageType) := by
  have h4 : 4 ≤ body.length := by unfold kChecksumLen at hmin; omega
  have hv : validateChecksum body = true := (validateChecksum_iff body h4).mpr hck
  have ht : tagMatches c body = false := by
    cases hh : tagMatches c body with
    | false => rfl
    | true => exact absurd ((tagMatches_iff c body).mp hh) htag
  rw [step_frame c body rest hmin hmax hraw]
  simp only [parse, parseDecision, hv, ht, Bool.false_eq_true, if_true, if_false]

theorem step_frame_parse (c : Cfg) (body rest : Bytes)
    (hmin : c.tag.length + kChecksumLen ≤ body.length) (hmax : body.length ≤ kMaxMessageLen)
    (hraw : c.rawSkip (frame body) = false) (hck : storedChecksum body = computedChecksum body)
    (htag : body.take c.tag.length = c.tag)
    (hp : c.parsePayload ((body.drop c.tag.length).take (body.length - 4 - c.tag.length)) = false) :
    step c () (frame body ++ rest) = .fail (.err .kParseError) := by
  have h4 : 4 ≤ body.length := by unfold kChecksumLen at hmin; omega
  have hv : validateChecksum body = true := (validateChecksum_iff body h4).mpr hck
  have ht : tagMatches c body = true := (tagMatches_iff c body).mpr htag
  rw [step_frame c body rest hmin hmax hraw]
  simp only [parse, parseDecision, hv, ht, payloadOf_eq, hp, Bool.false_eq_true, if_true, if_false]

theorem step_frame_good (c : Cfg) (body rest : Bytes)
    (hmin : c.tag.length + kChecksumLen ≤ body.length) (hmax : body.length ≤ kMaxMessageLen)
    (hraw : c.rawSkip (frame body) = false) (hck : storedChecksum body = computedChecksum body)
    (htag : body.take c.tag.length = c.tag)
    (hp : c.parsePayload ((body.drop c.tag.length).take (body.length - 4 - c.tag.length)) = true) :
    step c () (frame body ++ rest)
      = .adv () [.msg ((body.drop c.tag.length).take (body.length - 4 - c.tag.length))] (4 + body.length) := by
  have h4 : 4 ≤ body.length := by unfold kChecksumLen at hmin; omega
  have hv : validateChecksum body = true := (validateChecksum_iff body h4).mpr hck
  have ht : tagMatches c body = true := (tagMatches_iff c body).mpr htag
  rw [step_frame c body rest hmin hmax hraw]
  simp only [parse, parseDecision, hv, ht, payloadOf_eq, hp, if_true]

end MuduoVerif.Codec
