import MuduoVerif.Proofs.RpcOnce
/-! The serving side: every REQUEST gets exactly one reply, the right one (`SrvInv`); the done-callbacks
(`NoUafInv` under the hypothesis on the service); what a halt means (`HaltInv`). -/
namespace MuduoVerif.Rpc
open MuduoVerif.Gen.Rpc

/-! ### counting -/
def isReply (r : Nat) : Ev → Bool
  | .reply r' _ _ _ => decide (r' = r)
  | _ => false

def isDispatch (r : Nat) : Ev → Bool
  | .dispatch r' _ => decide (r' = r)
  | _ => false

def isFreeSrv (r : Nat) : Ev → Bool
  | .free (.srvResp r') => decide (r' = r)
  | _ => false

/-- RESPONSE frames that answer request number `r` -/
def replyCount (r : Nat) (log : List Ev) : Nat := log.countP (isReply r)
/-- `service->CallMethod` invocations for request number `r` -/
def dispatchCount (r : Nat) (log : List Ev) : Nat := log.countP (isDispatch r)
def freeSrvCount (r : Nat) (log : List Ev) : Nat := log.countP (isFreeSrv r)
/-- done-callbacks of request `r` that the service still holds -/
def held (r : Nat) (cl : List (Nat × Nat × Nat)) : Nat := cl.countP (fun c => decide (c.1 = r))

theorem replyCount_cons (r : Nat) (e : Ev) (log : List Ev) :
    replyCount r (e :: log) = (if isReply r e then 1 else 0) + replyCount r log := by
  unfold replyCount; rw [List.countP_cons]; omega
theorem dispatchCount_cons (r : Nat) (e : Ev) (log : List Ev) :
    dispatchCount r (e :: log) = (if isDispatch r e then 1 else 0) + dispatchCount r log := by
  unfold dispatchCount; rw [List.countP_cons]; omega
theorem freeSrvCount_cons (r : Nat) (e : Ev) (log : List Ev) :
    freeSrvCount r (e :: log) = (if isFreeSrv r e then 1 else 0) + freeSrvCount r log := by
  unfold freeSrvCount; rw [List.countP_cons]; omega
theorem held_cons (r : Nat) (c : Nat × Nat × Nat) (cl : List (Nat × Nat × Nat)) :
    held r (c :: cl) = (if c.1 = r then 1 else 0) + held r cl := by
  unfold held; rw [List.countP_cons]; simp; omega

theorem held_filter_self (r : Nat) (cl : List (Nat × Nat × Nat)) :
    held r (cl.filter (fun c => c.1 ≠ r)) = 0 := by
  unfold held
  rw [List.countP_eq_zero]
  intro c hc
  rw [List.mem_filter] at hc
  simpa using hc.2

theorem held_filter_other (r r' : Nat) (cl : List (Nat × Nat × Nat)) (h : r' ≠ r) :
    held r' (cl.filter (fun c => c.1 ≠ r)) = held r' cl := by
  unfold held
  rw [List.countP_filter]
  congr 1
  funext c
  by_cases hc : c.1 = r'
  · have : c.1 ≠ r := fun h' => h (hc.symm.trans h')
    simp [hc, h]
  · simp [hc]

theorem held_pos {r : Nat} {cl : List (Nat × Nat × Nat)} {c : Nat × Nat × Nat} (hc : c ∈ cl) (hr : c.1 = r) :
    0 < held r cl := by
  unfold held
  rw [List.countP_pos_iff]
  exact ⟨c, hc, by simp [hr]⟩

theorem held_zero {r : Nat} {cl : List (Nat × Nat × Nat)} (h : held r cl = 0) : ∀ c ∈ cl, c.1 ≠ r := by
  intro c hc hr
  have := held_pos hc hr
  omega

/-- events that are not the serving side's -/
def Ev.callSide : Ev → Bool
  | .reply .. => false
  | .dispatch .. => false
  | .free (.srvResp _) => false
  | .uaf _ => false
  | _ => true

theorem expected_some {hs : Bool} {m : Msg} {p : Nat} {e : Option ErrorCode} (h : expected hs m = (some p, e)) :
    e = none ∧ m.request.parse = some p ∧ m.meth.isSome = true ∧ m.serviceFound = true ∧ hs = true := by
  obtain ⟨ty, id, pl, er, sf, me, rq⟩ := m
  cases hs <;> cases sf <;> cases me <;> cases rq <;> simp [expected, Body.parse] at h ⊢
  · exact ⟨h.2.symm, h.1⟩

/-! ### the invariant -/
structure SrvInv (s : Chan) : Prop where
  unborn : ∀ r, s.nextReq ≤ r → s.reqs r = none ∧ replyCount r s.log = 0 ∧ dispatchCount r s.log = 0 ∧
    freeSrvCount r s.log = 0 ∧ held r s.closures = 0
  known : ∀ r, r < s.nextReq → ∃ m, s.reqs r = some m ∧ m.type = .REQUEST ∧ .arrived m ∈ s.log
  one : ∀ r, r < s.nextReq → replyCount r s.log + held r s.closures = 1
  clos : ∀ c ∈ s.closures, ∃ m, s.reqs c.1 = some m ∧ c.2.1 = m.id ∧
    expected s.hasServices m = (some c.2.2, none) ∧ m.meth = some .defer
  rep : ∀ r id p e, .reply r id p e ∈ s.log → ∃ m, s.reqs r = some m ∧ id = m.id ∧ expected s.hasServices m = (p, e)
  disp : ∀ r m, s.reqs r = some m →
    dispatchCount r s.log = (if (expected s.hasServices m).1.isSome then 1 else 0) ∧
    ∀ p, .dispatch r p ∈ s.log → m.request.parse = some p
  freeSrv : ∀ r, freeSrvCount r s.log ≤ replyCount r s.log
  /-- every REQUEST that was handled has a number -/
  numbered : ∀ m, .arrived m ∈ s.log → m.type = .REQUEST → ∃ r, s.reqs r = some m

theorem SrvInv.init (a h : Bool) : SrvInv (init a h) := by
  constructor <;> simp [MuduoVerif.Rpc.init, replyCount, dispatchCount, freeSrvCount, held]

theorem SrvInv.lt_of_req {s : Chan} (si : SrvInv s) {r : Nat} {m : Msg} (h : s.reqs r = some m) : r < s.nextReq := by
  apply Nat.lt_of_not_le
  intro hle
  rw [(si.unborn r hle).1] at h
  cases h

/-- a step of the caller side (or a second invocation of a done-callback): nothing of the serving side moves -/
structure CallStep (s s' : Chan) : Prop where
  log : ∃ evs, s'.log = evs ++ s.log ∧ ∀ e ∈ evs, e.callSide = true ∧ ∀ m, e = .arrived m → m.type ≠ .REQUEST
  closures : s'.closures = s.closures
  reqs : s'.reqs = s.reqs
  nextReq : s'.nextReq = s.nextReq
  hasServices : s'.hasServices = s.hasServices

theorem CallStep.refl (s : Chan) : CallStep s s := ⟨⟨[], rfl, by simp⟩, rfl, rfl, rfl, rfl⟩

theorem SrvInv.ext_step {s s' : Chan} (si : SrvInv s) (evs : List Ev) (hl : s'.log = evs ++ s.log)
    (hev : ∀ e ∈ evs, (e.callSide = true ∧ ∀ m, e = .arrived m → m.type ≠ .REQUEST) ∨ ∃ c, e = .uaf c)
    (hc : s'.closures = s.closures) (hr : s'.reqs = s.reqs) (hn : s'.nextReq = s.nextReq)
    (hh : s'.hasServices = s.hasServices) : SrvInv s' := by
  have hrep : ∀ r, replyCount r s'.log = replyCount r s.log := fun r => by
    rw [hl]; unfold replyCount; apply countP_ext_zero
    intro e he
    rcases hev e he with ⟨h, _⟩ | ⟨c, h⟩
    · cases e <;> simp_all [Ev.callSide, isReply]
    · rw [h]; rfl
  have hdis : ∀ r, dispatchCount r s'.log = dispatchCount r s.log := fun r => by
    rw [hl]; unfold dispatchCount; apply countP_ext_zero
    intro e he
    rcases hev e he with ⟨h, _⟩ | ⟨c, h⟩
    · cases e <;> simp_all [Ev.callSide, isDispatch]
    · rw [h]; rfl
  have hfre : ∀ r, freeSrvCount r s'.log = freeSrvCount r s.log := fun r => by
    rw [hl]; unfold freeSrvCount; apply countP_ext_zero
    intro e he
    rcases hev e he with ⟨h, _⟩ | ⟨c, h⟩
    · cases e with
      | free c => cases c <;> simp_all [Ev.callSide, isFreeSrv]
      | _ => simp_all [Ev.callSide, isFreeSrv]
    · rw [h]; rfl
  have hmem : ∀ e, e ∈ s.log → e ∈ s'.log := fun e he => by rw [hl]; exact List.mem_append_right _ he
  have hmem' : ∀ e, e.callSide = false → (∀ c, e ≠ .uaf c) → e ∈ s'.log → e ∈ s.log := fun e hf hu he => by
    rw [hl] at he
    rcases List.mem_append.mp he with h | h
    · rcases hev e h with ⟨h', _⟩ | ⟨c, h'⟩
      · rw [h'] at hf; cases hf
      · exact absurd h' (hu c)
    · exact h
  constructor
  · intro r hle
    rw [hn] at hle
    rw [hr, hrep, hdis, hfre, hc]
    exact si.unborn r hle
  · intro r hlt
    rw [hn] at hlt
    obtain ⟨m, a, b, c⟩ := si.known r hlt
    exact ⟨m, by rw [hr]; exact a, b, hmem _ c⟩
  · intro r hlt
    rw [hn] at hlt
    rw [hrep, hc]; exact si.one r hlt
  · intro c hcm
    rw [hc] at hcm
    rw [hr, hh]; exact si.clos c hcm
  · intro r id p e he
    rw [hr, hh]
    exact si.rep r id p e (hmem' _ rfl (fun c h => by cases h) he)
  · intro r m hm
    rw [hr] at hm
    rw [hdis, hh]
    refine ⟨(si.disp r m hm).1, ?_⟩
    intro p hp
    exact (si.disp r m hm).2 p (hmem' _ rfl (fun c h => by cases h) hp)
  · intro r
    rw [hfre, hrep]; exact si.freeSrv r
  · intro m hm ht
    rw [hr]
    rw [hl] at hm
    rcases List.mem_append.mp hm with h | h
    · rcases hev _ h with ⟨_, h'⟩ | ⟨c, h'⟩
      · exact absurd ht (h' m rfl)
      · cases h'
    · exact si.numbered m h ht

theorem SrvInv.call {s s' : Chan} (si : SrvInv s) (h : CallStep s s') : SrvInv s' := by
  obtain ⟨evs, hl, hev⟩ := h.log
  exact si.ext_step evs hl (fun e he => Or.inl (hev e he)) h.closures h.reqs h.nextReq h.hasServices

/-! ### the caller-side steps are `CallStep`s -/
theorem CallStep.callBegin (s : Chan) : CallStep s (callBegin s) := ⟨⟨[], rfl, by simp⟩, rfl, rfl, rfl, rfl⟩

theorem CallStep.callInsert (s : Chan) (k : Nat) : CallStep s (callInsert s k) := by
  unfold MuduoVerif.Rpc.callInsert
  split <;> split <;> first | exact CallStep.refl s | exact ⟨⟨[], rfl, by simp⟩, rfl, rfl, rfl, rfl⟩

theorem CallStep.callSend (s : Chan) (k : Nat) : CallStep s (callSend s k) := by
  unfold MuduoVerif.Rpc.callSend
  split <;> split <;> first
    | exact CallStep.refl s
    | exact ⟨⟨[.sent (s.idOf k) k], rfl, by simp [Ev.callSide]⟩, rfl, rfl, rfl, rfl⟩

theorem CallStep.recvResponse (s : Chan) (m : Msg) (ht : m.type ≠ .REQUEST) : CallStep s (recvResponse s m) := by
  unfold MuduoVerif.Rpc.recvResponse
  split
  · exact ⟨⟨[.abort, .arrived m], rfl, by simp [Ev.callSide, ht]⟩, rfl, rfl, rfl, rfl⟩
  · split
    · exact ⟨⟨[.arrived m], rfl, by simp [Ev.callSide, ht]⟩, rfl, rfl, rfl, rfl⟩
    · exact ⟨⟨[.arrived m], rfl, by simp [Ev.callSide, ht]⟩, rfl, rfl, rfl, rfl⟩

theorem CallStep.finish (s : Chan) : CallStep s (finish s) := by
  unfold MuduoVerif.Rpc.finish
  split
  · exact CallStep.refl s
  next k m _ =>
    refine ⟨⟨_, rfl, ?_⟩, rfl, rfl, rfl, rfl⟩
    intro e he
    simp only [List.mem_append, List.mem_replicate] at he
    rcases he with (⟨_, he⟩ | ⟨_, he⟩) | he
    · rw [he]; exact ⟨rfl, fun _ h => by cases h⟩
    · rw [he]; exact ⟨rfl, fun _ h => by cases h⟩
    · split at he
      · simp at he; rw [he]; exact ⟨rfl, fun _ h => by cases h⟩
      · cases he

theorem CallStep.other (s : Chan) (m : Msg) (ht : m.type ≠ .REQUEST) : CallStep s { s with log := .arrived m :: s.log } :=
  ⟨⟨[.arrived m], rfl, by simp [Ev.callSide, ht]⟩, rfl, rfl, rfl, rfl⟩

/-! ### a REQUEST arrives -/
theorem SrvInv.recvRequest {s : Chan} (si : SrvInv s) (m : Msg) (ht : m.type = .REQUEST) : SrvInv (recvRequest s m) := by
  obtain ⟨hu1, hu2, hu3, hu4, hu5⟩ := si.unborn s.nextReq (Nat.le_refl _)
  have hreq : ∀ r mm, setAt s.reqs s.nextReq (some m) r = some mm → (r = s.nextReq ∧ mm = m) ∨ (r ≠ s.nextReq ∧ s.reqs r = some mm) := by
    intro r mm h
    by_cases hr : r = s.nextReq
    · subst hr; rw [setAt_same] at h; injection h with h; exact Or.inl ⟨rfl, h.symm⟩
    · rw [setAt_other _ _ _ _ hr] at h; exact Or.inr ⟨hr, h⟩
  have hne_of_req : ∀ r mm, s.reqs r = some mm → r ≠ s.nextReq := by
    intro r mm h hr; subst hr; rw [hu1] at h; cases h
  have hclos_ne : ∀ c ∈ s.closures, c.1 ≠ s.nextReq := held_zero hu5
  -- the parts that do not depend on the branch
  have hunborn : ∀ (log' : List Ev) (cl' : List (Nat × Nat × Nat)),
      (∀ r, r ≠ s.nextReq → replyCount r log' = replyCount r s.log ∧ dispatchCount r log' = dispatchCount r s.log ∧
        freeSrvCount r log' = freeSrvCount r s.log ∧ held r cl' = held r s.closures) →
      ∀ r, s.nextReq + 1 ≤ r → setAt s.reqs s.nextReq (some m) r = none ∧ replyCount r log' = 0 ∧ dispatchCount r log' = 0 ∧
        freeSrvCount r log' = 0 ∧ held r cl' = 0 := by
    intro log' cl' hcnt r hle
    have hr : r ≠ s.nextReq := by omega
    obtain ⟨a, b, c, d⟩ := hcnt r hr
    rw [setAt_other _ _ _ _ hr, a, b, c, d]
    exact si.unborn r (by omega)
  have hknown : ∀ (log' : List Ev), (∀ e, e ∈ s.log → e ∈ log') → .arrived m ∈ log' →
      ∀ r, r < s.nextReq + 1 → ∃ mm, setAt s.reqs s.nextReq (some m) r = some mm ∧ mm.type = .REQUEST ∧ .arrived mm ∈ log' := by
    intro log' hmono harr r hlt
    by_cases hr : r = s.nextReq
    · subst hr; exact ⟨m, setAt_same _ _ _, ht, harr⟩
    · obtain ⟨mm, a, b, c⟩ := si.known r (by omega)
      exact ⟨mm, by rw [setAt_other _ _ _ _ hr]; exact a, b, hmono _ c⟩
  have hclos_old : ∀ c ∈ s.closures, ∃ mm, setAt s.reqs s.nextReq (some m) c.1 = some mm ∧ c.2.1 = mm.id ∧
      expected s.hasServices mm = (some c.2.2, none) ∧ mm.meth = some .defer := by
    intro c hc
    obtain ⟨mm, a, b⟩ := si.clos c hc
    exact ⟨mm, by rw [setAt_other _ _ _ _ (hclos_ne c hc)]; exact a, b⟩
  have hrep_old : ∀ r id p e, Ev.reply r id p e ∈ s.log → ∃ mm, setAt s.reqs s.nextReq (some m) r = some mm ∧ id = mm.id ∧
      expected s.hasServices mm = (p, e) := by
    intro r id p e he
    obtain ⟨mm, a, b⟩ := si.rep r id p e he
    exact ⟨mm, by rw [setAt_other _ _ _ _ (hne_of_req r mm a)]; exact a, b⟩
  have hnum : ∀ (log' : List Ev), (∀ mm, Ev.arrived mm ∈ log' → mm = m ∨ Ev.arrived mm ∈ s.log) →
      ∀ mm, Ev.arrived mm ∈ log' → mm.type = .REQUEST → ∃ r, setAt s.reqs s.nextReq (some m) r = some mm := by
    intro log' hsub mm hmm htt
    rcases hsub mm hmm with h1 | h1
    · subst h1; exact ⟨s.nextReq, setAt_same _ _ _⟩
    · obtain ⟨r, hr⟩ := si.numbered mm h1 htt
      exact ⟨r, by rw [setAt_other _ _ _ _ (hne_of_req r mm hr)]; exact hr⟩
  have hdisp0 : ∀ p, Ev.dispatch s.nextReq p ∉ s.log := by
    intro p hp
    have : 0 < dispatchCount s.nextReq s.log := by
      unfold dispatchCount; rw [List.countP_pos_iff]; exact ⟨_, hp, by simp [isDispatch]⟩
    omega
  rcases expected_cases s.hasServices m with ⟨code, h⟩ | ⟨p, h, hm | hm⟩
  · -- an error reply
    rw [recvRequest_err s m code h]
    have hcnt : ∀ r, r ≠ s.nextReq →
        replyCount r (Ev.reply s.nextReq m.id none (some code) :: Ev.arrived m :: s.log) = replyCount r s.log ∧
        dispatchCount r (Ev.reply s.nextReq m.id none (some code) :: Ev.arrived m :: s.log) = dispatchCount r s.log ∧
        freeSrvCount r (Ev.reply s.nextReq m.id none (some code) :: Ev.arrived m :: s.log) = freeSrvCount r s.log ∧
        held r s.closures = held r s.closures := by
      intro r hr
      have : ¬ s.nextReq = r := fun h' => hr h'.symm
      simp [replyCount_cons, dispatchCount_cons, freeSrvCount_cons, isReply, isDispatch, isFreeSrv, this]
    constructor
    · exact hunborn _ _ hcnt
    · exact hknown _ (fun e he => List.mem_cons_of_mem _ (List.mem_cons_of_mem _ he)) (by simp)
    · intro r hlt
      show replyCount r (_ :: _ :: s.log) + held r s.closures = 1
      by_cases hr : r = s.nextReq
      · subst hr
        simp [replyCount_cons, isReply, hu2, hu5]
      · rw [(hcnt r hr).1]; exact si.one r (by have : r < s.nextReq + 1 := hlt; omega)
    · exact hclos_old
    · intro r id p e he
      have he' : Ev.reply r id p e ∈ Ev.reply s.nextReq m.id none (some code) :: Ev.arrived m :: s.log := he
      rcases List.mem_cons.mp he' with h1 | h1
      · injection h1 with e1 e2 e3 e4
        subst e1; subst e2; subst e3; subst e4
        exact ⟨m, setAt_same _ _ _, rfl, h⟩
      · rcases List.mem_cons.mp h1 with h2 | h2
        · cases h2
        · exact hrep_old r id p e h2
    · intro r mm hmm
      show dispatchCount r (_ :: _ :: s.log) = _ ∧ ∀ p, Ev.dispatch r p ∈ (_ :: _ :: s.log) → _
      rcases hreq r mm hmm with ⟨hr, hmm'⟩ | ⟨hr, hold⟩
      · subst hr; subst hmm'
        refine ⟨by simp [dispatchCount_cons, isDispatch, hu3, h], ?_⟩
        intro p hp
        simp only [List.mem_cons] at hp
        rcases hp with hp | hp | hp
        · cases hp
        · cases hp
        · exact absurd hp (hdisp0 p)
      · rw [(hcnt r hr).2.1]
        refine ⟨(si.disp r mm hold).1, ?_⟩
        intro p hp
        simp only [List.mem_cons] at hp
        rcases hp with hp | hp | hp
        · cases hp
        · cases hp
        · exact (si.disp r mm hold).2 p hp
    · intro r
      show freeSrvCount r (_ :: _ :: s.log) ≤ replyCount r (_ :: _ :: s.log)
      have := si.freeSrv r
      simp only [replyCount_cons, freeSrvCount_cons, isReply, isFreeSrv]
      by_cases hh : s.nextReq = r <;> simp [hh] <;> omega
    · refine hnum _ ?_
      intro mm hmm
      simp only [List.mem_cons] at hmm
      rcases hmm with h1 | h1 | h1
      · cases h1
      · injection h1 with h1; exact Or.inl h1
      · exact Or.inr h1
  · -- the service answers inside `CallMethod`
    rw [recvRequest_sync s m p h hm]
    have hcnt : ∀ r, r ≠ s.nextReq →
        replyCount r (Ev.free (.srvResp s.nextReq) :: Ev.reply s.nextReq m.id (some p) none :: Ev.dispatch s.nextReq p :: Ev.arrived m :: s.log) = replyCount r s.log ∧
        dispatchCount r (Ev.free (.srvResp s.nextReq) :: Ev.reply s.nextReq m.id (some p) none :: Ev.dispatch s.nextReq p :: Ev.arrived m :: s.log) = dispatchCount r s.log ∧
        freeSrvCount r (Ev.free (.srvResp s.nextReq) :: Ev.reply s.nextReq m.id (some p) none :: Ev.dispatch s.nextReq p :: Ev.arrived m :: s.log) = freeSrvCount r s.log ∧
        held r s.closures = held r s.closures := by
      intro r hr
      have : ¬ s.nextReq = r := fun h' => hr h'.symm
      simp [replyCount_cons, dispatchCount_cons, freeSrvCount_cons, isReply, isDispatch, isFreeSrv, this]
    constructor
    · exact hunborn _ _ hcnt
    · exact hknown _ (fun e he => by simp [he]) (by simp)
    · intro r hlt
      show replyCount r (_ :: _ :: _ :: _ :: s.log) + held r s.closures = 1
      by_cases hr : r = s.nextReq
      · subst hr
        simp [replyCount_cons, isReply, hu2, hu5]
      · rw [(hcnt r hr).1]; exact si.one r (by have : r < s.nextReq + 1 := hlt; omega)
    · exact hclos_old
    · intro r id p' e he
      have he' : Ev.reply r id p' e ∈ Ev.free (.srvResp s.nextReq) :: Ev.reply s.nextReq m.id (some p) none :: Ev.dispatch s.nextReq p :: Ev.arrived m :: s.log := he
      simp only [List.mem_cons] at he'
      rcases he' with h1 | h1 | h1 | h1 | h1
      · cases h1
      · injection h1 with e1 e2 e3 e4
        subst e1; subst e2; subst e3; subst e4
        exact ⟨m, setAt_same _ _ _, rfl, h⟩
      · cases h1
      · cases h1
      · exact hrep_old r id p' e h1
    · intro r mm hmm
      show dispatchCount r (_ :: _ :: _ :: _ :: s.log) = _ ∧ ∀ p', Ev.dispatch r p' ∈ (_ :: _ :: _ :: _ :: s.log) → _
      rcases hreq r mm hmm with ⟨hr, hmm'⟩ | ⟨hr, hold⟩
      · subst hr; subst hmm'
        refine ⟨by simp [dispatchCount_cons, isDispatch, hu3, h], ?_⟩
        intro p' hp
        simp only [List.mem_cons] at hp
        rcases hp with hp | hp | hp | hp | hp
        · cases hp
        · cases hp
        · injection hp with _ e2
          subst e2
          exact (expected_some h).2.1
        · cases hp
        · exact absurd hp (hdisp0 p')
      · rw [(hcnt r hr).2.1]
        refine ⟨(si.disp r mm hold).1, ?_⟩
        intro p' hp
        simp only [List.mem_cons] at hp
        rcases hp with hp | hp | hp | hp | hp
        · cases hp
        · cases hp
        · injection hp with e1 _
          exact absurd e1 hr
        · cases hp
        · exact (si.disp r mm hold).2 p' hp
    · intro r
      show freeSrvCount r (_ :: _ :: _ :: _ :: s.log) ≤ replyCount r (_ :: _ :: _ :: _ :: s.log)
      have := si.freeSrv r
      simp only [replyCount_cons, freeSrvCount_cons, isReply, isFreeSrv]
      by_cases hh : s.nextReq = r <;> simp [hh] <;> omega
    · refine hnum _ ?_
      intro mm hmm
      simp only [List.mem_cons] at hmm
      rcases hmm with h1 | h1 | h1 | h1 | h1
      · cases h1
      · cases h1
      · cases h1
      · injection h1 with h1; exact Or.inl h1
      · exact Or.inr h1
  · -- the service keeps the done-callback
    rw [recvRequest_defer s m p h hm]
    have hcnt : ∀ r, r ≠ s.nextReq →
        replyCount r (Ev.dispatch s.nextReq p :: Ev.arrived m :: s.log) = replyCount r s.log ∧
        dispatchCount r (Ev.dispatch s.nextReq p :: Ev.arrived m :: s.log) = dispatchCount r s.log ∧
        freeSrvCount r (Ev.dispatch s.nextReq p :: Ev.arrived m :: s.log) = freeSrvCount r s.log ∧
        held r ((s.nextReq, m.id, p) :: s.closures) = held r s.closures := by
      intro r hr
      have : ¬ s.nextReq = r := fun h' => hr h'.symm
      simp [replyCount_cons, dispatchCount_cons, freeSrvCount_cons, held_cons, isReply, isDispatch, isFreeSrv, this]
    constructor
    · exact hunborn _ _ hcnt
    · exact hknown _ (fun e he => by simp [he]) (by simp)
    · intro r hlt
      show replyCount r (_ :: _ :: s.log) + held r (_ :: s.closures) = 1
      by_cases hr : r = s.nextReq
      · subst hr
        simp [replyCount_cons, held_cons, isReply, hu2, hu5]
      · rw [(hcnt r hr).1, (hcnt r hr).2.2.2]; exact si.one r (by have : r < s.nextReq + 1 := hlt; omega)
    · intro c hc
      have hc' : c ∈ (s.nextReq, m.id, p) :: s.closures := hc
      rcases List.mem_cons.mp hc' with h1 | h1
      · subst h1
        exact ⟨m, setAt_same _ _ _, rfl, h, hm⟩
      · exact hclos_old c h1
    · intro r id p' e he
      have he' : Ev.reply r id p' e ∈ Ev.dispatch s.nextReq p :: Ev.arrived m :: s.log := he
      simp only [List.mem_cons] at he'
      rcases he' with h1 | h1 | h1
      · cases h1
      · cases h1
      · exact hrep_old r id p' e h1
    · intro r mm hmm
      show dispatchCount r (_ :: _ :: s.log) = _ ∧ ∀ p', Ev.dispatch r p' ∈ (_ :: _ :: s.log) → _
      rcases hreq r mm hmm with ⟨hr, hmm'⟩ | ⟨hr, hold⟩
      · subst hr; subst hmm'
        refine ⟨by simp [dispatchCount_cons, isDispatch, hu3, h], ?_⟩
        intro p' hp
        simp only [List.mem_cons] at hp
        rcases hp with hp | hp | hp
        · injection hp with _ e2
          subst e2
          exact (expected_some h).2.1
        · cases hp
        · exact absurd hp (hdisp0 p')
      · rw [(hcnt r hr).2.1]
        refine ⟨(si.disp r mm hold).1, ?_⟩
        intro p' hp
        simp only [List.mem_cons] at hp
        rcases hp with hp | hp | hp
        · injection hp with e1 _
          exact absurd e1 hr
        · cases hp
        · exact (si.disp r mm hold).2 p' hp
    · intro r
      show freeSrvCount r (_ :: _ :: s.log) ≤ replyCount r (_ :: _ :: s.log)
      have := si.freeSrv r
      simp only [replyCount_cons, freeSrvCount_cons, isReply, isFreeSrv]
      simpa using this
    · refine hnum _ ?_
      intro mm hmm
      simp only [List.mem_cons] at hmm
      rcases hmm with h1 | h1 | h1
      · cases h1
      · injection h1 with h1; exact Or.inl h1
      · exact Or.inr h1

/-! ### the service invokes a done-callback -/
theorem SrvInv.fireDone {s : Chan} (si : SrvInv s) (r : Nat) : SrvInv (fireDone s r) := by
  cases hf : s.closures.find? (fun c => c.1 = r) with
  | none =>
    rw [fireDone_absent s r hf]
    split
    · exact si.ext_step [.uaf (.closure r)] rfl (by intro e he; simp at he; exact Or.inr ⟨_, he⟩) rfl rfl rfl rfl
    · exact si
  | some c =>
    rw [fireDone_found s r c hf]
    have hcm : c ∈ s.closures := List.mem_of_find?_eq_some hf
    have hcr : c.1 = r := by simpa using List.find?_some hf
    obtain ⟨m, hm1, hm2, hm3, _⟩ := si.clos c hcm
    rw [hcr] at hm1
    have hlt : r < s.nextReq := si.lt_of_req hm1
    have hone := si.one r hlt
    have hpos := held_pos hcm hcr
    have hcnt : ∀ r', r' ≠ r →
        replyCount r' (Ev.free (.srvResp r) :: Ev.reply r c.2.1 (some c.2.2) none :: s.log) = replyCount r' s.log ∧
        freeSrvCount r' (Ev.free (.srvResp r) :: Ev.reply r c.2.1 (some c.2.2) none :: s.log) = freeSrvCount r' s.log := by
      intro r' hr
      have : ¬ r = r' := fun h' => hr h'.symm
      simp [replyCount_cons, freeSrvCount_cons, isReply, isFreeSrv, this]
    have hdis : ∀ r', dispatchCount r' (Ev.free (.srvResp r) :: Ev.reply r c.2.1 (some c.2.2) none :: s.log) = dispatchCount r' s.log := by
      intro r'
      simp [dispatchCount_cons, isDispatch]
    constructor
    · intro r' hle
      have hr : r' ≠ r := by have : s.nextReq ≤ r' := hle; omega
      obtain ⟨a, b, c', d, e⟩ := si.unborn r' hle
      show s.reqs r' = none ∧ replyCount r' (_ :: _ :: s.log) = 0 ∧ dispatchCount r' (_ :: _ :: s.log) = 0 ∧
        freeSrvCount r' (_ :: _ :: s.log) = 0 ∧ held r' (s.closures.filter _) = 0
      rw [(hcnt r' hr).1, (hcnt r' hr).2, hdis, held_filter_other r r' _ hr]
      exact ⟨a, b, c', d, e⟩
    · intro r' hlt'
      obtain ⟨mm, a, b, c'⟩ := si.known r' hlt'
      exact ⟨mm, a, b, List.mem_cons_of_mem _ (List.mem_cons_of_mem _ c')⟩
    · intro r' hlt'
      show replyCount r' (_ :: _ :: s.log) + held r' (s.closures.filter _) = 1
      by_cases hr : r' = r
      · subst hr
        rw [held_filter_self]
        simp [replyCount_cons, isReply]
        omega
      · rw [(hcnt r' hr).1, held_filter_other r r' _ hr]; exact si.one r' hlt'
    · intro c' hc'
      have : c' ∈ s.closures.filter (fun c => c.1 ≠ r) := hc'
      exact si.clos c' (List.mem_filter.mp this).1
    · intro r' id p e he
      have he' : Ev.reply r' id p e ∈ Ev.free (.srvResp r) :: Ev.reply r c.2.1 (some c.2.2) none :: s.log := he
      simp only [List.mem_cons] at he'
      rcases he' with h1 | h1 | h1
      · cases h1
      · injection h1 with e1 e2 e3 e4
        subst e1; subst e2; subst e3; subst e4
        exact ⟨m, hm1, hm2, hm3⟩
      · exact si.rep r' id p e h1
    · intro r' mm hmm
      show dispatchCount r' (_ :: _ :: s.log) = _ ∧ ∀ p, Ev.dispatch r' p ∈ (_ :: _ :: s.log) → _
      rw [hdis]
      refine ⟨(si.disp r' mm hmm).1, ?_⟩
      intro p hp
      simp only [List.mem_cons] at hp
      rcases hp with hp | hp | hp
      · cases hp
      · cases hp
      · exact (si.disp r' mm hmm).2 p hp
    · intro r'
      show freeSrvCount r' (_ :: _ :: s.log) ≤ replyCount r' (_ :: _ :: s.log)
      have := si.freeSrv r'
      simp only [replyCount_cons, freeSrvCount_cons, isReply, isFreeSrv]
      by_cases hh : r = r' <;> simp [hh] <;> omega
    · intro mm hmm htt
      have hmm' : Ev.arrived mm ∈ Ev.free (.srvResp r) :: Ev.reply r c.2.1 (some c.2.2) none :: s.log := hmm
      simp only [List.mem_cons] at hmm'
      rcases hmm' with h1 | h1 | h1
      · cases h1
      · cases h1
      · exact si.numbered mm h1 htt

theorem SrvInv.recv {s : Chan} (si : SrvInv s) (m : Msg) : SrvInv (recv s m) := by
  unfold MuduoVerif.Rpc.recv
  split
  · exact si
  · split
    next h =>
      refine si.call (CallStep.recvResponse s m ?_)
      rw [(typeSwitch_response _).mp h]; decide
    next h => exact si.recvRequest m ((typeSwitch_request _).mp h)
    next h =>
      refine si.call (CallStep.other s m ?_)
      intro he; rw [(typeSwitch_request _).mpr he] at h; cases h
    next h =>
      refine si.call (CallStep.other s m ?_)
      intro he; rw [(typeSwitch_request _).mpr he] at h; cases h

theorem SrvInv.step {s : Chan} (si : SrvInv s) (a : Act) : SrvInv (step s a) := by
  unfold MuduoVerif.Rpc.step
  split
  · exact si
  · cases a with
    | callBegin => exact si.call (CallStep.callBegin s)
    | callInsert k => exact si.call (CallStep.callInsert s k)
    | callSend k => exact si.call (CallStep.callSend s k)
    | recv m => exact si.recv m
    | finish => exact si.call (CallStep.finish s)
    | fireDone r => exact si.fireDone r

theorem SrvInv.foldl (acts : List Act) : ∀ {s : Chan}, SrvInv s → SrvInv (acts.foldl MuduoVerif.Rpc.step s) := by
  induction acts with
  | nil => intro s h; exact h
  | cons a rest ih => intro s h; exact ih (h.step a)

theorem SrvInv.run (asserts hs : Bool) (acts : List Act) : SrvInv (run asserts hs acts) :=
  SrvInv.foldl acts (SrvInv.init asserts hs)

end MuduoVerif.Rpc
