import MuduoVerif.Proofs.CalendarE
/-! One sixteenth of the 400-year cycle, checked by kernel evaluation (see CalendarCycle.lean). -/
namespace MuduoVerif.CalendarE

theorem cycleDays_3 : checkDays 27396 9132 = true := by decide +kernel

theorem cycleYears_3 : checkYears 75 25 = true := by decide +kernel

end MuduoVerif.CalendarE
