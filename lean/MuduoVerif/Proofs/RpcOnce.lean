import MuduoVerif.Proofs.RpcShape
/-! Trace invariants of the caller side: which arrival completes which call (`first`, `cause`), one REQUEST
frame per call, heap order of the response objects, no duplicate keys in `outstandings_`, and what a halt means. -/
namespace MuduoVerif.Rpc
open MuduoVerif.Gen.Rpc

/-! ### splitting a log at an event -/
theorem cons_split {α : Type} {x e : α} {rest post pre : List α} (h : x :: rest = post ++ e :: pre) :
    (post = [] ∧ x = e ∧ rest = pre) ∨ ∃ post', post = x :: post' ∧ rest = post' ++ e :: pre := by
  rcases List.cons_eq_append_iff.mp h with ⟨h1, h2⟩ | ⟨as', h1, h2⟩
  · injection h2 with h3 h4
    exact Or.inl ⟨h1, h3.symm, h4.symm⟩
  · exact Or.inr ⟨as', h1, h2⟩

theorem split_ext {α : Type} (evs : List α) {log post pre : List α} {e : α}
    (h : evs ++ log = post ++ e :: pre) (hne : e ∉ evs) :
    ∃ post2, post = evs ++ post2 ∧ log = post2 ++ e :: pre := by
  induction evs generalizing post with
  | nil => exact ⟨post, rfl, h⟩
  | cons x xs ih =>
    rcases cons_split (h : x :: (xs ++ log) = post ++ e :: pre) with ⟨_, h2, _⟩ | ⟨post', h1, h2⟩
    · exact absurd (h2 ▸ List.mem_cons_self) hne
    · obtain ⟨p2, hp, hl⟩ := ih h2 (fun hm => hne (List.mem_cons_of_mem _ hm))
      exact ⟨p2, by rw [h1, hp]; rfl, hl⟩

theorem countP_ext_zero {α : Type} (p : α → Bool) (evs log : List α) (h : ∀ e ∈ evs, p e = false) :
    (evs ++ log).countP p = log.countP p := by
  rw [List.countP_append]
  have : List.countP p evs = 0 := by
    rw [List.countP_eq_zero]
    intro e he
    simp [h e he]
  omega

/-! ### vocabulary -/
def isSent (k : Nat) : Ev → Bool
  | .sent _ k' => decide (k' = k)
  | _ => false

/-- REQUEST frames that left for call `k` -/
def sentCount (k : Nat) (log : List Ev) : Nat := log.countP (isSent k)

def Ev.isArrived : Ev → Bool
  | .arrived _ => true
  | _ => false

/-- events on the response object of call `k` -/
def touches (k : Nat) : Ev → Bool
  | .parse k' => decide (k' = k)
  | .ran k' _ _ => decide (k' = k)
  | .free (.resp k') => decide (k' = k)
  | .uaf (.resp k') => decide (k' = k)
  | .uaf (.done k') => decide (k' = k)
  | _ => false

/-- a RESPONSE that is not "bare": the message has a payload or an error (what the `assert` that the RESPONSE
    branch once contained demanded of the peer) -/
def Msg.wellFormed (m : Msg) : Prop := m.payload.isSome = true ∨ m.err.isSome = true

instance (m : Msg) : Decidable m.wellFormed := by unfold Msg.wellFormed; infer_instance

/-- what the closure sees is the parsed payload of the message (nothing, if the message has none) -/
theorem view_eq (m : Msg) : view m = m.payload.bind Body.parse := by
  unfold view respParses
  cases h : m.payload <;> simp

/-- events of the REQUEST side and of messages that are not RESPONSEs -/
def Ev.srvSide : Ev → Bool
  | .arrived m => decide (m.type ≠ .RESPONSE)
  | .dispatch .. => true
  | .reply .. => true
  | .free (.srvResp _) => true
  | .uaf (.closure _) => true
  | _ => false

/-- events that leave the completion bookkeeping alone -/
def Ev.quiet : Ev → Bool
  | .sent .. => true
  | .abort => true
  | e => e.srvSide

theorem quiet_of_srvSide {e : Ev} (h : e.srvSide = true) : e.quiet = true := by
  cases e <;> simp_all [Ev.quiet, Ev.srvSide]

theorem touches_of_quiet {e : Ev} (k : Nat) (h : e.quiet = true) : touches k e = false := by
  cases e with
  | free c => cases c <;> simp_all [Ev.quiet, Ev.srvSide, touches]
  | uaf c => cases c <;> simp_all [Ev.quiet, Ev.srvSide, touches]
  | _ => simp_all [Ev.quiet, Ev.srvSide, touches]

theorem isRan_of_quiet {e : Ev} (k : Nat) (h : e.quiet = true) : isRan k e = false := by
  cases e <;> simp_all [Ev.quiet, Ev.srvSide, isRan]

theorem isFreeResp_of_quiet {e : Ev} (k : Nat) (h : e.quiet = true) : isFreeResp k e = false := by
  cases e with
  | free c => cases c <;> simp_all [Ev.quiet, Ev.srvSide, isFreeResp]
  | _ => simp_all [Ev.quiet, Ev.srvSide, isFreeResp]

/-! ### the invariant -/
structure TraceInv (s : Chan) : Prop where
  /-- the first RESPONSE with the id of call `k` that arrives after the request left completes the call
      (or the loop thread is about to), with its payload -/
  first : ∀ post pre m k, s.log = post ++ .arrived m :: pre → m.type = .RESPONSE → .sent m.id k ∈ pre →
    ranCount k pre = 0 → (s.asserts = false ∨ respAssert m.payload.isSome m.err.isSome) →
    .ran k m.id (view m) ∈ post ∨ s.pending = some (k, m)
  pendArr : ∀ k m, s.pending = some (k, m) →
    m.type = .RESPONSE ∧ ∃ mid pre, s.log = mid ++ .arrived m :: pre ∧ ∀ e ∈ mid, e.isArrived = false
  /-- a completion is caused by the RESPONSE that arrived last before it -/
  cause : ∀ post pre k i v, s.log = post ++ .ran k i v :: pre →
    ∃ m mid pre', pre = mid ++ .arrived m :: pre' ∧ m.type = .RESPONSE ∧ m.id = i ∧ v = view m ∧
      ∀ e ∈ mid, e.isArrived = false
  sentOnce : ∀ k, sentCount k s.log = if s.stage k = .returned then 1 else 0
  /-- nothing touches a response object after it was freed -/
  afterFree : ∀ post pre k, s.log = post ++ .free (.resp k) :: pre → ∀ e ∈ post, touches k e = false
  freeEq : ∀ k, freeCount k s.log = ranCount k s.log
  noUaf : ∀ c, .uaf c ∈ s.log → ∃ r, c = .closure r
  keys : (s.outstanding.map Prod.fst).Nodup

theorem TraceInv.init (a h : Bool) : TraceInv (init a h) := by
  constructor <;> simp [MuduoVerif.Rpc.init, sentCount, freeCount, ranCount]

/-- a step that only logs quiet events -/
theorem TraceInv.quiet_step {s s' : Chan} (ti : TraceInv s) (evs : List Ev)
    (hlog : s'.log = evs ++ s.log) (hq : ∀ e ∈ evs, e.quiet = true)
    (harr : s.pending = none ∨ ∀ e ∈ evs, e.isArrived = false)
    (hp : s'.pending = s.pending) (ha : s'.asserts = s.asserts)
    (hsent : ∀ k, sentCount k s'.log = if s'.stage k = .returned then 1 else 0)
    (hkeys : (s'.outstanding.map Prod.fst).Nodup) : TraceInv s' := by
  constructor
  · intro post pre m k hl ht hs hr hw
    rw [hlog] at hl
    have hne : Ev.arrived m ∉ evs := fun hm => by
      have := hq _ hm
      simp [Ev.quiet, Ev.srvSide, ht] at this
    obtain ⟨p2, hpost, hl2⟩ := split_ext evs hl hne
    rw [ha] at hw
    rcases ti.first p2 pre m k hl2 ht hs hr hw with h | h
    · left; rw [hpost]; exact List.mem_append_right _ h
    · right; rw [hp]; exact h
  · intro k m hpm
    rw [hp] at hpm
    obtain ⟨ht, mid, pre, hl, hm⟩ := ti.pendArr k m hpm
    have hna : ∀ e ∈ evs, e.isArrived = false := by
      rcases harr with h | h
      · rw [hpm] at h; cases h
      · exact h
    refine ⟨ht, evs ++ mid, pre, by rw [hlog, hl, List.append_assoc], ?_⟩
    intro e he
    rcases List.mem_append.mp he with h | h
    · exact hna e h
    · exact hm e h
  · intro post pre k i v hl
    rw [hlog] at hl
    have hne : Ev.ran k i v ∉ evs := fun hm => by
      have := hq _ hm
      simp [Ev.quiet, Ev.srvSide] at this
    obtain ⟨p2, _, hl2⟩ := split_ext evs hl hne
    exact ti.cause p2 pre k i v hl2
  · exact hsent
  · intro post pre k hl e he
    rw [hlog] at hl
    have hne : Ev.free (.resp k) ∉ evs := fun hm => by
      have := hq _ hm
      simp [Ev.quiet, Ev.srvSide] at this
    obtain ⟨p2, hpost, hl2⟩ := split_ext evs hl hne
    rw [hpost] at he
    rcases List.mem_append.mp he with h | h
    · exact touches_of_quiet k (hq e h)
    · exact ti.afterFree p2 pre k hl2 e h
  · intro k
    rw [hlog]
    unfold freeCount ranCount
    rw [countP_ext_zero _ _ _ (fun e he => isFreeResp_of_quiet k (hq e he)),
      countP_ext_zero _ _ _ (fun e he => isRan_of_quiet k (hq e he))]
    exact ti.freeEq k
  · intro c hc
    rw [hlog] at hc
    rcases List.mem_append.mp hc with h | h
    · have := hq _ h
      cases c <;> simp [Ev.quiet, Ev.srvSide] at this
      exact ⟨_, rfl⟩
    · exact ti.noUaf c h
  · exact hkeys

/-! ### keys of `outstandings_` -/
theorem keys_eraseKey (i : Nat) (l : List (Nat × Nat)) (h : (l.map Prod.fst).Nodup) :
    ((eraseKey i l).map Prod.fst).Nodup :=
  List.Nodup.sublist (List.Sublist.map _ List.filter_sublist) h

theorem not_mem_keys_eraseKey (i : Nat) (l : List (Nat × Nat)) : i ∉ (eraseKey i l).map Prod.fst := by
  intro h
  rw [List.mem_map] at h
  obtain ⟨e, he, hi⟩ := h
  unfold eraseKey at he
  rw [List.mem_filter] at he
  simp [hi] at he

theorem keys_insertKey (i k : Nat) (l : List (Nat × Nat)) (h : (l.map Prod.fst).Nodup) :
    ((insertKey i k l).map Prod.fst).Nodup := by
  unfold insertKey
  rw [List.map_cons, List.nodup_cons]
  exact ⟨not_mem_keys_eraseKey i l, keys_eraseKey i l h⟩

theorem lookup_of_mem (l : List (Nat × Nat)) (h : (l.map Prod.fst).Nodup) (i k : Nat) (hm : (i, k) ∈ l) :
    lookup i l = some k := by
  induction l with
  | nil => cases hm
  | cons e rest ih =>
    obtain ⟨a, b⟩ := e
    rw [List.map_cons, List.nodup_cons] at h
    rcases List.mem_cons.mp hm with h1 | h1
    · injection h1 with h2 h3
      subst h2; subst h3
      simp [lookup]
    · have hne : a ≠ i := by
        intro hai
        subst hai
        exact h.1 (List.mem_map.mpr ⟨(a, k), h1, rfl⟩)
      simp only [lookup, hne, if_false]
      exact ih h.2 h1

theorem mem_of_lookup (l : List (Nat × Nat)) (i k : Nat) (h : lookup i l = some k) : (i, k) ∈ l := by
  induction l with
  | nil => simp [lookup] at h
  | cons e rest ih =>
    obtain ⟨a, b⟩ := e
    simp only [lookup] at h
    split at h
    next hai =>
      injection h with h
      subst hai; subst h
      exact List.mem_cons_self
    next => exact List.mem_cons_of_mem _ (ih h)

/-! ### the caller's steps -/
theorem sentCount_cons (j : Nat) (e : Ev) (log : List Ev) :
    sentCount j (e :: log) = (if isSent j e then 1 else 0) + sentCount j log := by
  unfold sentCount
  rw [List.countP_cons]
  omega

theorem TraceInv.callBegin {s : Chan} (inv : CallInv s) (ti : TraceInv s) : TraceInv (callBegin s) := by
  refine ti.quiet_step [] rfl (by simp) (Or.inr (by simp)) rfl rfl ?_ ti.keys
  intro k
  show sentCount k s.log = if setAt s.stage s.nextCall .fetched k = .returned then 1 else 0
  rw [ti.sentOnce k]
  by_cases h : k = s.nextCall
  · subst h
    simp [setAt_same, inv.born s.nextCall (Nat.le_refl _)]
  · rw [setAt_other _ _ _ _ h]

theorem TraceInv.callInsert {s : Chan} (ti : TraceInv s) (k : Nat) : TraceInv (callInsert s k) := by
  unfold MuduoVerif.Rpc.callInsert
  simp only [insertBeforeSend_eq, if_true]
  split
  next hst =>
    refine ti.quiet_step [] rfl (by simp) (Or.inr (by simp)) rfl rfl ?_ (keys_insertKey _ _ _ ti.keys)
    intro j
    show sentCount j s.log = if setAt s.stage k .inserted j = .returned then 1 else 0
    rw [ti.sentOnce j]
    by_cases h : j = k
    · subst h
      simp [setAt_same, hst]
    · rw [setAt_other _ _ _ _ h]
  next => exact ti

theorem TraceInv.callSend {s : Chan} (ti : TraceInv s) (k : Nat) : TraceInv (callSend s k) := by
  unfold MuduoVerif.Rpc.callSend
  simp only [insertBeforeSend_eq, if_true]
  split
  next hst =>
    refine ti.quiet_step [.sent (s.idOf k) k] rfl (by simp [Ev.quiet]) (Or.inr (by simp [Ev.isArrived])) rfl rfl ?_ ti.keys
    intro j
    show sentCount j (Ev.sent (s.idOf k) k :: s.log) = if setAt s.stage k .returned j = .returned then 1 else 0
    rw [sentCount_cons, ti.sentOnce j]
    by_cases h : j = k
    · subst h
      simp [setAt_same, hst, isSent]
    · rw [setAt_other _ _ _ _ h]
      have : ¬ k = j := fun h' => h h'.symm
      simp [isSent, this]
  next => exact ti

/-! ### a RESPONSE arrives -/
/-- the loop thread is idle, `arrived m` is logged, and `pending` is set exactly when the property wants it -/
theorem TraceInv.arrive {s s' : Chan} (ti : TraceInv s) (m : Msg) (hp : s.pending = none)
    (hlog : s'.log = .arrived m :: s.log) (ht : m.type = .RESPONSE) (ha : s'.asserts = s.asserts)
    (hst : s'.stage = s.stage) (hkeys : (s'.outstanding.map Prod.fst).Nodup)
    (hnew : ∀ k, .sent m.id k ∈ s.log → ranCount k s.log = 0 → (s.asserts = false ∨ respAssert m.payload.isSome m.err.isSome) →
      s'.pending = some (k, m))
    (hpend : ∀ k' m', s'.pending = some (k', m') → m' = m) : TraceInv s' := by
  constructor
  · intro post pre m' k hl ht' hs hr hw
    rw [hlog] at hl
    rw [ha] at hw
    rcases cons_split hl with ⟨h1, h2, h3⟩ | ⟨p2, h1, h2⟩
    · injection h2 with h2
      subst h2; subst h3
      exact Or.inr (hnew k hs hr hw)
    · rcases ti.first p2 pre m' k h2 ht' hs hr hw with h | h
      · left; rw [h1]; exact List.mem_cons_of_mem _ h
      · rw [hp] at h; cases h
  · intro k' m' hpm
    have := hpend k' m' hpm
    subst this
    exact ⟨ht, [], s.log, by rw [hlog]; rfl, by simp⟩
  · intro post pre k i v hl
    rw [hlog] at hl
    rcases cons_split hl with ⟨_, h2, _⟩ | ⟨p2, _, h2⟩
    · cases h2
    · exact ti.cause p2 pre k i v h2
  · intro k
    rw [hlog, sentCount_cons, hst]
    simp [isSent, ti.sentOnce k]
  · intro post pre k hl e he
    rw [hlog] at hl
    rcases cons_split hl with ⟨_, h2, _⟩ | ⟨p2, h1, h2⟩
    · cases h2
    · rw [h1] at he
      rcases List.mem_cons.mp he with h | h
      · rw [h]; rfl
      · exact ti.afterFree p2 pre k h2 e h
  · intro k
    rw [hlog, freeCount_cons_foreign k _ _ rfl, ranCount_cons_foreign k _ _ rfl]
    exact ti.freeEq k
  · intro c hc
    rw [hlog] at hc
    rcases List.mem_cons.mp hc with h | h
    · cases h
    · exact ti.noUaf c h
  · exact hkeys

theorem TraceInv.recvResponse {s : Chan} (inv : CallInv s) (ti : TraceInv s) (m : Msg) (hp : s.pending = none)
    (ht : m.type = .RESPONSE) : TraceInv (recvResponse s m) := by
  -- the call that a RESPONSE with this id must complete is the one registered under the id
  have hreg : ∀ k, Ev.sent m.id k ∈ s.log → ranCount k s.log = 0 → lookup m.id s.outstanding = some k := by
    intro k hs hr
    obtain ⟨hid, hst⟩ := inv.wire m.id k hs
    have := inv.reg k (Or.inr hst) hr (by rw [hp]; simp)
    rw [← hid] at this
    exact this
  unfold MuduoVerif.Rpc.recvResponse
  split
  next hc =>
    -- assertion failure
    have h1 : TraceInv { s with log := .arrived m :: s.log } := by
      refine ti.arrive m hp rfl ht rfl rfl ti.keys ?_ ?_
      · intro k _ _ hw
        rcases hw with hw | hw
        · rw [hw] at hc; simp at hc
        · exact absurd hw hc.2
      · intro k' m' h
        have : s.pending = some (k', m') := h
        rw [hp] at this; cases this
    exact h1.quiet_step [.abort] rfl (by simp [Ev.quiet]) (Or.inl hp) rfl rfl h1.sentOnce h1.keys
  next hc =>
    split
    next hl =>
      refine ti.arrive m hp rfl ht rfl rfl ti.keys ?_ ?_
      · intro k hs hr _
        rw [hreg k hs hr] at hl; cases hl
      · intro k' m' h
        have : s.pending = some (k', m') := h
        rw [hp] at this; cases this
    next k hl =>
      refine ti.arrive m hp rfl ht rfl rfl ?_ ?_ ?_
      · show ((if respErasesWhenFound then eraseKey m.id s.outstanding else s.outstanding).map Prod.fst).Nodup
        rw [erases_eq]
        exact keys_eraseKey _ _ ti.keys
      · intro k' hs hr _
        have := hreg k' hs hr
        rw [hl] at this
        injection this with this
        subst this
        rfl
      · intro k' m' h
        have : some (k, m) = some (k', m') := h
        injection this with this
        injection this with _ h2
        exact h2.symm

/-! ### the completion -/
theorem counts_finish (k j : Nat) (i : Nat) (v : Option Nat) (tail log : List Ev) (ht : ∀ e ∈ tail, e = .parse k) :
    ranCount j (Ev.free (.resp k) :: Ev.ran k i v :: (tail ++ log)) = (if j = k then 1 else 0) + ranCount j log ∧
    freeCount j (Ev.free (.resp k) :: Ev.ran k i v :: (tail ++ log)) = (if j = k then 1 else 0) + freeCount j log := by
  have h1 : List.countP (isRan j) (tail ++ log) = List.countP (isRan j) log :=
    countP_ext_zero _ _ _ (fun e he => by rw [ht e he]; rfl)
  have h2 : List.countP (isFreeResp j) (tail ++ log) = List.countP (isFreeResp j) log :=
    countP_ext_zero _ _ _ (fun e he => by rw [ht e he]; rfl)
  unfold ranCount freeCount
  simp only [List.countP_cons, isRan, isFreeResp, h1, h2]
  by_cases h : k = j
  · subst h; simp; omega
  · have : ¬ j = k := fun h' => h h'.symm
    simp [h, this]

theorem TraceInv.finish {s : Chan} (inv : CallInv s) (ti : TraceInv s) : TraceInv (finish s) := by
  unfold MuduoVerif.Rpc.finish
  split
  next => exact ti
  next k m hp =>
    obtain ⟨_, _, _, _, hf0⟩ := inv.pend k m hp
    obtain ⟨hty, mid, pre0, hl0, hmid⟩ := ti.pendArr k m hp
    simp only [runCount_eq, freeCount_eq, List.replicate, List.cons_append, List.nil_append]
    generalize htail : (if respParses m.payload.isSome m.err.isSome then [Ev.parse k] else []) = tail
    have ht : ∀ e ∈ tail, e = .parse k := by
      intro e he
      rw [← htail] at he
      split at he
      · simpa using he
      · cases he
    constructor
    · intro post pre m' k' hl ht' hs hr hw
      have hl' : [Ev.free (.resp k), Ev.ran k m.id (view m)] ++ tail ++ s.log = post ++ Ev.arrived m' :: pre := by
        simpa using hl
      have hne : Ev.arrived m' ∉ [Ev.free (.resp k), Ev.ran k m.id (view m)] ++ tail := by
        intro hm
        rcases List.mem_append.mp hm with h | h
        · simp at h
        · have := ht _ h; cases this
      obtain ⟨p2, hpost, hl2⟩ := split_ext _ hl' hne
      left
      rw [hpost]
      rcases ti.first p2 pre m' k' hl2 ht' hs hr hw with h | h
      · exact List.mem_append_right _ h
      · rw [hp] at h
        injection h with h
        injection h with h1 h2
        subst h1; subst h2
        simp
    · intro k' m' h
      cases h
    · intro post pre k' i v hl
      have hl' : Ev.free (.resp k) :: Ev.ran k m.id (view m) :: (tail ++ s.log) = post ++ Ev.ran k' i v :: pre := hl
      rcases cons_split hl' with ⟨_, h2, _⟩ | ⟨p1, _, h2⟩
      · cases h2
      · rcases cons_split h2 with ⟨_, h3, h4⟩ | ⟨p2, _, h3⟩
        · injection h3 with e1 e2 e3
          subst e1; subst e2; subst e3
          refine ⟨m, tail ++ mid, pre0, by rw [← h4, hl0, List.append_assoc], hty, rfl, rfl, ?_⟩
          intro e he
          rcases List.mem_append.mp he with h | h
          · rw [ht e h]; rfl
          · exact hmid e h
        · have hne : Ev.ran k' i v ∉ tail := fun hm => by have := ht _ hm; cases this
          obtain ⟨p3, _, hl3⟩ := split_ext tail h3 hne
          exact ti.cause p3 pre k' i v hl3
    · intro j
      show sentCount j (Ev.free (.resp k) :: Ev.ran k m.id (view m) :: (tail ++ s.log)) = _
      rw [sentCount_cons, sentCount_cons]
      unfold sentCount
      rw [countP_ext_zero _ _ _ (fun e he => by rw [ht e he]; rfl)]
      simpa [isSent, sentCount] using ti.sentOnce j
    · intro post pre k' hl e he
      have hl' : Ev.free (.resp k) :: Ev.ran k m.id (view m) :: (tail ++ s.log) = post ++ Ev.free (.resp k') :: pre := hl
      rcases cons_split hl' with ⟨h1, _, _⟩ | ⟨p1, h1, h2⟩
      · rw [h1] at he; cases he
      · have hl2 : (Ev.ran k m.id (view m) :: tail) ++ s.log = p1 ++ Ev.free (.resp k') :: pre := h2
        have hne : Ev.free (.resp k') ∉ Ev.ran k m.id (view m) :: tail := by
          intro hm
          rcases List.mem_cons.mp hm with h | h
          · cases h
          · have := ht _ h; cases this
        obtain ⟨p3, hp3, hl3⟩ := split_ext _ hl2 hne
        have hkk : k ≠ k' := by
          intro hkk
          subst hkk
          have : 0 < freeCount k s.log := by
            unfold freeCount
            rw [List.countP_pos_iff]
            exact ⟨Ev.free (.resp k), by rw [hl3]; simp, by simp [isFreeResp]⟩
          omega
        rw [h1, hp3] at he
        rcases List.mem_cons.mp he with h | h
        · rw [h]; simp [touches, hkk]
        · rcases List.mem_append.mp h with h | h
          · rcases List.mem_cons.mp h with h | h
            · rw [h]; simp [touches, hkk]
            · rw [ht e h]; simp [touches, hkk]
          · exact ti.afterFree p3 pre k' hl3 e h
    · intro j
      have hc := counts_finish k j m.id (view m) tail s.log ht
      show freeCount j (Ev.free (.resp k) :: Ev.ran k m.id (view m) :: (tail ++ s.log)) =
        ranCount j (Ev.free (.resp k) :: Ev.ran k m.id (view m) :: (tail ++ s.log))
      rw [hc.1, hc.2, ti.freeEq j]
    · intro c hc
      have hc' : Ev.uaf c ∈ Ev.free (.resp k) :: Ev.ran k m.id (view m) :: (tail ++ s.log) := hc
      rcases List.mem_cons.mp hc' with h | h
      · cases h
      · rcases List.mem_cons.mp h with h | h
        · cases h
        · rcases List.mem_append.mp h with h | h
          · have := ht _ h; cases this
          · exact ti.noUaf c h
    · exact ti.keys

/-! ### the REQUEST side and the other message types -/
/-- a step of the REQUEST side: logs only its own events, touches nothing of the caller side -/
structure SrvStep (s s' : Chan) : Prop where
  log : ∃ evs, s'.log = evs ++ s.log ∧ ∀ e ∈ evs, e.srvSide = true ∧ (s.pending = none ∨ e.isArrived = false)
  outstanding : s'.outstanding = s.outstanding
  stage : s'.stage = s.stage
  pending : s'.pending = s.pending
  asserts : s'.asserts = s.asserts
  halted : s'.halted = s.halted

theorem sentCount_srv (k : Nat) (evs log : List Ev) (h : ∀ e ∈ evs, e.srvSide = true) :
    sentCount k (evs ++ log) = sentCount k log := by
  unfold sentCount
  apply countP_ext_zero
  intro e he
  have := h e he
  cases e <;> simp_all [Ev.srvSide, isSent]

theorem TraceInv.srv {s s' : Chan} (ti : TraceInv s) (h : SrvStep s s') : TraceInv s' := by
  obtain ⟨evs, hl, hev⟩ := h.log
  refine ti.quiet_step evs hl (fun e he => quiet_of_srvSide (hev e he).1) ?_ h.pending h.asserts ?_ ?_
  · by_cases hp : s.pending = none
    · exact Or.inl hp
    · exact Or.inr (fun e he => (hev e he).2.resolve_left hp)
  · intro k
    rw [hl, sentCount_srv k evs s.log (fun e he => (hev e he).1), h.stage]
    exact ti.sentOnce k
  · rw [h.outstanding]; exact ti.keys

theorem SrvStep.recvRequest (s : Chan) (m : Msg) (hp : s.pending = none) (ht : m.type = .REQUEST) :
    SrvStep s (recvRequest s m) := by
  have harr : (Ev.arrived m).srvSide = true := by simp [Ev.srvSide, ht]
  rcases expected_cases s.hasServices m with ⟨code, h⟩ | ⟨p, h, hm | hm⟩
  · rw [recvRequest_err s m code h]
    refine ⟨⟨[.reply s.nextReq m.id none (some code), .arrived m], rfl, ?_⟩, rfl, rfl, rfl, rfl, rfl⟩
    intro e he
    simp only [List.mem_cons, List.not_mem_nil, or_false] at he
    rcases he with he | he <;> subst he
    · exact ⟨rfl, Or.inl hp⟩
    · exact ⟨harr, Or.inl hp⟩
  · rw [recvRequest_sync s m p h hm]
    refine ⟨⟨[.free (.srvResp s.nextReq), .reply s.nextReq m.id (some p) none, .dispatch s.nextReq p, .arrived m], rfl, ?_⟩,
      rfl, rfl, rfl, rfl, rfl⟩
    intro e he
    simp only [List.mem_cons, List.not_mem_nil, or_false] at he
    rcases he with he | he | he | he <;> subst he
    · exact ⟨rfl, Or.inl hp⟩
    · exact ⟨rfl, Or.inl hp⟩
    · exact ⟨rfl, Or.inl hp⟩
    · exact ⟨harr, Or.inl hp⟩
  · rw [recvRequest_defer s m p h hm]
    refine ⟨⟨[.dispatch s.nextReq p, .arrived m], rfl, ?_⟩, rfl, rfl, rfl, rfl, rfl⟩
    intro e he
    simp only [List.mem_cons, List.not_mem_nil, or_false] at he
    rcases he with he | he <;> subst he
    · exact ⟨rfl, Or.inl hp⟩
    · exact ⟨harr, Or.inl hp⟩

theorem SrvStep.refl (s : Chan) : SrvStep s s := ⟨⟨[], rfl, by simp⟩, rfl, rfl, rfl, rfl, rfl⟩

theorem SrvStep.fireDone (s : Chan) (r : Nat) : SrvStep s (fireDone s r) := by
  cases h : s.closures.find? (fun c => c.1 = r) with
  | some c =>
    rw [fireDone_found s r c h]
    refine ⟨⟨[.free (.srvResp r), .reply r c.2.1 (some c.2.2) none], rfl, ?_⟩, rfl, rfl, rfl, rfl, rfl⟩
    intro e he
    simp only [List.mem_cons, List.not_mem_nil, or_false] at he
    rcases he with he | he <;> subst he <;> exact ⟨rfl, Or.inr rfl⟩
  | none =>
    rw [fireDone_absent s r h]
    split
    · refine ⟨⟨[.uaf (.closure r)], rfl, ?_⟩, rfl, rfl, rfl, rfl, rfl⟩
      intro e he
      simp only [List.mem_cons, List.not_mem_nil, or_false] at he
      subst he
      exact ⟨rfl, Or.inr rfl⟩
    · exact SrvStep.refl s

theorem SrvStep.other (s : Chan) (m : Msg) (hp : s.pending = none) (ht : m.type ≠ .RESPONSE) :
    SrvStep s { s with log := .arrived m :: s.log } := by
  refine ⟨⟨[.arrived m], rfl, ?_⟩, rfl, rfl, rfl, rfl, rfl⟩
  intro e he
  simp only [List.mem_cons, List.not_mem_nil, or_false] at he
  subst he
  exact ⟨by simp [Ev.srvSide, ht], Or.inl hp⟩

theorem pending_none_of_not_isSome {s : Chan} (h : ¬ s.pending.isSome = true) : s.pending = none := by
  cases hh : s.pending with
  | none => rfl
  | some x => simp [hh] at h

theorem TraceInv.recv {s : Chan} (inv : CallInv s) (ti : TraceInv s) (m : Msg) : TraceInv (recv s m) := by
  unfold MuduoVerif.Rpc.recv
  split
  · exact ti
  next hp =>
    have hp' := pending_none_of_not_isSome hp
    split
    next h => exact ti.recvResponse inv m hp' ((typeSwitch_response _).mp h)
    next h => exact ti.srv (SrvStep.recvRequest s m hp' ((typeSwitch_request _).mp h))
    next h =>
      refine ti.srv (SrvStep.other s m hp' ?_)
      intro he; rw [(typeSwitch_response _).mpr he] at h; cases h
    next h =>
      refine ti.srv (SrvStep.other s m hp' ?_)
      intro he; rw [(typeSwitch_response _).mpr he] at h; cases h

theorem TraceInv.step {s : Chan} (inv : CallInv s) (ti : TraceInv s) (a : Act) : TraceInv (step s a) := by
  unfold MuduoVerif.Rpc.step
  split
  · exact ti
  · cases a with
    | callBegin => exact ti.callBegin inv
    | callInsert k => exact ti.callInsert k
    | callSend k => exact ti.callSend k
    | recv m => exact ti.recv inv m
    | finish => exact ti.finish inv
    | fireDone r => exact ti.srv (SrvStep.fireDone s r)

theorem TraceInv.foldl (acts : List Act) : ∀ {s : Chan}, CallInv s → TraceInv s → TraceInv (acts.foldl MuduoVerif.Rpc.step s) := by
  induction acts with
  | nil => intro s _ h; exact h
  | cons a rest ih => intro s inv h; exact ih (inv.step a) (h.step inv a)

theorem TraceInv.run (asserts hs : Bool) (acts : List Act) : TraceInv (run asserts hs acts) :=
  TraceInv.foldl acts (CallInv.init asserts hs) (TraceInv.init asserts hs)

end MuduoVerif.Rpc
