import MuduoVerif.Generated.HttpSkel
/-!
# T1 tie for the statement order of the HTTP engine (C18)

`Gen.HttpSkel.<fn>` is the statement skeleton `vlib/gen/httpskel.py` extracts from /repo's current
`muduo/net/http/HttpContext.cc` / `HttpRequest.h` on every run; `Decl.<fn>` (`Model/HttpSkelDecl.lean`) is the
skeleton the corresponding definition of `Model/Http.lean` implements.  Each `skeleton_<fn>` is closed by `decide`: it
holds exactly as long as the source performs the same significant actions, in the same order, under the same nesting
of the same guards and loops as the model.  The generated guard and tables are tied by `Generated/Http.lean`.
`Props/C18` re-exports `skeletons_agree` (`statement_order_tied`), so a change of statement order in one of these
functions breaks that property module.
-/
namespace MuduoVerif.HttpSkel

theorem skeleton_processRequestLine : Gen.HttpSkel.processRequestLine = Decl.processRequestLine := by decide
theorem skeleton_parseRequest : Gen.HttpSkel.parseRequest = Decl.parseRequest := by decide
theorem skeleton_setVersion : Gen.HttpSkel.setVersion = Decl.setVersion := by decide
theorem skeleton_setMethod : Gen.HttpSkel.setMethod = Decl.setMethod := by decide
theorem skeleton_setPath : Gen.HttpSkel.setPath = Decl.setPath := by decide
theorem skeleton_setQuery : Gen.HttpSkel.setQuery = Decl.setQuery := by decide
theorem skeleton_setReceiveTime : Gen.HttpSkel.setReceiveTime = Decl.setReceiveTime := by decide
theorem skeleton_addHeader : Gen.HttpSkel.addHeader = Decl.addHeader := by decide

/-- every extracted skeleton is the declared one -/
theorem skeletons_agree :
    Gen.HttpSkel.processRequestLine = Decl.processRequestLine ∧
    Gen.HttpSkel.parseRequest = Decl.parseRequest ∧
    Gen.HttpSkel.setVersion = Decl.setVersion ∧
    Gen.HttpSkel.setMethod = Decl.setMethod ∧
    Gen.HttpSkel.setPath = Decl.setPath ∧
    Gen.HttpSkel.setQuery = Decl.setQuery ∧
    Gen.HttpSkel.setReceiveTime = Decl.setReceiveTime ∧
    Gen.HttpSkel.addHeader = Decl.addHeader :=
  ⟨skeleton_processRequestLine, skeleton_parseRequest, skeleton_setVersion, skeleton_setMethod, skeleton_setPath,
   skeleton_setQuery, skeleton_setReceiveTime, skeleton_addHeader⟩

end MuduoVerif.HttpSkel
