import MuduoVerif.Proofs.CalendarE
/-! One sixteenth of the 400-year cycle, checked by kernel evaluation (see CalendarCycle.lean). -/
namespace MuduoVerif.CalendarE

theorem cycleDays_7 : checkDays 63924 9132 = true := by decide +kernel

theorem cycleYears_7 : checkYears 175 25 = true := by decide +kernel

end MuduoVerif.CalendarE
