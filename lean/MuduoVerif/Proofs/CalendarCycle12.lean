import MuduoVerif.Proofs.CalendarE
/-! One sixteenth of the 400-year cycle, checked by kernel evaluation (see CalendarCycle.lean). -/
namespace MuduoVerif.CalendarE

theorem cycleDays_11 : checkDays 100452 9132 = true := by decide +kernel

theorem cycleYears_11 : checkYears 275 25 = true := by decide +kernel

end MuduoVerif.CalendarE
