import MuduoVerif.Proofs.OwnerStep
namespace MuduoVerif.Owner
open MuduoVerif.Gen.Owner
open MuduoVerif.Gen.Conn (StateE forceCloseAccepts shutdownAccepts forceCloseInLoopActs destroyedWhileConnected)

theorem mem_ioQ {s : Srv} {c : Nat} {t : Task} (h : t ∈ ioQ s c) : t ∈ s.q (s.conn c).loop := (List.mem_filter.mp h).1

/-- nobody holds the connection: it is through with everything -/
theorem row_of_not_held {s : Srv} {c : Nat} (hc : CCore s c (s.inMap c) s.alive) (hh : s.held c = false) :
    ioQ s c = [] ∧ remN s c = 0 ∧ (s.conn c).st = .kDisconnected ∧ (s.conn c).registered = false ∧ s.inMap c = false := by
  have hq : ∀ l t, t ∈ s.q l → t.holds c = true → l ≤ s.L → False := by
    intro l t h1 h2 h3
    have := held_of_mem h1 h2 h3
    rw [hh] at this; cases this
  have him : s.inMap c = false := by
    unfold Srv.held at hh
    cases h : s.inMap c with
    | false => rfl
    | true => rw [h, Bool.true_or, Bool.true_or] at hh; cases hh
  have hio : ioQ s c = [] := by
    cases h : ioQ s c with
    | nil => rfl
    | cons t r =>
      exfalso
      have ht : t ∈ ioQ s c := by rw [h]; exact List.mem_cons_self
      have hi : isIo c t = true := (List.mem_filter.mp ht).2
      refine hq _ t (mem_ioQ ht) ?_ hc.loop_le
      cases t <;> simp_all [isIo, Task.holds]
  have hrem : remN s c = 0 := by
    cases h : remN s c with
    | zero => rfl
    | succ k =>
      exfalso
      have : Task.rem c ∈ s.q 0 := by
        unfold remN at h
        exact List.count_pos_iff.mp (by omega)
      exact hq 0 _ this (by simp [Task.holds]) (by omega)
  have hrow := hc.row
  unfold RowP at hrow
  rw [hio, hrem, him] at hrow
  clear hq hh
  rcases hrow with r|r|r|r|r|r|r|r|r <;> grind

/-- the destructor runs if and only if the last reference is gone; afterwards the invariant holds again -/
theorem cinv_reapOne (s : Srv) (l c : Nat) (hc : CInvW s c) : CInv (reapOne s l c) c := by
  unfold reapOne
  split
  · rename_i h
    have hal : (s.conn c).alive = true := by
      cases h1 : (s.conn c).alive <;> simp_all
    have hh : s.held c = false := by
      cases h1 : s.held c <;> simp_all
    obtain ⟨hio, hrem, hst, hreg, him⟩ := row_of_not_held hc.core hh
    obtain ⟨a, ha, hb, hcb, hd, hdead, her⟩ := hc.core.life
    refine ⟨⟨?_, ?_, ?_, ?_, ?_, ?_, ?_⟩, ?_, ?_⟩
    · simpa using hc.core.loop_le
    · exact stray_sub (by simp) (by simp) hc.core.stray
    · have := hc.core.row
      unfold RowP ioQ remN at this ⊢
      simpa using this
    · simp [hst]
    · simp
    · simpa using hc.core.name
    · refine ⟨{ a with dead := true }, ?_, hb, ?_, ?_, ?_, ?_⟩
      · simp only [emit_trace, setConn_trace, life_snoc, lifeStep, ha, if_true, Option.bind_some]
        simp [autoStep, hd, hreg, hst, hdead, hal]
      · simpa using hcb
      · simpa using hd
      · simp
      · simpa using her
    · unfold Srv.held at hh ⊢
      simpa using hh
    · simp [hst]
  · rename_i h
    refine ⟨hc.core, ?_, hc.cause⟩
    cases h1 : (s.conn c).alive with
    | false => rw [hc.dead_free h1]
    | true =>
      cases h2 : s.held c with
      | true => rfl
      | false => simp [h1, h2] at h

theorem reapOne_held (s : Srv) (l c c' : Nat) : (reapOne s l c).held c' = s.held c' := by
  unfold reapOne; split
  · unfold Srv.held Srv.inQueues
    simp only [emit_conn, setConn_conn, inMap_emit, inMap_setConn, emit_q, setConn_q, emit_done, setConn_done, emit_L, setConn_L]
    split <;> simp_all
  · rfl

/-! ### a finished functor is destroyed -/

/-- loop `l`'s batch without its first functor -/
def undone (s : Srv) (l : Nat) (rest : List Task) : Srv := { s with done := fun i => if i = l then rest else s.done i }

theorem releaseHead_cons (s : Srv) (l : Nat) (t : Task) (rest : List Task) (h : s.done l = t :: rest) :
    releaseHead s l = match t.conn? with
      | some c => reapOne (undone s l rest) l c
      | none => undone s l rest := by
  simp only [releaseHead, h]; rfl

theorem agreeC_undone (s : Srv) (l : Nat) (rest : List Task) (c : Nat) : AgreeC s (undone s l rest) c :=
  ⟨rfl, fun _ => rfl, rfl, rfl, rfl⟩

theorem ext_undone (s : Srv) (l : Nat) (rest : List Task) : Ext s (undone s l rest) :=
  ⟨rfl, rfl, rfl, rfl, rfl, rfl, rfl, List.Sublist.refl _, fun _ => rfl, fun _ => rfl, rfl, rfl, [], by simp [undone], by simp⟩

theorem agree_undone (s : Srv) (l : Nat) (t : Task) (rest : List Task) (hd : s.done l = t :: rest) (c : Nat) (h : about c t = false) :
    Agree s (undone s l rest) c := by
  refine ⟨rfl, fun _ => rfl, fun l' => ?_, rfl, rfl, rfl, rfl, rfl⟩
  simp only [undone]; split
  · rename_i h'; subst h'; simp [hd, not_holds_of_not_about h]
  · rfl

theorem held_undone_le (s : Srv) (l : Nat) (t : Task) (rest : List Task) (hd : s.done l = t :: rest) (c : Nat)
    (h : (undone s l rest).held c = true) : s.held c = true := by
  unfold Srv.held Srv.inQueues at h ⊢
  simp only [Bool.or_eq_true, List.any_eq_true] at h ⊢
  rcases h with (h | h) | ⟨l', hl', h⟩
  · exact Or.inl (Or.inl h)
  · exact Or.inl (Or.inr h)
  · refine Or.inr ⟨l', hl', ?_⟩
    simp only [undone] at h
    rcases h with h | h
    · exact Or.inl h
    · right
      split at h
      · rename_i h'; subst h'; rw [hd]
        obtain ⟨u, hu, hu2⟩ := h
        exact ⟨u, List.mem_cons_of_mem _ hu, hu2⟩
      · exact h

theorem ginv_releaseHead (s : Srv) (h : GInv s) (l : Nat) : GInv (releaseHead s l) := by
  cases hd : s.done l with
  | nil => simp [releaseHead, hd]; exact h
  | cons t rest =>
    rw [releaseHead_cons s l t rest hd]
    cases ht : t.conn? with
    | none =>
      refine h.local (ext_undone s l rest) 0 (fun h0 => ?_) (fun _ => ?_) (fun c _ => ?_)
      · exact (h.conns 0 h0).agree (agree_undone s l t rest hd 0 (by simp [about, ht]))
      · exact (agree_undone s l t rest hd 0 (by simp [about, ht])).c
      · exact agree_undone s l t rest hd c (by simp [about, ht])
    | some c0 =>
      simp only
      refine h.local ((ext_undone s l rest).trans (ext_reapOne _ l c0)) c0 (fun h0 => ?_) (fun h0 => ?_) (fun c hne => ?_)
      · apply cinv_reapOne
        have hc := h.conns c0 h0
        refine ⟨hc.core.agree (agreeC_undone s l rest c0), fun hal => ?_, hc.cause⟩
        have h1 : s.held c0 = false := by rw [← hc.alive_held]; exact hal
        cases h2 : (undone s l rest).held c0 with
        | false => rfl
        | true => rw [held_undone_le s l t rest hd c0 h2] at h1; cases h1
      · -- not a connection (cannot happen): its record is not alive, nothing is destroyed
        have hna : (s.conn c0).alive = false := by rw [(h.fresh c0 h0).2.2]
        have : reapOne (undone s l rest) l c0 = undone s l rest := by
          unfold reapOne; simp [undone, hna]
        rw [this]; exact agreeC_undone s l rest c0
      · exact (agree_undone s l t rest hd c (by simp [about, ht, Ne.symm hne])).trans (agree_reapOne _ l (Ne.symm hne))


theorem ginv_iterate (f : Srv → Srv) (hf : ∀ s, GInv s → GInv (f s)) (k : Nat) (s : Srv) (h : GInv s) : GInv (iterate f k s) := by
  induction k generalizing s with
  | zero => exact h
  | succ k ih => exact ih (f s) (hf s h)

theorem ginv_endBatch (s : Srv) (h : GInv s) (l : Nat) : GInv (endBatch s l) :=
  ginv_iterate _ (fun s hs => ginv_releaseHead s hs l) _ s h

/-! ### channel events -/

theorem lt_of_alive {s : Srv} (h : GInv s) {c : Nat} (ha : (s.conn c).alive = true) : c < s.n := by
  apply Decidable.byContradiction; intro hge
  have := (h.fresh c (by omega)).2.2
  rw [this] at ha; cases ha

theorem ginv_msg (s : Srv) (h : GInv s) (c : Nat) : GInv (step s (.msg c)) := by
  simp only [step]
  split
  · rename_i hr
    simp only [evReady, Bool.and_eq_true, Bool.not_eq_true'] at hr
    obtain ⟨⟨⟨hal, hreg⟩, hup⟩, hex⟩ := hr
    have hcn := lt_of_alive h hal
    refine h.local (ext_emit s c .msg _ (by simp [AffOK])) c (fun _ => ?_) (fun hge => absurd hcn (by omega)) (fun c' hne => agree_emit s _ _ (Ne.symm hne))
    have hc := h.conns c hcn
    obtain ⟨a, ha, hb, hcb, hd, hdead, her⟩ := hc.core.life
    refine ⟨⟨?_, ?_, ?_, ?_, ?_, ?_, ?_⟩, ?_, ?_⟩
    · simpa using hc.core.loop_le
    · exact stray_sub (by simp) (by simp) hc.core.stray
    · have := hc.core.row
      unfold RowP ioQ remN at this ⊢
      simpa using this
    · simpa using hc.core.fcl_up
    · simpa using hc.core.fd
    · simpa using hc.core.name
    · refine ⟨a, ?_, hb, hcb, hd, hdead, her⟩
      simp only [emit_trace, life_snoc, lifeStep, ha, if_true, Option.bind_some]
      have : a.cb = .up := by rw [hcb]; cases hs : (s.conn c).st <;> simp_all [clsOf, isUp]
      simp [autoStep, this, hdead, hal]
    · exact hc.alive_held
    · exact hc.cause
  · exact h

theorem ginv_close (s : Srv) (h : GInv s) (c : Nat) : GInv (step s (.close c)) := by
  simp only [step]
  split
  · rename_i hr
    simp only [evReady, Bool.and_eq_true, Bool.not_eq_true'] at hr
    obtain ⟨⟨⟨hal, hreg⟩, hup⟩, hex⟩ := hr
    have hcn := lt_of_alive h hal
    refine h.local ((ext_handleClose s _ c rfl).trans (ext_reapOne _ _ c)) c (fun _ => ?_) (fun hge => absurd hcn (by omega)) (fun c' hne => ?_)
    · exact cinv_reapOne _ _ c (cinv_handleClose s h.mapOK _ c hcn (h.conns c hcn).core rfl hup hal).weak
    · exact (agree_handleClose s h.mapOK _ hcn (Ne.symm hne)).trans (agree_reapOne _ _ (Ne.symm hne))
  · exact h

/-! ### the user's calls -/

theorem forceCloseDispatch_queue : MuduoVerif.Gen.Conn.forceCloseDispatch = .queue := rfl
theorem shutdownDispatch_queue : MuduoVerif.Gen.Conn.shutdownDispatch = .queue := rfl

theorem ginv_forceClose (s : Srv) (h : GInv s) (c thr : Nat) : GInv (step s (.forceClose c thr)) := by
  simp only [step, forceCloseDispatch_queue, reduceCtorEq, false_and, if_false]
  split
  · rename_i hg
    obtain ⟨hal, hacc⟩ := hg
    have hcn := lt_of_alive h hal
    have hup : isUp (s.conn c).st = true := by
      unfold forceCloseAccepts at hacc; rcases hacc with h1 | h1 <;> simp [isUp, h1]
    have e1 : Ext s (s.setConn c { s.conn c with st := .kDisconnecting, cause := true }) := ext_setConn s c _ rfl rfl
    refine h.local (e1.trans (ext_enq _ _ _)) c (fun _ => ?_) (fun hge => absurd hcn (by omega))
      (fun c' hne => (agree_setConn s _ (Ne.symm hne)).trans (agree_enq _ _ (by simp [about, Task.conn?, Ne.symm hne])))
    have hc := h.conns c hcn
    obtain ⟨a, ha, hb, hcb, hd, hdead, her⟩ := hc.core.life
    have hcbup : a.cb = .up := by rw [hcb]; cases hs : (s.conn c).st <;> simp_all [clsOf, isUp]
    refine ⟨⟨?_, ?_, ?_, ?_, ?_, ?_, ?_⟩, ?_, ?_⟩
    · simpa using hc.core.loop_le
    · intro l'
      have := hc.core.stray l'
      simp only [enq_conn, setConn_conn_self, enq_q, setConn_q]
      refine ⟨fun hne => ?_, fun hne => ?_⟩
      · simp only [hne, if_false]; exact this.1 hne
      · split <;> simpa using this.2 hne
    · have hrow := hc.core.row
      unfold RowP ioQ remN at hrow ⊢
      simp only [enq_conn, setConn_conn_self, enq_q, setConn_q, if_true, enq_alive, setConn_alive, inMap_enq, inMap_setConn,
        List.filter_append]
      have h1 : (if (0 : Nat) = (s.conn c).loop then s.q 0 ++ [Task.fcl c] else s.q 0).count (.rem c) = (s.q 0).count (.rem c) := by
        split <;> simp [List.count_append]
      rw [h1]
      rcases hrow with r|r|r|r|r|r|r|r|r <;> simp_all [isUp, isIo]
    · simp
    · simpa using hc.core.fd
    · simpa using hc.core.name
    · refine ⟨a, by simpa using ha, hb, ?_, ?_, by simpa using hdead, by simpa using her⟩
      · simp [hcbup, clsOf]
      · rw [hd]
        have : ((s.conn c).st != StateE.kConnecting) = true := by
          cases hs : (s.conn c).st <;> simp_all [isUp]
        simp [this]
    · have : ((s.setConn c { s.conn c with st := .kDisconnecting, cause := true }).enq (s.conn c).loop (.fcl c)).inQueues c = true :=
        inQueues_of_mem (l := (s.conn c).loop) (t := .fcl c) (by simp) (by simp [Task.holds, MuduoVerif.Gen.Conn.forceCloseHold])
          (by simpa using hc.core.loop_le)
      unfold Srv.held
      rw [this]
      simp [hal]
    · intro _; right; left; simp
  · exact h


theorem shut_holds (c c' : Nat) : (Task.shut c).holds c' = false := by
  simp [Task.holds, MuduoVerif.Gen.Conn.shutdownHold]

theorem ginv_shutdown (s : Srv) (h : GInv s) (c thr : Nat) : GInv (step s (.shutdown c thr)) := by
  simp only [step, shutdownDispatch_queue, reduceCtorEq, false_and, if_false]
  split
  · rename_i hg
    obtain ⟨hal, hacc⟩ := hg
    have hcn := lt_of_alive h hal
    have hst : (s.conn c).st = .kConnected := hacc
    have e1 : Ext s (s.setConn c { s.conn c with st := .kDisconnecting }) := ext_setConn s c _ rfl rfl
    refine h.local (e1.trans (ext_enq _ _ _)) c (fun _ => ?_) (fun hge => absurd hcn (by omega))
      (fun c' hne => (agree_setConn s _ (Ne.symm hne)).trans (agree_enq _ _ (by simp [about, Task.conn?, Ne.symm hne])))
    have hc := h.conns c hcn
    obtain ⟨a, ha, hb, hcb, hd, hdead, her⟩ := hc.core.life
    refine ⟨⟨?_, ?_, ?_, ?_, ?_, ?_, ?_⟩, ?_, ?_⟩
    · simpa using hc.core.loop_le
    · intro l'
      have := hc.core.stray l'
      simp only [enq_conn, setConn_conn_self, enq_q, setConn_q]
      refine ⟨fun hne => ?_, fun hne => ?_⟩
      · simp only [hne, if_false]; exact this.1 hne
      · split <;> simpa using this.2 hne
    · have hrow := hc.core.row
      unfold RowP ioQ remN at hrow ⊢
      simp only [enq_conn, setConn_conn_self, enq_q, setConn_q, if_true, enq_alive, setConn_alive, inMap_enq, inMap_setConn,
        List.filter_append]
      have h1 : (if (0 : Nat) = (s.conn c).loop then s.q 0 ++ [Task.shut c] else s.q 0).count (.rem c) = (s.q 0).count (.rem c) := by
        split <;> simp [List.count_append]
      rw [h1]
      rcases hrow with r|r|r|r|r|r|r|r|r <;> simp_all [isUp, isIo]
    · simp
    · simpa using hc.core.fd
    · simpa using hc.core.name
    · refine ⟨a, by simpa using ha, hb, ?_, ?_, by simpa using hdead, by simpa using her⟩
      · simp [hcb, hst, clsOf]
      · rw [hd, hst]; simp only [enq_conn, setConn_conn_self]; cases (s.conn c).registered <;> rfl
    · have hah := hc.alive_held
      unfold Srv.held Srv.inQueues at hah ⊢
      rw [hah]
      simp only [enq_conn, setConn_conn_self, inMap_enq, inMap_setConn, enq_q, setConn_q, enq_done, setConn_done, enq_L, setConn_L]
      congr 1
      apply any_congr_mem
      intro l' _
      split
      · simp [List.any_append, shut_holds]
      · rfl
    · intro hcause
      have := hc.cause (by simpa using hcause)
      simp only [enq_conn, setConn_conn_self, enq_q_self, setConn_q, List.mem_append, List.mem_singleton, reduceCtorEq, or_false]
      rcases this with h1 | h1 | h1
      · rw [hst] at h1; cases h1
      · exact Or.inr (Or.inl h1)
      · exact Or.inr (Or.inr h1)
  · exact h

theorem ginv_hold (s : Srv) (h : GInv s) (c : Nat) : GInv (step s (.hold c)) := by
  simp only [step]
  split
  · rename_i hal
    have hcn := lt_of_alive h hal
    refine h.local (ext_setConn s c _ rfl rfl) c (fun _ => ?_) (fun hge => absurd hcn (by omega))
      (fun c' hne => agree_setConn s _ (Ne.symm hne))
    have hc := h.conns c hcn
    refine ⟨⟨?_, ?_, ?_, ?_, ?_, ?_, ?_⟩, ?_, ?_⟩
    · simpa using hc.core.loop_le
    · exact stray_sub (by simp) (by simp) hc.core.stray
    · have := hc.core.row
      unfold RowP ioQ remN at this ⊢
      simpa using this
    · simpa using hc.core.fcl_up
    · simpa using hc.core.fd
    · simpa using hc.core.name
    · simpa using hc.core.life
    · unfold Srv.held; simp [hal]
    · simpa using hc.cause
  · exact h

theorem ginv_drop (s : Srv) (h : GInv s) (c thr : Nat) : GInv (step s (.drop c thr)) := by
  simp only [step]
  split
  · rename_i hu
    by_cases hcn : c < s.n
    · have hc := h.conns c hcn
      have hal : (s.conn c).alive = true := by
        rw [hc.alive_held]; unfold Srv.held; simp [hu]
      have e1 : Ext s (s.setConn c { s.conn c with user := (s.conn c).user - 1 }) := ext_setConn s c _ rfl rfl
      refine h.local (e1.trans (ext_reapOne _ thr c)) c (fun _ => ?_) (fun hge => absurd hcn (by omega))
        (fun c' hne => (agree_setConn s _ (Ne.symm hne)).trans (agree_reapOne _ _ (Ne.symm hne)))
      apply cinv_reapOne
      refine ⟨⟨?_, ?_, ?_, ?_, ?_, ?_, ?_⟩, ?_, ?_⟩
      · simpa using hc.core.loop_le
      · exact stray_sub (by simp) (by simp) hc.core.stray
      · have := hc.core.row
        unfold RowP ioQ remN at this ⊢
        simpa using this
      · simpa using hc.core.fcl_up
      · simpa using hc.core.fd
      · simpa using hc.core.name
      · simpa using hc.core.life
      · intro h1; simp [hal] at h1
      · simpa using hc.cause
    · -- not a connection: its record has no user references
      exfalso
      have := (h.fresh c (by omega)).2.2
      rw [this] at hu
      exact absurd hu (by decide)
  · exact h

theorem ginv_postDestroy (s : Srv) (h : GInv s) : GInv (step s .postDestroy) := by
  simp only [step]
  split
  · refine h.local (ext_enq s 0 .srvDtor) 0 (fun h0 => ?_) (fun _ => ?_) (fun c _ => ?_)
    · exact (h.conns 0 h0).agree (agree_enq s 0 (by simp [about, Task.conn?]))
    · exact (agree_enq s 0 (by simp [about, Task.conn?])).c
    · exact agree_enq s 0 (by simp [about, Task.conn?])
  · exact h

end MuduoVerif.Owner
