/-!
`list_pw`: pointwise proof of an equation between lists built from
`take` / `drop` / `++` / `replicate`, with the index side conditions left to `omega`.
-/
namespace MuduoVerif

syntax "list_pw" : tactic
macro_rules
  | `(tactic| list_pw) => `(tactic|
    (apply List.ext_getElem?
     intro i
     simp only [List.getElem?_take, List.getElem?_drop, List.getElem?_append, List.getElem?_replicate,
       List.length_take, List.length_append, List.length_drop, List.length_replicate, Nat.min_def]
     repeat' split
     all_goals first
       | rfl | omega | (congr 1; omega)
       | (symm; apply List.getElem?_eq_none
          (try simp only [List.length_take, List.length_append, List.length_drop, List.length_replicate, Nat.min_def])
          (repeat' split) <;> omega)
       | (apply List.getElem?_eq_none
          (try simp only [List.length_take, List.length_append, List.length_drop, List.length_replicate, Nat.min_def])
          (repeat' split) <;> omega)))

end MuduoVerif
