import MuduoVerif.Model.Owner
/-!
The invariant of the TcpServer ownership model (`Model/Owner.lean`) and how the primitive state
changes (enqueue, pop, record update, trace append) act on what it mentions.

Per connection `c` the functors that matter for the protocol are `est c`, `des c` (both only in the
queue of the connection's loop) and `rem c` (only in the base loop's queue); `ioQ`/`remN` extract
them.  `Row` lists the configurations (queue contents, state class, registered, in the map, server
alive) a connection can be in; everything else follows from the row.
-/
namespace MuduoVerif.Owner
open MuduoVerif.Gen.Owner
open MuduoVerif.Gen.Conn (StateE forceCloseAccepts shutdownAccepts forceCloseInLoopActs destroyedWhileConnected)

/-! ### normal forms of the hand-offs under the generated constants -/

theorem removeConnection_nf (s : Srv) (l c : Nat) :
    removeConnection s l c = if l = 0 then removeInLoop s l c else s.enq 0 (.rem c) := by
  simp [removeConnection, removeDispatch, removeTarget, target]

theorem handDestroy_rem (s : Srv) (l c : Nat) :
    handDestroy s l c destroyDispatch destroyTarget = s.enq (s.conn c).loop (.des c) := by
  simp [handDestroy, destroyDispatch, destroyTarget, target]

theorem handDestroy_dtor (s : Srv) (c : Nat) :
    handDestroy s 0 c dtorDispatch dtorTarget =
      if (s.conn c).loop = 0 then connectDestroyed s 0 c else s.enq (s.conn c).loop (.des c) := by
  simp [handDestroy, dtorDispatch, dtorTarget, target, eq_comm]

/-! ### per-connection observables -/

def isIo (c : Nat) (t : Task) : Bool := t == .est c || t == .des c

/-- `est c` / `des c` functors waiting in the queue of the connection's loop, in order -/
def ioQ (s : Srv) (c : Nat) : List Task := (s.q (s.conn c).loop).filter (isIo c)
/-- `rem c` functors waiting in the base loop's queue -/
def remN (s : Srv) (c : Nat) : Nat := (s.q 0).count (.rem c)

/-- no functor of `c` sits in a queue where it does not belong -/
def Stray (s : Srv) (c : Nat) : Prop :=
  ∀ l, (l ≠ (s.conn c).loop → Task.est c ∉ s.q l ∧ Task.des c ∉ s.q l ∧ Task.fcl c ∉ s.q l) ∧
       (l ≠ 0 → Task.rem c ∉ s.q l)

/-- the configurations of a connection -/
def RowP (s : Srv) (c : Nat) (im sa : Bool) : Prop :=
  let C := s.conn c
  -- accepted, `connectEstablished` on its way
  (ioQ s c = [.est c] ∧ remN s c = 0 ∧ C.st = .kConnecting ∧ C.registered = false ∧ im = true ∧ sa = true ∧ C.loop ≠ 0) ∨
  -- up
  (ioQ s c = [] ∧ remN s c = 0 ∧ isUp C.st = true ∧ C.registered = true ∧ im = true ∧ sa = true) ∨
  -- taken down on its loop, `removeConnectionInLoop` on its way to the base loop
  (ioQ s c = [] ∧ remN s c = 1 ∧ C.st = .kDisconnected ∧ C.registered = true ∧ im = true ∧ sa = true ∧ C.loop ≠ 0) ∨
  -- erased from the map, `connectDestroyed` on its way back
  (ioQ s c = [.des c] ∧ remN s c = 0 ∧ C.st = .kDisconnected ∧ C.registered = true ∧ im = false) ∨
  -- finished
  (ioQ s c = [] ∧ remN s c = 0 ∧ C.st = .kDisconnected ∧ C.registered = false ∧ im = false) ∨
  -- server destroyed while `connectEstablished` was on its way
  (ioQ s c = [.est c, .des c] ∧ remN s c = 0 ∧ C.st = .kConnecting ∧ C.registered = false ∧ im = false ∧ sa = false ∧ C.loop ≠ 0) ∨
  -- server destroyed while up
  (ioQ s c = [.des c] ∧ remN s c = 0 ∧ isUp C.st = true ∧ C.registered = true ∧ im = false ∧ sa = false ∧ C.loop ≠ 0) ∨
  -- server destroyed while `removeConnectionInLoop` was on its way (the race `TcpServer.cc` calls unsafe)
  (ioQ s c = [.des c] ∧ remN s c = 1 ∧ C.st = .kDisconnected ∧ C.registered = true ∧ im = false ∧ sa = false ∧ C.loop ≠ 0) ∨
  (ioQ s c = [] ∧ remN s c = 1 ∧ C.st = .kDisconnected ∧ C.registered = false ∧ im = false ∧ sa = false ∧ C.loop ≠ 0)

/-- the configurations, with the map and the server as they are -/
abbrev Row (s : Srv) (c : Nat) : Prop := RowP s c (s.inMap c) s.alive

/-! ### the per-connection trace automaton -/

inductive Cb | init | up | down
deriving DecidableEq, Repr

structure Auto where
  born : Bool := false
  cb : Cb := .init
  erased : Bool := false
  destroyed : Bool := false
  dead : Bool := false
deriving DecidableEq, Repr

/-- which event may follow which, per connection; `none` = not allowed -/
def autoStep (a : Auto) : Kind → Option Auto
  | .new => if !a.born then some { a with born := true } else none
  | .up => if a.born && a.cb == .init && !a.dead then some { a with cb := .up } else none
  | .msg => if a.cb == .up && !a.dead then some a else none
  | .down => if a.cb == .up && !a.dead then some { a with cb := .down } else none
  | .closeCb => if a.cb == .down && !a.dead then some a else none
  | .erase => if a.cb == .down && !a.erased then some { a with erased := true } else none
  | .destroyed => if a.cb == .down && !a.destroyed && !a.dead then some { a with destroyed := true } else none
  | .dtor => if a.destroyed && !a.dead then some { a with dead := true } else none
  | .uaf => none
  | .eraseMiss => none
  | .abort => none

def lifeStep (c : Nat) (o : Option Auto) (e : Ev) : Option Auto :=
  if e.conn = c then o.bind (fun a => autoStep a e.kind) else o

/-- the automaton run over the events of connection `c` -/
def life (c : Nat) (tr : List Ev) : Option Auto := tr.foldl (lifeStep c) (some {})

theorem life_snoc (c : Nat) (tr : List Ev) (e : Ev) : life c (tr ++ [e]) = lifeStep c (life c tr) e := by
  simp [life, List.foldl_append]

def clsOf : StateE → Cb
  | .kConnecting => .init
  | .kConnected => .up
  | .kDisconnecting => .up
  | .kDisconnected => .down

/-- where an event of this kind has to happen -/
def AffOK (s : Srv) (e : Ev) : Prop :=
  match e.kind with
  | .up | .msg | .down | .closeCb | .destroyed => e.loop = (s.conn e.conn).loop
  | .new | .erase | .eraseMiss => e.loop = 0
  | .dtor | .abort | .uaf => True

/-! ### the invariant -/

/-- everything the invariant says about connection `c`, except how `alive` relates to the reference holders;
`im`/`sa`: is the connection in the map / does the server exist (parameters, so that the middle of `~TcpServer` can
be described) -/
structure CCore (s : Srv) (c : Nat) (im sa : Bool) : Prop where
  loop_le : (s.conn c).loop ≤ s.L
  stray : Stray s c
  row : RowP s c im sa
  fcl_up : Task.fcl c ∈ s.q (s.conn c).loop → (s.conn c).st ≠ .kConnecting
  fd : (s.conn c).fdOpen = (s.conn c).alive
  name : (s.conn c).name = s.nameOf (idInitial + c * idStep)
  life : ∃ a, life c s.trace = some a ∧ a.born = true ∧ a.cb = clsOf (s.conn c).st ∧
    a.destroyed = (!(s.conn c).registered && (s.conn c).st != .kConnecting) ∧ a.dead = !(s.conn c).alive ∧
    (sa = true → a.erased = !im)

/-- the invariant of connection `c`: the object exists exactly as long as somebody holds a reference -/
structure CInv (s : Srv) (c : Nat) : Prop where
  core : CCore s c (s.inMap c) s.alive
  alive_held : (s.conn c).alive = s.held c
  /-- a close cause leaves something behind that will take the connection down -/
  cause : (s.conn c).cause = true →
    (s.conn c).st = .kDisconnected ∨ Task.fcl c ∈ s.q (s.conn c).loop ∨ Task.des c ∈ s.q (s.conn c).loop

/-- between the release of references and the destruction that may follow: a dead object has no holder -/
structure CInvW (s : Srv) (c : Nat) : Prop where
  core : CCore s c (s.inMap c) s.alive
  dead_free : (s.conn c).alive = false → s.held c = false
  cause : (s.conn c).cause = true →
    (s.conn c).st = .kDisconnected ∨ Task.fcl c ∈ s.q (s.conn c).loop ∨ Task.des c ∈ s.q (s.conn c).loop

/-! ### primitives -/

section prim
variable (s : Srv) (c c' l l' : Nat) (C : Conn) (t : Task) (k : Kind)

@[simp] theorem setConn_q : (s.setConn c C).q = s.q := rfl
@[simp] theorem setConn_done : (s.setConn c C).done = s.done := rfl
@[simp] theorem setConn_map : (s.setConn c C).map = s.map := rfl
@[simp] theorem setConn_alive : (s.setConn c C).alive = s.alive := rfl
@[simp] theorem setConn_trace : (s.setConn c C).trace = s.trace := rfl
@[simp] theorem setConn_L : (s.setConn c C).L = s.L := rfl
@[simp] theorem setConn_n : (s.setConn c C).n = s.n := rfl
@[simp] theorem setConn_nameOf : (s.setConn c C).nameOf = s.nameOf := rfl
@[simp] theorem setConn_exited : (s.setConn c C).exited = s.exited := rfl
@[simp] theorem setConn_pool : (s.setConn c C).pool = s.pool := rfl
@[simp] theorem setConn_nextId : (s.setConn c C).nextId = s.nextId := rfl
@[simp] theorem setConn_conn_self : (s.setConn c C).conn c = C := by simp [Srv.setConn]
theorem setConn_conn_other (h : c' ≠ c) : (s.setConn c C).conn c' = s.conn c' := by simp [Srv.setConn, h]
theorem setConn_conn : (s.setConn c C).conn c' = if c' = c then C else s.conn c' := rfl

@[simp] theorem emit_q : (s.emit c k l).q = s.q := rfl
@[simp] theorem emit_done : (s.emit c k l).done = s.done := rfl
@[simp] theorem emit_map : (s.emit c k l).map = s.map := rfl
@[simp] theorem emit_alive : (s.emit c k l).alive = s.alive := rfl
@[simp] theorem emit_conn : (s.emit c k l).conn = s.conn := rfl
@[simp] theorem emit_L : (s.emit c k l).L = s.L := rfl
@[simp] theorem emit_n : (s.emit c k l).n = s.n := rfl
@[simp] theorem emit_nameOf : (s.emit c k l).nameOf = s.nameOf := rfl
@[simp] theorem emit_exited : (s.emit c k l).exited = s.exited := rfl
@[simp] theorem emit_pool : (s.emit c k l).pool = s.pool := rfl
@[simp] theorem emit_nextId : (s.emit c k l).nextId = s.nextId := rfl
@[simp] theorem emit_trace : (s.emit c k l).trace = s.trace ++ [⟨c, k, l⟩] := rfl

@[simp] theorem enq_done : (s.enq l t).done = s.done := rfl
@[simp] theorem enq_map : (s.enq l t).map = s.map := rfl
@[simp] theorem enq_alive : (s.enq l t).alive = s.alive := rfl
@[simp] theorem enq_conn : (s.enq l t).conn = s.conn := rfl
@[simp] theorem enq_L : (s.enq l t).L = s.L := rfl
@[simp] theorem enq_n : (s.enq l t).n = s.n := rfl
@[simp] theorem enq_nameOf : (s.enq l t).nameOf = s.nameOf := rfl
@[simp] theorem enq_exited : (s.enq l t).exited = s.exited := rfl
@[simp] theorem enq_pool : (s.enq l t).pool = s.pool := rfl
@[simp] theorem enq_nextId : (s.enq l t).nextId = s.nextId := rfl
@[simp] theorem enq_trace : (s.enq l t).trace = s.trace := rfl
theorem enq_q : (s.enq l t).q l' = if l' = l then s.q l' ++ [t] else s.q l' := rfl
@[simp] theorem enq_q_self : (s.enq l t).q l = s.q l ++ [t] := by simp [Srv.enq]
theorem enq_q_other (h : l' ≠ l) : (s.enq l t).q l' = s.q l' := by simp [Srv.enq, h]

@[simp] theorem inMap_setConn : (s.setConn c C).inMap c' = s.inMap c' := rfl
@[simp] theorem inMap_emit : (s.emit c k l).inMap c' = s.inMap c' := rfl
@[simp] theorem inMap_enq : (s.enq l t).inMap c' = s.inMap c' := rfl

end prim

/-- `t` is a functor of connection `c` -/
def about (c : Nat) (t : Task) : Bool := t.conn? == some c

theorem holds_about {c : Nat} {t : Task} (h : t.holds c = true) : about c t = true := by
  cases t <;> simp_all [Task.holds, about, Task.conn?]

theorem isIo_about {c : Nat} {t : Task} (h : isIo c t = true) : about c t = true := by
  cases t <;> simp_all [isIo, about, Task.conn?]

theorem filter_isIo_about (c : Nat) (q : List Task) : (q.filter (about c)).filter (isIo c) = q.filter (isIo c) := by
  rw [List.filter_filter]; congr 1; funext t
  cases h : isIo c t <;> simp [isIo_about, h]

theorem any_holds_about (c : Nat) (q : List Task) : (q.filter (about c)).any (·.holds c) = q.any (·.holds c) := by
  induction q with
  | nil => rfl
  | cons t q ih =>
    by_cases h : about c t = true
    · simp [List.filter, h, ih]
    · have : t.holds c = false := by
        cases hh : t.holds c with
        | false => rfl
        | true => exact absurd (holds_about hh) h
      simp [List.filter, h, ih, this]

theorem mem_filter_about {c : Nat} {t : Task} (h : about c t = true) (q : List Task) : t ∈ q.filter (about c) ↔ t ∈ q := by
  simp [List.mem_filter, h]

theorem count_filter_about {c : Nat} {t : Task} (h : about c t = true) (q : List Task) :
    (q.filter (about c)).count t = q.count t := by
  rw [List.count_filter h]

/-- `s'` looks like `s` as far as the configuration of connection `c` is concerned -/
structure AgreeC (s s' : Srv) (c : Nat) : Prop where
  conn : s'.conn c = s.conn c
  q : ∀ l, (s'.q l).filter (about c) = (s.q l).filter (about c)
  L : s'.L = s.L
  nameOf : s'.nameOf = s.nameOf
  life : life c s'.trace = life c s.trace

/-- `s'` looks like `s` as far as connection `c` is concerned -/
structure Agree (s s' : Srv) (c : Nat) : Prop where
  conn : s'.conn c = s.conn c
  q : ∀ l, (s'.q l).filter (about c) = (s.q l).filter (about c)
  hold : ∀ l, ((s'.q l).any (·.holds c) || (s'.done l).any (·.holds c)) = ((s.q l).any (·.holds c) || (s.done l).any (·.holds c))
  inMap : s'.inMap c = s.inMap c
  alive : s'.alive = s.alive
  L : s'.L = s.L
  nameOf : s'.nameOf = s.nameOf
  life : life c s'.trace = life c s.trace

theorem Agree.c {s s' : Srv} {c : Nat} (h : Agree s s' c) : AgreeC s s' c := ⟨h.conn, h.q, h.L, h.nameOf, h.life⟩

theorem Agree.refl (s : Srv) (c : Nat) : Agree s s c := ⟨rfl, fun _ => rfl, fun _ => rfl, rfl, rfl, rfl, rfl, rfl⟩

theorem Agree.trans {s s' s'' : Srv} {c : Nat} (h1 : Agree s s' c) (h2 : Agree s' s'' c) : Agree s s'' c :=
  ⟨h2.conn.trans h1.conn, fun l => (h2.q l).trans (h1.q l), fun l => (h2.hold l).trans (h1.hold l),
   h2.inMap.trans h1.inMap, h2.alive.trans h1.alive, h2.L.trans h1.L, h2.nameOf.trans h1.nameOf, h2.life.trans h1.life⟩

theorem agree_mem {s s' : Srv} {c : Nat} (h : AgreeC s s' c) {t : Task} (ht : about c t = true) (l : Nat) :
    t ∈ s'.q l ↔ t ∈ s.q l := by
  rw [← mem_filter_about ht, h.q l, mem_filter_about ht]

theorem agree_count {s s' : Srv} {c : Nat} (h : AgreeC s s' c) {t : Task} (ht : about c t = true) (l : Nat) :
    (s'.q l).count t = (s.q l).count t := by
  rw [← count_filter_about ht, h.q l, count_filter_about ht]

theorem agree_ioQ {s s' : Srv} {c : Nat} (h : AgreeC s s' c) : ioQ s' c = ioQ s c := by
  unfold ioQ; rw [h.conn, ← filter_isIo_about, h.q, filter_isIo_about]

theorem agree_remN {s s' : Srv} {c : Nat} (h : AgreeC s s' c) : remN s' c = remN s c :=
  agree_count h (by simp [about, Task.conn?]) 0

theorem agree_held {s s' : Srv} {c : Nat} (h : Agree s s' c) : s'.held c = s.held c := by
  unfold Srv.held Srv.inQueues
  rw [h.inMap, h.conn, h.L]
  congr 1
  exact List.any_congr rfl (fun l => h.hold l)


@[simp] theorem about_est (c : Nat) : about c (.est c) = true := by simp [about, Task.conn?]
@[simp] theorem about_des (c : Nat) : about c (.des c) = true := by simp [about, Task.conn?]
@[simp] theorem about_rem (c : Nat) : about c (.rem c) = true := by simp [about, Task.conn?]
@[simp] theorem about_fcl (c : Nat) : about c (.fcl c) = true := by simp [about, Task.conn?]
@[simp] theorem about_shut (c : Nat) : about c (.shut c) = true := by simp [about, Task.conn?]

theorem agree_row {s s' : Srv} {c : Nat} {im sa : Bool} (h : AgreeC s s' c) (hr : RowP s c im sa) : RowP s' c im sa := by
  unfold RowP at *
  rw [agree_ioQ h, agree_remN h, h.conn]
  exact hr

theorem agree_stray {s s' : Srv} {c : Nat} (h : AgreeC s s' c) (hr : Stray s c) : Stray s' c := by
  intro l
  rw [h.conn, agree_mem h (about_est c), agree_mem h (about_des c), agree_mem h (about_fcl c), agree_mem h (about_rem c)]
  exact hr l

/-- the frame rule: a step that does not concern connection `c` keeps what the invariant says about it -/
theorem CCore.agree {s s' : Srv} {c : Nat} {im sa : Bool} (hc : CCore s c im sa) (h : AgreeC s s' c) : CCore s' c im sa where
  loop_le := by rw [h.conn, h.L]; exact hc.loop_le
  stray := agree_stray h hc.stray
  row := agree_row h hc.row
  fcl_up := by rw [h.conn, agree_mem h (about_fcl c)]; exact hc.fcl_up
  fd := by rw [h.conn]; exact hc.fd
  name := by rw [h.conn, h.nameOf]; exact hc.name
  life := by rw [h.life, h.conn]; exact hc.life

theorem CInv.agree {s s' : Srv} {c : Nat} (hc : CInv s c) (h : Agree s s' c) : CInv s' c where
  core := by rw [h.inMap, h.alive]; exact hc.core.agree h.c
  alive_held := by rw [h.conn, agree_held h]; exact hc.alive_held
  cause := by rw [h.conn, agree_mem h.c (about_fcl c), agree_mem h.c (about_des c)]; exact hc.cause

theorem CInvW.agree {s s' : Srv} {c : Nat} (hc : CInvW s c) (h : Agree s s' c) : CInvW s' c where
  core := by rw [h.inMap, h.alive]; exact hc.core.agree h.c
  dead_free := by rw [h.conn, agree_held h]; exact hc.dead_free
  cause := by rw [h.conn, agree_mem h.c (about_fcl c), agree_mem h.c (about_des c)]; exact hc.cause

theorem CInv.weak {s : Srv} {c : Nat} (hc : CInv s c) : CInvW s c :=
  ⟨hc.core, fun h => by rw [← hc.alive_held]; exact h, hc.cause⟩

end MuduoVerif.Owner
