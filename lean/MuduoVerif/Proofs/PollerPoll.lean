import MuduoVerif.Proofs.PollerOps
/-!
# PollPoller: the slot invariant and its preservation by every operation

`PollStruct`: every registered channel owns the `pollfds_` slot its `index_` names, the slot holds
`(fd, events)` — with the descriptor negated (`-fd-1`) exactly when the channel has no interest —,
every slot is owned, unregistered channels have no slot and are not in `channels_`.
-/
namespace MuduoVerif.Poller
open MuduoVerif.Gen.Poller

theorem fdOf_inj {a b : Nat} (h : fdOf a = fdOf b) : a = b := by
  unfold fdOf at h; omega

/-- the `pollfds_` entry of a registered channel -/
def entryOf (events : Nat) (c : Nat) : Int × Nat :=
  (if events = 0 then pollIgnoreFd (fdOf c) else fdOf c, events)

theorem entryOf_inj {e e' : Nat} {c d : Nat} (h : entryOf e c = entryOf e' d) : c = d := by
  have h1 := congrArg Prod.fst h
  simp only [entryOf, pollIgnoreFd, fdOf] at h1
  split at h1 <;> split at h1 <;> omega

structure PollStruct (s : State) : Prop where
  reg : ∀ c, (s.chans c).added = true →
    0 ≤ (s.chans c).index ∧ s.cmap (fdOf c) = some c ∧
      s.pollfds[(s.chans c).index.toNat]? = some (entryOf (s.chans c).events c)
  unreg : ∀ c, (s.chans c).added = false →
    (s.chans c).index < 0 ∧ (s.chans c).events = 0 ∧ s.cmap (fdOf c) = none
  cmapId : ∀ fd m, s.cmap fd = some m → fd = fdOf m
  cover : ∀ i, i < s.pollfds.length → ∃ c, (s.chans c).added = true ∧ (s.chans c).index = (i : Int)

theorem PollStruct.idx_inj {s : State} (h : PollStruct s) {c d : Nat} (hc : (s.chans c).added = true)
    (hd : (s.chans d).added = true) (hi : (s.chans c).index = (s.chans d).index) : c = d := by
  have h1 := (h.reg c hc).2.2
  have h2 := (h.reg d hd).2.2
  rw [hi, h2] at h1
  exact (entryOf_inj (Option.some.inj h1)).symm

theorem PollStruct.idx_lt {s : State} (h : PollStruct s) {c : Nat} (hc : (s.chans c).added = true) :
    (s.chans c).index.toNat < s.pollfds.length := by
  have h1 := (h.reg c hc).2.2
  exact (List.getElem?_eq_some_iff.1 h1).1

theorem PollStruct.cmap_added {s : State} (h : PollStruct s) {fd : Int} {m : Nat} (hm : s.cmap fd = some m) :
    (s.chans m).added = true := by
  have hfd := h.cmapId fd m hm
  cases ha : (s.chans m).added with
  | true => rfl
  | false =>
    have := (h.unreg m ha).2.2
    rw [← hfd, hm] at this
    exact absurd this (by simp)

/-- the invariant reads only the interest word, slot index and registration flag of the channels -/
theorem PollStruct.congr {s t : State} (h : PollStruct s) (hc : t.cmap = s.cmap) (hp : t.pollfds = s.pollfds)
    (he : ∀ c, (t.chans c).events = (s.chans c).events) (hi : ∀ c, (t.chans c).index = (s.chans c).index)
    (ha : ∀ c, (t.chans c).added = (s.chans c).added) : PollStruct t := by
  refine ⟨?_, ?_, ?_, ?_⟩
  · intro c hac
    rw [ha] at hac
    rw [hi, hc, hp, he]
    exact h.reg c hac
  · intro c hac
    rw [ha] at hac
    rw [hi, he, hc]
    exact h.unreg c hac
  · intro fd m hm
    rw [hc] at hm
    exact h.cmapId fd m hm
  · intro i hlt
    rw [hp] at hlt
    obtain ⟨c, h1, h2⟩ := h.cover i hlt
    exact ⟨c, by rw [ha]; exact h1, by rw [hi]; exact h2⟩

theorem PollStruct.frame {s t : State} (f : Frame s t) (h : PollStruct s) : PollStruct t :=
  h.congr f.cmap f.pollfds f.ev f.idx f.added

/-! ### `PollPoller::updateChannel` -/

theorem pollUpdate_new {s : State} {c : Nat} (hi : (s.chans c).index < 0) (hc : s.cmap (fdOf c) = none) :
    pollUpdate s c = { s with
        pollfds := s.pollfds ++ [entryOf (s.chans c).events c]
        chans := fun x => if x = c then { s.chans c with index := (s.pollfds.length : Int) } else s.chans x
        cmap := fun x => if x = fdOf c then some c else s.cmap x } := by
  simp only [pollUpdate, pollIsNew, hi, hc, if_true, ne_eq, not_true_eq_false, if_false, entryOf, pollNewIgnores,
    pollNewIgnoreFd, pollIgnoreFd, isNoneEvent, kNoneEvent]
  congr

theorem pollUpdate_old {s : State} {c : Nat} (hi : 0 ≤ (s.chans c).index) (hc : s.cmap (fdOf c) = some c)
    {pfd : Int × Nat} (hp : s.pollfds[(s.chans c).index.toNat]? = some pfd)
    (hf : pfd.1 = fdOf c ∨ pfd.1 = pollIgnoreFd (fdOf c)) :
    pollUpdate s c = { s with pollfds := s.pollfds.set (s.chans c).index.toNat (entryOf (s.chans c).events c) } := by
  have hn : ¬ (s.chans c).index < 0 := by omega
  have hf' : ¬ (pfd.1 ≠ fdOf c ∧ pfd.1 ≠ pollIgnoreFd (fdOf c)) := by
    rcases hf with h | h <;> simp [h]
  simp only [pollUpdate, pollIsNew, hn, hc, hp, if_false, ne_eq, not_true_eq_false, hf', entryOf,
    pollUpdateIgnores, isNoneEvent, kNoneEvent]
  congr


theorem pollStruct_update_new {s : State} (h : PollStruct s) (c : Nat) (k : OpKind)
    (ha : (s.chans c).added = false) :
    PollStruct (pollUpdate (setInterest s c k) c) ∧ (pollUpdate (setInterest s c k) c).dead = s.dead ∧
      (pollUpdate (setInterest s c k) c).out = s.out := by
  obtain ⟨hi, _, hc⟩ := h.unreg c ha
  have hi' : ((setInterest s c k).chans c).index < 0 := by simpa [setInterest] using hi
  have hc' : (setInterest s c k).cmap (fdOf c) = none := by simpa [setInterest] using hc
  rw [pollUpdate_new hi' hc']
  refine ⟨⟨?_, ?_, ?_, ?_⟩, rfl, rfl⟩
  · intro d hd
    by_cases hdc : d = c
    · subst hdc
      simp [setInterest]
    · simp only [setInterest, hdc, if_false] at hd ⊢
      obtain ⟨h1, h2, h3⟩ := h.reg d hd
      have hfd : fdOf d ≠ fdOf c := fun e => hdc (fdOf_inj e)
      refine ⟨h1, by rw [if_neg hfd]; exact h2, ?_⟩
      rw [List.getElem?_append_left (h.idx_lt hd)]; exact h3
  · intro d hd
    by_cases hdc : d = c
    · subst hdc; simp [setInterest] at hd
    · simp only [setInterest, hdc, if_false] at hd ⊢
      have hfd : fdOf d ≠ fdOf c := fun e => hdc (fdOf_inj e)
      rw [if_neg hfd]
      exact h.unreg d hd
  · intro fd m hm
    simp only [setInterest] at hm
    split at hm
    · rename_i hfd; rw [hfd]; injection hm with hm; rw [hm]
    · exact h.cmapId fd m hm
  · intro i hlt
    simp only [setInterest, List.length_append, List.length_singleton] at hlt ⊢
    by_cases hi2 : i < s.pollfds.length
    · obtain ⟨d, hd1, hd2⟩ := h.cover i hi2
      have hdc : d ≠ c := by intro e; rw [e, ha] at hd1; exact absurd hd1 (by simp)
      exact ⟨d, by simp [hdc, hd1], by simp [hdc, hd2]⟩
    · exact ⟨c, by simp, by simp; omega⟩


theorem entryOf_fst (e : Nat) (c : Nat) :
    (entryOf e c).1 = fdOf c ∨ (entryOf e c).1 = pollIgnoreFd (fdOf c) := by
  unfold entryOf; split <;> simp

theorem PollStruct.toNat_ne {s : State} (h : PollStruct s) {c d : Nat} (hc : (s.chans c).added = true)
    (hd : (s.chans d).added = true) (hdc : d ≠ c) : (s.chans c).index.toNat ≠ (s.chans d).index.toNat := by
  intro e
  have h1 := (h.reg c hc).1
  have h2 := (h.reg d hd).1
  exact hdc (h.idx_inj hd hc (by omega))

theorem pollStruct_update_old {s : State} (h : PollStruct s) (c : Nat) (k : OpKind)
    (ha : (s.chans c).added = true) :
    PollStruct (pollUpdate (setInterest s c k) c) ∧ (pollUpdate (setInterest s c k) c).dead = s.dead ∧
      (pollUpdate (setInterest s c k) c).out = s.out := by
  obtain ⟨hi, hc, hp⟩ := h.reg c ha
  have hi' : 0 ≤ ((setInterest s c k).chans c).index := by simpa [setInterest] using hi
  have hc' : (setInterest s c k).cmap (fdOf c) = some c := by simpa [setInterest] using hc
  have hp' : (setInterest s c k).pollfds[((setInterest s c k).chans c).index.toNat]? =
      some (entryOf (s.chans c).events c) := by simpa [setInterest] using hp
  rw [pollUpdate_old hi' hc' hp' (entryOf_fst _ _)]
  have hlt := h.idx_lt ha
  refine ⟨⟨?_, ?_, ?_, ?_⟩, rfl, rfl⟩
  · intro d hd
    by_cases hdc : d = c
    · subst hdc
      simp [setInterest, hi, hc, hlt]
    · simp only [setInterest, hdc, if_false, if_true] at hd ⊢
      obtain ⟨h1, h2, h3⟩ := h.reg d hd
      refine ⟨h1, h2, ?_⟩
      rw [List.getElem?_set_ne (h.toNat_ne ha hd hdc)]; exact h3
  · intro d hd
    by_cases hdc : d = c
    · subst hdc; simp [setInterest] at hd
    · simp only [setInterest, hdc, if_false] at hd ⊢
      exact h.unreg d hd
  · intro fd m hm
    exact h.cmapId fd m hm
  · intro i hlt2
    simp only [setInterest, List.length_set] at hlt2 ⊢
    obtain ⟨d, hd1, hd2⟩ := h.cover i hlt2
    refine ⟨d, ?_, ?_⟩
    · by_cases hdc : d = c <;> simp [hdc, hd1]
    · by_cases hdc : d = c
      · subst hdc; simp [hd2]
      · simp [hdc, hd2]


/-! ### `PollPoller::removeChannel` -/

theorem pollRemove_last {s : State} {c : Nat} (hc : s.cmap (fdOf c) = some c) (he : (s.chans c).events = 0)
    (hi : 0 ≤ (s.chans c).index)
    (hp : s.pollfds[(s.chans c).index.toNat]? = some (pollIgnoreFd (fdOf c), 0))
    (hl : (s.chans c).index.toNat = s.pollfds.length - 1) :
    pollRemove s c = { s with
        cmap := fun x => if x = fdOf c then none else s.cmap x
        pollfds := s.pollfds.dropLast
        chans := fun x => if x = c then { s.chans c with index := pollIndexAfterRemove } else s.chans x } := by
  have hn : ¬ (s.chans c).index < 0 := by omega
  rw [hl] at hp
  simp [pollRemove, hc, he, hn, hp, isNoneEvent, kNoneEvent, pollRemoveIsLast, hl]

theorem pollRemove_mid {s : State} {c : Nat} (hc : s.cmap (fdOf c) = some c) (he : (s.chans c).events = 0)
    (hi : 0 ≤ (s.chans c).index)
    (hp : s.pollfds[(s.chans c).index.toNat]? = some (pollIgnoreFd (fdOf c), 0))
    (hl : (s.chans c).index.toNat ≠ s.pollfds.length - 1)
    {last : Int × Nat} (hlast : s.pollfds.getLast? = some last) {m : Nat}
    (hm : (if (if pollEndIsIgnored last.1 then pollDecodeFd last.1 else last.1) = fdOf c then none
            else s.cmap (if pollEndIsIgnored last.1 then pollDecodeFd last.1 else last.1)) = some m) :
    pollRemove s c = { s with
        cmap := fun x => if x = fdOf c then none else s.cmap x
        pollfds := (s.pollfds.set (s.chans c).index.toNat last).dropLast
        chans := fun x =>
          if x = c then { s.chans c with index := pollIndexAfterRemove }
          else if x = m then { s.chans m with index := ((s.chans c).index.toNat : Int) }
          else s.chans x } := by
  have hn : ¬ (s.chans c).index < 0 := by omega
  simp [pollRemove, hc, he, hn, hp, isNoneEvent, kNoneEvent, pollRemoveIsLast, hl, hlast, hm]


theorem entryOf_decode (e : Nat) (m : Nat) :
    (if pollEndIsIgnored (entryOf e m).1 then pollDecodeFd (entryOf e m).1 else (entryOf e m).1) = fdOf m := by
  unfold entryOf pollEndIsIgnored pollDecodeFd pollIgnoreFd fdOf
  by_cases he : e = 0
  · simp only [he, if_true]
    split <;> omega
  · simp only [he, if_false]
    split <;> omega

theorem pollStruct_remove {s : State} (h : PollStruct s) (c : Nat) (ha : (s.chans c).added = true)
    (he : (s.chans c).events = 0) :
    PollStruct (pollRemove (setChan s c { s.chans c with added := false }) c) ∧
      (pollRemove (setChan s c { s.chans c with added := false }) c).dead = s.dead ∧
      (pollRemove (setChan s c { s.chans c with added := false }) c).out = s.out := by
  obtain ⟨hi, hc, hp⟩ := h.reg c ha
  have hlt := h.idx_lt ha
  rw [he] at hp
  have hent : entryOf 0 c = (pollIgnoreFd (fdOf c), 0) := by simp [entryOf]
  rw [hent] at hp
  generalize hS : setChan s c { s.chans c with added := false } = S
  have hSc : S.chans c = { s.chans c with added := false } := by subst hS; simp [setChan]
  have hSd : ∀ d, d ≠ c → S.chans d = s.chans d := by intro d hd; subst hS; simp [setChan, hd]
  have hScm : S.cmap = s.cmap := by subst hS; rfl
  have hSp : S.pollfds = s.pollfds := by subst hS; rfl
  have hSdead : S.dead = s.dead := by subst hS; rfl
  have hSout : S.out = s.out := by subst hS; rfl
  have hc' : S.cmap (fdOf c) = some c := by rw [hScm]; exact hc
  have he' : (S.chans c).events = 0 := by rw [hSc]; exact he
  have hi' : 0 ≤ (S.chans c).index := by rw [hSc]; exact hi
  have hidx : (S.chans c).index = (s.chans c).index := by rw [hSc]
  have hp' : S.pollfds[(S.chans c).index.toNat]? = some (pollIgnoreFd (fdOf c), 0) := by
    rw [hSp, hidx]; exact hp
  by_cases hl : (s.chans c).index.toNat = s.pollfds.length - 1
  · have hl' : (S.chans c).index.toNat = S.pollfds.length - 1 := by rw [hSp, hidx]; exact hl
    rw [pollRemove_last hc' he' hi' hp' hl']
    refine ⟨⟨?_, ?_, ?_, ?_⟩, hSdead, hSout⟩
    · intro d hd
      by_cases hdc : d = c
      · subst hdc; simp [hSc] at hd
      · simp only [hdc, if_false, hSd d hdc, hSp, hScm] at hd ⊢
        obtain ⟨h1, h2, h3⟩ := h.reg d hd
        have hfd : fdOf d ≠ fdOf c := fun e => hdc (fdOf_inj e)
        refine ⟨h1, by rw [if_neg hfd]; exact h2, ?_⟩
        have hne := h.toNat_ne ha hd hdc
        have hlt2 := h.idx_lt hd
        rw [List.getElem?_dropLast, if_pos (by omega)]; exact h3
    · intro d hd
      by_cases hdc : d = c
      · subst hdc; simp [hSc, pollIndexAfterRemove, he]
      · simp only [hdc, if_false, hSd d hdc, hScm] at hd ⊢
        have hfd : fdOf d ≠ fdOf c := fun e => hdc (fdOf_inj e)
        rw [if_neg hfd]; exact h.unreg d hd
    · intro fd m hm
      simp only [hScm] at hm
      split at hm
      · exact absurd hm (by simp)
      · exact h.cmapId fd m hm
    · intro i hlt2
      simp only [hSp, List.length_dropLast] at hlt2 ⊢
      obtain ⟨d, hd1, hd2⟩ := h.cover i (by omega)
      have hdc : d ≠ c := by intro e; subst e; omega
      exact ⟨d, by simp [hdc, hSd d hdc, hd1], by simp [hdc, hSd d hdc, hd2]⟩
  · have hl' : (S.chans c).index.toNat ≠ S.pollfds.length - 1 := by rw [hSp, hidx]; exact hl
    obtain ⟨m, hm1, hm2⟩ := h.cover (s.pollfds.length - 1) (by omega)
    have hmc : m ≠ c := by intro e; subst e; omega
    obtain ⟨hmi, hmcm, hmp⟩ := h.reg m hm1
    have hmt : (s.chans m).index.toNat = s.pollfds.length - 1 := by omega
    rw [hmt] at hmp
    have hlast : S.pollfds.getLast? = some (entryOf (s.chans m).events m) := by
      rw [hSp, List.getLast?_eq_getElem?]; exact hmp
    have hfm : fdOf m ≠ fdOf c := fun e => hmc (fdOf_inj e)
    have hm : (if (if pollEndIsIgnored (entryOf (s.chans m).events m).1 then
                pollDecodeFd (entryOf (s.chans m).events m).1 else (entryOf (s.chans m).events m).1) = fdOf c
              then none
              else S.cmap (if pollEndIsIgnored (entryOf (s.chans m).events m).1 then
                pollDecodeFd (entryOf (s.chans m).events m).1 else (entryOf (s.chans m).events m).1)) = some m := by
      rw [entryOf_decode, if_neg hfm, hScm]; exact hmcm
    rw [pollRemove_mid hc' he' hi' hp' hl' hlast hm]
    have hidxlt : (s.chans c).index.toNat < s.pollfds.length - 1 := by omega
    refine ⟨⟨?_, ?_, ?_, ?_⟩, hSdead, hSout⟩
    · intro d hd
      by_cases hdc : d = c
      · subst hdc; simp [hSc] at hd
      · by_cases hdm : d = m
        · subst hdm
          simp only [hdc, if_false, if_true, hSd d hdc, hSp, hScm, hidx, Int.toNat_natCast] at hd ⊢
          refine ⟨by omega, by rw [if_neg hfm]; exact hmcm, ?_⟩
          rw [List.getElem?_dropLast, List.length_set, if_pos hidxlt, List.getElem?_set_self hlt]
        · simp only [hdc, hdm, if_false, hSd d hdc, hSp, hScm, hidx] at hd ⊢
          obtain ⟨h1, h2, h3⟩ := h.reg d hd
          have hfd : fdOf d ≠ fdOf c := fun e => hdc (fdOf_inj e)
          refine ⟨h1, by rw [if_neg hfd]; exact h2, ?_⟩
          have hne := h.toNat_ne ha hd hdc
          have hne2 := h.toNat_ne hm1 hd hdm
          have hlt2 := h.idx_lt hd
          rw [List.getElem?_dropLast, List.length_set, if_pos (by omega), List.getElem?_set_ne hne]; exact h3
    · intro d hd
      by_cases hdc : d = c
      · subst hdc; simp [hSc, pollIndexAfterRemove, he]
      · by_cases hdm : d = m
        · subst hdm
          simp only [hdc, if_false, if_true, hSd d hdc] at hd
          rw [hm1] at hd; exact absurd hd (by simp)
        · simp only [hdc, hdm, if_false, hSd d hdc, hScm] at hd ⊢
          have hfd : fdOf d ≠ fdOf c := fun e => hdc (fdOf_inj e)
          rw [if_neg hfd]; exact h.unreg d hd
    · intro fd m' hm'
      simp only [hScm] at hm'
      split at hm'
      · exact absurd hm' (by simp)
      · exact h.cmapId fd m' hm'
    · intro i hlt2
      simp only [hSp, List.length_dropLast, List.length_set, hidx] at hlt2 ⊢
      by_cases hii : i = (s.chans c).index.toNat
      · refine ⟨m, by simp [hmc, hSd m hmc, hm1], by simp [hmc, hii]⟩
      · obtain ⟨d, hd1, hd2⟩ := h.cover i (by omega)
        have hdc : d ≠ c := by intro e; subst e; omega
        have hdm : d ≠ m := by intro e; subst e; omega
        exact ⟨d, by simp [hdc, hdm, hSd d hdc, hd1], by simp [hdc, hdm, hSd d hdc, hd2]⟩


/-! ### every operation -/

theorem PollStruct.afterReport {s : State} (h : PollStruct s) (c k) : PollStruct (report s c k) := by
  unfold report; split
  · exact h
  · exact h.congr rfl rfl (fun _ => rfl) (fun _ => rfl) (fun _ => rfl)

theorem report_dead (s : State) (c k) : (report s c k).dead = s.dead := by
  unfold report; split <;> rfl

/-- on a poll loop every operation keeps the slot invariant, fails no assertion and logs no failure -/
theorem pollStruct_applyOp {s : State} (hbe : s.be = .poll) (h : PollStruct s) (c : Nat) (k : OpKind) :
    PollStruct (applyOp s c k) ∧ (applyOp s c k).dead = s.dead ∧
      ∃ l, (applyOp s c k).out = s.out ++ l ∧ ∀ e ∈ l, e.isFailure = false := by
  have hrep : ∀ t : State, PollStruct t → t.dead = s.dead → t.out = s.out →
      PollStruct (report t c k) ∧ (report t c k).dead = s.dead ∧
      ∃ l, (report t c k).out = s.out ++ l ∧ ∀ e ∈ l, e.isFailure = false := by
    intro t h1 h2 h3
    refine ⟨h1.afterReport c k, (report_dead t c k).trans h2, ?_⟩
    unfold report
    split
    · exact ⟨[], by simp [h3], by simp⟩
    · exact ⟨[.op c k (t.chans c).events (t.chans c).index], by simp [emit, h3],
        by simp [Ev.isFailure, Ev.isCtlFailure, Ev.isAbort]⟩
  cases hd : s.dead with
  | true => rw [applyOp_dead hd]; exact ⟨h, hd, [], by simp, by simp⟩
  | false =>
    by_cases hacc : accepts s c k
    · cases hk : k.isUpdate with
      | true =>
        rw [applyOp_update hd hk]
        have hbe' : (setInterest s c k).be = .poll := hbe
        simp only [updateChannel, hbe']
        cases ha : (s.chans c).added with
        | false =>
          obtain ⟨h1, h2, h3⟩ := pollStruct_update_new h c k ha
          have := hrep _ h1 h2 h3
          rw [hd] at this; exact this
        | true =>
          obtain ⟨h1, h2, h3⟩ := pollStruct_update_old h c k ha
          have := hrep _ h1 h2 h3
          rw [hd] at this; exact this
      | false =>
        cases k with
        | remove =>
          have hr : removeOk s c := hacc
          rw [applyOp_remove hd hr]
          have hbe' : (setChan s c { s.chans c with added := false }).be = .poll := hbe
          simp only [removeChannel, hbe']
          obtain ⟨h1, h2, h3⟩ := pollStruct_remove h c hr.1 hr.2.1
          have := hrep _ h1 h2 h3
          rw [hd] at this; exact this
        | recreate =>
          have hr : recreateOk s c := hacc
          rw [applyOp_recreate hd hr]
          have hst : PollStruct (setChan s c {}) := by
            obtain ⟨hi, he, hc⟩ := h.unreg c hr.1
            refine ⟨?_, ?_, ?_, ?_⟩
            · intro d hdd
              by_cases hdc : d = c
              · subst hdc; simp [setChan] at hdd
              · simp only [setChan, hdc, if_false] at hdd ⊢
                exact h.reg d hdd
            · intro d hdd
              by_cases hdc : d = c
              · subst hdc; simp [setChan, hc]
              · simp only [setChan, hdc, if_false] at hdd ⊢
                exact h.unreg d hdd
            · exact h.cmapId
            · intro i hlt
              obtain ⟨d, hd1, hd2⟩ := h.cover i hlt
              have hdc : d ≠ c := by intro e; subst e; rw [hr.1] at hd1; exact absurd hd1 (by simp)
              exact ⟨d, by simp [setChan, hdc, hd1], by simp [setChan, hdc, hd2]⟩
          have := hrep _ hst rfl rfl
          rw [hd] at this; exact this
        | _ => simp [OpKind.isUpdate] at hk
    · rw [applyOp_reject hd hacc]
      exact ⟨h.congr rfl rfl (fun _ => rfl) (fun _ => rfl) (fun _ => rfl), hd, [.reject c k], rfl,
        by simp [Ev.isFailure, Ev.isCtlFailure, Ev.isAbort]⟩

/-! ### the poll phase -/

/-- every `pollfds_` entry is the entry of a registered channel -/
theorem PollStruct.slot {s : State} (h : PollStruct s) {pfd : Int × Nat} (hp : pfd ∈ s.pollfds) :
    ∃ d, (s.chans d).added = true ∧ pfd = entryOf (s.chans d).events d ∧ s.cmap (fdOf d) = some d := by
  obtain ⟨i, hi, hget⟩ := List.getElem_of_mem hp
  obtain ⟨d, hd1, hd2⟩ := h.cover i hi
  obtain ⟨_, h2, h3⟩ := h.reg d hd1
  have : (s.chans d).index.toNat = i := by omega
  rw [this, List.getElem?_eq_getElem hi, hget] at h3
  exact ⟨d, hd1, Option.some.inj h3, h2⟩

theorem pollActive_pos {ready : List (Nat × Nat)} {pfd : Int × Nat} (h : pollActive (pollRev ready pfd : Int)) :
    0 ≤ pfd.1 := by
  unfold pollActive pollRev at h
  split at h
  · simp at h
  · omega

theorem entryOf_nonneg {e d : Nat} (h : 0 ≤ (entryOf e d).1) : e ≠ 0 ∧ (entryOf e d).1 = fdOf d := by
  unfold entryOf at h ⊢
  by_cases he : e = 0
  · simp only [he, if_true, pollIgnoreFd, fdOf] at h; omega
  · simp [he]

theorem pollFill_alive (ready : List (Nat × Nat)) :
    ∀ (pfds : List (Int × Nat)) (s : State) (n : Nat) (acc : List Nat), PollStruct s →
      (∀ pfd ∈ pfds, pfd ∈ s.pollfds) → s.dead = false → (pollFill s ready pfds n acc).1.dead = false := by
  intro pfds
  induction pfds with
  | nil => intro s n acc _ _ hd; simpa [pollFill] using hd
  | cons pfd rest ih =>
    intro s n acc hs hsub hd
    cases n with
    | zero => simpa [pollFill] using hd
    | succ n =>
      rw [pollFill_cons]
      by_cases hact : pollActive (pollRev ready pfd : Int)
      · rw [if_pos hact]
        obtain ⟨d, hd1, hd2, hd3⟩ := hs.slot (hsub pfd (by simp))
        have hnn := pollActive_pos hact
        rw [hd2] at hnn
        have hfst := (entryOf_nonneg hnn).2
        have hcm : s.cmap pfd.1 = some d := by rw [hd2, hfst]; exact hd3
        rw [hcm]
        simp only
        exact ih _ n _ (hs.frame (frame_revents s d _)) (fun p hp => hsub p (by simp [hp])) hd
      · rw [if_neg hact]
        exact ih s (n + 1) acc hs (fun p hp => hsub p (by simp [hp])) hd

/-! ### the invariant of a poll loop along every history -/

/-- a poll loop is alive and its slot invariant holds -/
def PollGood (s : State) : Prop := s.be = .poll ∧ s.dead = false ∧ PollStruct s

theorem pollStruct_empty : PollStruct (empty .poll) :=
  ⟨fun c h => by simp [empty] at h, fun c _ => by simp [empty], fun fd m h => by simp [empty] at h,
    fun i h => by simp [empty] at h⟩

theorem pollGood_applyOp (s : State) (c k) (h : PollGood s) : PollGood (applyOp s c k) := by
  obtain ⟨h1, h2, _⟩ := pollStruct_applyOp h.1 h.2.2 c k
  exact ⟨(applyOp_be s c k).trans h.1, h2.trans h.2.1, h1⟩

theorem pollGood_quiet (s t : State) (q : Quiet s t) (h : PollGood s) : PollGood t := by
  obtain ⟨hh, c, rfl⟩ := q
  exact ⟨h.1, h.2.1, h.2.2.congr rfl rfl (fun _ => rfl) (fun _ => rfl) (fun _ => rfl)⟩

theorem pollGood_cb (s t : State) (q : CbStep s t) (h : PollGood s) : PollGood t := by
  obtain ⟨c, k, _, _, _, rfl⟩ := q
  exact ⟨h.1, h.2.1, h.2.2.congr rfl rfl (fun _ => rfl) (fun _ => rfl) (fun _ => rfl)⟩

theorem pollGood_book (s : State) (it act hh c) (h : PollGood s) :
    PollGood { s with iteration := it, active := act, handling := hh, cur := c } :=
  ⟨h.1, h.2.1, h.2.2.congr rfl rfl (fun _ => rfl) (fun _ => rfl) (fun _ => rfl)⟩

theorem pollGood_poll (s : State) (ready nret) (h : PollGood s) : PollGood (pollerPoll s ready nret).1 := by
  have f := frame_pollerPoll s ready nret
  refine ⟨f.be.trans h.1, ?_, h.2.2.frame f⟩
  unfold pollerPoll
  rw [h.1]
  simp only
  split
  · exact pollFill_alive ready _ _ _ _ (h.2.2.frame (frame_wait s _)) (fun p hp => hp) h.2.1
  · exact h.2.1

theorem pollGood_init : PollGood (init .poll) := by
  have h0 : PollGood (empty .poll) := ⟨rfl, rfl, pollStruct_empty⟩
  have h2 := pollGood_applyOp _ wakeChan .enableR (pollGood_applyOp _ timerChan .enableR h0)
  exact ⟨h2.1, h2.2.1, h2.2.2.congr rfl rfl (fun _ => rfl) (fun _ => rfl) (fun _ => rfl)⟩

theorem pollGood_run (ins : List In) : PollGood (run (init .poll) ins) := by
  have hA : Along (fun _ _ => True) (init .poll) ins := by
    generalize init .poll = s
    induction ins generalizing s with
    | nil => trivial
    | cons i r ih => exact ⟨trivial, ih _⟩
  exact run_induction (Q := fun _ _ => True) pollGood_applyOp pollGood_quiet pollGood_cb
    (fun s ready nret h _ _ => pollGood_poll s ready nret h) pollGood_book ins _ pollGood_init hA

/-! ### refinement: the non-negative `pollfds_` entries are the specification map -/

theorem pollStruct_refines {s : State} (hbe : s.be = .poll) (h : PollStruct s)
    (fd : Int) (mask : Nat) : watched s fd mask ↔ specWatched s fd mask := by
  simp only [watched, hbe, specWatched]
  constructor
  · rintro ⟨hfd, hmem⟩
    obtain ⟨d, hd1, hd2, _⟩ := h.slot hmem
    have hnn : 0 ≤ (entryOf (s.chans d).events d).1 := by rw [← hd2]; exact hfd
    obtain ⟨hne, hfst⟩ := entryOf_nonneg hnn
    have h1 : fd = (entryOf (s.chans d).events d).1 := congrArg Prod.fst hd2
    have h2 : mask = (s.chans d).events := congrArg Prod.snd hd2
    exact ⟨d, h1.trans hfst, hd1, h2.symm, h2 ▸ hne⟩
  · rintro ⟨c, rfl, ha, he, hm⟩
    obtain ⟨_, _, hp⟩ := h.reg c ha
    refine ⟨by unfold fdOf; omega, ?_⟩
    have := List.mem_of_getElem? hp
    rw [he] at this
    simpa [entryOf, hm] using this

end MuduoVerif.Poller
