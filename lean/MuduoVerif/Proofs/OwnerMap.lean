import MuduoVerif.Proofs.OwnerRun
namespace MuduoVerif.Owner
open MuduoVerif.Gen.Owner
open MuduoVerif.Gen.Conn (StateE forceCloseAccepts shutdownAccepts forceCloseInLoopActs destroyedWhileConnected)

/-- what the global invariant says about the map -/
structure MapOK (s : Srv) : Prop where
  keys : ∀ e ∈ s.map, e.1 = (s.conn e.2).name
  nodup : (s.map.map (·.1)).Nodup
  lt : ∀ e ∈ s.map, e.2 < s.n
  names : ∀ c c', c < s.n → c' < s.n → (s.conn c).name = (s.conn c').name → c = c'

theorem filter_key_of_mem (m : List (Nat × Nat)) (hn : (m.map (·.1)).Nodup) (e : Nat × Nat) (he : e ∈ m) :
    m.filter (·.1 == e.1) = [e] := by
  induction m with
  | nil => cases he
  | cons x m ih =>
    simp only [List.map_cons, List.nodup_cons] at hn
    rcases List.mem_cons.mp he with h | h
    · subst h
      have : m.filter (·.1 == e.1) = [] := by
        rw [List.filter_eq_nil_iff]
        intro y hy hk
        exact hn.1 (List.mem_map.mpr ⟨y, hy, by simpa using hk⟩)
      simp [List.filter, this]
    · have hx : (x.1 == e.1) = false := by
        cases hxe : x.1 == e.1 with
        | false => rfl
        | true =>
          have h1 : x.1 = e.1 := beq_iff_eq.mp hxe
          exact absurd (List.mem_map.mpr ⟨e, h, h1.symm⟩) hn.1
      simp [List.filter, hx, ih hn.2 h]

theorem any_congr_mem {α : Type} (l : List α) (f g : α → Bool) (h : ∀ x ∈ l, f x = g x) : l.any f = l.any g := by
  induction l with
  | nil => rfl
  | cons x m ih =>
    simp only [List.any_cons]
    rw [h x List.mem_cons_self, ih (fun e he => h e (List.mem_cons_of_mem _ he))]

theorem inMap_iff (s : Srv) (c : Nat) : s.inMap c = true ↔ ∃ e ∈ s.map, e.2 = c := by
  simp [Srv.inMap, List.any_eq_true]

/-- `connections_.erase(conn->name())` finds exactly the entry of `c` -/
theorem erase_count (s : Srv) (h : MapOK s) (c : Nat) (hc : s.inMap c = true) :
    (s.map.filter (·.1 == (s.conn c).name)).length = 1 := by
  obtain ⟨e, he, hec⟩ := (inMap_iff s c).mp hc
  have := filter_key_of_mem s.map h.nodup e he
  rw [h.keys e he, hec] at this
  rw [this]; rfl

theorem inMap_erase (s : Srv) (h : MapOK s) (c c' : Nat) (hc : c < s.n) (hc' : c' < s.n) :
    (mapErase s.map (s.conn c).name).any (·.2 == c') = (s.inMap c' && decide (c' ≠ c)) := by
  unfold mapErase Srv.inMap
  rw [List.any_filter]
  by_cases hcc : c' = c
  · subst hcc
    simp only [ne_eq, not_true_eq_false, decide_false, Bool.and_false]
    rw [List.any_eq_false]
    intro e he
    have := h.keys e he
    by_cases h2 : e.2 = c' <;> simp_all
  · simp only [ne_eq, hcc, not_false_eq_true, decide_true, Bool.and_true]
    have key : ∀ e ∈ s.map, ((e.1 != (s.conn c).name) && (e.2 == c')) = (e.2 == c') := by
      intro e he
      by_cases h2 : e.2 = c'
      · have hk := h.keys e he
        have : e.1 ≠ (s.conn c).name := by
          intro h3; rw [hk, h2] at h3; exact hcc (h.names c' c hc' hc h3)
        simp [h2, this]
      · simp [h2]
    exact any_congr_mem _ _ _ key


theorem agree_map (s : Srv) (c : Nat) (m : List (Nat × Nat)) (h : m.any (·.2 == c) = s.inMap c) : Agree s { s with map := m } c :=
  ⟨rfl, fun _ => rfl, fun _ => rfl, h, rfl, rfl, rfl, rfl⟩

theorem inMap_ge (s : Srv) (h : MapOK s) (c : Nat) (hc : s.n ≤ c) : s.inMap c = false := by
  cases hi : s.inMap c with
  | false => rfl
  | true =>
    obtain ⟨e, he, hec⟩ := (inMap_iff s c).mp hi
    have := h.lt e he
    omega

theorem inMap_erase_other (s : Srv) (h : MapOK s) (c c' : Nat) (hc : c < s.n) (hne : c' ≠ c) :
    (mapErase s.map (s.conn c).name).any (·.2 == c') = s.inMap c' := by
  by_cases hc' : c' < s.n
  · rw [inMap_erase s h c c' hc hc']; simp [hne]
  · rw [inMap_ge s h c' (by omega)]
    rw [List.any_eq_false]
    intro e he
    have := h.lt e (List.mem_filter.mp he).1
    have : e.2 ≠ c' := by omega
    simpa using this

theorem agree_removeInLoop (s : Srv) (hm : MapOK s) {c c' : Nat} (l : Nat) (hc' : c' < s.n) (h : c' ≠ c) :
    Agree s (removeInLoop s l c') c := by
  unfold removeInLoop
  split
  · simp only [removeGuarded, dtorExpiresToken, Bool.and_self, if_true]; exact Agree.refl s c
  · split
    · exact agree_emit s _ _ h
    · rw [handDestroy_rem]
      refine ((agree_map s c (mapErase s.map (s.conn c').name) ?_).trans (agree_emit _ _ _ h)).trans (agree_enq _ _ ?_)
      · exact inMap_erase_other s hm c' c hc' h.symm
      · simp [about, Task.conn?, h]

theorem inQueues_of_mem {s : Srv} {c l : Nat} {t : Task} (h : t ∈ s.q l) (ht : t.holds c = true) (hl : l ≤ s.L) : s.inQueues c = true := by
  unfold Srv.inQueues
  rw [List.any_eq_true]
  exact ⟨l, List.mem_range.mpr (by omega), by rw [Bool.or_eq_true]; left; exact List.any_eq_true.mpr ⟨t, h, ht⟩⟩

theorem cinv_rem (s : Srv) (hm : MapOK s) (l c : Nat) (rest : List Task) (hq : s.q l = .rem c :: rest) (hc : CInv s c) (hcn : c < s.n) :
    CInv (runTask (pop s l (.rem c) rest) l (.rem c)) c := by
  have hl : l = 0 := by
    apply Decidable.byContradiction; intro h; exact (hc.core.stray l).2 h (hq ▸ List.mem_cons_self)
  subst hl
  have hrn : remN s c = 1 + rest.count (.rem c) := by unfold remN; rw [hq]; simp [List.count_cons]; omega
  have hrow := hc.core.row
  unfold RowP at hrow; rw [hrn] at hrow
  have h0 : (s.conn c).loop ≠ 0 ∧ rest.count (.rem c) = 0 ∧ (s.conn c).st = .kDisconnected := by
    rcases hrow with r|r|r|r|r|r|r|r|r <;> grind
  obtain ⟨hl0, hrest, hdisc⟩ := h0
  have hioq : (pop s 0 (.rem c) rest).q (s.conn c).loop = s.q (s.conn c).loop := by simp [pop_q, hl0]
  obtain ⟨a, ha, hb, hcb, hd, hdead, her⟩ := hc.core.life
  have hsub : ∀ l' u, u ∈ (pop s 0 (.rem c) rest).q l' → u ∈ s.q l' := fun _ _ m => mem_pop hq m
  have hah := hc.alive_held
  unfold Srv.held at hah
  by_cases hsa : s.alive = true
  · -- the server exists: erase, hand `connectDestroyed` back
    have him : s.inMap c = true ∧ (s.conn c).registered = true ∧ ioQ s c = [] := by
      rcases hrow with r|r|r|r|r|r|r|r|r <;> grind
    obtain ⟨him, hreg, hio⟩ := him
    have hk := erase_count s hm c him
    have hrun : runTask (pop s 0 (.rem c) rest) 0 (.rem c) =
        (({ pop s 0 (.rem c) rest with map := mapErase s.map (s.conn c).name }.emit c .erase 0).enq (s.conn c).loop (.des c)) := by
      simp [runTask, removeInLoop, hsa, handDestroy_rem, hk]
    rw [hrun]
    have him' : (mapErase s.map (s.conn c).name).any (·.2 == c) = false := by
      rw [inMap_erase s hm c c hcn hcn]; simp
    refine ⟨⟨?_, ?_, ?_, ?_, ?_, ?_, ?_⟩, ?_, ?_⟩
    · simpa using hc.core.loop_le
    · intro l'
      have := hc.core.stray l'
      simp only [enq_conn, emit_conn, pop_conn, enq_q, emit_q]
      refine ⟨fun h => ?_, fun h => ?_⟩
      · obtain ⟨h1, h2, h3⟩ := this.1 h
        simp only [h, if_false]
        exact ⟨fun m => h1 (hsub _ _ m), fun m => h2 (hsub _ _ m), fun m => h3 (hsub _ _ m)⟩
      · split
        · simp only [List.mem_append, List.mem_singleton, reduceCtorEq, or_false]; exact fun m => this.2 h (hsub _ _ m)
        · exact fun m => this.2 h (hsub _ _ m)
    · unfold RowP ioQ remN Srv.inMap
      simp only [enq_conn, emit_conn, pop_conn, enq_q_self, emit_q, hioq, enq_alive, emit_alive, pop_alive, enq_map, emit_map, him']
      rw [enq_q_other _ _ _ _ hl0.symm]
      simp only [emit_q, pop_q_self, hrest, List.filter_append]
      unfold ioQ at hio
      simp [hio, isIo, hdisc, hreg]
    · simp [hdisc]
    · simpa using hc.core.fd
    · simpa using hc.core.name
    · refine ⟨{ a with erased := true }, ?_, hb, ?_, ?_, ?_, ?_⟩
      · simp only [enq_trace, emit_trace, pop_trace, life_snoc, lifeStep, ha, if_true, Option.bind_some]
        have h1 : a.cb = .down := by rw [hcb, hdisc]; rfl
        have h2 : a.erased = false := by rw [her hsa, him]; rfl
        simp [autoStep, h1, h2]
      · simpa using hcb
      · simpa using hd
      · simpa using hdead
      · intro _; simp [Srv.inMap, him']
    · have hal : (s.conn c).alive = true := by
        rw [hc.alive_held]; unfold Srv.held; simp [him]
      have : ((({ pop s 0 (.rem c) rest with map := mapErase s.map (s.conn c).name }.emit c .erase 0).enq (s.conn c).loop (.des c))).inQueues c = true :=
        inQueues_of_mem (l := (s.conn c).loop) (t := .des c) (by simp) (by simp [Task.holds]) (by simpa using hc.core.loop_le)
      unfold Srv.held
      rw [this]
      simp [hal]
    · simp [hdisc]
  · -- the server is gone: the life token has expired, the functor leaves it alone
    have hsa' : s.alive = false := by simpa using hsa
    have hrun : runTask (pop s 0 (.rem c) rest) 0 (.rem c) = pop s 0 (.rem c) rest := by
      simp [runTask, removeInLoop, hsa', removeGuarded, dtorExpiresToken]
    rw [hrun]
    refine ⟨⟨?_, ?_, ?_, ?_, ?_, ?_, ?_⟩, ?_, ?_⟩
    · simpa using hc.core.loop_le
    · exact stray_sub (by simp) (by simpa using hsub) hc.core.stray
    · unfold RowP ioQ remN
      simp only [pop_conn, hioq, pop_alive, pop_inMap, pop_q_self, hrest]
      unfold ioQ at hrow
      rcases hrow with r|r|r|r|r|r|r|r|r <;> grind
    · simp [hdisc]
    · simpa using hc.core.fd
    · simpa using hc.core.name
    · exact ⟨a, by simpa using ha, hb, hcb, hd, hdead, by intro h; simp [hsa'] at h⟩
    · unfold Srv.held
      have hiq : (pop s 0 (.rem c) rest).inQueues c = s.inQueues c := inQueues_pop s c 0 _ rest hq
      rw [hiq]
      exact hah
    · simp [hdisc]

end MuduoVerif.Owner
