import MuduoVerif.Generated.CodecSkel
/-!
# T1 tie for the statement order of the codec engine (C18)

`Gen.CodecSkel.<fn>` is the statement skeleton `vlib/gen/codecskel.py` extracts from /repo's current
`muduo/net/protobuf/ProtobufCodecLite.cc` / `examples/protobuf/codec/codec.cc` on every run; `Decl.<fn>`
(`Model/CodecSkelDecl.lean`) is the skeleton the corresponding definition of `Model/Codec.lean` (with the decoder loop
of `Model/Stream.lean`) implements.  Each `skeleton_<fn>` is closed by `decide`: it holds exactly as long as the source
performs the same significant actions, in the same order, under the same nesting of the same (generated) guards and
loops as the model.  The guards themselves are tied by `Generated/Codec.lean`.  `Props/C18` re-exports
`skeletons_agree` (`statement_order_tied`), so a change of statement order in one of these functions breaks that
property module.
-/
namespace MuduoVerif.CodecSkel

theorem skeleton_send : Gen.CodecSkel.send = Decl.send := by decide
theorem skeleton_fillEmptyBuffer : Gen.CodecSkel.fillEmptyBuffer = Decl.fillEmptyBuffer := by decide
theorem skeleton_onMessage : Gen.CodecSkel.onMessage = Decl.onMessage := by decide
theorem skeleton_parseFromBuffer : Gen.CodecSkel.parseFromBuffer = Decl.parseFromBuffer := by decide
theorem skeleton_serializeToBuffer : Gen.CodecSkel.serializeToBuffer = Decl.serializeToBuffer := by decide
theorem skeleton_asInt32 : Gen.CodecSkel.asInt32 = Decl.asInt32 := by decide
theorem skeleton_checksum : Gen.CodecSkel.checksum = Decl.checksum := by decide
theorem skeleton_validateChecksum : Gen.CodecSkel.validateChecksum = Decl.validateChecksum := by decide
theorem skeleton_parse : Gen.CodecSkel.parse = Decl.parse := by decide
theorem skeleton_exFillEmptyBuffer : Gen.CodecSkel.exFillEmptyBuffer = Decl.exFillEmptyBuffer := by decide
theorem skeleton_exAsInt32 : Gen.CodecSkel.exAsInt32 = Decl.exAsInt32 := by decide
theorem skeleton_exOnMessage : Gen.CodecSkel.exOnMessage = Decl.exOnMessage := by decide
theorem skeleton_exCreateMessage : Gen.CodecSkel.exCreateMessage = Decl.exCreateMessage := by decide
theorem skeleton_exParse : Gen.CodecSkel.exParse = Decl.exParse := by decide

/-- every extracted skeleton is the declared one -/
theorem skeletons_agree :
    Gen.CodecSkel.send = Decl.send ∧
    Gen.CodecSkel.fillEmptyBuffer = Decl.fillEmptyBuffer ∧
    Gen.CodecSkel.onMessage = Decl.onMessage ∧
    Gen.CodecSkel.parseFromBuffer = Decl.parseFromBuffer ∧
    Gen.CodecSkel.serializeToBuffer = Decl.serializeToBuffer ∧
    Gen.CodecSkel.asInt32 = Decl.asInt32 ∧
    Gen.CodecSkel.checksum = Decl.checksum ∧
    Gen.CodecSkel.validateChecksum = Decl.validateChecksum ∧
    Gen.CodecSkel.parse = Decl.parse ∧
    Gen.CodecSkel.exFillEmptyBuffer = Decl.exFillEmptyBuffer ∧
    Gen.CodecSkel.exAsInt32 = Decl.exAsInt32 ∧
    Gen.CodecSkel.exOnMessage = Decl.exOnMessage ∧
    Gen.CodecSkel.exCreateMessage = Decl.exCreateMessage ∧
    Gen.CodecSkel.exParse = Decl.exParse :=
  ⟨skeleton_send, skeleton_fillEmptyBuffer, skeleton_onMessage, skeleton_parseFromBuffer, skeleton_serializeToBuffer,
   skeleton_asInt32, skeleton_checksum, skeleton_validateChecksum, skeleton_parse, skeleton_exFillEmptyBuffer,
   skeleton_exAsInt32, skeleton_exOnMessage, skeleton_exCreateMessage, skeleton_exParse⟩

end MuduoVerif.CodecSkel
