import MuduoVerif.Proofs.CalendarE
/-! One sixteenth of the 400-year cycle, checked by kernel evaluation (see CalendarCycle.lean). -/
namespace MuduoVerif.CalendarE

theorem cycleDays_2 : checkDays 18264 9132 = true := by decide +kernel

theorem cycleYears_2 : checkYears 50 25 = true := by decide +kernel

end MuduoVerif.CalendarE
