import MuduoVerif.Proofs.LogStream
import Mathlib.Tactic.Ring
import Mathlib.Tactic.Linarith
/-! Exact arithmetic of `formatSI` / `formatIEC` (C17): round-to-nearest-even, int64→double, the correctly rounded quotient, `%.kf`; width certificates checked by `decide`. -/
namespace MuduoVerif.LogStream
open MuduoVerif.Gen.LogStream

/-! ### round to nearest, ties to even -/

theorem rne_cases (a b : Nat) : rne a b = a / b ∨ rne a b = a / b + 1 := by
  unfold rne; simp only; split
  · exact Or.inl rfl
  · split
    · exact Or.inr rfl
    · split
      · exact Or.inl rfl
      · exact Or.inr rfl

theorem rne_ge (a b : Nat) : a / b ≤ rne a b := by
  rcases rne_cases a b with h | h <;> omega

theorem rne_exact (a b : Nat) (hb : 0 < b) (h : a % b = 0) : rne a b = a / b := by
  unfold rne; simp only [h]; simp [hb]

/-- rounding does not cross an integer -/
theorem rne_le (a b z : Nat) (hb : 0 < b) (h : a ≤ z * b) : rne a b ≤ z := by
  have hq : a / b ≤ z := Nat.div_le_of_le_mul (by rwa [Nat.mul_comm])
  by_cases hr : a % b = 0
  · rw [rne_exact a b hb hr]; exact hq
  · have hlt : a / b < z := by
      rcases Nat.lt_or_ge (a / b) z with h1 | h1
      · exact h1
      · have e : a / b = z := by omega
        have := Nat.div_add_mod a b
        rw [e, Nat.mul_comm] at this
        omega
    rcases rne_cases a b with h1 | h1 <;> omega

/-- a value strictly below `z + 1/2` rounds to at most `z` -/
theorem rne_le_of_lt_half (a b z : Nat) (h : 2 * a < (2 * z + 1) * b) : rne a b ≤ z := by
  have hb : 0 < b := by
    rcases Nat.eq_zero_or_pos b with h0 | h0
    · subst h0; simp at h
    · exact h0
  have hdm := Nat.div_add_mod a b
  have hml := Nat.mod_lt a hb
  rcases Nat.lt_trichotomy (a / b) z with h1 | h1 | h1
  · rcases rne_cases a b with h2 | h2 <;> omega
  · have : 2 * (a % b) < b := by
      rw [h1] at hdm
      have e : (2 * z + 1) * b = 2 * (b * z) + b := by ring
      omega
    unfold rne; simp only [this, if_true]; omega
  · exfalso
    have : b * (z + 1) ≤ b * (a / b) := Nat.mul_le_mul_left b h1
    have e : (2 * z + 1) * b = 2 * (b * z) + b := by ring
    have e2 : b * (z + 1) = b * z + b := by ring
    omega

/-! ### `(double) s` -/

theorem log2_lt_iff (n k : Nat) (hk : 0 < k) : n.log2 < k ↔ n < 2 ^ k := by
  rcases Nat.eq_zero_or_pos n with h | h
  · subst h; simp [Nat.log2_zero, hk]
  · exact Nat.log2_lt (by omega)

theorem log2_mono {a b : Nat} (h : a ≤ b) : a.log2 ≤ b.log2 := by
  rcases Nat.eq_zero_or_pos a with h0 | h0
  · subst h0; simp [Nat.log2_zero]
  · rcases Nat.lt_or_ge b.log2 a.log2 with h1 | h1
    · exfalso
      have hb : b ≠ 0 := by omega
      have := (Nat.log2_lt hb).1 h1
      have := Nat.log2_self_le (n := a) (by omega)
      omega
    · exact h1

theorem rne_one (s : Nat) : rne s 1 = s := by
  rw [rne_exact s 1 (by omega) (Nat.mod_one s), Nat.div_one]

/-- one formula for both cases of `rnInt` -/
theorem rnInt_eq (s : Nat) : rnInt s = rne s (2 ^ (s.log2 - 52)) * 2 ^ (s.log2 - 52) := by
  unfold rnInt
  split
  · rename_i h
    have : s.log2 < 53 := (log2_lt_iff s 53 (by omega)).2 h
    have e : s.log2 - 52 = 0 := by omega
    rw [e]; simp [rne_one]
  · rfl

theorem rnInt_small (s : Nat) (h : s < 2 ^ 53) : rnInt s = s := by unfold rnInt; rw [if_pos h]

theorem rnInt_dvd (s : Nat) : 2 ^ (s.log2 - 52) ∣ rnInt s := by
  rw [rnInt_eq]; exact Nat.dvd_mul_left _ _

/-- a representable integer: a multiple of the unit in the last place of its binade -/
def Rep (A : Nat) : Prop := A % 2 ^ (A.log2 - 52) = 0
instance (A : Nat) : Decidable (Rep A) := by unfold Rep; infer_instance

/-- the conversion does not cross a representable number -/
theorem rnInt_le (s A : Nat) (h : s ≤ A) (hr : Rep A) : rnInt s ≤ A := by
  have hu : s.log2 - 52 ≤ A.log2 - 52 := by have := log2_mono h; omega
  have hd : 2 ^ (s.log2 - 52) ∣ A := Nat.dvd_trans (Nat.pow_dvd_pow 2 hu) (Nat.dvd_of_mod_eq_zero hr)
  obtain ⟨z, hz⟩ := hd
  rw [rnInt_eq]
  have := rne_le s (2 ^ (s.log2 - 52)) z (Nat.two_pow_pos _) (by rw [Nat.mul_comm]; omega)
  calc rne s (2 ^ (s.log2 - 52)) * 2 ^ (s.log2 - 52) ≤ z * 2 ^ (s.log2 - 52) := Nat.mul_le_mul_right _ this
    _ = A := by rw [hz, Nat.mul_comm]

theorem rep_two_pow (k : Nat) : Rep (2 ^ k) := by
  unfold Rep
  rw [Nat.log2_two_pow]
  exact Nat.mod_eq_zero_of_dvd (Nat.pow_dvd_pow 2 (by omega))

theorem rnInt_le_pow (s : Nat) : rnInt s ≤ 2 ^ (s.log2 + 1) :=
  rnInt_le s _ (Nat.le_of_lt Nat.lt_log2_self) (rep_two_pow _)

/-- a converted value below a representable `T` is at most the double before `T` -/
theorem rnInt_lt_rep (s T t : Nat) (hd : 2 ^ t ∣ T) (hbig : 2 ^ (52 + t) + 2 ^ t ≤ T) (h : rnInt s < T) :
    rnInt s + 2 ^ t ≤ T := by
  rcases Nat.lt_or_ge (s.log2 - 52) t with hu | hu
  · have h1 := rnInt_le_pow s
    have : 2 ^ (s.log2 + 1) ≤ 2 ^ (52 + t) := Nat.pow_le_pow_right (by omega) (by omega)
    omega
  · have hd2 : 2 ^ t ∣ rnInt s := Nat.dvd_trans (Nat.pow_dvd_pow 2 hu) (rnInt_dvd s)
    obtain ⟨x, hx⟩ := hd2
    obtain ⟨y, hy⟩ := hd
    rw [hx, hy] at h ⊢
    have : x < y := Nat.lt_of_mul_lt_mul_left h
    calc 2 ^ t * x + 2 ^ t = 2 ^ t * (x + 1) := by ring
      _ ≤ 2 ^ t * y := Nat.mul_le_mul_left _ this

/-- small values are never reached from large arguments -/
theorem rnInt_lt_small (s T : Nat) (hT : T ≤ 2 ^ 52) (h : rnInt s < T) : s < T := by
  rcases Nat.lt_or_ge s (2 ^ 53) with h1 | h1
  · rwa [rnInt_small s h1] at h
  · exfalso
    have hl : 53 ≤ s.log2 := by
      rcases Nat.lt_or_ge s.log2 53 with h2 | h2
      · have := (log2_lt_iff s 53 (by omega)).1 h2; omega
      · exact h2
    have h2 : 2 ^ s.log2 ≤ s := Nat.log2_self_le (by omega)
    have e : 2 ^ s.log2 = 2 ^ 52 * 2 ^ (s.log2 - 52) := by rw [← Nat.pow_add]; congr 1; omega
    have h3 : 2 ^ 52 ≤ s / 2 ^ (s.log2 - 52) := by
      rw [Nat.le_div_iff_mul_le (Nat.two_pow_pos _)]; omega
    have h4 := rne_ge s (2 ^ (s.log2 - 52))
    have h5 : 2 ^ 52 * 1 ≤ rne s (2 ^ (s.log2 - 52)) * 2 ^ (s.log2 - 52) :=
      Nat.mul_le_mul (by omega) (Nat.two_pow_pos _)
    rw [rnInt_eq] at h
    omega

/-! ### the correctly rounded quotient -/

theorem aux_lt (a D m P X Y Z : Nat) (hXP : X * P = Y * Z) (hm : m < Y) (h : a * P ≤ m * D) (hD : 0 < D)
    (hZ : 0 < Z) : a * Z < X * D := by
  have h1 : a * Z * P ≤ m * D * Z := by
    calc a * Z * P = a * P * Z := by ring
      _ ≤ m * D * Z := Nat.mul_le_mul_right _ h
  have h2 : m * D * Z < Y * D * Z :=
    Nat.mul_lt_mul_of_pos_right (Nat.mul_lt_mul_of_pos_right hm hD) hZ
  have h3 : a * Z * P < X * D * P := by
    calc a * Z * P ≤ m * D * Z := h1
      _ < Y * D * Z := h2
      _ = X * P * D := by rw [hXP]; ring
      _ = X * D * P := by ring
  exact Nat.lt_of_mul_lt_mul_right h3

theorem pow_split (p : Nat) (hp : p ≤ 116) : (2:Nat) ^ (117 - p) * 2 ^ p = 2 ^ 53 * 2 ^ 64 := by
  rw [← Nat.pow_add, ← Nat.pow_add]; congr 1; omega

theorem rnDiv_exp (a D m p : Nat) (hD : 0 < D) (hm : m < 2 ^ 53) (hp : p ≤ 116) (h : a * 2 ^ p ≤ m * D) :
    (a * 2 ^ 64 / D).log2 ≤ 116 - p := by
  have hlt : a * 2 ^ 64 / D < 2 ^ (117 - p) := by
    rw [Nat.div_lt_iff_lt_mul hD]
    exact aux_lt a D m (2 ^ p) (2 ^ (117 - p)) (2 ^ 53) (2 ^ 64) (pow_split p hp) hm h hD (Nat.two_pow_pos _)
  have := (log2_lt_iff _ (117 - p) (by omega)).2 hlt
  omega

theorem rne_scaled_le (a D m j p : Nat) (hD : 0 < D) (hjp : p ≤ 116 - j) (h : a * 2 ^ p ≤ m * D) :
    rne (a * 2 ^ (116 - j)) D * 2 ^ p ≤ m * 2 ^ (116 - j) := by
  have e : (2:Nat) ^ (116 - j) = 2 ^ (116 - j - p) * 2 ^ p := by rw [← Nat.pow_add]; congr 1; omega
  generalize (2:Nat) ^ (116 - j) = S at *
  generalize (2:Nat) ^ (116 - j - p) = R at *
  generalize (2:Nat) ^ p = P at *
  subst e
  have hz : rne (a * (R * P)) D ≤ m * R := by
    apply rne_le _ _ _ hD
    calc a * (R * P) = a * P * R := by ring
      _ ≤ m * D * R := Nat.mul_le_mul_right _ h
      _ = m * R * D := by ring
  calc rne (a * (R * P)) D * P ≤ m * R * P := Nat.mul_le_mul_right _ hz
    _ = m * (R * P) := by ring

theorem rnDiv_small (a b : Nat) (h : (a * 2 ^ 64 / b).log2 ≤ 116) :
    rnDiv a b = (rne (a * 2 ^ (116 - (a * 2 ^ 64 / b).log2)) b, 2 ^ (116 - (a * 2 ^ 64 / b).log2)) := by
  show (if (a * 2 ^ 64 / b).log2 ≤ 116 then _ else _) = _
  rw [if_pos h]

/-- the quotient does not cross a double `m / 2^p` (`m < 2^53`) -/
theorem rnDiv_le (a D m p : Nat) (hD : 0 < D) (hm : m < 2 ^ 53) (hp : p ≤ 116) (h : a * 2 ^ p ≤ m * D) :
    (rnDiv a D).1 * 2 ^ p ≤ m * (rnDiv a D).2 ∧ 0 < (rnDiv a D).2 := by
  have hj := rnDiv_exp a D m p hD hm hp h
  rw [rnDiv_small a D (Nat.le_trans hj (Nat.sub_le _ _))]
  exact ⟨rne_scaled_le a D m _ p hD (by omega) h, Nat.two_pow_pos _⟩

/-- `%.kf` of a value below `(L / 2) / 10^k` with `L = 2 z + 1` prints at most `z` (in units of the last digit) -/
theorem fixedR_le (k : Nat) (q : Nat × Nat) (m p z : Nat) (hq : q.1 * 2 ^ p ≤ m * q.2) (hq2 : 0 < q.2)
    (hm : 2 * m * 10 ^ k < (2 * z + 1) * 2 ^ p) : fixedR k q ≤ z := by
  unfold fixedR
  apply rne_le_of_lt_half
  have h1 : 2 * (q.1 * 10 ^ k) * 2 ^ p ≤ 2 * m * 10 ^ k * q.2 := by
    calc 2 * (q.1 * 10 ^ k) * 2 ^ p = (q.1 * 2 ^ p) * (2 * 10 ^ k) := by ring
      _ ≤ (m * q.2) * (2 * 10 ^ k) := Nat.mul_le_mul_right _ hq
      _ = 2 * m * 10 ^ k * q.2 := by ring
  have h2 : 2 * m * 10 ^ k * q.2 < (2 * z + 1) * 2 ^ p * q.2 := Nat.mul_lt_mul_of_pos_right hm hq2
  have h3 : 2 * (q.1 * 10 ^ k) * 2 ^ p < (2 * z + 1) * q.2 * 2 ^ p := by
    calc 2 * (q.1 * 10 ^ k) * 2 ^ p ≤ 2 * m * 10 ^ k * q.2 := h1
      _ < (2 * z + 1) * 2 ^ p * q.2 := h2
      _ = (2 * z + 1) * q.2 * 2 ^ p := by ring
  exact Nat.lt_of_mul_lt_mul_right h3

/-! ### the text of `%.kf` -/

theorem renderFixed_length (k r d : Nat) (hd : k + 1 ≤ d) (hr : r < 10 ^ d) :
    (renderFixed k r).length ≤ d + (if k = 0 then 0 else 1) := by
  have hl : (decimalNat r).length ≤ d := by
    obtain ⟨d', rfl⟩ : ∃ d', d = d' + 1 := ⟨d - 1, by omega⟩
    exact decimalNat_length_le d' r hr
  unfold renderFixed
  simp only
  split
  · simp only [List.length_append, List.length_replicate]; omega
  · simp only [List.length_append, List.length_replicate, List.length_take, List.length_drop, List.length_singleton]
    omega

/-! ### width of one `formatSI` branch, by a checked certificate -/

/-- `siFormat` as a function of the converted value `n = (double) s` -/
def siFmtN (n k e : Nat) (unit : Bytes) : Bytes := renderFixed k (fixedR k (rnDiv n (10 ^ e))) ++ unit

theorem siFormat_eq (s k e : Nat) (unit : Bytes) : siFormat s k e unit = siFmtN (rnInt s) k e unit := rfl

/-- digits the number may have (in units of its last digit) so that the text has at most `w` characters -/
def digitsFor (w k : Nat) (unit : Bytes) : Nat := w - unit.length - (if k = 0 then 0 else 1)

/-- the largest double below `(10^d − 1/2) / 10^k` — the first value `%.kf` would print with more than `d` digits — as `m / 2^p` -/
def yBelow (d k : Nat) : Nat × Nat :=
  let L := 2 * 10 ^ d - 1
  let p := 52 - (L / (2 * 10 ^ k)).log2
  ((L * 2 ^ p - 1) / (2 * 10 ^ k), p)

/-- certificate: every converted value `n ≤ A` is printed by `"%.<k>f<unit>"` of `n / 10^e` in at most `w` characters,
because `A / 10^e` is not above a double that still prints `d` digits -/
def boundOK (w A k e : Nat) (unit : Bytes) : Bool :=
  let d := digitsFor w k unit
  let y := yBelow d k
  decide (k + 1 ≤ d ∧ y.1 < 2 ^ 53 ∧ y.2 ≤ 116 ∧ A * 2 ^ y.2 ≤ y.1 * 10 ^ e ∧
    2 * y.1 * 10 ^ k < (2 * (10 ^ d - 1) + 1) * 2 ^ y.2 ∧ d + (if k = 0 then 0 else 1) + unit.length ≤ w)

theorem boundOK_sound (w A k e : Nat) (unit : Bytes) (h : boundOK w A k e unit = true) (n : Nat) (hn : n ≤ A) :
    (siFmtN n k e unit).length ≤ w := by
  unfold boundOK at h
  simp only [decide_eq_true_eq] at h
  obtain ⟨h1, h2, h3, h4, h5, h6⟩ := h
  generalize digitsFor w k unit = d at *
  generalize yBelow d k = y at *
  have hq := rnDiv_le n (10 ^ e) y.1 y.2 (Nat.pow_pos (by omega)) h2 h3
    (Nat.le_trans (Nat.mul_le_mul_right _ hn) h4)
  have hr := fixedR_le k (rnDiv n (10 ^ e)) y.1 y.2 (10 ^ d - 1) hq.1 hq.2 h5
  have hpos : 0 < 10 ^ d := Nat.pow_pos (by omega)
  have := renderFixed_length k (fixedR k (rnDiv n (10 ^ e))) d h1 (by omega)
  unfold siFmtN
  simp only [List.length_append]
  omega

/-- certificate for all `n ≤ A`, `A` a double: either as above, or `A` itself is evaluated and the doubles below `A`
are covered as above (needed where `A / 10^e` is exactly a rounding boundary of `%.kf`) -/
def rowOK (w A k e : Nat) (unit : Bytes) : Bool :=
  boundOK w A k e unit ||
    (decide ((siFmtN A k e unit).length ≤ w ∧ A % 2 ^ ((A - 1).log2 - 52) = 0 ∧
        2 ^ (52 + ((A - 1).log2 - 52)) + 2 ^ ((A - 1).log2 - 52) ≤ A) &&
      boundOK w (A - 2 ^ ((A - 1).log2 - 52)) k e unit)

theorem rowOK_sound (w A k e : Nat) (unit : Bytes) (h : rowOK w A k e unit = true) (s : Nat) (hs : rnInt s ≤ A) :
    (siFormat s k e unit).length ≤ w := by
  rw [siFormat_eq]
  unfold rowOK at h
  rw [Bool.or_eq_true] at h
  rcases h with h | h
  · exact boundOK_sound w A k e unit h _ hs
  · rw [Bool.and_eq_true, decide_eq_true_eq] at h
    obtain ⟨⟨h1, h2, h3⟩, h4⟩ := h
    rcases Nat.lt_or_ge (rnInt s) A with hlt | hge
    · have := rnInt_lt_rep s A _ (Nat.dvd_of_mod_eq_zero h2) h3 hlt
      exact boundOK_sound w _ k e unit h4 _ (by omega)
    · have : rnInt s = A := by omega
      rw [this]; exact h1

/-- the smallest double that is not below `x` -/
def repUp (x : Nat) : Nat := (x + 2 ^ (x.log2 - 52) - 1) / 2 ^ (x.log2 - 52) * 2 ^ (x.log2 - 52)

def siRowCheck (row : Bool × Nat × Nat × Nat × Bytes) : Bool :=
  if row.1 then
    -- the branch is taken when the *converted* value is below the bound
    decide (row.2.1 % 2 ^ ((row.2.1 - 1).log2 - 52) = 0 ∧
        2 ^ (52 + ((row.2.1 - 1).log2 - 52)) + 2 ^ ((row.2.1 - 1).log2 - 52) ≤ row.2.1) &&
      rowOK 5 (row.2.1 - 2 ^ ((row.2.1 - 1).log2 - 52)) row.2.2.1 row.2.2.2.1 row.2.2.2.2
  else
    -- the branch is taken when the integer itself is below the bound: its conversion may round up
    decide (Rep (repUp (row.2.1 - 1)) ∧ row.2.1 ≤ repUp (row.2.1 - 1) + 1) &&
      rowOK 5 (repUp (row.2.1 - 1)) row.2.2.1 row.2.2.2.1 row.2.2.2.2

theorem siRowCheck_sound (row : Bool × Nat × Nat × Nat × Bytes) (h : siRowCheck row = true) (s : Nat)
    (hc : (if row.1 then rnInt s else s) < row.2.1) :
    (siFormat s row.2.2.1 row.2.2.2.1 row.2.2.2.2).length ≤ 5 := by
  unfold siRowCheck at h
  split at h
  · rename_i hd
    rw [if_pos hd] at hc
    rw [Bool.and_eq_true, decide_eq_true_eq] at h
    obtain ⟨⟨h1, h2⟩, h3⟩ := h
    have := rnInt_lt_rep s _ _ (Nat.dvd_of_mod_eq_zero h1) h2 hc
    exact rowOK_sound 5 _ _ _ _ h3 s (by omega)
  · rename_i hd
    rw [if_neg hd] at hc
    rw [Bool.and_eq_true, decide_eq_true_eq] at h
    obtain ⟨⟨h1, h2⟩, h3⟩ := h
    exact rowOK_sound 5 _ _ _ _ h3 s (rnInt_le s _ (by omega) h1)

/-- the whole cascade, for arguments below `2^63` -/
def siTableCheck : List (Bool × Nat × Nat × Nat × Bytes) → Bool
  | [] => rowOK 5 (2 ^ 63) siLast.1 siLast.2.1 siLast.2.2
  | row :: rest => siRowCheck row && siTableCheck rest

theorem siGo_length (rows : List (Bool × Nat × Nat × Nat × Bytes)) (h : siTableCheck rows = true) (s : Nat)
    (hs : s < 2 ^ 63) : (siGo s rows).length ≤ 5 := by
  induction rows with
  | nil =>
    exact rowOK_sound 5 _ _ _ _ h s (rnInt_le s _ (by omega) (rep_two_pow 63))
  | cons row rest ih =>
    obtain ⟨onD, thr, k, e, u⟩ := row
    simp only [siTableCheck, Bool.and_eq_true] at h
    simp only [siGo]
    by_cases hc : (if onD = true then rnInt s else s) < thr
    · rw [if_pos hc]
      exact siRowCheck_sound (onD, thr, k, e, u) h.1 s hc
    · rw [if_neg hc]; exact ih h.2

/-! ### `formatIEC`: the division by a power of two is exact -/

def iecBoundOK (w A k j : Nat) (unit : Bytes) : Bool :=
  let d := digitsFor w k unit
  decide (k + 1 ≤ d ∧ 2 * (A * 10 ^ k) < (2 * (10 ^ d - 1) + 1) * 2 ^ j ∧ d + (if k = 0 then 0 else 1) + unit.length ≤ w)

theorem iecBoundOK_sound (w A k j : Nat) (unit : Bytes) (h : iecBoundOK w A k j unit = true) (n : Nat) (hn : n ≤ A) :
    (iecFormat n k j unit).length ≤ w := by
  unfold iecBoundOK at h
  simp only [decide_eq_true_eq] at h
  obtain ⟨h1, h2, h3⟩ := h
  generalize digitsFor w k unit = d at *
  have hr : fixedR k (n, 2 ^ j) ≤ 10 ^ d - 1 := by
    unfold fixedR
    apply rne_le_of_lt_half
    have : 2 * (n * 10 ^ k) ≤ 2 * (A * 10 ^ k) := Nat.mul_le_mul_left _ (Nat.mul_le_mul_right _ hn)
    show 2 * (n * 10 ^ k) < (2 * (10 ^ d - 1) + 1) * 2 ^ j
    omega
  have hpos : 0 < 10 ^ d := Nat.pow_pos (by omega)
  have := renderFixed_length k (fixedR k (n, 2 ^ j)) d h1 (by omega)
  unfold iecFormat
  simp only [List.length_append]
  omega

def iecTableCheck : List (Nat × Nat × Nat × Nat × Bytes) → Bool
  | [] => iecBoundOK 6 (2 ^ 63) iecLast.1 iecLast.2.1 iecLast.2.2
  | row :: rest =>
    decide (0 < row.2.1) && iecBoundOK 6 ((row.1 - 1) / row.2.1) row.2.2.1 row.2.2.2.1 row.2.2.2.2 && iecTableCheck rest

theorem iecGo_length (rows : List (Nat × Nat × Nat × Nat × Bytes)) (h : iecTableCheck rows = true) (n : Nat)
    (hn : n ≤ 2 ^ 63) : (iecGo n rows).length ≤ 6 := by
  induction rows with
  | nil => exact iecBoundOK_sound 6 _ _ _ _ h n hn
  | cons row rest ih =>
    obtain ⟨num, den, k, j, u⟩ := row
    simp only [iecTableCheck, Bool.and_eq_true, decide_eq_true_eq] at h
    simp only [iecGo]
    split
    · rename_i hc
      have : n ≤ (num - 1) / den := by
        rw [Nat.le_div_iff_mul_le h.1.1]; omega
      exact iecBoundOK_sound 6 _ _ _ _ h.1.2 n this
    · exact ih h.2

/-! ### `formatIEC`: the compared value is a `double` -/

/-- the largest value of `n = (double) s` that satisfies `n < num/den`: for an integer bound that is itself a
`double` of a binade with unit `2^t`, the `double` in front of it; otherwise the largest integer below the bound -/
def iecRowBound (num den : Nat) : Nat :=
  if den = 1 ∧ 2 ^ (num.log2 - 52) ∣ num ∧ 2 ^ (52 + (num.log2 - 52)) + 2 ^ (num.log2 - 52) ≤ num
  then num - 2 ^ (num.log2 - 52) else (num - 1) / den

theorem iecRowBound_sound (num den s : Nat) (hden : 0 < den) (h : rnInt s * den < num) : rnInt s ≤ iecRowBound num den := by
  unfold iecRowBound
  split
  · rename_i hc
    obtain ⟨h1, h2, h3⟩ := hc
    subst h1
    have := rnInt_lt_rep s num (num.log2 - 52) h2 h3 (by simpa using h)
    omega
  · rw [Nat.le_div_iff_mul_le hden]; omega

def iecTableCheckD : List (Nat × Nat × Nat × Nat × Bytes) → Bool
  | [] => iecBoundOK 6 (2 ^ 63) iecLast.1 iecLast.2.1 iecLast.2.2
  | row :: rest =>
    decide (0 < row.2.1) && iecBoundOK 6 (iecRowBound row.1 row.2.1) row.2.2.1 row.2.2.2.1 row.2.2.2.2 && iecTableCheckD rest

theorem iecGo_length_double (rows : List (Nat × Nat × Nat × Nat × Bytes)) (h : iecTableCheckD rows = true) (s : Nat)
    (hn : rnInt s ≤ 2 ^ 63) : (iecGo (rnInt s) rows).length ≤ 6 := by
  induction rows with
  | nil => exact iecBoundOK_sound 6 _ _ _ _ h _ hn
  | cons row rest ih =>
    obtain ⟨num, den, k, j, u⟩ := row
    simp only [iecTableCheckD, Bool.and_eq_true, decide_eq_true_eq] at h
    simp only [iecGo]
    split
    · rename_i hc
      exact iecBoundOK_sound 6 _ _ _ _ h.1.2 _ (iecRowBound_sound num den s h.1.1 hc)
    · exact ih h.2

theorem iecTable_ok : iecTableCheckD iecTable = true := by decide +kernel

end MuduoVerif.LogStream
