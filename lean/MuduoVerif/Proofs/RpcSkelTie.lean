import MuduoVerif.Generated.RpcSkel
/-!
# T1 tie for the statement order of the RPC engine (C19)

`Gen.RpcSkel.<fn>` is the statement skeleton `vlib/gen/rpcskel.py` extracts from /repo's current `RpcChannel.cc` /
`RpcServer.cc` on every run; `Decl.<fn>` (`Model/RpcSkelDecl.lean`) is the skeleton the corresponding definitions of
`Model/Rpc.lean` implement.  Each `skeleton_<fn>` is closed by `decide`: it holds exactly as long as the source performs
the same significant actions, in the same order, under the same nesting of the same sites (`if`s, lock scopes, the
loop of the destructor) as the model.  The guards, counts and the decision tree themselves are tied by
`Generated/Rpc.lean`.  `Props/C19` re-exports `skeletons_agree` (`statement_order_tied`), so a change of statement order
in one of these functions breaks that property module.
-/
namespace MuduoVerif.RpcSkel

theorem skeleton_dtor : Gen.RpcSkel.dtor = Decl.dtor := by decide
theorem skeleton_callMethod : Gen.RpcSkel.callMethod = Decl.callMethod := by decide
theorem skeleton_onMessage : Gen.RpcSkel.onMessage = Decl.onMessage := by decide
theorem skeleton_onRpcMessage : Gen.RpcSkel.onRpcMessage = Decl.onRpcMessage := by decide
theorem skeleton_doneCallback : Gen.RpcSkel.doneCallback = Decl.doneCallback := by decide
theorem skeleton_onConnection : Gen.RpcSkel.onConnection = Decl.onConnection := by decide

/-- every extracted skeleton is the declared one -/
theorem skeletons_agree :
    Gen.RpcSkel.dtor = Decl.dtor ∧
    Gen.RpcSkel.callMethod = Decl.callMethod ∧
    Gen.RpcSkel.onMessage = Decl.onMessage ∧
    Gen.RpcSkel.onRpcMessage = Decl.onRpcMessage ∧
    Gen.RpcSkel.doneCallback = Decl.doneCallback ∧
    Gen.RpcSkel.onConnection = Decl.onConnection :=
  ⟨skeleton_dtor, skeleton_callMethod, skeleton_onMessage, skeleton_onRpcMessage, skeleton_doneCallback,
   skeleton_onConnection⟩

end MuduoVerif.RpcSkel
